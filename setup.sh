#!/bin/sh
# Offline build of the framework after a fresh restore: regenerate the data files from /repo, build the Lean library
# (all Props, Proofs, Model, Spec), the model driver, and pre-build the harness flavours the quick checks use.
set -e
cd "$(dirname "$0")"
python3 tools/gen_tables.py
(cd lean && lake build && lake build driver)
python3 tools/prebuild.py
