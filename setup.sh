#!/bin/sh
cd "$(dirname "$0")" && python3 tools/gen_tables.py && cd lean && lake build
