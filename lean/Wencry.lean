import Wencry.Basic
import Wencry.Generated.Tables
import Wencry.Generated.Consts
