/-
The interactive dialogue (Model/Dialog.lean): when the user answers the encryption dialogue one answer per line, the parameters
handed to `main` are exactly what was typed — in particular the seed of the IV chain (C18) is the typed seed and the key (C06) is
the decoded key text, for every file name, key text, mode pair and seed.
-/
import Wencry.Model.Dialog
import Wencry.Proofs.Base64Correct
namespace Wencry.Proofs.Dialog
open Wencry Wencry.Model Wencry.Model.Dialog

/-- a token `scanf("%s")` reads back unchanged: non-empty, no white space -/
def IsWord (t : Bytes) : Prop := t ≠ [] ∧ ∀ c ∈ t, isWs c = false

theorem dropWhile_pre {α} (p : α → Bool) (pre l : List α) (h : ∀ c ∈ pre, p c = true) :
    (pre ++ l).dropWhile p = l.dropWhile p := by
  induction pre with
  | nil => rfl
  | cons a pre ih =>
    simp only [List.cons_append, List.dropWhile_cons, h a (by simp), if_true]
    exact ih (fun c hc => h c (by simp [hc]))

theorem takeWhile_stop {α} (p : α → Bool) (t : List α) (x : α) (rest : List α) (h : ∀ c ∈ t, p c = true) (hx : p x = false) :
    (t ++ x :: rest).takeWhile p = t ∧ (t ++ x :: rest).dropWhile p = x :: rest := by
  induction t with
  | nil => simp [hx]
  | cons a t ih =>
    have := ih (fun c hc => h c (by simp [hc]))
    simp [h a (by simp), this]

theorem isWs_10 : isWs 10 = true := by decide

theorem readTok_word (t rest : Bytes) (ht : IsWord t) (pre : Bytes) (hpre : ∀ c ∈ pre, isWs c = true) :
    readTok (pre ++ t ++ 10 :: rest) = some (t, 10 :: rest) := by
  obtain ⟨hne, hw⟩ := ht
  have h1 : (t ++ 10 :: rest).dropWhile isWs = t ++ 10 :: rest := by
    cases t with
    | nil => exact absurd rfl hne
    | cons a t => simp [hw a (by simp)]
  have h2 := takeWhile_stop (fun c => !isWs c) t 10 rest (by intro c hc; simp [hw c hc]) (by show (!isWs 10) = false; decide)
  unfold readTok
  simp only [List.append_assoc, dropWhile_pre isWs pre _ hpre, h1, h2.1, h2.2]
  cases t with
  | nil => exact absurd rfl hne
  | cons a t => rfl

/-- decimal rendering of a small number, as bytes -/
def digit (n : Nat) : Bytes := [BitVec.ofNat 8 (48 + n)]

theorem digit_facts : ∀ n : Fin 10, let d : Byte := BitVec.ofNat 8 (48 + n.val)
    isDigit d = true ∧ isWs d = false ∧ d ≠ 45 ∧ d ≠ 43 ∧ d.toNat - 48 = n.val := by decide

theorem isDigit_10 : isDigit 10 = false := by decide

theorem readInt_one (d : Byte) (hd : isDigit d = true) (hw : isWs d = false) (h45 : d ≠ 45) (h43 : d ≠ 43)
    (rest pre : Bytes) (hpre : ∀ c ∈ pre, isWs c = true) :
    readInt (pre ++ [d] ++ 10 :: rest) = some (((d.toNat - 48 : Nat) : Int), 10 :: rest) := by
  have h2 := takeWhile_stop isDigit [d] 10 rest (by simpa using hd) isDigit_10
  simp only [List.cons_append, List.nil_append] at h2
  have h1 : (pre ++ [d] ++ 10 :: rest).dropWhile isWs = d :: 10 :: rest := by
    simp [dropWhile_pre isWs pre _ hpre, hw]
  unfold readInt
  rw [h1]
  simp only []
  rw [if_neg h45, if_neg h43]
  simp only []
  rw [h2.1, h2.2]
  simp

theorem readInt_digit (n : Nat) (hn : n < 10) (rest : Bytes) (pre : Bytes) (hpre : ∀ c ∈ pre, isWs c = true) :
    readInt (pre ++ digit n ++ 10 :: rest) = some ((n : Int), 10 :: rest) := by
  obtain ⟨a, b, c, d, e⟩ := digit_facts ⟨n, hn⟩
  have := readInt_one _ a b c d rest pre hpre
  simp only at e
  rw [e] at this
  exact this

theorem ws_pre10 : ∀ c ∈ ([10] : Bytes), isWs c = true := by
  intro c hc
  rw [List.mem_singleton] at hc
  subst hc
  exact isWs_10

theorem readTok_nl (t rest : Bytes) (ht : IsWord t) : readTok (10 :: (t ++ 10 :: rest)) = some (t, 10 :: rest) := by
  simpa using readTok_word t rest ht [10] ws_pre10

theorem readInt_nl (n : Nat) (hn : n < 10) (rest : Bytes) : readInt (10 :: (digit n ++ 10 :: rest)) = some ((n : Int), 10 :: rest) := by
  simpa using readInt_digit n hn rest [10] ws_pre10

theorem readFile_nl (opens : Bytes → Bool) (t rest : Bytes) (ht : IsWord t) (hl : t.length < 128) (ho : opens t = true) (fuel : Nat) :
    readFile opens (fuel + 1) (10 :: (t ++ 10 :: rest)) = some (t, 10 :: rest) := by
  unfold readFile
  rw [readTok_nl t rest ht]
  simp only [ge_iff_le, Nat.not_le.2 hl, if_false, ho, if_true]

theorem readKey_nl (t rest key : Bytes) (ht : IsWord t) (hl : t.length < 128) (hv : Base64.isValidB64 t = true)
    (hdec : Base64.getArgsKey t = .ok (some key)) (fuel : Nat) :
    readKey (fuel + 1) (10 :: (t ++ 10 :: rest)) = some (key, 10 :: rest) := by
  unfold readKey
  rw [readTok_nl t rest ht]
  simp only [ge_iff_le, Nat.not_le.2 hl, if_false, hv, if_true, hdec]

theorem readMode_nl (check : Int → Bool) (n : Nat) (hn : n < 10) (hc : check (n : Int) = true) (rest : Bytes) (fuel : Nat) :
    readMode check (fuel + 1) (10 :: (digit n ++ 10 :: rest)) = some ((n : Int), 10 :: rest) := by
  unfold readMode
  rw [readInt_nl n hn rest]
  have h1 : ¬ ((n : Int) < -2147483648 ∨ (n : Int) > 2147483647) := by omega
  simp only [h1, if_false, hc, if_true]

theorem readFlag_n (rest : Bytes) : readFlag (10 :: 110 :: rest) = some (110, rest) := by
  simp [readFlag]

theorem alpha_notWs : ∀ c : Byte, Spec.Base64.isAlphabet c = true ∨ c = Base64.eqChar → isWs c = false := by decide +kernel

theorem key_word (keyText : Bytes) (hkey : Base64.isValidB64 keyText = true) : IsWord keyText ∧ keyText.length < 128 := by
  obtain ⟨body, hb1, hb2, rfl⟩ := (Wencry.Proofs.Base64.isValidB64_iff_body keyText).1 hkey
  refine ⟨⟨by simp, ?_⟩, by simp [hb1]⟩
  intro c hc
  apply alpha_notWs
  simp only [List.mem_append, List.mem_cons, List.not_mem_nil, or_false, or_self] at hc
  rcases hc with hc | hc
  · exact Or.inl (hb2 c hc)
  · exact Or.inr hc

theorem checkC (c : Nat) (hc : 1 ≤ c ∧ c ≤ 4) : Cli.checkCtype (c : Int) = true := by
  simp only [Cli.checkCtype, decide_eq_true_eq]; omega
theorem checkH (h : Nat) (hh : h ≤ 2) : Cli.checkHtype (h : Int) = true := by
  simp only [Cli.checkHtype, decide_eq_true_eq]; omega

/-- the dialogue script with single-digit mode numbers (all valid modes are single digits) -/
def scriptE (file keyText : Bytes) (c h : Nat) (seed : Bytes) : Bytes :=
  [101, 10] ++ file ++ [10, 110, 10] ++ keyText ++ [10] ++ digit c ++ [10] ++ digit h ++ [10] ++ seed ++ [10]

/-- **the typed seed is the seed** (non-ECB modes): for every file name that opens, every accepted key text, every valid mode pair
    and every seed word shorter than the buffer, the dialogue yields exactly these parameters -/
theorem dialogue_scriptE (opens : Bytes → Bool) (file keyText seed key : Bytes) (c h : Nat)
    (hfile : IsWord file) (hflen : file.length < 128) (hopen : opens file = true)
    (hkey : Base64.isValidB64 keyText = true) (hdec : Base64.getArgsKey keyText = .ok (some key))
    (hc : 1 ≤ c ∧ c ≤ 4) (hh : h ≤ 2) (hseed : IsWord seed) (hslen : seed.length < 256) :
    dialogue opens (scriptE file keyText c h seed) =
      some { mode := 101, file := file, key := some key, ctype := c, htype := h, seed := some seed, out := some (baseName file ++ dot_wenc) } := by
  obtain ⟨hkw, hkl⟩ := key_word keyText hkey
  unfold dialogue scriptE
  simp only [List.append_assoc, List.cons_append, List.nil_append]
  simp only [show ∀ n : Nat, n + 2 = (n + 1) + 1 from fun _ => rfl]
  rw [readFile_nl opens file _ hfile hflen hopen]
  simp only [true_or, if_true, readFlag_n]
  rw [if_neg (by decide)]
  rw [readKey_nl keyText _ key hkw hkl hkey hdec]
  simp only [Option.map_some]
  rw [readMode_nl _ c (by omega) (checkC c hc)]
  simp only []
  rw [readMode_nl _ h (by omega) (checkH h hh)]
  simp only []
  rw [if_neg (by omega)]
  rw [readTok_nl seed [] hseed]
  simp only [ge_iff_le, Nat.not_le.2 hslen, if_false]

/-- two different typed seeds give different seeds to `main` -/
theorem typed_seeds_distinct (opens : Bytes → Bool) (file keyText seed seed' key : Bytes) (c h : Nat)
    (hfile : IsWord file) (hflen : file.length < 128) (hopen : opens file = true)
    (hkey : Base64.isValidB64 keyText = true) (hdec : Base64.getArgsKey keyText = .ok (some key))
    (hc : 1 ≤ c ∧ c ≤ 4) (hh : h ≤ 2) (hseed : IsWord seed) (hslen : seed.length < 256) (hseed' : IsWord seed') (hslen' : seed'.length < 256)
    (hne : seed ≠ seed') :
    (dialogue opens (scriptE file keyText c h seed)).map (·.seed) ≠ (dialogue opens (scriptE file keyText c h seed')).map (·.seed) := by
  rw [dialogue_scriptE opens file keyText seed key c h hfile hflen hopen hkey hdec hc hh hseed hslen,
    dialogue_scriptE opens file keyText seed' key c h hfile hflen hopen hkey hdec hc hh hseed' hslen']
  simp only [Option.map_some, ne_eq, Option.some.injEq]
  exact hne


/-- non-vacuity: a concrete dialogue (file "a", the key text of sixteen zero bytes, CBC, SHA-1, seed "xy") -/
example : dialogue (fun p => p == [97]) (scriptE [97] (Spec.Base64.encode (List.replicate 16 0)) 1 0 [120, 121]) =
    some { mode := 101, file := [97], key := some (List.replicate 16 0), ctype := 1, htype := 0, seed := some [120, 121], out := some ([97] ++ dot_wenc) } := by
  decide +kernel

end Wencry.Proofs.Dialog
