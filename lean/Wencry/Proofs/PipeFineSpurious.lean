/-
Mutex level with spurious wake-ups (Model/PipeFineSpurious.lean) refines the coarse system with spurious wake-ups
(Model/PipeSpurious.lean): a fine spurious wake-up is invisible (when a notification was already pending) or is exactly a coarse
spurious wake-up; hence all safety theorems and deadlock freedom hold at mutex level under spurious wake-ups, and an execution with
finitely many spurious wake-ups is finite.
-/
import Wencry.Model.PipeFineSpurious
import Wencry.Proofs.PipeFine
import Wencry.Proofs.PipeSpurious
namespace Wencry.Proofs.PipeFineSpurious
open Wencry Wencry.Model.Pipe Wencry.Model.PipeFine Wencry.Model.PipeSpurious Wencry.Model.PipeFineSpurious Wencry.Model.IoBuffer
open Wencry.Proofs.PipeCtl Wencry.Proofs.PipeProgress Wencry.Proofs.PipeData Wencry.Proofs.PipeFine

variable {σ : Type}

/-- what a fine spurious wake-up does -/
theorem fspurious_cases (T : Nat) (s s' : FSt σ) (tid : Tid) (hs : fspurious T s tid = some s') :
    (tid = none ∧ s.fio = .wuSleep ∧ s' = { s with fio := .wuReacq }) ∨
    (∃ i, tid = some i ∧ i < T ∧ s.fw i = .wrSleep ∧ s' = { s with fw := upd s.fw i .wrReacq }) ∨
    (∃ i, tid = some i ∧ i < T ∧ s.fw i = .initSleep ∧ s' = { s with fw := upd s.fw i .initReacq }) := by
  cases tid with
  | none =>
    simp only [fspurious] at hs
    split at hs
    · rename_i h; simp only [Option.some.injEq] at hs; exact Or.inl ⟨rfl, h, hs.symm⟩
    · simp at hs
  | some i =>
    simp only [fspurious] at hs
    split at hs
    · rename_i hi
      split at hs
      · rename_i hp; simp only [Option.some.injEq] at hs
        exact Or.inr (Or.inl ⟨i, rfl, hi, hp, hs.symm⟩)
      · rename_i hp; simp only [Option.some.injEq] at hs
        exact Or.inr (Or.inr ⟨i, rfl, hi, hp, hs.symm⟩)
      · simp at hs
    · simp at hs

/-- the I/O abstraction does not see a worker moving between two points that are not `suNotify` -/
theorem absIo_updW (s : FSt σ) (i : Nat) (p : FW) (hn : p ≠ .suNotify) (hn' : s.fw i ≠ .suNotify) :
    absIo { s with fw := upd s.fw i p } = absIo s := by
  refine absIo_other _ s rfl ?_
  intro _
  show upd s.fw i p s.d.turn = _ ↔ _
  by_cases hj : s.d.turn = i
  · simp [hj, hn, hn']
  · simp [hj]

/-- a spurious wake-up at mutex level is invisible at the coarse level or is exactly a coarse spurious wake-up of the same thread -/
theorem fine_spurious_simulated (T : Nat) (s s' : FSt σ) (tid : Tid) (h : FInv T s) (hs : fspurious T s tid = some s') :
    Model.PipeFine.abs s' = Model.PipeFine.abs s ∨ spurious T (Model.PipeFine.abs s) tid = some (Model.PipeFine.abs s') := by
  have _ := h
  rcases fspurious_cases T s s' tid hs with ⟨rfl, hq, rfl⟩ | ⟨i, rfl, hi, hp, rfl⟩ | ⟨i, rfl, hi, hp, rfl⟩
  · -- the I/O thread
    have hW : ∀ j, absW { s with fio := .wuReacq } j = absW s j :=
      fun j => absW_nosr _ s j rfl (by simp) (by simp [hq])
    by_cases hpend : s.fw s.d.turn = .suNotify
    · left
      exact abs_ext _ _ rfl hW (by simp [absIo, hq, hpend])
    · right
      have e1 : (abs s).iopc = .sleepUpd := by show absIo s = _; simp [absIo, hq, hpend]
      simp only [spurious, e1, if_true]
      refine congrArg some ?_
      apply St_ext <;> try rfl
      intro j; exact (hW j).symm
  · -- a worker in `require_buffer_entry`
    have hW : ∀ j, j ≠ i → absW { s with fw := upd s.fw i .wrReacq } j = absW s j :=
      fun j hj => absW_other _ s j (by simp [hj]) rfl rfl
    have hIo := absIo_updW s i .wrReacq (by simp) (by simp [hp])
    by_cases hpend : s.fio = .srNotify ∧ s.d.turn = i
    · left
      refine abs_ext _ _ rfl ?_ hIo
      intro j
      by_cases hj : j = i
      · subst hj; simp [absW, hp, hpend]
      · exact hW j hj
    · right
      have e1 : (abs s).wpc i = .sleepRdy := by show absW s i = _; simp [absW, hp, hpend]
      simp only [spurious, hi, if_true, e1]
      refine congrArg some ?_
      apply St_ext <;> try rfl
      · intro j
        by_cases hj : j = i
        · subst hj; simp [abs, absW]
        · simp only [upd_other _ _ _ _ hj]; exact (hW j hj).symm
      · exact hIo.symm
  · -- a worker in `wait_buffer_loaded`
    have hW : ∀ j, j ≠ i → absW { s with fw := upd s.fw i .initReacq } j = absW s j :=
      fun j hj => absW_other _ s j (by simp [hj]) rfl rfl
    have hIo := absIo_updW s i .initReacq (by simp) (by simp [hp])
    by_cases hpend : s.fio = .srNotify ∧ s.d.turn = i
    · left
      refine abs_ext _ _ rfl ?_ hIo
      intro j
      by_cases hj : j = i
      · subst hj; simp [absW, hp, hpend]
      · exact hW j hj
    · right
      have e1 : (abs s).wpc i = .initSleep := by show absW s i = _; simp [absW, hp, hpend]
      simp only [spurious, hi, if_true, e1]
      refine congrArg some ?_
      apply St_ext <;> try rfl
      · intro j
        by_cases hj : j = i
        · subst hj; simp [abs, absW]
        · simp only [upd_other _ _ _ _ hj]; exact (hW j hj).symm
      · exact hIo.symm


/-- the fine invariant survives spurious wake-ups -/
theorem FInv_spurious (T : Nat) (s s' : FSt σ) (tid : Tid) (h : FInv T s) (hs : fspurious T s tid = some s') : FInv T s' := by
  refine ⟨?_, ?_⟩
  · rcases fspurious_cases T s s' tid hs with ⟨rfl, hq, rfl⟩ | ⟨i, rfl, hi, hp, rfl⟩ | ⟨i, rfl, hi, hp, rfl⟩
    · exact LockInv_updIo T s _ h.1 rfl rfl (by simp [hq, holdsIo]) (by simp [holdsIo])
    · exact LockInv_updW T s _ i .wrReacq h.1 rfl rfl rfl rfl (by simp [hp, holdsW]) (by simp [holdsW])
    · exact LockInv_updW T s _ i .initReacq h.1 rfl rfl rfl rfl (by simp [hp, holdsW]) (by simp [holdsW])
  · rcases fine_spurious_simulated T s s' tid h hs with h1 | h1
    · rw [h1]; exact h.2
    · exact PipeSpurious.PInv_spur T _ _ tid h.2 h1

theorem freachS_inv (f : σ → Block → σ × Block) (inp : Input) (hwf : inp.WF) (ispad : Bool) (T : Nat) (hT : 0 < T) (ws0 : Nat → σ)
    (s : FSt σ) (h : FReachS f inp ispad T ws0 s) : FInv T s := by
  induction h with
  | init => exact FInv_init T hT ws0
  | step s s' e _ hs ih =>
    cases e with
    | run tid => exact FInv_step f inp hwf ispad T hT s s' tid ih hs
    | spur tid => exact FInv_spurious T s s' tid ih hs

/-- every state reachable at mutex level with spurious wake-ups stands for a coarse state reachable with spurious wake-ups -/
theorem freachS_abs_reachS (f : σ → Block → σ × Block) (inp : Input) (hwf : inp.WF) (ispad : Bool) (T : Nat) (hT : 0 < T) (ws0 : Nat → σ)
    (s : FSt σ) (h : FReachS f inp ispad T ws0 s) : ReachS f inp ispad T ws0 (Model.PipeFine.abs s) := by
  induction h with
  | init => rw [abs_init]; exact ReachS.init
  | step s s' e hr hs ih =>
    have hinv := freachS_inv f inp hwf ispad T hT ws0 s hr
    cases e with
    | run tid =>
      rcases fine_step_simulated f inp ispad T s s' tid hinv hs with h1 | h1
      · rw [h1]; exact ih
      · exact ReachS.step _ _ (.run tid) ih h1
    | spur tid =>
      rcases fine_spurious_simulated T s s' tid hinv hs with h1 | h1
      · rw [h1]; exact ih
      · exact ReachS.step _ _ (.spur tid) ih h1

/-- safety at mutex level with spurious wake-ups -/
theorem fine_safety_S (f : σ → Block → σ × Block) (inp : Input) (hwf : inp.WF) (ispad : Bool) (P T : Nat) (hT : 0 < T)
    (hP : FirstNonFull inp P) (ws0 : Nat → σ) (s : FSt σ) (h : FReachS f inp ispad T ws0 s) :
    s.d.viol = false ∧
    (s.d.nexp ≤ nChunks inp P ∧ s.d.out = seqOut f inp ispad T ws0 s.d.nexp) ∧
    (fAllDone T s → s.d.out = seqOut f inp ispad T ws0 (nChunks inp P) ∧
       ∀ i, i < T → s.d.log.filter (fun e => e.1 = i) = workerLog inp T (nChunks inp P) i) := by
  have hr := freachS_abs_reachS f inp hwf ispad T hT ws0 s h
  refine ⟨PipeSpurious.no_violation_S f inp hwf ispad P T hT hP ws0 (abs s) hr,
    PipeSpurious.out_prefix_S f inp hwf ispad P T hT hP ws0 (abs s) hr, ?_⟩
  intro hd
  exact PipeSpurious.final_output_S f inp hwf ispad P T hT hP ws0 (abs s) hr ((fAllDone_iff T s).1 hd)

/-- no deadlock at mutex level with spurious wake-ups -/
theorem fine_deadlock_free_S (f : σ → Block → σ × Block) (inp : Input) (hwf : inp.WF) (ispad : Bool) (T : Nat) (hT : 0 < T) (ws0 : Nat → σ)
    (s : FSt σ) (h : FReachS f inp ispad T ws0 s) : fAllDone T s ∨ ∃ tid, (fstep f inp ispad T s tid).isSome :=
  fine_deadlock_free_inv f inp ispad T s (freachS_inv f inp hwf ispad T hT ws0 s h)

/-- every ORDINARY fine step from a state reachable with spurious wake-ups decreases (coarse measure μ of the abstraction, fine rank)
    lexicographically -/
theorem fine_run_step_decreases_S (f : σ → Block → σ × Block) (inp : Input) (hwf : inp.WF) (ispad : Bool) (P T : Nat) (hT : 0 < T)
    (hP : FirstNonFull inp P) (ws0 : Nat → σ) (s s' : FSt σ) (tid : Tid)
    (h : FReachS f inp ispad T ws0 s) (hs : fstep f inp ispad T s tid = some s') :
    ltFine (mu P T (abs s'), fineRank T s') (mu P T (abs s), fineRank T s) := by
  have hinv := freachS_inv f inp hwf ispad T hT ws0 s h
  rcases fine_step_cases f inp ispad T s s' tid hinv hs with h1 | ⟨h1, h2⟩
  · exact Or.inl (PipeSpurious.run_step_decreases_S f inp hwf ispad P T hT hP ws0 (abs s) (abs s') tid
      (freachS_abs_reachS f inp hwf ispad T hT ws0 s h) h1)
  · exact Or.inr ⟨by rw [h1], h2⟩

/-- an execution at mutex level in which only finitely many events are spurious wake-ups cannot be infinite -/
theorem fine_no_infinite_run_S (f : σ → Block → σ × Block) (inp : Input) (hwf : inp.WF) (ispad : Bool) (P T : Nat) (hT : 0 < T)
    (hP : FirstNonFull inp P) (ws0 : Nat → σ)
    (run : Nat → FSt σ) (evs : Nat → Ev) (h0 : run 0 = finit T ws0)
    (hstep : ∀ n, fstepS f inp ispad T (run n) (evs n) = some (run (n + 1)))
    (N : Nat) (hfin : ∀ n, N ≤ n → (evs n).isSpur = false) : False := by
  have hreach : ∀ n, FReachS f inp ispad T ws0 (run n) := by
    intro n
    induction n with
    | zero => rw [h0]; exact FReachS.init
    | succ k ih => exact FReachS.step _ _ _ ih (hstep k)
  have key : ∀ m : (Nat × Nat × Nat × Nat) × Nat, ∀ n, N ≤ n → (mu P T (abs (run n)), fineRank T (run n)) = m → False := by
    intro m
    induction m using ltFine_wf.induction with
    | _ m ih =>
      intro n hN hn
      have hst := hstep n
      have hsp := hfin n hN
      cases hev : evs n with
      | spur tid => rw [hev] at hsp; simp [Ev.isSpur] at hsp
      | run tid =>
        rw [hev] at hst
        simp only [fstepS] at hst
        have hd := fine_run_step_decreases_S f inp hwf ispad P T hT hP ws0 (run n) (run (n + 1)) tid (hreach n) hst
        subst hn
        exact ih _ hd (n + 1) (by omega) rfl
  exact key _ N (Nat.le_refl _) rfl

end Wencry.Proofs.PipeFineSpurious

section
open Wencry.Proofs.PipeFineSpurious
#print axioms fine_spurious_simulated
#print axioms FInv_spurious
#print axioms freachS_inv
#print axioms freachS_abs_reachS
#print axioms fine_safety_S
#print axioms fine_deadlock_free_S
#print axioms fine_no_infinite_run_S
end
