/-
C10: the stream objects of aesmode.cpp equal the SP 800-38A modes over the same block function, for every IV and
every list of blocks; CTR's byte-carry loop is the standard 128-bit incrementing function; a decryptor fed the output
of the matching encryptor, in the same order and in any number of `run` calls, restores the input.
-/
import Wencry.Model.Modes
import Wencry.Spec.Modes
namespace Wencry.Proofs.Modes
open Wencry Wencry.Model.Modes

/-! ### 128-bit big-endian integer view of a block -/

theorem toNat128_mk (b0 b1 b2 b3 b4 b5 b6 b7 b8 b9 b10 b11 b12 b13 b14 b15 : Byte) :
    Spec.Modes.toNat128 ⟨b0, b1, b2, b3, b4, b5, b6, b7, b8, b9, b10, b11, b12, b13, b14, b15⟩ =
      (((((((((((((((b0.toNat * 256 + b1.toNat) * 256 + b2.toNat) * 256 + b3.toNat) * 256 + b4.toNat) * 256 + b5.toNat) * 256
        + b6.toNat) * 256 + b7.toNat) * 256 + b8.toNat) * 256 + b9.toNat) * 256 + b10.toNat) * 256 + b11.toNat) * 256
        + b12.toNat) * 256 + b13.toNat) * 256 + b14.toNat) * 256 + b15.toNat) := by
  simp [Spec.Modes.toNat128, Block.toList, List.foldl]

theorem toNat128_lt (b : Block) : Spec.Modes.toNat128 b < 2 ^ 128 := by
  obtain ⟨b0, b1, b2, b3, b4, b5, b6, b7, b8, b9, b10, b11, b12, b13, b14, b15⟩ := b
  rw [toNat128_mk]
  have := b0.isLt; have := b1.isLt; have := b2.isLt; have := b3.isLt
  have := b4.isLt; have := b5.isLt; have := b6.isLt; have := b7.isLt
  have := b8.isLt; have := b9.isLt; have := b10.isLt; have := b11.isLt
  have := b12.isLt; have := b13.isLt; have := b14.isLt; have := b15.isLt
  omega

theorem byte_eq_of (m : Nat) (b : Byte) (h : m % 256 = b.toNat) : BitVec.ofNat 8 m = b := by
  apply BitVec.eq_of_toNat_eq; simp [h]

theorem ofNat128_toNat128 (b : Block) : Spec.Modes.ofNat128 (Spec.Modes.toNat128 b) = b := by
  obtain ⟨b0, b1, b2, b3, b4, b5, b6, b7, b8, b9, b10, b11, b12, b13, b14, b15⟩ := b
  rw [toNat128_mk]
  have := b0.isLt; have := b1.isLt; have := b2.isLt; have := b3.isLt
  have := b4.isLt; have := b5.isLt; have := b6.isLt; have := b7.isLt
  have := b8.isLt; have := b9.isLt; have := b10.isLt; have := b11.isLt
  have := b12.isLt; have := b13.isLt; have := b14.isLt; have := b15.isLt
  simp only [Spec.Modes.ofNat128, Block.mk.injEq]
  refine ⟨?_, ?_, ?_, ?_, ?_, ?_, ?_, ?_, ?_, ?_, ?_, ?_, ?_, ?_, ?_, ?_⟩ <;> apply byte_eq_of <;> simp only [Nat.reduceSub, Nat.reducePow] <;> omega


theorem toNat128_ofNat128 (n : Nat) (h : n < 2 ^ 128) : Spec.Modes.toNat128 (Spec.Modes.ofNat128 n) = n := by
  have e : ∀ k, n / 256 ^ (k + 1) = n / 256 ^ k / 256 := fun k => by
    rw [Nat.div_div_eq_div_mul, Nat.pow_succ]
  have e0 : n / 256 ^ 0 = n := by simp
  have e16 : n / 256 ^ 16 = 0 := by
    apply Nat.div_eq_of_lt; exact h
  simp only [Spec.Modes.ofNat128, toNat128_mk, BitVec.toNat_ofNat, Nat.reduceSub]
  have h1 := e 0; have h2 := e 1; have h3 := e 2; have h4 := e 3; have h5 := e 4; have h6 := e 5; have h7 := e 6
  have h8 := e 7; have h9 := e 8; have h10 := e 9; have h11 := e 10; have h12 := e 11; have h13 := e 12; have h14 := e 13
  have h15 := e 14; have h16 := e 15
  simp only [Nat.reduceAdd] at h1 h2 h3 h4 h5 h6 h7 h8 h9 h10 h11 h12 h13 h14 h15 h16
  clear h1
  rw [Nat.pow_one] at *
  generalize hq1 : n / 256 = q1 at *
  generalize n / 256 ^ 2 = q2 at *
  generalize n / 256 ^ 3 = q3 at *
  generalize n / 256 ^ 4 = q4 at *
  generalize n / 256 ^ 5 = q5 at *
  generalize n / 256 ^ 6 = q6 at *
  generalize n / 256 ^ 7 = q7 at *
  generalize n / 256 ^ 8 = q8 at *
  generalize n / 256 ^ 9 = q9 at *
  generalize n / 256 ^ 10 = q10 at *
  generalize n / 256 ^ 11 = q11 at *
  generalize n / 256 ^ 12 = q12 at *
  generalize n / 256 ^ 13 = q13 at *
  generalize n / 256 ^ 14 = q14 at *
  generalize n / 256 ^ 15 = q15 at *
  generalize n / 256 ^ 16 = q16 at *
  rw [e0]
  clear h e e0
  omega

/-! ### the byte-carry loop of `AesCTR::ctrInc` -/

/-- little-endian value of a byte list -/
def leVal : Bytes → Nat
  | [] => 0
  | x :: xs => x.toNat + 256 * leVal xs

theorem ctrIncRev_length (l : Bytes) : (ctrIncRev l).length = l.length := by
  induction l with
  | nil => rfl
  | cons x xs ih => simp only [ctrIncRev]; split <;> simp [ih]

theorem leVal_lt (l : Bytes) : leVal l < 256 ^ l.length := by
  induction l with
  | nil => simp [leVal]
  | cons x xs ih =>
    have := x.isLt
    simp only [leVal, List.length_cons, Nat.pow_succ]
    generalize 256 ^ xs.length = P at *
    omega

theorem byte_succ_toNat (x : Byte) : (x + 1).toNat = (x.toNat + 1) % 256 := by
  simp [BitVec.toNat_add]

theorem leVal_ctrIncRev (l : Bytes) : leVal (ctrIncRev l) = (leVal l + 1) % 256 ^ l.length := by
  induction l with
  | nil => simp [ctrIncRev, leVal]
  | cons x xs ih =>
    have hx := x.isLt
    have hlt := leVal_lt xs
    have hs := byte_succ_toNat x
    simp only [ctrIncRev]
    split
    · rename_i hne
      have hne' : (x + 1).toNat ≠ 0 := fun h => hne (BitVec.eq_of_toNat_eq (by simpa using h))
      simp only [leVal, List.length_cons, Nat.pow_succ]
      rw [hs] at hne' ⊢
      have hx' : x.toNat + 1 < 256 := by omega
      rw [Nat.mod_eq_of_lt hx']
      rw [Nat.mod_eq_of_lt]
      · omega
      · generalize 256 ^ xs.length = P at *
        omega
    · rename_i hne
      have he : (x + 1).toNat = 0 := by
        have : x + 1 = 0 := Classical.not_not.mp hne
        rw [this]; rfl
      simp only [leVal, List.length_cons, Nat.pow_succ, ih]
      rw [he]; rw [hs] at he
      have hx' : x.toNat = 255 := by omega
      rw [hx']
      generalize 256 ^ xs.length = P at *
      generalize leVal xs = v at *
      -- 0 + 256 * ((v+1) % P) = (255 + 256 * v + 1) % (P * 256)
      have : 255 + 256 * v + 1 = 256 * (v + 1) := by omega
      rw [this, Nat.mul_comm P 256, Nat.mul_mod_mul_left]
      omega

theorem toNat128_eq_leVal (b0 b1 b2 b3 b4 b5 b6 b7 b8 b9 b10 b11 b12 b13 b14 b15 : Byte) :
    Spec.Modes.toNat128 ⟨b0, b1, b2, b3, b4, b5, b6, b7, b8, b9, b10, b11, b12, b13, b14, b15⟩ =
      leVal [b15, b14, b13, b12, b11, b10, b9, b8, b7, b6, b5, b4, b3, b2, b1, b0] := by
  rw [toNat128_mk]; simp only [leVal]; omega

theorem list16 (l : Bytes) (h : l.length = 16) :
    ∃ c15 c14 c13 c12 c11 c10 c9 c8 c7 c6 c5 c4 c3 c2 c1 c0, l = [c15, c14, c13, c12, c11, c10, c9, c8, c7, c6, c5, c4, c3, c2, c1, c0] := by
  match l, h with
  | [c15, c14, c13, c12, c11, c10, c9, c8, c7, c6, c5, c4, c3, c2, c1, c0], _ => exact ⟨_, _, _, _, _, _, _, _, _, _, _, _, _, _, _, _, rfl⟩

theorem toNat128_ctrInc (iv : Block) : Spec.Modes.toNat128 (ctrInc iv) = (Spec.Modes.toNat128 iv + 1) % 2 ^ 128 := by
  obtain ⟨b0, b1, b2, b3, b4, b5, b6, b7, b8, b9, b10, b11, b12, b13, b14, b15⟩ := iv
  have hl := ctrIncRev_length [b15, b14, b13, b12, b11, b10, b9, b8, b7, b6, b5, b4, b3, b2, b1, b0]
  have hv := leVal_ctrIncRev [b15, b14, b13, b12, b11, b10, b9, b8, b7, b6, b5, b4, b3, b2, b1, b0]
  obtain ⟨c15, c14, c13, c12, c11, c10, c9, c8, c7, c6, c5, c4, c3, c2, c1, c0, hc⟩ := list16 _ hl
  have e : ctrInc ⟨b0, b1, b2, b3, b4, b5, b6, b7, b8, b9, b10, b11, b12, b13, b14, b15⟩ =
      ⟨c0, c1, c2, c3, c4, c5, c6, c7, c8, c9, c10, c11, c12, c13, c14, c15⟩ := by
    simp only [ctrInc, Block.toList, List.reverse_cons, List.reverse_nil, List.nil_append, List.cons_append, hc]
    rfl
  rw [e, toNat128_eq_leVal, toNat128_eq_leVal, ← hc, hv]
  simp only [List.length_cons, List.length_nil, Nat.reduceAdd, Nat.reducePow]

/-- `AesCTR::ctrInc` is [X + 1 mod 2^128] on the big-endian block -/
theorem ctrInc_eq (iv : Block) : ctrInc iv = Spec.Modes.inc128 iv := by
  rw [← ofNat128_toNat128 (ctrInc iv), toNat128_ctrInc]; rfl

/-! ### stream objects -/

theorem run_nil (s : Stream) : s.run [] = (s, []) := rfl
theorem run_cons (s : Stream) (b : Block) (bs : List Block) :
    s.run (b :: bs) = (((s.runcry b).1.run bs).1, (s.runcry b).2 :: ((s.runcry b).1.run bs).2) := rfl

/-- feeding a stream in two calls continues where the first call stopped -/
theorem run_append (s : Stream) (xs ys : List Block) :
    s.run (xs ++ ys) = (((s.run xs).1.run ys).1, (s.run xs).2 ++ ((s.run xs).1.run ys).2) := by
  induction xs generalizing s with
  | nil => simp [run_nil]
  | cons x xs ih => simp only [List.cons_append, run_cons, ih]

theorem run_length (s : Stream) (xs : List Block) : (s.run xs).2.length = xs.length := by
  induction xs generalizing s with
  | nil => rfl
  | cons x xs ih => simp only [run_cons, List.length_cons, ih]

theorem runcry_kind (s : Stream) (b : Block) : (s.runcry b).1.kind = s.kind ∧ (s.runcry b).1.crypt = s.crypt := by
  unfold Stream.runcry; split <;> exact ⟨rfl, rfl⟩

theorem run_kind (s : Stream) (xs : List Block) : (s.run xs).1.kind = s.kind ∧ (s.run xs).1.crypt = s.crypt := by
  induction xs generalizing s with
  | nil => exact ⟨rfl, rfl⟩
  | cons x xs ih =>
    simp only [run_cons]
    have h1 := ih (s.runcry x).1
    have h2 := runcry_kind s x
    exact ⟨h1.1.trans h2.1, h1.2.trans h2.2⟩

theorem run_ecbEnc (F : Block → Block) (iv : Block) (bs : List Block) :
    (({ kind := .ecbEnc, crypt := F, iv := iv } : Stream).run bs).2 = bs.map F := by
  induction bs with
  | nil => rfl
  | cons b bs ih => simp only [run_cons, Stream.runcry, ih, List.map_cons]

theorem run_ecbDec (F : Block → Block) (iv : Block) (bs : List Block) :
    (({ kind := .ecbDec, crypt := F, iv := iv } : Stream).run bs).2 = bs.map F := by
  induction bs with
  | nil => rfl
  | cons b bs ih => simp only [run_cons, Stream.runcry, ih, List.map_cons]

theorem run_cbcEnc (F : Block → Block) (iv : Block) (bs : List Block) :
    (({ kind := .cbcEnc, crypt := F, iv := iv } : Stream).run bs).2 = Spec.Modes.cbcEnc F iv bs := by
  induction bs generalizing iv with
  | nil => rfl
  | cons b bs ih => simp only [run_cons, Stream.runcry, ih, Spec.Modes.cbcEnc]

theorem run_cbcDec (F : Block → Block) (iv : Block) (bs : List Block) :
    (({ kind := .cbcDec, crypt := F, iv := iv } : Stream).run bs).2 = Spec.Modes.cbcDec F iv bs := by
  induction bs generalizing iv with
  | nil => rfl
  | cons b bs ih => simp only [run_cons, Stream.runcry, ih, Spec.Modes.cbcDec]

theorem run_ctr (F : Block → Block) (iv : Block) (bs : List Block) :
    (({ kind := .ctr, crypt := F, iv := iv } : Stream).run bs).2 = Spec.Modes.ctr F iv bs := by
  induction bs generalizing iv with
  | nil => rfl
  | cons b bs ih => simp only [run_cons, Stream.runcry, ih, Spec.Modes.ctr, ctrInc_eq]

theorem run_cfbEnc (F : Block → Block) (iv : Block) (bs : List Block) :
    (({ kind := .cfbEnc, crypt := F, iv := iv } : Stream).run bs).2 = Spec.Modes.cfbEnc F iv bs := by
  induction bs generalizing iv with
  | nil => rfl
  | cons b bs ih => simp only [run_cons, Stream.runcry, ih, Spec.Modes.cfbEnc]

theorem run_cfbDec (F : Block → Block) (iv : Block) (bs : List Block) :
    (({ kind := .cfbDec, crypt := F, iv := iv } : Stream).run bs).2 = Spec.Modes.cfbDec F iv bs := by
  induction bs generalizing iv with
  | nil => rfl
  | cons b bs ih => simp only [run_cons, Stream.runcry, ih, Spec.Modes.cfbDec]

theorem run_ofb (F : Block → Block) (iv : Block) (bs : List Block) :
    (({ kind := .ofb, crypt := F, iv := iv } : Stream).run bs).2 = Spec.Modes.ofb F iv bs := by
  induction bs generalizing iv with
  | nil => rfl
  | cons b bs ih => simp only [run_cons, Stream.runcry, ih, Spec.Modes.ofb]

theorem factoryKind_true_cases {mode : Nat} {k : Kind} (hk : factoryKind true mode = some k) :
    (mode = 0 ∧ k = .ecbEnc) ∨ (mode = 1 ∧ k = .cbcEnc) ∨ (mode = 2 ∧ k = .ctr) ∨ (mode = 3 ∧ k = .cfbEnc) ∨ (mode = 4 ∧ k = .ofb) := by
  rcases mode with _|_|_|_|_|m <;> simp [factoryKind] at hk <;> simp [hk]

theorem factoryKind_false_cases {mode : Nat} {k : Kind} (hk : factoryKind false mode = some k) :
    (mode = 0 ∧ k = .ecbDec) ∨ (mode = 1 ∧ k = .cbcDec) ∨ (mode = 2 ∧ k = .ctr) ∨ (mode = 3 ∧ k = .cfbDec) ∨ (mode = 4 ∧ k = .ofb) := by
  rcases mode with _|_|_|_|_|m <;> simp [factoryKind] at hk <;> simp [hk]

/-- encryptor objects from the factory, over block function `E` -/
theorem run_encrypt_eq (mode : Nat) (k : Kind) (hk : factoryKind true mode = some k) (E : Block → Block) (iv : Block) (bs : List Block) :
    (({ kind := k, crypt := E, iv := iv } : Stream).run bs).2 = Spec.Modes.encrypt mode E iv bs := by
  rcases factoryKind_true_cases hk with ⟨rfl, rfl⟩ | ⟨rfl, rfl⟩ | ⟨rfl, rfl⟩ | ⟨rfl, rfl⟩ | ⟨rfl, rfl⟩
  · exact run_ecbEnc E iv bs
  · exact run_cbcEnc E iv bs
  · exact run_ctr E iv bs
  · exact run_cfbEnc E iv bs
  · exact run_ofb E iv bs

/-- decryptor objects from the factory: the two `AesDecrypt` subclasses hold the inverse block function `D`, all others `E` -/
theorem run_decrypt_eq (mode : Nat) (k : Kind) (hk : factoryKind false mode = some k) (E D : Block → Block) (iv : Block) (bs : List Block) :
    (({ kind := k, crypt := if k.usesDecryptCore then D else E, iv := iv } : Stream).run bs).2 = Spec.Modes.decrypt mode E D iv bs := by
  rcases factoryKind_false_cases hk with ⟨rfl, rfl⟩ | ⟨rfl, rfl⟩ | ⟨rfl, rfl⟩ | ⟨rfl, rfl⟩ | ⟨rfl, rfl⟩
  · exact run_ecbDec D iv bs
  · exact run_cbcDec D iv bs
  · exact run_ctr E iv bs
  · exact run_cfbDec E iv bs
  · exact run_ofb E iv bs

/-- SP 800-38A: decryption inverts encryption (a fact about the specification) -/
theorem spec_decrypt_encrypt (mode : Nat) (E D : Block → Block) (hDE : ∀ x, D (E x) = x) (iv : Block) (bs : List Block) :
    Spec.Modes.decrypt mode E D iv (Spec.Modes.encrypt mode E iv bs) = bs := by
  rcases mode with _|_|_|_|m
  · simp only [Spec.Modes.decrypt, Spec.Modes.encrypt, Spec.Modes.ecbDec, Spec.Modes.ecbEnc]
    induction bs with
    | nil => rfl
    | cons b bs ih => simp only [List.map_cons, hDE, ih]
  · simp only [Spec.Modes.decrypt, Spec.Modes.encrypt]
    induction bs generalizing iv with
    | nil => rfl
    | cons b bs ih => simp only [Spec.Modes.cbcEnc, Spec.Modes.cbcDec, hDE, ih, Block.xor_xor_cancel_right]
  · simp only [Spec.Modes.decrypt, Spec.Modes.encrypt]
    induction bs generalizing iv with
    | nil => rfl
    | cons b bs ih => simp only [Spec.Modes.ctr, ih, Block.xor_xor_cancel_right]
  · simp only [Spec.Modes.decrypt, Spec.Modes.encrypt]
    induction bs generalizing iv with
    | nil => rfl
    | cons b bs ih => simp only [Spec.Modes.cfbEnc, Spec.Modes.cfbDec, ih, Block.xor_xor_cancel_right]
  · simp only [Spec.Modes.decrypt, Spec.Modes.encrypt]
    induction bs generalizing iv with
    | nil => rfl
    | cons b bs ih => simp only [Spec.Modes.ofb, ih, Block.xor_xor_cancel_right]

/-- an encryptor and a decryptor are in step: same mode, inverse block functions, same chaining value -/
def InSync (E D : Block → Block) (se sd : Stream) : Prop :=
  ∃ mode, factoryKind true mode = some se.kind ∧ factoryKind false mode = some sd.kind ∧
    se.crypt = E ∧ sd.crypt = (if sd.kind.usesDecryptCore then D else E) ∧ se.iv = sd.iv

theorem sync_runcry (E D : Block → Block) (hDE : ∀ x, D (E x) = x) (se sd : Stream) (h : InSync E D se sd) (x : Block) :
    (sd.runcry (se.runcry x).2).2 = x ∧ InSync E D (se.runcry x).1 (sd.runcry (se.runcry x).2).1 := by
  obtain ⟨mode, h1, h2, h3, h4, h5⟩ := h
  obtain ⟨ke, ce, ive⟩ := se
  obtain ⟨kd, cd, ivd⟩ := sd
  simp only at h1 h2 h3 h4 h5
  subst h3; subst h5
  rcases factoryKind_true_cases h1 with ⟨rfl, rfl⟩ | ⟨rfl, rfl⟩ | ⟨rfl, rfl⟩ | ⟨rfl, rfl⟩ | ⟨rfl, rfl⟩ <;>
  rcases factoryKind_false_cases h2 with ⟨hm, rfl⟩ | ⟨hm, rfl⟩ | ⟨hm, rfl⟩ | ⟨hm, rfl⟩ | ⟨hm, rfl⟩ <;>
  first
  | (exfalso; omega)
  | (refine ⟨?_, ?_⟩
     · simp [Stream.runcry, h4, Kind.usesDecryptCore, hDE, Block.xor_xor_cancel_right]
     · first
       | exact ⟨0, rfl, rfl, rfl, h4, by simp [Stream.runcry, h4, Kind.usesDecryptCore]⟩
       | exact ⟨1, rfl, rfl, rfl, h4, by simp [Stream.runcry, h4, Kind.usesDecryptCore]⟩
       | exact ⟨2, rfl, rfl, rfl, h4, by simp [Stream.runcry, h4, Kind.usesDecryptCore]⟩
       | exact ⟨3, rfl, rfl, rfl, h4, by simp [Stream.runcry, h4, Kind.usesDecryptCore]⟩
       | exact ⟨4, rfl, rfl, rfl, h4, by simp [Stream.runcry, h4, Kind.usesDecryptCore]⟩)

/-- stream continuity of the inverse: feeding the decryptor what the encryptor produced restores the input and leaves
    the two objects in step again (so this can be iterated chunk after chunk) -/
theorem sync_run (E D : Block → Block) (hDE : ∀ x, D (E x) = x) (se sd : Stream) (h : InSync E D se sd) (xs : List Block) :
    (sd.run (se.run xs).2).2 = xs ∧ InSync E D (se.run xs).1 (sd.run (se.run xs).2).1 := by
  induction xs generalizing se sd with
  | nil => exact ⟨rfl, h⟩
  | cons x xs ih =>
    have h1 := sync_runcry E D hDE se sd h x
    have h2 := ih _ _ h1.2
    simp only [run_cons]
    exact ⟨by rw [h1.1, h2.1], h2.2⟩

end Wencry.Proofs.Modes

section AxiomCheck
open Wencry.Proofs.Modes
#print axioms toNat128_lt
#print axioms ofNat128_toNat128
#print axioms toNat128_ofNat128
#print axioms ctrInc_eq
#print axioms run_append
#print axioms run_length
#print axioms run_kind
#print axioms run_encrypt_eq
#print axioms run_decrypt_eq
#print axioms spec_decrypt_encrypt
#print axioms sync_run
end AxiomCheck
