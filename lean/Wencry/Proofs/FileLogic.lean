/-
Decision logic of verify / decrypt on arbitrary byte strings (C11, C12, C06, and the acceptance characterisation used by
C05 and C13): no fault for any input, failure writes nothing, verify and decrypt accept exactly the same files, acceptance
means exactly "magic, modes in range, length ≥ 74, stored tag = recomputed tag", and the decrypted output depends only on
the cipher-mode byte, the key and the bytes from offset 48 on.
-/
import Wencry.Model.File
import Wencry.Proofs.HashFramework
import Wencry.Proofs.ModesCorrect
namespace Wencry.Proofs.FileLogic
open Wencry Wencry.Model Wencry.Model.File Wencry.Model.Stdio Wencry.Model.IoBuffer
open Wencry.Proofs.HashFramework

/-- the tag the code computes for hash type `h`, key and the bytes `m` (what `hmac::getres` returns on a stream positioned at `m`) -/
def tagOf (H h : Nat) (key : Block) (m : Bytes) : Option Bytes :=
  (Hmac.getres H h key.toList (RFile.open m)).map (·.1)

/-- `getFileHash_eq` without the (unused) position / size hypotheses -/
theorem getFileHash_eq' {σ} (A : Hash.Alg σ) (hl : ∀ n, (A.lenBytes n).length = 8) (H : Nat) (hH : 1 ≤ H) (fp : RFile)
    (pre : Option Bytes) (hpre : ∀ p, pre = some p → p.length = 64) :
    ∃ fb, Hash.getFileHash A HashBuffer.reader (HashBuffer.fuelFor H fp) (HashBuffer.FB.new H fp pre)
            = some (A.res ((Spec.Hash.chunks64 (padded A (pre.getD [] ++ fp.data.drop fp.pos))).foldl A.block A.init), fb) := by
  obtain ⟨hI, hrem, hdata⟩ := inv_new H hH fp pre hpre
  have hfuel : (Rem (HashBuffer.FB.new H fp pre)).length / 64 + 1 ≤ HashBuffer.fuelFor H fp := by
    have hp : (pre.getD []).length ≤ 64 := by
      cases pre with
      | none => simp
      | some p => simp [hpre p rfl]
    rw [hrem, List.length_append, List.length_drop]
    simp only [HashBuffer.fuelFor, RFile.remaining]
    generalize (fp.data.length - fp.pos) / (H * 64) = g
    omega
  obtain ⟨s', fb', h1, h2, h3⟩ := fileLoop_gen A hl (HashBuffer.fuelFor H fp) (Hash.reset A) (HashBuffer.FB.new H fp pre) 0 hI (by simp [Hash.reset]) hfuel
  refine ⟨fb', ?_⟩
  simp only [Hash.getFileHash, h1, Option.map_some, h2, hrem, tailPad_zero]
  rfl

/-- the digest of `m` for hash type `h` as the framework computes it from a stream -/
def digestOf (h : Nat) (m : Bytes) : Bytes :=
  match h with
  | 0 => Hash.Sha1.alg.res ((Spec.Hash.chunks64 (padded Hash.Sha1.alg m)).foldl Hash.Sha1.alg.block Hash.Sha1.alg.init)
  | 1 => Hash.Md5.alg.res ((Spec.Hash.chunks64 (padded Hash.Md5.alg m)).foldl Hash.Md5.alg.block Hash.Md5.alg.init)
  | _ => Hash.Sha256.alg.res ((Spec.Hash.chunks64 (padded Hash.Sha256.alg m)).foldl Hash.Sha256.alg.block Hash.Sha256.alg.init)

theorem key1_length (key : Bytes) : (Hmac.key1 key).length = 64 := by
  simp only [Hmac.key1, List.length_append, List.length_replicate, List.length_take]; omega

theorem fileHash_eq (H : Nat) (hH : 1 ≤ H) (h : Nat) (hh : h ≤ 2) (fp : RFile) (p : Bytes) (hp : p.length = 64) :
    ∃ fb, Hash.fileHash h HashBuffer.reader (HashBuffer.fuelFor H fp) (HashBuffer.FB.new H fp (some p))
      = some (digestOf h (p ++ fp.data.drop fp.pos), fb) := by
  have hpre : ∀ q, some p = some q → q.length = 64 := by intro q hq; cases hq; exact hp
  match h, hh with
  | 0, _ => exact getFileHash_eq' Hash.Sha1.alg lenBE_length H hH fp (some p) hpre
  | 1, _ => exact getFileHash_eq' Hash.Md5.alg lenLE_length H hH fp (some p) hpre
  | 2, _ => exact getFileHash_eq' Hash.Sha256.alg lenBE_length H hH fp (some p) hpre

/-- the tag as a function of hash type, key and message -/
def tagFn (h : Nat) (key : Bytes) (m : Bytes) : Option Bytes :=
  Hash.stringHash h ((Hmac.key1 key).map (· ^^^ Hmac.opad) ++ digestOf h ((Hmac.key1 key).map (· ^^^ Hmac.ipad) ++ m))

theorem getres_eq (H : Nat) (hH : 1 ≤ H) (h : Nat) (hh : h ≤ 2) (key : Bytes) (fp : RFile) :
    ∃ fp', Hmac.getres H h key fp = (tagFn h key (fp.data.drop fp.pos)).map fun t => (t, fp') := by
  obtain ⟨fb, hfb⟩ := fileHash_eq H hH h hh fp ((Hmac.key1 key).map (· ^^^ Hmac.ipad)) (by simp [key1_length])
  refine ⟨fb.fp, ?_⟩
  simp only [Hmac.getres, hfb, tagFn]

theorem stringHash_some (h : Nat) (hh : h ≤ 2) (m : Bytes) : ∃ t, Hash.stringHash h m = some t ∧ Hash.hlen h = some t.length := by
  match h, hh with
  | 0, _ => exact ⟨_, rfl, by simp [Hash.hlen, Hash.getStringHash, Hash.Sha1.alg, Hash.Sha1.res, Hash.wordBE]⟩
  | 1, _ => exact ⟨_, rfl, by simp [Hash.hlen, Hash.getStringHash, Hash.Md5.alg, Hash.Md5.res, Hash.wordLE]⟩
  | 2, _ => exact ⟨_, rfl, by simp [Hash.hlen, Hash.getStringHash, Hash.Sha256.alg, Hash.Sha256.res, Hash.wordBE]⟩

theorem tagFn_some (h : Nat) (hh : h ≤ 2) (key m : Bytes) : ∃ t, tagFn h key m = some t ∧ Hash.hlen h = some t.length :=
  stringHash_some h hh _

theorem getres_some (H : Nat) (hH : 1 ≤ H) (h : Nat) (hh : h ≤ 2) (key : Bytes) (fp : RFile) :
    ∃ t fp', Hmac.getres H h key fp = some (t, fp') := by
  obtain ⟨fp', hfp⟩ := getres_eq H hH h hh key fp
  obtain ⟨t, ht, _⟩ := tagFn_some h hh key (fp.data.drop fp.pos)
  exact ⟨t, fp', by rw [hfp, ht]; rfl⟩

theorem getres_fst (H : Nat) (hH : 1 ≤ H) (h : Nat) (hh : h ≤ 2) (key : Bytes) (fp : RFile) :
    (Hmac.getres H h key fp).map (·.1) = tagFn h key (fp.data.drop fp.pos) := by
  obtain ⟨fp', hfp⟩ := getres_eq H hH h hh key fp
  rw [hfp, Option.map_map]
  cases tagFn h key (fp.data.drop fp.pos) <;> rfl

set_option linter.unusedVariables false in
/-- … and depends only on the bytes from the current position on -/
theorem getres_depends_on_suffix (H : Nat) (hH : 1 ≤ H) (h : Nat) (hh : h ≤ 2) (key : Block) (d1 d2 : Bytes) (p1 p2 : Nat)
    (hp1 : p1 ≤ d1.length) (hp2 : p2 ≤ d2.length) (hs : d1.drop p1 = d2.drop p2) :
    (Hmac.getres H h key.toList ((RFile.open d1).fseek p1)).map (·.1) = (Hmac.getres H h key.toList ((RFile.open d2).fseek p2)).map (·.1) := by
  rw [getres_fst H hH h hh, getres_fst H hH h hh]
  show tagFn h key.toList (d1.drop p1) = tagFn h key.toList (d2.drop p2)
  rw [hs]

theorem tagOf_eq (H : Nat) (hH : 1 ≤ H) (h : Nat) (hh : h ≤ 2) (key : Block) (m : Bytes) : tagOf H h key m = tagFn h key.toList m := by
  rw [tagOf, getres_fst H hH h hh]; rfl

theorem tagOf_isSome (H : Nat) (hH : 1 ≤ H) (h : Nat) (hh : h ≤ 2) (key : Block) (m : Bytes) : (tagOf H h key m).isSome := by
  obtain ⟨t, ht, _⟩ := tagFn_some h hh key.toList m
  rw [tagOf_eq H hH h hh, ht]; rfl

theorem tagOf_length (H : Nat) (hH : 1 ≤ H) (h : Nat) (hh : h ≤ 2) (key : Block) (m : Bytes) (t : Bytes) (ht : tagOf H h key m = some t) :
    Hash.hlen h = some t.length := by
  obtain ⟨t', ht', hl⟩ := tagFn_some h hh key.toList m
  rw [tagOf_eq H hH h hh, ht'] at ht
  cases ht; exact hl

theorem magic_len (F : Bytes) (h : F.take 8 = Gen.magicBytes) : 8 ≤ F.length := by
  have := congrArg List.length h
  simp only [List.length_take, Gen.magicBytes, List.length_cons, List.length_nil] at this
  omega

theorem verify_unfold (cfg : Cfg) (key : Block) (F : Bytes) : verify cfg key F =
    if (F.take 8).length ≠ 8 then .ok (4, 255, 255)
    else if F.take 8 ≠ Gen.magicBytes then .ok (4, 255, 255)
    else
      let c := (F.drop 8).take 1
      let h := (F.drop (8 + c.length)).take 1
      let ctype := (c.getD 0 255).toNat
      let htype := (h.getD 0 255).toNat
      let stored := (F.drop 10).take 64
      if stored.length ≠ 64 then .ok (1, ctype, htype)
      else if ctype > 4 ∨ htype > 2 then .ok (3, ctype, htype)
      else match Hmac.cmphmac cfg.H htype key.toList ((RFile.open F).fseek 48) stored with
        | none => .error .nullDeref
        | some true => .ok (0, ctype, htype)
        | some false => .ok (2, ctype, htype) := by
  rfl

theorem verify_bad_magic (cfg : Cfg) (key : Block) (F : Bytes) (h : F.length < 8 ∨ F.take 8 ≠ Gen.magicBytes) :
    verify cfg key F = .ok (4, 255, 255) := by
  rw [verify_unfold]
  by_cases h8 : (F.take 8).length ≠ 8
  · rw [if_pos h8]
  · rw [if_neg h8]
    have : ¬ F.length < 8 := by simp only [List.length_take] at h8; omega
    have h2 : F.take 8 ≠ Gen.magicBytes := by rcases h with h | h; exact absurd h this; exact h
    rw [if_pos h2]

theorem verify_short (cfg : Cfg) (key : Block) (F : Bytes) (hm : F.take 8 = Gen.magicBytes) (hl : F.length < 74) :
    ∃ c h, verify cfg key F = .ok (1, c, h) := by
  have h8 := magic_len F hm
  rw [verify_unfold]
  have e1 : ¬ (F.take 8).length ≠ 8 := by simp only [List.length_take]; omega
  have e2 : ¬ F.take 8 ≠ Gen.magicBytes := by simp [hm]
  have e3 : ((F.drop 10).take 64).length ≠ 64 := by simp only [List.length_take, List.length_drop]; omega
  rw [if_neg e1, if_neg e2]
  simp only
  rw [if_pos e3]
  exact ⟨_, _, rfl⟩

theorem getD_of_take_drop (F : Bytes) (k : Nat) (hk : k < F.length) (d : Byte) : ((F.drop k).take 1).getD 0 d = F.getD k 0 := by
  simp [List.getD_eq_getElem?_getD, hk]

theorem verify_long (cfg : Cfg) (key : Block) (F : Bytes) (hm : F.take 8 = Gen.magicBytes) (hl : 74 ≤ F.length) :
    verify cfg key F =
      if (F.getD 8 0).toNat > 4 ∨ (F.getD 9 0).toNat > 2 then .ok (3, (F.getD 8 0).toNat, (F.getD 9 0).toNat)
      else match Hmac.cmphmac cfg.H (F.getD 9 0).toNat key.toList ((RFile.open F).fseek 48) ((F.drop 10).take 64) with
        | none => .error .nullDeref
        | some true => .ok (0, (F.getD 8 0).toNat, (F.getD 9 0).toNat)
        | some false => .ok (2, (F.getD 8 0).toNat, (F.getD 9 0).toNat) := by
  rw [verify_unfold]
  have e1 : ¬ (F.take 8).length ≠ 8 := by simp only [List.length_take]; omega
  have e2 : ¬ F.take 8 ≠ Gen.magicBytes := by simp [hm]
  have e3 : ¬ ((F.drop 10).take 64).length ≠ 64 := by simp only [List.length_take, List.length_drop]; omega
  have e4 : ((F.drop 8).take 1).length = 1 := by simp only [List.length_take, List.length_drop]; omega
  rw [if_neg e1, if_neg e2]
  simp only
  rw [if_neg e3, e4, getD_of_take_drop F 8 (by omega), getD_of_take_drop F 9 (by omega)]

/-! ### the acceptance characterisation -/

/-- what it means for a byte string to be accepted -/
def Accepted (cfg : Cfg) (key : Block) (F : Bytes) : Prop :=
  F.take 8 = Gen.magicBytes ∧ 74 ≤ F.length ∧ (F.getD 8 0).toNat ≤ 4 ∧ (F.getD 9 0).toNat ≤ 2 ∧
  ∃ t, tagOf cfg.H (F.getD 9 0).toNat key (F.drop 48) = some t ∧ (F.drop 10).take t.length = t

theorem cmphmac_eq (H : Nat) (hH : 1 ≤ H) (h : Nat) (hh : h ≤ 2) (key : Bytes) (fp : RFile) (stored : Bytes) :
    Hmac.cmphmac H h key fp stored = (tagFn h key (fp.data.drop fp.pos)).map fun t => decide (stored.take t.length = t) := by
  obtain ⟨fp', hfp⟩ := getres_eq H hH h hh key fp
  rw [Hmac.cmphmac, hfp, Option.map_map]
  rfl

theorem hlen_le (h n : Nat) (hn : Hash.hlen h = some n) : n ≤ 64 := by
  unfold Hash.hlen at hn
  split at hn <;> simp at hn <;> omega

/-- in-range header on a file of at least 74 bytes: the code is 0 or 2 according to the tag comparison -/
theorem verify_inrange (cfg : Cfg) (hH : 1 ≤ cfg.H) (key : Block) (F : Bytes) (hm : F.take 8 = Gen.magicBytes) (hl : 74 ≤ F.length)
    (hc : (F.getD 8 0).toNat ≤ 4) (hh : (F.getD 9 0).toNat ≤ 2) :
    ∃ t, tagOf cfg.H (F.getD 9 0).toNat key (F.drop 48) = some t ∧
      verify cfg key F = .ok (if (F.drop 10).take t.length = t then 0 else 2, (F.getD 8 0).toNat, (F.getD 9 0).toNat) := by
  obtain ⟨t, ht, hlen⟩ := tagFn_some (F.getD 9 0).toNat hh key.toList (F.drop 48)
  refine ⟨t, by rw [tagOf_eq cfg.H hH _ hh, ht], ?_⟩
  have hr : ¬ ((F.getD 8 0).toNat > 4 ∨ (F.getD 9 0).toNat > 2) := by omega
  rw [verify_long cfg key F hm hl, if_neg hr, cmphmac_eq cfg.H hH _ hh]
  show (match (tagFn (F.getD 9 0).toNat key.toList (F.drop 48)).map _ with | none => _ | some true => _ | some false => _) = _
  rw [ht]
  have ht64 := hlen_le _ _ hlen
  simp only [Option.map_some, List.take_take, Nat.min_eq_left ht64]
  by_cases hcmp : (F.drop 10).take t.length = t
  · simp [hcmp]
  · simp [hcmp]

/-- C11: verify is total — no fault (no NULL hasher or cipher is ever dereferenced) for any byte string and key -/
theorem verify_total (cfg : Cfg) (hH : 1 ≤ cfg.H) (key : Block) (F : Bytes) : ∃ r, verify cfg key F = .ok r := by
  by_cases hm : F.take 8 = Gen.magicBytes
  · by_cases hl : 74 ≤ F.length
    · by_cases hr : (F.getD 8 0).toNat > 4 ∨ (F.getD 9 0).toNat > 2
      · exact ⟨_, by rw [verify_long cfg key F hm hl, if_pos hr]⟩
      · obtain ⟨t, _, hv⟩ := verify_inrange cfg hH key F hm hl (by omega) (by omega)
        exact ⟨_, hv⟩
    · obtain ⟨c, h, hv⟩ := verify_short cfg key F hm (by omega)
      exact ⟨_, hv⟩
  · exact ⟨_, verify_bad_magic cfg key F (Or.inr hm)⟩

theorem verify_code_cases (cfg : Cfg) (hH : 1 ≤ cfg.H) (key : Block) (F : Bytes) (code c h : Nat) (hv : verify cfg key F = .ok (code, c, h)) :
    (code = 0 ∨ code = 1 ∨ code = 2 ∨ code = 3 ∨ code = 4) ∧
    (F.length < 8 ∨ F.take 8 ≠ Gen.magicBytes → code = 4) ∧
    (F.take 8 = Gen.magicBytes → F.length < 74 → code = 1) ∧
    (F.take 8 = Gen.magicBytes → 74 ≤ F.length → ((F.getD 8 0).toNat > 4 ∨ (F.getD 9 0).toNat > 2) → code = 3) ∧
    (code = 0 → c = (F.getD 8 0).toNat ∧ h = (F.getD 9 0).toNat) := by
  by_cases hm : F.take 8 = Gen.magicBytes
  · have h8 := magic_len F hm
    by_cases hl : 74 ≤ F.length
    · by_cases hr : (F.getD 8 0).toNat > 4 ∨ (F.getD 9 0).toNat > 2
      · rw [verify_long cfg key F hm hl, if_pos hr] at hv
        simp only [Except.ok.injEq, Prod.mk.injEq] at hv
        obtain ⟨rfl, rfl, rfl⟩ := hv
        refine ⟨by omega, ?_, ?_, ?_, ?_⟩
        · intro h; exact absurd h (fun h => h.elim (by omega) (fun h => h hm))
        · intro _ h; omega
        · intros; rfl
        · intro h; omega
      · obtain ⟨t, _, hv'⟩ := verify_inrange cfg hH key F hm hl (by omega) (by omega)
        rw [hv'] at hv
        simp only [Except.ok.injEq, Prod.mk.injEq] at hv
        obtain ⟨hcode, rfl, rfl⟩ := hv
        have hc02 : code = 0 ∨ code = 2 := by
          rw [← hcode]; split <;> simp
        refine ⟨by omega, ?_, ?_, ?_, ?_⟩
        · intro h; exact absurd h (fun h => h.elim (by omega) (fun h => h hm))
        · intro _ h; omega
        · intro _ _ h; exact absurd h hr
        · intro _; exact ⟨rfl, rfl⟩
    · obtain ⟨c', h', hv'⟩ := verify_short cfg key F hm (by omega)
      rw [hv'] at hv
      simp only [Except.ok.injEq, Prod.mk.injEq] at hv
      obtain ⟨rfl, rfl, rfl⟩ := hv
      refine ⟨by omega, ?_, ?_, ?_, ?_⟩
      · intro h; exact absurd h (fun h => h.elim (by omega) (fun h => h hm))
      · intros; rfl
      · intro _ h; omega
      · intro h; omega
  · rw [verify_bad_magic cfg key F (Or.inr hm)] at hv
    simp only [Except.ok.injEq, Prod.mk.injEq] at hv
    obtain ⟨rfl, rfl, rfl⟩ := hv
    refine ⟨by omega, ?_, ?_, ?_, ?_⟩
    · intro _; rfl
    · intro h; exact absurd h hm
    · intro h; exact absurd h hm
    · intro h; omega

/-- result codes: 4 = bad magic (or shorter than 8), 1 = shorter than 74, 3 = mode byte out of range, 2 = tag mismatch, 0 = accepted -/
theorem verify_zero_iff (cfg : Cfg) (hH : 1 ≤ cfg.H) (key : Block) (F : Bytes) :
    (∃ c h, verify cfg key F = .ok (0, c, h)) ↔ Accepted cfg key F := by
  constructor
  · rintro ⟨c, h, hv⟩
    obtain ⟨_, h4, h1, h3, _⟩ := verify_code_cases cfg hH key F 0 c h hv
    have hm : F.take 8 = Gen.magicBytes := by
      by_cases hm : F.take 8 = Gen.magicBytes
      · exact hm
      · exact absurd (h4 (Or.inr hm)) (by omega)
    have hl : 74 ≤ F.length := by
      by_cases hl : 74 ≤ F.length
      · exact hl
      · exact absurd (h1 hm (by omega)) (by omega)
    have hr : ¬ ((F.getD 8 0).toNat > 4 ∨ (F.getD 9 0).toNat > 2) := fun hr => absurd (h3 hm hl hr) (by omega)
    obtain ⟨t, ht, hv'⟩ := verify_inrange cfg hH key F hm hl (by omega) (by omega)
    rw [hv'] at hv
    simp only [Except.ok.injEq, Prod.mk.injEq] at hv
    refine ⟨hm, hl, by omega, by omega, t, ht, ?_⟩
    by_cases hcmp : (F.drop 10).take t.length = t
    · exact hcmp
    · rw [if_neg hcmp] at hv; omega
  · rintro ⟨hm, hl, hc, hh, t, ht, hcmp⟩
    obtain ⟨t', ht', hv'⟩ := verify_inrange cfg hH key F hm hl hc hh
    rw [ht] at ht'
    cases ht'
    rw [if_pos hcmp] at hv'
    exact ⟨_, _, hv'⟩

/-- C06: a second key is accepted for a file only if it produces the very same tag over the same bytes (a key collision of the MAC) -/
theorem wrong_key (cfg : Cfg) (hH : 1 ≤ cfg.H) (key key' : Block) (F : Bytes) (hF : Accepted cfg key F) (hF' : Accepted cfg key' F) :
    tagOf cfg.H (F.getD 9 0).toNat key' (F.drop 48) = tagOf cfg.H (F.getD 9 0).toNat key (F.drop 48) := by
  obtain ⟨_, _, _, hh, t, ht, hcmp⟩ := hF
  obtain ⟨_, _, _, _, t', ht', hcmp'⟩ := hF'
  have l1 := tagOf_length cfg.H hH _ hh key _ t ht
  have l2 := tagOf_length cfg.H hH _ hh key' _ t' ht'
  rw [l1] at l2
  have e : t.length = t'.length := Option.some.inj l2
  rw [ht, ht']
  congr 1
  calc t' = (F.drop 10).take t'.length := hcmp'.symm
    _ = (F.drop 10).take t.length := by rw [e]
    _ = t := hcmp

/-! ### decrypt -/

theorem decrypt_of_verify (cfg : Cfg) (key : Block) (F : Bytes) (res c h : Nat) (hv : verify cfg key F = .ok (res, c, h)) :
    decrypt cfg key F =
      if res ≠ 0 then .ok (res, WFile.empty)
      else match prepareAES cfg.T c key ((F.drop 48).take (20 * cfg.T)) false with
        | .error e => .error e
        | .ok ss => .ok (0, (seqPipeline cfg.T cfg.B false ss ⟨F, textMark cfg.T, false⟩ WFile.empty).2.2) := by
  unfold decrypt
  rw [hv]
  simp only [bind, Except.bind]
  by_cases hr : res ≠ 0
  · rw [if_pos hr, if_pos hr]; rfl
  · rw [if_neg hr, if_neg hr]
    have e : (((RFile.open F).fseek Gen.c_FILE_IV_MARK).fread (20 * cfg.T)).snd = (F.drop 48).take (20 * cfg.T) := rfl
    rw [e]
    cases prepareAES cfg.T c key ((F.drop 48).take (20 * cfg.T)) false <;> rfl

theorem executeVerify_of_verify (cfg : Cfg) (key : Block) (F : Bytes) (res c h : Nat) (hv : verify cfg key F = .ok (res, c, h)) :
    executeVerify cfg key F = .ok res := by
  unfold executeVerify
  rw [hv]; rfl

theorem prepareAES_ok (T c : Nat) (hc : c ≤ 4) (key : Block) (iv : Bytes) :
    ∃ s, Modes.create false c key (Block.ofListD iv) = some s ∧ prepareAES T c key iv false = .ok (List.replicate T s) := by
  have : ∃ k, Modes.factoryKind false c = some k := by
    match c, hc with
    | 0, _ => exact ⟨_, rfl⟩
    | 1, _ => exact ⟨_, rfl⟩
    | 2, _ => exact ⟨_, rfl⟩
    | 3, _ => exact ⟨_, rfl⟩
    | 4, _ => exact ⟨_, rfl⟩
  obtain ⟨k, hk⟩ := this
  refine ⟨{ kind := k, crypt := Modes.cryptFn k key, iv := Block.ofListD iv }, by simp only [Modes.create, hk, Option.map_some], ?_⟩
  simp only [prepareAES, Modes.create, hk, Option.map_some]

/-- a successful decryption in closed form -/
theorem decrypt_zero (cfg : Cfg) (hH : 1 ≤ cfg.H) (key : Block) (F : Bytes) (c h : Nat) (hv : verify cfg key F = .ok (0, c, h)) :
    ∃ s, Modes.create false (F.getD 8 0).toNat key (Block.ofListD ((F.drop 48).take (20 * cfg.T))) = some s ∧
      decrypt cfg key F = .ok (0, (seqPipeline cfg.T cfg.B false (List.replicate cfg.T s) ⟨F, textMark cfg.T, false⟩ WFile.empty).2.2) := by
  obtain ⟨hc, _⟩ := (verify_code_cases cfg hH key F 0 c h hv).2.2.2.2 rfl
  have hacc := (verify_zero_iff cfg hH key F).1 ⟨c, h, hv⟩
  subst hc
  obtain ⟨s, hs, hp⟩ := prepareAES_ok cfg.T (F.getD 8 0).toNat hacc.2.2.1 key ((F.drop 48).take (20 * cfg.T))
  refine ⟨s, hs, ?_⟩
  rw [decrypt_of_verify cfg key F 0 _ h hv, if_neg (by simp), hp]

/-- C11/C12: decrypt is total, reports exactly verify's code, and a failing decryption writes nothing -/
theorem decrypt_total (cfg : Cfg) (hH : 1 ≤ cfg.H) (key : Block) (F : Bytes) :
    ∃ code out, decrypt cfg key F = .ok (code, out) ∧ executeVerify cfg key F = .ok code ∧
      (code ≠ 0 → out.log = [] ∧ out.data = []) := by
  obtain ⟨⟨res, c, h⟩, hv⟩ := verify_total cfg hH key F
  by_cases hr : res = 0
  · subst hr
    obtain ⟨s, _, hd⟩ := decrypt_zero cfg hH key F c h hv
    exact ⟨0, _, hd, executeVerify_of_verify cfg key F 0 c h hv, fun h => absurd rfl h⟩
  · refine ⟨res, WFile.empty, ?_, executeVerify_of_verify cfg key F res c h hv, fun _ => ⟨rfl, rfl⟩⟩
    rw [decrypt_of_verify cfg key F res c h hv, if_pos hr]

/-- C12: verification succeeds exactly when decryption succeeds -/
theorem verify_iff_decrypt (cfg : Cfg) (hH : 1 ≤ cfg.H) (key : Block) (F : Bytes) :
    executeVerify cfg key F = .ok 0 ↔ ∃ out, decrypt cfg key F = .ok (0, out) := by
  obtain ⟨code, out, hd, he, _⟩ := decrypt_total cfg hH key F
  constructor
  · intro h0
    rw [he] at h0
    cases h0
    exact ⟨out, hd⟩
  · rintro ⟨out', hd'⟩
    rw [hd] at hd'
    cases hd'
    exact he

/-! ### the sequential pipeline: output size -/

theorem splitBlocks_length (l : Bytes) : (splitBlocks l).1.length = l.length / 16 := by
  fun_induction splitBlocks l with
  | case1 bs h r ih =>
    simp only [List.length_cons, r, ih, List.length_drop]
    omega
  | case2 bs h =>
    simp only [List.length_nil]
    omega

theorem joinBlocks_length (bl : List Block) : (joinBlocks bl).length = 16 * bl.length := by
  induction bl with
  | nil => rfl
  | cons b bl ih =>
    have : joinBlocks (b :: bl) = b.toList ++ joinBlocks bl := rfl
    rw [this, List.length_append, ih, Block.toList_length, List.length_cons]
    omega

theorem exportBytes_length_le (buf : IoBuf) (p : Bool) : (exportBytes buf p).length ≤ 16 * buf.blocks.length := by
  unfold exportBytes
  split
  · simp only [List.length_take, joinBlocks_length]
    omega
  · rw [joinBlocks_length]
    exact Nat.le_refl _

theorem fwrite_append (f : WFile) (bs : Bytes) (hp : f.pos = f.data.length) :
    (f.fwrite bs).data = f.data ++ bs ∧ (f.fwrite bs).pos = (f.fwrite bs).data.length := by
  unfold WFile.fwrite
  split
  · rename_i he
    have : bs = [] := by simpa using he
    subst this
    simp [hp]
  · simp only [writeAt, hp, Nat.lt_irrefl, if_false, List.take_length, List.length_append]
    rw [List.drop_eq_nil_of_le (by omega)]
    simp

/-- the pure part of `load_buffer`: the buffer and status as a function of the bytes read and the end-of-file flag -/
def loadPure (B : Nat) (ispadding : Bool) (buf : IoBuf) (got : Bytes) (readover : Bool) : IoBuf × LSt :=
  let sum := 16 * B
  let load := got.length
  let tail := load % 16
  let total := load / 16
  let buf := { buf with blocks := (splitBlocks got).1, total := total, now := 0, tail := tail }
  if ispadding && load ≠ sum then
    ({ buf with blocks := (splitBlocks got).1 ++ [padBlock (splitBlocks got).2], total := total + 1, isfinal := true }, .final)
  else if !ispadding && readover then
    if total = 0 then (buf, .nodata)
    else ({ buf with isfinal := true }, .final)
  else (buf, if load = 0 then .nodata else .full)

theorem loadBuffer_eq (B : Nat) (fin : RFile) (p : Bool) (buf : IoBuf) :
    loadBuffer B fin p buf =
      let r := fin.fread (16 * B)
      let q := if !p && !r.1.feof then r.1.peekEof else (r.1, r.1.feof)
      (q.1, loadPure B p buf r.2 q.2) := by
  unfold loadBuffer loadPure
  simp only
  split <;> (try split) <;> (try split) <;> (try split) <;> rfl

theorem loadPure_false (B : Nat) (buf : IoBuf) (got : Bytes) (ro : Bool) :
    (loadPure B false buf got ro).1.blocks.length = got.length / 16 := by
  unfold loadPure
  simp only [Bool.false_and, Bool.false_eq_true, if_false, Bool.not_false, Bool.true_and]
  split <;> (try split) <;> exact splitBlocks_length got

theorem peekEof_fst (f : RFile) : f.peekEof.1.data = f.data ∧ f.peekEof.1.pos = f.pos := by
  unfold RFile.peekEof; split <;> exact ⟨rfl, rfl⟩

/-- what a non-padding `load_buffer` does to the stream: it advances by the `g` bytes read, which make up at least the
    whole blocks delivered -/
theorem loadBuffer_false_spec (B : Nat) (fin : RFile) (buf : IoBuf) :
    ∃ g, g ≤ fin.data.length - fin.pos ∧ (loadBuffer B fin false buf).1.data = fin.data ∧
      (loadBuffer B fin false buf).1.pos = fin.pos + g ∧ 16 * (loadBuffer B fin false buf).2.1.blocks.length ≤ g := by
  refine ⟨(fin.fread (16 * B)).2.length, ?_, ?_, ?_, ?_⟩
  · simp only [RFile.fread, List.length_take, List.length_drop]; omega
  · rw [loadBuffer_eq]
    simp only
    split
    · exact (peekEof_fst _).1
    · rfl
  · rw [loadBuffer_eq]
    simp only
    split
    · exact (peekEof_fst _).2
    · rfl
  · rw [loadBuffer_eq]
    simp only
    rw [loadPure_false]
    omega

theorem seqLoop_bound (T B : Nat) : ∀ (fuel j : Nat) (ss : List Modes.Stream) (fin : RFile) (fout : WFile),
    fout.pos = fout.data.length →
    (seqLoop T B false fuel j ss fin fout).2.2.data.length ≤ fout.data.length + (fin.data.length - fin.pos) := by
  intro fuel
  induction fuel with
  | zero => intro j ss fin fout _; simp only [seqLoop]; omega
  | succ fuel ih =>
    intro j ss fin fout hp
    obtain ⟨g, hg, hd, hpos, hbl⟩ := loadBuffer_false_spec B fin IoBuf.new
    unfold seqLoop
    generalize loadBuffer B fin false IoBuf.new = r at hd hpos hbl
    obtain ⟨fin', buf, st⟩ := r
    simp only at hd hpos hbl ⊢
    split
    · simp only; omega
    · split
      · simp only; omega
      · rename_i s hs
        have hrl := Wencry.Proofs.Modes.run_length s buf.blocks
        generalize s.run buf.blocks = rr at hrl
        obtain ⟨s', outBlocks⟩ := rr
        simp only at hrl ⊢
        have hexp := exportBytes_length_le { buf with blocks := outBlocks, now := buf.total } false
        simp only at hexp
        obtain ⟨hfw, hfp⟩ := fwrite_append fout (exportBytes { buf with blocks := outBlocks, now := buf.total } false) hp
        split
        · have := ih (j + 1) (setAt ss (j % T) s') fin' _ hfp
          rw [hfw, List.length_append, hd, hpos] at this
          omega
        · simp only [hfw, List.length_append]
          omega

set_option linter.unusedVariables false in
/-- C11: a successful decryption writes no more bytes than the ciphertext body holds -/
theorem decrypt_output_bound (cfg : Cfg) (hH : 1 ≤ cfg.H) (hB : 1 ≤ cfg.B) (key : Block) (F : Bytes) (out : WFile)
    (hd : decrypt cfg key F = .ok (0, out)) : out.data.length ≤ F.length - textMark cfg.T := by
  have hev := (verify_iff_decrypt cfg hH key F).2 ⟨out, hd⟩
  obtain ⟨⟨res, c, h⟩, hv⟩ := verify_total cfg hH key F
  rw [executeVerify_of_verify cfg key F res c h hv] at hev
  cases hev
  obtain ⟨s, _, hd'⟩ := decrypt_zero cfg hH key F c h hv
  rw [hd'] at hd
  simp only [Except.ok.injEq, Prod.mk.injEq, true_and] at hd
  subst hd
  have := seqLoop_bound cfg.T cfg.B (({ data := F, pos := textMark cfg.T, eof := false } : RFile).remaining / (16 * cfg.B) + 2) 0
    (List.replicate cfg.T s) { data := F, pos := textMark cfg.T, eof := false } WFile.empty rfl
  simpa [seqPipeline, WFile.empty] using this

/-! ### the sequential pipeline depends only on the unread part of the input -/

/-- two input streams with the same unread bytes and end-of-file indicator -/
def Sim (f1 f2 : RFile) : Prop := f1.data.drop f1.pos = f2.data.drop f2.pos ∧ f1.eof = f2.eof

theorem Sim.remaining {f1 f2 : RFile} (h : Sim f1 f2) : f1.remaining = f2.remaining := by
  have := congrArg List.length h.1
  simpa [RFile.remaining, List.length_drop] using this

theorem fread_sim {f1 f2 : RFile} (h : Sim f1 f2) (n : Nat) :
    (f1.fread n).2 = (f2.fread n).2 ∧ Sim (f1.fread n).1 (f2.fread n).1 := by
  obtain ⟨hd, he⟩ := h
  have h2 : (f1.fread n).2 = (f2.fread n).2 := by simp only [RFile.fread, hd]
  refine ⟨h2, ?_, ?_⟩
  · show f1.data.drop (f1.pos + (f1.fread n).2.length) = f2.data.drop (f2.pos + (f2.fread n).2.length)
    rw [← List.drop_drop, ← List.drop_drop, hd, h2]
  · show (f1.eof || decide ((f1.fread n).2.length < n)) = (f2.eof || decide ((f2.fread n).2.length < n))
    rw [he, h2]

theorem peekEof_sim {f1 f2 : RFile} (h : Sim f1 f2) :
    f1.peekEof.2 = f2.peekEof.2 ∧ Sim f1.peekEof.1 f2.peekEof.1 := by
  have hr := h.remaining
  obtain ⟨hd, he⟩ := h
  simp only [RFile.remaining] at hr
  unfold RFile.peekEof
  by_cases h1 : f1.pos < f1.data.length
  · have h2 : f2.pos < f2.data.length := by omega
    rw [if_pos h1, if_pos h2]
    exact ⟨rfl, hd, he⟩
  · have h2 : ¬ f2.pos < f2.data.length := by omega
    rw [if_neg h1, if_neg h2]
    exact ⟨rfl, hd, rfl⟩

theorem loadBuffer_sim (B : Nat) (p : Bool) (buf : IoBuf) {f1 f2 : RFile} (h : Sim f1 f2) :
    (loadBuffer B f1 p buf).2 = (loadBuffer B f2 p buf).2 ∧ Sim (loadBuffer B f1 p buf).1 (loadBuffer B f2 p buf).1 := by
  obtain ⟨hg, hs⟩ := fread_sim h (16 * B)
  obtain ⟨hp2, hps⟩ := peekEof_sim hs
  have he : (f1.fread (16 * B)).1.feof = (f2.fread (16 * B)).1.feof := hs.2
  rw [loadBuffer_eq, loadBuffer_eq]
  simp only [hg, he]
  split
  · exact ⟨by rw [hp2], hps⟩
  · exact ⟨rfl, hs⟩

theorem seqLoop_sim (T B : Nat) (p : Bool) : ∀ (fuel j : Nat) (ss : List Modes.Stream) (f1 f2 : RFile) (fout : WFile),
    Sim f1 f2 →
    (seqLoop T B p fuel j ss f1 fout).1 = (seqLoop T B p fuel j ss f2 fout).1 ∧
    (seqLoop T B p fuel j ss f1 fout).2.2 = (seqLoop T B p fuel j ss f2 fout).2.2 := by
  intro fuel
  induction fuel with
  | zero => intro j ss f1 f2 fout _; exact ⟨rfl, rfl⟩
  | succ fuel ih =>
    intro j ss f1 f2 fout h
    obtain ⟨h2, hs⟩ := loadBuffer_sim B p IoBuf.new h
    unfold seqLoop
    generalize loadBuffer B f1 p IoBuf.new = r1 at h2 hs
    generalize loadBuffer B f2 p IoBuf.new = r2 at h2 hs
    obtain ⟨f1', buf, st⟩ := r1
    obtain ⟨f2', buf2, st2⟩ := r2
    simp only [Prod.mk.injEq] at h2 hs
    obtain ⟨rfl, rfl⟩ := h2
    simp only
    split
    · exact ⟨rfl, rfl⟩
    · split
      · exact ⟨rfl, rfl⟩
      · split
        · exact ih _ _ _ _ _ hs
        · exact ⟨rfl, rfl⟩

theorem seqPipeline_sim (T B : Nat) (p : Bool) (ss : List Modes.Stream) (f1 f2 : RFile) (fout : WFile) (h : Sim f1 f2) :
    (seqPipeline T B p ss f1 fout).2.2 = (seqPipeline T B p ss f2 fout).2.2 := by
  unfold seqPipeline
  rw [h.remaining]
  exact (seqLoop_sim T B p _ 0 ss f1 f2 fout h).2

/-- the plaintext delivered depends only on the worker count, chunk size, key, cipher-mode byte and the bytes from offset 48 on:
    in particular not on the tag, the gap behind it, or the hash-mode byte -/
theorem decrypt_congr (cfg : Cfg) (hH : 1 ≤ cfg.H) (key : Block) (F1 F2 : Bytes) (o1 o2 : WFile)
    (h8 : F1.getD 8 0 = F2.getD 8 0) (h48 : F1.drop 48 = F2.drop 48)
    (h1 : decrypt cfg key F1 = .ok (0, o1)) (h2 : decrypt cfg key F2 = .ok (0, o2)) : o1.data = o2.data := by
  have hz : ∀ F o, decrypt cfg key F = .ok (0, o) → ∃ c h, verify cfg key F = .ok (0, c, h) := by
    intro F o hd
    have hev := (verify_iff_decrypt cfg hH key F).2 ⟨o, hd⟩
    obtain ⟨⟨res, c, h⟩, hv⟩ := verify_total cfg hH key F
    rw [executeVerify_of_verify cfg key F res c h hv] at hev
    cases hev
    exact ⟨c, h, hv⟩
  obtain ⟨c1, g1, hv1⟩ := hz F1 o1 h1
  obtain ⟨c2, g2, hv2⟩ := hz F2 o2 h2
  obtain ⟨s1, hs1, hd1⟩ := decrypt_zero cfg hH key F1 c1 g1 hv1
  obtain ⟨s2, hs2, hd2⟩ := decrypt_zero cfg hH key F2 c2 g2 hv2
  rw [h8, h48, hs2] at hs1
  cases hs1
  rw [hd1] at h1
  rw [hd2] at h2
  simp only [Except.ok.injEq, Prod.mk.injEq, true_and] at h1 h2
  subst h1 h2
  have hsim : Sim { data := F1, pos := textMark cfg.T, eof := false } { data := F2, pos := textMark cfg.T, eof := false } := by
    refine ⟨?_, rfl⟩
    show F1.drop (48 + 20 * cfg.T) = F2.drop (48 + 20 * cfg.T)
    rw [← List.drop_drop, ← List.drop_drop, h48]
  rw [seqPipeline_sim cfg.T cfg.B false _ _ _ _ hsim]
end Wencry.Proofs.FileLogic

section AxiomCheck
open Wencry.Proofs.FileLogic
#print axioms getres_some
#print axioms getres_depends_on_suffix
#print axioms tagOf_isSome
#print axioms tagOf_length
#print axioms verify_total
#print axioms verify_zero_iff
#print axioms verify_code_cases
#print axioms decrypt_total
#print axioms verify_iff_decrypt
#print axioms decrypt_output_bound
#print axioms decrypt_congr
#print axioms wrong_key
end AxiomCheck
