/-
Tie between the two descriptions of the pipeline: the file-level model runs it sequentially (`IoBuffer.seqPipeline`, reading the
input stream with `loadBuffer`), the concurrency model (`Model/Pipe.lean`) takes the sequence of load results as an abstract
input and its reference output is `Pipe.seqOut`. With the loads taken from the file, the two agree; together with
`PipeData.final_output` this says: under every schedule the threads write exactly what the file-level model writes.
Also C18's structural facts about which IV each stream starts from.
-/
import Wencry.Model.File
import Wencry.Model.Pipe
import Wencry.Proofs.PipeData
namespace Wencry.Proofs.SeqGlue
open Wencry Wencry.Model Wencry.Model.Stdio Wencry.Model.IoBuffer Wencry.Model.Modes Wencry.Model.Pipe Wencry.Proofs.PipeProgress

/-- result of the p-th `load_buffer` call when the pipeline reads `fin` (after the first load that is not FULL nothing is loaded) -/
def loadsFrom (B : Nat) (ispad : Bool) : Nat → RFile → List Block × LSt
  | 0, fin => let r := loadBuffer B fin ispad IoBuf.new; (r.2.1.blocks, r.2.2)
  | p + 1, fin => let r := loadBuffer B fin ispad IoBuf.new; if r.2.2 = .full then loadsFrom B ispad p r.1 else ([], .nodata)

/-- the stream transformer of the real pipeline -/
def streamF (s : Stream) (b : Block) : Stream × Block := s.runcry b

theorem runF_streamF (s : Stream) (bs : List Block) : runF streamF s bs = s.run bs := by
  induction bs generalizing s with
  | nil => rfl
  | cons b bs ih =>
    simp only [Stream.run, runF, streamF] at ih ⊢
    rw [ih]

/-! ### one `load_buffer` call on a fresh buffer -/

theorem splitBlocks_length (bs : Bytes) : (splitBlocks bs).1.length = bs.length / 16 := by
  induction bs using splitBlocks.induct with
  | case1 bs h ih =>
    rw [splitBlocks]; simp only [h, dite_true, List.length_cons]
    rw [ih]; simp only [List.length_drop]; omega
  | case2 bs h =>
    rw [splitBlocks]; simp only [h, dite_false, List.length_nil]; omega

/-- `loadBuffer` with its pattern-matching `let`s spelled out -/
theorem loadBuffer_eq (B : Nat) (fin : RFile) (ispad : Bool) :
    loadBuffer B fin ispad IoBuf.new =
      let got := (fin.data.drop fin.pos).take (16 * B)
      let fin1 : RFile := { fin with pos := fin.pos + got.length, eof := fin.eof || decide (got.length < 16 * B) }
      let fr : RFile × Bool := if !ispad && !fin1.eof then fin1.peekEof else (fin1, fin1.eof)
      let whole := (splitBlocks got).1
      let rest := (splitBlocks got).2
      if ispad && got.length ≠ 16 * B then
        (fr.1, { blocks := whole ++ [padBlock rest], total := got.length / 16 + 1, now := 0, tail := got.length % 16, isfinal := true }, .final)
      else if !ispad && fr.2 then
        if got.length / 16 = 0 then (fr.1, { blocks := whole, total := got.length / 16, now := 0, tail := got.length % 16, isfinal := false }, .nodata)
        else (fr.1, { blocks := whole, total := got.length / 16, now := 0, tail := got.length % 16, isfinal := true }, .final)
      else (fr.1, { blocks := whole, total := got.length / 16, now := 0, tail := got.length % 16, isfinal := false }, if got.length = 0 then .nodata else .full) := by
  rfl

/-- everything the glue needs to know about one load: `total` is the number of blocks, `isfinal` is set exactly for FINAL,
    a load with data has at least one block, NODATA has none, a FULL load consumes `16*B` bytes -/
theorem loadBuffer_spec (B : Nat) (hB : 1 ≤ B) (fin : RFile) (ispad : Bool) :
    (loadBuffer B fin ispad IoBuf.new).2.1.total = (loadBuffer B fin ispad IoBuf.new).2.1.blocks.length ∧
    (loadBuffer B fin ispad IoBuf.new).2.1.isfinal = decide ((loadBuffer B fin ispad IoBuf.new).2.2 = .final) ∧
    ((loadBuffer B fin ispad IoBuf.new).2.2 ≠ .nodata → 1 ≤ (loadBuffer B fin ispad IoBuf.new).2.1.blocks.length) ∧
    ((loadBuffer B fin ispad IoBuf.new).2.2 = .nodata → (loadBuffer B fin ispad IoBuf.new).2.1.blocks.length = 0) ∧
    ((loadBuffer B fin ispad IoBuf.new).2.2 = .full →
      (loadBuffer B fin ispad IoBuf.new).1.remaining + 16 * B = fin.remaining) := by
  rw [loadBuffer_eq]
  have hlen : ((fin.data.drop fin.pos).take (16 * B)).length = min (16 * B) (fin.data.length - fin.pos) := by
    simp [List.length_take, List.length_drop]
  have hsp := splitBlocks_length ((fin.data.drop fin.pos).take (16 * B))
  generalize (fin.data.drop fin.pos).take (16 * B) = got at hlen hsp
  have h16 : 16 * B ≠ 0 := by omega
  cases ispad
  · by_cases h5 : got = []
    · subst h5
      by_cases h1 : fin.eof = true <;>
        simp [h1, h16, RFile.remaining, hsp, Nat.pos_of_ne_zero h16] at hlen ⊢
    · by_cases h1 : fin.eof = true <;> by_cases h2 : got.length < 16 * B <;>
        by_cases h3 : fin.pos + got.length < fin.data.length <;> by_cases h4 : got.length / 16 = 0 <;>
        simp [h1, h2, h3, h4, h5, RFile.peekEof, RFile.remaining, hsp] <;> omega
  · by_cases h2 : got.length = 16 * B <;>
      simp [h2, h16, RFile.remaining, hsp] <;> omega

/-! ### the sequence of loads -/

theorem loadsFrom_zero (B : Nat) (ispad : Bool) (fin : RFile) :
    loadsFrom B ispad 0 fin = ((loadBuffer B fin ispad IoBuf.new).2.1.blocks, (loadBuffer B fin ispad IoBuf.new).2.2) := rfl

theorem loadsFrom_succ_full (B : Nat) (ispad : Bool) (p : Nat) (fin : RFile)
    (h : (loadBuffer B fin ispad IoBuf.new).2.2 = .full) :
    loadsFrom B ispad (p + 1) fin = loadsFrom B ispad p (loadBuffer B fin ispad IoBuf.new).1 := by
  simp [loadsFrom, h]

theorem loadsFrom_succ_nonfull (B : Nat) (ispad : Bool) (p : Nat) (fin : RFile)
    (h : (loadBuffer B fin ispad IoBuf.new).2.2 ≠ .full) :
    loadsFrom B ispad (p + 1) fin = ([], .nodata) := by
  simp [loadsFrom, h]

theorem firstNonFull_zero (B : Nat) (ispad : Bool) (fin : RFile)
    (h : FirstNonFull (fun p => loadsFrom B ispad p fin) 0) : (loadBuffer B fin ispad IoBuf.new).2.2 ≠ .full := h.1

theorem firstNonFull_succ (B : Nat) (ispad : Bool) (fin : RFile) (P : Nat)
    (h : FirstNonFull (fun p => loadsFrom B ispad p fin) (P + 1)) :
    (loadBuffer B fin ispad IoBuf.new).2.2 = .full ∧
    FirstNonFull (fun p => loadsFrom B ispad p (loadBuffer B fin ispad IoBuf.new).1) P := by
  have h0 : (loadBuffer B fin ispad IoBuf.new).2.2 = .full := h.2 0 (by omega)
  refine ⟨h0, ?_, ?_⟩
  · have := h.1; simp only [loadsFrom_succ_full B ispad P fin h0] at this; exact this
  · intro p hp
    have := h.2 (p + 1) (by omega); simp only [loadsFrom_succ_full B ispad p fin h0] at this; exact this

theorem firstNonFull_mk_succ (B : Nat) (ispad : Bool) (fin : RFile) (P : Nat)
    (h0 : (loadBuffer B fin ispad IoBuf.new).2.2 = .full)
    (h : FirstNonFull (fun p => loadsFrom B ispad p (loadBuffer B fin ispad IoBuf.new).1) P) :
    FirstNonFull (fun p => loadsFrom B ispad p fin) (P + 1) := by
  refine ⟨?_, ?_⟩
  · simp only [loadsFrom_succ_full B ispad P fin h0]; exact h.1
  · intro p hp
    cases p with
    | zero => exact h0
    | succ p => simp only [loadsFrom_succ_full B ispad p fin h0]; exact h.2 p (by omega)

theorem loadsFrom_wf_aux (B : Nat) (hB : 1 ≤ B) (ispad : Bool) (p : Nat) : ∀ fin : RFile,
    ((loadsFrom B ispad p fin).2 ≠ .nodata → 1 ≤ (loadsFrom B ispad p fin).1.length) ∧
    ((loadsFrom B ispad p fin).2 = .nodata → (loadsFrom B ispad p fin).1.length = 0) := by
  induction p with
  | zero =>
    intro fin
    obtain ⟨-, -, h3, h4, -⟩ := loadBuffer_spec B hB fin ispad
    rw [loadsFrom_zero]; exact ⟨h3, h4⟩
  | succ p ih =>
    intro fin
    by_cases h : (loadBuffer B fin ispad IoBuf.new).2.2 = .full
    · rw [loadsFrom_succ_full B ispad p fin h]; exact ih _
    · rw [loadsFrom_succ_nonfull B ispad p fin h]; simp

theorem firstNonFull_exists (B : Nat) (hB : 1 ≤ B) (ispad : Bool) (n : Nat) : ∀ fin : RFile, fin.remaining ≤ n →
    ∃ P, FirstNonFull (fun p => loadsFrom B ispad p fin) P := by
  induction n with
  | zero =>
    intro fin hn
    refine ⟨0, ?_, fun p hp => absurd hp (Nat.not_lt_zero _)⟩
    intro hf
    have := (loadBuffer_spec B hB fin ispad).2.2.2.2 hf
    omega
  | succ n ih =>
    intro fin hn
    by_cases h : (loadBuffer B fin ispad IoBuf.new).2.2 = .full
    · have := (loadBuffer_spec B hB fin ispad).2.2.2.2 h
      obtain ⟨P, hP⟩ := ih (loadBuffer B fin ispad IoBuf.new).1 (by omega)
      exact ⟨P + 1, firstNonFull_mk_succ B ispad fin P h hP⟩
    · exact ⟨0, h, fun p hp => absurd hp (Nat.not_lt_zero _)⟩

/-- the loads of a finite file are a well-formed input with a first non-FULL load -/
theorem loadsFrom_wf (B : Nat) (hB : 1 ≤ B) (ispad : Bool) (fin : RFile) :
    Input.WF (fun p => loadsFrom B ispad p fin) ∧ ∃ P, FirstNonFull (fun p => loadsFrom B ispad p fin) P :=
  ⟨fun p => loadsFrom_wf_aux B hB ispad p fin, firstNonFull_exists B hB ispad fin.remaining fin (Nat.le_refl _)⟩

/-- every FULL load consumes `16*B` bytes -/
theorem firstNonFull_le (B : Nat) (hB : 1 ≤ B) (ispad : Bool) (P : Nat) : ∀ fin : RFile,
    FirstNonFull (fun p => loadsFrom B ispad p fin) P → P * (16 * B) ≤ fin.remaining := by
  induction P with
  | zero => intro fin _; omega
  | succ P ih =>
    intro fin h
    obtain ⟨h0, h1⟩ := firstNonFull_succ B ispad fin P h
    have := (loadBuffer_spec B hB fin ispad).2.2.2.2 h0
    have := ih _ h1
    rw [Nat.add_mul]; omega

/-! ### the sequential loop -/

theorem seqLoop_succ (T B : Nat) (ispad : Bool) (fuel j : Nat) (ss : List Stream) (fin : RFile) (fout : WFile) :
    seqLoop T B ispad (fuel + 1) j ss fin fout =
      if (loadBuffer B fin ispad IoBuf.new).2.2 = .nodata then (ss, (loadBuffer B fin ispad IoBuf.new).1, fout) else
      match ss[j % T]? with
      | none => (ss, (loadBuffer B fin ispad IoBuf.new).1, fout)
      | some s =>
        if (loadBuffer B fin ispad IoBuf.new).2.2 = .full then
          seqLoop T B ispad fuel (j + 1) (ss.set (j % T) (s.run (loadBuffer B fin ispad IoBuf.new).2.1.blocks).1)
            (loadBuffer B fin ispad IoBuf.new).1
            (fout.fwrite (exportBytes { (loadBuffer B fin ispad IoBuf.new).2.1 with
              blocks := (s.run (loadBuffer B fin ispad IoBuf.new).2.1.blocks).2,
              now := (loadBuffer B fin ispad IoBuf.new).2.1.total } ispad))
        else (ss.set (j % T) (s.run (loadBuffer B fin ispad IoBuf.new).2.1.blocks).1, (loadBuffer B fin ispad IoBuf.new).1,
            fout.fwrite (exportBytes { (loadBuffer B fin ispad IoBuf.new).2.1 with
              blocks := (s.run (loadBuffer B fin ispad IoBuf.new).2.1.blocks).2,
              now := (loadBuffer B fin ispad IoBuf.new).2.1.total } ispad)) := by
  rw [seqLoop]
  generalize loadBuffer B fin ispad IoBuf.new = r
  obtain ⟨fin', buf, st⟩ := r
  cases st <;> simp only [reduceCtorEq, if_false, if_true, setAt] <;> cases ss[j % T]? <;> rfl

/-- writing at the end of the file appends -/
theorem fwrite_append (fout : WFile) (bs : Bytes) (h : fout.pos = fout.data.length) :
    (fout.fwrite bs).data = fout.data ++ bs ∧ (fout.fwrite bs).pos = (fout.fwrite bs).data.length := by
  unfold WFile.fwrite
  cases bs with
  | nil => simp [h]
  | cons b bs => simp [writeAt, h]

theorem refBefore_lt {σ} (f : σ → Block → σ × Block) (inp : Input) (T : Nat) (ws0 : Nat → σ) (c : Nat) (h : c < T) :
    refBefore f inp T ws0 c = ws0 c := by
  rw [refBefore]; simp [h]

theorem refBefore_add {σ} (f : σ → Block → σ × Block) (inp : Input) (T : Nat) (hT : 1 ≤ T) (ws0 : Nat → σ) (c : Nat) :
    refBefore f inp T ws0 (c + T) = (runF f (refBefore f inp T ws0 c) (inp c).1).1 := by
  rw [refBefore]
  have : ¬(c + T < T ∨ T = 0) := by omega
  simp only [this, dite_false, Nat.add_sub_cancel]

theorem mod_ne_of_lt (T j c : Nat) (h1 : j < c) (h2 : c < j + T) : c % T ≠ j % T := by
  intro h
  have h3 := Nat.sub_mod_eq_zero_of_mod_eq h
  rw [Nat.mod_eq_of_lt (by omega)] at h3
  omega

/-- the export of chunk `j` in the loop is the reference export -/
theorem export_eq (T : Nat) (ispad : Bool) (ws0 : Nat → Stream) (inp : Input) (j : Nat) (buf : IoBuf) (st : LSt)
    (htot : buf.total = buf.blocks.length) (hfin : buf.isfinal = decide (st = .final))
    (hj : inp j = (buf.blocks, st)) :
    exportBytes { buf with blocks := ((refBefore streamF inp T ws0 j).run buf.blocks).2, now := buf.total } ispad
      = refExport streamF inp ispad T ws0 j := by
  unfold refExport refOut
  rw [hj, runF_streamF]
  simp [exportBytes, htot, hfin]

/-- invariant of the stream list: the element of residue `c % T` is the state before chunk `c`, for the next `T` chunks -/
theorem streams_step (T : Nat) (hT : 1 ≤ T) (ws0 : Nat → Stream) (inp : Input) (j : Nat) (ss : List Stream)
    (hlen : ss.length = T)
    (hss : ∀ c, j ≤ c → c < j + T → ss[c % T]? = some (refBefore streamF inp T ws0 c)) :
    ∀ c, j + 1 ≤ c → c < j + 1 + T →
      (ss.set (j % T) ((refBefore streamF inp T ws0 j).run (inp j).1).1)[c % T]? = some (refBefore streamF inp T ws0 c) := by
  intro c h1 h2
  have hjT : j % T < T := Nat.mod_lt _ (by omega)
  by_cases hc : c = j + T
  · subst hc
    rw [Nat.add_mod_right, List.getElem?_set_self (by omega), refBefore_add _ _ _ hT, runF_streamF]
  · rw [List.getElem?_set_ne (Ne.symm (mod_ne_of_lt T j c (by omega) (by omega)))]
    exact hss c (by omega) (by omega)

theorem seqLoop_gen (T B : Nat) (hT : 1 ≤ T) (hB : 1 ≤ B) (ispad : Bool) (ws0 : Nat → Stream) (inp : Input) (P : Nat) :
    ∀ (fuel j : Nat) (ss : List Stream) (fin : RFile) (fout : WFile),
      P + 1 ≤ fuel →
      (∀ p, inp (j + p) = loadsFrom B ispad p fin) →
      FirstNonFull (fun p => loadsFrom B ispad p fin) P →
      ss.length = T →
      (∀ c, j ≤ c → c < j + T → ss[c % T]? = some (refBefore streamF inp T ws0 c)) →
      fout.pos = fout.data.length →
      (seqLoop T B ispad fuel j ss fin fout).2.2.data =
        fout.data ++ ((List.range' j (nChunks (fun p => loadsFrom B ispad p fin) P)).map
          (refExport streamF inp ispad T ws0)).flatten := by
  induction P with
  | zero =>
    intro fuel j ss fin fout hfuel hinp hP hlen hss hpos
    obtain ⟨fuel, rfl⟩ : ∃ f, fuel = f + 1 := ⟨fuel - 1, by omega⟩
    obtain ⟨htot, hfin, -⟩ := loadBuffer_spec B hB fin ispad
    have hnf := firstNonFull_zero B ispad fin hP
    have hj := hinp 0
    rw [Nat.add_zero, loadsFrom_zero] at hj
    have hsj := hss j (Nat.le_refl _) (by omega)
    rw [seqLoop_succ]
    simp only [nChunks, loadsFrom_zero]
    by_cases hnd : (loadBuffer B fin ispad IoBuf.new).2.2 = .nodata
    · simp [hnd]
    · have hfl : (loadBuffer B fin ispad IoBuf.new).2.2 = .final := by
        cases h : (loadBuffer B fin ispad IoBuf.new).2.2 <;> simp_all
      rw [if_neg hnd, hsj]
      simp only [if_neg hnf]
      rw [(fwrite_append _ _ hpos).1, export_eq T ispad ws0 inp j _ _ htot hfin hj]
      simp [hfl]
  | succ P ih =>
    intro fuel j ss fin fout hfuel hinp hP hlen hss hpos
    obtain ⟨fuel, rfl⟩ : ∃ f, fuel = f + 1 := ⟨fuel - 1, by omega⟩
    obtain ⟨htot, hfin, -⟩ := loadBuffer_spec B hB fin ispad
    obtain ⟨hfull, hP'⟩ := firstNonFull_succ B ispad fin P hP
    have hj := hinp 0
    rw [Nat.add_zero, loadsFrom_zero] at hj
    have hsj := hss j (Nat.le_refl _) (by omega)
    have hnd : (loadBuffer B fin ispad IoBuf.new).2.2 ≠ .nodata := by rw [hfull]; simp
    rw [seqLoop_succ, if_neg hnd, hsj]
    simp only [if_pos hfull]
    have hw := fwrite_append fout (exportBytes { (loadBuffer B fin ispad IoBuf.new).2.1 with
              blocks := ((refBefore streamF inp T ws0 j).run (loadBuffer B fin ispad IoBuf.new).2.1.blocks).2,
              now := (loadBuffer B fin ispad IoBuf.new).2.1.total } ispad) hpos
    have hst := streams_step T hT ws0 inp j ss hlen hss
    rw [hj] at hst
    rw [ih fuel (j + 1) _ _ _ (by omega) ?_ hP' (by rw [List.length_set]; exact hlen) hst hw.2]
    · rw [hw.1, export_eq T ispad ws0 inp j _ _ htot hfin hj]
      have hn : nChunks (fun p => loadsFrom B ispad p fin) (P + 1)
          = nChunks (fun p => loadsFrom B ispad p (loadBuffer B fin ispad IoBuf.new).1) P + 1 := by
        simp only [nChunks, loadsFrom_succ_full B ispad P fin hfull]
        split <;> rfl
      rw [hn, List.range'_succ]
      simp [List.append_assoc]
    · intro p
      rw [← loadsFrom_succ_full B ispad p fin hfull, ← hinp (p + 1)]
      congr 1; omega

/-- the sequential file-level pipeline writes the reference output of the concurrency model -/
theorem seqPipeline_eq_seqOut (T B : Nat) (hT : 1 ≤ T) (hB : 1 ≤ B) (ispad : Bool) (ws0 : Nat → Stream) (fin : RFile) (fout : WFile)
    (happ : fout.pos = fout.data.length) (P : Nat) (hP : FirstNonFull (fun p => loadsFrom B ispad p fin) P) :
    (seqPipeline T B ispad ((List.range T).map ws0) fin fout).2.2.data
      = fout.data ++ seqOut streamF (fun p => loadsFrom B ispad p fin) ispad T ws0 (nChunks (fun p => loadsFrom B ispad p fin) P) := by
  unfold seqPipeline seqOut
  have hle := firstNonFull_le B hB ispad P fin hP
  have hfuel : P + 1 ≤ fin.remaining / (16 * B) + 2 := by
    have : P ≤ fin.remaining / (16 * B) := (Nat.le_div_iff_mul_le (by omega)).2 hle
    omega
  have hss : ∀ c, 0 ≤ c → c < 0 + T → ((List.range T).map ws0)[c % T]?
      = some (refBefore streamF (fun p => loadsFrom B ispad p fin) T ws0 c) := by
    intro c _ hc
    have hc' : c < T := by omega
    rw [Nat.mod_eq_of_lt hc', refBefore_lt _ _ _ _ _ hc']
    simp [hc']
  have key := seqLoop_gen T B hT hB ispad ws0 (fun p => loadsFrom B ispad p fin) P (fin.remaining / (16 * B) + 2) 0
    ((List.range T).map ws0) fin fout hfuel (fun p => by rw [Nat.zero_add]) hP (by simp) hss happ
  rw [key, List.range_eq_range']

/-- C03 at file level: every terminal state of the multithreaded pipeline reading `fin` holds exactly the bytes the
    sequential file-level model appends to an empty output -/
theorem threads_write_what_seqPipeline_writes (T B : Nat) (hT : 1 ≤ T) (hB : 1 ≤ B) (ispad : Bool) (ws0 : Nat → Stream) (fin : RFile)
    (s : St Stream) (h : PipeCtl.Reach streamF (fun p => loadsFrom B ispad p fin) ispad T ws0 s) (hd : allDone T s) :
    s.out = (seqPipeline T B ispad ((List.range T).map ws0) fin WFile.empty).2.2.data := by
  obtain ⟨hwf, P, hP⟩ := loadsFrom_wf B hB ispad fin
  rw [seqPipeline_eq_seqOut T B hT hB ispad ws0 fin WFile.empty rfl P hP]
  rw [(PipeData.final_output streamF _ hwf ispad P T hT hP ws0 s h hd).1]
  simp [WFile.empty]

/-- C18 (finding K2, stated as a theorem about the code as it is): `prepare_AES` constructs every stream from the same IV -/
theorem prepareAES_all_equal (T ctype : Nat) (key : Block) (iv : Bytes) (isenc : Bool) (ss : List Stream)
    (h : File.prepareAES T ctype key iv isenc = .ok ss) :
    ss.length = T ∧ ∀ s ∈ ss, s.iv = Block.ofListD iv := by
  unfold File.prepareAES at h
  split at h
  · cases h
  · rename_i s hs
    injection h with h
    subst h
    refine ⟨List.length_replicate, ?_⟩
    intro s' hs'
    rw [List.eq_of_mem_replicate hs']
    unfold create at hs
    cases hk : factoryKind isenc ctype with
    | none => simp [hk] at hs
    | some k => simp [hk] at hs; rw [← hs]

/-- consequence: two equal plaintext chunks among the first T chunks (hence on different streams) give equal ciphertext chunks -/
theorem equal_chunks_equal_output (f : Stream → Block → Stream × Block) (inp : Input) (T : Nat) (s0 : Stream) (i j : Nat)
    (hi : i < T) (hj : j < T) (he : (inp i).1 = (inp j).1) :
    refOut f inp T (fun _ => s0) i = refOut f inp T (fun _ => s0) j := by
  unfold refOut
  rw [refBefore_lt _ _ _ _ _ hi, refBefore_lt _ _ _ _ _ hj, he]

end Wencry.Proofs.SeqGlue
