/-
Helper for EncSpec: the sequential pipeline on the encrypt side as a fold over the chunk list.
-/
import Wencry.Proofs.EncSpecBlocks
import Wencry.Proofs.ModesCorrect
namespace Wencry.Proofs.EncSpec
open Wencry Wencry.Model Wencry.Model.File Wencry.Model.Stdio Wencry.Model.IoBuffer Wencry.Model.Modes Wencry.Proofs.Modes

/-- chunk `j` goes through stream `j % T`, which keeps its state for chunk `j + T` -/
def runChunks (T : Nat) : Nat → List Stream → List (List Block) → List (List Block)
  | _, _, [] => []
  | j, ss, c :: cs =>
    match ss[j % T]? with
    | none => []
    | some s => (s.run c).2 :: runChunks T (j + 1) (ss.set (j % T) (s.run c).1) cs

theorem fwrite_append (f : WFile) (h : f.pos = f.data.length) (bs : Bytes) :
    (f.fwrite bs).data = f.data ++ bs ∧ (f.fwrite bs).pos = (f.fwrite bs).data.length := by
  unfold WFile.fwrite
  split
  · rename_i he
    have : bs = [] := by simpa using he
    subst this; simp [h]
  · simp [writeAt, h]

theorem loadBuffer_enc_full (B : Nat) (hB : 1 ≤ B) (fin : RFile) (h : 16 * B ≤ (fin.data.drop fin.pos).length) :
    loadBuffer B fin true IoBuf.new =
      ({ data := fin.data, pos := fin.pos + 16 * B, eof := fin.eof },
       { blocks := (splitBlocks ((fin.data.drop fin.pos).take (16 * B))).1, total := B, now := 0, tail := 0, isfinal := false },
       .full) := by
  have hl : ((fin.data.drop fin.pos).take (16 * B)).length = 16 * B := by simp at h ⊢; omega
  simp only [loadBuffer, RFile.fread, RFile.feof, hl]
  simp [IoBuf.new]
  omega

theorem loadBuffer_enc_final (B : Nat) (fin : RFile) (h : (fin.data.drop fin.pos).length < 16 * B) :
    ∃ fin' tl, loadBuffer B fin true IoBuf.new =
      (fin',
       { blocks := (splitBlocks (fin.data.drop fin.pos)).1 ++ [padBlock (splitBlocks (fin.data.drop fin.pos)).2],
         total := (splitBlocks (fin.data.drop fin.pos)).1.length + 1, now := 0, tail := tl, isfinal := true },
       .final) := by
  have ht : (fin.data.drop fin.pos).take (16 * B) = fin.data.drop fin.pos := List.take_of_length_le (by omega)
  have hne : fin.data.length - fin.pos ≠ 16 * B := by simp at h; omega
  simp only [loadBuffer, RFile.fread, RFile.feof, ht]
  simp [IoBuf.new, splitBlocks_fst_length]
  rw [if_neg hne]
  exact ⟨_, _, rfl⟩


theorem exportBytes_enc (outs : List Block) (total tl : Nat) (fin : Bool) (h : outs.length = total) :
    exportBytes { blocks := outs, total := total, now := total, tail := tl, isfinal := fin } true = joinBlocks outs := by
  unfold exportBytes
  cases fin
  · simp
  · simp only [if_true, Bool.true_or]
    subst h; simp
    exact List.take_of_length_le (by rw [joinBlocks_length]; omega)

/-- the sequential pipeline, encrypt side: each chunk's transformed blocks are appended to the output in order -/
theorem seqLoop_enc (T B : Nat) (hB : 1 ≤ B) : ∀ (fuel j : Nat) (ss : List Stream) (fin : RFile) (fout : WFile),
    fout.pos = fout.data.length →
    (seqLoop T B true fuel j ss fin fout).2.2.data
      = fout.data ++ joinBlocks (runChunks T j ss (encChunks B fuel (fin.data.drop fin.pos))).flatten := by
  intro fuel
  induction fuel with
  | zero => intro j ss fin fout _; simp [seqLoop, encChunks, runChunks, joinBlocks_nil]
  | succ fuel ih =>
    intro j ss fin fout hpos
    by_cases hd : 16 * B ≤ (fin.data.drop fin.pos).length
    · simp only [seqLoop, loadBuffer_enc_full B hB fin hd, encChunks, hd, if_true, runChunks]
      cases hs : ss[j % T]? with
      | none => simp [joinBlocks_nil]
      | some s =>
        simp only []
        have hl := run_length s (splitBlocks ((fin.data.drop fin.pos).take (16 * B))).1
        have hB' : (splitBlocks ((fin.data.drop fin.pos).take (16 * B))).1.length = B := by
          rw [splitBlocks_fst_length]; simp at hd ⊢; omega
        rw [exportBytes_enc _ _ _ _ (hl.trans hB')]
        obtain ⟨h1, h2⟩ := fwrite_append fout hpos (joinBlocks (s.run (splitBlocks ((fin.data.drop fin.pos).take (16 * B))).1).2)
        simp only [setAt]
        rw [ih _ _ _ _ h2, h1]
        simp [joinBlocks_append, List.drop_drop]
    · obtain ⟨fin', tl, hlb⟩ := loadBuffer_enc_final B fin (Nat.lt_of_not_le hd)
      simp only [seqLoop, hlb, encChunks, hd, if_false, runChunks]
      cases hs : ss[j % T]? with
      | none => simp [joinBlocks_nil]
      | some s =>
        simp only []
        have hl := run_length s ((splitBlocks (fin.data.drop fin.pos)).1 ++ [padBlock (splitBlocks (fin.data.drop fin.pos)).2])
        rw [exportBytes_enc _ _ _ _ (hl.trans (by simp))]
        obtain ⟨h1, h2⟩ := fwrite_append fout hpos (joinBlocks (s.run ((splitBlocks (fin.data.drop fin.pos)).1 ++ [padBlock (splitBlocks (fin.data.drop fin.pos)).2])).2)
        simp [h1]

end Wencry.Proofs.EncSpec
