/-
The pipeline theorems (C03, C04, C14) for executions WITH spurious wake-ups (Model/PipeSpurious.lean): every safety statement
holds on every state reachable under any schedule and any pattern of spurious wake-ups; there is no deadlock; every ordinary
step still decreases the measure μ and a spurious wake-up changes nothing but one program counter, so an execution with
finitely many spurious wake-ups is finite.
-/
import Wencry.Model.PipeSpurious
import Wencry.Proofs.PipeCtl
import Wencry.Proofs.PipeProgress
import Wencry.Proofs.PipeDataInv
import Wencry.Proofs.PipeData
namespace Wencry.Proofs.PipeSpurious
open Wencry Wencry.Model.Pipe Wencry.Model.PipeSpurious Wencry.Model.IoBuffer
open Wencry.Proofs.PipeCtl Wencry.Proofs.PipeProgress Wencry.Proofs.PipeDataInv Wencry.Proofs.PipeData

variable {σ : Type}

/-! ### helpers -/

/-- what a spurious wake-up does -/
theorem spurious_cases (T : Nat) (s s' : St σ) (tid : Option Nat) (hs : spurious T s tid = some s') :
    (tid = none ∧ s.iopc = .sleepUpd ∧ s' = { s with iopc := .waitUpd }) ∨
    (∃ i, tid = some i ∧ i < T ∧ (s.wpc i = .sleepRdy ∨ s.wpc i = .initSleep) ∧
       s' = { s with wpc := upd s.wpc i (wake (s.wpc i)) }) := by
  cases tid with
  | none =>
    simp only [spurious] at hs
    split at hs
    · rename_i h; simp only [Option.some.injEq] at hs; exact Or.inl ⟨rfl, h, hs.symm⟩
    · simp at hs
  | some i =>
    simp only [spurious] at hs
    split at hs
    · rename_i hi
      split at hs
      · rename_i hp; simp only [Option.some.injEq] at hs
        exact Or.inr ⟨i, rfl, hi, Or.inl hp, by rw [hp]; exact hs.symm⟩
      · rename_i hp; simp only [Option.some.injEq] at hs
        exact Or.inr ⟨i, rfl, hi, Or.inr hp, by rw [hp]; exact hs.symm⟩
      · simp at hs
    · simp at hs

theorem PInv_spurIo (T : Nat) (s : St σ) (h : PInv T s) (hpc : s.iopc = .sleepUpd) :
    PInv T { s with iopc := .waitUpd } := by
  obtain ⟨h1, h2, h3, h4, h5, h6⟩ := h
  refine ⟨fun _ => h1 (by simp [hpc]), h2, by simp, by simp, by simp, ?_⟩
  intro j hj
  have hb := h6 j hj
  simp only [BufOK, ioIn, hpc] at hb ⊢
  simp at hb ⊢
  grind

theorem PInv_spurW (T : Nat) (s : St σ) (i : Nat) (h : PInv T s) (hi : i < T)
    (hw : s.wpc i = .sleepRdy ∨ s.wpc i = .initSleep) :
    PInv T { s with wpc := upd s.wpc i (wake (s.wpc i)) } := by
  obtain ⟨h1, h2, h3, h4, h5, h6⟩ := h
  refine ⟨h1, h2, h3, h4, h5, ?_⟩
  intro j hj
  have hb := h6 j hj
  by_cases hji : j = i
  · subst hji
    simp only [BufOK, ioIn] at hb ⊢
    simp only [upd_same]
    rcases hw with hw | hw <;> simp only [hw, wake] at hb ⊢ <;> simp at hb ⊢ <;> grind
  · simp only [BufOK, ioIn] at hb ⊢
    simp only [upd_other _ _ _ _ hji]
    exact hb

theorem PInv_spur (T : Nat) (s s' : St σ) (tid : Option Nat) (h : PInv T s) (hs : spurious T s tid = some s') : PInv T s' := by
  rcases spurious_cases T s s' tid hs with ⟨-, hpc, rfl⟩ | ⟨i, -, hi, hw, rfl⟩
  · exact PInv_spurIo T s h hpc
  · exact PInv_spurW T s i h hi hw

theorem RInv_spur (inp : Input) (P T : Nat) (s s' : St σ) (tid : Option Nat) (h : RInv inp P s) (hs : spurious T s tid = some s') :
    RInv inp P s' := by
  rcases spurious_cases T s s' tid hs with ⟨-, hpc, rfl⟩ | ⟨i, -, hi, hw, rfl⟩
  · obtain ⟨j1, j2, j3, j4⟩ := h
    simp_all [RInv]
  · exact h

theorem DI_spur (f : σ → Block → σ × Block) (inp : Input) (T : Nat) (ws0 : Nat → σ) (nCh : Nat) (ispad : Bool) (P V : Nat)
    (s s' : St σ) (tid : Option Nat) (h : DI f inp T ws0 nCh ispad P V s) (hs : spurious T s tid = some s') :
    DI f inp T ws0 nCh ispad P V s' := by
  rcases spurious_cases T s s' tid hs with ⟨-, hpc, rfl⟩ | ⟨i, -, hi, hw, rfl⟩
  · exact DI_iopc f inp T ws0 nCh ispad P V s .waitUpd s.lst (by rw [hpc]; rfl) (by intro _; rw [hpc]; rfl) (by rw [hpc]; rfl)
      (by simp) (by simp [hpc]) h
  · obtain ⟨d1, d2, d3, d4, d5, d6⟩ := h
    refine ⟨d1, d2, d3, d4, d5, ?_⟩
    intro n h1 h2
    have hn := d6 n h1 h2
    unfold BufI at hn ⊢
    simp only [lgOf] at hn ⊢
    split
    · rename_i hc; rw [if_pos hc] at hn; exact hn
    · rename_i hc; rw [if_neg hc] at hn
      by_cases hni : n % T = i
      · rw [hni] at hn ⊢
        simp only [upd_same]
        refine BufD_mono f inp T ws0 nCh n i _ _ _ _ _ _ _ _ _ (Or.inl rfl) rfl ?_ hn
        rcases hw with hw | hw <;> simp [dOf, hw, wake]
      · simp only [upd_other _ _ _ _ hni]; exact hn

/-! ### the theorems -/

/-- ordinary reachability is a special case -/
theorem reach_reachS (f : σ → Block → σ × Block) (inp : Input) (ispad : Bool) (T : Nat) (ws0 : Nat → σ) (s : St σ)
    (h : Reach f inp ispad T ws0 s) : ReachS f inp ispad T ws0 s := by
  induction h with
  | init => exact ReachS.init
  | step s s' tid _ hs ih => exact ReachS.step s s' (.run tid) ih hs

/-- a spurious wake-up changes nothing but the program counter of the woken thread: all shared data, the output and the ghost
    fields are untouched -/
theorem spurious_frame (T : Nat) (s s' : St σ) (tid : Option Nat) (hs : spurious T s tid = some s') :
    s'.buf = s.buf ∧ s'.turn = s.turn ∧ s'.over = s.over ∧ s'.lst = s.lst ∧ s'.pos = s.pos ∧ s'.live = s.live ∧ s'.dat = s.dat ∧
    s'.fin = s.fin ∧ s'.ws = s.ws ∧ s'.out = s.out ∧ s'.cid = s.cid ∧ s'.nexp = s.nexp ∧ s'.log = s.log ∧ s'.viol = s.viol := by
  rcases spurious_cases T s s' tid hs with ⟨-, hpc, rfl⟩ | ⟨i, -, hi, hw, rfl⟩ <;> simp

/-- the control invariant, the read-progress invariant and the data invariant hold in every state reachable with spurious wake-ups -/
theorem reachS_inv (f : σ → Block → σ × Block) (inp : Input) (hwf : inp.WF) (ispad : Bool) (P T : Nat) (hT : 0 < T)
    (hP : FirstNonFull inp P) (ws0 : Nat → σ) (s : St σ) (h : ReachS f inp ispad T ws0 s) :
    PInv T s ∧ RInv inp P s ∧ ∃ V, DI f inp T ws0 (nChunks inp P) ispad P V s := by
  induction h with
  | init => exact ⟨PInv_init T hT ws0, RInv_init inp P T ws0, 0, DI_init f inp ispad P T hT ws0 _⟩
  | step s s' e _ hs ih =>
    obtain ⟨hp, hr, V, hV⟩ := ih
    cases e with
    | spur tid =>
      simp only [stepS] at hs
      exact ⟨PInv_spur T s s' tid hp hs, RInv_spur inp P T s s' tid hr hs, V, DI_spur f inp T ws0 _ ispad P V s s' tid hV hs⟩
    | run tid =>
      simp only [stepS] at hs
      cases tid with
      | none =>
        exact ⟨PInv_stepIo ispad inp hwf T hT s s' hp hs, RInv_stepIo ispad inp P T hP s s' hr hs,
          DI_stepIo f inp T ws0 ispad P V s s' hT hP hp hr hV hs⟩
      | some i =>
        simp only [step] at hs
        split at hs
        · rename_i hi
          exact ⟨PInv_stepW f T s s' i hi hp hs, RInv_stepW f inp P s s' i hr hs, V, DI_stepW f inp T ws0 _ ispad P V s s' i hi hp hV hs⟩
        · simp at hs

/-- C04(a) with spurious wake-ups: no deadlock, no lost wake-up -/
theorem no_deadlock_S (f : σ → Block → σ × Block) (inp : Input) (hwf : inp.WF) (ispad : Bool) (P T : Nat) (hT : 0 < T)
    (hP : FirstNonFull inp P) (ws0 : Nat → σ) (s : St σ) (h : ReachS f inp ispad T ws0 s) :
    allDone T s ∨ ∃ tid, (step f inp ispad T s tid).isSome := by
  exact deadlock_free f inp ispad T s (reachS_inv f inp hwf ispad P T hT hP ws0 s h).1

/-- C14 with spurious wake-ups: the ownership flag is never raised -/
theorem no_violation_S (f : σ → Block → σ × Block) (inp : Input) (hwf : inp.WF) (ispad : Bool) (P T : Nat) (hT : 0 < T)
    (hP : FirstNonFull inp P) (ws0 : Nat → σ) (s : St σ) (h : ReachS f inp ispad T ws0 s) : s.viol = false := by
  induction h with
  | init => rfl
  | step s s' e hr hs ih =>
    have hp := (reachS_inv f inp hwf ispad P T hT hP ws0 s hr).1
    cases e with
    | spur tid =>
      simp only [stepS] at hs
      have := (spurious_frame T s s' tid hs).2.2.2.2.2.2.2.2.2.2.2.2.2
      rw [this]; exact ih
    | run tid =>
      simp only [stepS] at hs
      cases tid with
      | none => exact viol_stepIo inp ispad T s s' hp ih hs
      | some i =>
        simp only [step] at hs
        split at hs
        · rename_i hi; exact viol_stepW f T s s' i hi hp ih hs
        · simp at hs

/-- C14 with spurious wake-ups: a worker touches its buffer only while it is READY and the I/O thread is outside its region;
    the I/O thread is inside only while the buffer is EMPTY/UPDATING and the worker is parked -/
theorem ownership_S (f : σ → Block → σ × Block) (inp : Input) (hwf : inp.WF) (ispad : Bool) (P T : Nat) (hT : 0 < T)
    (hP : FirstNonFull inp P) (ws0 : Nat → σ) (s : St σ) (h : ReachS f inp ispad T ws0 s) (i : Nat) (hi : i < T) :
    ((s.wpc i = .process ∨ s.wpc i = .fetch2 ∨ (s.wpc i = .fetch ∧ (s.buf i).st ≠ .inv)) → (s.buf i).st = .ready ∧ ¬ ioIn s i) ∧
    (ioIn s i → ((s.buf i).st = .empty ∨ (s.buf i).st = .updating) ∧
      (s.wpc i = .initWait ∨ s.wpc i = .initSleep ∨ s.wpc i = .waitRdy ∨ s.wpc i = .sleepRdy)) := by
  have hp := (reachS_inv f inp hwf ispad P T hT hP ws0 s h).1
  exact ⟨ownership T s hp i hi, io_exclusive T s hp i hi⟩

/-- C03 with spurious wake-ups: the output is always the sequential output of the chunks exported so far -/
theorem out_prefix_S (f : σ → Block → σ × Block) (inp : Input) (hwf : inp.WF) (ispad : Bool) (P T : Nat) (hT : 0 < T)
    (hP : FirstNonFull inp P) (ws0 : Nat → σ) (s : St σ) (h : ReachS f inp ispad T ws0 s) :
    s.nexp ≤ nChunks inp P ∧ s.out = seqOut f inp ispad T ws0 s.nexp := by
  obtain ⟨-, -, V, hV⟩ := reachS_inv f inp hwf ispad P T hT hP ws0 s h
  exact ⟨by rw [hV.2.2.2.1]; exact Nat.min_le_left _ _, hV.2.2.2.2.1⟩

/-- C03 with spurious wake-ups: a chunk is exported only when complete -/
theorem export_complete_S (f : σ → Block → σ × Block) (inp : Input) (hwf : inp.WF) (ispad : Bool) (P T : Nat) (hT : 0 < T)
    (hP : FirstNonFull inp P) (ws0 : Nat → σ) (s : St σ) (h : ReachS f inp ispad T ws0 s) (he : s.iopc = .exporting) :
    s.cid s.turn = s.nexp ∧ s.nexp < nChunks inp P ∧ (s.buf s.turn).now = (s.buf s.turn).total ∧
    s.dat s.turn = refOut f inp T ws0 s.nexp ∧ s.fin s.turn = decide ((inp s.nexp).2 = .final) := by
  obtain ⟨hp, -, V, hV⟩ := reachS_inv f inp hwf ispad P T hT hP ws0 s h
  obtain ⟨a1, a2, a3, a4, a5, a6, a7, a8⟩ := DI_at_export f inp T ws0 _ ispad P V s hT he hp hV
  rw [a3]
  exact ⟨a4, a2, a5, a7, a8⟩

/-- C03 / C14 with spurious wake-ups: in every terminal state the output is the sequential pipeline's and every block was
    transformed exactly once, by the owner of its chunk, in file order -/
theorem final_output_S (f : σ → Block → σ × Block) (inp : Input) (hwf : inp.WF) (ispad : Bool) (P T : Nat) (hT : 0 < T)
    (hP : FirstNonFull inp P) (ws0 : Nat → σ) (s : St σ) (h : ReachS f inp ispad T ws0 s) (hd : allDone T s) :
    s.out = seqOut f inp ispad T ws0 (nChunks inp P) ∧
    ∀ i, i < T → s.log.filter (fun e => e.1 = i) = workerLog inp T (nChunks inp P) i := by
  obtain ⟨hp, -, V, d1, d2, d3, d4, d5, d6⟩ := reachS_inv f inp hwf ispad P T hT hP ws0 s h
  have hpc := hd.1
  have hall := liveCount_zero_all T s.buf (hp.2.1 ▸ hp.2.2.1 hpc)
  simp only [hpc, wOf, BufI, reduceCtorEq, false_and, if_false] at d6
  have hend : ∀ n, V + 1 ≤ n → n < V + 1 + T →
      T ≤ n ∧ nChunks inp P ≤ n - T ∧ lgOf s (n % T) = wLog inp T (nChunks inp P) (n % T) := by
    intro n h1 h2
    have hn := d6 n h1 h2
    have hinv := hall (n % T) (Nat.mod_lt _ hT)
    have hnT : T ≤ n := by
      apply Classical.byContradiction; intro hc
      have := (hn.1 (by omega)).1; simp [hinv] at this
    have hm : nChunks inp P ≤ n - T := by
      apply Classical.byContradiction; intro hc
      have := (hn.2.1 hnT (by omega)).1; simp [hinv] at this
    exact ⟨hnT, hm, (hn.2.2 hnT hm).2⟩
  constructor
  · obtain ⟨e1, e2, -⟩ := hend (V + 1) (by omega) (by omega)
    have : s.nexp = nChunks inp P := by
      rw [d4, hpc]; simp only [eOf]; omega
    rw [d5, this]
  · intro i hi
    obtain ⟨n, n1, n2, n3⟩ := win_exists T i hi (V + 1)
    have := (hend n n1 n2).2.2
    rw [n3] at this
    exact this

/-- C04(b) with spurious wake-ups: every ORDINARY step from a state reachable with spurious wake-ups decreases μ -/
theorem run_step_decreases_S (f : σ → Block → σ × Block) (inp : Input) (hwf : inp.WF) (ispad : Bool) (P T : Nat) (hT : 0 < T)
    (hP : FirstNonFull inp P) (ws0 : Nat → σ) (s s' : St σ) (tid : Option Nat)
    (h : ReachS f inp ispad T ws0 s) (hs : step f inp ispad T s tid = some s') : lt4 (mu P T s') (mu P T s) := by
  obtain ⟨hp, hr, -⟩ := reachS_inv f inp hwf ispad P T hT hP ws0 s h
  cases tid with
  | none => exact stepIo_decreases ispad inp hwf P T hP s s' hp hr hs
  | some i =>
    simp only [step] at hs
    split at hs
    · rename_i hi; exact stepW_decreases f P T s s' i hi hp hs
    · simp at hs

theorem upd_upd_self {α} (g : Nat → α) (i : Nat) (a : α) : upd (upd g i a) i (g i) = g := by
  funext j; by_cases h : j = i
  · subst h; simp
  · simp [h]

/-- a woken thread whose predicate is still false goes straight back to sleep: the spurious wake-up followed by that thread's next
    step restores the state exactly (so spurious wake-ups cannot make progress appear or disappear) -/
theorem spurious_then_retest_restores (f : σ → Block → σ × Block) (inp : Input) (hwf : inp.WF) (ispad : Bool) (P T : Nat) (hT : 0 < T)
    (hP : FirstNonFull inp P) (ws0 : Nat → σ) (s s' : St σ) (tid : Option Nat)
    (h : ReachS f inp ispad T ws0 s) (hs : spurious T s tid = some s') : step f inp ispad T s' tid = some s := by
  obtain ⟨hp, -, -⟩ := reachS_inv f inp hwf ispad P T hT hP ws0 s h
  rcases spurious_cases T s s' tid hs with ⟨rfl, hpc, rfl⟩ | ⟨i, rfl, hi, hw, rfl⟩
  · have ht : s.turn < T := hp.1 (by simp [hpc])
    have hb := hp.2.2.2.2.2 s.turn ht
    simp only [BufOK] at hb
    have hready : (s.buf s.turn).st = .ready := hb.2.2.2.2.2.2.2.2.2.2.1 trivial hpc
    simp only [step, stepIo, hready]
    cases s
    simp at hpc ⊢
    exact hpc.symm
  · have hb := hp.2.2.2.2.2 i hi
    simp only [BufOK] at hb
    simp only [step, hi, if_true]
    rcases hw with hw | hw
    · have hst : (s.buf i).st = .updating := hb.2.2.2.2.2.1 hw
      simp only [stepW, upd_same, hw, wake, hst]
      cases s
      simp at hw ⊢
      rw [← hw]; exact upd_upd_self _ _ _
    · have hst : (s.buf i).st = .empty := hb.2.2.2.2.1 hw
      simp only [stepW, upd_same, hw, wake, hst]
      cases s
      simp at hw ⊢
      rw [← hw]; exact upd_upd_self _ _ _

/-- C04 with spurious wake-ups: an execution in which only finitely many events are spurious wake-ups cannot be infinite.
    (Infinitely many spurious wake-ups can of course keep a thread busy forever: that is a property of the platform, not of the code.) -/
theorem no_infinite_execution_S (f : σ → Block → σ × Block) (inp : Input) (hwf : inp.WF) (ispad : Bool) (P T : Nat) (hT : 0 < T)
    (hP : FirstNonFull inp P) (ws0 : Nat → σ)
    (run : Nat → St σ) (evs : Nat → Ev) (h0 : run 0 = init T ws0)
    (hstep : ∀ n, stepS f inp ispad T (run n) (evs n) = some (run (n + 1)))
    (N : Nat) (hfin : ∀ n, N ≤ n → (evs n).isSpur = false) : False := by
  have hreach : ∀ n, ReachS f inp ispad T ws0 (run n) := by
    intro n
    induction n with
    | zero => rw [h0]; exact ReachS.init
    | succ k ih => exact ReachS.step _ _ _ ih (hstep k)
  have key : ∀ m : Nat × Nat × Nat × Nat, ∀ n, N ≤ n → mu P T (run n) = m → False := by
    intro m
    induction m using lt4_wf.induction with
    | _ m ih =>
      intro n hN hn
      have hst := hstep n
      have hsp := hfin n hN
      cases hev : evs n with
      | spur tid => rw [hev] at hsp; simp [Ev.isSpur] at hsp
      | run tid =>
        rw [hev] at hst
        simp only [stepS] at hst
        have hd := run_step_decreases_S f inp hwf ispad P T hT hP ws0 (run n) (run (n + 1)) tid (hreach n) hst
        rw [hn] at hd
        exact ih _ hd (n + 1) (by omega) rfl
  exact key _ N (Nat.le_refl _) rfl

end Wencry.Proofs.PipeSpurious

section
open Wencry.Proofs.PipeSpurious
#print axioms reach_reachS
#print axioms spurious_frame
#print axioms reachS_inv
#print axioms no_deadlock_S
#print axioms no_violation_S
#print axioms ownership_S
#print axioms out_prefix_S
#print axioms export_complete_S
#print axioms final_output_S
#print axioms run_step_decreases_S
#print axioms spurious_then_retest_restores
#print axioms no_infinite_execution_S
end
