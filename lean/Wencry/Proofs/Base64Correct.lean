/-
C16: the model of base64.cpp is RFC 4648; decoding inverts encoding; the key validator accepts exactly the strings of
22 alphabet characters followed by "==", every accepted string decodes to exactly 16 bytes inside the key buffer, and
the encoding of any 16-byte key is accepted and decodes to that key.
-/
import Wencry.Model.Base64
import Wencry.Spec.Base64
namespace Wencry.Proofs.Base64
open Wencry Wencry.Model.Base64

/-- the generated `b64_tab` is the RFC 4648 alphabet -/
theorem b64T_eq_spec : ∀ i : BitVec 6, Gen.b64T i = Spec.Base64.sym i.toNat := by decide +kernel

theorem spec_sym_mod (v : Nat) : Spec.Base64.sym (v % 64) = Spec.Base64.sym v := by
  simp [Spec.Base64.sym]

theorem and63 (x : Nat) : x &&& 63 = x % 64 := Nat.and_two_pow_sub_one_eq_mod x 6

theorem sym_ofNat (n j : Nat) (hn : n < 2^32) :
    sym (BitVec.ofNat 32 n) j = Spec.Base64.sym (n / 2^(6*(3-j))) := by
  unfold sym
  rw [b64T_eq_spec, ← spec_sym_mod (n / _)]
  congr 1
  simp [BitVec.toNat_ofNat, Nat.shiftRight_eq_div_pow, and63, Nat.mod_eq_of_lt hn]

theorem pack3 (a b c : Byte) :
    (((0 : W32) ||| (a.zeroExtend 32 <<< 16)) ||| (b.zeroExtend 32 <<< 8)) ||| (c.zeroExtend 32 <<< 0)
      = BitVec.ofNat 32 (a.toNat * 65536 + b.toNat * 256 + c.toNat) := by
  have h0 : ∀ x : W32, (0 : W32) ||| x = x := by simp
  rw [h0, ← BitVec.add_eq_or_of_and_eq_zero, ← BitVec.add_eq_or_of_and_eq_zero]
  · apply BitVec.eq_of_toNat_eq
    simp only [BitVec.toNat_add, BitVec.toNat_shiftLeft, BitVec.toNat_ofNat, BitVec.toNat_setWidth, Nat.shiftLeft_eq]
    have := a.isLt; have := b.isLt; have := c.isLt
    omega
  · ext i hi; simp; grind
  · ext i hi; simp; grind

theorem padChar_eq : Spec.Base64.padChar = eqChar := by decide

/-- post-processing of `hexToBase64` -/
def encFin (r : Bytes × W32 × Nat) : Bytes :=
  (if r.2.2 = 1 then r.1 ++ [sym r.2.1 0, sym r.2.1 1, eqChar, eqChar]
   else if r.2.2 = 2 then r.1 ++ [sym r.2.1 0, sym r.2.1 1, sym r.2.1 2, eqChar]
   else r.1) ++ [0]

theorem hexToBase64_encFin (bs : Bytes) : hexToBase64 bs = encFin (encLoop bs 0 0 []) := rfl

theorem encLoop_three (a b c : Byte) (r out : Bytes) :
    encLoop (a :: b :: c :: r) 0 0 out =
      encLoop r 0 0 (out ++ [Spec.Base64.sym ((a.toNat * 65536 + b.toNat * 256 + c.toNat) / 262144),
        Spec.Base64.sym ((a.toNat * 65536 + b.toNat * 256 + c.toNat) / 4096),
        Spec.Base64.sym ((a.toNat * 65536 + b.toNat * 256 + c.toNat) / 64),
        Spec.Base64.sym (a.toNat * 65536 + b.toNat * 256 + c.toNat)]) := by
  have hn : a.toNat * 65536 + b.toNat * 256 + c.toNat < 2^32 := by
    have := a.isLt; have := b.isLt; have := c.isLt; omega
  simp only [encLoop]
  simp only [Nat.reduceAdd, Nat.reduceMod, Nat.reduceSub, Nat.reduceMul, Nat.reduceEqDiff, ↓reduceIte]
  rw [pack3, sym_ofNat _ _ hn, sym_ofNat _ _ hn, sym_ofNat _ _ hn, sym_ofNat _ _ hn]
  simp

theorem pack2 (a b : Byte) :
    ((0 : W32) ||| (a.zeroExtend 32 <<< 16)) ||| (b.zeroExtend 32 <<< 8)
      = BitVec.ofNat 32 (a.toNat * 65536 + b.toNat * 256) := by
  have := pack3 a b 0; simpa using this

theorem pack1 (a : Byte) :
    (0 : W32) ||| (a.zeroExtend 32 <<< 16) = BitVec.ofNat 32 (a.toNat * 65536) := by
  have := pack3 a 0 0; simpa using this

theorem encFin_aux (bs out : Bytes) : encFin (encLoop bs 0 0 out) = out ++ Spec.Base64.encode bs ++ [0] := by
  induction bs using Spec.Base64.encode.induct generalizing out with
  | case1 a b c r ih =>
    rw [encLoop_three, ih]; simp [Spec.Base64.encode]
  | case2 a b =>
    have hn : a.toNat * 65536 + b.toNat * 256 < 2^32 := by
      have := a.isLt; have := b.isLt; omega
    simp only [encLoop, encFin]
    simp only [Nat.reduceAdd, Nat.reduceMod, Nat.reduceSub, Nat.reduceMul, Nat.reduceEqDiff, ↓reduceIte]
    rw [pack2, sym_ofNat _ _ hn, sym_ofNat _ _ hn, sym_ofNat _ _ hn]
    simp [Spec.Base64.encode, padChar_eq]
  | case3 a =>
    have hn : a.toNat * 65536 < 2^32 := by
      have := a.isLt; omega
    simp only [encLoop, encFin]
    simp only [Nat.reduceAdd, Nat.reduceMod, Nat.reduceSub, Nat.reduceMul, Nat.reduceEqDiff, ↓reduceIte]
    rw [pack1, sym_ofNat _ _ hn, sym_ofNat _ _ hn]
    simp [Spec.Base64.encode, padChar_eq]
  | case4 => simp [encLoop, encFin, Spec.Base64.encode]

/-- encoder: RFC 4648 output followed by the terminating NUL -/
theorem hexToBase64_eq (bs : Bytes) : hexToBase64 bs = Spec.Base64.encode bs ++ [0] := by
  rw [hexToBase64_encFin, encFin_aux]; simp


/-- the generated `hex_tab` inverts `b64_tab` -/
theorem hexT_b64T : ∀ i : BitVec 6, Gen.hexT ((Gen.b64T i).truncate 7) = i.zeroExtend 8 ∧ (Gen.b64T i).toNat < 128 := by decide +kernel
/-- `hex_tab` is 255 exactly outside the alphabet (for 7-bit characters) -/
theorem hexT_255_iff : ∀ c : BitVec 7, Gen.hexT c = 255 ↔ Spec.Base64.isAlphabet (c.zeroExtend 8) = false := by decide +kernel

theorem b64T_ne : ∀ i : BitVec 6, Gen.b64T i ≠ eqChar ∧ Gen.b64T i ≠ 255 := by decide +kernel

theorem spec_sym_eq_b64T (v : Nat) : Spec.Base64.sym v = Gen.b64T (BitVec.ofNat 6 v) := by
  rw [b64T_eq_spec, BitVec.toNat_ofNat]; exact (spec_sym_mod v).symm

theorem decLoop_sym (v : Nat) (cs : Bytes) (h : W32) (j tail : Nat) (out : Bytes) :
    decLoop (Spec.Base64.sym v :: cs) h j tail out =
      if (j + 1) % 4 = 0 then
        decLoop cs 0 0 tail (out ++
          [((h ||| ((BitVec.ofNat 6 v).zeroExtend 32 <<< (6 * (3 - j)))) >>> 16).truncate 8,
           ((h ||| ((BitVec.ofNat 6 v).zeroExtend 32 <<< (6 * (3 - j)))) >>> 8).truncate 8,
           (h ||| ((BitVec.ofNat 6 v).zeroExtend 32 <<< (6 * (3 - j)))).truncate 8])
      else decLoop cs (h ||| ((BitVec.ofNat 6 v).zeroExtend 32 <<< (6 * (3 - j)))) ((j + 1) % 4) tail out := by
  rw [spec_sym_eq_b64T]
  obtain ⟨h1, h2⟩ := hexT_b64T (BitVec.ofNat 6 v)
  obtain ⟨h3, h4⟩ := b64T_ne (BitVec.ofNat 6 v)
  rw [decLoop, if_neg h3, if_neg h4, if_neg (by omega), h1]
  simp

theorem pack4 (w x y z : BitVec 6) :
    ((((0 : W32) ||| (w.zeroExtend 32 <<< 18)) ||| (x.zeroExtend 32 <<< 12)) ||| (y.zeroExtend 32 <<< 6)) ||| (z.zeroExtend 32 <<< 0)
      = BitVec.ofNat 32 (w.toNat * 262144 + x.toNat * 4096 + y.toNat * 64 + z.toNat) := by
  have h0 : ∀ x : W32, (0 : W32) ||| x = x := by simp
  rw [h0, ← BitVec.add_eq_or_of_and_eq_zero, ← BitVec.add_eq_or_of_and_eq_zero, ← BitVec.add_eq_or_of_and_eq_zero]
  · apply BitVec.eq_of_toNat_eq
    simp only [BitVec.toNat_add, BitVec.toNat_shiftLeft, BitVec.toNat_ofNat, BitVec.toNat_setWidth, Nat.shiftLeft_eq]
    have := w.isLt; have := x.isLt; have := y.isLt; have := z.isLt
    omega
  · ext i hi; simp; grind
  · ext i hi; simp; grind
  · ext i hi; simp; grind


theorem byte_of (n k : Nat) (hn : n < 2^32) (a : Byte) (h : n / 2^k % 256 = a.toNat) :
    ((BitVec.ofNat 32 n) >>> k).truncate 8 = a := by
  apply BitVec.eq_of_toNat_eq
  simp [BitVec.toNat_ofNat, Nat.shiftRight_eq_div_pow, Nat.mod_eq_of_lt hn, h]

theorem byte_of0 (n : Nat) (_hn : n < 2^32) (a : Byte) (h : n % 256 = a.toNat) :
    (BitVec.ofNat 32 n).truncate 8 = a := by
  apply BitVec.eq_of_toNat_eq
  simp [BitVec.toNat_ofNat, h]

def decFin (r : Except Fault (Option (Bytes × W32 × Nat))) : Except Fault (Option Bytes) := do
  match ← r with
  | none => pure none
  | some (out, h, tail) =>
    if tail = 2 then pure (some (out ++ [(h >>> 16).truncate 8]))
    else if tail = 1 then pure (some (out ++ [(h >>> 16).truncate 8, (h >>> 8).truncate 8]))
    else pure (some out)

theorem base64ToHex_decFin (inp : Bytes) : base64ToHex inp = decFin (decLoop inp 0 0 0 []) := rfl

theorem decLoop_pad (cs : Bytes) (h : W32) (j tail : Nat) (out : Bytes) :
    decLoop (Spec.Base64.padChar :: cs) h j tail out = decLoop cs h j (tail + 1) out := by
  simp [decLoop, padChar_eq]

theorem decLoop_four (a b c : Byte) (cs out : Bytes) :
    decLoop (Spec.Base64.sym ((a.toNat * 65536 + b.toNat * 256 + c.toNat) / 262144) ::
        Spec.Base64.sym ((a.toNat * 65536 + b.toNat * 256 + c.toNat) / 4096) ::
        Spec.Base64.sym ((a.toNat * 65536 + b.toNat * 256 + c.toNat) / 64) ::
        Spec.Base64.sym (a.toNat * 65536 + b.toNat * 256 + c.toNat) :: cs) 0 0 0 out =
      decLoop cs 0 0 0 (out ++ [a, b, c]) := by
  have := a.isLt; have := b.isLt; have := c.isLt
  simp only [decLoop_sym, Nat.reduceAdd, Nat.reduceMod, Nat.reduceSub, Nat.reduceMul, ↓reduceIte,
    Nat.zero_add, Nat.sub_zero, Nat.succ_ne_zero]
  rw [pack4]
  simp only [BitVec.toNat_ofNat]
  rw [byte_of _ 16 (by omega) a (by omega), byte_of _ 8 (by omega) b (by omega), byte_of0 _ (by omega) c (by omega)]

theorem pack4_3 (w x y : BitVec 6) :
    (((0 : W32) ||| (w.zeroExtend 32 <<< 18)) ||| (x.zeroExtend 32 <<< 12)) ||| (y.zeroExtend 32 <<< 6)
      = BitVec.ofNat 32 (w.toNat * 262144 + x.toNat * 4096 + y.toNat * 64) := by
  have := pack4 w x y 0; simpa using this

theorem pack4_2 (w x : BitVec 6) :
    ((0 : W32) ||| (w.zeroExtend 32 <<< 18)) ||| (x.zeroExtend 32 <<< 12)
      = BitVec.ofNat 32 (w.toNat * 262144 + x.toNat * 4096) := by
  have := pack4 w x 0 0; simpa using this

theorem decLoop_nil (h : W32) (j tail : Nat) (out : Bytes) :
    decLoop [] h j tail out = .ok (some (out, h, tail)) := rfl

theorem decFin_ok0 (out : Bytes) (h : W32) : decFin (.ok (some (out, h, 0))) = .ok (some out) := rfl
theorem decFin_ok1 (out : Bytes) (h : W32) :
    decFin (.ok (some (out, h, 1))) = .ok (some (out ++ [(h >>> 16).truncate 8, (h >>> 8).truncate 8])) := rfl
theorem decFin_ok2 (out : Bytes) (h : W32) :
    decFin (.ok (some (out, h, 2))) = .ok (some (out ++ [(h >>> 16).truncate 8])) := rfl

theorem decFin_aux (bs out : Bytes) :
    decFin (decLoop (Spec.Base64.encode bs) 0 0 0 out) = .ok (some (out ++ bs)) := by
  induction bs using Spec.Base64.encode.induct generalizing out with
  | case1 a b c r ih =>
    simp only [Spec.Base64.encode]
    rw [decLoop_four, ih]; simp
  | case2 a b =>
    have := a.isLt; have := b.isLt
    simp only [Spec.Base64.encode]
    simp only [decLoop_sym, decLoop_pad, decLoop_nil, Nat.reduceAdd, Nat.reduceMod, Nat.reduceSub, Nat.reduceMul, ↓reduceIte,
      Nat.zero_add, Nat.sub_zero, Nat.succ_ne_zero]
    rw [pack4_3, decFin_ok1]
    simp only [BitVec.toNat_ofNat]
    rw [byte_of _ 16 (by omega) a (by omega), byte_of _ 8 (by omega) b (by omega)]
  | case3 a =>
    have := a.isLt
    simp only [Spec.Base64.encode]
    simp only [decLoop_sym, decLoop_pad, decLoop_nil, Nat.reduceAdd, Nat.reduceMod, Nat.reduceSub, Nat.reduceMul, ↓reduceIte,
      Nat.zero_add, Nat.sub_zero, Nat.succ_ne_zero]
    rw [pack4_2, decFin_ok2]
    simp only [BitVec.toNat_ofNat]
    rw [byte_of _ 16 (by omega) a (by omega)]
  | case4 => simp [Spec.Base64.encode, decLoop_nil, decFin_ok0]

/-- decoder inverts the encoder, without any out-of-bounds table access -/
theorem base64ToHex_encode (bs : Bytes) : base64ToHex (Spec.Base64.encode bs) = .ok (some bs) := by
  rw [base64ToHex_decFin, decFin_aux]; simp


/-- the validator's character class is the RFC alphabet -/
theorem isBase64_iff : ∀ c : Byte, isBase64 c = Spec.Base64.isAlphabet c := by decide +kernel

theorem isBase64_eqChar : isBase64 eqChar = false := by decide

theorem validLoop_two (s : Bytes) : validLoop s 2 = some 2 ↔ s = [] := by
  cases s with
  | nil => simp [validLoop]
  | cons c cs => 
    simp only [validLoop]
    split <;> simp

theorem validLoop_one (s : Bytes) : validLoop s 1 = some 2 ↔ s = [eqChar] := by
  cases s with
  | nil => simp [validLoop]
  | cons c cs => 
    simp only [validLoop]
    by_cases hc : c = eqChar
    · simp [hc, validLoop_two]
    · simp [hc]

theorem validLoop_zero (s : Bytes) :
    validLoop s 0 = some 2 ↔ ∃ body, (∀ c ∈ body, isBase64 c = true) ∧ s = body ++ [eqChar, eqChar] := by
  induction s with
  | nil => simp [validLoop]
  | cons c cs ih =>
    simp only [validLoop]
    by_cases hc : c = eqChar
    · subst hc
      simp [validLoop_one]
      constructor
      · rintro rfl; exact ⟨[], by simp⟩
      · rintro ⟨body, hb, h⟩
        cases body with
        | nil => simpa using h
        | cons x xs => 
          simp at h
          have := hb x (by simp)
          rw [← h.1, isBase64_eqChar] at this
          cases this
    · by_cases hb : isBase64 c = true
      · simp [hc, hb, ih]
        constructor
        · rintro ⟨body, h1, rfl⟩
          exact ⟨c :: body, by simpa [hb] using h1, by simp⟩
        · rintro ⟨body, h1, h2⟩
          cases body with
          | nil => simp at h2; exact absurd h2.1 hc
          | cons x xs =>
            simp at h2
            exact ⟨xs, fun c hc => h1 c (by simp [hc]), h2.2⟩
      · simp [hc, hb]
        rintro body h1 h2
        cases body with
        | nil => simp at h2; exact absurd h2.1 hc
        | cons x xs =>
          simp at h2
          exact hb (h2.1 ▸ h1 x (by simp))


theorem isValidB64_iff_loop (s : Bytes) : isValidB64 s = true ↔ s.length = 24 ∧ validLoop s 0 = some 2 := by
  unfold isValidB64
  simp only []
  constructor
  · intro h
    split at h
    · cases h
    · split at h
      · cases h
      · refine ⟨by omega, ?_⟩
        split at h
        · cases h
        · rename_i t ht; rw [ht]; simpa using h
  · rintro ⟨h1, h2⟩
    rw [h1, h2]; simp

/-- intermediate characterisation of accepted strings -/
theorem isValidB64_iff_body (s : Bytes) :
    isValidB64 s = true ↔ ∃ body, body.length = 22 ∧ (∀ c ∈ body, Spec.Base64.isAlphabet c = true) ∧ s = body ++ [eqChar, eqChar] := by
  rw [isValidB64_iff_loop, validLoop_zero]
  simp only [isBase64_iff]
  constructor
  · rintro ⟨h1, body, h2, rfl⟩
    exact ⟨body, by simpa using h1, h2, rfl⟩
  · rintro ⟨body, h1, h2, rfl⟩
    exact ⟨by simp [h1], body, h2, rfl⟩

theorem list_two (l : Bytes) (h : l.length = 2) : l = [l.getD 0 0, l.getD 1 0] := by
  match l, h with
  | [a, b], _ => rfl

/-- the validator accepts exactly: 24 characters, the first 22 in the alphabet, the last two '=' -/
theorem isValidB64_iff (s : Bytes) :
    isValidB64 s = true ↔ s.length = 24 ∧ (∀ i, i < 22 → Spec.Base64.isAlphabet (s.getD i 0) = true) ∧ s.getD 22 0 = eqChar ∧ s.getD 23 0 = eqChar := by
  rw [isValidB64_iff_body]
  constructor
  · rintro ⟨body, h1, h2, rfl⟩
    refine ⟨by simp [h1], ?_, ?_, ?_⟩
    · intro i hi
      have : i < body.length := by omega
      simp only [List.getD_eq_getElem?_getD, List.getElem?_append_left this, List.getElem?_eq_getElem this, Option.getD_some]
      exact h2 _ (List.getElem_mem _)
    · simp [List.getD_eq_getElem?_getD, h1]
    · simp [List.getD_eq_getElem?_getD, h1]
  · rintro ⟨h1, h2, h3, h4⟩
    refine ⟨s.take 22, by simp [h1], ?_, ?_⟩
    · intro c hc
      obtain ⟨i, hi, rfl⟩ := List.mem_iff_getElem.1 hc
      have hi' : i < 22 := by simp [h1] at hi; omega
      have := h2 i hi'
      simpa [List.getD_eq_getElem?_getD, List.getElem?_eq_getElem (show i < s.length by omega)] using this
    · have h5 := list_two (s.drop 22) (by simp [h1])
      simp only [List.getD_eq_getElem?_getD, List.getElem?_drop] at h5
      simp only [List.getD_eq_getElem?_getD] at h3 h4
      rw [Nat.add_zero, h3, h4] at h5
      rw [← h5, List.take_append_drop]


theorem alphabet_char : ∀ c : Byte, Spec.Base64.isAlphabet c = true → c ≠ eqChar ∧ c ≠ 255 ∧ ¬ (c.toNat ≥ 128) := by decide +kernel

theorem decLoop_alpha (body : Bytes) (hb : ∀ c ∈ body, Spec.Base64.isAlphabet c = true) :
    ∀ (rest : Bytes) (h : W32) (j tail : Nat) (out : Bytes), j < 4 →
      ∃ h' out', decLoop (body ++ rest) h j tail out = decLoop rest h' ((j + body.length) % 4) tail out' ∧
        out'.length = out.length + 3 * ((j + body.length) / 4) := by
  induction body with
  | nil => intro rest h j tail out hj; exact ⟨h, out, by simp [Nat.mod_eq_of_lt hj], by simp; omega⟩
  | cons c cs ih =>
    intro rest h j tail out hj
    obtain ⟨h1, h2, h3⟩ := alphabet_char c (hb c (by simp))
    have hcs : ∀ c ∈ cs, Spec.Base64.isAlphabet c = true := fun x hx => hb x (by simp [hx])
    rw [List.cons_append, decLoop, if_neg h1, if_neg h2, if_neg h3]
    simp only []
    split
    · rename_i hj0
      obtain ⟨h', out', e1, e2⟩ := ih hcs rest 0 0 tail (out ++ [(((h ||| ((Gen.hexT (c.truncate 7)).zeroExtend 32 <<< (6 * (3 - j)))) >>> 16).truncate 8), (((h ||| ((Gen.hexT (c.truncate 7)).zeroExtend 32 <<< (6 * (3 - j)))) >>> 8).truncate 8), ((h ||| ((Gen.hexT (c.truncate 7)).zeroExtend 32 <<< (6 * (3 - j)))).truncate 8)]) (by omega)
      refine ⟨h', out', ?_, ?_⟩
      · rw [e1]; congr 1; simp only [List.length_cons]; omega
      · rw [e2]; simp only [List.length_append, List.length_cons, List.length_nil]; omega
    · rename_i hj0
      obtain ⟨h', out', e1, e2⟩ := ih hcs rest (h ||| ((Gen.hexT (c.truncate 7)).zeroExtend 32 <<< (6 * (3 - j)))) ((j + 1) % 4) tail out (by omega)
      refine ⟨h', out', ?_, ?_⟩
      · rw [e1]; congr 1; simp only [List.length_cons]; omega
      · rw [e2]; simp only [List.length_cons]; omega

theorem decLoop_eq_eq (h : W32) (j tail : Nat) (out : Bytes) :
    decLoop [eqChar, eqChar] h j tail out = .ok (some (out, h, tail + 2)) := by
  simp [decLoop]

theorem getArgsKey_of (arg k : Bytes) (h : base64ToHex (arg.take 24) = .ok (some k)) (hk : ¬ k.length > 16) :
    getArgsKey arg = .ok (some k) := by
  unfold getArgsKey
  rw [h]
  show (if k.length > 16 then Except.error Fault.outOfBounds else pure (some k)) = _
  rw [if_neg hk]; rfl

/-- every accepted key string decodes to exactly 16 bytes, with no read outside `hex_tab` and no write outside the 16-byte key buffer -/
theorem accepted_decodes_16 (s : Bytes) (h : isValidB64 s = true) : ∃ k, getArgsKey s = .ok (some k) ∧ k.length = 16 := by
  obtain ⟨body, h1, h2, rfl⟩ := (isValidB64_iff_body s).1 h
  obtain ⟨h', out', e1, e2⟩ := decLoop_alpha body h2 [eqChar, eqChar] 0 0 0 [] (by omega)
  have e3 : (body ++ [eqChar, eqChar]).take 24 = body ++ [eqChar, eqChar] := List.take_of_length_le (by simp [h1])
  refine ⟨out' ++ [(h' >>> 16).truncate 8], ?_, ?_⟩
  · apply getArgsKey_of
    · rw [e3, base64ToHex_decFin, e1, decLoop_eq_eq, Nat.zero_add, decFin_ok2]
    · simp [e2, h1]
  · simp [e2, h1]

theorem isAlphabet_sym (v : Nat) : Spec.Base64.isAlphabet (Spec.Base64.sym v) = true := by
  rw [spec_sym_eq_b64T]
  exact (by decide +kernel : ∀ i : BitVec 6, Spec.Base64.isAlphabet (Gen.b64T i) = true) _

/-- the key string printed at encryption (`hex_to_base64` of the 16 key bytes, without its NUL) is accepted and yields the same key -/
theorem printed_key_accepted (k : Bytes) (hk : k.length = 16) :
    isValidB64 (Spec.Base64.encode k) = true ∧ getArgsKey (Spec.Base64.encode k) = .ok (some k) := by
  match k, hk with
  | [k0, k1, k2, k3, k4, k5, k6, k7, k8, k9, k10, k11, k12, k13, k14, k15], _ =>
    have hlen : (Spec.Base64.encode [k0, k1, k2, k3, k4, k5, k6, k7, k8, k9, k10, k11, k12, k13, k14, k15]).length = 24 := by
      simp [Spec.Base64.encode]
    constructor
    · rw [isValidB64_iff_body]
      refine ⟨(Spec.Base64.encode [k0, k1, k2, k3, k4, k5, k6, k7, k8, k9, k10, k11, k12, k13, k14, k15]).take 22, ?_, ?_, ?_⟩
      · simp [hlen]
      · simp [Spec.Base64.encode, isAlphabet_sym]
      · simp [Spec.Base64.encode, padChar_eq]
    · apply getArgsKey_of
      · rw [List.take_of_length_le (by omega), base64ToHex_encode]
      · simp

end Wencry.Proofs.Base64

section AxiomCheck
open Wencry.Proofs.Base64
#print axioms b64T_eq_spec
#print axioms hexT_b64T
#print axioms hexT_255_iff
#print axioms isBase64_iff
#print axioms hexToBase64_eq
#print axioms base64ToHex_encode
#print axioms isValidB64_iff
#print axioms accepted_decodes_16
#print axioms printed_key_accepted
end AxiomCheck
