/-
The mutex-level pipeline (Model/PipeFine.lean) refines the critical-section-level pipeline (Model/Pipe.lean):
every fine step is invisible or is exactly one coarse step of the same thread (`fine_step_simulated`), so every fine-reachable
state abstracts to a coarse-reachable one (`freach_abs_reach`) and the coarse theorems transfer; the fine system has no deadlock
(`fine_deadlock_free`) and no infinite execution (`fine_no_infinite_run`).
-/
import Wencry.Model.PipeFine
import Wencry.Proofs.PipeCtl
import Wencry.Proofs.PipeProgress
import Wencry.Proofs.PipeData
namespace Wencry.Proofs.PipeFine
open Wencry Wencry.Model.Pipe Wencry.Model.PipeFine Wencry.Model.IoBuffer
open Wencry.Proofs.PipeCtl Wencry.Proofs.PipeProgress Wencry.Proofs.PipeData

variable {σ : Type}

/-- mutex discipline: who holds the mutex of buffer i is determined by the program points (mutual exclusion is what `acquire`
    enforces; this invariant records it) -/
def holdsW (p : FW) : Prop :=
  p = .initTest ∨ p = .initUnlock ∨ p = .suBody ∨ p = .suNotify ∨ p = .suUnlock ∨ p = .wrTest ∨ p = .wrUnlock
def holdsIo (p : FIo) : Prop :=
  p = .wuTest ∨ p = .wuUnlock ∨ p = .srBody ∨ p = .srNotify ∨ p = .srUnlock

def LockInv (T : Nat) (s : FSt σ) : Prop :=
  ∀ i, i < T →
    (s.lock i = some (some i) ↔ holdsW (s.fw i)) ∧
    (s.lock i = some none ↔ (holdsIo s.fio ∧ s.d.turn = i)) ∧
    (s.lock i = none ∨ s.lock i = some (some i) ∨ s.lock i = some none)

/-- the invariant of the fine system: the mutex discipline, and the abstraction satisfies the coarse control invariant -/
def FInv (T : Nat) (s : FSt σ) : Prop := LockInv T s ∧ PInv T (abs s)

/-- rank of a program point inside its critical section: strictly decreasing along invisible steps -/
def rankFW : FW → Nat
  | .initLock => 3 | .initReacq => 3 | .initSleep => 3 | .initTest => 2 | .initUnlock => 1
  | .suLock => 2 | .suBody => 1
  | .suNotify => 6 | .suUnlock => 5 | .wrLock => 4 | .wrReacq => 4 | .wrSleep => 4 | .wrTest => 3 | .wrUnlock => 1
  | .fetch => 0 | .process => 0 | .afterWait => 0 | .fetch2 => 0 | .done => 0
def rankFIo : FIo → Nat
  | .wuLock => 3 | .wuReacq => 3 | .wuSleep => 3 | .wuTest => 2 | .wuUnlock => 1
  | .srLock => 2 | .srBody => 1 | .srNotify => 2 | .srUnlock => 1
  | .chk => 0 | .exporting => 0 | .loadDecide => 0 | .loading => 0 | .iter => 0 | .done => 0

def fineRank (T : Nat) (s : FSt σ) : Nat := sumT T (fun i => rankFW (s.fw i)) + rankFIo s.fio


/-! ### helpers: equality of abstractions -/

theorem abs_ext (a b : FSt σ) (hd : a.d = b.d) (hw : ∀ j, absW a j = absW b j) (hio : absIo a = absIo b) : abs a = abs b := by
  unfold abs; rw [hd, funext hw, hio]

theorem St_ext (a b : St σ) (h1 : a.buf = b.buf) (h2 : ∀ j, a.wpc j = b.wpc j) (h3 : a.iopc = b.iopc) (h4 : a.turn = b.turn)
   (h5 : a.over = b.over) (h6 : a.lst = b.lst) (h7 : a.pos = b.pos) (h8 : a.live = b.live) (h9 : a.dat = b.dat)
   (h10 : a.fin = b.fin) (h11 : a.ws = b.ws) (h12 : a.out = b.out) (h13 : a.cid = b.cid) (h14 : a.nexp = b.nexp)
   (h15 : a.log = b.log) (h16 : a.viol = b.viol) : a = b := by
  have := funext h2
  cases a; cases b; simp_all

theorem absW_other (a b : FSt σ) (j : Nat) (h1 : a.fw j = b.fw j) (h2 : a.fio = b.fio) (h3 : a.d.turn = b.d.turn) :
    absW a j = absW b j := by
  unfold absW; rw [h1, h2, h3]

theorem absIo_other (a b : FSt σ) (h1 : a.fio = b.fio)
    (h2 : a.fio = .wuSleep → (a.fw a.d.turn = .suNotify ↔ b.fw b.d.turn = .suNotify)) :
    absIo a = absIo b := by
  unfold absIo; rw [← h1]
  cases hq : a.fio <;> simp
  have := h2 hq
  simp [this]

theorem unsyncW (f : σ → Block → σ × Block) (s : FSt σ) (i : Nat) (c : St σ) (hc : stepW f (abs s) i = some c)
    (hp : s.fw i = .fetch ∨ s.fw i = .process ∨ s.fw i = .afterWait ∨ s.fw i = .fetch2) :
    abs { s with d := vars c s.d, fw := upd s.fw i (liftW (c.wpc i)) } = c := by
  have e2 : (abs s).buf i = s.d.buf i := rfl
  unfold stepW at hc
  rcases hp with heq | heq | heq | heq
  all_goals (
    have e1 : (abs s).wpc i = absW s i := rfl
    simp only [e1, absW, heq] at hc
    try split at hc
    all_goals (
      simp only [Option.some.injEq] at hc; subst hc
      apply St_ext <;> try rfl
      · intro j
        by_cases hj : j = i
        · subst hj; simp [abs, absW, vars, liftW]; try (split <;> simp)
        · simp only [upd_other _ _ _ _ hj]
          exact absW_other _ s j (by simp [hj]) rfl rfl
      · refine absIo_other _ s rfl ?_
        intro _
        show upd s.fw i _ s.d.turn = _ ↔ _
        by_cases hj : s.d.turn = i
        · simp [hj, heq, liftW]; try (split <;> simp)
        · simp [hj]))

theorem absW_nosr (a b : FSt σ) (j : Nat) (h1 : a.fw j = b.fw j) (h2 : a.fio ≠ .srNotify) (h3 : b.fio ≠ .srNotify) :
    absW a j = absW b j := by
  unfold absW; rw [h1]; simp [h2, h3]

theorem unsyncIo (inp : Input) (ispad : Bool) (T : Nat) (s : FSt σ) (c : St σ) (hc : stepIo inp ispad T (abs s) = some c)
    (hp : s.fio = .chk ∨ s.fio = .exporting ∨ s.fio = .loadDecide ∨ s.fio = .loading ∨ s.fio = .iter) :
    abs { s with d := vars c s.d, fio := liftIo c.iopc } = c := by
  unfold stepIo at hc
  rcases hp with heq | heq | heq | heq | heq
  all_goals (
    have e1 : (abs s).iopc = absIo s := rfl
    simp only [e1, absIo, heq] at hc
    try split at hc
    all_goals (
      simp only [Option.some.injEq] at hc; subst hc
      apply St_ext <;> try rfl
      all_goals first
        | (intro j
           refine absW_nosr _ s j rfl ?_ (by simp [heq])
           simp [liftIo]; try (split <;> simp))
        | (simp [abs, absIo, vars, liftIo]; try (split <;> simp))))

/-! ### helpers: the fine rank -/

theorem fineRank_updW (T : Nat) (s s' : FSt σ) (i : Nat) (p : FW) (hi : i < T) (hfw : s'.fw = upd s.fw i p)
    (hio : rankFIo s'.fio = rankFIo s.fio) (hr : rankFW p < rankFW (s.fw i)) : fineRank T s' < fineRank T s := by
  have := sumT_upd T (fun j => rankFW (upd s.fw i p j)) (fun j => rankFW (s.fw j)) i hi
    (fun j _ hne => by simp [upd_other _ _ _ _ hne])
  simp only [upd_same] at this
  simp only [fineRank, hfw, hio]
  omega

theorem fineRank_updIo (T : Nat) (s s' : FSt σ) (hfw : ∀ j, j < T → rankFW (s'.fw j) = rankFW (s.fw j))
    (hr : rankFIo s'.fio < rankFIo s.fio) : fineRank T s' < fineRank T s := by
  have := sumT_congr T (fun j => rankFW (s'.fw j)) (fun j => rankFW (s.fw j)) hfw
  simp only [fineRank, this]
  omega

/-- an invisible worker step that changes only the worker's own program point (and the locks) -/
theorem invisW (T : Nat) (s s' : FSt σ) (i : Nat) (p : FW) (hi : i < T) (hd : s'.d = s.d) (hfio : s'.fio = s.fio)
    (hfw : s'.fw = upd s.fw i p) (hw : absW s' i = absW s i) (hn : p ≠ .suNotify) (hn' : s.fw i ≠ .suNotify)
    (hr : rankFW p < rankFW (s.fw i)) : abs s' = abs s ∧ fineRank T s' < fineRank T s := by
  refine ⟨abs_ext _ _ hd ?_ ?_, fineRank_updW T s s' i p hi hfw (by rw [hfio]) hr⟩
  · intro j
    by_cases hj : j = i
    · subst hj; exact hw
    · exact absW_other _ _ j (by rw [hfw]; simp [hj]) hfio (by rw [hd])
  · refine absIo_other _ _ hfio ?_
    intro _
    rw [hd, hfw]
    by_cases hj : s.d.turn = i
    · simp [hj, hn, hn']
    · simp [hj]

theorem absW_other' (a b : FSt σ) (j : Nat) (h1 : a.fw j = b.fw j) (h2 : a.fio = .srNotify ↔ b.fio = .srNotify)
    (h3 : a.d.turn = b.d.turn) : absW a j = absW b j := by
  unfold absW; rw [h1, h3]; simp [h2]

theorem absIo_suBody (s s' : FSt σ) (i : Nat) (heq : s.fw i = .suBody) (hfio : s'.fio = s.fio) (ht : s'.d.turn = s.d.turn)
    (hfw : s'.fw = upd s.fw i .suNotify) :
    absIo s' = if absIo s = .sleepUpd ∧ s.d.turn = i then .waitUpd else absIo s := by
  unfold absIo
  rw [hfio, ht, hfw]
  generalize s.fio = q
  by_cases hj : s.d.turn = i
  · cases q <;> simp [hj, heq]
  · cases q <;> simp [hj]

theorem absIo_suNotify (s s' : FSt σ) (i : Nat) (heq : s.fw i = .suNotify) (ht : s'.d.turn = s.d.turn)
    (hfio : s'.fio = if s.fio = .wuSleep ∧ s.d.turn = i then .wuReacq else s.fio)
    (hfw : s'.fw = upd s.fw i .suUnlock) : absIo s' = absIo s := by
  unfold absIo
  rw [hfio, ht, hfw]
  generalize s.fio = q
  by_cases hj : s.d.turn = i
  · cases q <;> simp [hj, heq]
  · cases q <;> simp [hj]

/-- a worker step is one coarse step of that worker, or is invisible and lowers the fine rank -/
theorem simW (f : σ → Block → σ × Block) (T : Nat) (s s' : FSt σ) (i : Nat) (hi : i < T) (h : FInv T s)
    (hs : fstepW f s i = some s') :
    stepW f (abs s) i = some (abs s') ∨ (abs s' = abs s ∧ fineRank T s' < fineRank T s) := by
  have hl := h.1 i hi
  have e1 : (abs s).wpc i = absW s i := rfl
  have e2 : (abs s).buf i = s.d.buf i := rfl
  unfold fstepW at hs
  split at hs
  all_goals (rename_i heq)
  -- the four unsynchronised steps
  case h_15 | h_16 | h_17 | h_18 =>
    simp only [Option.map_eq_some_iff] at hs
    obtain ⟨c, hc, hs⟩ := hs
    subst hs
    left
    rw [hc, unsyncW f s i c hc (by simp [heq])]
  -- sleeping or returned: no step
  case h_4 | h_9 | h_19 => cases hs
  -- the tests of `wait_ready`
  case h_3 | h_8 =>
    left
    dsimp only at hs
    split at hs
    all_goals (simp only [Option.some.injEq] at hs; subst hs; rename_i hc)
    all_goals (
      unfold stepW
      simp only [e1, absW, heq, e2, hc, if_true, if_false]
      refine congrArg some (Eq.symm ?_)
      apply St_ext <;> try rfl
      · intro j
        by_cases hj : j = i
        · subst hj
          simp only [upd_same]
          show absW _ j = _
          simp [absW]
          try (simp_all [holdsW, holdsIo]; grind)
        · simp only [upd_other _ _ _ _ hj]
          exact absW_other _ s j (by simp [hj]) rfl rfl
      · refine absIo_other _ s rfl ?_
        intro _
        show upd s.fw i _ s.d.turn = _ ↔ _
        by_cases hj : s.d.turn = i
        · simp [hj, heq]
        · simp [hj])
  -- the body of `set_update`
  case h_12 =>
    left
    dsimp only at hs
    split at hs
    all_goals (simp only [Option.some.injEq] at hs; subst hs; rename_i hc)
    all_goals (
      unfold stepW
      simp only [e1, absW, heq, e2, hc, if_true, if_false]
      refine congrArg some (Eq.symm ?_)
      apply St_ext <;> try rfl
      · intro j
        by_cases hj : j = i
        · subst hj
          simp only [upd_same]
          show absW _ j = _
          simp [absW]
        · simp only [upd_other _ _ _ _ hj]
          exact absW_other _ s j (by simp [hj]) rfl rfl)
    · exact absIo_suBody s _ i heq rfl rfl rfl
    · refine absIo_other _ s rfl ?_
      intro _
      show upd s.fw i _ s.d.turn = _ ↔ _
      by_cases hj : s.d.turn = i
      · simp [hj, heq]
      · simp [hj]
  -- `cv_update.notify_all()`
  case h_13 =>
    right
    simp only [Option.some.injEq] at hs; subst hs
    refine ⟨abs_ext _ _ rfl ?_ ?_, fineRank_updW T s _ i _ hi rfl ?_ (by simp [heq, rankFW])⟩
    · intro j
      by_cases hj : j = i
      · subst hj; simp [absW, heq]
      · refine absW_other' _ s j (by simp [hj]) ?_ rfl
        show (if _ then _ else _) = _ ↔ _
        split <;> simp_all
    · exact absIo_suNotify s _ i heq rfl rfl rfl
    · show rankFIo (if _ then _ else _) = _
      split
      · rename_i hc; simp [hc.1, rankFIo]
      · rfl
  -- the remaining steps (acquire, release) are invisible
  all_goals (
    right
    try simp only [acquire] at hs
    try split at hs
    all_goals try simp only [Option.map_some, Option.map_none, Option.some.injEq, reduceCtorEq] at hs
    all_goals subst hs
    all_goals exact invisW T s _ i _ hi rfl rfl rfl (by simp [absW, heq]) (by simp) (by simp [heq]) (by simp [heq, rankFW]))

/-! ### I/O thread steps -/

theorem absW_srBody (s s' : FSt σ) (j : Nat) (hq : s.fio = .srBody) (hq' : s'.fio = .srNotify) (ht : s'.d.turn = s.d.turn)
    (hfw : s'.fw = s.fw) : absW s' j = if j = s.d.turn then wake (absW s j) else absW s j := by
  unfold absW
  rw [hq, hq', ht, hfw]
  generalize s.fw j = p
  by_cases hj : j = s.d.turn
  · cases p <;> simp [hj, wake]
  · have hj' : ¬ s.d.turn = j := fun e => hj e.symm
    cases p <;> simp [hj, hj']

theorem absW_srNotify (s s' : FSt σ) (j : Nat) (hq : s.fio = .srNotify) (hq' : s'.fio = .srUnlock) (ht : s'.d.turn = s.d.turn)
    (hfw : s'.fw = upd s.fw s.d.turn (match s.fw s.d.turn with | .wrSleep => .wrReacq | .initSleep => .initReacq | p => p)) :
    absW s' j = absW s j := by
  unfold absW
  rw [hq, hq', ht, hfw]
  by_cases hj : j = s.d.turn
  · subst hj
    simp only [upd_same]
    generalize s.fw s.d.turn = p
    cases p <;> simp
  · have hj' : ¬ s.d.turn = j := fun e => hj e.symm
    simp only [upd_other _ _ _ _ hj]
    generalize s.fw j = p
    cases p <;> simp [hj']

/-- an invisible I/O step that changes only its own program point (and the locks) -/
theorem invisIo (T : Nat) (s s' : FSt σ) (hd : s'.d = s.d) (hfw : s'.fw = s.fw) (hio : absIo s' = absIo s)
    (hn : s'.fio = .srNotify ↔ s.fio = .srNotify)
    (hr : rankFIo s'.fio < rankFIo s.fio) : abs s' = abs s ∧ fineRank T s' < fineRank T s := by
  refine ⟨abs_ext _ _ hd ?_ hio, fineRank_updIo T s s' (fun j _ => by rw [hfw]) hr⟩
  intro j
  exact absW_other' _ _ j (by rw [hfw]) hn (by rw [hd])

theorem simIo (inp : Input) (ispad : Bool) (T : Nat) (s s' : FSt σ) (h : FInv T s)
    (hs : fstepIo inp ispad T s = some s') :
    stepIo inp ispad T (abs s) = some (abs s') ∨ (abs s' = abs s ∧ fineRank T s' < fineRank T s) := by
  have e1 : (abs s).iopc = absIo s := rfl
  have e2 : (abs s).buf (abs s).turn = s.d.buf s.d.turn := rfl
  have e3 : (abs s).lst = s.d.lst := rfl
  unfold fstepIo at hs
  split at hs
  all_goals (rename_i heq)
  -- the five unsynchronised steps
  case h_10 | h_11 | h_12 | h_13 | h_14 =>
    simp only [Option.map_eq_some_iff] at hs
    obtain ⟨c, hc, hs⟩ := hs
    subst hs
    left
    rw [hc, unsyncIo inp ispad T s c hc (by simp [heq])]
  -- sleeping or returned: no step
  case h_4 | h_15 => cases hs
  -- the test of `wait_update`
  case h_3 =>
    left
    have ht : s.d.turn < T := h.2.1 (by simp [e1, absIo, heq])
    have hl := h.1 _ ht
    dsimp only at hs
    split at hs
    all_goals (simp only [Option.some.injEq] at hs; subst hs; rename_i hc)
    all_goals (
      unfold stepIo
      simp only [e1, absIo, heq, e2, hc, if_true, if_false]
      refine congrArg some (Eq.symm ?_)
      apply St_ext <;> try rfl
      · intro j
        exact absW_other' _ s j rfl (by simp [heq]) rfl)
    · simp [abs, absIo]
      simp_all [holdsW, holdsIo]
      grind
  -- the body of `set_ready`
  case h_7 =>
    left
    dsimp only at hs
    split at hs
    all_goals (simp only [Option.some.injEq] at hs; subst hs; rename_i hc)
    all_goals (
      unfold stepIo
      simp only [e1, absIo, heq, e2, e3]
      first | rw [if_pos hc] | rw [if_neg hc]
      refine congrArg some (Eq.symm ?_)
      apply St_ext <;> try rfl
      · intro j
        show absW _ j = upd (abs s).wpc s.d.turn (wake (absW s s.d.turn)) j
        refine Eq.trans (absW_srBody s _ j heq rfl rfl rfl) ?_
        by_cases hj : j = s.d.turn
        · subst hj; simp
        · simp [hj]; rfl)
  -- `cv_ready.notify_all()`
  case h_8 =>
    right
    simp only [Option.some.injEq] at hs; subst hs
    refine ⟨abs_ext _ _ rfl ?_ ?_, fineRank_updIo T s _ ?_ (by simp [heq, rankFIo])⟩
    · intro j
      exact absW_srNotify s _ j heq rfl rfl rfl
    · simp [absIo, heq]
    · intro j _
      show rankFW (upd s.fw s.d.turn _ j) = _
      by_cases hj : j = s.d.turn
      · subst hj
        simp only [upd_same]
        generalize s.fw s.d.turn = p
        cases p <;> rfl
      · simp [hj]
  -- the remaining steps (acquire, release) are invisible
  all_goals (
    right
    try simp only [acquire] at hs
    try split at hs
    all_goals try simp only [Option.map_some, Option.map_none, Option.some.injEq, reduceCtorEq] at hs
    all_goals subst hs
    all_goals exact invisIo T s _ rfl rfl (by simp [absIo, heq]) (by simp [heq]) (by simp [heq, rankFIo]))
theorem stepW_turn (f : σ → Block → σ × Block) (s c : St σ) (i : Nat) (h : stepW f s i = some c) : c.turn = s.turn := by
  unfold stepW at h
  split at h
  all_goals (try (simp only [Option.some.injEq] at h))
  all_goals (try (split at h))
  all_goals (try (simp only [Option.some.injEq, reduceCtorEq] at h))
  all_goals (try subst h)
  all_goals rfl

theorem liftW_not_holds (p : WPc) : ¬ holdsW (liftW p) := by
  cases p <;> simp [holdsW, liftW]

theorem LockInv_updW (T : Nat) (s s' : FSt σ) (i : Nat) (p : FW) (h : LockInv T s) (hl : s'.lock = s.lock) (hfio : s'.fio = s.fio)
    (ht : s'.d.turn = s.d.turn) (hfw : s'.fw = upd s.fw i p) (hn1 : ¬ holdsW (s.fw i)) (hn2 : ¬ holdsW p) : LockInv T s' := by
  intro j hj
  have hj' := h j hj
  rw [hl, hfio, ht, hfw]
  by_cases hji : j = i
  · subst hji; simp_all <;> grind
  · simp_all <;> grind

theorem LockInv_stepW (f : σ → Block → σ × Block) (T : Nat) (s s' : FSt σ) (i : Nat) (hi : i < T) (h : LockInv T s)
    (hs : fstepW f s i = some s') : LockInv T s' := by
  have hi' := h i hi
  unfold fstepW at hs
  split at hs
  all_goals (rename_i heq)
  all_goals (try (simp only [acquire] at hs))
  all_goals (try (split at hs))
  all_goals (try (simp only [Option.map_some, Option.map_none, Option.some.injEq, reduceCtorEq] at hs))
  all_goals (try (
    simp only [Option.map_eq_some_iff] at hs; obtain ⟨c, hc, hs⟩ := hs; have htc := stepW_turn f _ _ _ hc
    subst hs
    exact LockInv_updW T s _ i _ h rfl rfl htc rfl (by simp [heq, holdsW]) (liftW_not_holds _)))
  all_goals (try subst hs)
  all_goals (
    intro j hj
    have hj' := h j hj
    by_cases hji : j = i
    · subst hji
      simp_all [holdsW, holdsIo] <;> grind
    · simp_all [holdsW, holdsIo] <;> grind)

theorem liftIo_not_holds (p : IoPc) : ¬ holdsIo (liftIo p) := by
  cases p <;> simp [holdsIo, liftIo]

theorem LockInv_updIo (T : Nat) (s s' : FSt σ) (h : LockInv T s) (hl : s'.lock = s.lock) (hfw : s'.fw = s.fw)
    (hn1 : ¬ holdsIo s.fio) (hn2 : ¬ holdsIo s'.fio) : LockInv T s' := by
  intro j hj
  have hj' := h j hj
  rw [hl, hfw]
  simp_all <;> grind

theorem LockInv_stepIo (inp : Input) (ispad : Bool) (T : Nat) (s s' : FSt σ) (h : LockInv T s)
    (hs : fstepIo inp ispad T s = some s') : LockInv T s' := by
  unfold fstepIo at hs
  split at hs
  all_goals (rename_i heq)
  all_goals (try (simp only [acquire] at hs))
  all_goals (try (split at hs))
  all_goals (try (simp only [Option.map_some, Option.map_none, Option.some.injEq, reduceCtorEq] at hs))
  all_goals (try (
    simp only [Option.map_eq_some_iff] at hs; obtain ⟨c, hc, hs⟩ := hs
    subst hs
    exact LockInv_updIo T s _ h rfl rfl (by simp [heq, holdsIo]) (liftIo_not_holds _)))
  all_goals (try subst hs)
  all_goals (
    intro j hj
    have hj' := h j hj
    by_cases hji : j = s.d.turn
    · subst hji
      simp_all [holdsW, holdsIo] <;> grind
    · simp_all [holdsW, holdsIo] <;> grind)

/-! ### the theorems -/

theorem abs_init (T : Nat) (ws0 : Nat → σ) : abs (finit T ws0) = init T ws0 := rfl

theorem FInv_init (T : Nat) (hT : 0 < T) (ws0 : Nat → σ) : FInv T (finit T ws0) := by
  refine ⟨?_, by rw [abs_init]; exact PInv_init T hT ws0⟩
  intro i _
  simp [finit, holdsW, holdsIo]

/-- every fine step is one coarse step of the same thread, or is invisible and lowers the fine rank -/
theorem fine_step_cases (f : σ → Block → σ × Block) (inp : Input) (ispad : Bool) (T : Nat) (s s' : FSt σ) (tid : Tid)
    (h : FInv T s) (hs : fstep f inp ispad T s tid = some s') :
    step f inp ispad T (abs s) tid = some (abs s') ∨ (abs s' = abs s ∧ fineRank T s' < fineRank T s) := by
  cases tid with
  | none => exact simIo inp ispad T s s' h hs
  | some i =>
    simp only [fstep] at hs
    split at hs
    · rename_i hi
      simp only [step, hi, if_true]
      exact simW f T s s' i hi h hs
    · cases hs

/-- REFINEMENT: a fine step is invisible at the coarse level, or it is exactly one coarse step of the same thread -/
theorem fine_step_simulated (f : σ → Block → σ × Block) (inp : Input) (ispad : Bool) (T : Nat) (s s' : FSt σ) (tid : Tid)
    (h : FInv T s) (hs : fstep f inp ispad T s tid = some s') :
    abs s' = abs s ∨ step f inp ispad T (abs s) tid = some (abs s') := by
  rcases fine_step_cases f inp ispad T s s' tid h hs with h1 | h1
  · exact Or.inr h1
  · exact Or.inl h1.1

theorem LockInv_step (f : σ → Block → σ × Block) (inp : Input) (ispad : Bool) (T : Nat) (s s' : FSt σ)
    (tid : Tid) (h : LockInv T s) (hs : fstep f inp ispad T s tid = some s') : LockInv T s' := by
  cases tid with
  | none => exact LockInv_stepIo inp ispad T s s' h hs
  | some i =>
    simp only [fstep] at hs
    split at hs
    · rename_i hi; exact LockInv_stepW f T s s' i hi h hs
    · cases hs

theorem PInv_step (f : σ → Block → σ × Block) (inp : Input) (hwf : inp.WF) (ispad : Bool) (T : Nat) (hT : 0 < T) (s s' : St σ)
    (tid : Option Nat) (h : PInv T s) (hs : step f inp ispad T s tid = some s') : PInv T s' := by
  cases tid with
  | none => exact PInv_stepIo ispad inp hwf T hT s s' h hs
  | some i =>
    simp only [step] at hs
    split at hs
    · rename_i hi; exact PInv_stepW f T s s' i hi h hs
    · cases hs

/-- the invariant is preserved -/
theorem FInv_step (f : σ → Block → σ × Block) (inp : Input) (hwf : inp.WF) (ispad : Bool) (T : Nat) (hT : 0 < T) (s s' : FSt σ)
    (tid : Tid) (h : FInv T s) (hs : fstep f inp ispad T s tid = some s') : FInv T s' := by
  refine ⟨LockInv_step f inp ispad T s s' tid h.1 hs, ?_⟩
  rcases fine_step_simulated f inp ispad T s s' tid h hs with h1 | h1
  · rw [h1]; exact h.2
  · exact PInv_step f inp hwf ispad T hT _ _ tid h.2 h1

theorem freach_inv (f : σ → Block → σ × Block) (inp : Input) (hwf : inp.WF) (ispad : Bool) (T : Nat) (hT : 0 < T) (ws0 : Nat → σ)
    (s : FSt σ) (h : FReach f inp ispad T ws0 s) : FInv T s := by
  induction h with
  | init => exact FInv_init T hT ws0
  | step s s' tid _ hs ih => exact FInv_step f inp hwf ispad T hT s s' tid ih hs

/-- every fine-reachable state stands for a coarse-reachable state -/
theorem freach_abs_reach (f : σ → Block → σ × Block) (inp : Input) (hwf : inp.WF) (ispad : Bool) (T : Nat) (hT : 0 < T) (ws0 : Nat → σ)
    (s : FSt σ) (h : FReach f inp ispad T ws0 s) : Reach f inp ispad T ws0 (abs s) := by
  induction h with
  | init => rw [abs_init]; exact Reach.init
  | step s s' tid hr hs ih =>
    have hinv := freach_inv f inp hwf ispad T hT ws0 s hr
    rcases fine_step_simulated f inp ispad T s s' tid hinv hs with h1 | h1
    · rw [h1]; exact ih
    · exact Reach.step _ _ tid ih h1

theorem absIo_done_iff (s : FSt σ) : absIo s = .done ↔ s.fio = .done := by
  unfold absIo
  split <;> simp_all
  split <;> simp

theorem absW_done_iff (s : FSt σ) (i : Nat) : absW s i = .done ↔ s.fw i = .done := by
  unfold absW
  split <;> simp_all
  all_goals (split <;> simp)

/-- all threads have returned in the fine system iff they have in its abstraction -/
theorem fAllDone_iff (T : Nat) (s : FSt σ) : fAllDone T s ↔ allDone T (abs s) := by
  unfold fAllDone allDone
  have e1 : (abs s).iopc = absIo s := rfl
  have e2 : ∀ i, (abs s).wpc i = absW s i := fun _ => rfl
  simp only [e1, e2, absIo_done_iff, absW_done_iff]

/-! ### deadlock freedom -/

theorem holdsW_enabled (f : σ → Block → σ × Block) (s : FSt σ) (i : Nat) (h : holdsW (s.fw i)) : (fstepW f s i).isSome := by
  unfold fstepW
  rcases h with h | h | h | h | h | h | h <;> simp only [h] <;> (try split) <;> rfl

theorem holdsIo_enabled (inp : Input) (ispad : Bool) (T : Nat) (s : FSt σ) (h : holdsIo s.fio) : (fstepIo inp ispad T s).isSome := by
  unfold fstepIo
  rcases h with h | h | h | h | h <;> simp only [h] <;> (try split) <;> rfl

/-- no deadlock, from the invariant alone -/
theorem fine_deadlock_free_inv (f : σ → Block → σ × Block) (inp : Input) (ispad : Bool) (T : Nat)
    (s : FSt σ) (h : FInv T s) : fAllDone T s ∨ ∃ tid, (fstep f inp ispad T s tid).isSome := by
  by_cases hio : holdsIo s.fio
  · exact Or.inr ⟨none, holdsIo_enabled inp ispad T s hio⟩
  by_cases hw : ∃ i, i < T ∧ holdsW (s.fw i)
  · obtain ⟨i, hi, hh⟩ := hw
    refine Or.inr ⟨some i, ?_⟩
    simp only [fstep, hi, if_true]
    exact holdsW_enabled f s i hh
  -- no mutex is held
  have hfree : ∀ i, i < T → s.lock i = none := by
    intro i hi
    have := h.1 i hi
    have hwi : ¬ holdsW (s.fw i) := fun hh => hw ⟨i, hi, hh⟩
    simp_all
    grind
  have e1 : (abs s).iopc = absIo s := rfl
  have e2 : ∀ i, (abs s).wpc i = absW s i := fun _ => rfl
  rcases deadlock_free f inp ispad T (abs s) h.2 with hd | ⟨tid, hen⟩
  · exact Or.inl ((fAllDone_iff T s).2 hd)
  · refine Or.inr ⟨tid, ?_⟩
    cases tid with
    | none =>
      simp only [step] at hen
      simp only [fstep]
      have hnd : absIo s ≠ .done := by
        intro hd
        simp [stepIo, e1, hd] at hen
      have ht : s.d.turn < T := h.2.1 hnd
      have hlk := hfree _ ht
      have hnw : ¬ holdsW (s.fw s.d.turn) := fun hh => hw ⟨_, ht, hh⟩
      have hen0 := hen
      unfold fstepIo
      unfold stepIo at hen
      simp only [e1, absIo] at hen
      simp only [holdsIo] at hio
      simp only [holdsW] at hnw
      cases hq : s.fio <;> simp only [hq] at hen hio ⊢ <;> simp_all [acquire]
    | some i =>
      simp only [step] at hen
      simp only [fstep]
      split at hen
      · rename_i hi
        simp only [hi, if_true]
        have hlk := hfree _ hi
        have hnw : ¬ holdsW (s.fw i) := fun hh => hw ⟨_, hi, hh⟩
        have hen0 := hen
        unfold fstepW
        unfold stepW at hen
        simp only [e2, absW] at hen
        simp only [holdsIo] at hio
        simp only [holdsW] at hnw
        cases hq : s.fw i <;> simp only [hq] at hen hnw ⊢ <;> simp_all [acquire]
      · cases hen

/-- NO DEADLOCK at mutex level: in every reachable state all threads have returned or some thread can take a step
    (a thread that holds a mutex is never blocked; if no mutex is held, a thread enabled in the abstraction is enabled here) -/
theorem fine_deadlock_free (f : σ → Block → σ × Block) (inp : Input) (hwf : inp.WF) (ispad : Bool) (T : Nat) (hT : 0 < T) (ws0 : Nat → σ)
    (s : FSt σ) (h : FReach f inp ispad T ws0 s) : fAllDone T s ∨ ∃ tid, (fstep f inp ispad T s tid).isSome :=
  fine_deadlock_free_inv f inp ispad T s (freach_inv f inp hwf ispad T hT ws0 s h)

/-! ### termination -/

/-- every fine step from a reachable state decreases (coarse measure μ of the abstraction, fine rank) lexicographically -/
theorem fine_step_decreases (f : σ → Block → σ × Block) (inp : Input) (hwf : inp.WF) (ispad : Bool) (P T : Nat) (hT : 0 < T)
    (hP : FirstNonFull inp P) (ws0 : Nat → σ) (s s' : FSt σ) (tid : Tid)
    (h : FReach f inp ispad T ws0 s) (hs : fstep f inp ispad T s tid = some s') :
    lt4 (mu P T (abs s')) (mu P T (abs s)) ∨ (mu P T (abs s') = mu P T (abs s) ∧ fineRank T s' < fineRank T s) := by
  have hinv := freach_inv f inp hwf ispad T hT ws0 s h
  rcases fine_step_cases f inp ispad T s s' tid hinv hs with h1 | ⟨h1, h2⟩
  · exact Or.inl (step_decreases f inp hwf ispad P T hT hP ws0 (abs s) (abs s') tid
      (freach_abs_reach f inp hwf ispad T hT ws0 s h) h1)
  · exact Or.inr ⟨by rw [h1], h2⟩

/-- the order of `fine_step_decreases` -/
def ltFine (a b : (Nat × Nat × Nat × Nat) × Nat) : Prop := lt4 a.1 b.1 ∨ (a.1 = b.1 ∧ a.2 < b.2)

theorem ltFine_wf : WellFounded ltFine := by
  have hw := (Prod.lex ⟨_, lt4_wf⟩ Nat.lt_wfRel).wf
  apply Subrelation.wf _ hw
  intro a b h
  obtain ⟨a1, a2⟩ := a
  obtain ⟨b1, b2⟩ := b
  simp only [ltFine] at h
  rcases h with h | ⟨rfl, h⟩
  · exact Prod.Lex.left _ _ h
  · exact Prod.Lex.right _ h

/-- NO INFINITE EXECUTION at mutex level -/
theorem fine_no_infinite_run (f : σ → Block → σ × Block) (inp : Input) (hwf : inp.WF) (ispad : Bool) (P T : Nat) (hT : 0 < T)
    (hP : FirstNonFull inp P) (ws0 : Nat → σ)
    (run : Nat → FSt σ) (tids : Nat → Tid) (h0 : run 0 = finit T ws0)
    (hstep : ∀ n, fstep f inp ispad T (run n) (tids n) = some (run (n + 1))) : False := by
  have hreach : ∀ n, FReach f inp ispad T ws0 (run n) := by
    intro n
    induction n with
    | zero => rw [h0]; exact FReach.init
    | succ k ih => exact FReach.step _ _ _ ih (hstep k)
  have key : ∀ m : (Nat × Nat × Nat × Nat) × Nat, ∀ n, (mu P T (abs (run n)), fineRank T (run n)) = m → False := by
    intro m
    induction m using ltFine_wf.induction with
    | _ m ih =>
      intro n hn
      have hd := fine_step_decreases f inp hwf ispad P T hT hP ws0 (run n) (run (n + 1)) (tids n) (hreach n) (hstep n)
      subst hn
      exact ih (mu P T (abs (run (n + 1))), fineRank T (run (n + 1))) hd (n + 1) rfl
  exact key _ 0 rfl

/-! ### safety -/

/-- the coarse theorems at mutex level: ownership flag never raised, output always a prefix of the sequential output, and in every
    terminal state the output is the sequential one with every block transformed exactly once by its owner -/
theorem fine_safety (f : σ → Block → σ × Block) (inp : Input) (hwf : inp.WF) (ispad : Bool) (P T : Nat) (hT : 0 < T)
    (hP : FirstNonFull inp P) (ws0 : Nat → σ) (s : FSt σ) (h : FReach f inp ispad T ws0 s) :
    s.d.viol = false ∧
    (s.d.nexp ≤ nChunks inp P ∧ s.d.out = seqOut f inp ispad T ws0 s.d.nexp) ∧
    (fAllDone T s → s.d.out = seqOut f inp ispad T ws0 (nChunks inp P) ∧
       ∀ i, i < T → s.d.log.filter (fun e => e.1 = i) = workerLog inp T (nChunks inp P) i) := by
  have hr := freach_abs_reach f inp hwf ispad T hT ws0 s h
  refine ⟨no_violation f inp hwf ispad T hT ws0 (abs s) hr, out_prefix f inp hwf ispad P T hT hP ws0 (abs s) hr, ?_⟩
  intro hd
  exact final_output f inp hwf ispad P T hT hP ws0 (abs s) hr ((fAllDone_iff T s).1 hd)

#print axioms FInv_init
#print axioms abs_init
#print axioms fine_step_simulated
#print axioms FInv_step
#print axioms freach_inv
#print axioms freach_abs_reach
#print axioms fAllDone_iff
#print axioms fine_deadlock_free
#print axioms fine_step_decreases
#print axioms fine_no_infinite_run
#print axioms fine_safety

end Wencry.Proofs.PipeFine
