/-
C13: the writes encryption issues to its output are: sequential appends from offset 0 (header with a zero-filled tag field,
IVs, body chunks in order), followed by ONE write of the tag at offset 10, computed over the complete body. Consequently every
crash state — after any prefix of the writes, the last one cut at any byte (which covers every re-chunking of the appends by
stdio) — other than the complete file is rejected by verification, unless the MAC of that partial content happens to be the
all-zero string (an explicit, named event; no theorem can exclude a specific MAC value).
-/
import Wencry.Model.File
import Wencry.Proofs.FileLogic
namespace Wencry.Proofs.Crash
open Wencry Wencry.Model Wencry.Model.File Wencry.Model.Stdio Wencry.Model.IoBuffer Wencry.Proofs.FileLogic

/-- all crash states of a write log: k complete writes followed by the first j bytes of write k (j = 0 … length-1), and the final state -/
def crashStates (log : List (Nat × Bytes)) : List Bytes :=
  (List.range (log.length + 1)).flatMap fun k =>
    match log[k]? with
    | none => [replay (log.take k)]
    | some (off, w) => (List.range w.length).map fun j => replay (log.take k ++ [(off, w.take j)])

/-- sequential appends starting at offset `off` -/
def Sequential : Nat → List (Nat × Bytes) → Prop
  | _, [] => True
  | off, (o, w) :: r => o = off ∧ Sequential (off + w.length) r

/-! ### writeAt -/

theorem writeAt_end (d bs : Bytes) : writeAt d d.length bs = d ++ bs := by
  simp only [writeAt, Nat.lt_irrefl, if_false, List.take_length]
  rw [List.drop_eq_nil_of_le (by omega)]
  simp

theorem writeAt_inside (d : Bytes) (off : Nat) (bs : Bytes) (h : off ≤ d.length) :
    writeAt d off bs = d.take off ++ bs ++ d.drop (off + bs.length) := by
  simp only [writeAt, if_neg (Nat.not_lt.2 h)]

theorem writeAt_take (d : Bytes) (off : Nat) (bs : Bytes) (h : off ≤ d.length) :
    (writeAt d off bs).take off = d.take off := by
  rw [writeAt_inside d off bs h, List.append_assoc]
  exact List.take_left' (by simp only [List.length_take]; omega)

theorem writeAt_drop (d : Bytes) (off : Nat) (bs : Bytes) (n : Nat) (h : off ≤ d.length) (hn : off + bs.length ≤ n) :
    (writeAt d off bs).drop n = d.drop n := by
  rw [writeAt_inside d off bs h]
  have hl : (d.take off ++ bs).length = off + bs.length := by
    simp only [List.length_append, List.length_take]; omega
  rw [List.drop_append, List.drop_eq_nil_of_le (by omega), List.drop_drop, hl, List.nil_append]
  congr 1
  omega

theorem writeAt_getD (d : Bytes) (off : Nat) (bs : Bytes) (i : Nat) (h : off ≤ d.length) (hi : i < off) :
    (writeAt d off bs).getD i 0 = d.getD i 0 := by
  have := writeAt_take d off bs h
  have h1 : ((writeAt d off bs).take off)[i]? = (writeAt d off bs)[i]? := List.getElem?_take_of_lt hi
  have h2 : (d.take off)[i]? = d[i]? := List.getElem?_take_of_lt hi
  rw [List.getD_eq_getElem?_getD, List.getD_eq_getElem?_getD, ← h1, ← h2, this]

/-! ### replay -/

theorem replay_append_one (l : List (Nat × Bytes)) (o : Nat) (w : Bytes) : replay (l ++ [(o, w)]) = writeAt (replay l) o w := by
  simp [replay, List.foldl_append]

def cat (l : List (Nat × Bytes)) : Bytes := (l.map (·.2)).flatten

theorem cat_cons (a : Nat × Bytes) (l : List (Nat × Bytes)) : cat (a :: l) = a.2 ++ cat l := rfl

theorem cat_append (l1 l2 : List (Nat × Bytes)) : cat (l1 ++ l2) = cat l1 ++ cat l2 := by
  simp [cat]

theorem foldl_seq : ∀ (l : List (Nat × Bytes)) (d : Bytes), Sequential d.length l →
    l.foldl (fun d w => writeAt d w.1 w.2) d = d ++ cat l := by
  intro l
  induction l with
  | nil => intro d _; simp [cat]
  | cons a l ih =>
    intro d h
    obtain ⟨o, w⟩ := a
    obtain ⟨rfl, h2⟩ := h
    rw [List.foldl_cons]
    simp only
    rw [writeAt_end, ih _ (by rw [List.length_append]; exact h2), cat_cons, List.append_assoc]

theorem replay_seq (l : List (Nat × Bytes)) (h : Sequential 0 l) : replay l = cat l := by
  have := foldl_seq l [] h
  simpa [replay] using this

theorem seq_split : ∀ (l1 l2 : List (Nat × Bytes)) (off : Nat), Sequential off (l1 ++ l2) →
    Sequential off l1 ∧ Sequential (off + (cat l1).length) l2 := by
  intro l1
  induction l1 with
  | nil => intro l2 off h; exact ⟨trivial, by simpa [cat] using h⟩
  | cons a l ih =>
    intro l2 off h
    obtain ⟨o, w⟩ := a
    obtain ⟨rfl, h2⟩ := h
    obtain ⟨i1, i2⟩ := ih l2 _ h2
    refine ⟨⟨rfl, i1⟩, ?_⟩
    rw [cat_cons, List.length_append, ← Nat.add_assoc]
    exact i2

theorem seq_join : ∀ (l1 l2 : List (Nat × Bytes)) (off : Nat), Sequential off l1 → Sequential (off + (cat l1).length) l2 →
    Sequential off (l1 ++ l2) := by
  intro l1
  induction l1 with
  | nil => intro l2 off _ h; simpa [cat] using h
  | cons a l ih =>
    intro l2 off h h'
    obtain ⟨o, w⟩ := a
    obtain ⟨rfl, h2⟩ := h
    refine ⟨rfl, ih l2 _ h2 ?_⟩
    rw [cat_cons, List.length_append, ← Nat.add_assoc] at h'
    exact h'


/-! ### invariants of the output stream -/

def Good (w : WFile) : Prop := w.data = replay w.log

theorem good_fwrite (w : WFile) (bs : Bytes) (h : Good w) : Good (w.fwrite bs) := by
  unfold WFile.fwrite
  split
  · exact h
  · show writeAt w.data w.pos bs = replay (w.log ++ [(w.pos, bs)])
    rw [replay_append_one]
    unfold Good at h
    rw [h]

theorem seqLoop_ind (P : WFile → Prop) (hP : ∀ w bs, P w → P (w.fwrite bs)) (T B : Nat) (p : Bool) :
    ∀ (fuel j : Nat) (ss : List Modes.Stream) (fin : RFile) (fout : WFile), P fout →
      P (seqLoop T B p fuel j ss fin fout).2.2 := by
  intro fuel
  induction fuel with
  | zero => intro j ss fin fout h; exact h
  | succ fuel ih =>
    intro j ss fin fout h
    unfold seqLoop
    generalize loadBuffer B fin p IoBuf.new = r
    obtain ⟨fin', buf, st⟩ := r
    simp only
    split
    · exact h
    · split
      · exact h
      · split
        · exact ih _ _ _ _ (hP _ _ h)
        · exact hP _ _ h

theorem foldl_fwrite_ind (P : WFile → Prop) (hP : ∀ w bs, P w → P (w.fwrite bs)) (g : Nat → Bytes) :
    ∀ (l : List Nat) (w : WFile), P w → P (l.foldl (fun o i => o.fwrite (g i)) w) := by
  intro l
  induction l with
  | nil => intro w h; exact h
  | cons a l ih => intro w h; exact ih _ (hP _ _ h)

theorem writeHeader_ind (P : WFile → Prop) (hP : ∀ w bs, P w → P (w.fwrite bs)) (out : WFile) (c h : Byte) (T : Nat) (iv : Bytes)
    (h0 : P out) : P (writeHeader out c h T iv) := by
  unfold writeHeader
  exact foldl_fwrite_ind P hP (fun i => (iv.drop (20 * i)).take 20) _ _ (hP _ _ (hP _ _ (hP _ _ (hP _ _ h0))))

/-- `encrypt` taken apart -/
theorem encrypt_unfold (cfg : Cfg) (ctype htype : Nat) (key : Block) (seed plain : Bytes) (f : WFile)
    (he : encrypt cfg ctype htype key seed plain = .ok f) :
    ∃ ss tag, prepareAES cfg.T ctype key (getIV cfg.T seed) true = .ok ss ∧
      let out := (seqPipeline cfg.T cfg.B true ss (RFile.open plain)
        (writeHeader WFile.empty (BitVec.ofNat 8 ctype) (BitVec.ofNat 8 htype) cfg.T (getIV cfg.T seed))).2.2
      (Hmac.getres cfg.H htype key.toList ((RFile.open out.data).fseek 48)).map (·.1) = some tag ∧
      f = (out.fseek 10).fwrite tag := by
  unfold encrypt at he
  simp only [bind, Except.bind] at he
  cases hp : prepareAES cfg.T ctype key (getIV cfg.T seed) true with
  | error e => rw [hp] at he; cases he
  | ok ss =>
    rw [hp] at he
    simp only [writeFileHmac] at he
    refine ⟨ss, ?_⟩
    split at he
    · cases he
    · rename_i tag fp hg
      refine ⟨tag, rfl, ?_, ?_⟩
      · exact congrArg (Option.map (·.1)) hg
      · cases he; rfl

/-- the file's contents are what its write log replays to -/
theorem encrypt_data_eq_replay (cfg : Cfg) (ctype htype : Nat) (key : Block) (seed plain : Bytes) (f : WFile)
    (he : encrypt cfg ctype htype key seed plain = .ok f) : f.data = replay f.log := by
  obtain ⟨ss, tag, _, _, rfl⟩ := encrypt_unfold cfg ctype htype key seed plain f he
  apply good_fwrite
  show Good _
  unfold seqPipeline
  have := seqLoop_ind Good good_fwrite cfg.T cfg.B true (((RFile.open plain).remaining / (16 * cfg.B) + 2)) 0 ss (RFile.open plain) _
    (writeHeader_ind Good good_fwrite WFile.empty (BitVec.ofNat 8 ctype) (BitVec.ofNat 8 htype) cfg.T (getIV cfg.T seed) rfl)
  exact this


/-! ### the appends -/

def Seq (w : WFile) : Prop := Sequential 0 w.log ∧ w.pos = w.data.length ∧ w.data = replay w.log

theorem seq_fwrite (w : WFile) (bs : Bytes) (h : Seq w) : Seq (w.fwrite bs) ∧ (w.fwrite bs).data = w.data ++ bs := by
  obtain ⟨h1, h2, h3⟩ := h
  obtain ⟨a1, a2⟩ := fwrite_append w bs h2
  refine ⟨⟨?_, a2, good_fwrite w bs h3⟩, a1⟩
  unfold WFile.fwrite
  split
  · exact h1
  · show Sequential 0 (w.log ++ [(w.pos, bs)])
    refine seq_join _ _ 0 h1 ⟨?_, trivial⟩
    rw [h2, h3, replay_seq _ h1, Nat.zero_add]

def hdr (c h : Byte) : Bytes := (Gen.magicBytes ++ [c, h]) ++ List.replicate 38 0

def HInv (c h : Byte) (n : Nat) (w : WFile) : Prop := Seq w ∧ n ≤ w.data.length ∧ ∃ r, w.data = hdr c h ++ r

theorem hinv_fwrite_grow (c h : Byte) (n : Nat) (w : WFile) (bs : Bytes) (hi : HInv c h n w) : HInv c h (n + bs.length) (w.fwrite bs) := by
  obtain ⟨h1, h2, r, h3⟩ := hi
  obtain ⟨a1, a2⟩ := seq_fwrite w bs h1
  refine ⟨a1, ?_, r ++ bs, ?_⟩
  · rw [a2, List.length_append]; omega
  · rw [a2, h3, List.append_assoc]

theorem hinv_mono (c h : Byte) (n m : Nat) (w : WFile) (hm : m ≤ n) (hi : HInv c h n w) : HInv c h m w :=
  ⟨hi.1, Nat.le_trans hm hi.2.1, hi.2.2⟩

theorem hinv_fwrite (c h : Byte) (n : Nat) (w : WFile) (bs : Bytes) (hi : HInv c h n w) : HInv c h n (w.fwrite bs) :=
  hinv_mono c h _ n _ (Nat.le_add_right _ _) (hinv_fwrite_grow c h n w bs hi)

theorem seq_empty : Seq WFile.empty := ⟨trivial, rfl, rfl⟩

theorem sha1_len (m : Bytes) : (Hash.getStringHash Hash.Sha1.alg m).length = 20 := by
  simp [Hash.getStringHash, Hash.Sha1.alg, Hash.Sha1.res, Hash.wordBE]

theorem go_len : ∀ (n : Nat) (prev acc : Bytes), (getIV.go n prev acc).length = acc.length + 20 * n := by
  intro n
  induction n with
  | zero => intro prev acc; rfl
  | succ n ih =>
    intro prev acc
    rw [getIV.go, ih, List.length_append, sha1_len]
    omega

theorem getIV_len (T : Nat) (hT : 1 ≤ T) (seed : Bytes) : (getIV T seed).length = 20 * T := by
  unfold getIV
  simp only
  rw [if_neg (by omega), go_len, sha1_len]
  omega

theorem writeHeader_hinv (c h : Byte) (T : Nat) (hT : 1 ≤ T) (iv : Bytes) (hiv : iv.length = 20 * T) :
    HInv c h 68 (writeHeader WFile.empty c h T iv) := by
  obtain ⟨T', rfl⟩ : ∃ T', T = T' + 1 := ⟨T - 1, by omega⟩
  unfold writeHeader
  simp only
  rw [List.range_succ, List.foldl_append]
  simp only [List.foldl_cons, List.foldl_nil]
  have s1 := seq_fwrite _ Gen.magicBytes seq_empty
  have s2 := seq_fwrite _ [c] s1.1
  have s3 := seq_fwrite _ [h] s2.1
  have s4 := seq_fwrite _ (List.replicate Gen.c_PADDING 0) s3.1
  have h4 : HInv c h 48 ((((WFile.empty.fwrite Gen.magicBytes).fwrite [c]).fwrite [h]).fwrite (List.replicate Gen.c_PADDING 0)) := by
    refine ⟨s4.1, ?_, [], ?_⟩
    · rw [s4.2, s3.2, s2.2, s1.2]; simp [WFile.empty, Gen.magicBytes, Gen.c_PADDING]
    · rw [s4.2, s3.2, s2.2, s1.2]; simp [WFile.empty, hdr, Gen.c_PADDING]
  have h5 := foldl_fwrite_ind (HInv c h 48) (fun w bs => hinv_fwrite c h 48 w bs) (fun i => (iv.drop (20 * i)).take 20) (List.range T') _ h4
  have h6 := hinv_fwrite_grow c h 48 _ ((iv.drop (20 * T')).take 20) h5
  refine hinv_mono c h _ 68 _ ?_ h6
  simp only [List.length_take, List.length_drop]
  omega


/-! ### the padding pipeline writes at least one block -/

theorem loadPure_true_spec (B : Nat) (hB : 1 ≤ B) (got : Bytes) (ro : Bool) :
    (loadPure B true IoBuf.new got ro).2 ≠ .nodata ∧ 1 ≤ (loadPure B true IoBuf.new got ro).1.blocks.length ∧
      ((loadPure B true IoBuf.new got ro).1.isfinal = true →
        (loadPure B true IoBuf.new got ro).1.total = (loadPure B true IoBuf.new got ro).1.blocks.length) := by
  unfold loadPure
  simp only [Bool.true_and, Bool.not_true, Bool.false_and, Bool.false_eq_true, if_false]
  by_cases hl : got.length = 16 * B
  · simp only [hl, ne_eq, not_true_eq_false, decide_false, Bool.false_eq_true, if_false]
    refine ⟨?_, ?_, ?_⟩
    · rw [if_neg (by omega)]; simp
    · rw [splitBlocks_length, hl]; omega
    · simp [IoBuf.new]
  · simp only [ne_eq, hl, not_false_eq_true, decide_true, if_true]
    refine ⟨by simp, ?_, ?_⟩
    · simp
    · intro _
      simp only [List.length_append, splitBlocks_length, List.length_cons, List.length_nil]

theorem exportBytes_true_length (buf : IoBuf) (h1 : 1 ≤ buf.blocks.length) (h2 : buf.isfinal = true → buf.now = buf.blocks.length) :
    16 ≤ (exportBytes buf true).length := by
  unfold exportBytes
  split
  · rename_i hf
    have := h2 hf
    simp only [Bool.true_or, if_true, List.length_take, joinBlocks_length, show ¬ (0 > 16) by omega, if_false]
    omega
  · rw [joinBlocks_length]; omega

theorem seqLoop_first (c h : Byte) (n : Nat) (T B : Nat) (hB : 1 ≤ B) (fuel j : Nat) (ss : List Modes.Stream) (fin : RFile) (fout : WFile)
    (hs : (ss[j % T]?).isSome) (hi : HInv c h n fout) :
    HInv c h (n + 16) (seqLoop T B true (fuel + 1) j ss fin fout).2.2 := by
  obtain ⟨l1, l2, l3⟩ := loadPure_true_spec B hB (fin.fread (16 * B)).2
    (if !true && !(fin.fread (16 * B)).1.feof then (fin.fread (16 * B)).1.peekEof else ((fin.fread (16 * B)).1, (fin.fread (16 * B)).1.feof)).2
  unfold seqLoop
  rw [loadBuffer_eq]
  simp only
  generalize loadPure B true IoBuf.new _ _ = r at l1 l2 l3
  obtain ⟨buf, st⟩ := r
  simp only at l1 l2 l3 ⊢
  split
  · rename_i hn; rw [hn] at hs; cases hs
  · rename_i s hs'
    have hrl := Wencry.Proofs.Modes.run_length s buf.blocks
    generalize s.run buf.blocks = rr at hrl
    obtain ⟨s', outBlocks⟩ := rr
    simp only at hrl ⊢
    have hexp := exportBytes_true_length { buf with blocks := outBlocks, now := buf.total } (by simp only; omega)
      (by simp only; intro hf; rw [l3 hf, hrl])
    have hw := hinv_fwrite_grow c h n fout
      (exportBytes { buf with blocks := outBlocks, now := buf.total } true) hi
    have hw' := hinv_mono c h _ (n + 16) _ (by omega) hw
    split
    · exact seqLoop_ind (HInv c h (n + 16)) (fun w bs => hinv_fwrite c h _ w bs) T B true fuel _ _ _ _ hw'
    · exact hw'


theorem hdr_tagfield (c h : Byte) (r : Bytes) : ((hdr c h ++ r).drop 10).take 38 = List.replicate 38 0 := by
  have e : hdr c h ++ r = (Gen.magicBytes ++ [c, h]) ++ (List.replicate 38 0 ++ r) := by
    simp only [hdr, List.append_assoc]
  rw [e, List.drop_left' (by rfl), List.take_left' (by simp)]

theorem hdr_htype (c h : Byte) (r : Bytes) : (hdr c h ++ r).getD 9 0 = h := by
  simp [hdr, Gen.magicBytes]

set_option linter.unusedVariables false in
/-- shape of the write log -/
theorem encrypt_log_shape (cfg : Cfg) (hT : 1 ≤ cfg.T) (hB : 1 ≤ cfg.B) (hH : 1 ≤ cfg.H) (ctype htype : Nat) (hc : ctype ≤ 4) (hh : htype ≤ 2)
    (key : Block) (seed plain : Bytes) (f : WFile) (he : encrypt cfg ctype htype key seed plain = .ok f) :
    ∃ app tag, f.log = app ++ [(10, tag)] ∧ Sequential 0 app ∧
      ((replay app).drop 10).take 38 = List.replicate 38 0 ∧
      74 ≤ (replay app).length ∧
      tagOf cfg.H htype key ((replay app).drop 48) = some tag ∧
      (replay app).getD 9 0 = BitVec.ofNat 8 htype := by
  obtain ⟨ss, tag, hp, hg, rfl⟩ := encrypt_unfold cfg ctype htype key seed plain f he
  have hss : (ss[0 % cfg.T]?).isSome := by
    unfold prepareAES at hp
    split at hp
    · cases hp
    · cases hp
      rw [List.getElem?_replicate, if_pos (by rw [Nat.zero_mod]; omega)]
      rfl
  have hhdr := writeHeader_hinv (BitVec.ofNat 8 ctype) (BitVec.ofNat 8 htype) cfg.T hT (getIV cfg.T seed) (getIV_len cfg.T hT seed)
  have hout : HInv (BitVec.ofNat 8 ctype) (BitVec.ofNat 8 htype) (68 + 16) (seqPipeline cfg.T cfg.B true ss (RFile.open plain)
      (writeHeader WFile.empty (BitVec.ofNat 8 ctype) (BitVec.ofNat 8 htype) cfg.T (getIV cfg.T seed))).2.2 :=
    seqLoop_first _ _ 68 cfg.T cfg.B hB _ 0 ss _ _ hss hhdr
  generalize (seqPipeline cfg.T cfg.B true ss (RFile.open plain)
      (writeHeader WFile.empty (BitVec.ofNat 8 ctype) (BitVec.ofNat 8 htype) cfg.T (getIV cfg.T seed))).2.2 = out at hout hg
  obtain ⟨⟨hseq, _, hgood⟩, hlen, r, hpre⟩ := hout
  have htag : tagOf cfg.H htype key (out.data.drop 48) = some tag := by
    rw [tagOf_eq cfg.H hH htype hh]
    rw [getres_fst cfg.H hH htype hh] at hg
    exact hg
  have htl := tagOf_length cfg.H hH htype hh key _ tag htag
  have hne : tag.isEmpty = false := by
    cases tag with
    | nil => unfold Hash.hlen at htl; split at htl <;> simp at htl
    | cons a t => rfl
  refine ⟨out.log, tag, ?_, hseq, ?_⟩
  · unfold WFile.fwrite
    rw [hne]
    rfl
  · rw [← hgood]
    refine ⟨?_, by omega, htag, ?_⟩
    · rw [hpre]; exact hdr_tagfield _ _ r
    · rw [hpre]; exact hdr_htype _ _ r


/-! ### crash states -/

theorem crash_cases (app : List (Nat × Bytes)) (tag S : Bytes) (hseq : Sequential 0 app)
    (hS : S ∈ crashStates (app ++ [(10, tag)])) :
    (∃ r, replay app = S ++ r) ∨ (∃ j, j < tag.length ∧ S = writeAt (replay app) 10 (tag.take j)) ∨
      S = replay (app ++ [(10, tag)]) := by
  unfold crashStates at hS
  rw [List.mem_flatMap] at hS
  obtain ⟨k, hk, hm⟩ := hS
  rw [List.mem_range, List.length_append, List.length_singleton] at hk
  cases hlk : (app ++ [(10, tag)])[k]? with
  | none =>
    rw [hlk] at hm
    simp only [List.mem_singleton] at hm
    have : (app ++ [(10, tag)]).length ≤ k := by simpa using hlk
    rw [List.take_of_length_le this] at hm
    exact Or.inr (Or.inr hm)
  | some ow =>
    obtain ⟨off, w⟩ := ow
    rw [hlk] at hm
    simp only [List.mem_map, List.mem_range] at hm
    obtain ⟨j, hj, rfl⟩ := hm
    by_cases hka : k < app.length
    · left
      rw [List.getElem?_append_left hka] at hlk
      rw [List.take_append_of_le_length (Nat.le_of_lt hka)]
      have hsplit : app = app.take k ++ (off, w) :: app.drop (k + 1) := by
        have h1 : app[k] = (off, w) := by
          rw [List.getElem?_eq_getElem hka] at hlk
          exact Option.some.inj hlk
        rw [← h1, ← List.drop_eq_getElem_cons hka, List.take_append_drop]
      have hseq' := hseq
      rw [hsplit] at hseq'
      obtain ⟨q1, q2⟩ := seq_split _ _ 0 hseq'
      obtain ⟨q3, _⟩ := q2
      have q4 : Sequential 0 (app.take k ++ [(off, w.take j)]) := seq_join _ _ 0 q1 ⟨q3, trivial⟩
      rw [replay_seq _ q4, replay_seq _ hseq]
      refine ⟨w.drop j ++ cat (app.drop (k + 1)), ?_⟩
      conv => lhs; rw [hsplit]
      rw [cat_append, cat_append, cat_cons, cat_cons]
      simp only [cat, List.map_nil, List.flatten_nil, List.append_nil, List.append_assoc]
      rw [← List.append_assoc (w.take j), List.take_append_drop]
    · right; left
      obtain ⟨hk2, _⟩ := List.getElem?_eq_some_iff.1 hlk
      rw [List.length_append, List.length_singleton] at hk2
      have hke : k = app.length := by omega
      subst hke
      rw [List.getElem?_append_right (Nat.le_refl _)] at hlk
      simp only [Nat.sub_self, List.getElem?_cons_zero, Option.some.injEq, Prod.mk.injEq] at hlk
      obtain ⟨rfl, rfl⟩ := hlk
      refine ⟨j, hj, ?_⟩
      rw [List.take_left' rfl, replay_append_one]

theorem hlen_le32 (h n : Nat) (hn : Hash.hlen h = some n) : 1 ≤ n ∧ n ≤ 32 := by
  unfold Hash.hlen at hn
  split at hn <;> simp at hn <;> omega

/-- C13: an accepted crash state other than the complete file has an all-zero tag field and an all-zero MAC -/
theorem interrupted (cfg : Cfg) (hT : 1 ≤ cfg.T) (hB : 1 ≤ cfg.B) (hH : 1 ≤ cfg.H) (ctype htype : Nat) (hc : ctype ≤ 4) (hh : htype ≤ 2)
    (key : Block) (seed plain : Bytes) (f : WFile) (he : encrypt cfg ctype htype key seed plain = .ok f)
    (S : Bytes) (hS : S ∈ crashStates f.log) (hne : S ≠ f.data) (hacc : Accepted cfg key S) :
    (S.drop 10).take 38 = List.replicate 38 0 ∧
    ∃ t, tagOf cfg.H (S.getD 9 0).toNat key (S.drop 48) = some t ∧ t = List.replicate t.length 0 := by
  obtain ⟨app, tag, hlog, hseq, hz, hlen, htag, h9⟩ := encrypt_log_shape cfg hT hB hH ctype htype hc hh key seed plain f he
  have hdata := encrypt_data_eq_replay cfg ctype htype key seed plain f he
  rw [hlog] at hS hdata
  obtain ⟨_, hSlen, _, hh', t, ht, hcmp⟩ := hacc
  rcases crash_cases app tag S hseq hS with ⟨r, hr⟩ | ⟨j, hj, hSj⟩ | hfin
  · -- a prefix of the appends
    have hfield : (S.drop 10).take 38 = List.replicate 38 0 := by
      rw [← hz, hr, List.drop_append_of_le_length (by omega), List.take_append_of_le_length (by rw [List.length_drop]; omega)]
    refine ⟨hfield, t, ht, ?_⟩
    have htl := hlen_le32 _ _ (tagOf_length cfg.H hH _ hh' key _ t ht)
    have : (S.drop 10).take t.length = ((S.drop 10).take 38).take t.length := by
      rw [List.take_take, Nat.min_eq_left (by omega)]
    rw [this, hfield, List.take_replicate, Nat.min_eq_left (by omega)] at hcmp
    exact hcmp.symm
  · -- the tag partly written
    exfalso
    have htl := hlen_le32 _ _ (tagOf_length cfg.H hH _ hh key _ tag htag)
    have hjl : (tag.take j).length = j := by rw [List.length_take]; omega
    have h10 : 10 ≤ (replay app).length := by omega
    have e48 : S.drop 48 = (replay app).drop 48 := by
      rw [hSj]; exact writeAt_drop _ 10 _ 48 h10 (by omega)
    have e9 : S.getD 9 0 = BitVec.ofNat 8 htype := by
      rw [hSj, writeAt_getD _ 10 _ 9 h10 (by omega), h9]
    have e9' : (S.getD 9 0).toNat = htype := by
      rw [e9, BitVec.toNat_ofNat]; omega
    rw [e9', e48, htag] at ht
    cases ht
    apply hne
    rw [hdata, replay_append_one, writeAt_inside _ 10 tag h10]
    have d1 : S = S.take 10 ++ ((S.drop 10).take tag.length ++ (S.drop 10).drop tag.length) := by
      rw [List.take_append_drop, List.take_append_drop]
    rw [hcmp, List.drop_drop] at d1
    have e1 : S.take 10 = (replay app).take 10 := by
      rw [hSj]; exact writeAt_take _ 10 _ h10
    have e2 : S.drop (10 + tag.length) = (replay app).drop (10 + tag.length) := by
      rw [hSj]; exact writeAt_drop _ 10 _ _ h10 (by omega)
    rw [e1, e2] at d1
    rw [List.append_assoc]
    exact d1
  · exact absurd (by rw [hfin, hdata]) hne

/-- the complete file is one of the crash states (the last), so the statement above is not vacuous -/
theorem final_is_crash_state (log : List (Nat × Bytes)) : replay log ∈ crashStates log := by
  unfold crashStates
  rw [List.mem_flatMap]
  refine ⟨log.length, by simp, ?_⟩
  simp

end Wencry.Proofs.Crash

section AxiomCheck
open Wencry.Proofs.Crash
#print axioms encrypt_data_eq_replay
#print axioms encrypt_log_shape
#print axioms interrupted
#print axioms final_is_crash_state
end AxiomCheck
