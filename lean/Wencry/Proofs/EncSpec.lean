/-
C02: the file written by the model of `execute_encrypt` IS the documented format built from the standards
(`Spec.Wenc.wenc`): magic, mode bytes, RFC 2104 tag over everything from offset 48, zero fill to offset 48, the SHA-1 IV chain,
and the PKCS#7-padded plaintext under FIPS-197 AES-128 in the selected SP 800-38A mode, chunks of B blocks dealt round-robin
to T continuous streams all started from the first 16 bytes of the first IV — for every plaintext, key, seed, mode pair, T, B, H.

Helper files: `EncSpecBlocks` (splitBlocks/joinBlocks, PKCS#7, encrypt-side chunking = `chunksOf`), `EncSpecLoop` (`seqLoop` as a
fold `runChunks` over the chunk list), `EncSpecInter` (round-robin interleaving = slices of the continuous per-stream runs).
-/
import Wencry.Model.File
import Wencry.Spec.Wenc
import Wencry.Proofs.AesCorrect
import Wencry.Proofs.ModesCorrect
import Wencry.Proofs.HashCorrect
import Wencry.Proofs.HmacCorrect
import Wencry.Proofs.EncSpecInter
namespace Wencry.Proofs.EncSpec
open Wencry Wencry.Model Wencry.Model.File Wencry.Model.Stdio Wencry.Model.IoBuffer Wencry.Model.Modes Wencry.Proofs.Modes

/-- the generated magic number is the documented one -/
theorem magic_eq : Gen.magicBytes = Spec.Wenc.magic := by decide

theorem sha1_length (m : Bytes) : (Spec.Hash.SHA1.hash m).length = 20 := by
  simp [Spec.Hash.SHA1.hash, Spec.Hash.SHA1.digestBytes, Spec.Hash.be32Bytes]

theorem getIV_go_eq : ∀ (n : Nat) (prev acc : Bytes), prev.length < 2 ^ 61 →
    getIV.go n prev acc = acc ++ (Spec.Wenc.ivChain n prev).flatten := by
  intro n
  induction n with
  | zero => intro prev acc _; simp [getIV.go, Spec.Wenc.ivChain]
  | succ n ih =>
    intro prev acc hp
    simp only [getIV.go, Spec.Wenc.ivChain, HashCorrect.sha1_string prev hp]
    rw [ih _ _ (by rw [sha1_length]; decide)]
    simp

/-- the IV area: chained SHA-1 of the seed -/
theorem getIV_eq (T : Nat) (hT : 1 ≤ T) (seed : Bytes) (hs : seed.length < 2 ^ 60) :
    getIV T seed = (Spec.Wenc.ivChain T seed).flatten := by
  obtain ⟨n, rfl⟩ : ∃ n, T = n + 1 := ⟨T - 1, by omega⟩
  have hs' : seed.length < 2 ^ 61 := by omega
  simp only [getIV, Nat.add_one_ne_zero, if_false, Nat.add_sub_cancel, Spec.Wenc.ivChain, HashCorrect.sha1_string seed hs']
  rw [getIV_go_eq _ _ _ (by rw [sha1_length]; decide)]
  simp

theorem cryptFn_enc (ctype : Nat) (k : Kind) (hk : factoryKind true ctype = some k) (key : Block) :
    cryptFn k key = Spec.AES.cipher key := by
  funext blk
  rcases factoryKind_true_cases hk with ⟨_, rfl⟩ | ⟨_, rfl⟩ | ⟨_, rfl⟩ | ⟨_, rfl⟩ | ⟨_, rfl⟩ <;>
    simp [cryptFn, Kind.usesDecryptCore, Aes.aes_encryptK, Aes.aes_encrypt_eq_spec]

theorem prepareAES_enc (T ctype : Nat) (key : Block) (iv : Bytes) (ss : List Stream) (hss : prepareAES T ctype key iv true = .ok ss) :
    ∃ k, factoryKind true ctype = some k ∧ ss = List.replicate T { kind := k, crypt := Spec.AES.cipher key, iv := Block.ofListD iv } := by
  unfold prepareAES create at hss
  cases hk : factoryKind true ctype with
  | none => simp [hk] at hss
  | some k =>
    simp [hk] at hss
    exact ⟨k, rfl, by rw [← hss, cryptFn_enc ctype k hk]⟩


set_option linter.unusedVariables false in
/-- the body written by the pipeline is the specified one -/
theorem body_eq (T B : Nat) (hT : 1 ≤ T) (hB : 1 ≤ B) (ctype : Nat) (hc : ctype ≤ 4) (key : Block) (iv : Bytes) (plain : Bytes)
    (ss : List Stream) (hss : prepareAES T ctype key iv true = .ok ss) (fout : WFile) (happ : fout.pos = fout.data.length) :
    (seqPipeline T B true ss (RFile.open plain) fout).2.2.data
      = fout.data ++ Spec.Wenc.body T B ctype key (Block.ofListD iv) plain := by
  obtain ⟨k, hk, rfl⟩ := prepareAES_enc T ctype key iv ss hss
  unfold seqPipeline
  rw [seqLoop_enc T B hB _ _ _ _ _ happ]
  congr 1
  have hfuel : plain.length / (16 * B) + 1 ≤ (RFile.open plain).remaining / (16 * B) + 2 := by
    simp [RFile.open, RFile.remaining]
  have hd : (RFile.open plain).data.drop (RFile.open plain).pos = plain := by simp [RFile.open]
  rw [hd]
  generalize hfu : (RFile.open plain).remaining / (16 * B) + 2 = fuel at hfuel
  have hfull := encChunks_full B fuel plain
  rw [encChunks_eq B hB fuel plain hfuel] at hfull ⊢
  unfold Spec.Wenc.body
  simp only []
  generalize Spec.Wenc.chunksOf B (splitBlocks (Spec.Wenc.pkcs7 plain)).1 = chunks at hfull ⊢
  rw [runChunks_replicate T hT, List.flatMap_def]
  congr 2
  apply List.map_congr_left
  intro j hj
  have hjl : j < chunks.length := by simpa using hj
  have hm : j % T < T := Nat.mod_lt j (by omega)
  unfold sliceOf
  rw [seg_length_self T B hT chunks j (fun j' hj' => hfull j' (by omega))]
  congr 2
  simp only [List.getD_eq_getElem?_getD, List.getElem?_map, List.getElem?_range hm, Option.map_some, Option.getD_some]
  rw [streamInput_eq, run_encrypt_eq ctype k hk]


theorem prepareAES_ok (T ctype : Nat) (hc : ctype ≤ 4) (key : Block) (iv : Bytes) : ∃ ss, prepareAES T ctype key iv true = .ok ss := by
  unfold prepareAES create
  rcases ctype with _|_|_|_|_|m <;> first | omega | simp [factoryKind]

theorem foldl_header (iv : Bytes) : ∀ (n : Nat) (out : WFile), out.pos = out.data.length →
    ((List.range n).foldl (fun o i => o.fwrite ((iv.drop (20 * i)).take 20)) out).data = out.data ++ iv.take (20 * n) ∧
    ((List.range n).foldl (fun o i => o.fwrite ((iv.drop (20 * i)).take 20)) out).pos
      = ((List.range n).foldl (fun o i => o.fwrite ((iv.drop (20 * i)).take 20)) out).data.length := by
  intro n
  induction n with
  | zero => intro out h; simp [h]
  | succ n ih =>
    intro out h
    obtain ⟨h1, h2⟩ := ih out h
    rw [List.range_succ, List.foldl_append]
    simp only [List.foldl_cons, List.foldl_nil]
    obtain ⟨h3, h4⟩ := fwrite_append _ h2 ((iv.drop (20 * n)).take 20)
    refine ⟨?_, h4⟩
    rw [h3, h1, Nat.mul_succ, List.take_add, List.append_assoc]

theorem writeHeader_data (c h : Byte) (T : Nat) (iv : Bytes) (hiv : iv.length = 20 * T) :
    (writeHeader WFile.empty c h T iv).data = Gen.magicBytes ++ [c, h] ++ List.replicate 38 0 ++ iv ∧
    (writeHeader WFile.empty c h T iv).pos = (writeHeader WFile.empty c h T iv).data.length := by
  unfold writeHeader
  have h0 : WFile.empty.pos = WFile.empty.data.length := rfl
  obtain ⟨a1, b1⟩ := fwrite_append _ h0 Gen.magicBytes
  obtain ⟨a2, b2⟩ := fwrite_append _ b1 [c]
  obtain ⟨a3, b3⟩ := fwrite_append _ b2 [h]
  obtain ⟨a4, b4⟩ := fwrite_append _ b3 (List.replicate Gen.c_PADDING 0)
  obtain ⟨a5, b5⟩ := foldl_header iv T _ b4
  refine ⟨?_, b5⟩
  rw [a5, a4, a3, a2, a1, List.take_of_length_le (by omega)]
  simp [WFile.empty, Gen.c_PADDING]


theorem ivChain_flatten_length : ∀ (T : Nat) (x : Bytes), (Spec.Wenc.ivChain T x).flatten.length = 20 * T := by
  intro T
  induction T with
  | zero => intro x; simp [Spec.Wenc.ivChain]
  | succ n ih => intro x; simp [Spec.Wenc.ivChain, sha1_length, ih]; omega

theorem ofListD_append (a b : Bytes) (h : 16 ≤ a.length) : Block.ofListD (a ++ b) = Block.ofListD a := by
  simp only [Block.ofListD, List.getD_eq_getElem?_getD]
  repeat rw [List.getElem?_append_left (by omega)]

theorem ofListD_ivs (T : Nat) (hT : 1 ≤ T) (seed : Bytes) :
    Block.ofListD (Spec.Wenc.ivChain T seed).flatten = Block.ofListD ((Spec.Wenc.ivChain T seed).getD 0 []) := by
  obtain ⟨n, rfl⟩ : ∃ n, T = n + 1 := ⟨T - 1, by omega⟩
  simp only [Spec.Wenc.ivChain, List.flatten_cons, List.getD_cons_zero]
  exact ofListD_append _ _ (by rw [sha1_length]; omega)

theorem runChunks_length (T : Nat) : ∀ (cs : List (List Block)) (j : Nat) (ss : List Stream),
    (runChunks T j ss cs).flatten.length ≤ cs.flatten.length := by
  intro cs
  induction cs with
  | nil => intro j ss; simp [runChunks]
  | cons c cs ih =>
    intro j ss
    simp only [runChunks]
    cases ss[j % T]? with
    | none => simp
    | some s =>
      have := ih (j + 1) (ss.set (j % T) (s.run c).1)
      simp [run_length] at this ⊢
      omega

theorem encChunks_length (B : Nat) : ∀ (f : Nat) (d : Bytes), (encChunks B f d).flatten.length ≤ d.length / 16 + 1 := by
  intro f
  induction f with
  | zero => intro d; simp [encChunks]
  | succ f ih =>
    intro d
    by_cases hd : 16 * B ≤ d.length
    · have := ih (d.drop (16 * B))
      simp [encChunks, hd, splitBlocks_fst_length] at this ⊢
      omega
    · simp [encChunks, hd, splitBlocks_fst_length]

theorem pipeline_length (T B : Nat) (hB : 1 ≤ B) (ss : List Stream) (plain : Bytes) (fout : WFile) (happ : fout.pos = fout.data.length) :
    (seqPipeline T B true ss (RFile.open plain) fout).2.2.data.length ≤ fout.data.length + 16 * (plain.length / 16 + 1) := by
  unfold seqPipeline
  rw [seqLoop_enc T B hB _ _ _ _ _ happ, List.length_append, joinBlocks_length]
  have h1 := runChunks_length T (encChunks B ((RFile.open plain).remaining / (16 * B) + 2) ((RFile.open plain).data.drop (RFile.open plain).pos)) 0 ss
  have h2 := encChunks_length B ((RFile.open plain).remaining / (16 * B) + 2) ((RFile.open plain).data.drop (RFile.open plain).pos)
  have hd : (RFile.open plain).data.drop (RFile.open plain).pos = plain := by simp [RFile.open]
  rw [hd] at h1 h2
  rw [hd]
  omega

theorem write_tag (pre rest tag : Bytes) (hp : pre.length = 10) (ht : tag.length ≤ 38) (pos : Nat) (log : List (Nat × Bytes)) :
    ((({ data := pre ++ List.replicate 38 0 ++ rest, pos := pos, log := log } : WFile).fseek 10).fwrite tag).data
      = pre ++ tag ++ List.replicate (38 - tag.length) 0 ++ rest := by
  unfold WFile.fwrite WFile.fseek
  split
  · rename_i he
    have : tag = [] := by simpa using he
    subst this; simp
  · have hl : ¬ (pre ++ List.replicate 38 0 ++ rest).length < 10 := by simp; omega
    simp only [writeAt, hl, if_false]
    rw [List.append_assoc pre, List.take_left' hp, ← hp, ← List.drop_drop, List.drop_left' rfl,
      List.drop_append_of_le_length (by simp; omega), List.drop_replicate]
    simp


/-- C02 -/
theorem encrypt_eq_spec (cfg : Cfg) (hT : 1 ≤ cfg.T) (hB : 1 ≤ cfg.B) (hH : 1 ≤ cfg.H) (ctype htype : Nat) (hc : ctype ≤ 4) (hh : htype ≤ 2)
    (key : Block) (seed plain : Bytes) (hs : seed.length < 2 ^ 50) (hp : plain.length < 2 ^ 50) (hTT : cfg.T < 2 ^ 40) :
    ∃ f, encrypt cfg ctype htype key seed plain = .ok f ∧ f.data = Spec.Wenc.wenc cfg.T cfg.B ctype htype key seed plain := by
  have hiv : getIV cfg.T seed = (Spec.Wenc.ivChain cfg.T seed).flatten := getIV_eq cfg.T hT seed (by omega)
  have hivl : (getIV cfg.T seed).length = 20 * cfg.T := by rw [hiv, ivChain_flatten_length]
  obtain ⟨ss, hss⟩ := prepareAES_ok cfg.T ctype hc key (getIV cfg.T seed)
  obtain ⟨hd1, hp1⟩ := writeHeader_data (BitVec.ofNat 8 ctype) (BitVec.ofNat 8 htype) cfg.T (getIV cfg.T seed) hivl
  have hbody := body_eq cfg.T cfg.B hT hB ctype hc key (getIV cfg.T seed) plain ss hss _ hp1
  have hlen := pipeline_length cfg.T cfg.B hB ss plain _ hp1
  unfold encrypt
  simp only [hss, bind, Except.bind]
  generalize (seqPipeline cfg.T cfg.B true ss (RFile.open plain)
    (writeHeader WFile.empty (BitVec.ofNat 8 ctype) (BitVec.ofNat 8 htype) cfg.T (getIV cfg.T seed))) = res at hbody hlen ⊢
  obtain ⟨r1, r2, out⟩ := res
  simp only [] at hbody hlen ⊢
  rw [hd1] at hbody hlen
  have hml : Gen.magicBytes.length = 8 := rfl
  obtain ⟨odata, opos, olog⟩ := out
  simp only [] at hbody hlen
  subst hbody
  simp only [List.length_append, List.length_replicate, hml, hivl, List.length_cons, List.length_nil] at hlen
  unfold writeFileHmac
  obtain ⟨fp', hg, _⟩ := HmacCorrect.getres_eq cfg.H hH htype hh key.toList (by simp)
    ((RFile.open (Gen.magicBytes ++ [BitVec.ofNat 8 ctype, BitVec.ofNat 8 htype] ++ List.replicate 38 0 ++ getIV cfg.T seed ++
          Spec.Wenc.body cfg.T cfg.B ctype key (Block.ofListD (getIV cfg.T seed)) plain)).fseek Gen.c_FILE_IV_MARK)
    (by simp only [RFile.open, RFile.fseek, Gen.c_FILE_IV_MARK, List.length_append, List.length_replicate, hml, hivl, List.length_cons, List.length_nil]; omega)
    (by simp only [RFile.open, RFile.fseek, List.length_append, List.length_replicate, hml, hivl, List.length_cons, List.length_nil]; omega)
  simp only [hg]
  refine ⟨_, rfl, ?_⟩
  have hdrop : ((RFile.open (Gen.magicBytes ++ [BitVec.ofNat 8 ctype, BitVec.ofNat 8 htype] ++ List.replicate 38 0 ++ getIV cfg.T seed ++
          Spec.Wenc.body cfg.T cfg.B ctype key (Block.ofListD (getIV cfg.T seed)) plain)).fseek Gen.c_FILE_IV_MARK).data.drop
        ((RFile.open (Gen.magicBytes ++ [BitVec.ofNat 8 ctype, BitVec.ofNat 8 htype] ++ List.replicate 38 0 ++ getIV cfg.T seed ++
          Spec.Wenc.body cfg.T cfg.B ctype key (Block.ofListD (getIV cfg.T seed)) plain)).fseek Gen.c_FILE_IV_MARK).pos
      = getIV cfg.T seed ++ Spec.Wenc.body cfg.T cfg.B ctype key (Block.ofListD (getIV cfg.T seed)) plain := by
    simp only [RFile.open, RFile.fseek, Gen.c_FILE_IV_MARK]
    rw [List.append_assoc, List.drop_left' (by simp [hml])]
  rw [hdrop]
  have htl := HmacCorrect.hashOf_length htype hh
  have key_tag_len : (Spec.HMAC.hmac (Spec.HMAC.hashOf htype) key.toList
      (getIV cfg.T seed ++ Spec.Wenc.body cfg.T cfg.B ctype key (Block.ofListD (getIV cfg.T seed)) plain)).length ≤ 38 := by
    unfold Spec.HMAC.hmac
    exact Nat.le_trans (htl _) (by omega)
  simp only [Gen.c_FILE_HMAC_MARK]
  rw [List.append_assoc _ (getIV cfg.T seed), write_tag _ _ _ (by simp [hml]) key_tag_len]
  unfold Spec.Wenc.wenc
  simp only [hiv, ofListD_ivs cfg.T hT seed, magic_eq]

end Wencry.Proofs.EncSpec

section AxiomCheck
open Wencry.Proofs.EncSpec
#print axioms magic_eq
#print axioms getIV_eq
#print axioms body_eq
#print axioms encrypt_eq_spec
end AxiomCheck
