/-
C03 for the pipeline transition system of Model/Pipe.lean: under every schedule the bytes written are those of the
sequential pipeline, every block of chunk c is transformed exactly once, by worker c mod T, in file order, a chunk is
exported only when all of its blocks are transformed, and the ghost violation flag (an access outside the ownership
protocol) is never set — for every T ≥ 1, every transformer, every well-formed finite input, every reachable state.

The data/bookkeeping invariant `DI` (with the ghost visit counter quantified existentially) and its preservation are in
`Wencry/Proofs/PipeDataInv.lean`; this file derives the stated properties from it.
-/
import Wencry.Model.Pipe
import Wencry.Proofs.PipeCtl
import Wencry.Proofs.PipeProgress
import Wencry.Proofs.PipeDataInv
namespace Wencry.Proofs.PipeData
open Wencry Wencry.Model.Pipe Wencry.Model.IoBuffer Wencry.Proofs.PipeCtl Wencry.Proofs.PipeProgress
open Wencry.Proofs.PipeDataInv

variable {σ : Type}

/-- the transformations worker i performs in a complete run: its chunks in increasing order, each block once, in order -/
def workerLog (inp : Input) (T n i : Nat) : List (Nat × Nat × Nat) :=
  ((List.range n).filter (fun c => c % T = i)).flatMap fun c => (List.range (inp c).1.length).map fun k => (i, c, k)

theorem workerLog_eq_wLog (inp : Input) (T n i : Nat) : workerLog inp T n i = wLog inp T n i := rfl

/-- worker steps never set the flag (ownership) -/
theorem viol_stepW (f : σ → Block → σ × Block) (T : Nat) (s s' : St σ) (i : Nat) (hi : i < T) (hp : PInv T s)
    (hv : s.viol = false) (hs : stepW f s i = some s') : s'.viol = false := by
  by_cases hproc : s.wpc i = .process
  · obtain ⟨h1, h2⟩ := ownership T s hp i hi (Or.inl hproc)
    simp only [stepW, hproc, Option.some.injEq] at hs
    subst hs
    simp [hv, h1, h2]
  · unfold stepW at hs
    split at hs
    all_goals (try (simp only [Option.some.injEq] at hs))
    all_goals (try (split at hs))
    all_goals (try (simp only [Option.some.injEq, reduceCtorEq] at hs))
    all_goals (try subst hs)
    all_goals (first | exact hv | (rename_i hpc; exact absurd hpc hproc))

/-- I/O-thread steps never set the flag (the worker is parked while the I/O thread is in its region) -/
theorem viol_stepIo (inp : Input) (ispad : Bool) (T : Nat) (s s' : St σ) (hp : PInv T s)
    (hv : s.viol = false) (hs : stepIo inp ispad T s = some s') : s'.viol = false := by
  have key : ioIn s s.turn → wTouches s s.turn = False := by
    intro hio
    have ht : s.turn < T := hp.1 (by rcases hio.2 with h | h | h | h | h <;> simp [h])
    have := (io_exclusive T s hp s.turn ht hio).2
    simp only [wTouches]
    rcases this with h | h | h | h <;> simp [h]
  unfold stepIo at hs
  split at hs
  all_goals (try (simp only [Option.some.injEq] at hs))
  all_goals (try (split at hs))
  all_goals (try (simp only [Option.some.injEq, reduceCtorEq] at hs))
  all_goals (try subst hs)
  all_goals (rename_i hpc)
  all_goals (first
    | exact hv
    | (have := key ⟨rfl, by simp [hpc]⟩; simp [hv, this]))

/-- the ownership-violation flag is never set -/
theorem no_violation (f : σ → Block → σ × Block) (inp : Input) (hwf : inp.WF) (ispad : Bool) (T : Nat) (hT : 0 < T) (ws0 : Nat → σ)
    (s : St σ) (h : Reach f inp ispad T ws0 s) : s.viol = false := by
  induction h with
  | init => rfl
  | step s s' tid hr hs ih =>
    have hp := reach_inv f inp hwf ispad T hT ws0 s hr
    cases tid with
    | none => exact viol_stepIo inp ispad T s s' hp ih hs
    | some i =>
      simp only [step] at hs
      split at hs
      · rename_i hi; exact viol_stepW f T s s' i hi hp ih hs
      · simp at hs

/-- a chunk is exported only when every block of it has been transformed: at the export step the buffer holds exactly the
    reference output of the chunk it carries, and that chunk is the next one in file order -/
theorem export_complete (f : σ → Block → σ × Block) (inp : Input) (hwf : inp.WF) (ispad : Bool) (P T : Nat) (hT : 0 < T)
    (hP : FirstNonFull inp P) (ws0 : Nat → σ) (s : St σ) (h : Reach f inp ispad T ws0 s) (he : s.iopc = .exporting) :
    s.cid s.turn = s.nexp ∧ s.nexp < nChunks inp P ∧ (s.buf s.turn).now = (s.buf s.turn).total ∧
    s.dat s.turn = refOut f inp T ws0 s.nexp ∧ s.fin s.turn = decide ((inp s.nexp).2 = .final) := by
  obtain ⟨V, hV⟩ := reach_DI f inp T ws0 hwf ispad P hT hP s h
  obtain ⟨hp, -⟩ := reach_both f inp hwf ispad P T hT hP ws0 s h
  obtain ⟨a1, a2, a3, a4, a5, a6, a7, a8⟩ := DI_at_export f inp T ws0 _ ispad P V s hT he hp hV
  rw [a3]
  exact ⟨a4, a2, a5, a7, a8⟩

/-- at every moment the output is a prefix of the sequential output: the chunks exported so far, in order -/
theorem out_prefix (f : σ → Block → σ × Block) (inp : Input) (hwf : inp.WF) (ispad : Bool) (P T : Nat) (hT : 0 < T)
    (hP : FirstNonFull inp P) (ws0 : Nat → σ) (s : St σ) (h : Reach f inp ispad T ws0 s) :
    s.nexp ≤ nChunks inp P ∧ s.out = seqOut f inp ispad T ws0 s.nexp := by
  obtain ⟨V, hV⟩ := reach_DI f inp T ws0 hwf ispad P hT hP s h
  exact ⟨by rw [hV.2.2.2.1]; exact Nat.min_le_left _ _, hV.2.2.2.2.1⟩

/-- C03: in every terminal state the output is the sequential pipeline's and every block was transformed exactly once by
    the worker that owns its chunk, in file order -/
theorem final_output (f : σ → Block → σ × Block) (inp : Input) (hwf : inp.WF) (ispad : Bool) (P T : Nat) (hT : 0 < T)
    (hP : FirstNonFull inp P) (ws0 : Nat → σ) (s : St σ) (h : Reach f inp ispad T ws0 s) (hd : allDone T s) :
    s.out = seqOut f inp ispad T ws0 (nChunks inp P) ∧
    ∀ i, i < T → s.log.filter (fun e => e.1 = i) = workerLog inp T (nChunks inp P) i := by
  obtain ⟨V, d1, d2, d3, d4, d5, d6⟩ := reach_DI f inp T ws0 hwf ispad P hT hP s h
  obtain ⟨hp, -⟩ := reach_both f inp hwf ispad P T hT hP ws0 s h
  have hpc := hd.1
  -- every buffer is INV
  have hall := liveCount_zero_all T s.buf (hp.2.1 ▸ hp.2.2.1 hpc)
  simp only [hpc, wOf, BufI, reduceCtorEq, false_and, if_false] at d6
  -- so every buffer's description is the terminal one
  have hend : ∀ n, V + 1 ≤ n → n < V + 1 + T →
      T ≤ n ∧ nChunks inp P ≤ n - T ∧ lgOf s (n % T) = wLog inp T (nChunks inp P) (n % T) := by
    intro n h1 h2
    have hn := d6 n h1 h2
    have hinv := hall (n % T) (Nat.mod_lt _ hT)
    have hnT : T ≤ n := by
      apply Classical.byContradiction; intro hc
      have := (hn.1 (by omega)).1; simp [hinv] at this
    have hm : nChunks inp P ≤ n - T := by
      apply Classical.byContradiction; intro hc
      have := (hn.2.1 hnT (by omega)).1; simp [hinv] at this
    exact ⟨hnT, hm, (hn.2.2 hnT hm).2⟩
  constructor
  · obtain ⟨e1, e2, -⟩ := hend (V + 1) (by omega) (by omega)
    have : s.nexp = nChunks inp P := by
      rw [d4, hpc]; simp only [eOf]; omega
    rw [d5, this]
  · intro i hi
    obtain ⟨n, n1, n2, n3⟩ := win_exists T i hi (V + 1)
    have := (hend n n1 n2).2.2
    rw [n3] at this
    exact this

end Wencry.Proofs.PipeData
