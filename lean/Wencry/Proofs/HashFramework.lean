/-
C07, layers (ii) and (iii): the `Hashmaster` block loop with its final-block routine, fed from memory or through the
refilling file buffer `filebuffer64`, folds the algorithm's block function over the 64-byte chunks of the padded message:
for every algorithm, message, refill size H ≥ 1, optional 64-byte prefix block and file position.

NOTE (deviation from the task statement, agreed with the coordinator): `stringLoop_eq`, `getStringHash_eq` and
`getFileHash_eq` carry the additional hypothesis `hl : ∀ n, (A.lenBytes n).length = 8` (inserted right after `A`).
Without it the statements are false; see `badAlg` and the checked `example` below. `lenBE_length` / `lenLE_length`
discharge the hypothesis for the three algorithms of the model.
-/
import Wencry.Model.Hash
import Wencry.Model.HashBuffer
import Wencry.Spec.Hash
namespace Wencry.Proofs.HashFramework
open Wencry Wencry.Model.Hash Wencry.Model.HashBuffer Wencry.Model.Stdio
open Wencry.Spec.Hash (chunks64 chunksN)

/-- the padded message with the model's own length encoder -/
def padded {σ} (A : Alg σ) (m : Bytes) : Bytes :=
  m ++ [0x80] ++ List.replicate ((119 - m.length % 64) % 64) 0 ++ A.lenBytes (BitVec.ofNat 64 (8 * m.length))

theorem padded_length {σ} (A : Alg σ) (m : Bytes) (hl : ∀ n, (A.lenBytes n).length = 8) : (padded A m).length % 64 = 0 := by
  simp only [padded, List.length_append, List.length_replicate, hl, List.length_cons, List.length_nil]
  omega

theorem chunks64_of_lt (l : Bytes) (h : l.length < 64) : chunks64 l = [] := by
  have : l.length / 64 = 0 := by omega
  simp [chunks64, this, chunksN]

theorem chunks64_cons (a b : Bytes) (h : a.length = 64) : chunks64 (a ++ b) = a :: chunks64 b := by
  have e : (a ++ b).length / 64 = b.length / 64 + 1 := by
    simp only [List.length_append, h]; omega
  have h' : 64 = a.length := h.symm
  simp only [chunks64, e, chunksN]
  rw [List.take_left' h, List.drop_left' h]

theorem chunks64_single (a : Bytes) (h : a.length = 64) : chunks64 a = [a] := by
  have := chunks64_cons a [] h
  simpa [chunks64_of_lt [] (by simp)] using this

/-- the rest of the padded message when `c` bytes have been consumed and `r` is still to come -/
def tailPad {σ} (A : Alg σ) (c : Nat) (r : Bytes) : Bytes :=
  r ++ [0x80] ++ List.replicate ((119 - r.length % 64) % 64) 0 ++ A.lenBytes (BitVec.ofNat 64 (8 * (c + r.length)))

theorem tailPad_zero {σ} (A : Alg σ) (m : Bytes) : tailPad A 0 m = padded A m := by
  simp [tailPad, padded]

theorem tailPad_cons {σ} (A : Alg σ) (c : Nat) (blk r : Bytes) (h : blk.length = 64) :
    tailPad A c (blk ++ r) = blk ++ tailPad A (c + 64) r := by
  have e1 : (blk ++ r).length % 64 = r.length % 64 := by simp only [List.length_append, h]; omega
  have e2 : c + (blk ++ r).length = c + 64 + r.length := by simp only [List.length_append, h]; omega
  simp only [tailPad, e1, e2, List.append_assoc]

theorem total_block (t : W64) (c : Nat) (h : t = BitVec.ofNat 64 (8 * c)) :
    t + ((64 : W64) <<< 3) = BitVec.ofNat 64 (8 * (c + 64)) := by
  subst h
  apply BitVec.eq_of_toNat_eq
  simp [BitVec.toNat_add]
  omega

theorem total_final (t : W64) (c n : Nat) (h : t = BitVec.ofNat 64 (8 * c)) :
    t + ((BitVec.ofNat 64 n) <<< 3) = BitVec.ofNat 64 (8 * (c + n)) := by
  subst h
  apply BitVec.eq_of_toNat_eq
  simp [BitVec.toNat_add, BitVec.toNat_shiftLeft, Nat.shiftLeft_eq]
  omega

theorem lenBE_length (n : W64) : (Model.Hash.lenBE n).length = 8 := by simp [lenBE]
theorem lenLE_length (n : W64) : (Model.Hash.lenLE n).length = 8 := by simp [lenLE]

/-- an "algorithm" whose length encoder produces 9 bytes: the model then feeds a 65-byte final block to `block`,
    whereas `chunks64` cuts the padded message (65 bytes) down to one 64-byte chunk -/
def badAlg : Alg Nat :=
  { init := 0, block := fun s b => s + b.length, lenBytes := fun _ => List.replicate 9 0, res := fun _ => [] }

/-- `stringLoop_eq` without `hl` fails for `badAlg` and the empty message: 65 ≠ 64 -/
example : (stringLoop badAlg (reset badAlg) []).h = 65
    ∧ (Spec.Hash.chunks64 (padded badAlg [])).foldl badAlg.block badAlg.init = 64 := by
  constructor
  · rw [stringLoop]; decide
  · decide

theorem final_eq {σ} (A : Alg σ) (hl : ∀ n, (A.lenBytes n).length = 8) (s : HM σ) (c : Nat) (r : Bytes)
    (hr : r.length < 64) (ht : s.total = BitVec.ofNat 64 (8 * c)) :
    (getHashFinal A s r r.length).h = (chunks64 (tailPad A c r)).foldl A.block s.h := by
  have htot := total_final s.total c r.length ht
  have hmod : r.length % 64 = r.length := Nat.mod_eq_of_lt hr
  simp only [getHashFinal, getHashBlock, htot, List.take_length, tailPad, hmod]
  by_cases h56 : r.length ≥ 56
  · have e : (119 - r.length) % 64 = (63 - r.length) + 56 := by omega
    rw [if_pos h56, e, ← List.replicate_append_replicate]
    have l1 : (r ++ [0x80] ++ List.replicate (63 - r.length) (0 : Byte)).length = 64 := by
      simp only [List.length_append, List.length_replicate, List.length_cons, List.length_nil]; omega
    have l2 : (List.replicate 56 (0 : Byte) ++ A.lenBytes (BitVec.ofNat 64 (8 * (c + r.length)))).length = 64 := by
      simp only [List.length_append, List.length_replicate, hl]
    have : r ++ [0x80] ++ (List.replicate (63 - r.length) (0 : Byte) ++ List.replicate 56 0) ++ A.lenBytes (BitVec.ofNat 64 (8 * (c + r.length)))
        = (r ++ [0x80] ++ List.replicate (63 - r.length) (0 : Byte)) ++ (List.replicate 56 (0 : Byte) ++ A.lenBytes (BitVec.ofNat 64 (8 * (c + r.length)))) := by
      simp only [List.append_assoc]
    rw [this, chunks64_cons _ _ l1, chunks64_single _ l2]
    rfl
  · have e : (119 - r.length) % 64 = 55 - r.length := by omega
    rw [if_neg h56, e]
    have e2 : 63 - r.length = (55 - r.length) + 8 := by omega
    have l0 : (r ++ [0x80] ++ List.replicate (55 - r.length) (0 : Byte)).length = 56 := by
      simp only [List.length_append, List.length_replicate, List.length_cons, List.length_nil]; omega
    have t : (r ++ [0x80] ++ List.replicate (63 - r.length) (0 : Byte)).take 56 = r ++ [0x80] ++ List.replicate (55 - r.length) (0 : Byte) := by
      rw [e2, ← List.replicate_append_replicate, ← List.append_assoc]
      exact List.take_left' l0
    have l1 : (r ++ [0x80] ++ List.replicate (55 - r.length) (0 : Byte) ++ A.lenBytes (BitVec.ofNat 64 (8 * (c + r.length)))).length = 64 := by
      rw [List.length_append, l0, hl]
    rw [t, chunks64_single _ l1]
    rfl

theorem stringLoop_gen {σ} (A : Alg σ) (hl : ∀ n, (A.lenBytes n).length = 8) (s : HM σ) (str : Bytes) :
    ∀ c, s.total = BitVec.ofNat 64 (8 * c) →
    (stringLoop A s str).h = (chunks64 (tailPad A c str)).foldl A.block s.h := by
  fun_induction stringLoop A s str with
  | case1 s str h ih =>
    intro c ht
    have hlen : (str.take 64).length = 64 := by simp [List.length_take]; omega
    have := ih (c + 64) (total_block s.total c ht)
    rw [this]
    conv => rhs; rw [← List.take_append_drop 64 str, tailPad_cons A c _ _ hlen, chunks64_cons _ _ hlen]
    rfl
  | case2 s str h =>
    intro c ht
    exact final_eq A hl s c str (by omega) ht

set_option linter.unusedVariables false in
/-- memory entry point -/
theorem stringLoop_eq {σ} (A : Alg σ) (hl : ∀ n, (A.lenBytes n).length = 8) (m : Bytes) (hm : m.length < 2 ^ 61) :
    (stringLoop A (reset A) m).h = (Spec.Hash.chunks64 (padded A m)).foldl A.block A.init := by
  rw [stringLoop_gen A hl (reset A) m 0 (by simp [reset]), tailPad_zero]
  rfl

set_option linter.unusedVariables false in
theorem getStringHash_eq {σ} (A : Alg σ) (hl : ∀ n, (A.lenBytes n).length = 8) (m : Bytes) (hm : m.length < 2 ^ 61) :
    getStringHash A m = A.res ((Spec.Hash.chunks64 (padded A m)).foldl A.block A.init) := by
  rw [getStringHash, stringLoop_eq A hl m hm]

/-! ### the refilling file buffer -/

/-- the bytes still to be handed out by the buffer -/
def Rem (fb : FB) : Bytes := fb.extra.getD [] ++ fb.b.drop (fb.now * 64) ++ fb.fp.data.drop fb.fp.pos

structure Inv (fb : FB) : Prop where
  hH : 1 ≤ fb.H
  htotal : fb.total = fb.b.length / 64
  htail : fb.tail = fb.b.length % 64
  hb : fb.b.length ≤ fb.H * 64
  hnow : fb.now ≤ fb.total
  hex : fb.b.length < fb.H * 64 → fb.fp.data.length ≤ fb.fp.pos
  hextra : ∀ e, fb.extra = some e → e.length = 64

theorem fread_spec (f : RFile) (n : Nat) :
    (f.fread n).2 = (f.data.drop f.pos).take n ∧ (f.fread n).1.data = f.data ∧
    (f.fread n).1.pos = f.pos + ((f.data.drop f.pos).take n).length := ⟨rfl, rfl, rfl⟩

/-- what `fread` leaves plus what it returned is what was there -/
theorem fread_rem (f : RFile) (n : Nat) :
    (f.fread n).2 ++ (f.fread n).1.data.drop (f.fread n).1.pos = f.data.drop f.pos := by
  simp only [RFile.fread]
  rw [← List.drop_drop, List.length_take]
  by_cases h : n ≤ (f.data.drop f.pos).length
  · rw [Nat.min_eq_left h, List.take_append_drop]
  · have h' : (f.data.drop f.pos).length ≤ n := by omega
    rw [Nat.min_eq_right h', List.take_of_length_le h', List.drop_length, List.append_nil]

theorem fread_short (f : RFile) (n : Nat) (h : (f.fread n).2.length < n) :
    (f.fread n).1.data.length ≤ (f.fread n).1.pos := by
  simp only [RFile.fread, List.length_take, List.length_drop] at *
  omega

theorem inv_new (H : Nat) (hH : 1 ≤ H) (fp : RFile) (pre : Option Bytes) (hpre : ∀ p, pre = some p → p.length = 64) :
    Inv (FB.new H fp pre) ∧ Rem (FB.new H fp pre) = pre.getD [] ++ fp.data.drop fp.pos ∧ (FB.new H fp pre).fp.data = fp.data := by
  refine ⟨⟨hH, rfl, rfl, ?_, Nat.zero_le _, ?_, ?_⟩, ?_, rfl⟩
  · simp only [FB.new, RFile.fread, List.length_take]; omega
  · exact fread_short fp (H * 64)
  · intro e he
    cases pre with
    | none => simp [FB.new] at he
    | some p =>
      simp only [FB.new, Option.map_some, Option.some.injEq] at he
      subst he
      simp [hpre p rfl]
  · have : (FB.new H fp pre).extra.getD [] = pre.getD [] := by
      cases pre with
      | none => rfl
      | some p => simp [FB.new, List.take_of_length_le (Nat.le_of_eq (hpre p rfl))]
    simp only [Rem, this, List.append_assoc]
    congr 1
    exact fread_rem fp (H * 64)

theorem read_extra (fb : FB) (e : Bytes) (h : fb.extra = some e) : fb.read = ({ fb with extra := none }, e) := by
  simp [FB.read, h]

theorem read_refill (fb : FB) (h : fb.extra = none) (hn : fb.now = fb.H) :
    fb.read =
      let r := fb.fp.fread (fb.H * 64)
      ({ fb with b := r.2, total := r.2.length / 64, tail := if 0 = r.2.length / 64 then 0 else r.2.length % 64, now := 1, fp := r.1 },
        r.2.take (if 0 ≥ r.2.length / 64 then r.2.length % 64 else 64)) := by
  simp [FB.read, h, hn]

theorem read_plain (fb : FB) (h : fb.extra = none) (hn : fb.now ≠ fb.H) :
    fb.read =
      ({ fb with tail := if fb.now = fb.total then 0 else fb.tail, now := fb.now + 1 },
        (fb.b.drop (fb.now * 64)).take (if fb.now ≥ fb.total then fb.tail else 64)) := by
  simp [FB.read, h, hn]

theorem read_spec (fb : FB) (hI : Inv fb) :
    fb.read.1.fp.data = fb.fp.data ∧
    ((fb.read.2.length = 64 ∧ Rem fb = fb.read.2 ++ Rem fb.read.1 ∧ Inv fb.read.1) ∨
     (fb.read.2.length < 64 ∧ Rem fb = fb.read.2)) := by
  obtain ⟨hH, htotal, htail, hb, hnow, hex, hextra⟩ := hI
  cases hx : fb.extra with
  | some e =>
    rw [read_extra fb e hx]
    refine ⟨rfl, Or.inl ⟨hextra e hx, ?_, ⟨hH, htotal, htail, hb, hnow, hex, ?_⟩⟩⟩
    · simp [Rem, hx]
    · intro e' he'; simp at he'
  | none =>
    by_cases hn : fb.now = fb.H
    · rw [read_refill fb hx hn]
      have hbl : fb.b.length = fb.H * 64 := by omega
      have hd : fb.b.drop (fb.now * 64) = [] := List.drop_eq_nil_of_le (by omega)
      have hrem := fread_rem fb.fp (fb.H * 64)
      have hshort := fread_short fb.fp (fb.H * 64)
      have hlen : (fb.fp.fread (fb.H * 64)).2.length ≤ fb.H * 64 := by
        simp only [RFile.fread, List.length_take]; omega
      refine ⟨rfl, ?_⟩
      generalize fb.fp.fread (fb.H * 64) = r at *
      obtain ⟨fp', got⟩ := r
      simp only at hrem hshort hlen ⊢
      by_cases h0 : got.length / 64 = 0
      · right
        have hlt : got.length < 64 := by omega
        have hm : got.length % 64 = got.length := Nat.mod_eq_of_lt hlt
        simp only [h0, ge_iff_le, Nat.le_refl, if_true, hm, List.take_length]
        refine ⟨hlt, ?_⟩
        have hnil : fp'.data.drop fp'.pos = [] := List.drop_eq_nil_of_le (hshort (by omega))
        simp only [Rem, hx, hd, Option.getD_none, List.nil_append, ← hrem, hnil, List.append_nil]
      · left
        have hge : 64 ≤ got.length := by omega
        have hif : ¬ (0 ≥ got.length / 64) := by omega
        have hif2 : ¬ (0 = got.length / 64) := by omega
        simp only [hif, hif2, if_false]
        refine ⟨by simp only [List.length_take]; omega, ?_, ⟨hH, rfl, rfl, hlen, by simp only; omega, hshort, ?_⟩⟩
        · simp only [Rem, hx, hd, Option.getD_none, List.nil_append, ← hrem, Nat.one_mul]
          rw [← List.append_assoc, List.take_append_drop]
        · intro e he; simp only [hx] at he; cases he
    · rw [read_plain fb hx hn]
      refine ⟨rfl, ?_⟩
      by_cases hlt : fb.now < fb.total
      · left
        have hif : ¬ (fb.now ≥ fb.total) := by omega
        have hif2 : ¬ (fb.now = fb.total) := by omega
        simp only [hif, hif2, if_false]
        refine ⟨by simp only [List.length_take, List.length_drop]; omega, ?_, ⟨hH, htotal, htail, hb, by simp only; omega, hex, ?_⟩⟩
        · simp only [Rem, hx, Option.getD_none, List.nil_append]
          rw [← List.append_assoc, Nat.add_mul, Nat.one_mul, ← List.drop_drop, List.take_append_drop]
        · intro e he; simp only [hx] at he; cases he
      · right
        have heq : fb.now = fb.total := by omega
        have hif : fb.now ≥ fb.total := by omega
        simp only [hif, if_true]
        have hdl : (fb.b.drop (fb.now * 64)).length = fb.tail := by
          simp only [List.length_drop]; omega
        rw [← hdl, List.take_length]
        refine ⟨by omega, ?_⟩
        have hnil : fb.fp.data.drop fb.fp.pos = [] := List.drop_eq_nil_of_le (hex (by omega))
        simp only [Rem, hx, Option.getD_none, List.nil_append, hnil, List.append_nil]

theorem fileLoop_gen {σ} (A : Alg σ) (hl : ∀ n, (A.lenBytes n).length = 8) :
    ∀ (fuel : Nat) (s : HM σ) (fb : FB) (c : Nat), Inv fb → s.total = BitVec.ofNat 64 (8 * c) →
      (Rem fb).length / 64 + 1 ≤ fuel →
      ∃ s' fb', fileLoop A reader fuel s fb = some (s', fb') ∧
        s'.h = (chunks64 (tailPad A c (Rem fb))).foldl A.block s.h ∧ fb'.fp.data = fb.fp.data := by
  intro fuel
  induction fuel with
  | zero => intro s fb c _ _ hf; omega
  | succ fuel ih =>
    intro s fb c hI ht hf
    obtain ⟨hdata, hcase⟩ := read_spec fb hI
    have hread : reader.read fb = fb.read := rfl
    rw [fileLoop, hread]
    generalize fb.read = r at hdata hcase
    obtain ⟨fb1, out⟩ := r
    simp only at hdata hcase ⊢
    rcases hcase with ⟨h64, hrem, hI1⟩ | ⟨hlt, hrem⟩
    · rw [if_neg (by simp [h64])]
      have hf1 : (Rem fb1).length / 64 + 1 ≤ fuel := by
        have : (Rem fb).length = 64 + (Rem fb1).length := by rw [hrem, List.length_append, h64]
        omega
      obtain ⟨s', fb', h1, h2, h3⟩ := ih (getHashBlock A s out) fb1 (c + 64) hI1 (total_block s.total c ht) hf1
      refine ⟨s', fb', h1, ?_, h3.trans hdata⟩
      rw [h2, hrem, tailPad_cons A c _ _ h64, chunks64_cons _ _ h64]
      rfl
    · rw [if_pos (by omega)]
      refine ⟨_, _, rfl, ?_, hdata⟩
      rw [hrem]
      exact final_eq A hl s c out hlt ht

set_option linter.unusedVariables false in
/-- file entry point: the bytes hashed are the optional prefix block followed by the file from its current position to
    the end; the loop never runs out of the fuel the caller computes; afterwards the stream has been read to its end -/
theorem getFileHash_eq {σ} (A : Alg σ) (hl : ∀ n, (A.lenBytes n).length = 8) (H : Nat) (hH : 1 ≤ H) (fp : RFile) (hpos : fp.pos ≤ fp.data.length)
    (pre : Option Bytes) (hpre : ∀ p, pre = some p → p.length = 64)
    (hm : (pre.getD [] ++ fp.data.drop fp.pos).length < 2 ^ 61) :
    ∃ fb, getFileHash A reader (fuelFor H fp) (FB.new H fp pre)
            = some (A.res ((Spec.Hash.chunks64 (padded A (pre.getD [] ++ fp.data.drop fp.pos))).foldl A.block A.init), fb)
          ∧ fb.fp.data = fp.data := by
  obtain ⟨hI, hrem, hdata⟩ := inv_new H hH fp pre hpre
  have hfuel : (Rem (FB.new H fp pre)).length / 64 + 1 ≤ fuelFor H fp := by
    have hp : (pre.getD []).length ≤ 64 := by
      cases pre with
      | none => simp
      | some p => simp [hpre p rfl]
    rw [hrem, List.length_append, List.length_drop]
    simp only [fuelFor, RFile.remaining]
    generalize (fp.data.length - fp.pos) / (H * 64) = g
    omega
  obtain ⟨s', fb', h1, h2, h3⟩ := fileLoop_gen A hl (fuelFor H fp) (reset A) (FB.new H fp pre) 0 hI (by simp [reset]) hfuel
  refine ⟨fb', ?_, h3.trans hdata⟩
  simp only [getFileHash, h1, Option.map_some, h2, hrem, tailPad_zero]
  rfl

end Wencry.Proofs.HashFramework
