/-
The argv-level command line (Model/Getopt.lean) reduces to the token-level one (Model/Cli.lean), and the fuel of the option
loop is never exhausted.
-/
import Wencry.Model.Getopt
import Wencry.Proofs.CliCorrect
namespace Wencry.Proofs.Getopt
open Wencry Wencry.Model.Cli Wencry.Model.Getopt

/-- the tail of `Cli.getVOpt` is `finish` -/
theorem getVOpt_eq_finish (toks : List Tok) (d : Bool) : getVOpt toks d = (parseAll Pak.init toks >>= finish d) := by
  unfold getVOpt
  cases parseAll Pak.init toks with
  | error e => rfl
  | ok o => cases o <;> rfl

/-- one unfolding of `loop` with the result of `getoptLong` named -/
theorem loop_succ (argv : List Bytes) (fuel : Nat) (g : GState) (env : Env) (p : Pak) :
    loop argv (fuel + 1) g env p =
      if (getoptLong argv g).1 = .done then ⟨.ok (some p), (getoptLong argv g).2, env⟩
      else match parseOpt p (tokOf env (getoptLong argv g).1) with
        | .error e => ⟨.error e, (getoptLong argv g).2, env⟩
        | .ok none => ⟨.ok none, (getoptLong argv g).2, env⟩
        | .ok (some p') => loop argv fuel (getoptLong argv g).2 (envAfter env (tokOf env (getoptLong argv g).1)) p' := by
  rw [loop]
  rcases getoptLong argv g with ⟨r, g'⟩
  cases r <;> simp <;> rfl

/-- whatever the scanner state, the environment and the fuel: the option loop computes `parseAll` of SOME token sequence -/
theorem loop_exists_toks (argv : List Bytes) (fuel : Nat) (g : GState) (env : Env) (p : Pak) :
    ∃ toks, (loop argv fuel g env p).pak = parseAll p toks := by
  induction fuel generalizing g env p with
  | zero => exact ⟨[.unknown], rfl⟩
  | succ n ih =>
    rw [loop_succ]
    split
    · exact ⟨[], rfl⟩
    · generalize tokOf env (getoptLong argv g).1 = t
      cases h : parseOpt p t with
      | error e => exact ⟨[t], by simp [parseAll, h, bind, Except.bind]⟩
      | ok o =>
        cases o with
        | none => exact ⟨[t], by simp [parseAll, h, bind, Except.bind, pure, Except.pure]⟩
        | some p' =>
          obtain ⟨toks, ht⟩ := ih (getoptLong argv g).2 (envAfter env t) p'
          exact ⟨t :: toks, by simp [parseAll, h, bind, Except.bind, ht]⟩

/-- hence every argv-level outcome is the token-level outcome of some token sequence: all of `Props/C17`'s ∀-token theorems apply -/
theorem argv_outcome_is_token_outcome (reset : GState → GState) (env : Env) (g : GState) (argv : List Bytes) :
    ∃ toks d, (getVOptArgv reset env g argv).1 = getVOpt toks d := by
  obtain ⟨toks, ht⟩ := loop_exists_toks argv (fuelFor argv (reset g)) (reset g) env Pak.init
  refine ⟨toks, defaultOpens (loop argv (fuelFor argv (reset g)) (reset g) env Pak.init).env
    (loop argv (fuelFor argv (reset g)) (reset g) env Pak.init).pak, ?_⟩
  rw [getVOpt_eq_finish, ← ht]
  rfl

/-- scan measure: the characters still to be taken from the cluster in progress plus the words not yet looked at -/
def mu (argv : List Bytes) (g : GState) : Nat :=
  if g.nextchar = [] then ((argv.drop g.optind).map (·.length + 1)).sum
  else g.nextchar.length + ((argv.drop (g.optind + 1)).map (·.length + 1)).sum

/-- weight of the words from index `k` on -/
def S (argv : List Bytes) (k : Nat) : Nat := ((argv.drop k).map (·.length + 1)).sum

theorem S_succ_le (argv : List Bytes) (k : Nat) : S argv (k + 1) ≤ S argv k := by
  induction argv generalizing k with
  | nil => simp [S]
  | cons a l ih =>
    cases k with
    | zero => simp [S]
    | succ k => simpa [S] using ih k

theorem S_mono (argv : List Bytes) {k k' : Nat} (h : k ≤ k') : S argv k' ≤ S argv k := by
  induction h with
  | refl => exact Nat.le_refl _
  | step _ ih => exact Nat.le_trans (S_succ_le argv _) ih

theorem S_getElem (argv : List Bytes) (i : Nat) (w : Bytes) (h : argv[i]? = some w) :
    S argv i = w.length + 1 + S argv (i + 1) := by
  induction argv generalizing i with
  | nil => simp at h
  | cons a l ih =>
    cases i with
    | zero => simp at h; subst h; simp [S]
    | succ i => simp at h; simpa [S] using ih i h

theorem mu_nil (argv : List Bytes) (i : Nat) : mu argv ⟨i, []⟩ = S argv i := by simp [mu, S]

theorem mu_le (argv : List Bytes) (i : Nat) (r : Bytes) : mu argv ⟨i, r⟩ ≤ r.length + S argv i := by
  cases r with
  | nil => simp [mu, S]
  | cons c r => simpa [mu, S] using S_succ_le argv i

theorem mu_cons (argv : List Bytes) (i : Nat) (c : Byte) (r : Bytes) :
    mu argv ⟨i, c :: r⟩ = r.length + 1 + S argv (i + 1) := by simp [mu, S]

theorem skipNon_ge (argv : List Bytes) (i : Nat) : i ≤ skipNon argv i := Nat.le_add_right _ _

theorem shortStep_mu (argv : List Bytes) (i : Nat) (c : Byte) (rest : Bytes) :
    mu argv (shortStep argv i c rest).2 ≤ rest.length + S argv (i + 1) := by
  have h1 := S_succ_le argv (i + 1)
  have h2 := S_succ_le argv (i + 1 + 1)
  have key : mu argv ⟨if rest.isEmpty then i + 1 else i, rest⟩ ≤ rest.length + S argv (i + 1) := by
    cases rest with
    | nil => simp [mu_nil]
    | cons a r => simp [mu_cons]
  unfold shortStep
  simp only []
  split
  · exact key
  · split
    · exact key
    · exact key
    · cases rest with
      | nil =>
        simp only [List.isEmpty_nil, Bool.not_true, if_true]
        simp
        split
        · simp [mu_nil]
        · simp [mu_nil]; omega
      | cons a r =>
        simp [mu_nil]

theorem longStep_mu (argv : List Bytes) (i : Nat) (body : Bytes) :
    mu argv (longStep argv i body).2 ≤ S argv (i + 1) := by
  have h1 := S_succ_le argv (i + 1)
  unfold longStep
  simp only []
  split
  · simp [mu_nil]
  · simp [mu_nil]
  · split
    · split <;> simp [mu_nil]
    · split
      · split
        · simp [mu_nil]; exact h1
        · simp [mu_nil]
      · simp [mu_nil]

theorem getoptLong_decreases (argv : List Bytes) (g : GState) (h : (getoptLong argv g).1 ≠ .done) :
    mu argv (getoptLong argv g).2 < mu argv g := by
  rcases g with ⟨oi, nc⟩
  cases nc with
  | cons c rest =>
    have := shortStep_mu argv oi c rest
    simp only [getoptLong, mu_cons]
    omega
  | nil =>
    simp only [getoptLong] at h ⊢
    have hge := skipNon_ge argv oi
    have hm := S_mono argv hge
    rw [mu_nil]
    generalize skipNon argv oi = i at *
    split at h
    · exact absurd rfl h
    · rename_i w hw
      have hS := S_getElem argv i w hw
      split at h
      · exact absurd rfl h
      · rename_i body _
        have := longStep_mu argv i body
        simp at hS
        omega
      · rename_i c rest _ _
        have := shortStep_mu argv i c rest
        simp at hS
        omega
      · exact absurd rfl h

theorem mu_lt_fuel (argv : List Bytes) (g : GState) : mu argv g < fuelFor argv g := by
  rcases g with ⟨oi, nc⟩
  have h0 : S argv 0 = (argv.map (·.length + 1)).sum := by simp [S]
  have h1 := mu_le argv oi nc
  have h2 := S_mono argv (Nat.zero_le oi)
  simp only [fuelFor]
  omega

theorem loop_fuel_gen (argv : List Bytes) (n : Nat) : ∀ (g : GState) (env : Env) (p : Pak) (f1 f2 : Nat),
    mu argv g < n → n ≤ f1 → n ≤ f2 → loop argv f1 g env p = loop argv f2 g env p := by
  induction n with
  | zero => intro g env p f1 f2 h; omega
  | succ n ih =>
    intro g env p f1 f2 hmu h1 h2
    obtain ⟨f1, rfl⟩ : ∃ k, f1 = k + 1 := ⟨f1 - 1, by omega⟩
    obtain ⟨f2, rfl⟩ : ∃ k, f2 = k + 1 := ⟨f2 - 1, by omega⟩
    rw [loop_succ, loop_succ]
    split
    · rfl
    · rename_i hd
      have := getoptLong_decreases argv g hd
      split
      · rfl
      · rfl
      · exact ih _ _ _ _ _ (by omega) (by omega) (by omega)

/-- the fuel `fuelFor` is enough: any larger fuel gives the same result, i.e. the exhausted-fuel branch of `loop` is not taken -/
theorem loop_fuel_irrelevant (argv : List Bytes) (g : GState) (env : Env) (p : Pak) (f : Nat) (hf : fuelFor argv g ≤ f) :
    loop argv f g env p = loop argv (fuelFor argv g) g env p :=
  loop_fuel_gen argv (fuelFor argv g) g env p _ _ (mu_lt_fuel argv g) hf (Nat.le_refl _)

/-- with the repaired reset the outcome of a command line does not depend on the scanner state it is started in -/
theorem fixed_outcome_independent_of_state (env : Env) (g : GState) (argv : List Bytes) :
    (getVOptArgv resetFixed env g argv).1 = (getVOptArgv resetFixed env GState.fresh argv).1 := rfl

/-- a history of command lines in one process: each outcome is the outcome in a fresh process -/
theorem fixed_history_equals_fresh (env : Env) (g : GState) (hist : List (List Bytes)) :
    runHistory resetFixed env g hist = hist.map (fun argv => (getVOptArgv resetFixed env GState.fresh argv).1) := by
  induction hist generalizing g with
  | nil => rfl
  | cons argv rest ih =>
    simp only [runHistory, List.map_cons, ih]
    rfl

#print axioms getVOpt_eq_finish
#print axioms loop_exists_toks
#print axioms argv_outcome_is_token_outcome
#print axioms getoptLong_decreases
#print axioms mu_lt_fuel
#print axioms loop_fuel_irrelevant
#print axioms fixed_outcome_independent_of_state
#print axioms fixed_history_equals_fresh

end Wencry.Proofs.Getopt
