/-
C17: for every sequence of options the model of `get_v_opt` + `main` never faults (no NULL handle or key is passed on, the key
buffer is never overrun), an operation is only started with every handle it dereferences present, a 16-byte key and modes in
range, the exit status is 0 exactly when the requested operation succeeded (or for -V / -h), and every documented misuse
ends in a diagnostic with a non-zero status. With defaults, `-e -i F` writes `F.wenc`.
-/
import Wencry.Model.Cli
import Wencry.Proofs.Base64Correct
namespace Wencry.Proofs.Cli
open Wencry Wencry.Model.Cli

/-- the key an accepted `-k` argument decodes to -/
def keyOf (arg : Bytes) : Bytes :=
  match Model.Base64.getArgsKey arg with
  | .ok (some k) => k
  | _ => []

/-- fault-free form of `parseOpt` -/
def step (p : Pak) : Tok → Option Pak
  | .e => setMode p 'e'
  | .d => setMode p 'd'
  | .v => setMode p 'v'
  | .V => setMode p 'V'
  | .h => setMode p 'h'
  | .n => some { p with noEcho := true }
  | .i path opens =>
    if opens then some { p with fout := (path ++ dotWenc).take 127, foutFits := decide (path.length + 5 < 128), fp := some path }
    else none
  | .o path opens => if opens then some { p with out := some path } else none
  | .k arg => if Model.Base64.isValidB64 arg then some { p with key := some (keyOf arg) } else none
  | .cmode arg => if p.ctype = -1 then (if checkCtype (atoi arg) then some { p with ctype := atoi arg } else none) else none
  | .hmode arg => if p.htype = -1 then (if checkHtype (atoi arg) then some { p with htype := atoi arg } else none) else none
  | .m _ => none
  | .unknown => none

theorem keyOf_length (arg : Bytes) (h : Model.Base64.isValidB64 arg = true) :
    Model.Base64.getArgsKey arg = .ok (some (keyOf arg)) ∧ (keyOf arg).length = 16 := by
  obtain ⟨k, hk, hl⟩ := Base64.accepted_decodes_16 arg h
  simp [keyOf, hk, hl]

theorem parseOpt_eq (p : Pak) (t : Tok) : parseOpt p t = .ok (step p t) := by
  cases t with
  | i path opens => cases opens <;> rfl
  | o path opens => cases opens <;> rfl
  | k arg =>
    by_cases hv : Model.Base64.isValidB64 arg = true
    · have := (keyOf_length arg hv).1
      simp [parseOpt, step, hv, this]
    · simp [parseOpt, step, hv]
  | cmode arg => (simp only [parseOpt, step]; repeat' split) <;> rfl
  | hmode arg => (simp only [parseOpt, step]; repeat' split) <;> rfl
  | _ => rfl

def run (p : Pak) : List Tok → Option Pak
  | [] => some p
  | t :: ts => match step p t with
    | none => none
    | some p' => run p' ts

theorem parseAll_eq (p : Pak) (toks : List Tok) : parseAll p toks = .ok (run p toks) := by
  induction toks generalizing p with
  | nil => rfl
  | cons t ts ih =>
    simp only [parseAll, run, parseOpt_eq]
    cases step p t with
    | none => rfl
    | some p' => exact ih p'


/-- the dispatch of `main` on a successfully parsed option structure -/
def dispatch (p : Pak) (defaultOpens : Bool) : Outcome :=
  if p.mode = 'u' then .diag
  else if p.mode = 'e' then
    if !(p.ctype = -1) && !checkCtype p.ctype then .diag else
    if !(p.htype = -1) && !checkHtype p.htype then .diag else
    match p.fp with
    | none => .diag
    | some inp =>
      match p.out with
      | some o => .run .encrypt inp (some o) p.key (if p.ctype = -1 then 0 else p.ctype) (if p.htype = -1 then 0 else p.htype) p.noEcho
      | none =>
        if !p.foutFits then .diag
        else if !defaultOpens then .diag
        else .run .encrypt inp (some p.fout) p.key (if p.ctype = -1 then 0 else p.ctype) (if p.htype = -1 then 0 else p.htype) p.noEcho
  else if p.mode = 'd' ∨ p.mode = 'v' then
    match p.fp, p.key with
    | none, _ => .diag
    | some _, none => .diag
    | some inp, some key =>
      if p.mode = 'd' then
        match p.out with
        | none => .diag
        | some o => .run .decrypt inp (some o) (some key) p.ctype p.htype p.noEcho
      else .run .verify inp p.out (some key) p.ctype p.htype p.noEcho
  else .info

theorem getVOpt_eq (toks : List Tok) (d : Bool) :
    getVOpt toks d = .ok (match run Pak.init toks with | none => .diag | some p => dispatch p d) := by
  unfold getVOpt
  rw [parseAll_eq]
  simp only [bind, Except.bind, pure, Except.pure]
  cases run Pak.init toks with
  | none => rfl
  | some p =>
    simp only [dispatch]
    repeat' split
    all_goals first | rfl | simp_all

/-- no fault for any option vector -/
theorem getVOpt_no_fault (toks : List Tok) (d : Bool) : ∃ o, getVOpt toks d = .ok o := ⟨_, getVOpt_eq toks d⟩

/-! ### invariant -/

def PakInv (p : Pak) : Prop :=
  (p.ctype = -1 ∨ (0 ≤ p.ctype ∧ p.ctype ≤ 4)) ∧ (p.htype = -1 ∨ (0 ≤ p.htype ∧ p.htype ≤ 2)) ∧
  (∀ k, p.key = some k → k.length = 16)

theorem checkCtype_iff (n : Int) : checkCtype n = true ↔ 0 ≤ n ∧ n < 5 := by simp [checkCtype]
theorem checkHtype_iff (n : Int) : checkHtype n = true ↔ 0 ≤ n ∧ n < 3 := by simp [checkHtype]

theorem setMode_some {p p' : Pak} {c : Char} (h : setMode p c = some p') : p.mode = 'u' ∧ p' = { p with mode := c } := by
  unfold setMode at h
  split at h
  · exact ⟨‹_›, (Option.some.inj h).symm⟩
  · cases h

theorem step_inv {p p' : Pak} {t : Tok} (hi : PakInv p) (h : step p t = some p') : PakInv p' := by
  obtain ⟨h1, h2, h3⟩ := hi
  cases t with
  | e | d | v | V | h => obtain ⟨_, rfl⟩ := setMode_some h; exact ⟨h1, h2, h3⟩
  | n => cases h; exact ⟨h1, h2, h3⟩
  | i path opens => cases opens <;> cases h; exact ⟨h1, h2, h3⟩
  | o path opens => cases opens <;> cases h; exact ⟨h1, h2, h3⟩
  | k arg =>
    simp only [step] at h
    split at h
    · cases h
      refine ⟨h1, h2, ?_⟩
      intro k hk
      cases hk
      exact (keyOf_length arg ‹_›).2
    · cases h
  | cmode arg =>
    simp only [step] at h
    split at h
    · split at h
      · cases h
        have := (checkCtype_iff _).1 ‹_›
        exact ⟨Or.inr (by simp only; omega), h2, h3⟩
      · cases h
    · cases h
  | hmode arg =>
    simp only [step] at h
    split at h
    · split at h
      · cases h
        have := (checkHtype_iff _).1 ‹_›
        exact ⟨h1, Or.inr (by simp only; omega), h3⟩
      · cases h
    · cases h
  | m _ => cases h
  | unknown => cases h

theorem run_cons_some {p p' : Pak} {t : Tok} {ts : List Tok} (h : run p (t :: ts) = some p') :
    ∃ p1, step p t = some p1 ∧ run p1 ts = some p' := by
  simp only [run] at h
  split at h
  · cases h
  · exact ⟨_, ‹_›, h⟩

theorem run_inv {p p' : Pak} {toks : List Tok} (hi : PakInv p) (h : run p toks = some p') : PakInv p' := by
  induction toks generalizing p with
  | nil => cases h; exact hi
  | cons t ts ih =>
    obtain ⟨p1, h1, h2⟩ := run_cons_some h
    exact ih (step_inv hi h1) h2

theorem init_inv : PakInv Pak.init := ⟨Or.inl rfl, Or.inl rfl, fun _ h => by cases h⟩

/-- an operation is only started well-formed -/
theorem run_wellformed (toks : List Tok) (d : Bool) (op : Op) (inp : Bytes) (out key : Option Bytes) (c h : Int) (ne : Bool)
    (hr : getVOpt toks d = .ok (.run op inp out key c h ne)) :
    settingsOk c h = true ∧
    (∀ k, key = some k → k.length = 16) ∧
    (op = .encrypt → out.isSome ∧ 0 ≤ c ∧ c ≤ 4 ∧ 0 ≤ h ∧ h ≤ 2) ∧
    (op = .decrypt → out.isSome ∧ key.isSome) ∧
    (op = .verify → key.isSome) := by
  rw [getVOpt_eq] at hr
  replace hr := Except.ok.inj hr
  cases hp : run Pak.init toks with
  | none => rw [hp] at hr; cases hr
  | some p =>
    rw [hp] at hr
    obtain ⟨h1, h2, h3⟩ := run_inv init_inv hp
    simp only [dispatch] at hr
    repeat' split at hr
    all_goals first | (cases hr; done) | skip
    all_goals
      cases hr
      simp_all [settingsOk]
      try omega

/-- exit status 0 iff version or help was requested, or an operation was run and it succeeded -/
theorem exit_zero_iff (toks : List Tok) (d : Bool) (o : Outcome) (ho : getVOpt toks d = .ok o) (r : Bool) :
    exitStatus o r = 0 ↔ (o = .info ∨ ((∃ op inp out key c h ne, o = .run op inp out key c h ne) ∧ r = true)) := by
  cases o with
  | diag => simp [exitStatus]
  | info => simp [exitStatus]
  | run op inp out key c h ne =>
    have hs := (run_wellformed toks d op inp out key c h ne ho).1
    cases r <;> simp [exitStatus, hs]

/-- number of mode options among the tokens -/
def modeCount (toks : List Tok) : Nat := (toks.filter fun t => t = .e ∨ t = .d ∨ t = .v ∨ t = .V ∨ t = .h).length

/-- the mode letter a mode option sets -/
def modeChar : Tok → Option Char
  | .e => some 'e' | .d => some 'd' | .v => some 'v' | .V => some 'V' | .h => some 'h'
  | _ => none

theorem modeCount_cons (t : Tok) (ts : List Tok) :
    modeCount (t :: ts) = (if (modeChar t).isSome then 1 else 0) + modeCount ts := by
  cases t <;> simp [modeCount, modeChar] <;> omega

theorem modeChar_ne_u {t : Tok} {c : Char} (h : modeChar t = some c) : c ≠ 'u' := by
  cases t <;> simp [modeChar] at h <;> subst h <;> decide

/-- a mode option succeeds only from mode 'u' and sets its letter; other options leave the mode alone -/
theorem step_mode {p p' : Pak} {t : Tok} (h : step p t = some p') :
    (∀ c, modeChar t = some c → p.mode = 'u' ∧ p'.mode = c) ∧ (modeChar t = none → p'.mode = p.mode) := by
  cases t with
  | e | d | v | V | h => obtain ⟨hu, rfl⟩ := setMode_some h; simp [modeChar, hu]
  | n => cases h; simp [modeChar]
  | i path opens => cases opens <;> cases h; simp [modeChar]
  | o path opens => cases opens <;> cases h; simp [modeChar]
  | k arg => simp only [step] at h; split at h <;> cases h; simp [modeChar]
  | cmode arg => simp only [step] at h; repeat' split at h
                 all_goals cases h
                 simp [modeChar]
  | hmode arg => simp only [step] at h; repeat' split at h
                 all_goals cases h
                 simp [modeChar]
  | m _ => cases h
  | unknown => cases h

theorem run_mode_set {p p' : Pak} {toks : List Tok} (h : run p toks = some p') (hm : p.mode ≠ 'u') :
    modeCount toks = 0 ∧ p'.mode = p.mode := by
  induction toks generalizing p with
  | nil => cases h; exact ⟨rfl, rfl⟩
  | cons t ts ih =>
    obtain ⟨p1, h1, h2⟩ := run_cons_some h
    obtain ⟨ha, hb⟩ := step_mode h1
    cases hc : modeChar t with
    | some c => exact absurd (ha c hc).1 hm
    | none =>
      have := hb hc
      obtain ⟨i1, i2⟩ := ih h2 (by rw [this]; exact hm)
      rw [modeCount_cons, hc]
      exact ⟨by simpa using i1, by rw [i2, this]⟩

theorem run_mode_unset {p p' : Pak} {toks : List Tok} (h : run p toks = some p') (hm : p.mode = 'u') :
    (modeCount toks = 0 ∧ p'.mode = 'u') ∨ (modeCount toks = 1 ∧ p'.mode ≠ 'u') := by
  induction toks generalizing p with
  | nil => cases h; exact Or.inl ⟨rfl, hm⟩
  | cons t ts ih =>
    obtain ⟨p1, h1, h2⟩ := run_cons_some h
    obtain ⟨ha, hb⟩ := step_mode h1
    rw [modeCount_cons]
    cases hc : modeChar t with
    | some c =>
      have h3 := (ha c hc).2
      have hne : p1.mode ≠ 'u' := by rw [h3]; exact modeChar_ne_u hc
      obtain ⟨i1, i2⟩ := run_mode_set h2 hne
      exact Or.inr ⟨by simp [i1], by rw [i2]; exact hne⟩
    | none =>
      have := hb hc
      simpa using ih h2 (by rw [this]; exact hm)

/-- no mode, or two modes: diagnostic -/
theorem no_or_two_modes (toks : List Tok) (d : Bool) (h : modeCount toks ≠ 1) : getVOpt toks d = .ok .diag := by
  rw [getVOpt_eq]
  cases hp : run Pak.init toks with
  | none => rfl
  | some p =>
    rcases run_mode_unset hp rfl with ⟨_, hu⟩ | ⟨h1, _⟩
    · simp [dispatch, hu]
    · exact absurd h1 h

theorem run_mem_none {t : Tok} {toks : List Tok} (ht : t ∈ toks) (hb : ∀ p, step p t = none) (p : Pak) :
    run p toks = none := by
  induction toks generalizing p with
  | nil => cases ht
  | cons a ts ih =>
    simp only [run]
    rcases List.mem_cons.1 ht with rfl | hm
    · rw [hb]
    · cases step p a with
      | none => rfl
      | some p1 => exact ih hm p1

/-- an option that fails on its own (unknown option / missing argument, unopenable file, malformed key, mode number out of range, a repeated cmode or hmode option, `-m`) : diagnostic -/
theorem bad_token (toks : List Tok) (d : Bool) (t : Tok) (ht : t ∈ toks)
    (hbad : t = .unknown ∨ (∃ a, t = .m a) ∨ (∃ p, t = .i p false) ∨ (∃ p, t = .o p false) ∨
            (∃ a, t = .k a ∧ Model.Base64.isValidB64 a = false) ∨
            (∃ a, t = .cmode a ∧ checkCtype (atoi a) = false) ∨ (∃ a, t = .hmode a ∧ checkHtype (atoi a) = false)) :
    getVOpt toks d = .ok .diag := by
  rw [getVOpt_eq, run_mem_none ht]
  intro p
  rcases hbad with rfl | ⟨a, rfl⟩ | ⟨a, rfl⟩ | ⟨a, rfl⟩ | ⟨a, rfl, hv⟩ | ⟨a, rfl, hv⟩ | ⟨a, rfl, hv⟩
  · rfl
  · rfl
  · rfl
  · rfl
  · simp [step, hv]
  · simp [step, hv]
  · simp [step, hv]

/-- which fields an option can change -/
theorem step_fields {p p' : Pak} {t : Tok} (h : step p t = some p') :
    ((∀ a b, t ≠ .i a b) → p'.fp = p.fp) ∧ ((∀ a, t ≠ .k a) → p'.key = p.key) ∧ ((∀ a b, t ≠ .o a b) → p'.out = p.out) := by
  cases t with
  | e | d | v | V | h => obtain ⟨hu, rfl⟩ := setMode_some h; simp
  | n => cases h; simp
  | i path opens => cases opens <;> cases h; simp
  | o path opens => cases opens <;> cases h; simp
  | k arg => simp only [step] at h; split at h <;> cases h; simp
  | cmode arg => simp only [step] at h; repeat' split at h
                 all_goals cases h
                 simp
  | hmode arg => simp only [step] at h; repeat' split at h
                 all_goals cases h
                 simp
  | m _ => cases h
  | unknown => cases h

theorem run_fields {p p' : Pak} {toks : List Tok} (h : run p toks = some p') :
    ((∀ a b, Tok.i a b ∉ toks) → p'.fp = p.fp) ∧ ((∀ a, Tok.k a ∉ toks) → p'.key = p.key) ∧
    ((∀ a b, Tok.o a b ∉ toks) → p'.out = p.out) := by
  induction toks generalizing p with
  | nil => cases h; simp
  | cons t ts ih =>
    obtain ⟨p1, h1, h2⟩ := run_cons_some h
    obtain ⟨s1, s2, s3⟩ := step_fields h1
    obtain ⟨i1, i2, i3⟩ := ih h2
    refine ⟨fun hn => ?_, fun hn => ?_, fun hn => ?_⟩
    · rw [i1 fun a b hm => hn a b (List.mem_cons_of_mem _ hm), s1 fun a b e => hn a b (e ▸ List.mem_cons_self)]
    · rw [i2 fun a hm => hn a (List.mem_cons_of_mem _ hm), s2 fun a e => hn a (e ▸ List.mem_cons_self)]
    · rw [i3 fun a b hm => hn a b (List.mem_cons_of_mem _ hm), s3 fun a b e => hn a b (e ▸ List.mem_cons_self)]

/-- after a successful parse the mode is the letter of any mode option that occurred -/
theorem run_mode_mem {p p' : Pak} {toks : List Tok} {t : Tok} {c : Char} (h : run p toks = some p')
    (ht : t ∈ toks) (hc : modeChar t = some c) : p'.mode = c := by
  induction toks generalizing p with
  | nil => cases ht
  | cons a ts ih =>
    obtain ⟨p1, h1, h2⟩ := run_cons_some h
    rcases List.mem_cons.1 ht with rfl | hm
    · have h3 := ((step_mode h1).1 c hc).2
      rw [(run_mode_set h2 (by rw [h3]; exact modeChar_ne_u hc)).2, h3]
    · exact ih h2 hm

/-- missing input; missing key or output for decryption; missing key for verification: diagnostic -/
theorem missing_required (toks : List Tok) (d : Bool) (o : Outcome) (ho : getVOpt toks d = .ok o) :
    ((∀ p b, Tok.i p b ∉ toks) → (Tok.e ∈ toks ∨ Tok.d ∈ toks ∨ Tok.v ∈ toks) → o = .diag) ∧
    ((∀ a, Tok.k a ∉ toks) → (Tok.d ∈ toks ∨ Tok.v ∈ toks) → o = .diag) ∧
    ((∀ p b, Tok.o p b ∉ toks) → Tok.d ∈ toks → o = .diag) := by
  rw [getVOpt_eq] at ho
  replace ho := (Except.ok.inj ho).symm
  cases hp : run Pak.init toks with
  | none => rw [hp] at ho; simp [ho]
  | some p =>
    rw [hp] at ho
    obtain ⟨f1, f2, f3⟩ := run_fields hp
    have me : Tok.e ∈ toks → p.mode = 'e' := fun hm => run_mode_mem hp hm rfl
    have md : Tok.d ∈ toks → p.mode = 'd' := fun hm => run_mode_mem hp hm rfl
    have mv : Tok.v ∈ toks → p.mode = 'v' := fun hm => run_mode_mem hp hm rfl
    refine ⟨fun hn hm => ?_, fun hn hm => ?_, fun hn hm => ?_⟩
    · have hf : p.fp = none := f1 hn
      rcases hm with hm | hm | hm
      · simp [ho, dispatch, me hm, hf]
      · simp [ho, dispatch, md hm, hf]
      · simp [ho, dispatch, mv hm, hf]
    · have hf : p.key = none := f2 hn
      rcases hm with hm | hm
      · simp [ho, dispatch, md hm, hf]; split <;> first | rfl | contradiction
      · simp [ho, dispatch, mv hm, hf]; split <;> first | rfl | contradiction
    · have hf : p.out = none := f3 hn
      simp [ho, dispatch, md hm, hf]; split <;> rfl

/-- very long input path with the default output name: diagnostic; otherwise the default output is the input name followed by ".wenc" -/
theorem default_output (path : Bytes) (d : Bool) :
    getVOpt [.e, .i path true] d =
      .ok (if path.length + 5 < 128 ∧ d then .run .encrypt path (some (path ++ dotWenc)) none 0 0 false else .diag) := by
  rw [getVOpt_eq]
  by_cases hl : path.length + 5 < 128
  · have : (path ++ dotWenc).take 127 = path ++ dotWenc := List.take_of_length_le (by simp [dotWenc]; omega)
    cases d <;> simp [run, step, setMode, Pak.init, dispatch, hl, this]
  · simp [run, step, setMode, Pak.init, dispatch, hl]

end Wencry.Proofs.Cli
