/-
C07, layer (i): the compression functions, initial values, digest serialisation and length encoding of the model of
sha1.cpp / sha256.cpp / md5.cpp equal those of FIPS 180-4 / RFC 1321.
-/
import Wencry.Model.Hash
import Wencry.Spec.Hash
namespace Wencry.Proofs.HashCompress
open Wencry Wencry.Model.Hash

/-! ### constants, word loading, rotations -/

theorem sha1_init_eq : Sha1.init = Spec.Hash.SHA1.H0 := by rfl
theorem sha256_init_eq : Sha256.init = Spec.Hash.SHA256.H0 := by rfl
theorem md5_init_eq : Md5.init = Spec.Hash.MD5.H0 := by rfl
theorem sha256K_eq : Gen.sha256K = Spec.Hash.SHA256.K := by decide +kernel

theorem u8_setbytes (a b c d : Byte) : u8 (setbytes a b c d) = a := by
  unfold setbytes u8
  ext i hi; simp
theorem u8_setbytes8 (a b c d : Byte) : u8 (setbytes a b c d >>> 8) = b := by
  unfold setbytes u8
  ext i hi; simp; grind
theorem u8_setbytes16 (a b c d : Byte) : u8 (setbytes a b c d >>> 16) = c := by
  unfold setbytes u8
  ext i hi; simp; grind
theorem u8_setbytes24 (a b c d : Byte) : u8 (setbytes a b c d >>> 24) = d := by
  unfold setbytes u8
  ext i hi; simp; grind

theorem or4 (A B C D : W32) : A ||| B ||| C ||| D = D ||| C ||| B ||| A := by ac_rfl

theorem swap_union (a b c d : Byte) : swapWord (unionWord a b c d) = Spec.Hash.be32 a b c d := by
  unfold swapWord unionWord
  rw [u8_setbytes, u8_setbytes8, u8_setbytes16, u8_setbytes24]
  unfold setbytes Spec.Hash.be32
  exact or4 ..
theorem union_le (a b c d : Byte) : unionWord a b c d = Spec.Hash.le32 a b c d := by
  unfold unionWord setbytes Spec.Hash.le32
  exact or4 ..

theorem unionWords_swap (l : Bytes) : (unionWords l).map swapWord = Spec.Hash.wordsOf Spec.Hash.be32 l := by
  fun_induction unionWords l with
  | case1 a b c d r ih => simp only [Spec.Hash.wordsOf, List.map_cons, swap_union, ih]
  | case2 l h =>
    unfold Spec.Hash.wordsOf
    split
    · exact absurd rfl (h _ _ _ _ _)
    · rfl

theorem unionWords_le (l : Bytes) : unionWords l = Spec.Hash.wordsOf Spec.Hash.le32 l := by
  fun_induction unionWords l with
  | case1 a b c d r ih => simp only [Spec.Hash.wordsOf, union_le, ih]
  | case2 l h =>
    unfold Spec.Hash.wordsOf
    split
    · exact absurd rfl (h _ _ _ _ _)
    · rfl

theorem lrot_eq (x : W32) (i : Nat) (h : i < 32) : lrot x i = Spec.Hash.rotl x i := by
  unfold lrot Spec.Hash.rotl
  rw [BitVec.rotateLeft_eq_rotateLeftAux_of_lt h]; rfl

theorem rrot_eq (x : W32) (i : Nat) (h : i < 32) : rrot x i = Spec.Hash.rotr x i := by
  unfold rrot Spec.Hash.rotr
  rw [BitVec.rotateRight_eq_rotateRightAux_of_lt h]; rfl

/-! ### SHA-1 -/

theorem hashA_eq (a b c : W32) : Sha1.HASH_A a b c = Spec.Hash.SHA1.ch a b c := by
  unfold Sha1.HASH_A Spec.Hash.SHA1.ch
  ext i hi; simp only [BitVec.getElem_or, BitVec.getElem_and, BitVec.getElem_xor, BitVec.getElem_not]
  cases a[i] <;> cases b[i] <;> cases c[i] <;> rfl

theorem hashC_eq (a b c : W32) : Sha1.HASH_C a b c = Spec.Hash.SHA1.maj a b c := by
  unfold Sha1.HASH_C Spec.Hash.SHA1.maj
  ext i hi; simp only [BitVec.getElem_or, BitVec.getElem_and, BitVec.getElem_xor]
  cases a[i] <;> cases b[i] <;> cases c[i] <;> rfl

theorem add5 (r f k e w : W32) : r + (f + k) + e + w = r + f + e + k + w := by ac_rfl

theorem sha1_round_eq (w : List W32) (th : Sha1.St) (i : Nat) : Sha1.round w th i = Spec.Hash.SHA1.step w th i := by
  obtain ⟨t0, t1, t2, t3, t4⟩ := th
  simp only [Sha1.round, Spec.Hash.SHA1.step, Spec.Hash.SHA1.f, Spec.Hash.SHA1.K, lrot_eq _ 5 (by decide), lrot_eq _ 30 (by decide)]
  split
  · rw [hashA_eq, add5]
  · split
    · rw [add5]; rfl
    · split
      · rw [hashC_eq, add5]
      · rw [add5]; rfl

theorem sha1_sched_eq (inp : Bytes) : Sha1.getwdata inp = Spec.Hash.SHA1.schedule (Spec.Hash.wordsOf Spec.Hash.be32 inp) := by
  unfold Sha1.getwdata Spec.Hash.SHA1.schedule
  simp only [unionWords_swap, lrot_eq _ 1 (by decide)]

theorem sha1_round_eq' : Sha1.round = Spec.Hash.SHA1.step := by
  funext w th i; exact sha1_round_eq ..

theorem sha1_block_eq (h : Spec.Hash.SHA1.State) (inp : Bytes) (hl : inp.length = 64) :
    Sha1.block h inp = Spec.Hash.SHA1.compress h inp := by
  have _ := hl
  unfold Sha1.block Spec.Hash.SHA1.compress
  rw [sha1_sched_eq, sha1_round_eq']

/-! ### SHA-256, digest serialisation, length encoders -/

theorem sha256_round_eq : Sha256.round = Spec.Hash.SHA256.step := by
  funext w th i
  obtain ⟨h0, h1, h2, h3, h4, h5, h6, h7⟩ := th
  simp only [Sha256.round, Spec.Hash.SHA256.step, Sha256.SIGMA0, Sha256.SIGMA1, Sha256.CHOOSE, Sha256.MAJORITY,
    Spec.Hash.SHA256.bsig0, Spec.Hash.SHA256.bsig1, Spec.Hash.SHA256.ch, Spec.Hash.SHA256.maj, sha256K_eq,
    rrot_eq _ 2 (by decide), rrot_eq _ 13 (by decide), rrot_eq _ 22 (by decide),
    rrot_eq _ 6 (by decide), rrot_eq _ 11 (by decide), rrot_eq _ 25 (by decide)]

theorem sha256_sched_eq (inp : Bytes) : Sha256.getwdata inp = Spec.Hash.SHA256.schedule (Spec.Hash.wordsOf Spec.Hash.be32 inp) := by
  unfold Sha256.getwdata Spec.Hash.SHA256.schedule
  simp only [unionWords_swap, Sha256.GAMMA0, Sha256.GAMMA1, Spec.Hash.SHA256.ssig0, Spec.Hash.SHA256.ssig1,
    rrot_eq _ 7 (by decide), rrot_eq _ 18 (by decide), rrot_eq _ 17 (by decide), rrot_eq _ 19 (by decide)]

theorem sha256_block_eq (h : Spec.Hash.SHA256.State) (inp : Bytes) (hl : inp.length = 64) :
    Sha256.block h inp = Spec.Hash.SHA256.compress h inp := by
  have _ := hl
  unfold Sha256.block Spec.Hash.SHA256.compress
  rw [sha256_sched_eq, sha256_round_eq]

theorem u8_eq (w : W32) : u8 w = w.truncate 8 := rfl
theorem wordBE_eq (w : W32) : wordBE w = Spec.Hash.be32Bytes w := rfl
theorem wordLE_eq (w : W32) : wordLE w = Spec.Hash.le32Bytes w := rfl

theorem sha1_res_eq (h : Spec.Hash.SHA1.State) : Sha1.res h = Spec.Hash.SHA1.digestBytes h := rfl
theorem sha256_res_eq (h : Spec.Hash.SHA256.State) : Sha256.res h = Spec.Hash.SHA256.digestBytes h := rfl
theorem md5_res_eq (h : Spec.Hash.MD5.State) : Md5.res h = Spec.Hash.MD5.digestBytes h := rfl

theorem shr_trunc (n : W64) (k : Nat) : (n >>> (k <<< 3)).truncate 8 = BitVec.ofNat 8 (n.toNat / 256 ^ k) := by
  apply BitVec.eq_of_toNat_eq
  simp only [BitVec.truncate, BitVec.toNat_setWidth, BitVec.toNat_ushiftRight, BitVec.toNat_ofNat, Nat.shiftRight_eq_div_pow, Nat.shiftLeft_eq]
  rw [show (256:Nat) = 2 ^ 8 by rfl, ← Nat.pow_mul, Nat.mul_comm]

theorem lenBE_eq (n : W64) : lenBE n = Spec.Hash.be64Bytes n.toNat := by
  unfold lenBE Spec.Hash.be64Bytes
  simp only [shr_trunc]
theorem lenLE_eq (n : W64) : lenLE n = Spec.Hash.le64Bytes n.toNat := by
  unfold lenLE Spec.Hash.le64Bytes
  simp only [shr_trunc]

/-! ### MD5 -/

open Spec.Hash.MD5 in
/-- the `i`-th `FF/GG/HH/II` line as RFC 1321 prescribes it -/
def specLine (i : Nat) : Gen.Md5Line :=
  ⟨i / 16, (4 - i % 4) % 4, (5 - i % 4) % 4, (6 - i % 4) % 4, (7 - i % 4) % 4, Kidx i, S i, T.getD i 0⟩

theorem md5Lines_eq : Gen.md5Lines = (List.range 64).map specLine := by decide +kernel

theorem S_lt (i : Nat) : Spec.Hash.MD5.S i < 32 := by
  unfold Spec.Hash.MD5.S; split <;> decide

/-- the rotating-register state of the specification seen from the fixed registers of the code -/
def view (k : Nat) (m : Md5.St) : Md5.St :=
  match k % 4 with
  | 0 => m
  | 1 => (m.2.2.2, m.1, m.2.1, m.2.2.1)
  | 2 => (m.2.2.1, m.2.2.2, m.1, m.2.1)
  | _ => (m.2.1, m.2.2.1, m.2.2.2, m.1)

theorem md5_sum (a f x t b : W32) (s : Nat) (hs : s < 32) :
    lrot (a + (f + x + t)) s + b = b + Spec.Hash.rotl (a + f + x + t) s := by
  rw [lrot_eq _ _ hs, BitVec.add_comm]
  congr 2
  ac_rfl

theorem md5_step (x : List W32) (m : Md5.St) (i : Nat) :
    Spec.Hash.MD5.step x (view i m) i = view (i + 1) (Md5.line x m (specLine i)) := by
  obtain ⟨a, b, c, d⟩ := m
  have : i % 4 = 0 ∨ i % 4 = 1 ∨ i % 4 = 2 ∨ i % 4 = 3 := by omega
  rcases this with h | h | h | h
  · have h' : (i + 1) % 4 = 1 := by omega
    simp [view, h, h', specLine, Md5.line, Md5.reg, Md5.setReg, Spec.Hash.MD5.step, Spec.Hash.MD5.fn, md5_sum _ _ _ _ _ _ (S_lt i)]
    rfl
  · have h' : (i + 1) % 4 = 2 := by omega
    simp [view, h, h', specLine, Md5.line, Md5.reg, Md5.setReg, Spec.Hash.MD5.step, Spec.Hash.MD5.fn, md5_sum _ _ _ _ _ _ (S_lt i)]
    rfl
  · have h' : (i + 1) % 4 = 3 := by omega
    simp [view, h, h', specLine, Md5.line, Md5.reg, Md5.setReg, Spec.Hash.MD5.step, Spec.Hash.MD5.fn, md5_sum _ _ _ _ _ _ (S_lt i)]
    rfl
  · have h' : (i + 1) % 4 = 0 := by omega
    simp [view, h, h', specLine, Md5.line, Md5.reg, Md5.setReg, Spec.Hash.MD5.step, Spec.Hash.MD5.fn, md5_sum _ _ _ _ _ _ (S_lt i)]
    rfl

theorem md5_fold (x : List W32) (h : Md5.St) (n : Nat) :
    (List.range n).foldl (Spec.Hash.MD5.step x) h
      = view n ((List.range n).foldl (fun st i => Md5.line x st (specLine i)) h) := by
  induction n with
  | zero => rfl
  | succ n ih => rw [List.range_succ, List.foldl_append, List.foldl_append, ih]; exact md5_step ..

theorem view64 (m : Md5.St) : view 64 m = m := rfl

theorem md5_lines_fold (x : List W32) (h : Md5.St) :
    Gen.md5Lines.foldl (Md5.line x) h = (List.range 64).foldl (Spec.Hash.MD5.step x) h := by
  rw [md5_fold, view64, md5Lines_eq, List.foldl_map]

/-- The two `match` expressions are kept abstract in the line list / index list: any definitional comparison of them
    with the concrete 64-entry lists makes `whnf` evaluate 64 symbolic MD5 steps. -/
theorem md5_block_congr (h : Md5.St) (W W' : List W32) (L : List Gen.Md5Line) (R : List Nat) (hW : W = W')
  (e2 : ∀ x, L.foldl (Md5.line x) h = R.foldl (Spec.Hash.MD5.step x) h) :
  (have x := W;
    match List.foldl (Md5.line x) h L with
    | (a, b, c, d) => (h.fst + a, h.snd.fst + b, h.snd.snd.fst + c, h.snd.snd.snd + d)) =
    have x := W';
    match List.foldl (Spec.Hash.MD5.step x) h R with
    | (a, b, c, d) => (h.fst + a, h.snd.fst + b, h.snd.snd.fst + c, h.snd.snd.snd + d) := by
  subst hW
  simp only [e2]

theorem md5_block_eq (h : Spec.Hash.MD5.State) (inp : Bytes) (hl : inp.length = 64) :
    Md5.block h inp = Spec.Hash.MD5.compress h inp := by
  have _ := hl
  exact (Md5.block.eq_1 h inp).trans
    ((md5_block_congr h _ _ _ _ (unionWords_le inp) (fun x => md5_lines_fold x h)).trans
      (Spec.Hash.MD5.compress.eq_1 h inp).symm)

end Wencry.Proofs.HashCompress
