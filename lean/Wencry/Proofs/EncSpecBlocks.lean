/-
Helper lemmas for EncSpec: `splitBlocks` / `joinBlocks`, PKCS#7 padding, and the encrypt-side chunking of `loadBuffer`.
-/
import Wencry.Model.File
import Wencry.Spec.Wenc
namespace Wencry.Proofs.EncSpec
open Wencry Wencry.Model Wencry.Model.File Wencry.Model.Stdio Wencry.Model.IoBuffer Wencry.Model.Modes

/-! ### splitBlocks / joinBlocks -/

theorem splitBlocks_lt (l : Bytes) (h : l.length < 16) : splitBlocks l = ([], l) := by
  rw [splitBlocks]; simp [Nat.not_le.mpr h]

theorem splitBlocks_toList_append (b : Block) (r : Bytes) :
    splitBlocks (b.toList ++ r) = (b :: (splitBlocks r).1, (splitBlocks r).2) := by
  rw [splitBlocks]
  have h : 16 ≤ (b.toList ++ r).length := by simp
  simp only [h, dite_true]
  rfl

theorem joinBlocks_nil : joinBlocks [] = [] := rfl
theorem joinBlocks_cons (b : Block) (bl : List Block) : joinBlocks (b :: bl) = b.toList ++ joinBlocks bl := rfl
theorem joinBlocks_append (x y : List Block) : joinBlocks (x ++ y) = joinBlocks x ++ joinBlocks y := by
  simp [joinBlocks]
theorem joinBlocks_length (x : List Block) : (joinBlocks x).length = 16 * x.length := by
  induction x with
  | nil => rfl
  | cons b bl ih => simp [joinBlocks_cons, ih]; omega
theorem joinBlocks_flatten (xs : List (List Block)) : joinBlocks xs.flatten = (xs.map joinBlocks).flatten := by
  induction xs with
  | nil => rfl
  | cons x xs ih => simp [joinBlocks_append, ih]

theorem splitBlocks_joinBlocks_append (bl : List Block) (r : Bytes) :
    splitBlocks (joinBlocks bl ++ r) = (bl ++ (splitBlocks r).1, (splitBlocks r).2) := by
  induction bl with
  | nil => simp [joinBlocks_nil]
  | cons b bl ih => rw [joinBlocks_cons, List.append_assoc, splitBlocks_toList_append, ih]; rfl

theorem list16 (l : Bytes) (h : l.length = 16) :
    ∃ c15 c14 c13 c12 c11 c10 c9 c8 c7 c6 c5 c4 c3 c2 c1 c0, l = [c15, c14, c13, c12, c11, c10, c9, c8, c7, c6, c5, c4, c3, c2, c1, c0] := by
  match l, h with
  | [c15, c14, c13, c12, c11, c10, c9, c8, c7, c6, c5, c4, c3, c2, c1, c0], _ => exact ⟨_, _, _, _, _, _, _, _, _, _, _, _, _, _, _, _, rfl⟩

theorem toList_ofListD (l : Bytes) (h : l.length = 16) : (Block.ofListD l).toList = l := by
  obtain ⟨c15, c14, c13, c12, c11, c10, c9, c8, c7, c6, c5, c4, c3, c2, c1, c0, rfl⟩ := list16 l h
  rfl

theorem exists_block (l : Bytes) (h : 16 ≤ l.length) : ∃ (b : Block) (r : Bytes), l = b.toList ++ r := by
  refine ⟨Block.ofListD (l.take 16), l.drop 16, ?_⟩
  rw [toList_ofListD _ (by simp; omega), List.take_append_drop]

/-- every byte string is some whole blocks followed by fewer than 16 bytes -/
theorem exists_blocks (l : Bytes) : ∃ (bl : List Block) (r : Bytes), l = joinBlocks bl ++ r ∧ r.length < 16 := by
  induction hn : l.length using Nat.strongRecOn generalizing l with
  | _ n ih =>
    by_cases h : 16 ≤ l.length
    · obtain ⟨b, r, rfl⟩ := exists_block l h
      obtain ⟨bl, r', hr, hlt⟩ := ih r.length (by simp at hn; omega) r rfl
      exact ⟨b :: bl, r', by rw [joinBlocks_cons, List.append_assoc, hr], hlt⟩
    · exact ⟨[], l, rfl, by omega⟩

theorem splitBlocks_join_rest (bl : List Block) (r : Bytes) (h : r.length < 16) : splitBlocks (joinBlocks bl ++ r) = (bl, r) := by
  rw [splitBlocks_joinBlocks_append, splitBlocks_lt r h]; simp

theorem splitBlocks_fst_length (l : Bytes) : (splitBlocks l).1.length = l.length / 16 := by
  obtain ⟨bl, r, rfl, hr⟩ := exists_blocks l
  rw [splitBlocks_join_rest bl r hr]; simp [joinBlocks_length]; omega

theorem splitBlocks_snd_length (l : Bytes) : (splitBlocks l).2.length = l.length % 16 := by
  obtain ⟨bl, r, rfl, hr⟩ := exists_blocks l
  rw [splitBlocks_join_rest bl r hr]; simp [joinBlocks_length]; omega

theorem joinBlocks_splitBlocks (l : Bytes) : joinBlocks (splitBlocks l).1 ++ (splitBlocks l).2 = l := by
  obtain ⟨bl, r, rfl, hr⟩ := exists_blocks l
  rw [splitBlocks_join_rest bl r hr]

theorem splitBlocks_append (a b : Bytes) (ha : a.length % 16 = 0) :
    splitBlocks (a ++ b) = ((splitBlocks a).1 ++ (splitBlocks b).1, (splitBlocks b).2) := by
  obtain ⟨bl, r, rfl, hr⟩ := exists_blocks a
  have : r = [] := by
    simp [joinBlocks_length] at ha
    exact List.eq_nil_of_length_eq_zero (by omega)
  subst this
  simp only [List.append_nil]
  have h2 := splitBlocks_join_rest bl [] (by simp)
  simp only [List.append_nil] at h2
  rw [splitBlocks_joinBlocks_append, h2]

/-! ### PKCS#7 -/

theorem splitBlocks_16 (x : Bytes) (h : x.length = 16) : splitBlocks x = ([Block.ofListD x], []) := by
  have e : x = (Block.ofListD x).toList ++ [] := by rw [toList_ofListD x h]; simp
  conv => lhs; rw [e]
  rw [splitBlocks_toList_append, splitBlocks_lt [] (by simp)]

theorem pkcs7_length (d : Bytes) : (Spec.Wenc.pkcs7 d).length = 16 * (d.length / 16 + 1) := by
  simp [Spec.Wenc.pkcs7]; omega

theorem pkcs7_split (d : Bytes) (n : Nat) (h : 16 * n ≤ d.length) :
    Spec.Wenc.pkcs7 d = d.take (16 * n) ++ Spec.Wenc.pkcs7 (d.drop (16 * n)) := by
  have e : (d.length - 16 * n) % 16 = d.length % 16 := by omega
  simp only [Spec.Wenc.pkcs7, List.length_drop, e, ← List.append_assoc, List.take_append_drop]

theorem pkcs7_blocks (d : Bytes) :
    (splitBlocks (Spec.Wenc.pkcs7 d)).1 = (splitBlocks d).1 ++ [padBlock (splitBlocks d).2] := by
  obtain ⟨bl, r, rfl, hr⟩ := exists_blocks d
  rw [splitBlocks_join_rest bl r hr]
  have e : (joinBlocks bl ++ r).length % 16 = r.length := by simp [joinBlocks_length]; omega
  simp only [Spec.Wenc.pkcs7, e, List.append_assoc]
  rw [splitBlocks_joinBlocks_append, splitBlocks_16 _ (by simp; omega)]
  rfl

/-! ### the chunks `loadBuffer` produces on the encrypt side -/

/-- successive reads of `16 * B` bytes: a full read is a chunk of `B` blocks, the first short read is the final chunk
    (its whole blocks and the padded tail) -/
def encChunks (B : Nat) : Nat → Bytes → List (List Block)
  | 0, _ => []
  | f + 1, d =>
    if 16 * B ≤ d.length then (splitBlocks (d.take (16 * B))).1 :: encChunks B f (d.drop (16 * B))
    else [(splitBlocks d).1 ++ [padBlock (splitBlocks d).2]]

theorem chunksOf_go_nil (B n : Nat) : Spec.Wenc.chunksOf.go B n [] = [] := by
  cases n <;> simp [Spec.Wenc.chunksOf.go]

theorem encChunks_eq_go (B : Nat) (hB : 1 ≤ B) (f : Nat) : ∀ (d : Bytes) (n : Nat), d.length / (16 * B) + 1 ≤ f →
    (splitBlocks (Spec.Wenc.pkcs7 d)).1.length ≤ n →
    Spec.Wenc.chunksOf.go B n (splitBlocks (Spec.Wenc.pkcs7 d)).1 = encChunks B f d := by
  induction f with
  | zero => intro d n h; exact absurd h (Nat.not_succ_le_zero _)
  | succ f ih =>
    intro d n hf hn
    by_cases hd : 16 * B ≤ d.length
    · have hlen : (d.take (16 * B)).length = 16 * B := by simp; omega
      have e1 : (splitBlocks (Spec.Wenc.pkcs7 d)).1
          = (splitBlocks (d.take (16 * B))).1 ++ (splitBlocks (Spec.Wenc.pkcs7 (d.drop (16 * B)))).1 := by
        rw [pkcs7_split d B hd, splitBlocks_append _ _ (by rw [hlen]; omega)]
      have e2 : (splitBlocks (d.take (16 * B))).1.length = B := by rw [splitBlocks_fst_length, hlen]; omega
      rw [e1] at hn ⊢
      simp only [List.length_append, e2] at hn
      obtain ⟨n, rfl⟩ : ∃ m, n = m + 1 := ⟨n - 1, by omega⟩
      have hne : ((splitBlocks (d.take (16 * B))).1 ++ (splitBlocks (Spec.Wenc.pkcs7 (d.drop (16 * B)))).1).isEmpty = false := by
        cases hx : (splitBlocks (d.take (16 * B))).1 with
        | nil => rw [hx] at e2; simp at e2; omega
        | cons a l => rfl
      simp only [Spec.Wenc.chunksOf.go, hne, encChunks, hd, if_true]
      rw [List.take_left' e2, List.drop_left' e2]
      rw [ih (d.drop (16 * B)) n ?_ (by omega)]
      · simp
      · have : (d.drop (16 * B)).length / (16 * B) + 1 = d.length / (16 * B) := by
          rw [List.length_drop]
          have h16 : 0 < 16 * B := by omega
          have := Nat.sub_mul_div d.length (16 * B) 1
          rw [Nat.mul_one] at this
          rw [this]
          have : 1 ≤ d.length / (16 * B) := (Nat.one_le_div_iff h16).mpr hd
          omega
        omega
    · have e1 := pkcs7_blocks d
      have e2 : (splitBlocks d).1.length + 1 ≤ B := by rw [splitBlocks_fst_length]; omega
      rw [e1] at hn ⊢
      simp only [List.length_append, List.length_singleton] at hn
      obtain ⟨n, rfl⟩ : ∃ m, n = m + 1 := ⟨n - 1, by omega⟩
      have hne : ((splitBlocks d).1 ++ [padBlock (splitBlocks d).2]).isEmpty = false := by simp
      simp only [Spec.Wenc.chunksOf.go, hne, encChunks, hd, if_false]
      rw [List.take_of_length_le (by simp; omega), List.drop_of_length_le (by simp; omega), chunksOf_go_nil]
      simp

theorem encChunks_eq (B : Nat) (hB : 1 ≤ B) (f : Nat) (d : Bytes) (hf : d.length / (16 * B) + 1 ≤ f) :
    encChunks B f d = Spec.Wenc.chunksOf B (splitBlocks (Spec.Wenc.pkcs7 d)).1 :=
  (encChunks_eq_go B hB f d _ hf (Nat.le_refl _)).symm

/-- all chunks but the last have exactly `B` blocks -/
theorem encChunks_full (B : Nat) (f : Nat) : ∀ (d : Bytes) (j : Nat), j + 1 < (encChunks B f d).length →
    ((encChunks B f d).getD j []).length = B := by
  induction f with
  | zero => intro d j h; simp [encChunks] at h
  | succ f ih =>
    intro d j h
    by_cases hd : 16 * B ≤ d.length
    · simp only [encChunks, hd, if_true] at h ⊢
      cases j with
      | zero => simp [splitBlocks_fst_length]; omega
      | succ j =>
        simp only [List.length_cons] at h
        simpa using ih (d.drop (16 * B)) j (by omega)
    · simp [encChunks, hd] at h

end Wencry.Proofs.EncSpec
