import Wencry.Model.Pipe
import Wencry.Proofs.PipeCtl
import Wencry.Proofs.PipeProgress
namespace Wencry.Proofs.PipeDataInv
open Wencry Wencry.Model.Pipe Wencry.Model.IoBuffer Wencry.Proofs.PipeCtl Wencry.Proofs.PipeProgress
variable {σ : Type}

/-! ### arithmetic with the variable modulus -/

theorem mod_uniq (T a b : Nat) (h1 : a ≤ b) (h2 : b < a + T) (h : a % T = b % T) : a = b := by
  have := Nat.sub_mod_eq_zero_of_mod_eq h.symm
  have h3 : (b - a) % T = b - a := Nat.mod_eq_of_lt (by omega)
  omega

theorem win_exists (T : Nat) (i : Nat) (hi : i < T) : ∀ W, ∃ n, W ≤ n ∧ n < W + T ∧ n % T = i := by
  intro W
  induction W with
  | zero => exact ⟨i, by omega, by omega, Nat.mod_eq_of_lt hi⟩
  | succ W ih =>
    obtain ⟨n, h1, h2, h3⟩ := ih
    by_cases h : n = W
    · exact ⟨n + T, by omega, by omega, by rw [Nat.add_mod_right]; exact h3⟩
    · exact ⟨n, by omega, by omega, h3⟩

/-! ### the transformer run -/

theorem runF_length (f : σ → Block → σ × Block) (xs : List Block) : ∀ s, (runF f s xs).2.length = xs.length := by
  induction xs with
  | nil => intro s; rfl
  | cons b bs ih => intro s; simp [runF, ih]

/-- chunk `xs` with its first `d` blocks transformed -/
def partOut (f : σ → Block → σ × Block) (s0 : σ) (xs : List Block) (d : Nat) : List Block :=
  (runF f s0 xs).2.take d ++ xs.drop d

theorem partOut_zero (f : σ → Block → σ × Block) (s0 : σ) (xs : List Block) : partOut f s0 xs 0 = xs := by
  simp [partOut]

theorem partOut_full (f : σ → Block → σ × Block) (s0 : σ) (xs : List Block) : partOut f s0 xs xs.length = (runF f s0 xs).2 := by
  have := runF_length f xs s0
  simp [partOut, ← this]

theorem part_step (f : σ → Block → σ × Block) (z : Block) (xs : List Block) : ∀ (s0 : σ) (d : Nat), d < xs.length →
    (runF f s0 (xs.take (d+1))).1 = (f (runF f s0 (xs.take d)).1 ((partOut f s0 xs d).getD d z)).1 ∧
    partOut f s0 xs (d+1) = (partOut f s0 xs d).set d (f (runF f s0 (xs.take d)).1 ((partOut f s0 xs d).getD d z)).2 := by
  induction xs with
  | nil => intro s0 d h; simp at h
  | cons b bs ih =>
    intro s0 d h
    cases d with
    | zero => simp [partOut, runF]
    | succ d =>
      have := ih (f s0 b).1 d (by simpa using h)
      simp only [partOut] at this ⊢
      simp only [runF, List.take_succ_cons, List.drop_succ_cons, List.cons_append, List.getD_cons_succ, List.set_cons_succ]
      exact ⟨this.1, by rw [this.2]⟩

/-! ### worker logs -/

/-- same body as `PipeData.workerLog` -/
def wLog (inp : Input) (T n i : Nat) : List (Nat × Nat × Nat) :=
  ((List.range n).filter (fun c => c % T = i)).flatMap fun c => (List.range (inp c).1.length).map fun k => (i, c, k)

theorem wLog_zero (inp : Input) (T i : Nat) : wLog inp T 0 i = [] := by simp [wLog]

theorem wLog_succ_eq (inp : Input) (T c i : Nat) (h : c % T = i) :
    wLog inp T (c+1) i = wLog inp T c i ++ (List.range (inp c).1.length).map fun k => (i, c, k) := by
  simp [wLog, List.range_succ, List.filter_append, h]

theorem wLog_succ_ne (inp : Input) (T c i : Nat) (h : c % T ≠ i) :
    wLog inp T (c+1) i = wLog inp T c i := by
  simp [wLog, List.range_succ, List.filter_append, h]

theorem wLog_gap (inp : Input) (T i a : Nat) : ∀ b, a ≤ b → (∀ x, a ≤ x → x < b → x % T ≠ i) →
    wLog inp T b i = wLog inp T a i := by
  intro b
  induction b with
  | zero => intro h _; have : a = 0 := by omega
            subst this; rfl
  | succ b ih =>
    intro h hx
    by_cases hab : a = b + 1
    · subst hab; rfl
    · rw [wLog_succ_ne inp T b i (hx b (by omega) (by omega))]
      exact ih (by omega) (fun x h1 h2 => hx x h1 (by omega))

/-- nothing of residue `i` below `n ≤ i < T` -/
theorem wLog_low (inp : Input) (T i n : Nat) (hi : i < T) (hn : n ≤ i) : wLog inp T n i = [] := by
  rw [wLog_gap inp T i 0 n (by omega) (fun x _ hx => by rw [Nat.mod_eq_of_lt (by omega)]; omega)]
  exact wLog_zero inp T i

/-- chunk `c` complete, next own chunk is `c + T`: everything below `m ∈ (c, c+T]` -/
theorem wLog_next (inp : Input) (T c i m : Nat) (h : c % T = i) (h1 : c < m) (h2 : m ≤ c + T) :
    wLog inp T m i = wLog inp T c i ++ (List.range (inp c).1.length).map fun k => (i, c, k) := by
  rw [← wLog_succ_eq inp T c i h]
  apply wLog_gap inp T i (c+1) m (by omega)
  intro x hx1 hx2 hxe
  have := mod_uniq T c x (by omega) (by omega) (by omega)
  omega

/-! ### the data invariant -/

def wOf (pc : IoPc) (V : Nat) : Nat := match pc with | .iter | .done => V+1 | _ => V
def lOf (pc : IoPc) (V : Nat) : Nat := match pc with | .setRdy | .iter | .done => V+1 | _ => V
def eOf (pc : IoPc) : Nat := match pc with | .loadDecide | .loading | .setRdy | .iter | .done => 1 | _ => 0
def dOf (b : Buf) (p : WPc) : Nat := if p = .process then b.now - 1 else b.now

/-- log entries of worker i -/
def lgOf (s : St σ) (i : Nat) : List (Nat × Nat × Nat) := s.log.filter (fun e => e.1 = i)

section
variable (f : σ → Block → σ × Block) (inp : Input) (T : Nat) (ws0 : Nat → σ) (nCh : Nat)

/-- buffer i, whose next I/O visit is visit n (so its last one was n - T) -/
def BufD (n i : Nat) (b : Buf) (p : WPc) (dat : List Block) (fin : Bool) (w : σ) (cid : Nat) (lg : List (Nat × Nat × Nat)) : Prop :=
  (n < T → b.st = .empty ∧ fin = false ∧ w = refBefore f inp T ws0 n ∧ lg = []) ∧
  (T ≤ n → n - T < nCh →
     (b.st = .ready ∨ b.st = .updating) ∧ cid = n - T ∧ b.total = (inp (n - T)).1.length ∧
     fin = decide ((inp (n - T)).2 = .final) ∧
     dat = partOut f (refBefore f inp T ws0 (n - T)) (inp (n - T)).1 (dOf b p) ∧
     w = (runF f (refBefore f inp T ws0 (n - T)) ((inp (n - T)).1.take (dOf b p))).1 ∧
     lg = wLog inp T (n - T) i ++ (List.range (dOf b p)).map (fun k => (i, n - T, k))) ∧
  (T ≤ n → nCh ≤ n - T → b.st = .inv ∧ lg = wLog inp T nCh i)

/-- buffer i just loaded at visit n, not yet released -/
def BufL (n i : Nat) (b : Buf) (dat : List Block) (fin : Bool) (w : σ) (cid : Nat) (lg : List (Nat × Nat × Nat)) (lst : LSt) : Prop :=
  b.now = 0 ∧ b.total = (inp n).1.length ∧ dat = (inp n).1 ∧ fin = decide ((inp n).2 = .final) ∧
  w = refBefore f inp T ws0 n ∧ cid = n ∧ lg = wLog inp T n i ∧ lst = (inp n).2

def BufI (V : Nat) (s : St σ) (n : Nat) : Prop :=
  if s.iopc = .setRdy ∧ s.over = false ∧ n = V then
    BufL f inp T ws0 n (n % T) (s.buf (n % T)) (s.dat (n % T)) (s.fin (n % T)) (s.ws (n % T)) (s.cid (n % T)) (lgOf s (n % T)) s.lst
  else
    BufD f inp T ws0 nCh n (n % T) (s.buf (n % T)) (s.wpc (n % T)) (s.dat (n % T)) (s.fin (n % T)) (s.ws (n % T)) (s.cid (n % T)) (lgOf s (n % T))

def DI (ispad : Bool) (P : Nat) (V : Nat) (s : St σ) : Prop :=
  s.turn = V % T ∧
  (s.over = false → s.pos = lOf s.iopc V) ∧
  (s.over = true → P + 1 ≤ wOf s.iopc V) ∧
  s.nexp = min nCh (V + eOf s.iopc - T) ∧
  s.out = seqOut f inp ispad T ws0 s.nexp ∧
  (∀ n, wOf s.iopc V ≤ n → n < wOf s.iopc V + T → BufI f inp T ws0 nCh V s n)
end

section
variable (f : σ → Block → σ × Block) (inp : Input) (T : Nat) (ws0 : Nat → σ) (nCh : Nat)

theorem lgOf_append_same (s : St σ) (i c k : Nat) : (s.log ++ [(i, c, k)]).filter (fun e => e.1 = i) = lgOf s i ++ [(i, c, k)] := by
  simp [lgOf, List.filter_append]

theorem lgOf_append_other (s : St σ) (i j c k : Nat) (h : i ≠ j) : (s.log ++ [(i, c, k)]).filter (fun e => e.1 = j) = lgOf s j := by
  simp [lgOf, List.filter_append, h]

theorem BufD_mono (n i : Nat) (b b' : Buf) (p p' : WPc) (dat : List Block) (fin : Bool) (w : σ) (cid : Nat) (lg : List (Nat × Nat × Nat))
    (h1 : b'.st = b.st ∨ (b.st = .ready ∧ b'.st = .updating)) (h2 : b'.total = b.total) (h3 : dOf b' p' = dOf b p)
    (h : BufD f inp T ws0 nCh n i b p dat fin w cid lg) : BufD f inp T ws0 nCh n i b' p' dat fin w cid lg := by
  obtain ⟨ha, hb, hc⟩ := h
  simp only [BufD, h2, h3]
  refine ⟨fun hn => ?_, fun hn hm => ?_, fun hn hm => ?_⟩
  · have := ha hn; rcases h1 with h1 | h1
    · rw [h1]; exact this
    · rw [h1.1] at this; simp at this
  · have := hb hn hm; rcases h1 with h1 | h1
    · rw [h1]; exact this
    · rw [h1.2]; exact ⟨Or.inr rfl, this.2⟩
  · have := hc hn hm; rcases h1 with h1 | h1
    · rw [h1]; exact this
    · rw [h1.1] at this; simp at this

/-- a worker step preserves the description of its own buffer -/
theorem BufD_stepW (n i : Nat) (s s' : St σ) (hb : BufOK s i) (hs : stepW f s i = some s')
    (h : BufD f inp T ws0 nCh n i (s.buf i) (s.wpc i) (s.dat i) (s.fin i) (s.ws i) (s.cid i) (lgOf s i)) :
    BufD f inp T ws0 nCh n i (s'.buf i) (s'.wpc i) (s'.dat i) (s'.fin i) (s'.ws i) (s'.cid i) (lgOf s' i) := by
  simp only [BufOK, ioIn] at hb
  by_cases hproc : s.wpc i = .process
  · -- the transforming step
    have hst : (s.buf i).st = .ready := by
      rcases hb.2.2.2.2.2.2.2.1 (Or.inr (Or.inl hproc)) with h | ⟨_, h⟩
      · exact h
      · simp [hproc] at h
    obtain ⟨-, -, hle, -, h1, -⟩ := hb.2.1 hst
    have h1 := h1 hproc
    simp only [stepW, hproc, Option.some.injEq] at hs
    subst hs
    simp only [upd_same, lgOf]
    obtain ⟨ha, hd, hc⟩ := h
    refine ⟨fun hn => ?_, fun hn hm => ?_, fun hn hm => ?_⟩
    · have := ha hn; simp [hst] at this
    · obtain ⟨q1, q2, q3, q4, q5, q6, q7⟩ := hd hn hm
      have hd1 : dOf (s.buf i) (s.wpc i) = (s.buf i).now - 1 := by simp [dOf, hproc]
      have hd2 : dOf (s.buf i) .fetch = ((s.buf i).now - 1) + 1 := by simp [dOf]; omega
      rw [hd1] at q5 q6 q7
      have hk : (s.buf i).now - 1 < (inp (n - T)).1.length := by omega
      have hps := part_step f Block.zero (inp (n - T)).1 (refBefore f inp T ws0 (n - T)) _ hk
      rw [hd2]
      refine ⟨q1, q2, q3, q4, ?_, ?_, ?_⟩
      · rw [hps.2, ← q5, ← q6]
      · rw [hps.1, ← q5, ← q6]
      · rw [lgOf_append_same, q7, q2, List.range_succ, List.map_append, List.append_assoc]; rfl
    · have := hc hn hm; simp [hst] at this
  · unfold stepW at hs
    split at hs
    all_goals (try (simp only [Option.some.injEq] at hs))
    all_goals (try (split at hs))
    all_goals (try (simp only [Option.some.injEq, reduceCtorEq] at hs))
    all_goals (try subst hs)
    all_goals (rename_i hpc)
    all_goals (try (exact absurd hpc hproc))
    all_goals (simp only [upd_same, lgOf] at *)
    all_goals (rename_i hw)
    all_goals (
      refine BufD_mono f inp T ws0 nCh n i _ _ _ _ _ _ _ _ _ ?_ ?_ ?_ h
      · first | exact Or.inl rfl | exact Or.inr ⟨hpc, rfl⟩ 
      · rfl
      · simp [dOf, hw]; try omega)
end

section
variable (f : σ → Block → σ × Block)

theorem stepW_frame (s s' : St σ) (i : Nat) (hs : stepW f s i = some s') :
    (s'.turn = s.turn ∧ s'.over = s.over ∧ s'.pos = s.pos ∧ s'.nexp = s.nexp ∧ s'.out = s.out ∧ s'.lst = s.lst ∧
      s'.fin = s.fin ∧ s'.cid = s.cid) ∧
    (s'.iopc = s.iopc ∨ (s.iopc = .sleepUpd ∧ s'.iopc = .waitUpd)) ∧
    (∀ j, j ≠ i → s'.buf j = s.buf j ∧ s'.wpc j = s.wpc j ∧ s'.dat j = s.dat j ∧ s'.ws j = s.ws j ∧ lgOf s' j = lgOf s j) ∧
    ((s.wpc i = .initWait ∨ s.wpc i = .initSleep ∨ s.wpc i = .waitRdy ∨ s.wpc i = .sleepRdy) →
      s'.buf i = s.buf i ∧ s'.dat i = s.dat i ∧ s'.ws i = s.ws i ∧ lgOf s' i = lgOf s i) := by
  unfold stepW at hs
  split at hs
  all_goals (try (simp only [Option.some.injEq] at hs))
  all_goals (try (split at hs))
  all_goals (try (simp only [Option.some.injEq, reduceCtorEq] at hs))
  all_goals (try subst hs)
  all_goals (rename_i hpc)
  all_goals (
    refine ⟨by simp, ?_, ?_, ?_⟩
    · first | exact Or.inl rfl | (simp only []; split <;> simp_all)
    · intro j hj
      simp only [upd_other _ _ _ _ hj, lgOf, true_and, and_true]
      try (exact lgOf_append_other s i j _ _ (Ne.symm hj))
    · intro hp; simp_all [lgOf])
end

section
variable (f : σ → Block → σ × Block) (inp : Input) (T : Nat) (ws0 : Nat → σ) (nCh : Nat)

theorem DI_stepW (ispad : Bool) (P V : Nat) (s s' : St σ) (i : Nat) (hi : i < T) (hp : PInv T s)
    (h : DI f inp T ws0 nCh ispad P V s) (hs : stepW f s i = some s') : DI f inp T ws0 nCh ispad P V s' := by
  obtain ⟨⟨e1, e2, e3, e4, e5, e6, e7, e8⟩, hio, hfr, hpk⟩ := stepW_frame f s s' i hs
  obtain ⟨d1, d2, d3, d4, d5, d6⟩ := h
  have hw : wOf s'.iopc V = wOf s.iopc V := by
    rcases hio with h | ⟨h1, h2⟩
    · rw [h]
    · rw [h1, h2]; rfl
  have hl : lOf s'.iopc V = lOf s.iopc V := by
    rcases hio with h | ⟨h1, h2⟩
    · rw [h]
    · rw [h1, h2]; rfl
  have he : eOf s'.iopc = eOf s.iopc := by
    rcases hio with h | ⟨h1, h2⟩
    · rw [h]
    · rw [h1, h2]; rfl
  have hsr : (s'.iopc = .setRdy) = (s.iopc = .setRdy) := by
    rcases hio with h | ⟨h1, h2⟩
    · rw [h]
    · rw [h1, h2]; simp
  refine ⟨by rw [e1]; exact d1, by rw [e2, e3, hl]; exact d2, by rw [e2, hw]; exact d3, by rw [e4, he]; exact d4,
    by rw [e5, e4]; exact d5, ?_⟩
  intro n h1 h2
  rw [hw] at h1 h2
  have hn := d6 n h1 h2
  unfold BufI at hn ⊢
  rw [e2, e6, e7, e8]
  simp only [hsr]
  by_cases hni : n % T = i
  · by_cases hc : s.iopc = .setRdy ∧ s.over = false ∧ n = V
    · rw [if_pos hc] at hn ⊢
      have hpark := (io_exclusive T s hp i hi ⟨by rw [d1, ← hni, hc.2.2], Or.inr (Or.inr (Or.inr (Or.inr hc.1)))⟩).2
      obtain ⟨q1, q2, q3, q4⟩ := hpk hpark
      rw [hni] at hn ⊢
      rw [q1, q2, q3, q4]; exact hn
    · rw [if_neg hc] at hn ⊢
      rw [hni] at hn ⊢
      have := BufD_stepW f inp T ws0 nCh n i s s' (hp.2.2.2.2.2 i hi) hs hn
      rw [e7, e8] at this; exact this
  · obtain ⟨q1, q2, q3, q4, q5⟩ := hfr (n % T) hni
    rw [q1, q2, q3, q4, q5]; exact hn
end

section
variable (f : σ → Block → σ × Block) (inp : Input) (T : Nat) (ws0 : Nat → σ) (nCh : Nat)

/-- steps of the I/O thread that only move its pc (and possibly `lst`) -/
theorem DI_iopc (ispad : Bool) (P V : Nat) (s : St σ) (pc' : IoPc) (l' : LSt)
    (hw : wOf pc' V = wOf s.iopc V) (hl : s.over = false → lOf pc' V = lOf s.iopc V)
    (he : min nCh (V + eOf pc' - T) = min nCh (V + eOf s.iopc - T))
    (hsr : pc' = .setRdy → s.over = true) (hsr' : s.iopc ≠ .setRdy)
    (h : DI f inp T ws0 nCh ispad P V s) : DI f inp T ws0 nCh ispad P V { s with iopc := pc', lst := l' } := by
  obtain ⟨d1, d2, d3, d4, d5, d6⟩ := h
  refine ⟨d1, fun ho => by rw [hl ho]; exact d2 ho, by rw [hw]; exact d3, by rw [he]; exact d4, d5, ?_⟩
  intro n h1 h2
  simp only [hw] at h1 h2
  have hn := d6 n h1 h2
  unfold BufI at hn ⊢
  have c1 : ¬ (s.iopc = .setRdy ∧ s.over = false ∧ n = V) := fun h => hsr' h.1
  have c2 : ¬ (pc' = .setRdy ∧ s.over = false ∧ n = V) := fun h => by have := hsr h.1; simp [h.2.1] at this
  rw [if_neg c1] at hn
  simp only [lgOf] at hn ⊢
  rw [if_neg c2]; exact hn

theorem DI_waitUpd (ispad : Bool) (P V : Nat) (s s' : St σ) (hpc : s.iopc = .waitUpd)
    (h : DI f inp T ws0 nCh ispad P V s) (hs : stepIo inp ispad T s = some s') : DI f inp T ws0 nCh ispad P V s' := by
  simp only [stepIo, hpc, Option.some.injEq] at hs
  subst hs
  have := DI_iopc f inp T ws0 nCh ispad P V s (if (s.buf s.turn).st = .updating ∨ (s.buf s.turn).st = .empty then .chk else .sleepUpd) s.lst
    (by rw [hpc]; split <;> rfl) (by intro _; rw [hpc]; split <;> rfl) (by rw [hpc]; split <;> rfl) (by split <;> simp) (by simp [hpc]) h
  exact this
end

section
variable (f : σ → Block → σ × Block) (inp : Input) (T : Nat) (ws0 : Nat → σ) (nCh : Nat)

/-- the description of the buffer under the I/O thread's hand -/
theorem DI_cur (ispad : Bool) (P V : Nat) (s : St σ) (hT : 0 < T) (hw : wOf s.iopc V = V) (hc : ¬ (s.iopc = .setRdy ∧ s.over = false))
    (h : DI f inp T ws0 nCh ispad P V s) :
    BufD f inp T ws0 nCh V s.turn (s.buf s.turn) (s.wpc s.turn) (s.dat s.turn) (s.fin s.turn) (s.ws s.turn) (s.cid s.turn) (lgOf s s.turn) := by
  have := h.2.2.2.2.2 V (by omega) (by omega)
  unfold BufI at this
  rw [if_neg (fun h => hc ⟨h.1, h.2.1⟩), ← h.1] at this
  exact this

theorem DI_chk (ispad : Bool) (P V : Nat) (s s' : St σ) (hT : 0 < T) (hpc : s.iopc = .chk) (hp : PInv T s)
    (h : DI f inp T ws0 nCh ispad P V s) (hs : stepIo inp ispad T s = some s') : DI f inp T ws0 nCh ispad P V s' := by
  simp only [stepIo, hpc, Option.some.injEq] at hs
  subst hs
  have hcur := DI_cur f inp T ws0 nCh ispad P V s hT (by rw [hpc]; rfl) (by simp [hpc]) h
  have ht : s.turn < T := by rw [h.1]; exact Nat.mod_lt _ hT
  have hio := (io_exclusive T s hp s.turn ht ⟨rfl, Or.inl hpc⟩).1
  by_cases hu : (s.buf s.turn).st = .updating
  · rw [if_pos hu]
    exact DI_iopc f inp T ws0 nCh ispad P V s .exporting s.lst (by rw [hpc]; rfl) (by intro _; rw [hpc]; rfl) (by rw [hpc]; rfl) (by simp) (by simp [hpc]) h
  · rw [if_neg hu]
    have he : (s.buf s.turn).st = .empty := by rcases hio with h | h; exact h; exact absurd h hu
    have hVT : V < T := by
      apply Classical.byContradiction; intro hn
      by_cases hm : V - T < nCh
      · have := (hcur.2.1 (by omega) hm).1; simp [he] at this
      · have := (hcur.2.2 (by omega) (by omega)).1; simp [he] at this
    refine DI_iopc f inp T ws0 nCh ispad P V s .loadDecide s.lst (by rw [hpc]; rfl) (by intro _; rw [hpc]; rfl) ?_ (by simp) (by simp [hpc]) h
    rw [hpc]; simp only [eOf]; congr 1; omega

theorem DI_loadDecide (ispad : Bool) (P V : Nat) (s s' : St σ) (hpc : s.iopc = .loadDecide)
    (h : DI f inp T ws0 nCh ispad P V s) (hs : stepIo inp ispad T s = some s') : DI f inp T ws0 nCh ispad P V s' := by
  simp only [stepIo, hpc] at hs
  split at hs
  · rename_i ho
    simp only [Option.some.injEq] at hs; subst hs
    have := DI_iopc f inp T ws0 nCh ispad P V s .setRdy .nodata (by rw [hpc]; rfl) (by intro h; simp [ho] at h) (by rw [hpc]; rfl) (fun _ => ho) (by simp [hpc]) h
    exact this
  · simp only [Option.some.injEq] at hs; subst hs
    exact DI_iopc f inp T ws0 nCh ispad P V s .loading s.lst (by rw [hpc]; rfl) (by intro _; rw [hpc]; rfl) (by rw [hpc]; rfl) (by simp) (by simp [hpc]) h

theorem DI_iter_done (ispad : Bool) (P V : Nat) (s : St σ) (hpc : s.iopc = .iter)
    (h : DI f inp T ws0 nCh ispad P V s) : DI f inp T ws0 nCh ispad P V { s with iopc := .done } :=
  DI_iopc f inp T ws0 nCh ispad P V s .done s.lst (by rw [hpc]; rfl) (by intro _; rw [hpc]; rfl) (by rw [hpc]; rfl) (by simp) (by simp [hpc]) h
end

section
variable (f : σ → Block → σ × Block) (inp : Input) (T : Nat) (ws0 : Nat → σ) (nCh : Nat)

theorem seqOut_succ (ispad : Bool) (n : Nat) :
    seqOut f inp ispad T ws0 (n + 1) = seqOut f inp ispad T ws0 n ++ refExport f inp ispad T ws0 n := by
  simp [seqOut, List.range_succ]

/-- what PInv and DI say about the buffer at `exporting` -/
theorem DI_at_export (ispad : Bool) (P V : Nat) (s : St σ) (hT : 0 < T) (hpc : s.iopc = .exporting) (hp : PInv T s)
    (h : DI f inp T ws0 nCh ispad P V s) :
    T ≤ V ∧ V - T < nCh ∧ s.nexp = V - T ∧ s.cid s.turn = V - T ∧ (s.buf s.turn).now = (s.buf s.turn).total ∧
    (s.buf s.turn).total = (inp (V - T)).1.length ∧
    s.dat s.turn = refOut f inp T ws0 (V - T) ∧ s.fin s.turn = decide ((inp (V - T)).2 = .final) := by
  have hcur := DI_cur f inp T ws0 nCh ispad P V s hT (by rw [hpc]; rfl) (by simp [hpc]) h
  have ht : s.turn < T := by rw [h.1]; exact Nat.mod_lt _ hT
  have hb := hp.2.2.2.2.2 s.turn ht
  simp only [BufOK, ioIn] at hb
  have hu : (s.buf s.turn).st = .updating := hb.2.2.2.2.2.2.2.2.2.1 trivial hpc
  have hnt : (s.buf s.turn).now = (s.buf s.turn).total := hb.2.2.2.2.2.2.2.2.2.2.2.2 (Or.inr hu) (by simp [hpc])
  have hw : s.wpc s.turn ≠ .process := by
    rcases hb.2.2.1 hu with h | h <;> simp [h]
  have hVT : T ≤ V := by
    apply Classical.byContradiction; intro hn
    have := (hcur.1 (by omega)).1; simp [hu] at this
  have hm : V - T < nCh := by
    apply Classical.byContradiction; intro hn
    have := (hcur.2.2 hVT (by omega)).1; simp [hu] at this
  obtain ⟨q1, q2, q3, q4, q5, q6, q7⟩ := hcur.2.1 hVT hm
  have hd : dOf (s.buf s.turn) (s.wpc s.turn) = (inp (V - T)).1.length := by simp [dOf, hw, hnt, q3]
  rw [hd, partOut_full] at q5
  have hne := h.2.2.2.1
  rw [hpc] at hne; simp only [eOf] at hne
  exact ⟨hVT, hm, by omega, q2, hnt, q3, q5, q4⟩

theorem DI_exporting (ispad : Bool) (P V : Nat) (s s' : St σ) (hT : 0 < T) (hpc : s.iopc = .exporting) (hp : PInv T s)
    (h : DI f inp T ws0 nCh ispad P V s) (hs : stepIo inp ispad T s = some s') : DI f inp T ws0 nCh ispad P V s' := by
  obtain ⟨a1, a2, a3, a4, a5, a6, a7, a8⟩ := DI_at_export f inp T ws0 nCh ispad P V s hT hpc hp h
  simp only [stepIo, hpc, Option.some.injEq] at hs
  subst hs
  obtain ⟨d1, d2, d3, d4, d5, d6⟩ := h
  rw [hpc] at d2 d3 d6
  refine ⟨d1, d2, d3, ?_, ?_, ?_⟩
  · simp only [eOf]; omega
  · simp only []
    rw [seqOut_succ, ← d5]; congr 1
    simp only [ioBufOf, refExport, a5, a6, a7, a8, a3]
  · intro n h1 h2
    have hn := d6 n h1 h2
    simp only [BufI, hpc, lgOf, reduceCtorEq, false_and, if_false] at hn ⊢
    exact hn
end

section
variable (f : σ → Block → σ × Block) (inp : Input) (T : Nat) (ws0 : Nat → σ) (nCh : Nat)

theorem refBefore_next (hT : 0 < T) (V : Nat) (h : T ≤ V) :
    refBefore f inp T ws0 V = (runF f (refBefore f inp T ws0 (V - T)) (inp (V - T)).1).1 := by
  rw [refBefore]; rw [dif_neg (by omega)]

theorem sub_mod_self (T V : Nat) (h : T ≤ V) : (V - T) % T = V % T := by
  rw [← Nat.add_mod_right (V - T) T]; congr 1; omega

/-- a buffer that is parked under the I/O thread at visit V: its worker is exactly before chunk V -/
theorem BufD_parked (V i : Nat) (hT : 0 < T) (hi : V % T = i) (b : Buf) (p : WPc) (dat : List Block) (fin : Bool) (w : σ) (cid : Nat) (lg : List (Nat × Nat × Nat))
    (hnow : b.now = b.total) (hp : p ≠ .process)
    (hfull : ∀ c, c + T = V → c < nCh → (inp c).2 = .full) 
    (h : BufD f inp T ws0 nCh V i b p dat fin w cid lg) (hV : V ≤ nCh) :
    fin = false ∧ w = refBefore f inp T ws0 V ∧ lg = wLog inp T V i := by
  have hiT : i < T := by rw [← hi]; exact Nat.mod_lt _ hT
  by_cases hVT : V < T
  · obtain ⟨q1, q2, q3, q4⟩ := h.1 hVT
    have : V = i := by rw [← hi]; exact (Nat.mod_eq_of_lt hVT).symm
    exact ⟨q2, q3, by rw [q4, wLog_low inp T i V hiT (by omega)]⟩
  · have hm : V - T < nCh := by omega
    obtain ⟨q1, q2, q3, q4, q5, q6, q7⟩ := h.2.1 (by omega) hm
    have hd : dOf b p = (inp (V - T)).1.length := by simp [dOf, hp, hnow, q3]
    rw [hd] at q6 q7
    rw [List.take_length] at q6
    refine ⟨?_, ?_, ?_⟩
    · rw [q4, hfull (V - T) (by omega) hm]; rfl
    · rw [q6, refBefore_next f inp T ws0 hT V (by omega)]
    · rw [q7]; exact (wLog_next inp T (V - T) i V (by rw [sub_mod_self T V (by omega)]; exact hi) (by omega) (by omega)).symm
end

section
variable (f : σ → Block → σ × Block) (inp : Input) (T : Nat) (ws0 : Nat → σ)

theorem nChunks_ge (P : Nat) : P ≤ nChunks inp P := by unfold nChunks; split <;> omega
theorem nChunks_le (P : Nat) : nChunks inp P ≤ P + 1 := by unfold nChunks; split <;> omega

theorem win_ne (T V n : Nat) (h1 : V ≤ n) (h2 : n < V + T) (h : n ≠ V) : n % T ≠ V % T := by
  intro he; exact h (mod_uniq T V n h1 h2 he.symm).symm

theorem DI_loading (ispad : Bool) (P V : Nat) (s s' : St σ) (hT : 0 < T) (hP : FirstNonFull inp P) (hpc : s.iopc = .loading)
    (hp : PInv T s) (hr : RInv inp P s)
    (h : DI f inp T ws0 (nChunks inp P) ispad P V s) (hs : stepIo inp ispad T s = some s') :
    DI f inp T ws0 (nChunks inp P) ispad P V s' := by
  have hcur := DI_cur f inp T ws0 _ ispad P V s hT (by rw [hpc]; rfl) (by simp [hpc]) h
  have ht : s.turn < T := by rw [h.1]; exact Nat.mod_lt _ hT
  have hov : s.over = false := hr.1 hpc
  have hposP : s.pos ≤ P := hr.2.1 hov (by simp [hpc])
  obtain ⟨d1, d2, d3, d4, d5, d6⟩ := h
  have hpos : s.pos = V := by have := d2 hov; rw [hpc] at this; exact this
  have hio := io_exclusive T s hp s.turn ht ⟨rfl, Or.inr (Or.inr (Or.inr (Or.inl hpc)))⟩
  have hb := hp.2.2.2.2.2 s.turn ht
  simp only [BufOK, ioIn] at hb
  have hnt : (s.buf s.turn).now = (s.buf s.turn).total := hb.2.2.2.2.2.2.2.2.2.2.2.2 hio.1 (by simp [hpc])
  have hw : s.wpc s.turn ≠ .process := by
    rcases hio.2 with h | h | h | h <;> simp [h]
  have hpk := BufD_parked f inp T ws0 _ V s.turn hT d1.symm _ _ _ _ _ _ _ hnt hw
    (fun c hc _ => hP.2 c (by omega)) hcur (by have := nChunks_ge inp P; omega)
  obtain ⟨k1, k2, k3⟩ := hpk
  simp only [stepIo, hpc, Option.some.injEq] at hs
  subst hs
  rw [hpc] at d3 d4 d6
  refine ⟨d1, ?_, ?_, ?_, d5, ?_⟩
  · intro _; simp only [lOf]; omega
  · intro ho; simp [hov] at ho
  · exact d4
  · intro n h1 h2
    simp only [wOf] at h1 h2
    have hn := d6 n h1 h2
    by_cases hnV : n = V
    · subst hnV
      simp only [BufI, hov, true_and, if_true, ← d1, upd_same, lgOf, BufL, hpos, k1, Bool.false_or, and_true]
      exact ⟨k2, k3⟩
    · have hne : n % T ≠ s.turn := by rw [d1]; exact win_ne T V n h1 h2 hnV
      simp only [BufI, hpc, reduceCtorEq, false_and, if_false] at hn
      simp only [BufI, hnV, and_false, if_false, upd_other _ _ _ _ hne, lgOf] at hn ⊢
      exact hn
end

section
variable (f : σ → Block → σ × Block) (inp : Input) (T : Nat) (ws0 : Nat → σ)

theorem wake_parked (p : WPc) (h : p = .initWait ∨ p = .initSleep ∨ p = .waitRdy ∨ p = .sleepRdy) : wake p ≠ .process := by
  rcases h with h | h | h | h <;> simp [h, wake]

theorem DI_setRdy_data (ispad : Bool) (P V : Nat) (s : St σ) (hT : 0 < T) (hP : FirstNonFull inp P) (hpc : s.iopc = .setRdy)
    (hp : PInv T s) (hr : RInv inp P s) (hl : s.lst ≠ .nodata)
    (h : DI f inp T ws0 (nChunks inp P) ispad P V s) :
    DI f inp T ws0 (nChunks inp P) ispad P V
      { s with over := decide (s.lst ≠ .full), buf := upd s.buf s.turn { s.buf s.turn with st := .ready },
               wpc := upd s.wpc s.turn (wake (s.wpc s.turn)), iopc := .iter } := by
  have ht : s.turn < T := by rw [h.1]; exact Nat.mod_lt _ hT
  have hov : s.over = false := by
    cases ho : s.over
    · rfl
    · exact absurd (hr.2.2.2 ho hpc) hl
  obtain ⟨d1, d2, d3, d4, d5, d6⟩ := h
  have hpos : s.pos = V + 1 := by have := d2 hov; rw [hpc] at this; exact this
  obtain ⟨-, hposP, hlst⟩ := hr.2.2.1 hov hpc
  have hio := io_exclusive T s hp s.turn ht ⟨rfl, Or.inr (Or.inr (Or.inr (Or.inr hpc)))⟩
  have hw := wake_parked _ hio.2
  have hL := d6 V (by rw [hpc]; exact Nat.le_refl _) (by rw [hpc]; simp only [wOf]; omega)
  simp only [BufI, hpc, hov, true_and, if_true, ← d1] at hL
  obtain ⟨l1, l2, l3, l4, l5, l6, l7, l8⟩ := hL
  have hVn : V < nChunks inp P := by
    by_cases hVP : V < P
    · have := nChunks_ge inp P; omega
    · have hVP : V = P := by omega
      have h1 := hP.1
      rw [← hVP, ← l8] at h1
      have : s.lst = .final := by cases hx : s.lst <;> simp_all
      unfold nChunks; rw [← hVP, ← l8, if_pos this]; omega
  rw [hpc] at d3 d4 d6
  refine ⟨d1, ?_, ?_, d4, d5, ?_⟩
  · intro _; simp only [lOf]; exact hpos
  · intro ho; simp only [wOf]
    have hnf : s.lst ≠ .full := by simpa using ho
    rw [l8] at hnf
    have : ¬ V < P := fun hlt => hnf (hP.2 V hlt)
    omega
  · intro n h1 h2
    simp only [wOf] at h1 h2
    simp only [BufI, reduceCtorEq, false_and, if_false, lgOf]
    by_cases hnV : n = V + T
    · subst hnV
      have hm : (V + T) % T = s.turn := by rw [Nat.add_mod_right]; exact d1.symm
      rw [hm]; simp only [upd_same]
      have hd : dOf { st := .ready, total := (s.buf s.turn).total, now := (s.buf s.turn).now } (wake (s.wpc s.turn)) = 0 := by
        simp [dOf, hw, l1]
      refine ⟨fun hlt => by omega, fun _ _ => ?_, fun _ hge => by omega⟩
      rw [hd]
      simp only [Nat.add_sub_cancel, partOut_zero, List.take_zero, runF, List.range_zero, List.map_nil, List.append_nil]
      exact ⟨by simp, l6, l2, l4, l3, l5, l7⟩
    · have hne : n % T ≠ s.turn := by rw [d1]; exact win_ne T V n (by omega) (by omega) (by omega)
      have hn := d6 n (by simp only [wOf]; omega) (by simp only [wOf]; omega)
      unfold BufI at hn
      rw [if_neg (fun hc => by omega)] at hn
      simp only [lgOf] at hn
      simp only [upd_other _ _ _ _ hne]
      exact hn
end

section
variable (f : σ → Block → σ × Block) (inp : Input) (T : Nat) (ws0 : Nat → σ) (nCh : Nat)

/-- a parked buffer under the I/O thread at a visit V ≥ nCh: its worker has done all of its chunks -/
theorem BufD_parked_end (V i : Nat) (hT : 0 < T) (hi : V % T = i) (b : Buf) (p : WPc) (dat : List Block) (fin : Bool) (w : σ) (cid : Nat) (lg : List (Nat × Nat × Nat))
    (hnow : b.now = b.total) (hp : p ≠ .process)
    (h : BufD f inp T ws0 nCh V i b p dat fin w cid lg) (hV : nCh ≤ V) :
    lg = wLog inp T nCh i := by
  have hiT : i < T := by rw [← hi]; exact Nat.mod_lt _ hT
  by_cases hVT : V < T
  · obtain ⟨q1, q2, q3, q4⟩ := h.1 hVT
    have : V = i := by rw [← hi]; exact (Nat.mod_eq_of_lt hVT).symm
    rw [q4, wLog_low inp T i nCh hiT (by omega)]
  · by_cases hm : V - T < nCh
    · obtain ⟨q1, q2, q3, q4, q5, q6, q7⟩ := h.2.1 (by omega) hm
      have hd : dOf b p = (inp (V - T)).1.length := by simp [dOf, hp, hnow, q3]
      rw [hd] at q7
      rw [q7]; exact (wLog_next inp T (V - T) i nCh (by rw [sub_mod_self T V (by omega)]; exact hi) (by omega) (by omega)).symm
    · exact (h.2.2 (by omega) (by omega)).2
end

section
variable (f : σ → Block → σ × Block) (inp : Input) (T : Nat) (ws0 : Nat → σ)

theorem DI_setRdy_nodata (ispad : Bool) (P V : Nat) (s : St σ) (hT : 0 < T) (hP : FirstNonFull inp P) (hpc : s.iopc = .setRdy)
    (hp : PInv T s) (hr : RInv inp P s) (hl : s.lst = .nodata)
    (h : DI f inp T ws0 (nChunks inp P) ispad P V s) :
    DI f inp T ws0 (nChunks inp P) ispad P V
      { s with over := true, buf := upd s.buf s.turn { s.buf s.turn with st := .inv }, live := s.live - 1,
               wpc := upd s.wpc s.turn (wake (s.wpc s.turn)), iopc := .iter } := by
  have ht : s.turn < T := by rw [h.1]; exact Nat.mod_lt _ hT
  obtain ⟨d1, d2, d3, d4, d5, d6⟩ := h
  have hio := io_exclusive T s hp s.turn ht ⟨rfl, Or.inr (Or.inr (Or.inr (Or.inr hpc)))⟩
  have hw : s.wpc s.turn ≠ .process := by
    rcases hio.2 with h | h | h | h <;> simp [h]
  have hnt : (s.buf s.turn).now = (s.buf s.turn).total := hp.2.2.2.2.1 hpc hl
  have hL := d6 V (by rw [hpc]; exact Nat.le_refl _) (by rw [hpc]; simp only [wOf]; omega)
  -- V ≥ nCh, P ≤ V and the log of worker `turn` is complete
  have key : nChunks inp P ≤ V ∧ P ≤ V ∧ lgOf s s.turn = wLog inp T (nChunks inp P) s.turn := by
    cases hov : s.over
    · have hpos : s.pos = V + 1 := by have := d2 hov; rw [hpc] at this; exact this
      obtain ⟨-, hposP, hlst⟩ := hr.2.2.1 hov hpc
      simp only [BufI, hpc, hov, true_and, if_true, ← d1] at hL
      obtain ⟨l1, l2, l3, l4, l5, l6, l7, l8⟩ := hL
      have hVP : V = P := by
        have : ¬ V < P := fun hlt => by
          have := hP.2 V hlt; rw [← l8, hl] at this; simp at this
        omega
      have hn : nChunks inp P = V := by
        unfold nChunks; rw [← hVP, ← l8, hl]; simp
      exact ⟨by omega, by omega, by rw [hn]; exact l7⟩
    · have h3 := d3 hov; rw [hpc] at h3; simp only [wOf] at h3
      have := nChunks_le inp P
      simp only [BufI, hpc, hov, reduceCtorEq, false_and, and_false, if_false, ← d1] at hL
      exact ⟨by omega, by omega, BufD_parked_end f inp T ws0 _ V s.turn hT d1.symm _ _ _ _ _ _ _ hnt hw hL (by omega)⟩
  obtain ⟨k1, k2, k3⟩ := key
  rw [hpc] at d3 d4 d6
  refine ⟨d1, ?_, ?_, d4, d5, ?_⟩
  · intro ho; simp at ho
  · intro _; simp only [wOf]; omega
  · intro n h1 h2
    simp only [wOf] at h1 h2
    simp only [BufI, reduceCtorEq, false_and, if_false, lgOf]
    by_cases hnV : n = V + T
    · subst hnV
      have hm : (V + T) % T = s.turn := by rw [Nat.add_mod_right]; exact d1.symm
      rw [hm]; simp only [upd_same]
      refine ⟨fun hlt => by omega, fun _ hlt => by omega, fun _ _ => ⟨rfl, k3⟩⟩
    · have hne : n % T ≠ s.turn := by rw [d1]; exact win_ne T V n (by omega) (by omega) (by omega)
      have hn := d6 n (by simp only [wOf]; omega) (by simp only [wOf]; omega)
      unfold BufI at hn
      rw [if_neg (fun hc => by omega)] at hn
      simp only [lgOf] at hn
      simp only [upd_other _ _ _ _ hne]
      exact hn

theorem DI_setRdy (ispad : Bool) (P V : Nat) (s s' : St σ) (hT : 0 < T) (hP : FirstNonFull inp P) (hpc : s.iopc = .setRdy)
    (hp : PInv T s) (hr : RInv inp P s)
    (h : DI f inp T ws0 (nChunks inp P) ispad P V s) (hs : stepIo inp ispad T s = some s') :
    DI f inp T ws0 (nChunks inp P) ispad P V s' := by
  simp only [stepIo, hpc] at hs
  split at hs
  · rename_i hl
    simp only [Option.some.injEq] at hs; subst hs
    exact DI_setRdy_data f inp T ws0 ispad P V s hT hP hpc hp hr hl h
  · rename_i hl
    simp only [Option.some.injEq] at hs; subst hs
    exact DI_setRdy_nodata f inp T ws0 ispad P V s hT hP hpc hp hr (by simpa using hl) h
end

section
variable (f : σ → Block → σ × Block) (inp : Input) (T : Nat) (ws0 : Nat → σ) (nCh : Nat)

theorem nextTurn_first (buf : Nat → Buf) (t : Nat) (hT : 0 < T) (h : (buf ((t + 1) % T)).st ≠ .inv) :
    nextTurn T buf t T = (t + 1) % T := by
  cases T with
  | zero => omega
  | succ k => simp only [nextTurn]; rw [if_pos h]

/-- if the next buffer in round-robin order is INV then every buffer is -/
theorem DI_iter_allInv (ispad : Bool) (P V : Nat) (s : St σ) (hT : 0 < T) (hpc : s.iopc = .iter)
    (h : DI f inp T ws0 nCh ispad P V s) (hinv : (s.buf ((V + 1) % T)).st = .inv) : ∀ i, i < T → (s.buf i).st = .inv := by
  have d6 := h.2.2.2.2.2
  rw [hpc] at d6
  simp only [wOf, BufI, hpc, reduceCtorEq, false_and, if_false] at d6
  have h0 := d6 (V + 1) (by omega) (by omega)
  have hVT : T ≤ V + 1 := by
    apply Classical.byContradiction; intro hn
    have := (h0.1 (by omega)).1; simp [hinv] at this
  have hm : nCh ≤ V + 1 - T := by
    apply Classical.byContradiction; intro hn
    have := (h0.2.1 hVT (by omega)).1; simp [hinv] at this
  intro i hi
  obtain ⟨n, n1, n2, n3⟩ := win_exists T i hi (V + 1)
  have := ((d6 n n1 n2).2.2 (by omega) (by omega)).1
  rw [n3] at this; exact this

theorem DI_iter (ispad : Bool) (P V : Nat) (s s' : St σ) (hT : 0 < T) (hpc : s.iopc = .iter) (hp : PInv T s)
    (h : DI f inp T ws0 nCh ispad P V s) (hs : stepIo inp ispad T s = some s') :
    DI f inp T ws0 nCh ispad P V s' ∨ DI f inp T ws0 nCh ispad P (V + 1) s' := by
  simp only [stepIo, hpc] at hs
  split at hs
  · simp only [Option.some.injEq] at hs; subst hs
    exact Or.inl (DI_iter_done f inp T ws0 nCh ispad P V s hpc h)
  · rename_i hlive
    simp only [Option.some.injEq] at hs; subst hs
    refine Or.inr ?_
    have hni : (s.buf ((V + 1) % T)).st ≠ .inv := by
      intro hinv
      have hall := DI_iter_allInv f inp T ws0 nCh ispad P V s hT hpc h hinv
      apply hlive
      rw [hp.2.1]
      apply Classical.byContradiction; intro hne
      obtain ⟨k, hk, hk'⟩ := liveCount_pos_exists T s.buf (by omega)
      exact hk' (hall k hk)
    obtain ⟨d1, d2, d3, d4, d5, d6⟩ := h
    rw [hpc] at d2 d3 d4 d6
    refine ⟨?_, d2, d3, d4, d5, ?_⟩
    · simp only [d1]
      rw [nextTurn_first T s.buf (V % T) hT (by rw [Nat.mod_add_mod]; exact hni), Nat.mod_add_mod]
    · intro n h1 h2
      have hn := d6 n h1 h2
      simp only [BufI, hpc, reduceCtorEq, false_and, if_false, lgOf] at hn ⊢
      exact hn
end

theorem DI_init (f : σ → Block → σ × Block) (inp : Input) (ispad : Bool) (P T : Nat) (_hT : 0 < T) (ws0 : Nat → σ) (nCh : Nat) :
    DI f inp T ws0 nCh ispad P 0 (init T ws0) := by
  refine ⟨by simp [init], by simp [init, lOf], by simp [init], by simp [init, eOf], by simp [init, seqOut], ?_⟩
  intro n h1 h2
  simp only [init, wOf] at h1 h2
  have hn : n % T = n := Nat.mod_eq_of_lt (by omega)
  simp only [BufI, init, BufD, lgOf, hn]
  simp
  rw [refBefore]; simp; omega

section
variable (f : σ → Block → σ × Block) (inp : Input) (T : Nat) (ws0 : Nat → σ)

theorem DI_stepIo (ispad : Bool) (P V : Nat) (s s' : St σ) (hT : 0 < T) (hP : FirstNonFull inp P)
    (hp : PInv T s) (hr : RInv inp P s)
    (h : DI f inp T ws0 (nChunks inp P) ispad P V s) (hs : stepIo inp ispad T s = some s') :
    ∃ V', DI f inp T ws0 (nChunks inp P) ispad P V' s' := by
  cases hpc : s.iopc
  · exact ⟨V, DI_waitUpd f inp T ws0 _ ispad P V s s' hpc h hs⟩
  · simp [stepIo, hpc] at hs
  · exact ⟨V, DI_chk f inp T ws0 _ ispad P V s s' hT hpc hp h hs⟩
  · exact ⟨V, DI_exporting f inp T ws0 _ ispad P V s s' hT hpc hp h hs⟩
  · exact ⟨V, DI_loadDecide f inp T ws0 _ ispad P V s s' hpc h hs⟩
  · exact ⟨V, DI_loading f inp T ws0 ispad P V s s' hT hP hpc hp hr h hs⟩
  · exact ⟨V, DI_setRdy f inp T ws0 ispad P V s s' hT hP hpc hp hr h hs⟩
  · rcases DI_iter f inp T ws0 _ ispad P V s s' hT hpc hp h hs with h | h
    · exact ⟨V, h⟩
    · exact ⟨V + 1, h⟩
  · simp [stepIo, hpc] at hs

/-- the data invariant holds, for some visit counter, in every reachable state -/
theorem reach_DI (hwf : inp.WF) (ispad : Bool) (P : Nat) (hT : 0 < T) (hP : FirstNonFull inp P) (s : St σ)
    (h : Reach f inp ispad T ws0 s) : ∃ V, DI f inp T ws0 (nChunks inp P) ispad P V s := by
  induction h with
  | init => exact ⟨0, DI_init f inp ispad P T hT ws0 _⟩
  | step s s' tid hr hs ih =>
    obtain ⟨V, hV⟩ := ih
    obtain ⟨hp, hri⟩ := reach_both f inp hwf ispad P T hT hP ws0 s hr
    cases tid with
    | none => exact DI_stepIo f inp T ws0 ispad P V s s' hT hP hp hri hV hs
    | some i =>
      simp only [step] at hs
      split at hs
      · rename_i hi; exact ⟨V, DI_stepW f inp T ws0 _ ispad P V s s' i hi hp hV hs⟩
      · simp at hs
end

end Wencry.Proofs.PipeDataInv
