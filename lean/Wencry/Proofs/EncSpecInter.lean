/-
Helper for EncSpec: round-robin interleaving of chunks over T continuous streams = slices of per-stream runs.
-/
import Wencry.Proofs.EncSpecLoop
namespace Wencry.Proofs.EncSpec
open Wencry Wencry.Model Wencry.Model.File Wencry.Model.Stdio Wencry.Model.IoBuffer Wencry.Model.Modes Wencry.Proofs.Modes

/-! ### arithmetic -/

theorem div_eq_of (y T k : Nat) (lo : T * k ≤ y) (hi : y < T * k + T) : y / T = k := by
  apply Nat.div_eq_of_lt_le
  · rw [Nat.mul_comm]; exact lo
  · rw [Nat.succ_mul, Nat.mul_comm]; exact hi

theorem count_step (T j i : Nat) (hi : i < T) :
    (j + 1 + (T - 1 - i)) / T = (j + (T - 1 - i)) / T + if j % T = i then 1 else 0 := by
  have hj := Nat.div_add_mod j T
  have hr := Nat.mod_lt j (show 0 < T by omega)
  generalize j / T = q at *
  generalize j % T = r at *
  subst hj
  have hs : T * (q + 1) = T * q + T := Nat.mul_succ T q
  by_cases h1 : r = i
  · rw [if_pos h1, div_eq_of _ T (q + 1) (by omega) (by omega), div_eq_of _ T q (by omega) (by omega)]
  · rw [if_neg h1]
    by_cases h2 : r < i
    · rw [div_eq_of _ T q (by omega) (by omega), div_eq_of _ T q (by omega) (by omega)]; rfl
    · rw [div_eq_of _ T (q + 1) (by omega) (by omega), div_eq_of _ T (q + 1) (by omega) (by omega)]

theorem count_self (T j : Nat) (hT : 1 ≤ T) : (j + (T - 1 - j % T)) / T = j / T := by
  have hj := Nat.div_add_mod j T
  have hr := Nat.mod_lt j (show 0 < T by omega)
  generalize j / T = q at *
  generalize j % T = r at *
  subst hj
  exact div_eq_of _ T q (by omega) (by omega)

/-! ### what stream `i` has seen -/

/-- the blocks of chunks `a ≤ j < a + n` with `j % T = i`, concatenated -/
def seg (T : Nat) (chunks : List (List Block)) (a n i : Nat) : List Block :=
  ((List.range' a n).filter (fun j => j % T = i)).flatMap fun j => chunks.getD j []

theorem streamInput_eq (T : Nat) (chunks : List (List Block)) (i : Nat) :
    Spec.Wenc.streamInput T chunks i = seg T chunks 0 chunks.length i := by
  simp [Spec.Wenc.streamInput, seg, List.range_eq_range']

theorem seg_append (T : Nat) (chunks : List (List Block)) (a m n i : Nat) :
    seg T chunks a (m + n) i = seg T chunks a m i ++ seg T chunks (a + m) n i := by
  simp [seg, ← List.range'_append_1]

theorem seg_one (T : Nat) (chunks : List (List Block)) (a i : Nat) :
    seg T chunks a 1 i = if a % T = i then chunks.getD a [] else [] := by
  by_cases h : a % T = i <;> simp [seg, h]

theorem seg_zero (T : Nat) (chunks : List (List Block)) (a i : Nat) : seg T chunks a 0 i = [] := by simp [seg]

theorem seg_length (T B : Nat) (chunks : List (List Block)) (i : Nat) (hi : i < T) :
    ∀ j, (∀ j', j' < j → (chunks.getD j' []).length = B) → (seg T chunks 0 j i).length = ((j + (T - 1 - i)) / T) * B := by
  intro j
  induction j with
  | zero =>
    intro _
    rw [seg_zero, Nat.zero_add, Nat.div_eq_of_lt (by omega)]; simp
  | succ j ih =>
    intro h
    rw [seg_append, List.length_append, ih (fun j' hj' => h j' (by omega)), seg_one, Nat.zero_add, count_step T j i hi, Nat.add_mul]
    by_cases h1 : j % T = i
    · have := h j (by omega)
      rw [if_pos h1, if_pos h1, this]; simp
    · simp [h1]

theorem seg_length_self (T B : Nat) (hT : 1 ≤ T) (chunks : List (List Block)) (j : Nat)
    (h : ∀ j', j' < j → (chunks.getD j' []).length = B) : (seg T chunks 0 j (j % T)).length = (j / T) * B := by
  rw [seg_length T B chunks (j % T) (Nat.mod_lt j (by omega)) j h, count_self T j hT]

/-! ### the interleaving -/

/-- slice of the continuous run of stream `j % T` that belongs to chunk `j` -/
def sliceOf (T : Nat) (s0 : Stream) (chunks : List (List Block)) (j : Nat) : List Block :=
  ((s0.run (seg T chunks 0 chunks.length (j % T))).2.drop (seg T chunks 0 j (j % T)).length).take (chunks.getD j []).length

theorem slice_eq (s0 : Stream) (P c R : List Block) :
    ((s0.run (P ++ (c ++ R))).2.drop P.length).take c.length = ((s0.run P).1.run c).2 := by
  rw [run_append, run_append]
  simp only []
  rw [List.drop_left' (run_length s0 P), List.take_left' (run_length _ c)]

theorem runChunks_eq (T : Nat) (hT : 1 ≤ T) (s0 : Stream) (chunks : List (List Block)) :
    ∀ (n j : Nat) (ss : List Stream), n + j = chunks.length →
      (∀ i, i < T → ss[i]? = some (s0.run (seg T chunks 0 j i)).1) →
      runChunks T j ss (chunks.drop j) = (List.range' j n).map (sliceOf T s0 chunks) := by
  intro n
  induction n with
  | zero =>
    intro j ss hj _
    rw [List.drop_of_length_le (by omega)]; rfl
  | succ n ih =>
    intro j ss hj hinv
    have hjl : j < chunks.length := by omega
    have hm : j % T < T := Nat.mod_lt j (by omega)
    rw [List.drop_eq_getElem_cons hjl, List.range'_succ, List.map_cons]
    simp only [runChunks, hinv (j % T) hm]
    have hc : chunks.getD j [] = chunks[j] := by simp [List.getD_eq_getElem?_getD, hjl]
    -- the full input of stream j % T
    have hfull : seg T chunks 0 chunks.length (j % T)
        = seg T chunks 0 j (j % T) ++ (chunks[j] ++ seg T chunks (j + 1) n (j % T)) := by
      have e : chunks.length = j + (1 + n) := by omega
      rw [e, seg_append, seg_append, seg_one, Nat.zero_add, if_pos rfl, hc]
    congr 1
    · unfold sliceOf
      rw [hc, hfull, slice_eq]
    · apply ih (j + 1) _ (by omega)
      intro i hi
      rw [List.getElem?_set]
      have hseg : seg T chunks 0 (j + 1) i = seg T chunks 0 j i ++ seg T chunks j 1 i := by
        rw [seg_append, Nat.zero_add]
      by_cases h1 : j % T = i
      · subst h1
        have hlen : j % T < ss.length := by
          have := hinv (j % T) hm
          exact (List.getElem?_eq_some_iff.mp this).1
        rw [if_pos rfl, if_pos hlen, hseg, seg_one, if_pos rfl, hc, run_append]
      · rw [if_neg h1, hinv i hi, hseg, seg_one, if_neg h1, List.append_nil]

theorem runChunks_replicate (T : Nat) (hT : 1 ≤ T) (s0 : Stream) (chunks : List (List Block)) :
    runChunks T 0 (List.replicate T s0) chunks = (List.range chunks.length).map (sliceOf T s0 chunks) := by
  have := runChunks_eq T hT s0 chunks chunks.length 0 (List.replicate T s0) rfl (by
    intro i hi
    simp [seg_zero, hi, run_nil])
  rw [List.range_eq_range']
  simpa using this

end Wencry.Proofs.EncSpec
