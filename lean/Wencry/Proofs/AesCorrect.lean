/-
C09: the model of aes.cpp equals FIPS-197 for every key and block, and decryption inverts encryption.
Table facts are about the tables generated from the repository source (Wencry.Gen), checked by the kernel.
-/
import Wencry.Model.Aes
import Wencry.Spec.AES
namespace Wencry.Proofs.Aes
open Wencry

/-! ## 1. Table facts (kernel-checked, 256 cases each) -/

/-- the generated S-box is the FIPS-197 S-box -/
theorem sboxT_eq_spec : ∀ x : Byte, Gen.sboxT x = Spec.AES.sbox x := by decide +kernel
/-- the generated inverse S-box is the FIPS-197 inverse S-box -/
theorem rsboxT_eq_spec : ∀ x : Byte, Gen.rsboxT x = Spec.AES.invSbox x := by decide +kernel
theorem rsboxT_sboxT : ∀ x : Byte, Gen.rsboxT (Gen.sboxT x) = x := by decide +kernel
theorem sboxT_rsboxT : ∀ x : Byte, Gen.sboxT (Gen.rsboxT x) = x := by decide +kernel
/-- the log/antilog multiplications used by the code are the field multiplications by the MixColumns constants -/
theorem gmul_25 : ∀ v : Byte, Model.Aes.gmul 25 v = Spec.AES.gfmul 2 v := by decide +kernel
theorem gmul_1 : ∀ v : Byte, Model.Aes.gmul 1 v = Spec.AES.gfmul 3 v := by decide +kernel
theorem gmul_0 : ∀ v : Byte, Model.Aes.gmul 0 v = v := by decide +kernel
theorem gmul_223 : ∀ v : Byte, Model.Aes.gmul 223 v = Spec.AES.gfmul 0x0e v := by decide +kernel
theorem gmul_104 : ∀ v : Byte, Model.Aes.gmul 104 v = Spec.AES.gfmul 0x0b v := by decide +kernel
theorem gmul_238 : ∀ v : Byte, Model.Aes.gmul 238 v = Spec.AES.gfmul 0x0d v := by decide +kernel
theorem gmul_199 : ∀ v : Byte, Model.Aes.gmul 199 v = Spec.AES.gfmul 0x09 v := by decide +kernel
/-- round constants -/
theorem rc_eq_rcon : ∀ i, 1 ≤ i → i ≤ 10 → Model.Aes.rc i = Spec.AES.rcon i := by
  intro i h1 h2
  have : ∀ j : Fin 11, 1 ≤ j.val → Model.Aes.rc j.val = Spec.AES.rcon j.val := by decide +kernel
  exact this ⟨i, by omega⟩ h1

/-! ## 2. Byte packing in 32-bit rows; 3. the model operations commute with `load` -/
section ModelVsSpec
open Wencry.Model.Aes

theorem u8_setbytes0 (a b c d : Byte) : u8 (setbytes a b c d) = a := by
  unfold u8 setbytes; ext i hi; simp
theorem u8_setbytes1 (a b c d : Byte) : u8 (setbytes a b c d >>> 8) = b := by
  unfold u8 setbytes; ext i hi; simp; grind
theorem u8_setbytes2 (a b c d : Byte) : u8 (setbytes a b c d >>> 16) = c := by
  unfold u8 setbytes; ext i hi; simp; grind
theorem u8_setbytes3 (a b c d : Byte) : u8 (setbytes a b c d >>> 24) = d := by
  unfold u8 setbytes; ext i hi; simp; grind
theorem rrot8 (a b c d : Byte) : rrot (setbytes a b c d) 8 = setbytes b c d a := by
  unfold rrot setbytes; ext i hi; simp; grind
theorem rrot16 (a b c d : Byte) : rrot (setbytes a b c d) 16 = setbytes c d a b := by
  unfold rrot setbytes; ext i hi; simp; grind
theorem rrot24 (a b c d : Byte) : rrot (setbytes a b c d) 24 = setbytes d a b c := by
  unfold rrot setbytes; ext i hi; simp; grind
theorem lrot8 (a b c d : Byte) : lrot (setbytes a b c d) 8 = setbytes d a b c := by
  unfold lrot setbytes; ext i hi; simp; grind
theorem lrot16 (a b c d : Byte) : lrot (setbytes a b c d) 16 = setbytes c d a b := by
  unfold lrot setbytes; ext i hi; simp; grind
theorem lrot24 (a b c d : Byte) : lrot (setbytes a b c d) 24 = setbytes b c d a := by
  unfold lrot setbytes; ext i hi; simp; grind
theorem setbytes_u8 (r : W32) : setbytes (u8 r) (u8 (r >>> 8)) (u8 (r >>> 16)) (u8 (r >>> 24)) = r := by
  unfold u8 setbytes; ext i hi; simp; grind
theorem setbytes_xor (a b c d a' b' c' d' : Byte) :
    setbytes a b c d ^^^ setbytes a' b' c' d' = setbytes (a ^^^ a') (b ^^^ b') (c ^^^ c') (d ^^^ d') := by
  unfold setbytes; ext i hi; simp; grind

theorem sget0 (a b c d : Byte) : sget (setbytes a b c d) 0 = a := by simp [sget, u8_setbytes0]
theorem sget1 (a b c d : Byte) : sget (setbytes a b c d) 1 = b := by simp [sget, u8_setbytes1]
theorem sget2 (a b c d : Byte) : sget (setbytes a b c d) 2 = c := by simp [sget, u8_setbytes2]
theorem sget3 (a b c d : Byte) : sget (setbytes a b c d) 3 = d := by simp [sget, u8_setbytes3]

theorem store_load (b : Block) : store (load b) = b := by
  cases b; simp [store, load, sget0, sget1, sget2, sget3]
theorem load_store (r : Rows) : load (store r) = r := by
  cases r; simp [store, load, sget, setbytes_u8]

theorem subWord_setbytes (box : Byte → Byte) (a b c d : Byte) :
    subWord box (setbytes a b c d) = setbytes (box a) (box b) (box c) (box d) := by
  simp [subWord, u8_setbytes0, u8_setbytes1, u8_setbytes2, u8_setbytes3]

theorem encSubbytes_load (b : Block) : encSubbytes (load b) = load (Spec.AES.subBytes b) := by
  simp [encSubbytes, load, Spec.AES.subBytes, Block.map, subWord_setbytes, sboxT_eq_spec]
theorem decSubbytes_load (b : Block) : decSubbytes (load b) = load (Spec.AES.invSubBytes b) := by
  simp [decSubbytes, load, Spec.AES.invSubBytes, Block.map, subWord_setbytes, rsboxT_eq_spec]
theorem encRowshift_load (b : Block) : encRowshift (load b) = load (Spec.AES.shiftRows b) := by
  simp [encRowshift, load, Spec.AES.shiftRows, rrot8, rrot16, rrot24]
theorem decRowshift_load (b : Block) : decRowshift (load b) = load (Spec.AES.invShiftRows b) := by
  simp [decRowshift, load, Spec.AES.invShiftRows, lrot8, lrot16, lrot24]
theorem addroundkey_load (a k : Block) : addroundkey (load a) (load k) = load (Spec.AES.addRoundKey a k) := by
  simp [addroundkey, load, Spec.AES.addRoundKey, Block.xor, setbytes_xor]
theorem encColumnmix_load (b : Block) : encColumnmix (load b) = load (Spec.AES.mixColumns b) := by
  simp [encColumnmix, columnmix, gmumLine, load, Spec.AES.mixColumns, Spec.AES.mixColumn,
    u8_setbytes0, u8_setbytes1, u8_setbytes2, u8_setbytes3, gmul_25, gmul_1, gmul_0]
theorem decColumnmix_load (b : Block) : decColumnmix (load b) = load (Spec.AES.invMixColumns b) := by
  simp [decColumnmix, columnmix, gmumLine, load, Spec.AES.invMixColumns, Spec.AES.invMixColumn,
    u8_setbytes0, u8_setbytes1, u8_setbytes2, u8_setbytes3, gmul_223, gmul_104, gmul_238, gmul_199]

theorem genkey_load (i : Nat) (h1 : 1 ≤ i) (h2 : i ≤ 10) (k : Block) :
    genkey i (load k) = load (Spec.AES.nextKey i k) := by
  simp [genkey, load, Spec.AES.nextKey, sget0, sget1, sget2, sget3, sboxT_eq_spec, rc_eq_rcon i h1 h2]
  refine ⟨?_, ?_, ?_, ?_⟩ <;> congr 1 <;> ac_rfl

/-- the key schedule -/
theorem getKey_eq (key : Block) : ∀ i, i ≤ 10 → getKey key i = load (Spec.AES.roundKey key i)
  | 0, _ => rfl
  | i + 1, h => by
    rw [getKey, getKey_eq key i (by omega), genkey_load (i + 1) (by omega) h, Spec.AES.roundKey]

theorem encCommonround_load (s k : Block) :
    encCommonround (load s) (load k)
      = load (Spec.AES.mixColumns (Spec.AES.shiftRows (Spec.AES.subBytes (Spec.AES.addRoundKey s k)))) := by
  rw [encCommonround, addroundkey_load, encSubbytes_load, encRowshift_load, encColumnmix_load]
theorem encSpecround_load (s k1 k2 : Block) :
    encSpecround (load s) (load k1) (load k2)
      = load (Spec.AES.addRoundKey (Spec.AES.shiftRows (Spec.AES.subBytes (Spec.AES.addRoundKey s k1))) k2) := by
  rw [encSpecround, addroundkey_load, encSubbytes_load, encRowshift_load, addroundkey_load]
theorem decCommonround_load (s k : Block) :
    decCommonround (load s) (load k)
      = load (Spec.AES.addRoundKey (Spec.AES.invSubBytes (Spec.AES.invShiftRows (Spec.AES.invMixColumns s))) k) := by
  rw [decCommonround, decColumnmix_load, decRowshift_load, decSubbytes_load, addroundkey_load]
theorem decSpecround_load (s k1 k2 : Block) :
    decSpecround (load s) (load k1) (load k2)
      = load (Spec.AES.addRoundKey (Spec.AES.invSubBytes (Spec.AES.invShiftRows (Spec.AES.addRoundKey s k2))) k1) := by
  rw [decSpecround, addroundkey_load, decRowshift_load, decSubbytes_load, addroundkey_load]

theorem aes_encrypt_eq_spec (key blk : Block) : Model.Aes.encrypt key blk = Spec.AES.cipher key blk := by
  simp [Model.Aes.encrypt, Spec.AES.cipher, Spec.AES.round, List.range, List.range.loop, List.foldl,
    getKey_eq, encCommonround_load, encSpecround_load, store_load]
theorem aes_decrypt_eq_spec (key blk : Block) : Model.Aes.decrypt key blk = Spec.AES.invCipher key blk := by
  simp [Model.Aes.decrypt, Spec.AES.invCipher, Spec.AES.invRound, List.range, List.range.loop, List.foldl,
    getKey_eq, decCommonround_load, decSpecround_load, store_load]

end ModelVsSpec

/-! ## 5. FIPS-197 InvCipher inverts Cipher -/
section SpecInverse
open Wencry.Spec.AES

/-! `gfmul c` is additive in its second argument; the products of the MixColumns matrix `M` and the InvMixColumns
    matrix `N` are the identity: each entry of `N·M` (`nm_*`) and `M·N` (`mn_*`) is a 256-case fact. -/

theorem gfmulAux_xor (k : Nat) : ∀ a b c : Byte, gfmulAux k a (b ^^^ c) = gfmulAux k a b ^^^ gfmulAux k a c := by
  induction k with
  | zero => intro a b c; simp [gfmulAux]
  | succ k ih =>
    intro a b c
    simp only [gfmulAux, BitVec.getLsbD_xor, BitVec.ushiftRight_xor_distrib, ih]
    generalize gfmulAux k (xtime a) (b >>> 1) = X
    generalize gfmulAux k (xtime a) (c >>> 1) = Y
    cases b.getLsbD 0 <;> cases c.getLsbD 0 <;> simp
    · ac_rfl
    · ac_rfl
    · have h : a ^^^ X ^^^ (a ^^^ Y) = (a ^^^ a) ^^^ (X ^^^ Y) := by ac_rfl
      rw [h, BitVec.xor_self, BitVec.zero_xor]

theorem gfmul_xor (a b c : Byte) : gfmul a (b ^^^ c) = gfmul a b ^^^ gfmul a c := gfmulAux_xor 8 a b c

theorem xor_transpose (p0 p1 p2 p3 q0 q1 q2 q3 r0 r1 r2 r3 s0 s1 s2 s3 : Byte) :
    (p0 ^^^ p1 ^^^ p2 ^^^ p3) ^^^ (q0 ^^^ q1 ^^^ q2 ^^^ q3) ^^^ (r0 ^^^ r1 ^^^ r2 ^^^ r3) ^^^ (s0 ^^^ s1 ^^^ s2 ^^^ s3)
      = (p0 ^^^ q0 ^^^ r0 ^^^ s0) ^^^ (p1 ^^^ q1 ^^^ r1 ^^^ s1) ^^^ (p2 ^^^ q2 ^^^ r2 ^^^ s2) ^^^ (p3 ^^^ q3 ^^^ r3 ^^^ s3) := by
  ac_rfl

private theorem nm_coef0 : ∀ v : Byte,
    (gfmul 14 (gfmul 2 v) ^^^ gfmul 11 v ^^^ gfmul 13 v ^^^ gfmul 9 (gfmul 3 v) = v) ∧
    (gfmul 14 (gfmul 3 v) ^^^ gfmul 11 (gfmul 2 v) ^^^ gfmul 13 v ^^^ gfmul 9 v = 0) ∧
    (gfmul 14 v ^^^ gfmul 11 (gfmul 3 v) ^^^ gfmul 13 (gfmul 2 v) ^^^ gfmul 9 v = 0) ∧
    (gfmul 14 v ^^^ gfmul 11 v ^^^ gfmul 13 (gfmul 3 v) ^^^ gfmul 9 (gfmul 2 v) = 0) := by decide +kernel
private theorem nm_coef1 : ∀ v : Byte,
    (gfmul 9 (gfmul 2 v) ^^^ gfmul 14 v ^^^ gfmul 11 v ^^^ gfmul 13 (gfmul 3 v) = 0) ∧
    (gfmul 9 (gfmul 3 v) ^^^ gfmul 14 (gfmul 2 v) ^^^ gfmul 11 v ^^^ gfmul 13 v = v) ∧
    (gfmul 9 v ^^^ gfmul 14 (gfmul 3 v) ^^^ gfmul 11 (gfmul 2 v) ^^^ gfmul 13 v = 0) ∧
    (gfmul 9 v ^^^ gfmul 14 v ^^^ gfmul 11 (gfmul 3 v) ^^^ gfmul 13 (gfmul 2 v) = 0) := by decide +kernel
private theorem nm_coef2 : ∀ v : Byte,
    (gfmul 13 (gfmul 2 v) ^^^ gfmul 9 v ^^^ gfmul 14 v ^^^ gfmul 11 (gfmul 3 v) = 0) ∧
    (gfmul 13 (gfmul 3 v) ^^^ gfmul 9 (gfmul 2 v) ^^^ gfmul 14 v ^^^ gfmul 11 v = 0) ∧
    (gfmul 13 v ^^^ gfmul 9 (gfmul 3 v) ^^^ gfmul 14 (gfmul 2 v) ^^^ gfmul 11 v = v) ∧
    (gfmul 13 v ^^^ gfmul 9 v ^^^ gfmul 14 (gfmul 3 v) ^^^ gfmul 11 (gfmul 2 v) = 0) := by decide +kernel
private theorem nm_coef3 : ∀ v : Byte,
    (gfmul 11 (gfmul 2 v) ^^^ gfmul 13 v ^^^ gfmul 9 v ^^^ gfmul 14 (gfmul 3 v) = 0) ∧
    (gfmul 11 (gfmul 3 v) ^^^ gfmul 13 (gfmul 2 v) ^^^ gfmul 9 v ^^^ gfmul 14 v = 0) ∧
    (gfmul 11 v ^^^ gfmul 13 (gfmul 3 v) ^^^ gfmul 9 (gfmul 2 v) ^^^ gfmul 14 v = 0) ∧
    (gfmul 11 v ^^^ gfmul 13 v ^^^ gfmul 9 (gfmul 3 v) ^^^ gfmul 14 (gfmul 2 v) = v) := by decide +kernel
theorem nm_row0 (a0 a1 a2 a3 : Byte) :
    gfmul 14 (gfmul 2 a0 ^^^ gfmul 3 a1 ^^^ a2 ^^^ a3) ^^^
    gfmul 11 (a0 ^^^ gfmul 2 a1 ^^^ gfmul 3 a2 ^^^ a3) ^^^
    gfmul 13 (a0 ^^^ a1 ^^^ gfmul 2 a2 ^^^ gfmul 3 a3) ^^^
    gfmul 9 (gfmul 3 a0 ^^^ a1 ^^^ a2 ^^^ gfmul 2 a3) = a0 := by
  simp only [gfmul_xor]
  rw [xor_transpose, (nm_coef0 a0).1, (nm_coef0 a1).2.1, (nm_coef0 a2).2.2.1, (nm_coef0 a3).2.2.2]
  simp
theorem nm_row1 (a0 a1 a2 a3 : Byte) :
    gfmul 9 (gfmul 2 a0 ^^^ gfmul 3 a1 ^^^ a2 ^^^ a3) ^^^
    gfmul 14 (a0 ^^^ gfmul 2 a1 ^^^ gfmul 3 a2 ^^^ a3) ^^^
    gfmul 11 (a0 ^^^ a1 ^^^ gfmul 2 a2 ^^^ gfmul 3 a3) ^^^
    gfmul 13 (gfmul 3 a0 ^^^ a1 ^^^ a2 ^^^ gfmul 2 a3) = a1 := by
  simp only [gfmul_xor]
  rw [xor_transpose, (nm_coef1 a0).1, (nm_coef1 a1).2.1, (nm_coef1 a2).2.2.1, (nm_coef1 a3).2.2.2]
  simp
theorem nm_row2 (a0 a1 a2 a3 : Byte) :
    gfmul 13 (gfmul 2 a0 ^^^ gfmul 3 a1 ^^^ a2 ^^^ a3) ^^^
    gfmul 9 (a0 ^^^ gfmul 2 a1 ^^^ gfmul 3 a2 ^^^ a3) ^^^
    gfmul 14 (a0 ^^^ a1 ^^^ gfmul 2 a2 ^^^ gfmul 3 a3) ^^^
    gfmul 11 (gfmul 3 a0 ^^^ a1 ^^^ a2 ^^^ gfmul 2 a3) = a2 := by
  simp only [gfmul_xor]
  rw [xor_transpose, (nm_coef2 a0).1, (nm_coef2 a1).2.1, (nm_coef2 a2).2.2.1, (nm_coef2 a3).2.2.2]
  simp
theorem nm_row3 (a0 a1 a2 a3 : Byte) :
    gfmul 11 (gfmul 2 a0 ^^^ gfmul 3 a1 ^^^ a2 ^^^ a3) ^^^
    gfmul 13 (a0 ^^^ gfmul 2 a1 ^^^ gfmul 3 a2 ^^^ a3) ^^^
    gfmul 9 (a0 ^^^ a1 ^^^ gfmul 2 a2 ^^^ gfmul 3 a3) ^^^
    gfmul 14 (gfmul 3 a0 ^^^ a1 ^^^ a2 ^^^ gfmul 2 a3) = a3 := by
  simp only [gfmul_xor]
  rw [xor_transpose, (nm_coef3 a0).1, (nm_coef3 a1).2.1, (nm_coef3 a2).2.2.1, (nm_coef3 a3).2.2.2]
  simp
private theorem mn_coef0 : ∀ v : Byte,
    (gfmul 2 (gfmul 14 v) ^^^ gfmul 3 (gfmul 9 v) ^^^ (gfmul 13 v) ^^^ (gfmul 11 v) = v) ∧
    (gfmul 2 (gfmul 11 v) ^^^ gfmul 3 (gfmul 14 v) ^^^ (gfmul 9 v) ^^^ (gfmul 13 v) = 0) ∧
    (gfmul 2 (gfmul 13 v) ^^^ gfmul 3 (gfmul 11 v) ^^^ (gfmul 14 v) ^^^ (gfmul 9 v) = 0) ∧
    (gfmul 2 (gfmul 9 v) ^^^ gfmul 3 (gfmul 13 v) ^^^ (gfmul 11 v) ^^^ (gfmul 14 v) = 0) := by decide +kernel
private theorem mn_coef1 : ∀ v : Byte,
    ((gfmul 14 v) ^^^ gfmul 2 (gfmul 9 v) ^^^ gfmul 3 (gfmul 13 v) ^^^ (gfmul 11 v) = 0) ∧
    ((gfmul 11 v) ^^^ gfmul 2 (gfmul 14 v) ^^^ gfmul 3 (gfmul 9 v) ^^^ (gfmul 13 v) = v) ∧
    ((gfmul 13 v) ^^^ gfmul 2 (gfmul 11 v) ^^^ gfmul 3 (gfmul 14 v) ^^^ (gfmul 9 v) = 0) ∧
    ((gfmul 9 v) ^^^ gfmul 2 (gfmul 13 v) ^^^ gfmul 3 (gfmul 11 v) ^^^ (gfmul 14 v) = 0) := by decide +kernel
private theorem mn_coef2 : ∀ v : Byte,
    ((gfmul 14 v) ^^^ (gfmul 9 v) ^^^ gfmul 2 (gfmul 13 v) ^^^ gfmul 3 (gfmul 11 v) = 0) ∧
    ((gfmul 11 v) ^^^ (gfmul 14 v) ^^^ gfmul 2 (gfmul 9 v) ^^^ gfmul 3 (gfmul 13 v) = 0) ∧
    ((gfmul 13 v) ^^^ (gfmul 11 v) ^^^ gfmul 2 (gfmul 14 v) ^^^ gfmul 3 (gfmul 9 v) = v) ∧
    ((gfmul 9 v) ^^^ (gfmul 13 v) ^^^ gfmul 2 (gfmul 11 v) ^^^ gfmul 3 (gfmul 14 v) = 0) := by decide +kernel
private theorem mn_coef3 : ∀ v : Byte,
    (gfmul 3 (gfmul 14 v) ^^^ (gfmul 9 v) ^^^ (gfmul 13 v) ^^^ gfmul 2 (gfmul 11 v) = 0) ∧
    (gfmul 3 (gfmul 11 v) ^^^ (gfmul 14 v) ^^^ (gfmul 9 v) ^^^ gfmul 2 (gfmul 13 v) = 0) ∧
    (gfmul 3 (gfmul 13 v) ^^^ (gfmul 11 v) ^^^ (gfmul 14 v) ^^^ gfmul 2 (gfmul 9 v) = 0) ∧
    (gfmul 3 (gfmul 9 v) ^^^ (gfmul 13 v) ^^^ (gfmul 11 v) ^^^ gfmul 2 (gfmul 14 v) = v) := by decide +kernel
theorem mn_row0 (a0 a1 a2 a3 : Byte) :
    gfmul 2 (gfmul 14 a0 ^^^ gfmul 11 a1 ^^^ gfmul 13 a2 ^^^ gfmul 9 a3) ^^^
    gfmul 3 (gfmul 9 a0 ^^^ gfmul 14 a1 ^^^ gfmul 11 a2 ^^^ gfmul 13 a3) ^^^
    (gfmul 13 a0 ^^^ gfmul 9 a1 ^^^ gfmul 14 a2 ^^^ gfmul 11 a3) ^^^
    (gfmul 11 a0 ^^^ gfmul 13 a1 ^^^ gfmul 9 a2 ^^^ gfmul 14 a3) = a0 := by
  simp only [gfmul_xor]
  rw [xor_transpose, (mn_coef0 a0).1, (mn_coef0 a1).2.1, (mn_coef0 a2).2.2.1, (mn_coef0 a3).2.2.2]
  simp
theorem mn_row1 (a0 a1 a2 a3 : Byte) :
    (gfmul 14 a0 ^^^ gfmul 11 a1 ^^^ gfmul 13 a2 ^^^ gfmul 9 a3) ^^^
    gfmul 2 (gfmul 9 a0 ^^^ gfmul 14 a1 ^^^ gfmul 11 a2 ^^^ gfmul 13 a3) ^^^
    gfmul 3 (gfmul 13 a0 ^^^ gfmul 9 a1 ^^^ gfmul 14 a2 ^^^ gfmul 11 a3) ^^^
    (gfmul 11 a0 ^^^ gfmul 13 a1 ^^^ gfmul 9 a2 ^^^ gfmul 14 a3) = a1 := by
  simp only [gfmul_xor]
  rw [xor_transpose, (mn_coef1 a0).1, (mn_coef1 a1).2.1, (mn_coef1 a2).2.2.1, (mn_coef1 a3).2.2.2]
  simp
theorem mn_row2 (a0 a1 a2 a3 : Byte) :
    (gfmul 14 a0 ^^^ gfmul 11 a1 ^^^ gfmul 13 a2 ^^^ gfmul 9 a3) ^^^
    (gfmul 9 a0 ^^^ gfmul 14 a1 ^^^ gfmul 11 a2 ^^^ gfmul 13 a3) ^^^
    gfmul 2 (gfmul 13 a0 ^^^ gfmul 9 a1 ^^^ gfmul 14 a2 ^^^ gfmul 11 a3) ^^^
    gfmul 3 (gfmul 11 a0 ^^^ gfmul 13 a1 ^^^ gfmul 9 a2 ^^^ gfmul 14 a3) = a2 := by
  simp only [gfmul_xor]
  rw [xor_transpose, (mn_coef2 a0).1, (mn_coef2 a1).2.1, (mn_coef2 a2).2.2.1, (mn_coef2 a3).2.2.2]
  simp
theorem mn_row3 (a0 a1 a2 a3 : Byte) :
    gfmul 3 (gfmul 14 a0 ^^^ gfmul 11 a1 ^^^ gfmul 13 a2 ^^^ gfmul 9 a3) ^^^
    (gfmul 9 a0 ^^^ gfmul 14 a1 ^^^ gfmul 11 a2 ^^^ gfmul 13 a3) ^^^
    (gfmul 13 a0 ^^^ gfmul 9 a1 ^^^ gfmul 14 a2 ^^^ gfmul 11 a3) ^^^
    gfmul 2 (gfmul 11 a0 ^^^ gfmul 13 a1 ^^^ gfmul 9 a2 ^^^ gfmul 14 a3) = a3 := by
  simp only [gfmul_xor]
  rw [xor_transpose, (mn_coef3 a0).1, (mn_coef3 a1).2.1, (mn_coef3 a2).2.2.1, (mn_coef3 a3).2.2.2]
  simp

theorem invMixColumns_mixColumns (s : Block) : invMixColumns (mixColumns s) = s := by
  cases s
  simp only [mixColumns, invMixColumns, mixColumn, invMixColumn, nm_row0, nm_row1, nm_row2, nm_row3]
theorem mixColumns_invMixColumns (s : Block) : mixColumns (invMixColumns s) = s := by
  cases s
  simp only [mixColumns, invMixColumns, mixColumn, invMixColumn, mn_row0, mn_row1, mn_row2, mn_row3]

theorem invSbox_sbox (x : Byte) : invSbox (sbox x) = x := by
  rw [← sboxT_eq_spec, ← rsboxT_eq_spec, rsboxT_sboxT]
theorem sbox_invSbox (x : Byte) : sbox (invSbox x) = x := by
  rw [← rsboxT_eq_spec, ← sboxT_eq_spec, sboxT_rsboxT]

theorem invSubBytes_subBytes (s : Block) : invSubBytes (subBytes s) = s := by
  cases s; simp [invSubBytes, subBytes, Block.map, invSbox_sbox]
theorem subBytes_invSubBytes (s : Block) : subBytes (invSubBytes s) = s := by
  cases s; simp [invSubBytes, subBytes, Block.map, sbox_invSbox]
theorem invShiftRows_shiftRows (s : Block) : invShiftRows (shiftRows s) = s := rfl
theorem shiftRows_invShiftRows (s : Block) : shiftRows (invShiftRows s) = s := rfl
theorem addRoundKey_cancel (s k : Block) : addRoundKey (addRoundKey s k) k = s := Block.xor_xor_cancel_right s k

theorem spec_invCipher_cipher (key blk : Block) : Spec.AES.invCipher key (Spec.AES.cipher key blk) = blk := by
  simp [cipher, invCipher, round, invRound, List.range, List.range.loop, List.foldl, addRoundKey_cancel,
    invShiftRows_shiftRows, invSubBytes_subBytes, invMixColumns_mixColumns]
theorem spec_cipher_invCipher (key blk : Block) : Spec.AES.cipher key (Spec.AES.invCipher key blk) = blk := by
  simp [cipher, invCipher, round, invRound, List.range, List.range.loop, List.foldl, addRoundKey_cancel,
    shiftRows_invShiftRows, subBytes_invSubBytes, mixColumns_invMixColumns]

end SpecInverse

/-! ## 6. Consequences for the model -/

theorem aes_decrypt_encrypt (key blk : Block) : Model.Aes.decrypt key (Model.Aes.encrypt key blk) = blk := by
  rw [aes_encrypt_eq_spec, aes_decrypt_eq_spec, spec_invCipher_cipher]
theorem aes_encrypt_decrypt (key blk : Block) : Model.Aes.encrypt key (Model.Aes.decrypt key blk) = blk := by
  rw [aes_decrypt_eq_spec, aes_encrypt_eq_spec, spec_cipher_invCipher]

section Precomputed
open Wencry.Model.Aes
theorem allKeys_eq (key : Block) : allKeys key =
    [getKey key 0, getKey key 1, getKey key 2, getKey key 3, getKey key 4, getKey key 5,
     getKey key 6, getKey key 7, getKey key 8, getKey key 9, getKey key 10] := by
  simp [allKeys, allKeys.go, getKey]

/-- the variants with a precomputed key schedule (what the driver and the stream objects run) -/
theorem aes_encryptK (key blk : Block) : Model.Aes.encryptK (Model.Aes.allKeys key) blk = Model.Aes.encrypt key blk := by
  rw [allKeys_eq]
  simp [encryptK, encrypt, List.range, List.range.loop, List.foldl]
theorem aes_decryptK (key blk : Block) : Model.Aes.decryptK (Model.Aes.allKeys key) blk = Model.Aes.decrypt key blk := by
  rw [allKeys_eq]
  simp [decryptK, decrypt, List.range, List.range.loop, List.foldl]
end Precomputed

end Wencry.Proofs.Aes
