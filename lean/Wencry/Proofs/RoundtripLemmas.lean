/-
Helper lemmas for the round-trip theorem (C01): blocks and byte strings, stdio, loadBuffer on both sides,
the block-level loop `blkLoop` that both pipelines simulate.
-/
import Wencry.Model.File
import Wencry.Proofs.ModesCorrect
namespace Wencry.Proofs.Roundtrip
open Wencry Wencry.Model Wencry.Model.File Wencry.Model.Stdio Wencry.Model.IoBuffer Wencry.Model.Modes

/-! ### blocks and byte strings -/

theorem ofListD_toList_append (b : Block) (r : Bytes) : Block.ofListD (b.toList ++ r) = b := by
  cases b; rfl

theorem exists_block_append (l : Bytes) (h : 16 ≤ l.length) : ∃ (b : Block) (r : Bytes), l = b.toList ++ r := by
  match l, h with
  | b0 :: b1 :: b2 :: b3 :: b4 :: b5 :: b6 :: b7 :: b8 :: b9 :: b10 :: b11 :: b12 :: b13 :: b14 :: b15 :: r, _ =>
    exact ⟨⟨b0, b1, b2, b3, b4, b5, b6, b7, b8, b9, b10, b11, b12, b13, b14, b15⟩, r, rfl⟩

theorem drop16_toList_append (b : Block) (r : Bytes) : (b.toList ++ r).drop 16 = r := by
  cases b; rfl

theorem take16_toList_append (b : Block) (r : Bytes) : (b.toList ++ r).take 16 = b.toList := by
  cases b; rfl

theorem splitBlocks_lt (l : Bytes) (h : l.length < 16) : splitBlocks l = ([], l) := by
  rw [splitBlocks]; simp [Nat.not_le.mpr h]

theorem splitBlocks_toList_append (b : Block) (r : Bytes) :
    splitBlocks (b.toList ++ r) = (b :: (splitBlocks r).1, (splitBlocks r).2) := by
  rw [splitBlocks]
  simp [ofListD_toList_append, drop16_toList_append]

theorem joinBlocks_nil : joinBlocks [] = [] := rfl
theorem joinBlocks_cons (b : Block) (bl : List Block) : joinBlocks (b :: bl) = b.toList ++ joinBlocks bl := rfl
theorem joinBlocks_append (a b : List Block) : joinBlocks (a ++ b) = joinBlocks a ++ joinBlocks b := by
  simp [joinBlocks]
theorem joinBlocks_length (bl : List Block) : (joinBlocks bl).length = 16 * bl.length := by
  induction bl with
  | nil => rfl
  | cons b bl ih => simp [joinBlocks_cons, ih]; omega

theorem splitBlocks_join_append (bl : List Block) (r : Bytes) :
    splitBlocks (joinBlocks bl ++ r) = (bl ++ (splitBlocks r).1, (splitBlocks r).2) := by
  induction bl with
  | nil => simp [joinBlocks_nil]
  | cons b bl ih => simp [joinBlocks_cons, List.append_assoc, splitBlocks_toList_append, ih]

theorem splitBlocks_join_tail (bl : List Block) (t : Bytes) (ht : t.length < 16) :
    splitBlocks (joinBlocks bl ++ t) = (bl, t) := by
  rw [splitBlocks_join_append, splitBlocks_lt t ht]; simp

theorem splitBlocks_join (bl : List Block) : splitBlocks (joinBlocks bl) = (bl, []) := by
  have := splitBlocks_join_tail bl [] (by simp)
  simpa using this

/-- every byte string is whole blocks followed by a short tail -/
theorem join_split (l : Bytes) : joinBlocks (splitBlocks l).1 ++ (splitBlocks l).2 = l ∧ (splitBlocks l).2.length < 16 := by
  induction h : l.length using Nat.strongRecOn generalizing l with
  | _ n ih =>
    by_cases h16 : 16 ≤ l.length
    · obtain ⟨b, r, rfl⟩ := exists_block_append l h16
      have := ih r.length (by simp at h; omega) r rfl
      rw [splitBlocks_toList_append]
      simp [joinBlocks_cons, List.append_assoc, this.1, this.2]
    · rw [splitBlocks_lt l (by omega)]
      simp [joinBlocks_nil]; omega

theorem exists_join (l : Bytes) : ∃ (bs : List Block) (t : Bytes), l = joinBlocks bs ++ t ∧ t.length < 16 :=
  ⟨_, _, (join_split l).1.symm, (join_split l).2⟩

theorem take_join_append (bs : List Block) (t : Bytes) (k : Nat) (hk : k ≤ bs.length) :
    (joinBlocks bs ++ t).take (16 * k) = joinBlocks (bs.take k) := by
  induction k generalizing bs with
  | zero => simp [joinBlocks_nil]
  | succ k ih =>
    cases bs with
    | nil => simp at hk
    | cons b bs =>
      simp only [List.length_cons] at hk
      have e : 16 * (k + 1) = 16 + 16 * k := by omega
      rw [e, joinBlocks_cons, List.append_assoc, List.take_add, take16_toList_append, drop16_toList_append,
        ih bs (by omega)]
      simp [joinBlocks_cons]

theorem drop_join_append (bs : List Block) (t : Bytes) (k : Nat) (hk : k ≤ bs.length) :
    (joinBlocks bs ++ t).drop (16 * k) = joinBlocks (bs.drop k) ++ t := by
  induction k generalizing bs with
  | zero => simp
  | succ k ih =>
    cases bs with
    | nil => simp at hk
    | cons b bs =>
      simp only [List.length_cons] at hk
      have e : 16 * (k + 1) = 16 + 16 * k := by omega
      rw [e, joinBlocks_cons, List.append_assoc, ← List.drop_drop, drop16_toList_append, ih bs (by omega)]
      simp

theorem take_join_all (bs : List Block) (t : Bytes) (n : Nat) (hn : 16 * bs.length + t.length ≤ n) :
    (joinBlocks bs ++ t).take n = joinBlocks bs ++ t := by
  apply List.take_of_length_le; simp [joinBlocks_length]; omega

/-! ### padding -/

theorem toList_ofListD_of_length (l : Bytes) (h : l.length = 16) : (Block.ofListD l).toList = l := by
  match l, h with
  | [b0, b1, b2, b3, b4, b5, b6, b7, b8, b9, b10, b11, b12, b13, b14, b15], _ => rfl

theorem padBlock_toList (t : Bytes) (ht : t.length ≤ 16) :
    (padBlock t).toList = t ++ List.replicate (16 - t.length) (BitVec.ofNat 8 (16 - t.length)) := by
  unfold padBlock
  apply toList_ofListD_of_length
  simp; omega

theorem padBlock_b15 (t : Bytes) (ht : t.length < 16) : (padBlock t).b15 = BitVec.ofNat 8 (16 - t.length) := by
  have h := padBlock_toList t (by omega)
  have h2 : (padBlock t).toList.getD 15 0 = (padBlock t).b15 := rfl
  rw [← h2, h]
  simp only [List.getD_eq_getElem?_getD]
  rw [List.getElem?_append_right (by omega), List.getElem?_replicate]
  rw [if_pos (by omega)]; rfl

/-- the pad length the decrypt side reads from the last byte of the last block of its final chunk -/
def padOf (D : List Block) : Nat :=
  let padding : Nat := if D.length = 0 then 0 else (lastByteOf D (D.length - 1)).toNat
  if padding > 16 then 0 else padding

/-- what the decrypt side writes for the blocks `D` of its final chunk(s) -/
def unpad (D : List Block) : Bytes := (joinBlocks D).take (16 * D.length - padOf D)

theorem padOf_le (D : List Block) : padOf D ≤ 16 := by
  unfold padOf; simp only; split <;> split <;> omega

theorem lastByteOf_append (A D : List Block) (hD : D ≠ []) :
    lastByteOf (A ++ D) ((A ++ D).length - 1) = lastByteOf D (D.length - 1) := by
  have : 0 < D.length := List.length_pos_iff.mpr hD
  unfold lastByteOf
  simp only [List.getD_eq_getElem?_getD, List.length_append]
  rw [List.getElem?_append_right (by omega)]
  congr 3; omega

theorem padOf_append (A D : List Block) (hD : D ≠ []) : padOf (A ++ D) = padOf D := by
  have hpos : 0 < D.length := List.length_pos_iff.mpr hD
  unfold padOf
  rw [lastByteOf_append A D hD]
  have h1 : (A ++ D).length ≠ 0 := by simp only [List.length_append]; omega
  have h2 : D.length ≠ 0 := by omega
  simp only [if_neg h1, if_neg h2]

theorem unpad_append (A D : List Block) (hD : D ≠ []) : unpad (A ++ D) = joinBlocks A ++ unpad D := by
  have hpos : 0 < D.length := List.length_pos_iff.mpr hD
  unfold unpad
  rw [padOf_append A D hD]
  have hp16 := padOf_le D
  rw [joinBlocks_append, List.take_append, joinBlocks_length]
  rw [List.take_of_length_le (by rw [joinBlocks_length]; simp only [List.length_append]; omega)]
  congr 2; simp only [List.length_append]; omega

theorem padOf_pad (t : Bytes) (ht : t.length < 16) : padOf [padBlock t] = 16 - t.length := by
  unfold padOf lastByteOf
  simp only [List.length_singleton, Nat.sub_self, List.getD_eq_getElem?_getD, List.getElem?_cons_zero, Option.getD_some,
    padBlock_b15 t ht, BitVec.toNat_ofNat]
  have e : (16 - t.length) % 2 ^ 8 = 16 - t.length := by omega
  rw [e]
  simp only [Nat.succ_ne_zero, if_false]
  rw [if_neg (by omega)]

theorem unpad_pad (bs : List Block) (t : Bytes) (ht : t.length < 16) : unpad (bs ++ [padBlock t]) = joinBlocks bs ++ t := by
  rw [unpad_append _ _ (by simp)]
  congr 1
  unfold unpad
  rw [padOf_pad t ht]
  simp only [joinBlocks, List.map_cons, List.map_nil, List.flatten_cons, List.flatten_nil, List.append_nil]
  rw [padBlock_toList t (by omega)]
  have e2 : 16 * [padBlock t].length - (16 - t.length) = t.length := by simp; omega
  rw [e2, List.take_left']
  rfl

/-! ### stdio -/

theorem fwrite_end (f : WFile) (bs : Bytes) (h : f.pos = f.data.length) :
    (f.fwrite bs).data = f.data ++ bs ∧ (f.fwrite bs).pos = (f.fwrite bs).data.length := by
  unfold WFile.fwrite
  by_cases hb : bs.isEmpty
  · have : bs = [] := by simpa using hb
    subst this; simp [h]
  · have hd : writeAt f.data f.pos bs = f.data ++ bs := by
      unfold writeAt; rw [h]; simp
    simp only [hb]
    rw [h] at hd
    simp [hd, h]

/-! ### loadBuffer -/

theorem loadBuffer_enc_full (B : Nat) (hB : 1 ≤ B) (fin : RFile) (bs : List Block) (t : Bytes)
    (heof : fin.eof = false) (hd : fin.data.drop fin.pos = joinBlocks bs ++ t) (hlen : B ≤ bs.length) :
    ∃ buf, loadBuffer B fin true IoBuf.new = ({ fin with pos := fin.pos + 16 * B }, buf, .full) ∧
      buf.blocks = bs.take B ∧ buf.total = B ∧ buf.isfinal = false := by
  have hgot : (fin.data.drop fin.pos).take (16 * B) = joinBlocks (bs.take B) := by
    rw [hd, take_join_append bs t B hlen]
  have hl : (joinBlocks (bs.take B)).length = 16 * B := by
    rw [joinBlocks_length, List.length_take, Nat.min_eq_left hlen]
  unfold loadBuffer
  simp only [RFile.fread, hgot, hl, RFile.feof, heof, splitBlocks_join]
  have hne : 16 * B ≠ 0 := by omega
  have hdiv : 16 * B / 16 = B := by omega
  simp [hne, hdiv, IoBuf.new]

theorem loadBuffer_enc_final (B : Nat) (fin : RFile) (bs : List Block) (t : Bytes)
    (heof : fin.eof = false) (hd : fin.data.drop fin.pos = joinBlocks bs ++ t) (ht : t.length < 16) (hlen : bs.length < B) :
    ∃ fin' buf, loadBuffer B fin true IoBuf.new = (fin', buf, .final) ∧
      buf.blocks = bs ++ [padBlock t] ∧ buf.total = bs.length + 1 ∧ buf.isfinal = true := by
  have hgot : (fin.data.drop fin.pos).take (16 * B) = joinBlocks bs ++ t := by
    rw [hd, take_join_all bs t _ (by omega)]
  have hl : (joinBlocks bs ++ t).length = 16 * bs.length + t.length := by
    rw [List.length_append, joinBlocks_length]
  unfold loadBuffer
  simp only [RFile.fread, hgot, hl, RFile.feof, heof, splitBlocks_join_tail bs t ht]
  have hne : 16 * bs.length + t.length ≠ 16 * B := by omega
  have hdiv : (16 * bs.length + t.length) / 16 = bs.length := by omega
  simp [hne, hdiv]
  exact ⟨_, _, ⟨rfl, rfl⟩, rfl, rfl, rfl⟩

theorem loadBuffer_dec_full (B : Nat) (hB : 1 ≤ B) (fin : RFile) (cs : List Block)
    (heof : fin.eof = false) (hd : fin.data.drop fin.pos = joinBlocks cs) (hlen : B < cs.length) :
    ∃ buf, loadBuffer B fin false IoBuf.new = ({ fin with pos := fin.pos + 16 * B }, buf, .full) ∧
      buf.blocks = cs.take B ∧ buf.total = B ∧ buf.isfinal = false := by
  have hd' : fin.data.drop fin.pos = joinBlocks cs ++ [] := by simpa using hd
  have hgot : (fin.data.drop fin.pos).take (16 * B) = joinBlocks (cs.take B) := by
    rw [hd', take_join_append cs [] B (by omega)]
  have hl : (joinBlocks (cs.take B)).length = 16 * B := by
    rw [joinBlocks_length, List.length_take, Nat.min_eq_left (by omega)]
  have hlen2 : fin.data.length - fin.pos = 16 * cs.length := by
    rw [← List.length_drop, hd, joinBlocks_length]
  unfold loadBuffer
  simp only [RFile.fread, hgot, hl, RFile.feof, heof, splitBlocks_join, RFile.peekEof]
  have hne : 16 * B ≠ 0 := by omega
  have hdiv : 16 * B / 16 = B := by omega
  have hlt : fin.pos + 16 * B < fin.data.length := by omega
  simp [hne, hdiv, hlt, IoBuf.new]

theorem loadBuffer_dec_final (B : Nat) (fin : RFile) (cs : List Block)
    (heof : fin.eof = false) (hd : fin.data.drop fin.pos = joinBlocks cs) (hlen : cs.length ≤ B) (hpos : 1 ≤ cs.length) :
    ∃ fin' buf, loadBuffer B fin false IoBuf.new = (fin', buf, .final) ∧
      buf.blocks = cs ∧ buf.total = cs.length ∧ buf.isfinal = true := by
  have hd' : fin.data.drop fin.pos = joinBlocks cs ++ [] := by simpa using hd
  have hgot : (fin.data.drop fin.pos).take (16 * B) = joinBlocks cs := by
    rw [hd', take_join_all cs [] _ (by simp; omega)]; simp
  have hl : (joinBlocks cs).length = 16 * cs.length := joinBlocks_length cs
  have hlen2 : fin.data.length - fin.pos = 16 * cs.length := by
    rw [← List.length_drop, hd, joinBlocks_length]
  have hdiv : 16 * cs.length / 16 = cs.length := by omega
  have hne : cs.length ≠ 0 := by omega
  unfold loadBuffer
  simp only [RFile.fread, hgot, hl, RFile.feof, heof, splitBlocks_join, RFile.peekEof]
  by_cases hlt : cs.length < B
  · have h1 : 16 * cs.length < 16 * B := by omega
    simp [h1, hdiv, hne]
    exact ⟨_, _, ⟨rfl, rfl⟩, rfl, rfl, rfl⟩
  · have h1 : cs.length = B := by omega
    have h2 : ¬ (fin.pos + 16 * cs.length < fin.data.length) := by omega
    subst h1
    simp [h2, hdiv, hne]
    exact ⟨_, _, ⟨rfl, rfl⟩, rfl, rfl, rfl⟩


/-! ### exportBytes -/

theorem exportBytes_enc (buf : IoBuf) (h : buf.now = buf.blocks.length) : exportBytes buf true = joinBlocks buf.blocks := by
  unfold exportBytes
  split
  · simp only [Bool.true_or, if_true]
    rw [h, List.take_length]
    apply List.take_of_length_le
    rw [joinBlocks_length]; simp
  · rfl

theorem exportBytes_dec_final (buf : IoBuf) (hf : buf.isfinal = true) (h : buf.now = buf.blocks.length) :
    exportBytes buf false = unpad buf.blocks := by
  unfold exportBytes unpad padOf
  simp only [hf, if_true, h, List.take_length, Bool.false_or, decide_eq_true_eq]

/-! ### the block-level loop -/

/-- the blocks written when the blocks `bl` are pushed through the streams in chunks of `B`, chunk `j` through stream `j % T` -/
def blkLoop (T B : Nat) (j : Nat) (ss : List Stream) (bl : List Block) : List Block :=
  match ss[j % T]? with
  | none => []
  | some s =>
    if _h : 0 < B ∧ B < bl.length then
      (s.run (bl.take B)).2 ++ blkLoop T B (j + 1) (ss.set (j % T) (s.run (bl.take B)).1) (bl.drop B)
    else (s.run (bl.take B)).2
termination_by bl.length
decreasing_by simp [List.length_drop]; omega

/-! ### the two pipelines simulate `blkLoop` -/
open Wencry.Proofs.Modes

/-- the output stream of a pipeline run holds `d` and is positioned at its end -/
def OutIs (r : List Stream × RFile × WFile) (d : Bytes) : Prop := r.2.2.data = d ∧ r.2.2.pos = d.length

theorem getElem?_mod_some (T j : Nat) (hT : 1 ≤ T) (ss : List Stream) (h : ss.length = T) : ∃ s, ss[j % T]? = some s := by
  have : j % T < ss.length := by rw [h]; exact Nat.mod_lt _ (by omega)
  exact ⟨ss[j % T], List.getElem?_eq_getElem this⟩

theorem seqLoop_enc (T B : Nat) (hT : 1 ≤ T) (hB : 1 ≤ B) :
    ∀ (fuel j : Nat) (ss : List Stream) (fin : RFile) (fout : WFile) (bs : List Block) (t : Bytes),
      ss.length = T → fin.eof = false → fin.data.drop fin.pos = joinBlocks bs ++ t → t.length < 16 →
      bs.length + 1 ≤ B * fuel → fout.pos = fout.data.length →
      OutIs (seqLoop T B true fuel j ss fin fout) (fout.data ++ joinBlocks (blkLoop T B j ss (bs ++ [padBlock t]))) := by
  intro fuel
  induction fuel with
  | zero => intro j ss fin fout bs t _ _ _ _ h; omega
  | succ fuel ih =>
    intro j ss fin fout bs t hss heof hd ht hfuel hpos
    obtain ⟨s, hs⟩ := getElem?_mod_some T j hT ss hss
    by_cases hlen : B ≤ bs.length
    · obtain ⟨buf, hload, hb, htot, hfin⟩ := loadBuffer_enc_full B hB fin bs t heof hd hlen
      have htake : (bs ++ [padBlock t]).take B = bs.take B := by
        rw [List.take_append_of_le_length hlen]
      have hdrop : (bs ++ [padBlock t]).drop B = bs.drop B ++ [padBlock t] := by
        rw [List.drop_append_of_le_length hlen]
      rw [blkLoop, hs]
      simp only
      rw [dif_pos (by simp; omega), htake, hdrop]
      simp only [seqLoop, hload, hs, hb]
      rw [if_pos trivial]
      rw [exportBytes_enc _ (by simp only [run_length, htot, List.length_take]; omega)]
      simp only
      obtain ⟨hw1, hw2⟩ := fwrite_end fout (joinBlocks (s.run (List.take B bs)).snd) hpos
      have := ih (j + 1) (setAt ss (j % T) (s.run (List.take B bs)).fst) { data := fin.data, pos := fin.pos + 16 * B, eof := fin.eof }
        (fout.fwrite (joinBlocks (s.run (List.take B bs)).snd)) (bs.drop B) t (by simp [setAt, hss]) heof
        (by simp only; rw [← List.drop_drop, hd, drop_join_append bs t B hlen]) ht
        (by simp only [List.length_drop]; rw [Nat.mul_add] at hfuel; omega) hw2
      rw [hw1] at this
      rw [joinBlocks_append, ← List.append_assoc]
      exact this
    · have hlen' : bs.length < B := by omega
      obtain ⟨fin', buf, hload, hb, htot, hfin⟩ := loadBuffer_enc_final B fin bs t heof hd ht hlen'
      rw [blkLoop, hs]
      simp only
      rw [dif_neg (by simp; omega), List.take_of_length_le (by simp; omega)]
      simp only [seqLoop, hload, hs, hb]
      rw [if_neg (by decide)]
      rw [exportBytes_enc _ (by simp only [run_length, htot, List.length_append, List.length_singleton])]
      obtain ⟨hw1, hw2⟩ := fwrite_end fout (joinBlocks (s.run (bs ++ [padBlock t])).snd) hpos
      exact ⟨hw1, by rw [hw2, hw1]⟩

theorem blkLoop_length (T B : Nat) (hT : 1 ≤ T) (hB : 1 ≤ B) :
    ∀ (n : Nat) (bl : List Block) (j : Nat) (ss : List Stream), bl.length ≤ n → ss.length = T → (blkLoop T B j ss bl).length = bl.length := by
  intro n
  induction n with
  | zero =>
    intro bl j ss hn hss
    obtain ⟨s, hs⟩ := getElem?_mod_some T j hT ss hss
    have : bl = [] := List.length_eq_zero_iff.mp (by omega)
    subst this
    rw [blkLoop, hs]; simp [run_length]
  | succ n ih =>
    intro bl j ss hn hss
    obtain ⟨s, hs⟩ := getElem?_mod_some T j hT ss hss
    rw [blkLoop, hs]
    simp only
    split
    · rename_i h
      rw [List.length_append, run_length, ih _ _ _ (by simp only [List.length_drop]; omega) (by simp [hss])]
      simp only [List.length_take, List.length_drop]; omega
    · rename_i h
      rw [run_length, List.length_take]
      omega

theorem exportBytes_nonfinal (buf : IoBuf) (isp : Bool) (h : buf.isfinal = false) : exportBytes buf isp = joinBlocks buf.blocks := by
  unfold exportBytes; simp [h]

theorem seqLoop_dec (T B : Nat) (hT : 1 ≤ T) (hB : 1 ≤ B) :
    ∀ (fuel j : Nat) (ss : List Stream) (fin : RFile) (fout : WFile) (cs : List Block),
      ss.length = T → fin.eof = false → fin.data.drop fin.pos = joinBlocks cs → 1 ≤ cs.length →
      cs.length ≤ B * fuel → fout.pos = fout.data.length →
      OutIs (seqLoop T B false fuel j ss fin fout) (fout.data ++ unpad (blkLoop T B j ss cs)) := by
  intro fuel
  induction fuel with
  | zero => intro j ss fin fout cs _ _ _ _ h; omega
  | succ fuel ih =>
    intro j ss fin fout cs hss heof hd hcs hfuel hpos
    obtain ⟨s, hs⟩ := getElem?_mod_some T j hT ss hss
    by_cases hlen : B < cs.length
    · obtain ⟨buf, hload, hb, htot, hfin⟩ := loadBuffer_dec_full B hB fin cs heof hd hlen
      rw [blkLoop, hs]
      simp only
      rw [dif_pos ⟨by omega, hlen⟩]
      simp only [seqLoop, hload, hs, hb]
      rw [if_pos trivial]
      rw [exportBytes_nonfinal _ _ (by simp only [hfin])]
      simp only
      obtain ⟨hw1, hw2⟩ := fwrite_end fout (joinBlocks (s.run (List.take B cs)).snd) hpos
      have hd2 : cs.drop B ≠ [] := by
        apply List.ne_nil_of_length_pos; simp only [List.length_drop]; omega
      have hd' : fin.data.drop fin.pos = joinBlocks cs ++ [] := by simpa using hd
      have := ih (j + 1) (setAt ss (j % T) (s.run (List.take B cs)).fst) { data := fin.data, pos := fin.pos + 16 * B, eof := fin.eof }
        (fout.fwrite (joinBlocks (s.run (List.take B cs)).snd)) (cs.drop B) (by simp [setAt, hss]) heof
        (by simp only; rw [← List.drop_drop, hd', drop_join_append cs [] B (by omega)]; simp)
        (by simp only [List.length_drop]; omega)
        (by simp only [List.length_drop]; rw [Nat.mul_add] at hfuel; omega) hw2
      rw [hw1] at this
      rw [unpad_append _ _ (by
        apply List.ne_nil_of_length_pos
        rw [blkLoop_length T B hT hB _ _ _ _ (Nat.le_refl _) (by simp [hss])]
        simp only [List.length_drop]; omega), ← List.append_assoc]
      exact this
    · have hlen' : cs.length ≤ B := by omega
      obtain ⟨fin', buf, hload, hb, htot, hfin⟩ := loadBuffer_dec_final B fin cs heof hd hlen' hcs
      rw [blkLoop, hs]
      simp only
      rw [dif_neg (by omega), List.take_of_length_le hlen']
      simp only [seqLoop, hload, hs, hb]
      rw [if_neg (by decide)]
      rw [exportBytes_dec_final _ (by simp only [hfin]) (by simp only [run_length, htot])]
      obtain ⟨hw1, hw2⟩ := fwrite_end fout (unpad (s.run cs).snd) hpos
      exact ⟨hw1, by rw [hw2, hw1]⟩

theorem blkLoop_small (T B j : Nat) (ss : List Stream) (bl : List Block) (s : Stream) (hs : ss[j % T]? = some s) (h : bl.length ≤ B) :
    blkLoop T B j ss bl = (s.run bl).2 := by
  rw [blkLoop, hs]; simp only
  rw [dif_neg (by omega), List.take_of_length_le h]

theorem blkLoop_big (T B j : Nat) (hB : 1 ≤ B) (ss : List Stream) (bl : List Block) (s : Stream) (hs : ss[j % T]? = some s) (h : B < bl.length) :
    blkLoop T B j ss bl = (s.run (bl.take B)).2 ++ blkLoop T B (j + 1) (ss.set (j % T) (s.run (bl.take B)).1) (bl.drop B) := by
  rw [blkLoop, hs]; simp only
  rw [dif_pos ⟨by omega, h⟩]

/-- pointwise synchrony of the encryptor list and the decryptor list -/
def AllSync (E D : Block → Block) (sse ssd : List Stream) : Prop :=
  ∀ (i : Nat) (se sd : Stream), sse[i]? = some se → ssd[i]? = some sd → InSync E D se sd

theorem AllSync_set (E D : Block → Block) (sse ssd : List Stream) (h : AllSync E D sse ssd) (k : Nat) (se sd : Stream)
    (hsync : InSync E D se sd) : AllSync E D (sse.set k se) (ssd.set k sd) := by
  unfold AllSync
  intro i se' sd' h1 h2
  rw [List.getElem?_set] at h1 h2
  by_cases hk : k = i
  · simp only [hk, if_true] at h1 h2
    split at h1
    · split at h2
      · simp only [Option.some.injEq] at h1 h2; subst h1; subst h2; exact hsync
      · simp at h2
    · simp at h1
  · simp only [hk, if_false] at h1 h2
    exact h i se' sd' h1 h2

theorem blkLoop_sync (T B : Nat) (hT : 1 ≤ T) (hB : 1 ≤ B) (E D : Block → Block) (hDE : ∀ x, D (E x) = x) :
    ∀ (n : Nat) (bl : List Block) (j : Nat) (sse ssd : List Stream), bl.length ≤ n → sse.length = T → ssd.length = T →
      AllSync E D sse ssd → blkLoop T B j ssd (blkLoop T B j sse bl) = bl := by
  intro n
  induction n with
  | zero =>
    intro bl j sse ssd hn hse hsd hsync
    obtain ⟨se, hse'⟩ := getElem?_mod_some T j hT sse hse
    obtain ⟨sd, hsd'⟩ := getElem?_mod_some T j hT ssd hsd
    have : bl = [] := List.length_eq_zero_iff.mp (by omega)
    subst this
    rw [blkLoop_small T B j sse [] se hse' (by simp), run_nil, blkLoop_small T B j ssd [] sd hsd' (by simp), run_nil]
  | succ n ih =>
    intro bl j sse ssd hn hse hsd hsync
    obtain ⟨se, hse'⟩ := getElem?_mod_some T j hT sse hse
    obtain ⟨sd, hsd'⟩ := getElem?_mod_some T j hT ssd hsd
    have hs := hsync _ _ _ hse' hsd'
    by_cases hlen : B < bl.length
    · have hr := sync_run E D hDE se sd hs (bl.take B)
      have hl1 : (se.run (bl.take B)).2.length = B := by rw [run_length, List.length_take]; omega
      rw [blkLoop_big T B j hB sse bl se hse' hlen]
      rw [blkLoop_big T B j hB ssd _ sd hsd' (by
        rw [List.length_append, hl1]
        rw [blkLoop_length T B hT hB _ _ _ _ (Nat.le_refl _) (by simp [hse])]
        simp only [List.length_drop]; omega)]
      rw [List.take_left' hl1, List.drop_left' hl1, hr.1]
      rw [ih _ _ _ _ (by simp only [List.length_drop]; omega) (by simp [hse]) (by simp [hsd])
        (AllSync_set E D sse ssd hsync _ _ _ hr.2)]
      exact List.take_append_drop B bl
    · have hr := sync_run E D hDE se sd hs bl
      rw [blkLoop_small T B j sse bl se hse' (by omega)]
      rw [blkLoop_small T B j ssd _ sd hsd' (by rw [run_length]; omega)]
      exact hr.1

end Wencry.Proofs.Roundtrip
