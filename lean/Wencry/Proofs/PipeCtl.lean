/-
C04(a) and C14 for the pipeline transition system of Model/Pipe.lean, for every T ≥ 1, every well-formed input and every
schedule: the control invariant `PInv` is inductive, every state satisfying it is either finished or has an enabled
thread (no deadlock, no lost wake-up), a worker touches its buffer only while it is READY and the I/O thread is outside
its region for it, and the I/O thread is inside that region only while the worker is parked.
-/
import Wencry.Model.Pipe
namespace Wencry.Proofs.PipeCtl
open Wencry Wencry.Model.Pipe Wencry.Model.IoBuffer

variable {σ : Type}

def liveCount : Nat → (Nat → Buf) → Nat
  | 0, _ => 0
  | T+1, buf => liveCount T buf + (if (buf T).st ≠ .inv then 1 else 0)

/-- per-buffer compatibility table (Appendix A) -/
def BufOK (s : St σ) (i : Nat) : Prop :=
  let b := s.buf i; let p := s.wpc i
  (b.st = .empty → (p = .initWait ∨ p = .initSleep)) ∧
  (b.st = .ready → (p = .initWait ∨ p = .fetch ∨ p = .process ∨ p = .setUpd ∨ p = .waitRdy ∨ p = .afterWait ∨ p = .fetch2)
      ∧ 1 ≤ b.total ∧ b.now ≤ b.total ∧ ¬ ioIn s i
      ∧ (p = .process → 1 ≤ b.now) ∧ ((p = .waitRdy ∨ p = .afterWait ∨ p = .fetch2) → b.now = 0)) ∧
  (b.st = .updating → (p = .waitRdy ∨ p = .sleepRdy)) ∧
  (b.st = .inv → (p = .initWait ∨ p = .fetch ∨ p = .setUpd ∨ p = .waitRdy ∨ p = .afterWait ∨ p = .done)
      ∧ ¬ ioIn s i ∧ b.now = b.total) ∧
  (p = .initSleep → b.st = .empty) ∧
  (p = .sleepRdy → b.st = .updating) ∧
  (p = .setUpd → b.st = .ready ∧ b.now = b.total ∨ b.st = .inv) ∧
  ((p = .fetch ∨ p = .process ∨ p = .fetch2) → b.st = .ready ∨ (b.st = .inv ∧ p = .fetch)) ∧
  (ioIn s i → b.st = .empty ∨ b.st = .updating) ∧
  (s.turn = i → s.iopc = .exporting → b.st = .updating) ∧
  (s.turn = i → s.iopc = .sleepUpd → b.st = .ready) ∧
  (s.turn = i → (s.iopc = .waitUpd ∨ s.iopc = .sleepUpd) → b.st ≠ .inv) ∧
  ((b.st = .empty ∨ b.st = .updating) → ¬ (s.turn = i ∧ s.iopc = .setRdy) → b.now = b.total)

def PInv (T : Nat) (s : St σ) : Prop :=
  (s.iopc ≠ .done → s.turn < T) ∧
  s.live = liveCount T s.buf ∧
  (s.iopc = .done → s.live = 0) ∧
  (s.iopc = .setRdy → s.lst ≠ .nodata → 1 ≤ (s.buf s.turn).total ∧ (s.buf s.turn).now = 0) ∧
  (s.iopc = .setRdy → s.lst = .nodata → (s.buf s.turn).now = (s.buf s.turn).total) ∧
  (∀ i, i < T → BufOK s i)

theorem liveCount_congr (T : Nat) (f g : Nat → Buf) (h : ∀ i, i < T → ((f i).st = .inv ↔ (g i).st = .inv)) :
    liveCount T f = liveCount T g := by
  induction T with
  | zero => rfl
  | succ n ih =>
    simp only [liveCount]
    rw [ih (fun i hi => h i (by omega))]
    have := h n (by omega)
    simp [this]

theorem liveCount_le (T : Nat) (f : Nat → Buf) : liveCount T f ≤ T := by
  induction T with
  | zero => simp [liveCount]
  | succ n ih => simp only [liveCount]; split <;> omega

theorem liveCount_init (T : Nat) : liveCount T (fun _ => ⟨.empty, 0, 0⟩) = T := by
  induction T with
  | zero => rfl
  | succ n ih => simp [liveCount, ih]

/-- setting a live buffer to INV lowers the count by one -/
theorem liveCount_upd_inv (T : Nat) (f : Nat → Buf) (i : Nat) (b : Buf) (hi : i < T)
    (hf : (f i).st ≠ .inv) (hb : b.st = .inv) : liveCount T (upd f i b) + 1 = liveCount T f := by
  induction T with
  | zero => omega
  | succ n ih =>
    simp only [liveCount]
    by_cases hin : i = n
    · subst hin
      have : liveCount i (upd f i b) = liveCount i f := by
        apply liveCount_congr; intro k hk; simp [upd_other _ _ _ _ (by omega : k ≠ i)]
      simp [this, hb, hf]
    · have := ih (by omega)
      simp [upd_other _ _ _ _ (Ne.symm hin |> fun h => (by omega : n ≠ i))]
      omega

theorem liveCount_pos_exists (T : Nat) (f : Nat → Buf) (h : 0 < liveCount T f) : ∃ k, k < T ∧ (f k).st ≠ .inv := by
  induction T with
  | zero => simp [liveCount] at h
  | succ n ih =>
    simp only [liveCount] at h
    by_cases hn : (f n).st ≠ .inv
    · exact ⟨n, by omega, hn⟩
    · simp [hn] at h
      obtain ⟨k, hk, hk'⟩ := ih h
      exact ⟨k, by omega, hk'⟩

theorem liveCount_zero_all (T : Nat) (f : Nat → Buf) (h : liveCount T f = 0) : ∀ k, k < T → (f k).st = .inv := by
  induction T with
  | zero => intro k hk; omega
  | succ n ih =>
    simp only [liveCount] at h
    intro k hk
    by_cases hn : (f n).st ≠ .inv
    · simp [hn] at h
    · simp [hn] at h
      by_cases hkn : k = n
      · subst hkn; simpa using hn
      · exact ih h k (by omega)

theorem nextTurn_aux (T : Nat) (buf : Nat → Buf) (hT : 0 < T) :
    ∀ fuel t, (∃ d, 1 ≤ d ∧ d ≤ fuel ∧ (buf ((t + d) % T)).st ≠ .inv) →
      nextTurn T buf t fuel < T ∧ (buf (nextTurn T buf t fuel)).st ≠ .inv := by
  intro fuel
  induction fuel with
  | zero => intro t ⟨d, h1, h2, _⟩; omega
  | succ n ih =>
    intro t ⟨d, h1, h2, h3⟩
    simp only [nextTurn]
    split
    · rename_i hne
      exact ⟨Nat.mod_lt _ hT, hne⟩
    · rename_i hinv
      have hd : d ≠ 1 := by
        intro h; subst h; exact hinv h3
      apply ih
      refine ⟨d - 1, by omega, by omega, ?_⟩
      have : ((t + 1) % T + (d - 1)) % T = (t + d) % T := by
        rw [Nat.mod_add_mod]; congr 1; omega
      rw [this]; exact h3

/-- specification of the cyclic search in turn_iter -/
theorem nextTurn_spec (T : Nat) (buf : Nat → Buf) (t : Nat) (hT : 0 < T)
    (hex : ∃ k, k < T ∧ (buf k).st ≠ .inv) :
    nextTurn T buf t T < T ∧ (buf (nextTurn T buf t T)).st ≠ .inv := by
  apply nextTurn_aux T buf hT
  obtain ⟨k, hk, hk'⟩ := hex
  -- distance from t to k going forward, in 1..T
  by_cases h : t % T < k
  · refine ⟨k - t % T, by omega, by omega, ?_⟩
    have : (t + (k - t % T)) % T = k := by
      have h1 : t = T * (t / T) + t % T := (Nat.div_add_mod t T).symm
      have : t + (k - t % T) = T * (t / T) + k := by omega
      rw [this, Nat.mul_add_mod, Nat.mod_eq_of_lt hk]
    rw [this]; exact hk'
  · refine ⟨k + T - t % T, ?_, ?_, ?_⟩
    · have := Nat.mod_lt t hT; omega
    · omega
    · have : (t + (k + T - t % T)) % T = k := by
        have h1 : t = T * (t / T) + t % T := (Nat.div_add_mod t T).symm
        have h2 := Nat.mod_lt t hT
        have : t + (k + T - t % T) = T * (t / T + 1) + k := by
          rw [Nat.mul_add]; omega
        rw [this, Nat.mul_add_mod, Nat.mod_eq_of_lt hk]
      rw [this]; exact hk'

theorem PInv_init (T : Nat) (hT : 0 < T) (ws0 : Nat → σ) : PInv T (init T ws0) := by
  refine ⟨fun _ => hT, ?_, by simp [init], by simp [init], by simp [init], ?_⟩
  · simp [init, liveCount_init]
  · intro i _; simp [BufOK, init, ioIn]

theorem liveCount_upd_same (T : Nat) (f : Nat → Buf) (i : Nat) (b : Buf) (h : (b.st = .inv ↔ (f i).st = .inv)) :
    liveCount T (upd f i b) = liveCount T f := by
  apply liveCount_congr
  intro k _
  by_cases hk : k = i
  · subst hk; simp [h]
  · simp [hk]

/-- worker steps preserve the invariant -/
theorem PInv_stepW (f : σ → Block → σ × Block) (T : Nat) (s s' : St σ) (i : Nat) (hi : i < T) (h : PInv T s) (hs : stepW f s i = some s') : PInv T s' := by
  obtain ⟨h1, h2, h3, h4, h5, h6⟩ := h
  have hb := h6 i hi
  simp only [BufOK, ioIn] at hb
  unfold stepW at hs
  split at hs
  all_goals (try (simp only [Option.some.injEq] at hs))
  all_goals (try (split at hs))
  all_goals (try (simp only [Option.some.injEq, reduceCtorEq] at hs))
  all_goals (try subst hs)
  all_goals (
    refine ⟨?_, ?_, ?_, ?_, ?_, ?_⟩
    · first | exact h1 | (intro hne; apply h1; intro hd; simp_all)
    · first | exact h2 | (rw [liveCount_upd_same]; exact h2; simp_all)
    · first | exact h3 | (intro hd; split at hd <;> simp_all) | (intro hd; simp_all) | grind
    · first | exact h4 | (simp only [upd]; intro ha hl; split <;> simp_all <;> grind)
    · first | exact h5 | (simp only [upd]; intro ha hl; split <;> simp_all <;> grind)
    · intro j hj
      have hbj := h6 j hj
      by_cases hji : j = i
      · subst hji
        simp only [BufOK, ioIn]
        try simp only [upd_same]
        cases hst : (s.buf j).st <;> simp_all <;> (try omega) <;> (try grind)
      · simp only [BufOK, ioIn] at hbj ⊢
        try simp only [upd_other _ _ _ _ hji]
        first | exact hbj | grind )

set_option maxHeartbeats 1000000 in
/-- I/O-thread steps preserve the invariant -/
theorem PInv_stepIo (ispad : Bool) (inp : Input) (hwf : inp.WF) (T : Nat) (hT : 0 < T) (s s' : St σ) (h : PInv T s) (hs : stepIo inp ispad T s = some s') :
    PInv T s' := by
  obtain ⟨h1, h2, h3, h4, h5, h6⟩ := h
  have hw := hwf s.pos
  have hnt : 0 < s.live → nextTurn T s.buf s.turn T < T ∧ (s.buf (nextTurn T s.buf s.turn T)).st ≠ .inv := by
    intro hl; exact nextTurn_spec T s.buf s.turn hT (liveCount_pos_exists T s.buf (h2 ▸ hl))
  unfold stepIo at hs
  split at hs
  all_goals (try (simp only [Option.some.injEq] at hs))
  all_goals (try (split at hs))
  all_goals (try (simp only [Option.some.injEq, reduceCtorEq] at hs))
  all_goals (try subst hs)
  all_goals (rename_i hpc)
  all_goals (
    have ht : s.turn < T := h1 (by simp_all)
    have hbt := h6 s.turn ht
    simp only [BufOK, ioIn] at hbt
    refine ⟨?_, ?_, ?_, ?_, ?_, ?_⟩
    · intro _; first | exact ht | exact (hnt (by omega)).1
    · first
      | exact h2
      | (rw [liveCount_upd_same]; exact h2; simp_all; done)
      | (rw [liveCount_upd_same]; exact h2; cases hst : (s.buf s.turn).st <;> simp_all; done)
      | (have := liveCount_upd_inv T s.buf s.turn ⟨.inv, (s.buf s.turn).total, (s.buf s.turn).now⟩ ht (by cases hst : (s.buf s.turn).st <;> simp_all) rfl
         simp only []; omega)
    · first | (intro hd; simp_all; done) | (intro hd; simp at hd) | grind
    · first | (intro ha hl; simp_all; done) | (intro ha hl; simp_all [upd]; omega) | grind
    · first | (intro ha hl; simp_all; done) | (intro ha hl; simp_all [upd]; try omega) | grind
    · intro j hj
      have hbj := h6 j hj
      simp only [BufOK, ioIn] at hbj ⊢
      by_cases hji : j = s.turn
      · subst hji
        try simp only [upd_same]
        first
        | (cases hst : (s.buf s.turn).st <;> simp_all <;> (try omega) <;> (try grind); done)
        | (cases hst : (s.buf s.turn).st <;> cases hwp : s.wpc s.turn <;> simp_all [wake] <;> (try omega) <;> (try grind))
      · try simp only [upd_other _ _ _ _ hji]
        first | exact hbj | grind )

/-- states reachable from the initial state under any schedule -/
inductive Reach (f : σ → Block → σ × Block) (inp : Input) (ispad : Bool) (T : Nat) (ws0 : Nat → σ) : St σ → Prop
  | init : Reach f inp ispad T ws0 (init T ws0)
  | step (s s' : St σ) (tid : Option Nat) : Reach f inp ispad T ws0 s → step f inp ispad T s tid = some s' → Reach f inp ispad T ws0 s'

theorem reach_inv (f : σ → Block → σ × Block) (inp : Input) (hwf : inp.WF) (ispad : Bool) (T : Nat) (hT : 0 < T) (ws0 : Nat → σ)
    (s : St σ) (h : Reach f inp ispad T ws0 s) : PInv T s := by
  induction h with
  | init => exact PInv_init T hT ws0
  | step s s' tid _ hs ih =>
    cases tid with
    | none => exact PInv_stepIo ispad inp hwf T hT s s' ih hs
    | some i =>
      simp only [step] at hs
      split at hs
      · rename_i hi; exact PInv_stepW f T s s' i hi ih hs
      · simp at hs


/-- C04(a): no reachable state is stuck unless everything has finished -/
theorem deadlock_free (f : σ → Block → σ × Block) (inp : Input) (ispad : Bool) (T : Nat) (s : St σ) (h : PInv T s) :
    allDone T s ∨ ∃ tid, (step f inp ispad T s tid).isSome := by
  obtain ⟨h1, h2, h3, h4, h5, h6⟩ := h
  by_cases hio : (stepIo inp ispad T s).isSome
  · exact Or.inr ⟨none, hio⟩
  · -- the I/O thread is disabled: it is asleep or done
    have hpc : s.iopc = .sleepUpd ∨ s.iopc = .done := by
      unfold stepIo at hio
      split at hio <;> simp_all <;> (try (split at hio <;> simp_all))
    rcases hpc with hpc | hpc
    · -- asleep on `turn`: that buffer is READY, so its worker is active
      have ht : s.turn < T := h1 (by simp [hpc])
      have hb := h6 s.turn ht
      simp only [BufOK, ioIn] at hb
      have hready : (s.buf s.turn).st = .ready := hb.2.2.2.2.2.2.2.2.2.2.1 trivial hpc
      refine Or.inr ⟨some s.turn, ?_⟩
      have hp := (hb.2.1 hready).1
      simp only [step, ht, if_true, stepW]
      rcases hp with hp | hp | hp | hp | hp | hp | hp <;> simp [hp] <;> (try split) <;> simp
    · -- done: live = 0, every buffer INV, so no worker sleeps; either all done or one can move
      have hl := h3 hpc
      have hall := liveCount_zero_all T s.buf (h2 ▸ hl)
      by_cases hd : ∀ i, i < T → s.wpc i = .done
      · exact Or.inl ⟨hpc, hd⟩
      · have ⟨i, hi⟩ : ∃ i, ¬ (i < T → s.wpc i = .done) := Classical.not_forall.mp hd
        have hiT : i < T := Classical.not_imp.mp hi |>.1
        have hnd : s.wpc i ≠ .done := Classical.not_imp.mp hi |>.2
        have hb := h6 i hiT
        simp only [BufOK, ioIn] at hb
        have hp := (hb.2.2.2.1 (hall i hiT)).1
        refine Or.inr ⟨some i, ?_⟩
        simp only [step, hiT, if_true, stepW]
        rcases hp with hp | hp | hp | hp | hp | hp <;> simp [hp] <;> (try split) <;> simp_all

/-- C14 core: a worker is at a pc that touches its buffer only while it is READY and the I/O thread is outside -/
theorem ownership (T : Nat) (s : St σ) (h : PInv T s) (i : Nat) (hi : i < T)
    (hw : s.wpc i = .process ∨ s.wpc i = .fetch2 ∨ (s.wpc i = .fetch ∧ (s.buf i).st ≠ .inv)) :
    (s.buf i).st = .ready ∧ ¬ ioIn s i := by
  have hb := h.2.2.2.2.2 i hi
  simp only [BufOK] at hb
  have h8 := hb.2.2.2.2.2.2.2.1
  have hr : (s.buf i).st = .ready := by
    rcases hw with hw | hw | ⟨hw, hne⟩
    · rcases h8 (Or.inr (Or.inl hw)) with h | ⟨_, h⟩
      · exact h
      · simp [hw] at h
    · rcases h8 (Or.inr (Or.inr hw)) with h | ⟨_, h⟩
      · exact h
      · simp [hw] at h
    · rcases h8 (Or.inl hw) with h | ⟨h, _⟩
      · exact h
      · exact absurd h hne
  exact ⟨hr, (hb.2.1 hr).2.2.2.1⟩

/-- and the I/O thread is inside its region for buffer i only while the worker is parked -/
theorem io_exclusive (T : Nat) (s : St σ) (h : PInv T s) (i : Nat) (hi : i < T) (hio : ioIn s i) :
    ((s.buf i).st = .empty ∨ (s.buf i).st = .updating) ∧
    (s.wpc i = .initWait ∨ s.wpc i = .initSleep ∨ s.wpc i = .waitRdy ∨ s.wpc i = .sleepRdy) := by
  have hb := h.2.2.2.2.2 i hi
  simp only [BufOK] at hb
  have hs := hb.2.2.2.2.2.2.2.2.1 hio
  refine ⟨hs, ?_⟩
  rcases hs with hs | hs
  · rcases hb.1 hs with h | h <;> simp [h]
  · rcases hb.2.2.1 hs with h | h <;> simp [h]


end Wencry.Proofs.PipeCtl
