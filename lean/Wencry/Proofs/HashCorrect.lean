/-
C07 assembled: for every message, the digests computed by the model of the hash code (memory entry point and the
file-buffer entry point, any refill size H ≥ 1, optional 64-byte prefix, any file position) are the FIPS 180-4 / RFC 1321
digests. Layers: HashCompress (block functions = the standards'), HashFramework (block loop, final block, refilling buffer).
-/
import Wencry.Proofs.HashCompress
import Wencry.Proofs.HashFramework
import Wencry.Spec.HMAC
namespace Wencry.Proofs.HashCorrect
open Wencry Wencry.Model.Hash Wencry.Model.HashBuffer Wencry.Model.Stdio Wencry.Proofs.HashFramework Wencry.Proofs.HashCompress

theorem chunksN_length (n : Nat) (l : Bytes) (h : 64 * n ≤ l.length) : ∀ c ∈ Spec.Hash.chunksN n l, c.length = 64 := by
  induction n generalizing l with
  | zero => intro c hc; simp [Spec.Hash.chunksN] at hc
  | succ k ih =>
    intro c hc
    simp only [Spec.Hash.chunksN, List.mem_cons] at hc
    rcases hc with rfl | hc
    · simp [List.length_take]; omega
    · exact ih (l.drop 64) (by simp [List.length_drop]; omega) c hc

theorem chunks64_length (l : Bytes) : ∀ c ∈ Spec.Hash.chunks64 l, c.length = 64 := by
  unfold Spec.Hash.chunks64
  exact chunksN_length _ _ (by omega)

theorem foldl_congr_mem {α β} (f g : α → β → α) (l : List β) (a : α) (h : ∀ a b, b ∈ l → f a b = g a b) :
    l.foldl f a = l.foldl g a := by
  induction l generalizing a with
  | nil => rfl
  | cons x xs ih =>
    simp only [List.foldl_cons]
    rw [h a x (by simp)]
    exact ih _ (fun a b hb => h a b (by simp [hb]))

theorem ofNat64_toNat (n : Nat) : (BitVec.ofNat 64 n).toNat = n % 2 ^ 64 := by simp

theorem padded_sha1 (m : Bytes) : padded Sha1.alg m = Spec.Hash.pad Spec.Hash.be64Bytes m := by
  simp only [padded, Spec.Hash.pad, Sha1.alg, lenBE_eq, ofNat64_toNat]

theorem padded_sha256 (m : Bytes) : padded Sha256.alg m = Spec.Hash.pad Spec.Hash.be64Bytes m := by
  simp only [padded, Spec.Hash.pad, Sha256.alg, lenBE_eq, ofNat64_toNat]

theorem padded_md5 (m : Bytes) : padded Md5.alg m = Spec.Hash.pad Spec.Hash.le64Bytes m := by
  simp only [padded, Spec.Hash.pad, Md5.alg, lenLE_eq, ofNat64_toNat]

/-- result of the model's block loop in terms of the standard's functions -/
theorem sha1_fold (m : Bytes) :
    Sha1.alg.res ((Spec.Hash.chunks64 (padded Sha1.alg m)).foldl Sha1.alg.block Sha1.alg.init) = Spec.Hash.SHA1.hash m := by
  rw [padded_sha1]
  have e1 : Sha1.alg.res = Sha1.res := rfl
  have e2 : Sha1.alg.block = Sha1.block := rfl
  have e3 : Sha1.alg.init = Sha1.init := rfl
  rw [e1, e2, e3, sha1_res_eq, sha1_init_eq]
  unfold Spec.Hash.SHA1.hash
  rw [foldl_congr_mem Sha1.block Spec.Hash.SHA1.compress _ _ (fun a b hb => sha1_block_eq a b (chunks64_length _ b hb))]

theorem sha256_fold (m : Bytes) :
    Sha256.alg.res ((Spec.Hash.chunks64 (padded Sha256.alg m)).foldl Sha256.alg.block Sha256.alg.init) = Spec.Hash.SHA256.hash m := by
  rw [padded_sha256]
  have e1 : Sha256.alg.res = Sha256.res := rfl
  have e2 : Sha256.alg.block = Sha256.block := rfl
  have e3 : Sha256.alg.init = Sha256.init := rfl
  rw [e1, e2, e3, sha256_res_eq, sha256_init_eq]
  unfold Spec.Hash.SHA256.hash
  rw [foldl_congr_mem Sha256.block Spec.Hash.SHA256.compress _ _ (fun a b hb => sha256_block_eq a b (chunks64_length _ b hb))]

theorem md5_fold (m : Bytes) :
    Md5.alg.res ((Spec.Hash.chunks64 (padded Md5.alg m)).foldl Md5.alg.block Md5.alg.init) = Spec.Hash.MD5.hash m := by
  rw [padded_md5]
  have e1 : Md5.alg.res = Md5.res := rfl
  have e2 : Md5.alg.block = Md5.block := rfl
  have e3 : Md5.alg.init = Md5.init := rfl
  rw [e1, e2, e3, md5_res_eq, md5_init_eq]
  unfold Spec.Hash.MD5.hash
  rw [foldl_congr_mem Md5.block Spec.Hash.MD5.compress _ _ (fun a b hb => md5_block_eq a b (chunks64_length _ b hb))]

/-- memory entry point (`getStringHash`) -/
theorem sha1_string (m : Bytes) (hm : m.length < 2 ^ 61) : getStringHash Sha1.alg m = Spec.Hash.SHA1.hash m := by
  rw [getStringHash_eq Sha1.alg (fun n => lenBE_length n) m hm, sha1_fold]

theorem sha256_string (m : Bytes) (hm : m.length < 2 ^ 61) : getStringHash Sha256.alg m = Spec.Hash.SHA256.hash m := by
  rw [getStringHash_eq Sha256.alg (fun n => lenBE_length n) m hm, sha256_fold]

theorem md5_string (m : Bytes) (hm : m.length < 2 ^ 61) : getStringHash Md5.alg m = Spec.Hash.MD5.hash m := by
  rw [getStringHash_eq Md5.alg (fun n => lenLE_length n) m hm, md5_fold]

/-- `Hash.stringHash` (the factory + `getStringHash`) for the three hash numbers of the file format -/
theorem stringHash_eq (a : Nat) (ha : a ≤ 2) (m : Bytes) (hm : m.length < 2 ^ 61) :
    stringHash a m = some (Spec.HMAC.hashOf a m) := by
  rcases a with _ | _ | _ | a
  · simp [stringHash, Spec.HMAC.hashOf, sha1_string m hm]
  · simp [stringHash, Spec.HMAC.hashOf, md5_string m hm]
  · simp [stringHash, Spec.HMAC.hashOf, sha256_string m hm]
  · omega

/-- file entry point (`getFileHash` through `filebuffer64`): the digest of the optional prefix block followed by the file
    from its current position to the end, for every refill size -/
theorem fileHash_eq (a : Nat) (ha : a ≤ 2) (H : Nat) (hH : 1 ≤ H) (fp : RFile) (hpos : fp.pos ≤ fp.data.length)
    (pre : Option Bytes) (hpre : ∀ p, pre = some p → p.length = 64)
    (hm : (pre.getD [] ++ fp.data.drop fp.pos).length < 2 ^ 61) :
    ∃ fb, fileHash a reader (fuelFor H fp) (FB.new H fp pre) = some (Spec.HMAC.hashOf a (pre.getD [] ++ fp.data.drop fp.pos), fb)
          ∧ fb.fp.data = fp.data := by
  rcases a with _ | _ | _ | a
  · obtain ⟨fb, h1, h2⟩ := getFileHash_eq Sha1.alg (fun n => lenBE_length n) H hH fp hpos pre hpre hm
    exact ⟨fb, by simp only [fileHash, h1, sha1_fold, Spec.HMAC.hashOf], h2⟩
  · obtain ⟨fb, h1, h2⟩ := getFileHash_eq Md5.alg (fun n => lenLE_length n) H hH fp hpos pre hpre hm
    exact ⟨fb, by simp only [fileHash, h1, md5_fold, Spec.HMAC.hashOf], h2⟩
  · obtain ⟨fb, h1, h2⟩ := getFileHash_eq Sha256.alg (fun n => lenBE_length n) H hH fp hpos pre hpre hm
    exact ⟨fb, by simp only [fileHash, h1, sha256_fold, Spec.HMAC.hashOf], h2⟩
  · omega

end Wencry.Proofs.HashCorrect
