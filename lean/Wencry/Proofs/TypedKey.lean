/-
The key as the user types it (C06 at the command line): the decoder of `-k` cannot turn a wrong key text into the right key.
Two accepted key texts that decode to the same 16 bytes are the same text up to the four unused low bits of the 22nd symbol
(RFC 4648 "non-canonical" encodings, which the validator tolerates). The statement is about the decode table REGENERATED from
valget/base64/tab.h (`Gen.hexT`): a table that maps two alphabet symbols to one value breaks it.
-/
import Wencry.Model.Base64
import Wencry.Proofs.Base64Correct
namespace Wencry.Proofs.TypedKey
open Wencry Wencry.Gen Wencry.Model.Base64

/-- the sextet the decoder reads for a character -/
def sextet (c : Byte) : Byte := hexT (c.truncate 7)

theorem alpha_table : ∀ c : BitVec 8, isBase64 c = true →
    Gen.b64T ((sextet c).truncate 6) = c ∧ (sextet c).toNat < 64 ∧ c ≠ eqChar ∧ c ≠ 255 ∧ ¬ (c.toNat ≥ 128) := by
  decide +kernel

/-- the decode table is injective on the alphabet (and its values there are sextets) -/
theorem sextet_injective_on_alphabet (c c' : Byte) (h : isBase64 c = true) (h' : isBase64 c' = true) (he : sextet c = sextet c') : c = c' := by
  rw [← (alpha_table c h).1, ← (alpha_table c' h').1, he]

theorem sextet_lt_64 (c : Byte) (h : isBase64 c = true) : (sextet c).toNat < 64 := (alpha_table c h).2.1

def grp (a b c d : Byte) : W32 :=
  ((((0 : W32) ||| ((sextet a).zeroExtend 32 <<< 18)) ||| ((sextet b).zeroExtend 32 <<< 12)) ||| ((sextet c).zeroExtend 32 <<< 6)) ||| ((sextet d).zeroExtend 32 <<< 0)

def grp2 (a b : Byte) : W32 :=
  ((0 : W32) ||| ((sextet a).zeroExtend 32 <<< 18)) ||| ((sextet b).zeroExtend 32 <<< 12)

theorem decLoop_alpha1 (c : Byte) (hc : isBase64 c = true) (cs : Bytes) (h : W32) (j tail : Nat) (out : Bytes) :
    decLoop (c :: cs) h j tail out =
      if (j + 1) % 4 = 0 then
        decLoop cs 0 0 tail (out ++
          [((h ||| ((sextet c).zeroExtend 32 <<< (6 * (3 - j)))) >>> 16).truncate 8,
           ((h ||| ((sextet c).zeroExtend 32 <<< (6 * (3 - j)))) >>> 8).truncate 8,
           (h ||| ((sextet c).zeroExtend 32 <<< (6 * (3 - j)))).truncate 8])
      else decLoop cs (h ||| ((sextet c).zeroExtend 32 <<< (6 * (3 - j)))) ((j + 1) % 4) tail out := by
  obtain ⟨_, _, h3, h4, h5⟩ := alpha_table c hc
  rw [decLoop, if_neg h3, if_neg h4, if_neg h5]
  rfl

theorem decLoop_grp (a b c d : Byte) (ha : isBase64 a = true) (hb : isBase64 b = true) (hc : isBase64 c = true) (hd : isBase64 d = true)
    (cs : Bytes) (tail : Nat) (out : Bytes) :
    decLoop (a :: b :: c :: d :: cs) 0 0 tail out =
      decLoop cs 0 0 tail (out ++ [(grp a b c d >>> 16).truncate 8, (grp a b c d >>> 8).truncate 8, (grp a b c d).truncate 8]) := by
  rw [decLoop_alpha1 a ha, if_neg (by decide), decLoop_alpha1 b hb, if_neg (by decide), decLoop_alpha1 c hc, if_neg (by decide),
    decLoop_alpha1 d hd, if_pos (by decide)]
  rfl

theorem decLoop_grp2 (a b : Byte) (ha : isBase64 a = true) (hb : isBase64 b = true) (out : Bytes) :
    decLoop [a, b, eqChar, eqChar] 0 0 0 out = .ok (some (out, grp2 a b, 2)) := by
  rw [decLoop_alpha1 a ha, if_neg (by decide), decLoop_alpha1 b hb, if_neg (by decide), Base64.decLoop_eq_eq]
  rfl

theorem zext6 (x : Byte) (h : x.toNat < 64) : x.zeroExtend 32 = (x.truncate 6).zeroExtend 32 := by
  apply BitVec.eq_of_toNat_eq
  simp
  omega

theorem grp_toNat (a b c d : Byte) (ha : isBase64 a = true) (hb : isBase64 b = true) (hc : isBase64 c = true) (hd : isBase64 d = true) :
    (grp a b c d).toNat = (sextet a).toNat * 262144 + (sextet b).toNat * 4096 + (sextet c).toNat * 64 + (sextet d).toNat := by
  have h1 := sextet_lt_64 a ha; have h2 := sextet_lt_64 b hb; have h3 := sextet_lt_64 c hc; have h4 := sextet_lt_64 d hd
  unfold grp
  rw [zext6 _ h1, zext6 _ h2, zext6 _ h3, zext6 _ h4, Base64.pack4]
  simp only [BitVec.toNat_ofNat, BitVec.toNat_setWidth]
  omega

theorem grp2_toNat (a b : Byte) (ha : isBase64 a = true) (hb : isBase64 b = true) :
    (grp2 a b).toNat = (sextet a).toNat * 262144 + (sextet b).toNat * 4096 := by
  have h1 := sextet_lt_64 a ha; have h2 := sextet_lt_64 b hb
  unfold grp2
  rw [zext6 _ h1, zext6 _ h2, Base64.pack4_2]
  simp only [BitVec.toNat_ofNat, BitVec.toNat_setWidth]
  omega

theorem grp_inj (a b c d a' b' c' d' : Byte)
    (ha : isBase64 a = true) (hb : isBase64 b = true) (hc : isBase64 c = true) (hd : isBase64 d = true)
    (ha' : isBase64 a' = true) (hb' : isBase64 b' = true) (hc' : isBase64 c' = true) (hd' : isBase64 d' = true)
    (e1 : (grp a b c d >>> 16).truncate 8 = (grp a' b' c' d' >>> 16).truncate 8)
    (e2 : (grp a b c d >>> 8).truncate 8 = (grp a' b' c' d' >>> 8).truncate 8)
    (e3 : (grp a b c d).truncate 8 = (grp a' b' c' d').truncate 8) :
    a = a' ∧ b = b' ∧ c = c' ∧ d = d' := by
  have h1 := sextet_lt_64 a ha; have h2 := sextet_lt_64 b hb; have h3 := sextet_lt_64 c hc; have h4 := sextet_lt_64 d hd
  have h1' := sextet_lt_64 a' ha'; have h2' := sextet_lt_64 b' hb'; have h3' := sextet_lt_64 c' hc'; have h4' := sextet_lt_64 d' hd'
  have g := grp_toNat a b c d ha hb hc hd
  have g' := grp_toNat a' b' c' d' ha' hb' hc' hd'
  have e1 := congrArg BitVec.toNat e1
  have e2 := congrArg BitVec.toNat e2
  have e3 := congrArg BitVec.toNat e3
  simp only [BitVec.toNat_setWidth, BitVec.toNat_ushiftRight, Nat.shiftRight_eq_div_pow, g, g'] at e1 e2 e3
  refine ⟨sextet_injective_on_alphabet _ _ ha ha' (BitVec.eq_of_toNat_eq ?_), sextet_injective_on_alphabet _ _ hb hb' (BitVec.eq_of_toNat_eq ?_),
    sextet_injective_on_alphabet _ _ hc hc' (BitVec.eq_of_toNat_eq ?_), sextet_injective_on_alphabet _ _ hd hd' (BitVec.eq_of_toNat_eq ?_)⟩ <;> omega

theorem grp2_inj (a b a' b' : Byte)
    (ha : isBase64 a = true) (hb : isBase64 b = true) (ha' : isBase64 a' = true) (hb' : isBase64 b' = true)
    (e1 : (grp2 a b >>> 16).truncate 8 = (grp2 a' b' >>> 16).truncate 8) :
    a = a' ∧ sextet b >>> 4 = sextet b' >>> 4 := by
  have h1 := sextet_lt_64 a ha; have h2 := sextet_lt_64 b hb
  have h1' := sextet_lt_64 a' ha'; have h2' := sextet_lt_64 b' hb'
  have g := grp2_toNat a b ha hb
  have g' := grp2_toNat a' b' ha' hb'
  have e1 := congrArg BitVec.toNat e1
  simp only [BitVec.toNat_setWidth, BitVec.toNat_ushiftRight, Nat.shiftRight_eq_div_pow, g, g'] at e1
  refine ⟨sextet_injective_on_alphabet _ _ ha ha' (BitVec.eq_of_toNat_eq ?_), BitVec.eq_of_toNat_eq ?_⟩
  · omega
  · simp only [BitVec.toNat_ushiftRight, Nat.shiftRight_eq_div_pow]; omega

theorem key_explicit (c0 c1 c2 c3 c4 c5 c6 c7 c8 c9 c10 c11 c12 c13 c14 c15 c16 c17 c18 c19 c20 c21 : Byte) (h0 : isBase64 c0 = true) (h1 : isBase64 c1 = true) (h2 : isBase64 c2 = true) (h3 : isBase64 c3 = true) (h4 : isBase64 c4 = true) (h5 : isBase64 c5 = true) (h6 : isBase64 c6 = true) (h7 : isBase64 c7 = true) (h8 : isBase64 c8 = true) (h9 : isBase64 c9 = true) (h10 : isBase64 c10 = true) (h11 : isBase64 c11 = true) (h12 : isBase64 c12 = true) (h13 : isBase64 c13 = true) (h14 : isBase64 c14 = true) (h15 : isBase64 c15 = true) (h16 : isBase64 c16 = true) (h17 : isBase64 c17 = true) (h18 : isBase64 c18 = true) (h19 : isBase64 c19 = true) (h20 : isBase64 c20 = true) (h21 : isBase64 c21 = true) :
    getArgsKey [c0, c1, c2, c3, c4, c5, c6, c7, c8, c9, c10, c11, c12, c13, c14, c15, c16, c17, c18, c19, c20, c21, eqChar, eqChar] = .ok (some [(grp c0 c1 c2 c3 >>> 16).truncate 8, (grp c0 c1 c2 c3 >>> 8).truncate 8, (grp c0 c1 c2 c3).truncate 8, (grp c4 c5 c6 c7 >>> 16).truncate 8, (grp c4 c5 c6 c7 >>> 8).truncate 8, (grp c4 c5 c6 c7).truncate 8, (grp c8 c9 c10 c11 >>> 16).truncate 8, (grp c8 c9 c10 c11 >>> 8).truncate 8, (grp c8 c9 c10 c11).truncate 8, (grp c12 c13 c14 c15 >>> 16).truncate 8, (grp c12 c13 c14 c15 >>> 8).truncate 8, (grp c12 c13 c14 c15).truncate 8, (grp c16 c17 c18 c19 >>> 16).truncate 8, (grp c16 c17 c18 c19 >>> 8).truncate 8, (grp c16 c17 c18 c19).truncate 8, (grp2 c20 c21 >>> 16).truncate 8]) := by
  apply Base64.getArgsKey_of
  · rw [List.take_of_length_le (by simp), Base64.base64ToHex_decFin,
      decLoop_grp c0 c1 c2 c3 h0 h1 h2 h3, decLoop_grp c4 c5 c6 c7 h4 h5 h6 h7, decLoop_grp c8 c9 c10 c11 h8 h9 h10 h11,
      decLoop_grp c12 c13 c14 c15 h12 h13 h14 h15, decLoop_grp c16 c17 c18 c19 h16 h17 h18 h19,
      decLoop_grp2 c20 c21 h20 h21, Base64.decFin_ok2]
    rfl
  · simp

theorem list24 (s : Bytes) (h : s.length = 24) : ∃ c0 c1 c2 c3 c4 c5 c6 c7 c8 c9 c10 c11 c12 c13 c14 c15 c16 c17 c18 c19 c20 c21 c22 c23, s = [c0, c1, c2, c3, c4, c5, c6, c7, c8, c9, c10, c11, c12, c13, c14, c15, c16, c17, c18, c19, c20, c21, c22, c23] := by
  match s, h with
  | [c0, c1, c2, c3, c4, c5, c6, c7, c8, c9, c10, c11, c12, c13, c14, c15, c16, c17, c18, c19, c20, c21, c22, c23], _ => exact ⟨c0, c1, c2, c3, c4, c5, c6, c7, c8, c9, c10, c11, c12, c13, c14, c15, c16, c17, c18, c19, c20, c21, c22, c23, rfl⟩

theorem valid_explicit (s : Bytes) (h : isValidB64 s = true) :
    ∃ c0 c1 c2 c3 c4 c5 c6 c7 c8 c9 c10 c11 c12 c13 c14 c15 c16 c17 c18 c19 c20 c21, s = [c0, c1, c2, c3, c4, c5, c6, c7, c8, c9, c10, c11, c12, c13, c14, c15, c16, c17, c18, c19, c20, c21, eqChar, eqChar] ∧ isBase64 c0 = true ∧ isBase64 c1 = true ∧ isBase64 c2 = true ∧ isBase64 c3 = true ∧ isBase64 c4 = true ∧ isBase64 c5 = true ∧ isBase64 c6 = true ∧ isBase64 c7 = true ∧ isBase64 c8 = true ∧ isBase64 c9 = true ∧ isBase64 c10 = true ∧ isBase64 c11 = true ∧ isBase64 c12 = true ∧ isBase64 c13 = true ∧ isBase64 c14 = true ∧ isBase64 c15 = true ∧ isBase64 c16 = true ∧ isBase64 c17 = true ∧ isBase64 c18 = true ∧ isBase64 c19 = true ∧ isBase64 c20 = true ∧ isBase64 c21 = true := by
  obtain ⟨hl, ha, h22, h23⟩ := (Base64.isValidB64_iff s).1 h
  obtain ⟨c0, c1, c2, c3, c4, c5, c6, c7, c8, c9, c10, c11, c12, c13, c14, c15, c16, c17, c18, c19, c20, c21, c22, c23, rfl⟩ := list24 s hl
  simp only [← Base64.isBase64_iff] at ha
  refine ⟨c0, c1, c2, c3, c4, c5, c6, c7, c8, c9, c10, c11, c12, c13, c14, c15, c16, c17, c18, c19, c20, c21, ?_, ha 0 (by omega), ha 1 (by omega), ha 2 (by omega), ha 3 (by omega), ha 4 (by omega), ha 5 (by omega), ha 6 (by omega), ha 7 (by omega), ha 8 (by omega), ha 9 (by omega), ha 10 (by omega), ha 11 (by omega), ha 12 (by omega), ha 13 (by omega), ha 14 (by omega), ha 15 (by omega), ha 16 (by omega), ha 17 (by omega), ha 18 (by omega), ha 19 (by omega), ha 20 (by omega), ha 21 (by omega)⟩
  simp only [List.getD_eq_getElem?_getD] at h22 h23
  simp at h22 h23
  rw [h22, h23]

/-- two accepted key texts with the same decoded key agree in their first 21 symbols and in the two used bits of the 22nd -/
theorem typed_key_decoding_injective (s s' : Bytes) (h : isValidB64 s = true) (h' : isValidB64 s' = true) (k : Bytes)
    (hd : getArgsKey s = .ok (some k)) (hd' : getArgsKey s' = .ok (some k)) :
    (∀ i, i < 21 → s.getD i 0 = s'.getD i 0) ∧ sextet (s.getD 21 0) >>> 4 = sextet (s'.getD 21 0) >>> 4 := by
  obtain ⟨c0, c1, c2, c3, c4, c5, c6, c7, c8, c9, c10, c11, c12, c13, c14, c15, c16, c17, c18, c19, c20, c21, rfl, a0, a1, a2, a3, a4, a5, a6, a7, a8, a9, a10, a11, a12, a13, a14, a15, a16, a17, a18, a19, a20, a21⟩ := valid_explicit s h
  obtain ⟨d0, d1, d2, d3, d4, d5, d6, d7, d8, d9, d10, d11, d12, d13, d14, d15, d16, d17, d18, d19, d20, d21, rfl, b0, b1, b2, b3, b4, b5, b6, b7, b8, b9, b10, b11, b12, b13, b14, b15, b16, b17, b18, b19, b20, b21⟩ := valid_explicit s' h'
  rw [key_explicit c0 c1 c2 c3 c4 c5 c6 c7 c8 c9 c10 c11 c12 c13 c14 c15 c16 c17 c18 c19 c20 c21 a0 a1 a2 a3 a4 a5 a6 a7 a8 a9 a10 a11 a12 a13 a14 a15 a16 a17 a18 a19 a20 a21] at hd
  rw [key_explicit d0 d1 d2 d3 d4 d5 d6 d7 d8 d9 d10 d11 d12 d13 d14 d15 d16 d17 d18 d19 d20 d21 b0 b1 b2 b3 b4 b5 b6 b7 b8 b9 b10 b11 b12 b13 b14 b15 b16 b17 b18 b19 b20 b21] at hd'
  have e := hd.trans hd'.symm
  simp only [Except.ok.injEq, Option.some.injEq, List.cons.injEq, and_true] at e
  obtain ⟨e0, e1, e2, e3, e4, e5, e6, e7, e8, e9, e10, e11, e12, e13, e14, e15⟩ := e
  obtain ⟨r0, r1, r2, r3⟩ := grp_inj c0 c1 c2 c3 d0 d1 d2 d3 a0 a1 a2 a3 b0 b1 b2 b3 e0 e1 e2
  obtain ⟨r4, r5, r6, r7⟩ := grp_inj c4 c5 c6 c7 d4 d5 d6 d7 a4 a5 a6 a7 b4 b5 b6 b7 e3 e4 e5
  obtain ⟨r8, r9, r10, r11⟩ := grp_inj c8 c9 c10 c11 d8 d9 d10 d11 a8 a9 a10 a11 b8 b9 b10 b11 e6 e7 e8
  obtain ⟨r12, r13, r14, r15⟩ := grp_inj c12 c13 c14 c15 d12 d13 d14 d15 a12 a13 a14 a15 b12 b13 b14 b15 e9 e10 e11
  obtain ⟨r16, r17, r18, r19⟩ := grp_inj c16 c17 c18 c19 d16 d17 d18 d19 a16 a17 a18 a19 b16 b17 b18 b19 e12 e13 e14
  obtain ⟨r20, r21⟩ := grp2_inj c20 c21 d20 d21 a20 a21 b20 b21 e15
  refine ⟨?_, by simpa using r21⟩
  intro i hi
  have hi' : i = 0 ∨ i = 1 ∨ i = 2 ∨ i = 3 ∨ i = 4 ∨ i = 5 ∨ i = 6 ∨ i = 7 ∨ i = 8 ∨ i = 9 ∨ i = 10 ∨ i = 11 ∨ i = 12 ∨ i = 13 ∨ i = 14 ∨ i = 15 ∨ i = 16 ∨ i = 17 ∨ i = 18 ∨ i = 19 ∨ i = 20 := by omega
  rcases hi' with rfl | rfl | rfl | rfl | rfl | rfl | rfl | rfl | rfl | rfl | rfl | rfl | rfl | rfl | rfl | rfl | rfl | rfl | rfl | rfl | rfl <;> simp [*]

/-- consequence in the form C06 uses: if the typed text differs from the right key's text in one of the first 21 symbols, the decoded key is a different key -/
theorem typed_wrong_text_is_wrong_key (s s' : Bytes) (h : isValidB64 s = true) (h' : isValidB64 s' = true) (k k' : Bytes)
    (hd : getArgsKey s = .ok (some k)) (hd' : getArgsKey s' = .ok (some k')) (i : Nat) (hi : i < 21) (hne : s.getD i 0 ≠ s'.getD i 0) : k ≠ k' := by
  intro hk
  subst hk
  exact hne ((typed_key_decoding_injective s s' h h' k hd hd').1 i hi)

end Wencry.Proofs.TypedKey

section AxiomCheck
open Wencry.Proofs.TypedKey
#print axioms sextet_injective_on_alphabet
#print axioms sextet_lt_64
#print axioms typed_key_decoding_injective
#print axioms typed_wrong_text_is_wrong_key
end AxiomCheck
