/-
C04(b) for the pipeline transition system: on every reachable state every step of every thread strictly decreases the
lexicographic measure μ = (R, live, C, D); the order is well-founded, hence there is no infinite execution under any
schedule, for every T ≥ 1 and every finite well-formed input. Together with `PipeCtl.deadlock_free` this is termination.
-/
import Wencry.Model.Pipe
import Wencry.Proofs.PipeCtl
namespace Wencry.Proofs.PipeProgress
open Wencry Wencry.Model.Pipe Wencry.Model.IoBuffer Wencry.Proofs.PipeCtl

variable {σ : Type}

/-- sum over i < T -/
def sumT (T : Nat) (g : Nat → Nat) : Nat := match T with | 0 => 0 | n+1 => sumT n g + g n

theorem sumT_congr (T : Nat) (g h : Nat → Nat) (e : ∀ i, i < T → g i = h i) : sumT T g = sumT T h := by
  induction T with
  | zero => rfl
  | succ n ih => simp only [sumT]; rw [ih (fun i hi => e i (by omega)), e n (by omega)]

/-- changing one index changes the sum by the difference there -/
theorem sumT_upd (T : Nat) (g h : Nat → Nat) (i : Nat) (hi : i < T) (e : ∀ j, j < T → j ≠ i → g j = h j) :
    sumT T g + h i = sumT T h + g i := by
  induction T with
  | zero => omega
  | succ n ih =>
    simp only [sumT]
    by_cases hin : i = n
    · subst hin
      have := sumT_congr i g h (fun j hj => e j (by omega) (by omega))
      omega
    · have := ih (by omega) (fun j hj hne => e j (by omega) hne)
      have := e n (by omega) (fun h => hin h.symm)
      omega

def rankW : WPc → Nat
  | .done => 0 | .fetch2 => 1 | .afterWait => 2 | .sleepRdy => 2 | .waitRdy => 3 | .setUpd => 5
  | .fetch => 6 | .process => 7 | .initSleep => 7 | .initWait => 8
def rankIo : IoPc → Nat
  | .done => 0 | .setRdy => 1 | .loading => 2 | .loadDecide => 3 | .exporting => 4 | .chk => 5
  | .sleepUpd => 6 | .waitUpd => 7 | .iter => 8


@[simp] theorem rW1 : rankW .done = 0 := rfl
@[simp] theorem rW2 : rankW .fetch2 = 1 := rfl
@[simp] theorem rW3 : rankW .afterWait = 2 := rfl
@[simp] theorem rW4 : rankW .sleepRdy = 2 := rfl
@[simp] theorem rW5 : rankW .waitRdy = 3 := rfl
@[simp] theorem rW6 : rankW .setUpd = 5 := rfl
@[simp] theorem rW7 : rankW .fetch = 6 := rfl
@[simp] theorem rW8 : rankW .process = 7 := rfl
@[simp] theorem rW9 : rankW .initSleep = 7 := rfl
@[simp] theorem rW10 : rankW .initWait = 8 := rfl
@[simp] theorem rI1 : rankIo .done = 0 := rfl
@[simp] theorem rI2 : rankIo .setRdy = 1 := rfl
@[simp] theorem rI3 : rankIo .loading = 2 := rfl
@[simp] theorem rI4 : rankIo .loadDecide = 3 := rfl
@[simp] theorem rI5 : rankIo .exporting = 4 := rfl
@[simp] theorem rI6 : rankIo .chk = 5 := rfl
@[simp] theorem rI7 : rankIo .sleepUpd = 6 := rfl
@[simp] theorem rI8 : rankIo .waitUpd = 7 := rfl
@[simp] theorem rI9 : rankIo .iter = 8 := rfl

def mR (P : Nat) (s : St σ) : Nat := if s.over then 0 else (P + 1 - s.pos) + (if s.iopc = .setRdy then 1 else 0)
def mC (T : Nat) (s : St σ) : Nat := sumT T fun i => if (s.buf i).st = .ready then (s.buf i).total - (s.buf i).now else 0
def mD (T : Nat) (s : St σ) : Nat := sumT T (fun i => rankW (s.wpc i)) + rankIo s.iopc

/-- lexicographic order on 4-tuples, spelled out -/
def lt4 (a b : Nat × Nat × Nat × Nat) : Prop :=
  a.1 < b.1 ∨ (a.1 = b.1 ∧ (a.2.1 < b.2.1 ∨ (a.2.1 = b.2.1 ∧ (a.2.2.1 < b.2.2.1 ∨ (a.2.2.1 = b.2.2.1 ∧ a.2.2.2 < b.2.2.2)))))

def mu (P T : Nat) (s : St σ) : Nat × Nat × Nat × Nat := (mR P s, s.live, mC T s, mD T s)

def contrib (b : Buf) : Nat := if b.st = .ready then b.total - b.now else 0

theorem mC_eq (T : Nat) (s : St σ) : mC T s = sumT T (fun i => contrib (s.buf i)) := rfl

theorem mC_upd (T : Nat) (f : Nat → Buf) (i : Nat) (b : Buf) (hi : i < T) :
    sumT T (fun j => contrib (upd f i b j)) + contrib (f i) = sumT T (fun j => contrib (f j)) + contrib b := by
  have := sumT_upd T (fun j => contrib (upd f i b j)) (fun j => contrib (f j)) i hi
    (fun j _ hne => by simp [upd_other _ _ _ _ hne])
  simpa using this

theorem mDw_upd (T : Nat) (f : Nat → WPc) (i : Nat) (p : WPc) (hi : i < T) :
    sumT T (fun j => rankW (upd f i p j)) + rankW (f i) = sumT T (fun j => rankW (f j)) + rankW p := by
  have := sumT_upd T (fun j => rankW (upd f i p j)) (fun j => rankW (f j)) i hi
    (fun j _ hne => by simp [upd_other _ _ _ _ hne])
  simpa using this

theorem sumT_ge (T : Nat) (g : Nat → Nat) (i : Nat) (hi : i < T) : g i ≤ sumT T g := by
  induction T with
  | zero => omega
  | succ n ih =>
    simp only [sumT]
    by_cases hin : i = n
    · subst hin; omega
    · have := ih (by omega); omega

theorem mC_upd' (T : Nat) (f : Nat → Buf) (i : Nat) (b : Buf) (hi : i < T) :
    sumT T (fun j => contrib (upd f i b j)) = sumT T (fun j => contrib (f j)) - contrib (f i) + contrib b := by
  have := mC_upd T f i b hi
  have := sumT_ge T (fun j => contrib (f j)) i hi
  try simp only [] at this
  omega

theorem mDw_upd' (T : Nat) (f : Nat → WPc) (i : Nat) (p : WPc) (hi : i < T) :
    sumT T (fun j => rankW (upd f i p j)) = sumT T (fun j => rankW (f j)) - rankW (f i) + rankW p := by
  have := mDw_upd T f i p hi
  have := sumT_ge T (fun j => rankW (f j)) i hi
  try simp only [] at this
  omega

/-- worker steps: R and live unchanged; either C drops, or C is unchanged and D drops -/
theorem stepW_decreases (f : σ → Block → σ × Block) (P T : Nat) (s s' : St σ) (i : Nat) (hi : i < T) (h : PInv T s) (hs : stepW f s i = some s') :
    lt4 (mu P T s') (mu P T s) := by
  obtain ⟨h1, h2, h3, h4, h5, h6⟩ := h
  have hb := h6 i hi
  simp only [BufOK, ioIn] at hb
  have hgw := sumT_ge T (fun j => rankW (s.wpc j)) i hi
  have hgc := sumT_ge T (fun j => contrib (s.buf j)) i hi
  try simp only [] at hgw hgc
  unfold stepW at hs
  split at hs
  all_goals (try (simp only [Option.some.injEq] at hs))
  all_goals (try (split at hs))
  all_goals (try (simp only [Option.some.injEq, reduceCtorEq] at hs))
  all_goals (try subst hs)
  all_goals (
    simp only [lt4, mu, mR, mC_eq, mD, mDw_upd' _ _ _ _ hi, mC_upd' _ _ _ _ hi]
    first
    | (cases hst : (s.buf i).st <;> simp_all [contrib] <;> omega)
    | (by_cases ha : s.iopc = .sleepUpd <;> by_cases hb' : s.turn = i <;>
         cases hst : (s.buf i).st <;> simp_all [contrib] <;> omega))

/-- `P` is the index of the first load that is not FULL (the input is finite) -/
def FirstNonFull (inp : Input) (P : Nat) : Prop := (inp P).2 ≠ .full ∧ ∀ p, p < P → (inp p).2 = .full

/-- bookkeeping of `over`, `pos`, `lst` needed by the first component of the measure -/
def RInv (inp : Input) (P : Nat) (s : St σ) : Prop :=
  (s.iopc = .loading → s.over = false) ∧
  (s.over = false → s.iopc ≠ .setRdy → s.pos ≤ P) ∧
  (s.over = false → s.iopc = .setRdy → 1 ≤ s.pos ∧ s.pos ≤ P + 1 ∧ s.lst = (inp (s.pos - 1)).2) ∧
  (s.over = true → s.iopc = .setRdy → s.lst = .nodata)

theorem RInv_init (inp : Input) (P T : Nat) (ws0 : Nat → σ) : RInv inp P (init T ws0) := by
  simp [RInv, init]

theorem RInv_stepW (f : σ → Block → σ × Block) (inp : Input) (P : Nat) (s s' : St σ) (i : Nat) (h : RInv inp P s) (hs : stepW f s i = some s') :
    RInv inp P s' := by
  obtain ⟨j1, j2, j3, j4⟩ := h
  unfold stepW at hs
  split at hs
  all_goals (try (simp only [Option.some.injEq] at hs))
  all_goals (try (split at hs))
  all_goals (try (simp only [Option.some.injEq, reduceCtorEq] at hs))
  all_goals (try subst hs)
  all_goals (first
    | exact ⟨j1, j2, j3, j4⟩
    | (by_cases ha : s.iopc = .sleepUpd <;> by_cases hb : s.turn = i <;> simp_all [RInv]))

theorem RInv_stepIo (ispad : Bool) (inp : Input) (P T : Nat) (hP : FirstNonFull inp P) (s s' : St σ) (h : RInv inp P s)
    (hs : stepIo inp ispad T s = some s') : RInv inp P s' := by
  obtain ⟨j1, j2, j3, j4⟩ := h
  obtain ⟨hP1, hP2⟩ := hP
  unfold stepIo at hs
  split at hs
  all_goals (try (simp only [Option.some.injEq] at hs))
  all_goals (try (split at hs))
  all_goals (try (simp only [Option.some.injEq, reduceCtorEq] at hs))
  all_goals (try subst hs)
  all_goals (rename_i hpc)
  all_goals (first
    | (simp_all [RInv]; done)
    | (-- setRdy, data was loaded: if the load was FULL then pos - 1 < P
       rename_i hsr
       refine ⟨by simp, ?_, by simp, by simp⟩
       intro hov _
       simp at hov
       by_cases ho : s.over = true
       · have := j4 ho hsr; simp_all
       · simp at ho
         obtain ⟨a, b, c⟩ := j3 ho hsr
         rw [c] at hov
         by_cases hpp : s.pos - 1 = P
         · rw [hpp] at hov; exact absurd hov hP1
         · simp only []; omega))

theorem liveCount_pos_of (T : Nat) (f : Nat → Buf) (i : Nat) (hi : i < T) (h : (f i).st ≠ .inv) : 0 < liveCount T f := by
  induction T with
  | zero => omega
  | succ n ih =>
    simp only [liveCount]
    by_cases hin : i = n
    · subst hin; simp [h]
    · have := ih (by omega); omega

set_option maxHeartbeats 1000000 in
/-- I/O-thread steps strictly decrease the measure -/
theorem stepIo_decreases (ispad : Bool) (inp : Input) (hwf : inp.WF) (P T : Nat) (hP : FirstNonFull inp P) (s s' : St σ)
    (h : PInv T s) (hr : RInv inp P s) (hs : stepIo inp ispad T s = some s') : lt4 (mu P T s') (mu P T s) := by
  obtain ⟨h1, h2, h3, h4, h5, h6⟩ := h
  obtain ⟨j1, j2, j3, j4⟩ := hr
  have hw := hwf s.pos
  unfold stepIo at hs
  split at hs
  all_goals (try (simp only [Option.some.injEq] at hs))
  all_goals (try (split at hs))
  all_goals (try (simp only [Option.some.injEq, reduceCtorEq] at hs))
  all_goals (try subst hs)
  all_goals (rename_i hpc)
  all_goals (
    have ht : s.turn < T := h1 (by simp_all)
    have hbt := h6 s.turn ht
    simp only [BufOK, ioIn] at hbt
    have hgw := sumT_ge T (fun j => rankW (s.wpc j)) s.turn ht
    have hgc := sumT_ge T (fun j => contrib (s.buf j)) s.turn ht
    have hlive := liveCount_pos_of T s.buf s.turn ht
    simp only [lt4, mu, mR, mC_eq, mD, mDw_upd' _ _ _ _ ht, mC_upd' _ _ _ _ ht]
    first
    | (cases hst : (s.buf s.turn).st <;> simp_all [contrib] <;> omega)
    | (cases hov : s.over <;> cases hst : (s.buf s.turn).st <;> simp_all [contrib] <;> omega)
    | (-- setRdy with data: `over` was false (else lst = nodata), so R drops
       rename_i hsr
       have hov : s.over = false := by
         cases ho : s.over
         · rfl
         · exact absurd (j4 ho hsr) hpc
       apply Or.inl
       simp_all
       first | omega | (split <;> omega)))

theorem lt4_wf : WellFounded (fun a b : Nat × Nat × Nat × Nat => lt4 a b) := by
  have hw := (Prod.lex Nat.lt_wfRel (Prod.lex Nat.lt_wfRel (Prod.lex Nat.lt_wfRel Nat.lt_wfRel))).wf
  apply Subrelation.wf _ hw
  intro a b h
  obtain ⟨a1, a2, a3, a4⟩ := a
  obtain ⟨b1, b2, b3, b4⟩ := b
  simp only [lt4] at h
  rcases h with h | ⟨rfl, h | ⟨rfl, h | ⟨rfl, h⟩⟩⟩
  · exact Prod.Lex.left _ _ h
  · exact Prod.Lex.right _ (Prod.Lex.left _ _ h)
  · exact Prod.Lex.right _ (Prod.Lex.right _ (Prod.Lex.left _ _ h))
  · exact Prod.Lex.right _ (Prod.Lex.right _ (Prod.Lex.right _ h))

/-- both invariants hold in every reachable state -/
theorem reach_both (f : σ → Block → σ × Block) (inp : Input) (hwf : inp.WF) (ispad : Bool) (P T : Nat) (hT : 0 < T)
    (hP : FirstNonFull inp P) (ws0 : Nat → σ) (s : St σ)
    (h : Reach f inp ispad T ws0 s) : PInv T s ∧ RInv inp P s := by
  induction h with
  | init => exact ⟨PInv_init T hT ws0, RInv_init inp P T ws0⟩
  | step s s' tid _ hs ih =>
    cases tid with
    | none => exact ⟨PInv_stepIo ispad inp hwf T hT s s' ih.1 hs, RInv_stepIo ispad inp P T hP s s' ih.2 hs⟩
    | some i =>
      simp only [step] at hs
      split at hs
      · rename_i hi; exact ⟨PInv_stepW f T s s' i hi ih.1 hs, RInv_stepW f inp P s s' i ih.2 hs⟩
      · simp at hs

/-- C04(b): every step from a reachable state strictly decreases the measure -/
theorem step_decreases (f : σ → Block → σ × Block) (inp : Input) (hwf : inp.WF) (ispad : Bool) (P T : Nat) (hT : 0 < T)
    (hP : FirstNonFull inp P) (ws0 : Nat → σ) (s s' : St σ)
    (tid : Option Nat) (h : Reach f inp ispad T ws0 s) (hs : step f inp ispad T s tid = some s') : lt4 (mu P T s') (mu P T s) := by
  have ⟨hp, hr⟩ := reach_both f inp hwf ispad P T hT hP ws0 s h
  cases tid with
  | none => exact stepIo_decreases ispad inp hwf P T hP s s' hp hr hs
  | some i =>
    simp only [step] at hs
    split at hs
    · rename_i hi; exact stepW_decreases f P T s s' i hi hp hs
    · simp at hs

/-- C04: there is no infinite execution (under any schedule) -/
theorem no_infinite_run (f : σ → Block → σ × Block) (inp : Input) (hwf : inp.WF) (ispad : Bool) (P T : Nat) (hT : 0 < T)
    (hP : FirstNonFull inp P) (ws0 : Nat → σ)
    (run : Nat → St σ) (tids : Nat → Option Nat) (h0 : run 0 = init T ws0)
    (hstep : ∀ n, step f inp ispad T (run n) (tids n) = some (run (n + 1))) : False := by
  have hreach : ∀ n, Reach f inp ispad T ws0 (run n) := by
    intro n
    induction n with
    | zero => rw [h0]; exact Reach.init
    | succ k ih => exact Reach.step _ _ _ ih (hstep k)
  have key : ∀ m : Nat × Nat × Nat × Nat, ∀ n, mu P T (run n) = m → False := by
    intro m
    induction m using lt4_wf.induction with
    | _ m ih =>
      intro n hn
      have hd := step_decreases f inp hwf ispad P T hT hP ws0 (run n) (run (n + 1)) (tids n) (hreach n) (hstep n)
      rw [hn] at hd
      exact ih _ hd (n + 1) rfl
  exact key _ 0 rfl


end Wencry.Proofs.PipeProgress
