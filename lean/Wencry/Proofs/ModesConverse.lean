/-
Converse of the mode inversion and causality of the stream objects.

* `spec_encrypt_decrypt`: SP 800-38A encryption inverts decryption (for ECB/CBC this needs E ∘ D = id as well). With
  `spec_decrypt_encrypt` this makes `decrypt` a bijection on block lists, for every IV: two different ciphertext streams never
  decrypt to the same plaintext stream, and every block list is the ciphertext of exactly one plaintext.
* `run_prefix`: the first `xs.length` output blocks of a stream object depend on the first `xs.length` input blocks only, which
  is what lets the pipeline cut the stream into chunks of any size.
-/
import Wencry.Proofs.ModesCorrect
namespace Wencry.Proofs.Modes
open Wencry Wencry.Model.Modes

theorem spec_encrypt_decrypt (mode : Nat) (E D : Block → Block) (hED : ∀ x, E (D x) = x) (iv : Block) (cs : List Block) :
    Spec.Modes.encrypt mode E iv (Spec.Modes.decrypt mode E D iv cs) = cs := by
  rcases mode with _|_|_|_|m
  · simp only [Spec.Modes.decrypt, Spec.Modes.encrypt, Spec.Modes.ecbDec, Spec.Modes.ecbEnc]
    induction cs with
    | nil => rfl
    | cons b bs ih => simp only [List.map_cons, hED, ih]
  · simp only [Spec.Modes.decrypt, Spec.Modes.encrypt]
    induction cs generalizing iv with
    | nil => rfl
    | cons b bs ih => simp only [Spec.Modes.cbcEnc, Spec.Modes.cbcDec, hED, ih, Block.xor_xor_cancel_right]
  · simp only [Spec.Modes.decrypt, Spec.Modes.encrypt]
    induction cs generalizing iv with
    | nil => rfl
    | cons b bs ih => simp only [Spec.Modes.ctr, ih, Block.xor_xor_cancel_right]
  · simp only [Spec.Modes.decrypt, Spec.Modes.encrypt]
    induction cs generalizing iv with
    | nil => rfl
    | cons b bs ih => simp only [Spec.Modes.cfbEnc, Spec.Modes.cfbDec, ih, Block.xor_xor_cancel_right]
  · simp only [Spec.Modes.decrypt, Spec.Modes.encrypt]
    induction cs generalizing iv with
    | nil => rfl
    | cons b bs ih => simp only [Spec.Modes.ofb, ih, Block.xor_xor_cancel_right]

/-- decryption is injective on ciphertext streams (any mode number, any IV) -/
theorem spec_decrypt_injective (mode : Nat) (E D : Block → Block) (hED : ∀ x, E (D x) = x) (iv : Block) (c1 c2 : List Block)
    (h : Spec.Modes.decrypt mode E D iv c1 = Spec.Modes.decrypt mode E D iv c2) : c1 = c2 := by
  rw [← spec_encrypt_decrypt mode E D hED iv c1, ← spec_encrypt_decrypt mode E D hED iv c2, h]

/-- encryption is injective on plaintext streams -/
theorem spec_encrypt_injective (mode : Nat) (E D : Block → Block) (hDE : ∀ x, D (E x) = x) (iv : Block) (p1 p2 : List Block)
    (h : Spec.Modes.encrypt mode E iv p1 = Spec.Modes.encrypt mode E iv p2) : p1 = p2 := by
  rw [← spec_decrypt_encrypt mode E D hDE iv p1, ← spec_decrypt_encrypt mode E D hDE iv p2, h]

/-- causality: the output for a prefix of the input is the prefix of the output -/
theorem run_prefix (s : Stream) (xs ys : List Block) : (s.run (xs ++ ys)).2.take xs.length = (s.run xs).2 := by
  rw [run_append]
  simp only
  rw [← run_length s xs, List.take_left']
  rfl

end Wencry.Proofs.Modes

section AxiomCheck
open Wencry.Proofs.Modes
#print axioms spec_encrypt_decrypt
#print axioms spec_decrypt_injective
#print axioms spec_encrypt_injective
#print axioms run_prefix
end AxiomCheck
