/-
C01: for every plaintext, key, seed, cipher mode 0-4, hash mode 0-2, worker count T ≥ 1, chunk size B ≥ 1 and refill size
H ≥ 1, encryption succeeds, the file it writes is accepted by verification, and decryption with the same key and the same
configuration returns success and exactly the original bytes.
-/
import Wencry.Model.File
import Wencry.Proofs.AesCorrect
import Wencry.Proofs.ModesCorrect
import Wencry.Proofs.HashFramework
import Wencry.Proofs.FileLogic
import Wencry.Proofs.RoundtripLemmas
namespace Wencry.Proofs.Roundtrip
open Wencry Wencry.Model Wencry.Model.File Wencry.Model.Stdio Wencry.Model.IoBuffer Wencry.Model.Modes Wencry.Proofs.FileLogic
open Wencry.Proofs.Modes

/-! ### header, streams, HMAC bookkeeping -/

theorem sha1_length (m : Bytes) : (Hash.getStringHash Hash.Sha1.alg m).length = 20 := by
  simp [Hash.getStringHash, Hash.Sha1.alg, Hash.Sha1.res, Hash.wordBE]

theorem getIV_go_length (n : Nat) (prev acc : Bytes) : (getIV.go n prev acc).length = acc.length + 20 * n := by
  induction n generalizing prev acc with
  | zero => simp [getIV.go]
  | succ n ih => simp only [getIV.go, ih, List.length_append, sha1_length]; omega

theorem getIV_length (T : Nat) (hT : 1 ≤ T) (seed : Bytes) : (getIV T seed).length = 20 * T := by
  unfold getIV
  simp only
  rw [if_neg (by omega), getIV_go_length, sha1_length]; omega

theorem header_fold (iv : Bytes) (k : Nat) (out : WFile) (hpos : out.pos = out.data.length) :
    ((List.range k).foldl (fun o i => o.fwrite ((iv.drop (20 * i)).take 20)) out).data = out.data ++ iv.take (20 * k) ∧
    ((List.range k).foldl (fun o i => o.fwrite ((iv.drop (20 * i)).take 20)) out).pos =
      ((List.range k).foldl (fun o i => o.fwrite ((iv.drop (20 * i)).take 20)) out).data.length := by
  induction k with
  | zero => simp [hpos]
  | succ k ih =>
    rw [List.range_succ, List.foldl_append]
    simp only [List.foldl_cons, List.foldl_nil]
    obtain ⟨h1, h2⟩ := fwrite_end _ ((iv.drop (20 * k)).take 20) ih.2
    refine ⟨?_, h2⟩
    rw [h1, ih.1, List.append_assoc]
    congr 1
    have : 20 * (k + 1) = 20 * k + 20 := by omega
    rw [this, List.take_add]

theorem writeHeader_data (c h : Byte) (T : Nat) (iv : Bytes) (hiv : iv.length = 20 * T) :
    (writeHeader WFile.empty c h T iv).data = Gen.magicBytes ++ [c] ++ [h] ++ List.replicate 38 0 ++ iv ∧
    (writeHeader WFile.empty c h T iv).pos = (writeHeader WFile.empty c h T iv).data.length := by
  unfold writeHeader
  simp only
  obtain ⟨a1, a2⟩ := fwrite_end WFile.empty Gen.magicBytes rfl
  obtain ⟨b1, b2⟩ := fwrite_end _ [c] a2
  obtain ⟨c1, c2⟩ := fwrite_end _ [h] b2
  obtain ⟨d1, d2⟩ := fwrite_end _ (List.replicate Gen.c_PADDING 0) c2
  obtain ⟨e1, e2⟩ := header_fold iv T _ d2
  refine ⟨?_, e2⟩
  rw [e1, d1, c1, b1, a1, List.take_of_length_le (by omega)]
  rfl


theorem fuel_bound (B q : Nat) (hB : 1 ≤ B) : q + 1 ≤ B * (q / B + 2) := by
  have h1 := Nat.div_add_mod q B
  have h2 := Nat.mod_lt q (show 0 < B by omega)
  rw [Nat.mul_add]
  generalize B * (q / B) = X at *
  omega

theorem seqPipeline_enc (T B : Nat) (hT : 1 ≤ T) (hB : 1 ≤ B) (ss : List Stream) (hss : ss.length = T)
    (bs : List Block) (t : Bytes) (ht : t.length < 16) (out : WFile) (hpos : out.pos = out.data.length) :
    OutIs (seqPipeline T B true ss (RFile.open (joinBlocks bs ++ t)) out)
      (out.data ++ joinBlocks (blkLoop T B 0 ss (bs ++ [padBlock t]))) := by
  unfold seqPipeline
  apply seqLoop_enc T B hT hB _ _ _ _ _ bs t hss rfl (by simp [RFile.open]) ht _ hpos
  have e : (RFile.open (joinBlocks bs ++ t)).remaining / (16 * B) = bs.length / B := by
    simp only [RFile.remaining, RFile.open, List.length_append, joinBlocks_length, Nat.sub_zero]
    rw [← Nat.div_div_eq_div_mul]
    congr 1; omega
  rw [e]
  exact fuel_bound B bs.length hB

theorem seqPipeline_dec (T B : Nat) (hT : 1 ≤ T) (hB : 1 ≤ B) (ss : List Stream) (hss : ss.length = T)
    (fin : RFile) (cs : List Block) (heof : fin.eof = false) (hd : fin.data.drop fin.pos = joinBlocks cs) (hcs : 1 ≤ cs.length) :
    OutIs (seqPipeline T B false ss fin WFile.empty) (unpad (blkLoop T B 0 ss cs)) := by
  unfold seqPipeline
  have := seqLoop_dec T B hT hB (fin.remaining / (16 * B) + 2) 0 ss fin WFile.empty cs hss heof hd hcs ?_ rfl
  · simpa [WFile.empty] using this
  · have e : fin.remaining / (16 * B) = cs.length / B := by
      have hlen2 : fin.data.length - fin.pos = 16 * cs.length := by
        rw [← List.length_drop, hd, joinBlocks_length]
      simp only [RFile.remaining, hlen2]
      rw [← Nat.div_div_eq_div_mul]
      congr 1; omega
    rw [e]
    have := fuel_bound B cs.length hB
    omega

theorem prepareAES_ok (T ctype : Nat) (key : Block) (iv : Bytes) (isenc : Bool) (hc : ctype ≤ 4) :
    ∃ k, factoryKind isenc ctype = some k ∧
      prepareAES T ctype key iv isenc = .ok (List.replicate T { kind := k, crypt := cryptFn k key, iv := Block.ofListD iv }) := by
  have : ∃ k, factoryKind isenc ctype = some k := by
    rcases ctype with _|_|_|_|_|m <;> cases isenc <;> simp [factoryKind] <;> omega
  obtain ⟨k, hk⟩ := this
  exact ⟨k, hk, by simp [prepareAES, create, hk]⟩

theorem initial_sync (ctype : Nat) (key iv : Block) (ke kd : Kind) (he : factoryKind true ctype = some ke)
    (hd : factoryKind false ctype = some kd) :
    InSync (Aes.encryptK (Aes.allKeys key)) (Aes.decryptK (Aes.allKeys key))
      { kind := ke, crypt := cryptFn ke key, iv := iv } { kind := kd, crypt := cryptFn kd key, iv := iv } := by
  refine ⟨ctype, he, hd, ?_, rfl, rfl⟩
  rcases factoryKind_true_cases he with ⟨_, rfl⟩ | ⟨_, rfl⟩ | ⟨_, rfl⟩ | ⟨_, rfl⟩ | ⟨_, rfl⟩ <;> rfl

theorem AllSync_replicate (E D : Block → Block) (T : Nat) (se sd : Stream) (h : InSync E D se sd) :
    AllSync E D (List.replicate T se) (List.replicate T sd) := by
  intro i se' sd' h1 h2
  rw [List.getElem?_replicate] at h1 h2
  split at h1
  · rename_i hi
    simp only [hi, if_true, Option.some.injEq] at h1 h2; subst h1; subst h2; exact h
  · simp at h1

theorem aes_DE (key : Block) (x : Block) : Aes.decryptK (Aes.allKeys key) (Aes.encryptK (Aes.allKeys key) x) = x := by
  rw [Wencry.Proofs.Aes.aes_encryptK, Wencry.Proofs.Aes.aes_decryptK, Wencry.Proofs.Aes.aes_decrypt_encrypt]


theorem encrypt_eq (cfg : Cfg) (ctype htype : Nat) (key : Block) (seed plain : Bytes) :
    encrypt cfg ctype htype key seed plain =
      (prepareAES cfg.T ctype key (getIV cfg.T seed) true).bind fun ss =>
        writeFileHmac cfg htype key
          (seqPipeline cfg.T cfg.B true ss (RFile.open plain)
            (writeHeader WFile.empty (BitVec.ofNat 8 ctype) (BitVec.ofNat 8 htype) cfg.T (getIV cfg.T seed))).2.2 := rfl

theorem writeAt_header (m : Bytes) (c h : Byte) (tag rest : Bytes) (hm : m.length = 8) (ht : tag.length ≤ 38) :
    writeAt (m ++ [c] ++ [h] ++ List.replicate 38 0 ++ rest) 10 tag =
      m ++ [c] ++ [h] ++ tag ++ List.replicate (38 - tag.length) 0 ++ rest := by
  unfold writeAt
  have hl : ¬ ((m ++ [c] ++ [h] ++ List.replicate 38 0 ++ rest).length < 10) := by simp; omega
  simp only [hl, if_false]
  have e : m ++ [c] ++ [h] ++ List.replicate 38 0 ++ rest = (m ++ [c] ++ [h]) ++ (List.replicate 38 0 ++ rest) := by
    simp only [List.append_assoc]
  have h10 : (m ++ [c] ++ [h]).length = 10 := by simp; omega
  rw [e, List.take_left' h10, ← List.drop_drop, List.drop_left' h10,
    List.drop_append_of_le_length (by simp; omega), List.drop_replicate]
  simp only [List.append_assoc]

theorem writeFileHmac_spec (cfg : Cfg) (hH : 1 ≤ cfg.H) (htype : Nat) (hh : htype ≤ 2) (key : Block) (out : WFile)
    (h48 : 48 ≤ out.data.length) :
    ∃ tag, tagOf cfg.H htype key (out.data.drop 48) = some tag ∧ Hash.hlen htype = some tag.length ∧
      writeFileHmac cfg htype key out = .ok ((out.fseek 10).fwrite tag) ∧
      ((out.fseek 10).fwrite tag).data = writeAt out.data 10 tag := by
  obtain ⟨t, fp', hg⟩ := getres_some cfg.H hH htype hh key.toList ((RFile.open out.data).fseek Gen.c_FILE_IV_MARK)
  have hsuf := getres_depends_on_suffix cfg.H hH htype hh key (out.data.drop 48) out.data 0 48 (by omega) h48 (by simp)
  have htag : tagOf cfg.H htype key (out.data.drop 48) = some t := by
    unfold tagOf
    have e : (RFile.open (out.data.drop 48)).fseek 0 = RFile.open (out.data.drop 48) := rfl
    rw [e] at hsuf
    rw [hsuf]
    have e2 : (RFile.open out.data).fseek 48 = (RFile.open out.data).fseek Gen.c_FILE_IV_MARK := rfl
    rw [e2, hg]; rfl
  have hl := tagOf_length cfg.H hH htype hh key _ t htag
  refine ⟨t, htag, hl, ?_, ?_⟩
  · unfold writeFileHmac
    simp only [hg]
    rfl
  · have hne : t.isEmpty = false := by
      rcases htype with _|_|_|m
      all_goals simp [Hash.hlen] at hl
      all_goals cases t <;> simp at hl ⊢
    unfold WFile.fwrite
    simp [hne, WFile.fseek]


/-- the complete description of the file `encrypt` writes for the plaintext `joinBlocks bs ++ t` -/
theorem encrypt_spec (cfg : Cfg) (hT : 1 ≤ cfg.T) (hB : 1 ≤ cfg.B) (hH : 1 ≤ cfg.H) (ctype htype : Nat) (hc : ctype ≤ 4) (hh : htype ≤ 2)
    (key : Block) (seed : Bytes) (bs : List Block) (t : Bytes) (ht : t.length < 16) :
    ∃ ke tag f, factoryKind true ctype = some ke ∧
      tagOf cfg.H htype key (getIV cfg.T seed ++ joinBlocks (blkLoop cfg.T cfg.B 0
        (List.replicate cfg.T { kind := ke, crypt := cryptFn ke key, iv := Block.ofListD (getIV cfg.T seed) }) (bs ++ [padBlock t]))) = some tag ∧
      Hash.hlen htype = some tag.length ∧
      encrypt cfg ctype htype key seed (joinBlocks bs ++ t) = .ok f ∧
      f.data = Gen.magicBytes ++ [BitVec.ofNat 8 ctype] ++ [BitVec.ofNat 8 htype] ++ tag ++ List.replicate (38 - tag.length) 0 ++
        (getIV cfg.T seed ++ joinBlocks (blkLoop cfg.T cfg.B 0
          (List.replicate cfg.T { kind := ke, crypt := cryptFn ke key, iv := Block.ofListD (getIV cfg.T seed) }) (bs ++ [padBlock t]))) := by
  obtain ⟨ke, hke, hprep⟩ := prepareAES_ok cfg.T ctype key (getIV cfg.T seed) true hc
  have hivl := getIV_length cfg.T hT seed
  obtain ⟨hh1, hh2⟩ := writeHeader_data (BitVec.ofNat 8 ctype) (BitVec.ofNat 8 htype) cfg.T (getIV cfg.T seed) hivl
  obtain ⟨hp1, hp2⟩ := seqPipeline_enc cfg.T cfg.B hT hB _ (List.length_replicate (n := cfg.T)) bs t ht _ hh2
  rw [hh1] at hp1
  generalize hout : (seqPipeline cfg.T cfg.B true
    (List.replicate cfg.T { kind := ke, crypt := cryptFn ke key, iv := Block.ofListD (getIV cfg.T seed) })
    (RFile.open (joinBlocks bs ++ t))
    (writeHeader WFile.empty (BitVec.ofNat 8 ctype) (BitVec.ofNat 8 htype) cfg.T (getIV cfg.T seed))).2.2 = out at hp1 hp2
  generalize hbody : joinBlocks (blkLoop cfg.T cfg.B 0
        (List.replicate cfg.T { kind := ke, crypt := cryptFn ke key, iv := Block.ofListD (getIV cfg.T seed) }) (bs ++ [padBlock t])) = body at *
  have h48 : 48 ≤ out.data.length := by rw [hp1]; simp [Gen.magicBytes]
  obtain ⟨tag, htag, hlen, hw, hwd⟩ := writeFileHmac_spec cfg hH htype hh key out h48
  have hd48 : out.data.drop 48 = getIV cfg.T seed ++ body := by
    rw [hp1]
    have e : Gen.magicBytes ++ [BitVec.ofNat 8 ctype] ++ [BitVec.ofNat 8 htype] ++ List.replicate 38 0 ++ getIV cfg.T seed ++ body =
      (Gen.magicBytes ++ [BitVec.ofNat 8 ctype] ++ [BitVec.ofNat 8 htype] ++ List.replicate 38 0) ++ (getIV cfg.T seed ++ body) := by
      simp only [List.append_assoc]
    rw [e, List.drop_left' (by simp [Gen.magicBytes])]
  have htl : tag.length ≤ 38 := by
    rcases htype with _|_|_|m
    all_goals simp [Hash.hlen] at hlen
    all_goals omega
  subst hbody
  refine ⟨ke, tag, (out.fseek 10).fwrite tag, hke, by rw [← hd48]; exact htag, hlen, ?_, ?_⟩
  · rw [encrypt_eq, hprep]
    simp only [Except.bind]
    rw [hout]; exact hw
  · rw [hwd, hp1, List.append_assoc _ (getIV cfg.T seed) _, writeAt_header _ _ _ _ _ rfl htl]


theorem decrypt_of_verify (cfg : Cfg) (key : Block) (F : Bytes) (c h : Nat) (hv : verify cfg key F = .ok (0, c, h)) :
    decrypt cfg key F =
      (prepareAES cfg.T c key (((RFile.open F).fseek Gen.c_FILE_IV_MARK).fread (20 * cfg.T)).2 false).bind fun ss =>
        .ok (0, (seqPipeline cfg.T cfg.B false ss
          ((((RFile.open F).fseek Gen.c_FILE_IV_MARK).fread (20 * cfg.T)).1.fseek (textMark cfg.T)) WFile.empty).2.2) := by
  unfold decrypt
  rw [hv]
  rfl


/-! ### shape of the encrypted file -/

/-- a file of the shape `encrypt` writes, with the right tag, is accepted -/
theorem accepted_of_form (cfg : Cfg) (key : Block) (c h : Byte) (tag z rest : Bytes) (hz : tag.length + z.length = 38)
    (hc : c.toNat ≤ 4) (hh : h.toNat ≤ 2) (hr : 26 ≤ rest.length) (htag : tagOf cfg.H h.toNat key rest = some tag) :
    Accepted cfg key (Gen.magicBytes ++ [c] ++ [h] ++ tag ++ z ++ rest) := by
  have e8 : (Gen.magicBytes ++ [c] ++ [h] ++ tag ++ z ++ rest).getD 8 0 = c := by
    simp [Gen.magicBytes]
  have e9 : (Gen.magicBytes ++ [c] ++ [h] ++ tag ++ z ++ rest).getD 9 0 = h := by
    simp [Gen.magicBytes]
  have e48 : (Gen.magicBytes ++ [c] ++ [h] ++ tag ++ z ++ rest).drop 48 = rest := by
    apply List.drop_left'; simp [Gen.magicBytes]; omega
  have e10 : ((Gen.magicBytes ++ [c] ++ [h] ++ tag ++ z ++ rest).drop 10).take tag.length = tag := by
    have e : Gen.magicBytes ++ [c] ++ [h] ++ tag ++ z ++ rest = (Gen.magicBytes ++ [c] ++ [h]) ++ (tag ++ (z ++ rest)) := by
      simp only [List.append_assoc]
    rw [e, List.drop_left' (by simp [Gen.magicBytes]), List.take_left' rfl]
  refine ⟨?_, ?_, ?_, ?_, tag, ?_, e10⟩
  · simp [Gen.magicBytes]
  · simp [Gen.magicBytes]; omega
  · rw [e8]; exact hc
  · rw [e9]; exact hh
  · rw [e9, e48]; exact htag

theorem ofNat8_toNat (n : Nat) (h : n ≤ 4) : (BitVec.ofNat 8 n).toNat = n := by
  simp only [BitVec.toNat_ofNat]; omega

/-- everything we need to know about the file `encrypt` writes -/
theorem encrypt_facts (cfg : Cfg) (hT : 1 ≤ cfg.T) (hB : 1 ≤ cfg.B) (hH : 1 ≤ cfg.H) (ctype htype : Nat) (hc : ctype ≤ 4) (hh : htype ≤ 2)
    (key : Block) (seed plain : Bytes) :
    ∃ (ke : Kind) (bs : List Block) (t tag : Bytes) (f : WFile), plain = joinBlocks bs ++ t ∧ t.length < 16 ∧
      factoryKind true ctype = some ke ∧ Hash.hlen htype = some tag.length ∧
      encrypt cfg ctype htype key seed plain = .ok f ∧
      tagOf cfg.H htype key (getIV cfg.T seed ++ joinBlocks (blkLoop cfg.T cfg.B 0
        (List.replicate cfg.T { kind := ke, crypt := cryptFn ke key, iv := Block.ofListD (getIV cfg.T seed) }) (bs ++ [padBlock t]))) = some tag ∧
      f.data = Gen.magicBytes ++ [BitVec.ofNat 8 ctype] ++ [BitVec.ofNat 8 htype] ++ tag ++ List.replicate (38 - tag.length) 0 ++
        (getIV cfg.T seed ++ joinBlocks (blkLoop cfg.T cfg.B 0
          (List.replicate cfg.T { kind := ke, crypt := cryptFn ke key, iv := Block.ofListD (getIV cfg.T seed) }) (bs ++ [padBlock t]))) := by
  obtain ⟨bs, t, hp, ht⟩ := exists_join plain
  obtain ⟨ke, tag, f, h1, h2, h3, h4, h5⟩ := encrypt_spec cfg hT hB hH ctype htype hc hh key seed bs t ht
  exact ⟨ke, bs, t, tag, f, hp, ht, h1, h3, by rw [hp]; exact h4, h2, h5⟩

theorem hlen_le (htype n : Nat) (h : Hash.hlen htype = some n) : n ≤ 38 := by
  rcases htype with _|_|_|m
  all_goals simp [Hash.hlen] at h
  all_goals omega

/-! ### the four theorems -/

/-- encryption never faults and always produces a file -/
theorem encrypt_ok (cfg : Cfg) (hT : 1 ≤ cfg.T) (hB : 1 ≤ cfg.B) (hH : 1 ≤ cfg.H) (ctype htype : Nat) (hc : ctype ≤ 4) (hh : htype ≤ 2)
    (key : Block) (seed plain : Bytes) : ∃ f, encrypt cfg ctype htype key seed plain = .ok f := by
  obtain ⟨ke, bs, t, tag, f, hp, ht, hke, hlen, henc, htag, hdata⟩ := encrypt_facts cfg hT hB hH ctype htype hc hh key seed plain
  exact ⟨f, henc⟩

/-- length of the encrypted file: 48 + 20 T + 16 (⌊n/16⌋ + 1) -/
theorem encrypt_length (cfg : Cfg) (hT : 1 ≤ cfg.T) (hB : 1 ≤ cfg.B) (hH : 1 ≤ cfg.H) (ctype htype : Nat) (hc : ctype ≤ 4) (hh : htype ≤ 2)
    (key : Block) (seed plain : Bytes) (f : WFile) (he : encrypt cfg ctype htype key seed plain = .ok f) :
    f.data.length = 48 + 20 * cfg.T + 16 * (plain.length / 16 + 1) := by
  obtain ⟨ke, bs, t, tag, f', hp, ht, hke, hlen, henc, htag, hdata⟩ := encrypt_facts cfg hT hB hH ctype htype hc hh key seed plain
  rw [he] at henc
  cases henc
  have h38 := hlen_le _ _ hlen
  have hpl : plain.length / 16 = bs.length := by
    rw [hp, List.length_append, joinBlocks_length]; omega
  rw [hdata, hpl]
  simp only [List.length_append, joinBlocks_length, List.length_replicate, getIV_length cfg.T hT seed,
    blkLoop_length cfg.T cfg.B hT hB _ _ _ _ (Nat.le_refl _) (List.length_replicate (n := cfg.T)), List.length_singleton]
  simp [Gen.magicBytes]; omega


/-- an accepting `verify` reports the cipher-mode byte it read at offset 8 -/
theorem verify_ctype (cfg : Cfg) (key : Block) (F : Bytes) (c h : Nat) (hv : verify cfg key F = .ok (0, c, h)) :
    c = (F.getD 8 0).toNat := by
  unfold verify at hv
  simp only [RFile.fread, RFile.fseek, RFile.open, pure, Except.pure] at hv
  by_cases h1 : (List.take 8 (List.drop Gen.c_FILE_MN_MARK F)).length = 8
  case neg => simp only [h1, ne_eq, not_false_eq_true, ↓reduceIte] at hv; cases hv
  by_cases h2 : List.take 8 (List.drop Gen.c_FILE_MN_MARK F) = Gen.magicBytes
  case neg => simp only [h1, h2, ne_eq, not_true_eq_false, not_false_eq_true, ↓reduceIte] at hv; cases hv
  by_cases h3 : (List.take 64 (List.drop Gen.c_FILE_HMAC_MARK F)).length = 64
  case neg => simp only [h2, h3, ne_eq, not_true_eq_false, not_false_eq_true, ↓reduceIte] at hv; cases hv
  have hm : Gen.magicBytes.length = 8 := rfl
  simp only [h2, h3, hm, ne_eq, not_true_eq_false, ↓reduceIte] at hv
  have hlen : 74 ≤ F.length := by
    simp only [List.length_take, List.length_drop, Gen.c_FILE_HMAC_MARK] at h3
    omega
  have hc : BitVec.toNat ((List.take 1 (List.drop Gen.c_FILE_MODE_MARK F)).getD 0 255) = (F.getD 8 0).toNat := by
    congr 1
    simp only [Gen.c_FILE_MODE_MARK, List.getD_eq_getElem?_getD]
    rw [List.getElem?_take_of_lt (by omega), List.getElem?_drop]
    have h8 : 8 < F.length := by omega
    simp [List.getElem?_eq_getElem h8]
  simp only [hc] at hv
  split at hv
  · simp at hv
  · split at hv
    · simp [throw, throwThe, MonadExceptOf.throw] at hv
    · cases hv; rfl
    · simp at hv
theorem verify_of_form (cfg : Cfg) (hH : 1 ≤ cfg.H) (key : Block) (ctype htype : Nat) (hc : ctype ≤ 4) (hh : htype ≤ 2)
    (tag rest : Bytes) (h38 : tag.length ≤ 38) (hr : 26 ≤ rest.length) (htag : tagOf cfg.H htype key rest = some tag) :
    ∃ h, verify cfg key (Gen.magicBytes ++ [BitVec.ofNat 8 ctype] ++ [BitVec.ofNat 8 htype] ++ tag ++
      List.replicate (38 - tag.length) 0 ++ rest) = .ok (0, ctype, h) := by
  have hacc := accepted_of_form cfg key (BitVec.ofNat 8 ctype) (BitVec.ofNat 8 htype) tag (List.replicate (38 - tag.length) 0) rest
    (by simp; omega) (by rw [ofNat8_toNat ctype hc]; exact hc) (by rw [ofNat8_toNat htype (by omega)]; exact hh) hr
    (by rw [ofNat8_toNat htype (by omega)]; exact htag)
  obtain ⟨c, h, hv⟩ := (verify_zero_iff cfg hH key _).mpr hacc
  have hcc := verify_ctype cfg key _ c h hv
  have e8 : (Gen.magicBytes ++ [BitVec.ofNat 8 ctype] ++ [BitVec.ofNat 8 htype] ++ tag ++
      List.replicate (38 - tag.length) 0 ++ rest).getD 8 0 = BitVec.ofNat 8 ctype := by
    simp [Gen.magicBytes]
  rw [e8, ofNat8_toNat ctype hc] at hcc
  exact ⟨h, by rw [hv, hcc]⟩

/-- the encrypted file is accepted by verification with the same key -/
theorem verify_encrypt (cfg : Cfg) (hT : 1 ≤ cfg.T) (hB : 1 ≤ cfg.B) (hH : 1 ≤ cfg.H) (ctype htype : Nat) (hc : ctype ≤ 4) (hh : htype ≤ 2)
    (key : Block) (seed plain : Bytes) (f : WFile) (he : encrypt cfg ctype htype key seed plain = .ok f) :
    executeVerify cfg key f.data = .ok 0 := by
  obtain ⟨ke, bs, t, tag, f', hp, ht, hke, hlen, henc, htag, hdata⟩ := encrypt_facts cfg hT hB hH ctype htype hc hh key seed plain
  rw [he] at henc
  cases henc
  have h38 := hlen_le _ _ hlen
  obtain ⟨h, hv⟩ := verify_of_form cfg hH key ctype htype hc hh tag _ h38
    (by simp only [List.length_append, getIV_length cfg.T hT seed, joinBlocks_length, List.length_singleton,
      blkLoop_length cfg.T cfg.B hT hB _ _ _ _ (Nat.le_refl _) (List.length_replicate (n := cfg.T))]; omega) htag
  rw [← hdata] at hv
  unfold executeVerify
  rw [hv]; rfl

/-- C01: decrypt (encrypt P) = P, with success reported -/
theorem roundtrip (cfg : Cfg) (hT : 1 ≤ cfg.T) (hB : 1 ≤ cfg.B) (hH : 1 ≤ cfg.H) (ctype htype : Nat) (hc : ctype ≤ 4) (hh : htype ≤ 2)
    (key : Block) (seed plain : Bytes) (f : WFile) (he : encrypt cfg ctype htype key seed plain = .ok f) :
    ∃ out, decrypt cfg key f.data = .ok (0, out) ∧ out.data = plain := by
  obtain ⟨ke, bs, t, tag, f', hp, ht, hke, hlen, henc, htag, hdata⟩ := encrypt_facts cfg hT hB hH ctype htype hc hh key seed plain
  rw [he] at henc
  cases henc
  have h38 := hlen_le _ _ hlen
  have hivl := getIV_length cfg.T hT seed
  obtain ⟨h, hv⟩ := verify_of_form cfg hH key ctype htype hc hh tag _ h38
    (by simp only [List.length_append, getIV_length cfg.T hT seed, joinBlocks_length, List.length_singleton,
      blkLoop_length cfg.T cfg.B hT hB _ _ _ _ (Nat.le_refl _) (List.length_replicate (n := cfg.T))]; omega) htag
  rw [← hdata] at hv
  -- the two stream lists
  generalize hsse : List.replicate cfg.T ({ kind := ke, crypt := cryptFn ke key, iv := Block.ofListD (getIV cfg.T seed) } : Stream) = sse at hdata htag
  generalize hcs : blkLoop cfg.T cfg.B 0 sse (bs ++ [padBlock t]) = cs at hdata htag
  -- what decrypt reads back
  have hP : (Gen.magicBytes ++ [BitVec.ofNat 8 ctype] ++ [BitVec.ofNat 8 htype] ++ tag ++ List.replicate (38 - tag.length) 0).length = 48 := by
    simp [Gen.magicBytes]; omega
  have hd48 : f.data.drop 48 = getIV cfg.T seed ++ joinBlocks cs := by
    rw [hdata]; exact List.drop_left' hP
  have hiv : (((RFile.open f.data).fseek Gen.c_FILE_IV_MARK).fread (20 * cfg.T)).2 = getIV cfg.T seed := by
    show ((f.data.drop 48).take (20 * cfg.T)) = _
    rw [hd48]; exact List.take_left' hivl
  obtain ⟨kd, hkd, hprep⟩ := prepareAES_ok cfg.T ctype key (getIV cfg.T seed) false hc
  rw [decrypt_of_verify cfg key f.data ctype h hv, hiv, hprep]
  simp only [Except.bind]
  refine ⟨_, rfl, ?_⟩
  have hcsl : cs.length = bs.length + 1 := by
    rw [← hcs, blkLoop_length cfg.T cfg.B hT hB _ _ _ _ (Nat.le_refl _) (by rw [← hsse]; exact List.length_replicate)]
    simp
  have hdec := seqPipeline_dec cfg.T cfg.B hT hB
    (List.replicate cfg.T ({ kind := kd, crypt := cryptFn kd key, iv := Block.ofListD (getIV cfg.T seed) } : Stream))
    List.length_replicate
    ((((RFile.open f.data).fseek Gen.c_FILE_IV_MARK).fread (20 * cfg.T)).1.fseek (textMark cfg.T)) cs rfl
    (by
      show f.data.drop (48 + 20 * cfg.T) = _
      rw [← List.drop_drop, hd48]; exact List.drop_left' hivl)
    (by omega)
  rw [hdec.1, ← hcs, ← hsse]
  rw [blkLoop_sync cfg.T cfg.B hT hB _ _ (aes_DE key) _ _ 0 _ _ (Nat.le_refl _) List.length_replicate List.length_replicate
    (AllSync_replicate _ _ cfg.T _ _ (initial_sync ctype key _ ke kd hke hkd))]
  rw [unpad_pad bs t ht, hp]

end Wencry.Proofs.Roundtrip

section AxiomCheck
open Wencry.Proofs.Roundtrip
#print axioms encrypt_ok
#print axioms encrypt_length
#print axioms verify_encrypt
#print axioms roundtrip
#print axioms blkLoop_sync
#print axioms seqLoop_enc
#print axioms seqLoop_dec
end AxiomCheck
