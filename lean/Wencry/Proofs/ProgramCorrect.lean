/-
The whole program (Model/Program.lean) on the option-driven path: it never faults, and with defaults `-e -i F` writes
`F.wenc` and prints a key with which `-d -i F.wenc -k <key> -o G` exits 0 and restores F's contents into G, leaving F untouched
(C17's last sentence; composition of the parser theorems, C16's printed-key theorem and C01's round trip).
-/
import Wencry.Model.Program
import Wencry.Proofs.CliCorrect
import Wencry.Proofs.Roundtrip
namespace Wencry.Proofs.Program
open Wencry Wencry.Model Wencry.Model.Cli Wencry.Model.File Wencry.Model.Program

theorem read_write_same (fs : FS) (p : Path) (d : Bytes) : (fs.write p d).read p = some d := by
  simp [FS.read, FS.write]

/-- removing the entries for `p` does not change what is found for another path `q` -/
theorem find_filter_ne (l : List (Path × Bytes)) (p q : Path) (h : q ≠ p) :
    (l.filter (fun e => e.1 ≠ p)).find? (fun e => e.1 = q) = l.find? (fun e => e.1 = q) := by
  induction l with
  | nil => rfl
  | cons a t ih =>
    by_cases ha : a.1 = p
    · have hq : ¬ a.1 = q := by rw [ha]; exact fun e => h e.symm
      rw [List.filter_cons_of_neg (by simpa using ha), List.find?_cons_of_neg (by simpa using hq), ih]
    · rw [List.filter_cons_of_pos (by simpa using ha), List.find?_cons, List.find?_cons, ih]

theorem read_write_other (fs : FS) (p q : Path) (d : Bytes) (h : q ≠ p) : (fs.write p d).read q = fs.read q := by
  have hpq : ¬ p = q := fun e => h e.symm
  simp only [FS.read, FS.write]
  rw [List.find?_cons_of_neg (by simpa using hpq), find_filter_ne _ _ _ h]

/-- the program never faults, whatever the options and the file system (for T, B, H ≥ 1 and a 16-byte random key) -/
theorem run_no_fault (cfg : Cfg) (hT : 1 ≤ cfg.T) (hB : 1 ≤ cfg.B) (hH : 1 ≤ cfg.H) (fs : FS) (canCreate : Path → Bool)
    (rkey rseed : Bytes) (hk : rkey.length = 16) (args : List Arg) : ∃ r, run cfg fs canCreate rkey rseed args = .ok r := by
  have _ := hk
  unfold run
  simp only [bind, Except.bind, pure, Except.pure]
  generalize hg : getVOpt _ _ = g
  obtain ⟨o, ho⟩ := Cli.getVOpt_no_fault _ _
  rw [hg] at ho
  subst ho
  simp only
  cases o with
  | diag => exact ⟨_, rfl⟩
  | info => exact ⟨_, rfl⟩
  | run op inp out key c h ne =>
    obtain ⟨hs, _, he, _, _⟩ := Cli.run_wellformed _ _ _ _ _ _ _ _ _ hg
    simp only [hs, Bool.not_true, Bool.false_eq_true, if_false]
    cases op with
    | encrypt =>
      obtain ⟨_, hc0, hc4, hh0, hh2⟩ := he rfl
      obtain ⟨f, hf⟩ := Roundtrip.encrypt_ok cfg hT hB hH c.toNat h.toNat (by omega) (by omega) (Block.ofListD (key.getD rkey)) rseed
        (((parseEffects canCreate fs Pak.init (args.map (toTok fs canCreate))).read inp).getD [])
      simp only [hf]
      exact ⟨_, rfl⟩
    | decrypt =>
      obtain ⟨code, o, hd, _⟩ := FileLogic.decrypt_total cfg hH (Block.ofListD (key.getD []))
        (((parseEffects canCreate fs Pak.init (args.map (toTok fs canCreate))).read inp).getD [])
      simp only [hd]
      exact ⟨_, rfl⟩
    | verify =>
      obtain ⟨code, o, _, hd, _⟩ := FileLogic.decrypt_total cfg hH (Block.ofListD (key.getD []))
        (((parseEffects canCreate fs Pak.init (args.map (toTok fs canCreate))).read inp).getD [])
      simp only [hd]
      exact ⟨_, rfl⟩

/-- `-e -i F` with defaults, given the result of the encryption -/
theorem first_run (cfg : Cfg) (fs : FS) (F : Path) (P : Bytes)
    (hF : fs.read F = some P) (hlen : F.length + 5 < 128) (canCreate : Path → Bool)
    (hc1 : canCreate (F ++ dotWenc) = true) (rkey rseed : Bytes) (f : Stdio.WFile)
    (hf : encrypt cfg 0 0 (Block.ofListD rkey) rseed P = .ok f) :
    run cfg fs canCreate rkey rseed [.e, .i F] =
      .ok { fs := fs.write (F ++ dotWenc) f.data, status := 0, printedKey := some (Spec.Base64.encode rkey) } := by
  have hp : parseEffects canCreate fs Pak.init [.e, .i F true] = fs := by
    simp [parseEffects, parseOpt, setMode, Pak.init]
  unfold run
  simp only [List.map, toTok, hF, Option.isSome_some, hp, List.findSome?, Option.map, hc1, Cli.default_output, hlen]
  simp [bind, Except.bind, pure, Except.pure, settingsOk, hF, hf, Base64.hexToBase64_eq]

/-- `-d -i I -k <base64 of rkey> -o G`, given the result of the decryption of I's contents -/
theorem second_run (cfg : Cfg) (fs : FS) (I G : Path) (D : Bytes)
    (hI : fs.read I = some D) (canCreate : Path → Bool)
    (hc2 : canCreate G = true) (hGI : G ≠ I) (rkey rkey' rseed' : Bytes) (hk : rkey.length = 16) (out : Stdio.WFile)
    (hd : decrypt cfg (Block.ofListD rkey) D = .ok (0, out)) :
    run cfg fs canCreate rkey' rseed' [.d, .i I, .k (Spec.Base64.encode rkey), .o G] =
      .ok { fs := (fs.write G []).write G out.data, status := 0, printedKey := none } := by
  obtain ⟨hv, hg⟩ := Base64.printed_key_accepted rkey hk
  have hp : parseEffects canCreate fs Pak.init [.d, .i I true, .k (Spec.Base64.encode rkey), .o G true] = fs.write G [] := by
    simp [parseEffects, parseOpt, setMode, Pak.init, hv, hg]
  have hgv : ∀ b, getVOpt [.d, .i I true, .k (Spec.Base64.encode rkey), .o G true] b
      = .ok (.run .decrypt I (some G) (some rkey) (-1) (-1) false) := by
    intro b
    rw [Cli.getVOpt_eq]
    simp [Cli.run, Cli.step, Cli.keyOf, setMode, Pak.init, Cli.dispatch, hv, hg]
  have hr : (fs.write G []).read I = some D := by rw [read_write_other _ _ _ _ hGI.symm, hI]
  unfold run
  simp only [List.map, toTok, hI, Option.isSome_some, hp, hc2, hgv]
  simp [bind, Except.bind, pure, Except.pure, settingsOk, hr, hd]

/-- `-e -i F` then `-d -i F.wenc -k <printed key> -o G` -/
theorem encrypt_then_decrypt_restores (cfg : Cfg) (hT : 1 ≤ cfg.T) (hB : 1 ≤ cfg.B) (hH : 1 ≤ cfg.H) (fs : FS) (F G : Path) (P : Bytes)
    (hF : fs.read F = some P) (hlen : F.length + 5 < 128) (canCreate : Path → Bool)
    (hc1 : canCreate (F ++ dotWenc) = true) (hc2 : canCreate G = true) (hG : G ≠ F ++ dotWenc) (hGF : G ≠ F)
    (rkey rseed : Bytes) (hk : rkey.length = 16) :
    ∃ r1 pk, run cfg fs canCreate rkey rseed [.e, .i F] = .ok r1 ∧ r1.status = 0 ∧ r1.printedKey = some pk ∧
      (r1.fs.read (F ++ dotWenc)).isSome ∧ r1.fs.read F = some P ∧
      ∀ rkey' rseed', ∃ r2, run cfg r1.fs canCreate rkey' rseed' [.d, .i (F ++ dotWenc), .k pk, .o G] = .ok r2 ∧
        r2.status = 0 ∧ r2.fs.read G = some P ∧ r2.fs.read F = some P := by
  obtain ⟨f, hf⟩ := Roundtrip.encrypt_ok cfg hT hB hH 0 0 (by omega) (by omega) (Block.ofListD rkey) rseed P
  obtain ⟨out, hd, hout⟩ := Roundtrip.roundtrip cfg hT hB hH 0 0 (by omega) (by omega) (Block.ofListD rkey) rseed P f hf
  have hFW : F ≠ F ++ dotWenc := fun e => by
    have := congrArg List.length e
    simp [dotWenc] at this
  have hrW : (fs.write (F ++ dotWenc) f.data).read (F ++ dotWenc) = some f.data := read_write_same _ _ _
  have hrF : (fs.write (F ++ dotWenc) f.data).read F = some P := by rw [read_write_other _ _ _ _ hFW, hF]
  refine ⟨_, _, first_run cfg fs F P hF hlen canCreate hc1 rkey rseed f hf, rfl, rfl, ?_, hrF, ?_⟩
  · simp only [hrW, Option.isSome_some]
  · intro rkey' rseed'
    refine ⟨_, second_run cfg _ (F ++ dotWenc) G f.data hrW canCreate hc2 hG rkey rkey' rseed' hk out hd, rfl, ?_, ?_⟩
    · simp only [read_write_same, hout]
    · simp only [read_write_other _ _ _ _ hGF.symm, hrF]

end Wencry.Proofs.Program

open Wencry.Proofs.Program
#print axioms read_write_same
#print axioms read_write_other
#print axioms run_no_fault
#print axioms encrypt_then_decrypt_restores
