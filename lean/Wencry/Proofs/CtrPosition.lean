/-
The position law of CTR mode for the model's stream object: after n blocks the object is the one a fresh factory would create with the
counter IV + n (mod 2^128), and keystream block j is the cipher of IV + j. This is the oracle of the `ctrlong` harness suite (a stream of
2^27 blocks is compared with fresh objects started at IV + j instead of with a reference implementation).
-/
import Wencry.Model.Modes
import Wencry.Proofs.ModesCorrect
namespace Wencry.Proofs.CtrPosition
open Wencry Wencry.Model.Modes

/-- IV + n (mod 2^128) as a block -/
def addCtr (iv : Block) (n : Nat) : Block := Spec.Modes.ofNat128 ((Spec.Modes.toNat128 iv + n) % 2 ^ 128)

theorem addCtr_zero (iv : Block) : addCtr iv 0 = iv := by
  unfold addCtr
  rw [Nat.add_zero, Nat.mod_eq_of_lt (Modes.toNat128_lt iv), Modes.ofNat128_toNat128]

theorem addCtr_succ (iv : Block) (n : Nat) : ctrInc (addCtr iv n) = addCtr iv (n + 1) := by
  rw [Modes.ctrInc_eq]
  unfold Spec.Modes.inc128 addCtr
  rw [Modes.toNat128_ofNat128 _ (Nat.mod_lt _ (Nat.two_pow_pos 128)), Nat.mod_add_mod, Nat.add_assoc]

theorem create_ctr (isenc : Bool) (key iv : Block) :
    create isenc 2 key iv = some { kind := .ctr, crypt := cryptFn .ctr key, iv := iv } := by
  cases isenc <;> rfl

theorem run_ctr_state (f : Block → Block) (iv0 : Block) (k : Nat) (bs : List Block) :
    (({ kind := .ctr, crypt := f, iv := addCtr iv0 k } : Stream).run bs).1
      = { kind := .ctr, crypt := f, iv := addCtr iv0 (k + bs.length) } := by
  induction bs generalizing k with
  | nil => rfl
  | cons b bs ih =>
    simp only [Modes.run_cons, Stream.runcry, addCtr_succ, ih, List.length_cons]
    rw [Nat.add_assoc, Nat.add_comm 1]

theorem run_ctr_block (f : Block → Block) (iv0 : Block) (k : Nat) (bs : List Block) (j : Nat) (hj : j < bs.length) :
    (({ kind := .ctr, crypt := f, iv := addCtr iv0 k } : Stream).run bs).2[j]?
      = some ((bs[j]'hj).xor (f (addCtr iv0 (k + j)))) := by
  induction bs generalizing k j with
  | nil => exact absurd hj (Nat.not_lt_zero _)
  | cons b bs ih =>
    cases j with
    | zero => simp only [Modes.run_cons, Stream.runcry, List.getElem?_cons_zero, List.getElem_cons_zero, Nat.add_zero]
    | succ j =>
      have hj' : j < bs.length := Nat.lt_of_succ_lt_succ hj
      simp only [Modes.run_cons, Stream.runcry, addCtr_succ, List.getElem?_cons_succ, List.getElem_cons_succ]
      rw [ih (k + 1) j hj', Nat.add_assoc, Nat.add_comm 1]

/-- after running `bs` through a CTR object created with `iv`, the object is the one created with `iv + bs.length` -/
theorem ctr_state_after (isenc : Bool) (key iv : Block) (s : Stream) (hs : create isenc 2 key iv = some s) (bs : List Block) :
    create isenc 2 key (addCtr iv bs.length) = some (s.run bs).1 := by
  rw [create_ctr] at hs ⊢
  cases Option.some.inj hs
  have h := run_ctr_state (cryptFn .ctr key) iv 0 bs
  rw [addCtr_zero, Nat.zero_add] at h
  rw [h]

/-- block j of the output is the input block xor the block function applied to IV + j -/
theorem ctr_block_at (isenc : Bool) (key iv : Block) (s : Stream) (hs : create isenc 2 key iv = some s) (bs : List Block) (j : Nat) (hj : j < bs.length) :
    (s.run bs).2[j]? = some ((bs[j]'hj).xor (s.crypt (addCtr iv j))) := by
  rw [create_ctr] at hs
  cases Option.some.inj hs
  have h := run_ctr_block (cryptFn .ctr key) iv 0 bs j hj
  rw [addCtr_zero, Nat.zero_add] at h
  exact h

/-- hence block j of a stream started at `iv` equals block 0 of a stream started at `iv + j` fed the same input block -/
theorem ctr_position_law (isenc : Bool) (key iv : Block) (s s' : Stream) (hs : create isenc 2 key iv = some s) (bs : List Block) (j : Nat)
    (hj : j < bs.length) (hs' : create isenc 2 key (addCtr iv j) = some s') :
    (s.run bs).2[j]? = (s'.run [bs[j]'hj]).2[0]? := by
  rw [ctr_block_at isenc key iv s hs bs j hj]
  have h := ctr_block_at isenc key (addCtr iv j) s' hs' [bs[j]'hj] 0 (Nat.zero_lt_one)
  rw [h, addCtr_zero]
  rw [create_ctr] at hs hs'
  cases Option.some.inj hs
  cases Option.some.inj hs'
  rfl

#print axioms addCtr_zero
#print axioms addCtr_succ
#print axioms ctr_state_after
#print axioms ctr_block_at
#print axioms ctr_position_law

end Wencry.Proofs.CtrPosition
