/-
C08: the tag computed by the model of `hmac::getres` is RFC 2104 HMAC (block size 64, the 16-byte key zero-padded) with the
selected hash over exactly the bytes from the current file position to the end of the file, for every refill size; and the
comparison accepts if and only if every tag byte matches.
-/
import Wencry.Proofs.HashCorrect
import Wencry.Model.Hmac
namespace Wencry.Proofs.HmacCorrect
open Wencry Wencry.Model Wencry.Model.Hash Wencry.Model.HashBuffer Wencry.Model.Stdio Wencry.Proofs.HashCorrect

theorem ipad_eq : Hmac.ipad = 0x36 := by decide
theorem opad_eq : Hmac.opad = 0x5c := by decide

theorem key1_eq (key : Bytes) (hk : key.length = 16) : Hmac.key1 key = key ++ List.replicate (64 - key.length) 0 := by
  simp [Hmac.key1, List.take_of_length_le (Nat.le_of_eq hk), hk]

theorem hashOf_length (h : Nat) (hh : h ≤ 2) (m : Bytes) : (Spec.HMAC.hashOf h m).length ≤ 32 := by
  rcases h with _ | _ | _ | h
  · simp [Spec.HMAC.hashOf, Spec.Hash.SHA1.hash, Spec.Hash.SHA1.digestBytes, Spec.Hash.be32Bytes]
  · simp [Spec.HMAC.hashOf, Spec.Hash.MD5.hash, Spec.Hash.MD5.digestBytes, Spec.Hash.le32Bytes]
  · simp [Spec.HMAC.hashOf, Spec.Hash.SHA256.hash, Spec.Hash.SHA256.digestBytes, Spec.Hash.be32Bytes]
  · omega

/-- `hmac::getres` = RFC 2104 over `[pos, EOF)` -/
theorem getres_eq (H : Nat) (hH : 1 ≤ H) (h : Nat) (hh : h ≤ 2) (key : Bytes) (hk : key.length = 16) (fp : RFile)
    (hpos : fp.pos ≤ fp.data.length) (hm : fp.data.length < 2 ^ 60) :
    ∃ fp', Hmac.getres H h key fp = some (Spec.HMAC.hmac (Spec.HMAC.hashOf h) key (fp.data.drop fp.pos), fp') ∧ fp'.data = fp.data := by
  have hk1 : (Hmac.key1 key).length = 64 := by rw [key1_eq key hk]; simp [hk]
  have hpre : ∀ p, some ((Hmac.key1 key).map (· ^^^ Hmac.ipad)) = some p → p.length = 64 := by
    intro p hp; cases hp; simp [hk1]
  have hlen : (((some ((Hmac.key1 key).map (· ^^^ Hmac.ipad))).getD []) ++ fp.data.drop fp.pos).length < 2 ^ 61 := by
    simp [hk1, List.length_drop]; omega
  obtain ⟨fb, hf, hd⟩ := fileHash_eq h hh H hH fp hpos (some ((Hmac.key1 key).map (· ^^^ Hmac.ipad))) hpre hlen
  refine ⟨fb.fp, ?_, hd⟩
  unfold Hmac.getres
  simp only [hf]
  have hin := hashOf_length h hh ((Hmac.key1 key).map (· ^^^ Hmac.ipad) ++ fp.data.drop fp.pos)
  rw [stringHash_eq h hh _ (by simp [hk1]; omega)]
  simp only [Option.map_some, Option.getD_some]
  unfold Spec.HMAC.hmac
  have hnot : ¬ key.length > 64 := by omega
  simp only [hnot, if_false, key1_eq key hk, ipad_eq, opad_eq]

/-- `hmac::cmphmac` accepts iff the first `hlen` stored bytes are the tag — all of them, nothing else -/
theorem cmphmac_iff (H : Nat) (hH : 1 ≤ H) (h : Nat) (hh : h ≤ 2) (key : Bytes) (hk : key.length = 16) (fp : RFile)
    (hpos : fp.pos ≤ fp.data.length) (hm : fp.data.length < 2 ^ 60) (stored : Bytes) :
    Hmac.cmphmac H h key fp stored = some (decide (stored.take (Spec.HMAC.hmac (Spec.HMAC.hashOf h) key (fp.data.drop fp.pos)).length
        = Spec.HMAC.hmac (Spec.HMAC.hashOf h) key (fp.data.drop fp.pos))) := by
  obtain ⟨fp', hg, _⟩ := getres_eq H hH h hh key hk fp hpos hm
  simp [Hmac.cmphmac, hg]

end Wencry.Proofs.HmacCorrect
