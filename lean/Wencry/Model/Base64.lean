/-
Model of valget/base64/base64.cpp (+ tab.h through Generated): hex_to_base64, base64_to_hex, is_valid_b64
(after repair F6: the validator requires exactly two trailing '=').
-/
import Wencry.Basic
import Wencry.Generated.Tables
namespace Wencry.Model.Base64
open Wencry.Gen

inductive Fault | outOfBounds
  deriving DecidableEq, Repr

/-- `b64_tab[(h_in >> (6 * (3 - j))) & 0x3f]` -/
def sym (h : W32) (j : Nat) : Byte := b64T (((h >>> (6 * (3 - j))) &&& 0x3f).truncate 6)

def eqChar : Byte := 61  -- '='

/-- the main loop of `hex_to_base64`: state `(h_in, j)`, remaining input; returns the output so far and the final state -/
def encLoop : Bytes → W32 → Nat → Bytes → Bytes × W32 × Nat
  | [], h, j, out => (out, h, j)
  | x :: xs, h, j, out =>
    let h := h ||| (x.zeroExtend 32 <<< (8 * (2 - j)))
    let j := (j + 1) % 3
    if j = 0 then encLoop xs 0 0 (out ++ [sym h 0, sym h 1, sym h 2, sym h 3])
    else encLoop xs h j out

/-- `hex_to_base64(hex_in, len, base64_out)`: everything written to `base64_out`, including the terminating NUL -/
def hexToBase64 (inp : Bytes) : Bytes :=
  let (out, h, j) := encLoop inp 0 0 []
  let out :=
    if j = 1 then out ++ [sym h 0, sym h 1, eqChar, eqChar]
    else if j = 2 then out ++ [sym h 0, sym h 1, sym h 2, eqChar]
    else out
  out ++ [0]

/-- the loop of `base64_to_hex`; `hex_tab` has 128 entries, an index ≥ 128 is an out-of-bounds read -/
def decLoop : Bytes → W32 → Nat → Nat → Bytes → Except Fault (Option (Bytes × W32 × Nat))
  | [], h, _, tail, out => .ok (some (out, h, tail))
  | c :: cs, h, j, tail, out =>
    if c = eqChar then decLoop cs h j (tail + 1) out
    else if c = 255 then .ok none            -- `return false`
    else if c.toNat ≥ 128 then .error .outOfBounds
    else
      let h := h ||| ((hexT (c.truncate 7)).zeroExtend 32 <<< (6 * (3 - j)))
      let j := (j + 1) % 4
      if j = 0 then
        decLoop cs 0 0 tail (out ++ [(h >>> 16).truncate 8, (h >>> 8).truncate 8, h.truncate 8])
      else decLoop cs h j tail out

/-- `base64_to_hex(base64_in, len, hex_out)`: `some bytes` = returned true with these bytes written to `hex_out` -/
def base64ToHex (inp : Bytes) : Except Fault (Option Bytes) := do
  match ← decLoop inp 0 0 0 [] with
  | none => pure none
  | some (out, h, tail) =>
    if tail = 2 then pure (some (out ++ [(h >>> 16).truncate 8]))
    else if tail = 1 then pure (some (out ++ [(h >>> 16).truncate 8, (h >>> 8).truncate 8]))
    else pure (some out)

/-- `std::isalnum` in the "C" locale (trusted base) -/
def isalnum (c : Byte) : Bool :=
  (48 ≤ c.toNat ∧ c.toNat ≤ 57) ∨ (65 ≤ c.toNat ∧ c.toNat ≤ 90) ∨ (97 ≤ c.toNat ∧ c.toNat ≤ 122)

def isBase64 (c : Byte) : Bool := isalnum c || c = 43 || c = 47

/-- the character loop of `is_valid_b64`: `none` = `return false` -/
def validLoop : Bytes → Nat → Option Nat
  | [], tail => some tail
  | c :: cs, tail =>
    if c ≠ eqChar ∧ !isBase64 c then none
    else if c = eqChar then
      if tail + 1 ≥ 3 then none else validLoop cs (tail + 1)
    else if tail ≠ 0 then none
    else validLoop cs tail

/-- `is_valid_b64(base64_in, len)` with `len = strlen` -/
def isValidB64 (s : Bytes) : Bool :=
  let len := s.length
  if len % 4 ≠ 0 then false
  else if (len / 4) * 3 - 2 ≠ 16 then false
  else match validLoop s 0 with
    | none => false
    | some tail => tail = 2

/-- `getArgsKey(arg)`: decodes exactly 24 characters into `new u8_t[16]`; a decode longer than 16 bytes overruns the buffer -/
def getArgsKey (arg : Bytes) : Except Fault (Option Bytes) := do
  match ← base64ToHex (arg.take 24) with
  | none => pure none
  | some k => if k.length > 16 then .error .outOfBounds else pure (some k)

end Wencry.Model.Base64
