/-
Model of kernel/cry.cpp (`runcrypt`) and of `FileHeader` in kernel/fheader.cpp: execute_encrypt, verify,
execute_verify, execute_decrypt on modelled stdio streams (after repair F4: mode bytes range-checked → result 3).
The pipeline is used through `seqPipeline` (see Model/IoBuffer.lean and property C03).
-/
import Wencry.Basic
import Wencry.Generated.Consts
import Wencry.Model.Stdio
import Wencry.Model.Hash
import Wencry.Model.Hmac
import Wencry.Model.Modes
import Wencry.Model.IoBuffer
namespace Wencry.Model.File
open Wencry.Gen Wencry.Model.Stdio Wencry.Model.Modes Wencry.Model.IoBuffer

/-- build configuration: worker threads `T` (constructor argument `threads_num`), chunk size `B` (iobuffer::BUF_SZ),
    hash refill size `H` (filebuffer64::HBUF_SZ) -/
structure Cfg where
  T : Nat
  B : Nat
  H : Nat
  deriving Repr

def Cfg.production : Cfg := { T := c_THREAD_NUM, B := c_BUF_SZ, H := c_HBUF_SZ }

/-- dereferences of a NULL the factories return, kept explicit -/
inductive Fault | nullDeref
  deriving DecidableEq, Repr

/-- `FILE_TEXT_MARK(threads_num)` -/
def textMark (T : Nat) : Nat := c_FILE_IV_MARK + 20 * T

/-- `FileHeader::getIV(r_buf, iv)`: iv[0] = SHA1(seed), iv[i] = SHA1(iv[i-1]); `seed` is `r_buf` up to its first NUL -/
def getIV (T : Nat) (seed : Bytes) : Bytes :=
  let iv0 := Hash.getStringHash Hash.Sha1.alg seed
  let rec go : Nat → Bytes → Bytes → Bytes
    | 0, _, acc => acc
    | n + 1, prev, acc => let nx := Hash.getStringHash Hash.Sha1.alg prev; go n nx (acc ++ nx)
  if T = 0 then iv0 else go (T - 1) iv0 iv0

/-- `FileHeader::getFileHeader(iv)`: the sequence of fwrites -/
def writeHeader (out : WFile) (ctype htype : Byte) (T : Nat) (iv : Bytes) : WFile :=
  let out := out.fwrite magicBytes
  let out := out.fwrite [ctype]
  let out := out.fwrite [htype]
  let out := out.fwrite (List.replicate c_PADDING 0)
  (List.range T).foldl (fun o i => o.fwrite ((iv.drop (20 * i)).take 20)) out

/-- `prepare_AES(ctype, iv, cmode)` : T objects from the factory, all constructed from `iv` (its first 16 bytes) -/
def prepareAES (T : Nat) (ctype : Nat) (key : Block) (iv : Bytes) (isenc : Bool) : Except Fault (List Stream) :=
  match create isenc ctype key (Block.ofListD iv) with
  | none => .error .nullDeref      -- mode[i] == NULL is dereferenced by the worker
  | some s => .ok (List.replicate T s)

/-- `hmac::writeFileHmac(htype, out, key, FILE_IV_MARK, FILE_HMAC_MARK)` -/
def writeFileHmac (cfg : Cfg) (htype : Nat) (key : Block) (out : WFile) : Except Fault WFile :=
  let rd := (RFile.open out.data).fseek c_FILE_IV_MARK
  match Hmac.getres cfg.H htype key.toList rd with
  | none => .error .nullDeref
  | some (tag, _) => .ok ((out.fseek c_FILE_HMAC_MARK).fwrite tag)

/-- `runcrypt::execute_encrypt(fsize, r_buf)` with `fin` holding `plain`: the output stream at the end.
    Always reports success (returns true). -/
def encrypt (cfg : Cfg) (ctype htype : Nat) (key : Block) (seed plain : Bytes) : Except Fault WFile := do
  let iv := getIV cfg.T seed
  let out := writeHeader WFile.empty (BitVec.ofNat 8 ctype) (BitVec.ofNat 8 htype) cfg.T iv
  let ss ← prepareAES cfg.T ctype key iv true
  let (_, _, out) := seqPipeline cfg.T cfg.B true ss (RFile.open plain) out
  writeFileHmac cfg htype key out

/-- `runcrypt::verify()`: result code, and the header's mode bytes as read -/
def verify (cfg : Cfg) (key : Block) (file : Bytes) : Except Fault (Nat × Nat × Nat) := do
  let fin := RFile.open file
  -- checkMn
  let (fin, mn) := (fin.fseek c_FILE_MN_MARK).fread 8
  if mn.length ≠ 8 then return (4, 255, 255)
  if mn ≠ magicBytes then return (4, 255, 255)
  -- checkType
  let (fin, c) := (fin.fseek c_FILE_MODE_MARK).fread 1
  let (fin, h) := fin.fread 1
  let ctype := (c.getD 0 255).toNat
  let htype := (h.getD 0 255).toNat
  -- getHmac(64)
  let (fin, stored) := (fin.fseek c_FILE_HMAC_MARK).fread 64
  if stored.length ≠ 64 then return (1, ctype, htype)
  if ctype > 4 ∨ htype > 2 then return (3, ctype, htype)
  match Hmac.cmphmac cfg.H htype key.toList (fin.fseek c_FILE_IV_MARK) stored with
  | none => throw .nullDeref
  | some true => return (0, ctype, htype)
  | some false => return (2, ctype, htype)

/-- `runcrypt::execute_verify`: the result code (0 = "Verification passed", returns true) -/
def executeVerify (cfg : Cfg) (key : Block) (file : Bytes) : Except Fault Nat := do
  let (res, _, _) ← verify cfg key file
  return res

/-- `runcrypt::execute_decrypt`: result code and the output stream -/
def decrypt (cfg : Cfg) (key : Block) (file : Bytes) : Except Fault (Nat × WFile) := do
  let (res, ctype, _) ← verify cfg key file
  if res ≠ 0 then return (res, WFile.empty)
  let fin := RFile.open file
  -- prepare_IV(): fseek(FILE_IV_MARK); fread(iv, 1, 20 * num)
  let (fin, iv) := (fin.fseek c_FILE_IV_MARK).fread (20 * cfg.T)
  -- prepare_AES: fseek(FILE_TEXT_MARK(threads_num))
  let fin := fin.fseek (textMark cfg.T)
  let ss ← prepareAES cfg.T ctype key iv false
  let (_, _, out) := seqPipeline cfg.T cfg.B false ss fin WFile.empty
  return (0, out)

end Wencry.Model.File
