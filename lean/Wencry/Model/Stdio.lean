/-
The part of C stdio the code relies on, as a pure model (trusted base: this is how glibc behaves for `rb` and `wb+`
streams on regular files; the correspondence harness exercises the real one).
-/
import Wencry.Basic
namespace Wencry.Model.Stdio

/-- an input stream opened "rb" -/
structure RFile where
  data : Bytes
  pos : Nat
  eof : Bool
  deriving Repr

def RFile.open (d : Bytes) : RFile := { data := d, pos := 0, eof := false }

def RFile.remaining (f : RFile) : Nat := f.data.length - f.pos

/-- `fread(buf, 1, n, f)`: the bytes read; the EOF indicator is set iff fewer than `n` bytes were available -/
def RFile.fread (f : RFile) (n : Nat) : RFile × Bytes :=
  let got := (f.data.drop f.pos).take n
  ({ f with pos := f.pos + got.length, eof := f.eof || decide (got.length < n) }, got)

/-- `fseek(f, off, SEEK_SET)`: clears the EOF indicator -/
def RFile.fseek (f : RFile) (off : Nat) : RFile := { f with pos := off, eof := false }

def RFile.feof (f : RFile) : Bool := f.eof

/-- `c = fgetc(f); if (c == EOF) ... else ungetc(c, f)`: `true` when no byte is left (EOF indicator then set);
    otherwise the stream is as before (the byte is pushed back) -/
def RFile.peekEof (f : RFile) : RFile × Bool :=
  if f.pos < f.data.length then (f, false) else ({ f with eof := true }, true)

/-- an output stream opened "wb+": its contents, its position and the log of writes `(offset, bytes)` in issue order -/
structure WFile where
  data : Bytes
  pos : Nat
  log : List (Nat × Bytes)
  deriving Repr

def WFile.empty : WFile := { data := [], pos := 0, log := [] }

/-- contents after writing `bs` at `off` (zero fill if beyond the end) -/
def writeAt (d : Bytes) (off : Nat) (bs : Bytes) : Bytes :=
  let d := if d.length < off then d ++ List.replicate (off - d.length) 0 else d
  d.take off ++ bs ++ d.drop (off + bs.length)

/-- `fwrite(bs, 1, n, f)`; a zero-length write leaves no trace -/
def WFile.fwrite (f : WFile) (bs : Bytes) : WFile :=
  if bs.isEmpty then f
  else { data := writeAt f.data f.pos bs, pos := f.pos + bs.length, log := f.log ++ [(f.pos, bs)] }

def WFile.fseek (f : WFile) (off : Nat) : WFile := { f with pos := off }

/-- replay a write log on an empty file -/
def replay (log : List (Nat × Bytes)) : Bytes := log.foldl (fun d w => writeAt d w.1 w.2) []

end Wencry.Model.Stdio
