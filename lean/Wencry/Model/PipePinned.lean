/-
The pipeline protocol as it was on the PINNED tree (before repair F2): a worker goes straight to `get_entry` on its still
EMPTY buffer. Same state space and I/O thread as Model/Pipe.lean; only the worker's first program point differs.
Used for negative results only: the defects the repair removed are exhibited on this variant by concrete schedules.
-/
import Wencry.Model.Pipe
namespace Wencry.Model.PipePinned
open Wencry.Model.Pipe Wencry.Model.IoBuffer

variable {σ : Type}

/-- pinned `multiruncrypt_file`: no `wait_buffer_loaded`; the worker starts at the first `get_entry` -/
def initPinned (T : Nat) (ws0 : Nat → σ) : St σ := { init T ws0 with wpc := fun _ => .fetch }

def stepPinned (f : σ → Block → σ × Block) (inp : Input) (ispad : Bool) (T : Nat) (s : St σ) : Option Nat → Option (St σ) :=
  step f inp ispad T s

def runPinned (f : σ → Block → σ × Block) (inp : Input) (ispad : Bool) (T : Nat) (ws0 : Nat → σ) (sched : List (Option Nat)) : St σ :=
  runSched f inp ispad T (initPinned T ws0) sched

end Wencry.Model.PipePinned
