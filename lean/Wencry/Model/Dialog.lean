/-
Model of the interactive dialogue `get_v_mod1` (valget/getval1.cpp): what the program reads from standard input when it is
started without arguments, as a function from the input bytes to the parameters it hands to `main`. `scanf` is a parameter of
the C library; the conversions the code uses are modelled here from their documentation:
  `%c`      the next character, no white space skipped;
  `%s`      white space skipped, then the maximal run of non-white-space characters (no bound: the destination must be large enough);
  `%d`      white space skipped, optional sign, decimal digits; a matching failure leaves the destination as it was;
  `%*[\n]`  one or more newlines (a matching failure ends the whole call: the following `%c` is then NOT read);
  `%*[^\n]` the rest of the line.
The model is PARTIAL on purpose: `none` stands for "outside the modelled fragment" — the places where the real code uses an
uninitialised variable or a too small buffer or never returns (end of input inside a retry loop, no newline before the y/n answer,
a name of 128 characters or more, a seed of 256 or more, a mode number beyond the int range). The correspondence suite `dlgparse`
runs the real function on well-formed and on mildly malformed dialogues and compares wherever the model answers.
-/
import Wencry.Basic
import Wencry.Model.Base64
import Wencry.Model.Cli
namespace Wencry.Model.Dialog
open Wencry Wencry.Model

def isWs (c : Byte) : Bool := c = 32 || (9 ≤ c.toNat && c.toNat ≤ 13)

/-- `scanf("%s", buf)`: `none` at end of input (the buffer keeps whatever it held) -/
def readTok (inp : Bytes) : Option (Bytes × Bytes) :=
  let r := inp.dropWhile isWs
  let t := r.takeWhile (fun c => !isWs c)
  if t.isEmpty then none else some (t, r.dropWhile (fun c => !isWs c))

def isDigit (c : Byte) : Bool := 48 ≤ c.toNat && c.toNat ≤ 57

/-- `scanf("%d", &x)`: `none` on a matching failure or at end of input (x keeps its value; nothing relevant is consumed, the caller
    skips the rest of the line anyway) -/
def readInt (inp : Bytes) : Option (Int × Bytes) :=
  let r := inp.dropWhile isWs
  let (neg, r1) := match r with
    | c :: t => if c = 45 then (true, t) else if c = 43 then (false, t) else (false, r)
    | [] => (false, [])
  let ds := r1.takeWhile isDigit
  if ds.isEmpty then none
  else
    let n : Nat := ds.foldl (fun acc c => acc * 10 + (c.toNat - 48)) 0
    some (if neg then -(n : Int) else (n : Int), r1.dropWhile isDigit)

/-- `scanf("%*[^\n]")` -/
def skipLine (inp : Bytes) : Bytes := inp.dropWhile (fun c => c ≠ 10)

/-- `selectCMode` / `selectHMode`: ask until the number passes the range check. `none`: the input ends first (the real loop then never
    ends) or a number does not fit an `int` -/
def readMode (check : Int → Bool) : Nat → Bytes → Option (Int × Bytes)
  | 0, _ => none
  | fuel + 1, inp =>
    match readInt inp with
    | some (n, rest) =>
      if n < -2147483648 ∨ n > 2147483647 then none
      else if check n then some (n, rest) else readMode check fuel (skipLine rest)
    | none => if (inp.dropWhile isWs).isEmpty then none else readMode check fuel (skipLine (inp.dropWhile isWs))

/-- `getInputKey`: tokens until one is a valid key text (`kn[128]`) -/
def readKey : Nat → Bytes → Option (Bytes × Bytes)
  | 0, _ => none
  | fuel + 1, inp =>
    match readTok inp with
    | none => none
    | some (t, rest) =>
      if t.length ≥ 128 then none
      else if Base64.isValidB64 t then
        match Base64.getArgsKey t with
        | .ok (some k) => some (k, rest)
        | _ => none
      else readKey fuel rest

/-- `getInputFilep`: tokens until one names a file that opens (`fn[128]`) -/
def readFile (opens : Bytes → Bool) : Nat → Bytes → Option (Bytes × Bytes)
  | 0, _ => none
  | fuel + 1, inp =>
    match readTok inp with
    | none => none
    | some (t, rest) => if t.length ≥ 128 then none else if opens t then some (t, rest) else readFile opens fuel rest

/-- `scanf("%*[\n]%c", &flag)`: at least one newline, then one character -/
def readFlag (inp : Bytes) : Option (Byte × Bytes) :=
  match inp with
  | 10 :: _ => match inp.dropWhile (fun c => c = 10) with
    | f :: rest => some (f, rest)
    | [] => none
  | _ => none

/-- the part of the path after the last '/' or '\\' -/
def baseName (p : Bytes) : Bytes := ((p.reverse.takeWhile (fun c => c ≠ 47 ∧ c ≠ 92))).reverse

/-- what `main` receives -/
structure Params where
  mode : Byte
  file : Bytes
  /-- `none`: a fresh random key was asked for -/
  key : Option Bytes
  ctype : Int
  htype : Int
  /-- the C string in `r_buf` (encryption in a non-ECB mode only) -/
  seed : Option Bytes
  /-- the name opened for output (`none` for verification) -/
  out : Option Bytes
  deriving DecidableEq, Repr

def isYes (f : Byte) : Bool := f = 121 || f = 89

def dot_wenc : Bytes := [46, 119, 101, 110, 99]
def dot_wdec : Bytes := [46, 119, 100, 101, 99]

/-- `get_v_mod1` for the answers `e`, `E`, `d`, `D`, `v` -/
def dialogue (opens : Bytes → Bool) (inp : Bytes) : Option Params :=
  let fuel := inp.length + 2
  match inp with
  | [] => none
  | m :: r0 =>
    match readFile opens fuel r0 with
    | none => none
    | some (file, r1) =>
      if m = 101 ∨ m = 69 then
        match readFlag r1 with
        | none => none
        | some (flag, r2) =>
          let keyStep : Option (Option Bytes × Bytes) :=
            if isYes flag then some (none, r2) else (readKey fuel r2).map fun (k, r) => (some k, r)
          match keyStep with
          | none => none
          | some (key, r3) =>
            match readMode Cli.checkCtype fuel r3 with
            | none => none
            | some (c, r4) =>
              match readMode Cli.checkHtype fuel r4 with
              | none => none
              | some (h, r5) =>
                let out := baseName file ++ dot_wenc
                if c = 0 then some { mode := m, file, key, ctype := c, htype := h, seed := none, out := some out }
                else match readTok r5 with
                  | none => none
                  | some (s, _) => if s.length ≥ 256 then none else some { mode := m, file, key, ctype := c, htype := h, seed := some s, out := some out }
      else if m = 100 ∨ m = 68 then
        match readFlag r1 with
        | none => none
        | some (flag, r2) =>
          let nameStep : Option (Bytes × Bytes) :=
            if isYes flag then (match readTok r2 with
              | none => none
              | some (t, r) => if t.length ≥ 128 then none else some (t, r))
            else some (baseName file ++ dot_wdec, r2)
          match nameStep with
          | none => none
          | some (name, r3) =>
            (readKey fuel r3).map fun (k, _) => { mode := m, file, key := some k, ctype := -1, htype := -1, seed := none, out := some name }
      else if m = 118 then
        (readKey fuel r1).map fun (k, _) => { mode := m, file, key := some k, ctype := -1, htype := -1, seed := none, out := none }
      else none

/-- the canonical way to answer the encryption dialogue: one answer per line -/
def script (file keyText : Bytes) (c h : Nat) (seed : Bytes) : Bytes :=
  [101, 10] ++ file ++ [10, 110, 10] ++ keyText ++ [10] ++ (toString c).toUTF8.toList.map (fun b => BitVec.ofNat 8 b.toNat) ++ [10]
    ++ (toString h).toUTF8.toList.map (fun b => BitVec.ofNat 8 b.toNat) ++ [10] ++ seed ++ [10]

private def hexB (bs : Bytes) : String :=
  if bs.isEmpty then "-" else String.join (bs.map fun b => String.ofList [Nat.digitChar (b.toNat / 16), Nat.digitChar (b.toNat % 16)])

def showParams : Option Params → String
  | none => "unmodelled"
  | some p => s!"{p.mode.toNat} {hexB p.file} {match p.key with | some k => hexB k | none => "*"} {p.ctype} {p.htype} {match p.seed with | some s => hexB s | none => "?"} {match p.out with | some o => hexB o | none => "null"}"

end Wencry.Model.Dialog
