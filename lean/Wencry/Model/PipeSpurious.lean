/-
Spurious wake-ups for the pipeline transition system of Model/Pipe.lean.
`std::condition_variable::wait` may return without a notification; the code guards against that with
`while (!predicate) cv.wait(lock)`. In the model a thread asleep on a condition variable (`initSleep`, `sleepRdy`, `sleepUpd`)
can therefore, at any time, be moved back to the program point that re-tests its predicate (`initWait`, `waitRdy`, `waitUpd`).
Nothing else changes. An event is either an ordinary step of a thread or a spurious wake-up of a thread.
-/
import Wencry.Model.Pipe
namespace Wencry.Model.PipeSpurious
open Wencry Wencry.Model.Pipe Wencry.Model.IoBuffer

variable {σ : Type}

/-- a spurious wake-up of thread `tid` (`none` = the I/O thread); enabled only when that thread is asleep on a condition variable -/
def spurious (T : Nat) (s : St σ) : Option Nat → Option (St σ)
  | none => if s.iopc = .sleepUpd then some { s with iopc := .waitUpd } else none
  | some i =>
    if i < T then
      match s.wpc i with
      | .sleepRdy => some { s with wpc := upd s.wpc i .waitRdy }
      | .initSleep => some { s with wpc := upd s.wpc i .initWait }
      | _ => none
    else none

inductive Ev
  /-- thread `tid` performs its next step -/
  | run (tid : Option Nat)
  /-- thread `tid` wakes up spuriously -/
  | spur (tid : Option Nat)
  deriving DecidableEq, Repr

def Ev.isSpur : Ev → Bool
  | .spur _ => true
  | .run _ => false

def stepS (f : σ → Block → σ × Block) (inp : Input) (ispad : Bool) (T : Nat) (s : St σ) : Ev → Option (St σ)
  | .run tid => step f inp ispad T s tid
  | .spur tid => spurious T s tid

/-- states reachable from the initial state under any schedule and any pattern of spurious wake-ups -/
inductive ReachS (f : σ → Block → σ × Block) (inp : Input) (ispad : Bool) (T : Nat) (ws0 : Nat → σ) : St σ → Prop
  | init : ReachS f inp ispad T ws0 (init T ws0)
  | step (s s' : St σ) (e : Ev) : ReachS f inp ispad T ws0 s → stepS f inp ispad T s e = some s' → ReachS f inp ispad T ws0 s'

end Wencry.Model.PipeSpurious
