/-
Model of kernel/multi_aes/aes/aesmode.{h,cpp}: the stream objects (`Aesmode` subclasses) and `AesFactory`.
-/
import Wencry.Basic
import Wencry.Model.Aes
namespace Wencry.Model.Modes

/-- the concrete classes -/
inductive Kind
  | ecbEnc | ecbDec | cbcEnc | cbcDec | ctr | cfbEnc | cfbDec | ofb
  deriving DecidableEq, Repr, Inhabited

/-- `AesFactory::createCryMaster(isenc, type)`; `none` is the NULL it returns for unknown types -/
def factoryKind (isenc : Bool) (type : Nat) : Option Kind :=
  if isenc then
    match type with
    | 0 => some .ecbEnc | 1 => some .cbcEnc | 2 => some .ctr | 3 => some .cfbEnc | 4 => some .ofb | _ => none
  else
    match type with
    | 0 => some .ecbDec | 1 => some .cbcDec | 2 => some .ctr | 3 => some .cfbDec | 4 => some .ofb | _ => none

/-- which block function member `crypt` is: `decryaes` for the two `AesDecrypt` subclasses, `encryaes` otherwise
    (note `AesCFB_Dec` derives from `AesEncrypt`) -/
def Kind.usesDecryptCore : Kind → Bool
  | .ecbDec | .cbcDec => true
  | _ => false

/-- `AesCTR::ctrInc` on the 16 bytes, last byte first: `iv[i]++; if (iv[i] != 0) break;`.
    The argument is the counter with its bytes reversed (index 15 first). -/
def ctrIncRev : Bytes → Bytes
  | [] => []
  | x :: xs => if x + 1 ≠ 0 then (x + 1) :: xs else (x + 1) :: ctrIncRev xs

def ctrInc (iv : Block) : Block := Block.ofListD (ctrIncRev iv.toList.reverse).reverse

/-- a stream object: its class, its block function `crypt.runaes_128bit` and the member `iv` -/
structure Stream where
  kind : Kind
  crypt : Block → Block
  iv : Block

/-- `runcry(block)`: new object state and the block as overwritten in place -/
def Stream.runcry (s : Stream) (blk : Block) : Stream × Block :=
  match s.kind with
  | .ecbEnc | .ecbDec => (s, s.crypt blk)
  | .cbcEnc => let c := s.crypt (blk.xor s.iv); ({ s with iv := c }, c)
  | .cbcDec => let p := (s.crypt blk).xor s.iv; ({ s with iv := blk }, p)
  | .ctr => let mask := s.crypt s.iv; ({ s with iv := ctrInc s.iv }, blk.xor mask)
  | .cfbEnc => let o := s.crypt s.iv; let c := blk.xor o; ({ s with iv := c }, c)
  | .cfbDec => let o := s.crypt s.iv; let p := blk.xor o; ({ s with iv := blk }, p)
  | .ofb => let o := s.crypt s.iv; ({ s with iv := o }, blk.xor o)

/-- feeding a list of blocks through one object, in order -/
def Stream.run (s : Stream) : List Block → Stream × List Block
  | [] => (s, [])
  | b :: bs => let (s1, o) := s.runcry b; let (s2, os) := s1.run bs; (s2, o :: os)

/-- the block function an object of the given class is constructed with -/
def cryptFn (k : Kind) (key : Block) : Block → Block :=
  let ks := Aes.allKeys key
  if k.usesDecryptCore then Aes.decryptK ks else Aes.encryptK ks

/-- `factory.loadiv(iv); factory.createCryMaster(isenc, type)` with `key` -/
def create (isenc : Bool) (type : Nat) (key iv : Block) : Option Stream :=
  (factoryKind isenc type).map fun k => { kind := k, crypt := cryptFn k key, iv := iv }

end Wencry.Model.Modes
