/-
Model of the option-driven command line: valget/getopts.cpp (`parseOpts`, `get_v_opt`, after repair F7) and the dispatch
and exit status of main.cpp. `getopt_long` is a parameter: the model consumes the sequence of options it returns on the
documented grammar (one token per option, with its argument); the harness tokenises each argv the same way.
What the file system answers (`fopen` succeeds or not) is part of the token.
-/
import Wencry.Basic
import Wencry.Model.Base64
namespace Wencry.Model.Cli

/-- what `getopt_long` hands to `parseOpts`, with the facts about the environment the code then observes -/
inductive Tok
  | e | d | v | V | h | n
  /-- `-i path`: does `fopen(path, "rb")` succeed -/
  | i (path : Bytes) (opens : Bool)
  /-- `-o path`: does `fopen(path, "wb+")` succeed -/
  | o (path : Bytes) (opens : Bool)
  | k (arg : Bytes)
  | cmode (arg : Bytes)
  | hmode (arg : Bytes)
  /-- `-m arg` is in the short option string but has no case label -/
  | m (arg : Bytes)
  /-- `getopt_long` returned '?' (unknown option, or a required argument is missing) -/
  | unknown
  deriving DecidableEq, Repr

inductive Fault | outOfBounds | nullDeref
  deriving DecidableEq, Repr

/-- the number `mode_number` (valget/getopts.cpp, repair F9) reads from a value string: optional blanks, optional sign, decimal digits, as
    `strtol`; a value that does not fit an `int` is invalid there (−1) — here the unbounded integer, which the range checks reject just the same
    (before F9 `atoi` truncated such values modulo 2³², so that 4294967297 passed as mode 1) -/
def atoi (s : Bytes) : Int :=
  let s := s.dropWhile fun c => c = 32 ∨ (9 ≤ c.toNat ∧ c.toNat ≤ 13)
  let (neg, s) := match s with
    | c :: r => if c = 45 then (true, r) else if c = 43 then (false, r) else (false, s)
    | [] => (false, [])
  let digits := s.takeWhile fun c => 48 ≤ c.toNat ∧ c.toNat ≤ 57
  let n : Nat := digits.foldl (fun acc c => acc * 10 + (c.toNat - 48)) 0
  if neg then -(n : Int) else (n : Int)

def checkCtype (n : Int) : Bool := 0 ≤ n ∧ n < 5
def checkHtype (n : Int) : Bool := 0 ≤ n ∧ n < 3

/-- `vpak_t` as far as the option path uses it, plus the globals `fout` / `fout_fits` -/
structure Pak where
  mode : Char
  ctype : Int
  htype : Int
  noEcho : Bool
  fp : Option Bytes
  out : Option Bytes
  key : Option Bytes
  fout : Bytes
  foutFits : Bool
  deriving Repr

def Pak.init : Pak :=
  { mode := 'u', ctype := -1, htype := -1, noEcho := false, fp := none, out := none, key := none, fout := [], foutFits := true }

def dotWenc : Bytes := [46, 119, 101, 110, 99]

/-- the one-mode rule shared by e/d/v/V/h -/
def setMode (p : Pak) (c : Char) : Option Pak := if p.mode = 'u' then some { p with mode := c } else none

/-- `parseOpts(c, res)`: `none` = returned false (a diagnostic was printed) -/
def parseOpt (p : Pak) : Tok → Except Fault (Option Pak)
  | .e => .ok (setMode p 'e')
  | .d => .ok (setMode p 'd')
  | .v => .ok (setMode p 'v')
  | .V => .ok (setMode p 'V')
  | .h => .ok (setMode p 'h')
  | .n => .ok (some { p with noEcho := true })
  | .i path opens =>
    -- snprintf(fout, 128, "%s.wenc", optarg): fits iff strlen + 5 < 128
    let p := { p with fout := (path ++ dotWenc).take 127, foutFits := decide (path.length + 5 < 128) }
    if opens then .ok (some { p with fp := some path }) else .ok none
  | .o path opens => if opens then .ok (some { p with out := some path }) else .ok none
  | .k arg =>
    if Base64.isValidB64 arg then
      match Base64.getArgsKey arg with
      | .ok (some key) => .ok (some { p with key := some key })
      | .ok none => .ok (some { p with key := some [] })      -- decode reported false; buffer left as allocated
      | .error _ => .error .outOfBounds
    else .ok none
  | .cmode arg =>
    if p.ctype = -1 then
      let t := atoi arg
      if checkCtype t then .ok (some { p with ctype := t }) else .ok none
    else .ok none
  | .hmode arg =>
    if p.htype = -1 then
      let t := atoi arg
      if checkHtype t then .ok (some { p with htype := t }) else .ok none
    else .ok none
  | .m _ => .ok none
  | .unknown => .ok none

/-- the `while (true)` loop over `getopt_long` -/
def parseAll (p : Pak) : List Tok → Except Fault (Option Pak)
  | [] => .ok (some p)
  | t :: ts => do
    match ← parseOpt p t with
    | none => pure none
    | some p' => parseAll p' ts

inductive Op | encrypt | decrypt | verify
  deriving DecidableEq, Repr

/-- what `main` goes on to do -/
inductive Outcome
  /-- `get_v_opt` returned NULL: a diagnostic was printed, exit status 1 -/
  | diag
  /-- `-V` / `-h`: exit status 0 -/
  | info
  /-- an operation is run on these handles; `key = none` means a freshly generated random key (encryption only);
      `out = none` can only mean verification; `defaultOut` = the output is the default name `fout`, which opened or not -/
  | run (op : Op) (inp : Bytes) (out : Option Bytes) (key : Option Bytes) (ctype htype : Int) (noEcho : Bool)
  deriving DecidableEq, Repr

/-- `get_v_opt(argc, argv)` followed by the dispatch in `main`; `defaultOpens` = does `fopen(fout, "wb+")` succeed -/
def getVOpt (toks : List Tok) (defaultOpens : Bool) : Except Fault Outcome := do
  match ← parseAll Pak.init toks with
  | none => pure .diag
  | some p =>
    if p.mode = 'u' then pure .diag
    else if p.mode = 'e' then
      let ctype := if p.ctype = -1 then 0 else p.ctype
      if !(p.ctype = -1) && !checkCtype p.ctype then pure .diag else
      let htype := if p.htype = -1 then 0 else p.htype
      if !(p.htype = -1) && !checkHtype p.htype then pure .diag else
      match p.fp with
      | none => pure .diag
      | some inp =>
        match p.out with
        | some o => pure (.run .encrypt inp (some o) p.key ctype htype p.noEcho)
        | none =>
          if !p.foutFits then pure .diag
          else if !defaultOpens then pure .diag
          else pure (.run .encrypt inp (some p.fout) p.key ctype htype p.noEcho)
    else if p.mode = 'd' ∨ p.mode = 'v' then
      match p.fp, p.key with
      | none, _ => pure .diag
      | some _, none => pure .diag
      | some inp, some key =>
        if p.mode = 'd' then
          match p.out with
          | none => pure .diag
          | some o => pure (.run .decrypt inp (some o) (some key) p.ctype p.htype p.noEcho)
        else pure (.run .verify inp p.out (some key) p.ctype p.htype p.noEcho)
    else pure .info    -- 'V' or 'h'

/-- `Settings::Settings(ctype, htype, no_echo)` calls `exit(1)` outside these ranges -/
def settingsOk (ctype htype : Int) : Bool := (-1 ≤ ctype ∧ ctype ≤ 4) ∧ (-1 ≤ htype ∧ htype ≤ 2)

/-- exit status of `main`, given the boolean the operation returns: 0 iff it succeeded (255 is `return -1`) -/
def exitStatus (o : Outcome) (opResult : Bool) : Nat :=
  match o with
  | .diag => 1
  | .info => 0
  | .run _ _ _ _ c h _ => if !settingsOk c h then 1 else if opResult then 0 else 255

/-! ### driver protocol -/

def tokOf? (w : String) : Option Tok :=
  match w.splitOn ":" with
  | ["e"] => some .e | ["d"] => some .d | ["v"] => some .v | ["V"] => some .V | ["h"] => some .h | ["n"] => some .n
  | ["?"] => some .unknown
  | ["i", p, o] => (unhex? p).map fun p => .i p (o = "1")
  | ["o", p, o] => (unhex? p).map fun p => .o p (o = "1")
  | ["k", a] => (unhex? a).map .k
  | ["c", a] => (unhex? a).map .cmode
  | ["H", a] => (unhex? a).map .hmode
  | ["m", a] => (unhex? a).map .m
  | _ => none

def hexB (bs : Bytes) : String := let s := hexOf bs; if s.isEmpty then "-" else s

def showOutcome : Outcome → String
  | .diag => "diag"
  | .info => "info"
  | .run op inp out key c h ne =>
    let ops := match op with | .encrypt => "e" | .decrypt => "d" | .verify => "v"
    let outs := match out with | some o => hexB o | none => "null"
    let ks := match key with | some k => hexB k | none => "random"
    s!"run {ops} {hexB inp} {outs} {ks} {c} {h} {if ne then 1 else 0}"

def parseToks (dflt : String) (toks : List String) : Option (Except Fault Outcome) :=
  (toks.mapM tokOf?).map fun ts => getVOpt ts (dflt = "1")

/-- `cli <defaultOpens 0|1> tok tok …` → the outcome; `clistatus <defaultOpens> <opResult 0|1> tok …` → the exit status -/
def driverCli (ws : List String) : String :=
  match ws with
  | "status" :: dflt :: opres :: toks =>
    match parseToks dflt toks with
    | none => "bad-op"
    | some (.ok o) => toString (exitStatus o (opres = "1"))
    | some (.error .outOfBounds) => "fault:outOfBounds"
    | some (.error .nullDeref) => "fault:nullDeref"
  | dflt :: toks =>
    match parseToks dflt toks with
    | none => "bad-op"
    | some (.ok o) => showOutcome o
    | some (.error .outOfBounds) => "fault:outOfBounds"
    | some (.error .nullDeref) => "fault:nullDeref"
  | _ => "bad-op"

end Wencry.Model.Cli
