/-
Model of kernel/multi_aes/aes/aes.cpp + aes.h + tab.h (tables come from Generated, i.e. from the source).
One definition per C++ function, same control structure. `state_t` is modelled by its four 32-bit rows `g[0..3]`;
byte `s[i][j]` of the union is byte j (little endian) of `g[i]` — the object layout the code relies on (trusted base).
-/
import Wencry.Basic
import Wencry.Generated.Tables
namespace Wencry.Model.Aes
open Wencry.Gen

/-- `state_t` seen through `g[4]` -/
structure Rows where
  g0 : W32
  g1 : W32
  g2 : W32
  g3 : W32
  deriving DecidableEq, Repr, Inhabited

/-- macro `setbytes(b0,b1,b2,b3)` -/
def setbytes (b0 b1 b2 b3 : Byte) : W32 :=
  b0.zeroExtend 32 ||| (b1.zeroExtend 32 <<< 8) ||| (b2.zeroExtend 32 <<< 16) ||| (b3.zeroExtend 32 <<< 24)

/-- `(u8_t)(t)` -/
def u8 (t : W32) : Byte := t.truncate 8

/-- macro `rrot(x,i)` / `lrot(x,i)` for 0 < i < 32 (the code only uses 8, 16, 24) -/
def rrot (x : W32) (i : Nat) : W32 := (x >>> i) ||| (x <<< (32 - i))
def lrot (x : W32) (i : Nat) : W32 := (x <<< i) ||| (x >>> (32 - i))

/-- `w.s[i][j]` -/
def sget (g : W32) (j : Nat) : Byte := u8 (g >>> (8 * j))

/-- macro `Gmul(u,v)`: `u` is the logarithm of the multiplier -/
def gmul (u : Nat) (v : Byte) : Byte :=
  if v ≠ 0 then alogTN (u + (logT v).toNat) else 0

/-- macro `GMumLine(n0,n1,n2,n3)` with the current low bytes of g0..g3 -/
def gmumLine (n0 n1 n2 n3 : Nat) (g0 g1 g2 g3 : W32) : Byte :=
  gmul n0 (u8 g0) ^^^ gmul n1 (u8 g1) ^^^ gmul n2 (u8 g2) ^^^ gmul n3 (u8 g3)

def addroundkey (w k : Rows) : Rows := ⟨w.g0 ^^^ k.g0, w.g1 ^^^ k.g1, w.g2 ^^^ k.g2, w.g3 ^^^ k.g3⟩

def subWord (box : Byte → Byte) (t : W32) : W32 :=
  setbytes (box (u8 t)) (box (u8 (t >>> 8))) (box (u8 (t >>> 16))) (box (u8 (t >>> 24)))

def encSubbytes (w : Rows) : Rows := ⟨subWord sboxT w.g0, subWord sboxT w.g1, subWord sboxT w.g2, subWord sboxT w.g3⟩
def decSubbytes (w : Rows) : Rows := ⟨subWord rsboxT w.g0, subWord rsboxT w.g1, subWord rsboxT w.g2, subWord rsboxT w.g3⟩

def encRowshift (w : Rows) : Rows := ⟨w.g0, rrot w.g1 8, rrot w.g2 16, rrot w.g3 24⟩
def decRowshift (w : Rows) : Rows := ⟨w.g0, lrot w.g1 8, lrot w.g2 16, lrot w.g3 24⟩

/-- the column loop of `*_columnmix`: iteration i reads the low bytes of g0..g3 (shifted right by 8i) and stores
    the four results into `w.s[0..3][i]`; after four iterations each row is the packing of its four results. -/
def columnmix (m0 m1 m2 m3 : W32 → W32 → W32 → W32 → Byte) (w : Rows) : Rows :=
  let col (i : Nat) (m : W32 → W32 → W32 → W32 → Byte) : Byte :=
    m (w.g0 >>> (8 * i)) (w.g1 >>> (8 * i)) (w.g2 >>> (8 * i)) (w.g3 >>> (8 * i))
  ⟨setbytes (col 0 m0) (col 1 m0) (col 2 m0) (col 3 m0),
   setbytes (col 0 m1) (col 1 m1) (col 2 m1) (col 3 m1),
   setbytes (col 0 m2) (col 1 m2) (col 2 m2) (col 3 m2),
   setbytes (col 0 m3) (col 1 m3) (col 2 m3) (col 3 m3)⟩

def encColumnmix (w : Rows) : Rows :=
  columnmix (gmumLine 25 1 0 0) (gmumLine 0 25 1 0) (gmumLine 0 0 25 1) (gmumLine 1 0 0 25) w

def decColumnmix (w : Rows) : Rows :=
  columnmix (gmumLine 223 104 238 199) (gmumLine 199 223 104 238) (gmumLine 238 199 223 104) (gmumLine 104 238 199 223) w

def encCommonround (w k : Rows) : Rows := encColumnmix (encRowshift (encSubbytes (addroundkey w k)))
def encSpecround (w k1 k2 : Rows) : Rows := addroundkey (encRowshift (encSubbytes (addroundkey w k1))) k2
def decCommonround (w k : Rows) : Rows := addroundkey (decSubbytes (decRowshift (decColumnmix w))) k
def decSpecround (w k1 k2 : Rows) : Rows := addroundkey (decSubbytes (decRowshift (addroundkey w k2))) k1

/-- `this->w.g[i] = setbytes(w[i], w[4+i], w[8+i], w[12+i])` -/
def load (w : Block) : Rows :=
  ⟨setbytes w.b0 w.b4 w.b8 w.b12, setbytes w.b1 w.b5 w.b9 w.b13, setbytes w.b2 w.b6 w.b10 w.b14, setbytes w.b3 w.b7 w.b11 w.b15⟩

/-- `*((u32_t*)w + j) = setbytes(s[0][j], s[1][j], s[2][j], s[3][j])` on a little-endian machine -/
def store (r : Rows) : Block :=
  ⟨sget r.g0 0, sget r.g1 0, sget r.g2 0, sget r.g3 0, sget r.g0 1, sget r.g1 1, sget r.g2 1, sget r.g3 1,
   sget r.g0 2, sget r.g1 2, sget r.g2 2, sget r.g3 2, sget r.g0 3, sget r.g1 3, sget r.g2 3, sget r.g3 3⟩

/-- `keyhandle::genall`, first loop: `key[0].s[i][j] = init_key[(j << 2) | i]` -/
def key0 (k : Block) : Rows := load k

/-- `RC[round]` -/
def rc (round : Nat) : Byte := rcList.getD round 0

/-- `keyhandle::genkey(round)` from `key[round-1]` -/
def genkey (round : Nat) (p : Rows) : Rows :=
  let c0r0 := sboxT (sget p.g1 3) ^^^ rc round ^^^ sget p.g0 0
  let c0r1 := sboxT (sget p.g2 3) ^^^ sget p.g1 0
  let c0r2 := sboxT (sget p.g3 3) ^^^ sget p.g2 0
  let c0r3 := sboxT (sget p.g0 3) ^^^ sget p.g3 0
  let c1r0 := c0r0 ^^^ sget p.g0 1; let c1r1 := c0r1 ^^^ sget p.g1 1; let c1r2 := c0r2 ^^^ sget p.g2 1; let c1r3 := c0r3 ^^^ sget p.g3 1
  let c2r0 := c1r0 ^^^ sget p.g0 2; let c2r1 := c1r1 ^^^ sget p.g1 2; let c2r2 := c1r2 ^^^ sget p.g2 2; let c2r3 := c1r3 ^^^ sget p.g3 2
  let c3r0 := c2r0 ^^^ sget p.g0 3; let c3r1 := c2r1 ^^^ sget p.g1 3; let c3r2 := c2r2 ^^^ sget p.g2 3; let c3r3 := c2r3 ^^^ sget p.g3 3
  ⟨setbytes c0r0 c1r0 c2r0 c3r0, setbytes c0r1 c1r1 c2r1 c3r1, setbytes c0r2 c1r2 c2r2 c3r2, setbytes c0r3 c1r3 c2r3 c3r3⟩

/-- `key.get_key(round)` after `genall` -/
def getKey (k : Block) : Nat → Rows
  | 0 => key0 k
  | r + 1 => genkey (r + 1) (getKey k r)

/-- the eleven round keys, computed once (what `genall` stores) -/
def allKeys (k : Block) : List Rows :=
  let rec go (r : Nat) (fuel : Nat) (cur : Rows) (acc : List Rows) : List Rows :=
    match fuel with
    | 0 => acc.reverse
    | f + 1 => let nxt := genkey (r + 1) cur; go (r + 1) f nxt (nxt :: acc)
  go 0 10 (key0 k) [key0 k]

/-- `encryaes::runaes_128bit` -/
def encrypt (key w : Block) : Block :=
  let s := load w
  let s := (List.range 9).foldl (fun s i => encCommonround s (getKey key i)) s
  store (encSpecround s (getKey key 9) (getKey key 10))

/-- `decryaes::runaes_128bit` -/
def decrypt (key w : Block) : Block :=
  let s := load w
  let s := decSpecround s (getKey key 9) (getKey key 10)
  let s := (List.range 9).foldl (fun s i => decCommonround s (getKey key (8 - i))) s
  store s

/-- same functions with the key schedule precomputed (used by the driver for speed; equal to the above) -/
def encryptK (ks : List Rows) (w : Block) : Block :=
  let k (i : Nat) := ks.getD i default
  let s := load w
  let s := (List.range 9).foldl (fun s i => encCommonround s (k i)) s
  store (encSpecround s (k 9) (k 10))

def decryptK (ks : List Rows) (w : Block) : Block :=
  let k (i : Nat) := ks.getD i default
  let s := load w
  let s := decSpecround s (k 9) (k 10)
  let s := (List.range 9).foldl (fun s i => decCommonround s (k (8 - i))) s
  store s

end Wencry.Model.Aes
