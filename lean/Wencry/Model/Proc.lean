/-
Model of the process-wide state the library keeps between operations (C15): the `buffergroup` singleton
(`buffergroup::instance`, kernel/multi_aes/multi_buffergroup.cpp) and the static live-buffer counter `bufferctrl::live_num`
(an 8-bit counter incremented by every `bufferctrl` constructor and decremented when a buffer is retired; the I/O loop ends
when `haslive()` is false, i.e. when the counter is 0).
An operation that runs the pipeline behaves as in a fresh process only if it starts from a clean state: with a stale singleton
`get_instance()` would hand back the old group (old `turn`, `over`), and with a non-zero counter `haslive()` never becomes false
after the T buffers of the run are retired, so `turn_iter` spins forever over INV buffers.
-/
import Wencry.Model.File
namespace Wencry.Model.Proc
open Wencry.Model.File Wencry.Model.Stdio

structure PState where
  /-- `buffergroup::instance != NULL` -/
  hasInstance : Bool
  /-- `bufferctrl::live_num` -/
  live : BitVec 8
  deriving DecidableEq, Repr

def PState.fresh : PState := { hasInstance := false, live := 0 }

inductive Op
  | enc (cfg : Cfg) (ctype htype : Nat) (key : Block) (seed plain : Bytes)
  | dec (cfg : Cfg) (key : Block) (file : Bytes)
  | ver (cfg : Cfg) (key : Block) (file : Bytes)

inductive Res
  | enc (r : Except Fault Bytes)
  | dec (r : Except Fault (Nat × Bytes))
  | ver (r : Except Fault Nat)
  /-- the operation does not behave as specified by the file-level model (does not return / uses stale state) -/
  | stale
  deriving Repr

/-- what the operation computes, as a function of its arguments only (Model/File.lean) -/
def fileResult : Op → Res
  | .enc cfg c h key seed plain => .enc ((encrypt cfg c h key seed plain).map (·.data))
  | .dec cfg key file => .dec ((decrypt cfg key file).map fun r => (r.1, r.2.data))
  | .ver cfg key file => .ver (executeVerify cfg key file)

/-- does the operation reach `prepare_AES` / `run_multicry` (and then `del_instance`), and with how many buffers -/
def pipelineThreads : Op → Option Nat
  | .enc cfg _ _ _ _ _ => some cfg.T
  | .dec cfg key file => match verify cfg key file with
      | .ok (0, _, _) => some cfg.T
      | _ => none
  | .ver _ _ _ => none

/-- one operation inside the process -/
def runOp (s : PState) (op : Op) : PState × Res :=
  match pipelineThreads op with
  | none => (s, fileResult op)                         -- no pipeline, no global state touched
  | some T =>
    if s.hasInstance ∨ s.live ≠ 0 then (s, .stale)
    else
      -- set_buffergroup: T constructors (live_num += T, 8 bits); the run retires all T buffers (C04: the I/O thread returns
      -- exactly when every buffer is INV), one decrement each; del_instance() on both the encrypt and the decrypt path
      let afterCtor : BitVec 8 := s.live + BitVec.ofNat 8 T
      let afterRun : BitVec 8 := afterCtor - BitVec.ofNat 8 T
      ({ hasInstance := false, live := afterRun }, fileResult op)

/-- a history of operations in one process -/
def runOps (s : PState) : List Op → PState × List Res
  | [] => (s, [])
  | op :: ops => let r := runOp s op; let rs := runOps r.1 ops; (rs.1, r.2 :: rs.2)

end Wencry.Model.Proc
