/-
The pipeline at the granularity of the mutex and condition-variable operations (kernel/multi_aes/multi_buffergroup.cpp:
`bufferctrl::wait_ready / wait_update / set_ready / set_update`), below Model/Pipe.lean, which takes one step per critical section.

Here a critical section is a sequence of steps — acquire the per-buffer mutex (blocks while another thread holds it), test or
write `state`, `notify_all`, release — and a thread can be preempted between any two of them, while it holds the mutex. A condition
wait releases the mutex and blocks in one step (that is what `std::condition_variable::wait` guarantees); a notified waiter must
re-acquire the mutex before it re-tests its predicate. All unsynchronised accesses (`get_entry`, `cmpstate`, `runcry`,
`export_buffer`, `load_buffer`, `turn_iter`) are single steps exactly as in Model/Pipe.lean and may now fall inside another
thread's critical section.

`Proofs/PipeFine.lean` shows that this system refines Model/Pipe.lean (`abs`): every fine step is either invisible or exactly one
step of the coarse system, so the coarse theorems (C03, C04, C14) hold for the fine system; it has no deadlock and no infinite
execution. What remains trusted is the mutex itself (mutual exclusion, modelled by `lock`) and sequential consistency.

The variables are those of `Pipe.St` (field `d`; its two program-counter fields are not used here).
-/
import Wencry.Model.Pipe
namespace Wencry.Model.PipeFine
open Wencry Wencry.Model.Pipe Wencry.Model.IoBuffer

/-- worker program points. `initLock … initUnlock`: `wait_buffer_loaded` = `wait_ready` (acquire · test while holding · asleep on
cv_ready, mutex released · notified, must re-acquire · predicate true, release); `suLock … suUnlock`: `set_update` (acquire · body ·
`cv_update.notify_all()` · release); `wrLock … wrUnlock`: the `wait_ready` of `require_buffer_entry`; the rest as in `Pipe.WPc` -/
inductive FW
  | initLock | initTest | initSleep | initReacq | initUnlock
  | fetch | process
  | suLock | suBody | suNotify | suUnlock
  | wrLock | wrTest | wrSleep | wrReacq | wrUnlock
  | afterWait | fetch2 | done
  deriving DecidableEq, Repr, Inhabited

/-- I/O thread program points. `wuLock … wuUnlock`: `wait_update`; `srLock … srUnlock`: `over = …; set_ready(…)` (acquire · body ·
`cv_ready.notify_all()` · release); the rest as in `Pipe.IoPc` -/
inductive FIo
  | wuLock | wuTest | wuSleep | wuReacq | wuUnlock
  | chk | exporting | loadDecide | loading
  | srLock | srBody | srNotify | srUnlock
  | iter | done
  deriving DecidableEq, Repr, Inhabited

/-- thread ids as in `Pipe.step`: `none` = I/O thread, `some i` = worker i -/
abbrev Tid := Option Nat

structure FSt (σ : Type) where
  /-- the variables (buffers, turn, over, lst, pos, live, data, output, ghosts) -/
  d : St σ
  fw : Nat → FW
  fio : FIo
  /-- owner of the mutex of buffer i -/
  lock : Nat → Option Tid

variable {σ : Type}

/-- the coarse program point a fine worker point belongs to: before the linearisation point of a critical section (the test of a
wait, the write of a set) the section has not happened, after it the section has happened completely -/
def absW (s : FSt σ) (i : Nat) : WPc :=
  match s.fw i with
  | .initLock | .initTest | .initReacq => .initWait
  | .initSleep => if s.fio = .srNotify ∧ s.d.turn = i then .initWait else .initSleep   -- a notification is on its way
  | .initUnlock => .fetch
  | .fetch => .fetch
  | .process => .process
  | .suLock | .suBody => .setUpd
  | .suNotify | .suUnlock | .wrLock | .wrTest | .wrReacq => .waitRdy
  | .wrSleep => if s.fio = .srNotify ∧ s.d.turn = i then .waitRdy else .sleepRdy
  | .wrUnlock => .afterWait
  | .afterWait => .afterWait
  | .fetch2 => .fetch2
  | .done => .done

def absIo (s : FSt σ) : IoPc :=
  match s.fio with
  | .wuLock | .wuTest | .wuReacq => .waitUpd
  | .wuSleep => if s.fw s.d.turn = .suNotify then .waitUpd else .sleepUpd
  | .wuUnlock => .chk
  | .chk => .chk
  | .exporting => .exporting
  | .loadDecide => .loadDecide
  | .loading => .loading
  | .srLock | .srBody => .setRdy
  | .srNotify | .srUnlock => .iter
  | .iter => .iter
  | .done => .done

/-- the coarse state a fine state stands for -/
def abs (s : FSt σ) : St σ := { s.d with wpc := fun i => absW s i, iopc := absIo s }

/-- where a worker continues after an unsynchronised step of the coarse system -/
def liftW : WPc → FW
  | .initWait => .initLock | .initSleep => .initSleep | .fetch => .fetch | .process => .process | .setUpd => .suLock
  | .waitRdy => .wrLock | .sleepRdy => .wrSleep | .afterWait => .afterWait | .fetch2 => .fetch2 | .done => .done

def liftIo : IoPc → FIo
  | .waitUpd => .wuLock | .sleepUpd => .wuSleep | .chk => .chk | .exporting => .exporting | .loadDecide => .loadDecide
  | .loading => .loading | .setRdy => .srLock | .iter => .iter | .done => .done

/-- keep the variables of a coarse state, drop its program counters (they are not used in `FSt.d`) -/
def vars (c : St σ) (old : St σ) : St σ := { c with wpc := old.wpc, iopc := old.iopc }

def acquire (s : FSt σ) (i : Nat) (t : Tid) : Option (Nat → Option Tid) :=
  if s.lock i = none then some (upd s.lock i (some t)) else none

def fstepW (f : σ → Block → σ × Block) (s : FSt σ) (i : Nat) : Option (FSt σ) :=
  let b := s.d.buf i
  match s.fw i with
  -- wait_ready (twice in the worker's program)
  | .initLock => (acquire s i (some i)).map fun l => { s with lock := l, fw := upd s.fw i .initTest }
  | .initReacq => (acquire s i (some i)).map fun l => { s with lock := l, fw := upd s.fw i .initTest }
  | .initTest =>
      if b.st = .ready ∨ b.st = .inv then some { s with fw := upd s.fw i .initUnlock }
      else some { s with lock := upd s.lock i none, fw := upd s.fw i .initSleep }       -- release and block, atomically
  | .initSleep => none
  | .initUnlock => some { s with lock := upd s.lock i none, fw := upd s.fw i .fetch }
  | .wrLock => (acquire s i (some i)).map fun l => { s with lock := l, fw := upd s.fw i .wrTest }
  | .wrReacq => (acquire s i (some i)).map fun l => { s with lock := l, fw := upd s.fw i .wrTest }
  | .wrTest =>
      if b.st = .ready ∨ b.st = .inv then some { s with fw := upd s.fw i .wrUnlock }
      else some { s with lock := upd s.lock i none, fw := upd s.fw i .wrSleep }
  | .wrSleep => none
  | .wrUnlock => some { s with lock := upd s.lock i none, fw := upd s.fw i .afterWait }
  -- set_update
  | .suLock => (acquire s i (some i)).map fun l => { s with lock := l, fw := upd s.fw i .suBody }
  | .suBody =>
      if b.st = .ready then some { s with d := { s.d with buf := upd s.d.buf i { b with st := .updating } }, fw := upd s.fw i .suNotify }
      else some { s with fw := upd s.fw i .suUnlock }
  | .suNotify =>      -- cv_update.notify_all(): the only possible waiter is the I/O thread, when it waits for this buffer
      some { s with fio := if s.fio = .wuSleep ∧ s.d.turn = i then .wuReacq else s.fio, fw := upd s.fw i .suUnlock }
  | .suUnlock => some { s with lock := upd s.lock i none, fw := upd s.fw i .wrLock }
  -- unsynchronised steps: exactly those of the coarse system
  | .fetch | .process | .afterWait | .fetch2 =>
      (stepW f (abs s) i).map fun c => { s with d := vars c s.d, fw := upd s.fw i (liftW (c.wpc i)) }
  | .done => none

def fstepIo (inp : Input) (ispad : Bool) (T : Nat) (s : FSt σ) : Option (FSt σ) :=
  let i := s.d.turn
  let b := s.d.buf i
  match s.fio with
  -- wait_update
  | .wuLock => (acquire s i none).map fun l => { s with lock := l, fio := .wuTest }
  | .wuReacq => (acquire s i none).map fun l => { s with lock := l, fio := .wuTest }
  | .wuTest =>
      if b.st = .updating ∨ b.st = .empty then some { s with fio := .wuUnlock }
      else some { s with lock := upd s.lock i none, fio := .wuSleep }
  | .wuSleep => none
  | .wuUnlock => some { s with lock := upd s.lock i none, fio := .chk }
  -- over = loadstate != FULL; set_ready(loadstate != NODATA)
  | .srLock => (acquire s i none).map fun l => { s with lock := l, fio := .srBody }
  | .srBody =>
      if s.d.lst ≠ .nodata then
        some { s with d := { s.d with over := decide (s.d.lst ≠ .full), buf := upd s.d.buf i { b with st := .ready } }, fio := .srNotify }
      else
        some { s with d := { s.d with over := true, buf := upd s.d.buf i { b with st := .inv }, live := s.d.live - 1 }, fio := .srNotify }
  | .srNotify =>      -- cv_ready.notify_all(): the only possible waiter is worker `turn`
      some { s with fw := upd s.fw i (match s.fw i with | .wrSleep => .wrReacq | .initSleep => .initReacq | p => p), fio := .srUnlock }
  | .srUnlock => some { s with lock := upd s.lock i none, fio := .iter }
  -- unsynchronised steps: exactly those of the coarse system
  | .chk | .exporting | .loadDecide | .loading | .iter =>
      (stepIo inp ispad T (abs s)).map fun c => { s with d := vars c s.d, fio := liftIo c.iopc }
  | .done => none

def finit (T : Nat) (ws0 : Nat → σ) : FSt σ :=
  { d := init T ws0, fw := fun _ => .initLock, fio := .wuLock, lock := fun _ => none }

def fstep (f : σ → Block → σ × Block) (inp : Input) (ispad : Bool) (T : Nat) (s : FSt σ) : Tid → Option (FSt σ)
  | none => fstepIo inp ispad T s
  | some i => if i < T then fstepW f s i else none

inductive FReach (f : σ → Block → σ × Block) (inp : Input) (ispad : Bool) (T : Nat) (ws0 : Nat → σ) : FSt σ → Prop
  | init : FReach f inp ispad T ws0 (finit T ws0)
  | step (s s' : FSt σ) (tid : Tid) : FReach f inp ispad T ws0 s → fstep f inp ispad T s tid = some s' → FReach f inp ispad T ws0 s'

def fAllDone (T : Nat) (s : FSt σ) : Prop := s.fio = .done ∧ ∀ i, i < T → s.fw i = .done

/-- run a schedule; a step that is not enabled is skipped -/
def frunSched (f : σ → Block → σ × Block) (inp : Input) (ispad : Bool) (T : Nat) (s : FSt σ) : List Tid → FSt σ
  | [] => s
  | t :: ts => frunSched f inp ispad T ((fstep f inp ispad T s t).getD s) ts

end Wencry.Model.PipeFine
