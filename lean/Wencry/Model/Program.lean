/-
Model of the whole program on the option-driven path: main.cpp = get_v_opt (Model/Cli.lean) + the operation
(Model/File.lean) + the exit status, over a toy file system. This is the glue the CLI property C17 speaks about end to end:
"`-e -i F` writes F.wenc and prints a key with which `-d` restores F".
The file system is a finite map from paths to contents; whether a path can be created is a parameter (`canCreate`).
`-o P` (and the default output) open the file with "wb+" while the options are parsed, i.e. they create/truncate it even if the
command line is rejected afterwards. The random key and the random seed of an encryption without `-k` are parameters.
-/
import Wencry.Model.Cli
import Wencry.Model.File
namespace Wencry.Model.Program
open Wencry.Model.Cli Wencry.Model.File Wencry.Model.Stdio

abbrev Path := Bytes

structure FS where
  files : List (Path × Bytes)
  deriving Repr

def FS.read (fs : FS) (p : Path) : Option Bytes := (fs.files.find? (fun e => e.1 = p)).map (·.2)

def FS.write (fs : FS) (p : Path) (d : Bytes) : FS := { files := (p, d) :: fs.files.filter (fun e => e.1 ≠ p) }

/-- one command-line option as `getopt_long` delivers it -/
inductive Arg
  | e | d | v | V | h | n
  | i (path : Path) | o (path : Path) | k (arg : Bytes) | cmode (arg : Bytes) | hmode (arg : Bytes) | m (arg : Bytes) | unknown
  deriving DecidableEq, Repr

/-- the token the parser sees: what `fopen` answers is read off the file system -/
def toTok (fs : FS) (canCreate : Path → Bool) : Arg → Tok
  | .e => .e | .d => .d | .v => .v | .V => .V | .h => .h | .n => .n
  | .i p => .i p (fs.read p).isSome
  | .o p => .o p (canCreate p)
  | .k a => .k a | .cmode a => .cmode a | .hmode a => .hmode a | .m a => .m a | .unknown => .unknown

/-- side effect of parsing: every `-o P` that opens truncates/creates P, in order, until the first option that fails -/
def parseEffects (canCreate : Path → Bool) : FS → Pak → List Tok → FS
  | fs, _, [] => fs
  | fs, p, t :: ts =>
    match parseOpt p t with
    | .ok (some p') =>
      let fs' := match t with
        | .o path true => fs.write path []
        | _ => fs
      parseEffects canCreate fs' p' ts
    | _ => fs

/-- result of running the program once -/
structure Result where
  fs : FS
  status : Nat
  /-- the "Key is:" line of an encryption: the key in base64 (without the NUL) -/
  printedKey : Option Bytes
  deriving Repr

/-- `main(argc, argv)` with argc > 1. `rkey`/`rseed`: what `getRandomKey` / `getRandomBuffer` would produce (16 bytes; NUL-free seed).
    The worker count is the compiled-in THREAD_NUM (`cfg.T`). -/
def run (cfg : Cfg) (fs : FS) (canCreate : Path → Bool) (rkey : Bytes) (rseed : Bytes) (args : List Arg) : Except Cli.Fault Result := do
  let toks := args.map (toTok fs canCreate)
  let fs1 := parseEffects canCreate fs Pak.init toks
  -- the default output name is opened only if the whole command line was accepted up to that point
  let dfltPath : Option Path := (toks.findSome? fun t => match t with | .i p true => some p | _ => none).map (· ++ dotWenc)
  let dfltOpens := match dfltPath with | some p => canCreate p | none => false
  match ← getVOpt toks dfltOpens with
  | .diag => pure { fs := fs1, status := 1, printedKey := none }
  | .info => pure { fs := fs1, status := 0, printedKey := none }
  | .run op inp out key c h _ =>
    if !settingsOk c h then pure { fs := fs1, status := 1, printedKey := none } else
    let input := (fs1.read inp).getD []   -- read after all options were processed: an `-o` naming the same file has truncated it
    match op with
    | .encrypt =>
      let k := (key.getD rkey)
      let outp := out.getD []
      match encrypt cfg c.toNat h.toNat (Block.ofListD k) rseed input with
      | .ok f => pure { fs := fs1.write outp f.data, status := 0, printedKey := some ((Base64.hexToBase64 k).dropLast) }
      | .error _ => throw .nullDeref
    | .decrypt =>
      let k := key.getD []
      let outp := out.getD []
      match decrypt cfg (Block.ofListD k) input with
      | .ok (code, o) => pure { fs := fs1.write outp o.data, status := if code = 0 then 0 else 255, printedKey := none }
      | .error _ => throw .nullDeref
    | .verify =>
      let k := key.getD []
      match executeVerify cfg (Block.ofListD k) input with
      | .ok code => pure { fs := fs1, status := if code = 0 then 0 else 255, printedKey := none }
      | .error _ => throw .nullDeref

end Wencry.Model.Program
