/-
Model of the layer below Model/Cli.lean: glibc's `getopt_long` on raw argv words, driven by the option tables of
valget/getopts.cpp (regenerated from the source: `Gen.longOpts`, `Gen.shortOpts`), and the `while (true)` loop of `get_v_opt`
that feeds its results to `parseOpts`. With it the command-line theorems speak about argv vectors, not about pre-digested
option tokens, and the process-wide scanner state named by property C15 (`optind`, and glibc's private cursor into the option
cluster being scanned, `__nextchar`) is explicit.

What is modelled of glibc (posix/getopt.c, `_getopt_internal_r`, default PERMUTE ordering, `long_only = 0`, no POSIXLY_CORRECT):
* words that do not start with '-' (or are exactly "-") are skipped; "--" ends the scan; (the permutation of argv only moves
  the skipped words behind the options, which `get_v_opt` never looks at);
* "--name", "--name=value": exact match, otherwise unique abbreviation, otherwise '?'; a required argument is the text after
  '=' or else the next word whatever it looks like; none left: '?';
* "-abc": one option character per call; `optind` moves on when the last character of the word is taken; unknown character,
  ':' or ';': '?'; a required argument is the rest of the word or else the next word; none left: '?';
* the scanner state survives between scans unless it is re-initialised: glibc re-initialises when `optind == 0` (or on the very
  first call), NOT when `optind` is merely set back to 1.
Words are NUL-free byte strings; argv[0] is the program name.
-/
import Wencry.Basic
import Wencry.Generated.Consts
import Wencry.Model.Cli
namespace Wencry.Model.Getopt
open Wencry.Model.Cli

/-- the part of glibc's static `getopt_data` a later scan depends on: `optind` and the unread rest of the option cluster in
    progress (`__nextchar`; `[]` = NULL or pointing at the terminating NUL) -/
structure GState where
  optind : Nat
  nextchar : Bytes
  deriving DecidableEq, Repr

/-- the state of a new process, and the state after glibc's initialisation routine -/
def GState.fresh : GState := ⟨1, []⟩

/-- what one `getopt_long` call returns -/
inductive Ret
  /-- an option: its `val` (the character, or 1/2 for --cmode and --hmode) and `optarg` -/
  | opt (val : Nat) (arg : Option Bytes)
  /-- '?' -/
  | bad
  /-- -1 -/
  | done
  deriving DecidableEq, Repr

def shortOpts : Bytes := Gen.shortOpts

structure LongOpt where
  name : Bytes
  hasArg : Bool
  val : Nat
  deriving DecidableEq, Repr

def longOpts : List LongOpt := Gen.longOpts.map fun e => ⟨e.1, decide (e.2.1 = 1), e.2.2⟩

/-- `strchr(optstring, c)` and `temp[1] == ':'`: `none` = not an option character, `some b` = it is, `b` = takes an argument -/
def shortLookup : Bytes → Byte → Option Bool
  | [], _ => none
  | x :: rest, c => if x = c then some (decide (rest.head? = some 58)) else shortLookup rest c

inductive LongRes
  | found (o : LongOpt)
  | notFound
  | ambiguous
  deriving DecidableEq, Repr

/-- `process_long_option`'s search: exact match first, then abbreviations -/
def findLong (tbl : List LongOpt) (name : Bytes) : LongRes :=
  match tbl.find? (fun o => o.name = name) with
  | some o => .found o
  | none =>
    match tbl.filter (fun o => name.isPrefixOf o.name) with
    | [] => .notFound
    | o :: rest => if rest.all (fun p => p.hasArg = o.hasArg ∧ p.val = o.val) then .found o else .ambiguous

/-- NONOPTION_P: `argv[optind][0] != '-' || argv[optind][1] == '\0'` -/
def nonOption (w : Bytes) : Bool :=
  match w with
  | 45 :: _ :: _ => false
  | _ => true

/-- index of the first option-like word at or after `i` (or argc) -/
def skipNon (argv : List Bytes) (i : Nat) : Nat := i + ((argv.drop i).takeWhile nonOption).length

/-- "Look at and handle the next short option-character": `c` is taken, `rest` is what is left of the word -/
def shortStep (argv : List Bytes) (optind : Nat) (c : Byte) (rest : Bytes) : Ret × GState :=
  let oi := if rest.isEmpty then optind + 1 else optind
  if c = 58 ∨ c = 59 then (.bad, ⟨oi, rest⟩) else
  match shortLookup shortOpts c with
  | none => (.bad, ⟨oi, rest⟩)
  | some false => (.opt c.toNat none, ⟨oi, rest⟩)
  | some true =>
    if !rest.isEmpty then (.opt c.toNat (some rest), ⟨oi + 1, []⟩)
    else match argv[oi]? with
      | none => (.bad, ⟨oi, []⟩)
      | some a => (.opt c.toNat (some a), ⟨oi + 1, []⟩)

/-- `process_long_option` for the word at index `i` whose text after "--" is `body` -/
def longStep (argv : List Bytes) (i : Nat) (body : Bytes) : Ret × GState :=
  let name := body.takeWhile (· ≠ 61)
  let after := body.dropWhile (· ≠ 61)
  match findLong longOpts name with
  | .ambiguous => (.bad, ⟨i + 1, []⟩)
  | .notFound => (.bad, ⟨i + 1, []⟩)
  | .found o =>
    match after with
    | _ :: v => if o.hasArg then (.opt o.val (some v), ⟨i + 1, []⟩) else (.bad, ⟨i + 1, []⟩)
    | [] =>
      if o.hasArg then
        match argv[i + 1]? with
        | some a => (.opt o.val (some a), ⟨i + 2, []⟩)
        | none => (.bad, ⟨i + 1, []⟩)
      else (.opt o.val none, ⟨i + 1, []⟩)

/-- one call `getopt_long(argc, argv, shortOpts, longOpts, &index)` from scanner state `g` -/
def getoptLong (argv : List Bytes) (g : GState) : Ret × GState :=
  match g.nextchar with
  | c :: rest => shortStep argv g.optind c rest
  | [] =>
    let i := skipNon argv g.optind
    match argv[i]? with
    | none => (.done, ⟨i, []⟩)
    | some w =>
      match w with
      | [45, 45] => (.done, ⟨argv.length, []⟩)
      | 45 :: 45 :: body => longStep argv i body
      | 45 :: c :: rest => shortStep argv i c rest
      | _ => (.done, ⟨i, []⟩)

/-- what `fopen` will answer: the existing readable files and the paths that can be created -/
structure Env where
  files : List Bytes
  creatable : List Bytes
  deriving Repr

/-- the token `parseOpts` sees for a `getopt_long` result (the `switch (c)` labels of valget/getopts.cpp) -/
def tokOf (env : Env) : Ret → Tok
  | .bad => .unknown
  | .done => .unknown
  | .opt v arg =>
    let a := arg.getD []
    if v = 101 then .e else if v = 100 then .d else if v = 118 then .v else if v = 86 then .V else if v = 104 then .h
    else if v = 110 then .n
    else if v = 105 then .i a (env.files.contains a)
    else if v = 111 then .o a (env.creatable.contains a)
    else if v = 107 then .k a
    else if v = 1 then .cmode a
    else if v = 2 then .hmode a
    else if v = 109 then .m a
    else .unknown

/-- a successful `-o P` has created P: a later `-i P` of the same command line finds it -/
def envAfter (env : Env) : Tok → Env
  | .o p true => { env with files := p :: env.files }
  | _ => env

/-- result of the option loop: what `parseAll` would give, the scanner state and the environment it leaves behind -/
structure LoopRes where
  pak : Except Fault (Option Pak)
  g : GState
  env : Env

/-- the `while (true)` loop of `get_v_opt`; `fuel` bounds the number of `getopt_long` calls (see `fuelFor`) -/
def loop (argv : List Bytes) : Nat → GState → Env → Pak → LoopRes
  | 0, g, env, _ => ⟨.ok none, g, env⟩
  | fuel + 1, g, env, p =>
    match getoptLong argv g with
    | (.done, g') => ⟨.ok (some p), g', env⟩
    | (r, g') =>
      let t := tokOf env r
      match parseOpt p t with
      | .error e => ⟨.error e, g', env⟩
      | .ok none => ⟨.ok none, g', env⟩
      | .ok (some p') => loop argv fuel g' (envAfter env t) p'

/-- every call either takes a character of the cluster in progress or moves past a word -/
def fuelFor (argv : List Bytes) (g : GState) : Nat := g.nextchar.length + (argv.map (·.length + 1)).sum + 1

/-- the part of `get_v_opt` after the loop (same text as the tail of `Cli.getVOpt`, see `getVOpt_eq_finish`) -/
def finish (defaultOpens : Bool) : Option Pak → Except Fault Outcome
  | none => pure .diag
  | some p =>
    if p.mode = 'u' then pure .diag
    else if p.mode = 'e' then
      let ctype := if p.ctype = -1 then 0 else p.ctype
      if !(p.ctype = -1) && !checkCtype p.ctype then pure .diag else
      let htype := if p.htype = -1 then 0 else p.htype
      if !(p.htype = -1) && !checkHtype p.htype then pure .diag else
      match p.fp with
      | none => pure .diag
      | some inp =>
        match p.out with
        | some o => pure (.run .encrypt inp (some o) p.key ctype htype p.noEcho)
        | none =>
          if !p.foutFits then pure .diag
          else if !defaultOpens then pure .diag
          else pure (.run .encrypt inp (some p.fout) p.key ctype htype p.noEcho)
    else if p.mode = 'd' ∨ p.mode = 'v' then
      match p.fp, p.key with
      | none, _ => pure .diag
      | some _, none => pure .diag
      | some inp, some key =>
        if p.mode = 'd' then
          match p.out with
          | none => pure .diag
          | some o => pure (.run .decrypt inp (some o) (some key) p.ctype p.htype p.noEcho)
        else pure (.run .verify inp p.out (some key) p.ctype p.htype p.noEcho)
    else pure .info

/-- is the default output name creatable (only consulted for an accepted encryption without `-o`) -/
def defaultOpens (env : Env) (r : Except Fault (Option Pak)) : Bool :=
  match r with
  | .ok (some p) => env.creatable.contains p.fout
  | _ => false

/-- `get_v_opt(argc, argv)` + dispatch, in a process whose scanner state is `g`. `reset` is what the entry of `get_v_opt`
    does to the scanner state: `resetFixed` for the code as repaired (F8: `optind = 0`), `resetPinned` for `optind = 1`. -/
def getVOptArgv (reset : GState → GState) (env : Env) (g : GState) (argv : List Bytes) : Except Fault Outcome × GState :=
  let g0 := reset g
  let r := loop argv (fuelFor argv g0) g0 env Pak.init
  (r.pak >>= finish (defaultOpens r.env r.pak), r.g)

/-- `optind = 0`: glibc runs its initialisation routine on the next call (cursor 1, no cluster in progress) -/
def resetFixed (_ : GState) : GState := GState.fresh

/-- `optind = 1` (the pinned tree): the cluster cursor of an abandoned scan survives -/
def resetPinned (g : GState) : GState := { g with optind := 1 }

/-- a history of command lines in one process: outcome of each -/
def runHistory (reset : GState → GState) (env : Env) : GState → List (List Bytes) → List (Except Fault Outcome)
  | _, [] => []
  | g, argv :: rest => let r := getVOptArgv reset env g argv; r.1 :: runHistory reset env r.2 rest

/-! ### driver protocol -/

def unhexList? (w : String) : Option (List Bytes) :=
  if w = "-" then some [] else (w.splitOn ",").mapM fun x => if x = "~" then some [] else unhex? x

def showRes : Except Fault Outcome → String
  | .ok o => showOutcome o
  | .error .outOfBounds => "fault:outOfBounds"
  | .error .nullDeref => "fault:nullDeref"

/-- split a word list at ";" -/
def splitSemi : List String → List (List String)
  | [] => [[]]
  | w :: ws => match splitSemi ws with
    | [] => [[w]]
    | l :: ls => if w = ";" then [] :: l :: ls else (w :: l) :: ls

/-- `argv <fixed|pinned> <files> <creatable> ; w w w ; w w …` (words and paths in hex, `~` = empty word; lists comma-separated, `-` = none):
    outcomes of the command lines run one after the other in one process, joined by " | " -/
def driverArgv (ws : List String) : String :=
  match ws with
  | which :: files :: creat :: ";" :: rest =>
    match unhexList? files, unhexList? creat, (splitSemi rest).mapM (fun l => l.mapM fun x => if x = "~" then some [] else unhex? x) with
    | some fs, some cs, some hist =>
      let reset := if which = "pinned" then resetPinned else resetFixed
      let outs := runHistory reset ⟨fs, cs⟩ GState.fresh hist
      " | ".intercalate (outs.map showRes)
    | _, _, _ => "bad-op"
  | _ => "bad-op"

end Wencry.Model.Getopt
