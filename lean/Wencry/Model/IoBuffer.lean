/-
Model of `iobuffer` (kernel/multi_aes/multi_buffergroup.{h,cpp}): load_buffer / get_entry / export_buffer
(after repairs F3: end of file detected after a full read, an empty final read is NODATA; F5: bounded pad length),
and of the pipeline run *sequentially* (`seqPipeline`): chunk j is loaded, transformed by stream j mod T and
exported, in order.  That the multithreaded pipeline produces exactly this under every schedule is property C03
(Model/Pipe.lean and Props/C03.lean).
`B` is BUF_SZ, the number of 16-byte units per chunk buffer.
-/
import Wencry.Basic
import Wencry.Model.Stdio
import Wencry.Model.Modes
namespace Wencry.Model.IoBuffer
open Wencry.Model.Stdio Wencry.Model.Modes

inductive LSt | full | final | nodata
  deriving DecidableEq, Repr, Inhabited

structure IoBuf where
  /-- `b[0 .. total-1]` -/
  blocks : List Block
  total : Nat
  now : Nat
  tail : Nat
  isfinal : Bool
  deriving Repr, Inhabited

def IoBuf.new : IoBuf := { blocks := [], total := 0, now := 0, tail := 0, isfinal := false }

/-- the partial block completed by `memset(b[total] + tail, padding, padding)` -/
def padBlock (tailBytes : Bytes) : Block :=
  let padding := 16 - tailBytes.length
  Block.ofListD (tailBytes ++ List.replicate padding (BitVec.ofNat 8 padding))

/-- `iobuffer::load_buffer(fin, ispadding)` -/
def loadBuffer (B : Nat) (fin : RFile) (ispadding : Bool) (buf : IoBuf) : RFile × IoBuf × LSt :=
  let sum := 16 * B
  let (fin, got) := fin.fread sum
  let load := got.length
  let readover := fin.feof
  let (fin, readover) :=
    if !ispadding && !readover then fin.peekEof else (fin, readover)
  let tail := load % 16
  let total := load / 16
  let (whole, rest) := splitBlocks got
  let buf := { buf with blocks := whole, total := total, now := 0, tail := tail }
  if ispadding && load ≠ sum then
    (fin, { buf with blocks := whole ++ [padBlock rest], total := total + 1, isfinal := true }, .final)
  else if !ispadding && readover then
    if total = 0 then (fin, buf, .nodata)
    else (fin, { buf with isfinal := true }, .final)
  else (fin, buf, if load = 0 then .nodata else .full)

/-- byte 15 of block `i` of the buffer -/
def lastByteOf (blocks : List Block) (i : Nat) : Byte := (blocks.getD i Block.zero).b15

/-- what `iobuffer::export_buffer(fout, ispadding)` passes to `fwrite`. A non-final buffer is written whole
    (`sum` bytes: a FULL load fills it). -/
def exportBytes (buf : IoBuf) (ispadding : Bool) : Bytes :=
  if buf.isfinal then
    let padding : Nat := if ispadding || buf.now = 0 then 0 else (lastByteOf buf.blocks (buf.now - 1)).toNat
    let padding := if padding > 16 then 0 else padding
    (joinBlocks (buf.blocks.take buf.now)).take (16 * buf.now - padding)
  else joinBlocks buf.blocks

/-- replace element `i` -/
def setAt {α} (l : List α) (i : Nat) (a : α) : List α := l.set i a

/-- the pipeline run sequentially; `fuel` bounds the number of loads -/
def seqLoop (T B : Nat) (ispadding : Bool) : Nat → Nat → List Stream → RFile → WFile → List Stream × RFile × WFile
  | 0, _, ss, fin, fout => (ss, fin, fout)
  | fuel + 1, j, ss, fin, fout =>
    let (fin, buf, st) := loadBuffer B fin ispadding IoBuf.new
    match st with
    | .nodata => (ss, fin, fout)
    | _ =>
      match ss[j % T]? with
      | none => (ss, fin, fout)
      | some s =>
        let (s', outBlocks) := s.run buf.blocks
        let buf := { buf with blocks := outBlocks, now := buf.total }
        let fout := fout.fwrite (exportBytes buf ispadding)
        let ss := setAt ss (j % T) s'
        if st = .full then seqLoop T B ispadding fuel (j + 1) ss fin fout else (ss, fin, fout)

def seqPipeline (T B : Nat) (ispadding : Bool) (ss : List Stream) (fin : RFile) (fout : WFile) : List Stream × RFile × WFile :=
  seqLoop T B ispadding (fin.remaining / (16 * B) + 2) 0 ss fin fout

end Wencry.Model.IoBuffer
