/-
Spurious wake-ups at mutex level: a thread asleep in a condition wait (`initSleep`, `wrSleep`, `wuSleep` of Model/PipeFine.lean) may at
any time return from the wait without a notification; it must then re-acquire the mutex before it re-tests its predicate
(`initReacq`, `wrReacq`, `wuReacq`). Nothing else changes.
-/
import Wencry.Model.PipeFine
import Wencry.Model.PipeSpurious
namespace Wencry.Model.PipeFineSpurious
open Wencry Wencry.Model.Pipe Wencry.Model.PipeFine Wencry.Model.PipeSpurious Wencry.Model.IoBuffer

variable {σ : Type}

def fspurious (T : Nat) (s : FSt σ) : Tid → Option (FSt σ)
  | none => if s.fio = .wuSleep then some { s with fio := .wuReacq } else none
  | some i =>
    if i < T then
      match s.fw i with
      | .wrSleep => some { s with fw := upd s.fw i .wrReacq }
      | .initSleep => some { s with fw := upd s.fw i .initReacq }
      | _ => none
    else none

def fstepS (f : σ → Block → σ × Block) (inp : Input) (ispad : Bool) (T : Nat) (s : FSt σ) : Ev → Option (FSt σ)
  | .run tid => fstep f inp ispad T s tid
  | .spur tid => fspurious T s tid

/-- reachable at mutex level under any schedule and any pattern of spurious wake-ups -/
inductive FReachS (f : σ → Block → σ × Block) (inp : Input) (ispad : Bool) (T : Nat) (ws0 : Nat → σ) : FSt σ → Prop
  | init : FReachS f inp ispad T ws0 (finit T ws0)
  | step (s s' : FSt σ) (e : Ev) : FReachS f inp ispad T ws0 s → fstepS f inp ispad T s e = some s' → FReachS f inp ispad T ws0 s'

end Wencry.Model.PipeFineSpurious
