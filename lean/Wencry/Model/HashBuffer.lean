/-
Model of kernel/hash/hashbuffer.{h,cpp}: `filebuffer64`, the refilling reader that feeds `getFileHash`.
`H` is HBUF_SZ (number of 64-byte units per refill); the production value comes from Generated.Consts.
-/
import Wencry.Basic
import Wencry.Model.Stdio
import Wencry.Model.Hash
namespace Wencry.Model.HashBuffer
open Wencry.Model.Stdio

structure FB where
  /-- HBUF_SZ -/
  H : Nat
  /-- the bytes fread into `b` by the last fill -/
  b : Bytes
  extra : Option Bytes
  total : Nat
  now : Nat
  tail : Nat
  fp : RFile

/-- constructor `filebuffer64(fp, printload, block)` -/
def FB.new (H : Nat) (fp : RFile) (block : Option Bytes) : FB :=
  let (fp, got) := fp.fread (H * 64)
  { H := H, b := got, extra := block.map (·.take 64), total := got.length / 64, now := 0, tail := got.length % 64, fp := fp }

/-- `read_buffer64(block)`: new state and the bytes copied out (`load_size` of them) -/
def FB.read (f : FB) : FB × Bytes :=
  match f.extra with
  | some e => ({ f with extra := none }, e)
  | none =>
    let f :=
      if f.now = f.H then
        let (fp, got) := f.fp.fread (f.H * 64)
        { f with b := got, total := got.length / 64, now := 0, tail := got.length % 64, fp := fp }
      else f
    let loadSize := if f.now ≥ f.total then f.tail else 64
    let tail' := if f.now = f.total then 0 else f.tail
    ({ f with tail := tail', now := f.now + 1 }, (f.b.drop (f.now * 64)).take loadSize)

def reader : Hash.Reader FB := { read := FB.read }

/-- iterations of the `getFileHash` loop that certainly suffice: one per 64 bytes still to come, the prefix block,
    the final short read and one per refill in between -/
def fuelFor (H : Nat) (fp : RFile) : Nat := fp.remaining / 64 + fp.remaining / (H * 64) + 4

end Wencry.Model.HashBuffer
