/-
Model of kernel/hash/{hashmaster.h,hashmaster.cpp,sha1.cpp,sha256.cpp,md5.cpp} (after repair F1: the bit
counter is 64 bits wide and the message length is captured before the extra padding block).
One definition per C++ function, same control structure and the code's own expressions.
-/
import Wencry.Basic
import Wencry.Generated.Tables
namespace Wencry.Model.Hash
open Wencry.Gen

/-- macro `lrot(x,i)` / `rrot(x,i)` of hashmaster.h -/
def lrot (x : W32) (i : Nat) : W32 := (x <<< i) ||| (x >>> (32 - i))
def rrot (x : W32) (i : Nat) : W32 := (x >>> i) ||| (x <<< (32 - i))

/-- macro `setbytes(b0,b1,b2,b3)` of hashmaster.h -/
def setbytes (b0 b1 b2 b3 : Byte) : W32 :=
  b0.zeroExtend 32 ||| (b1.zeroExtend 32 <<< 8) ||| (b2.zeroExtend 32 <<< 16) ||| (b3.zeroExtend 32 <<< 24)

def u8 (t : W32) : Byte := t.truncate 8

/-- `this->i[k]` : the union `s[64]`/`i[16]` read as a 32-bit word on a little-endian machine -/
def unionWord (a b c d : Byte) : W32 := setbytes a b c d

/-- the sixteen `i[k]` of a 64-byte block -/
def unionWords : Bytes → List W32
  | a :: b :: c :: d :: r => unionWord a b c d :: unionWords r
  | _ => []

/-- `w[i] = setbytes((u8_t)(t >> 24), (u8_t)(t >> 16), (u8_t)(t >> 8), t)` -/
def swapWord (t : W32) : W32 := setbytes (u8 (t >>> 24)) (u8 (t >>> 16)) (u8 (t >>> 8)) (u8 t)

/-- an algorithm as seen by the `Hashmaster` framework -/
structure Alg (σ : Type) where
  /-- `reset()` -/
  init : σ
  /-- effect of `getHash(input)` on `h` (input: 64 bytes) -/
  block : σ → Bytes → σ
  /-- the eight bytes stored at `temp[56..63]` from the 64-bit bit count -/
  lenBytes : W64 → Bytes
  /-- `getres` -/
  res : σ → Bytes

/-- the object: `h` and `totalsize` -/
structure HM (σ : Type) where
  h : σ
  total : W64

def reset {σ} (A : Alg σ) : HM σ := { h := A.init, total := 0 }

/-- `getHash(const u8_t *input)`: one full block, `addtotal(64)` -/
def getHashBlock {σ} (A : Alg σ) (s : HM σ) (input : Bytes) : HM σ :=
  { h := A.block s.h input, total := s.total + ((64 : W64) <<< 3) }

/-- `getHash(const u8_t *input, u32_t final_loadsize)` (n = final_loadsize < 64) -/
def getHashFinal {σ} (A : Alg σ) (s : HM σ) (input : Bytes) (n : Nat) : HM σ :=
  let s := { s with total := s.total + ((BitVec.ofNat 64 n) <<< 3) }
  let msgbits := s.total
  -- temp = zeros; memcpy(temp, input, n); temp[n] = 0x80
  let temp := input.take n ++ [0x80] ++ List.replicate (63 - n) 0
  if n ≥ 56 then
    let s := getHashBlock A s temp
    -- memset(temp, 0); temp[56..63] = length
    getHashBlock A s (List.replicate 56 0 ++ A.lenBytes msgbits)
  else
    getHashBlock A s (temp.take 56 ++ A.lenBytes msgbits)

/-- the loop of `getStringHash`: full blocks while `nnow >= 64`, then the final call -/
def stringLoop {σ} (A : Alg σ) (s : HM σ) (str : Bytes) : HM σ :=
  if _h : 64 ≤ str.length then stringLoop A (getHashBlock A s (str.take 64)) (str.drop 64)
  else getHashFinal A s str str.length
termination_by str.length
decreasing_by simp [List.length_drop]; omega

/-- `Hashmaster::getStringHash(string, length, hashres)` -/
def getStringHash {σ} (A : Alg σ) (str : Bytes) : Bytes := A.res (stringLoop A (reset A) str).h

/-- `buffer64::read_buffer64` as seen by `getFileHash`: new buffer state and the bytes handed out (at most 64) -/
structure Reader (β : Type) where
  read : β → β × Bytes

/-- the `while (true)` loop of `getFileHash`; `fuel` bounds the number of iterations (the caller supplies enough,
    see `Model.HashBuffer`) and running out of fuel is reported as `none` -/
def fileLoop {σ β} (A : Alg σ) (R : Reader β) : Nat → HM σ → β → Option (HM σ × β)
  | 0, _, _ => none
  | fuel + 1, s, buf =>
    let (buf, blk) := R.read buf
    if blk.length ≠ 64 then some (getHashFinal A s blk blk.length, buf)
    else fileLoop A R fuel (getHashBlock A s blk) buf

/-- `Hashmaster::getFileHash(buffer, hashres)` -/
def getFileHash {σ β} (A : Alg σ) (R : Reader β) (fuel : Nat) (buf : β) : Option (Bytes × β) :=
  (fileLoop A R fuel (reset A) buf).map fun (s, b) => (A.res s.h, b)

/-- big-endian store of the count: `temp[56+i] = (u8_t)(msgbits >> ((7 - i) << 3))` -/
def lenBE (n : W64) : Bytes := (List.range 8).map fun i => (n >>> ((7 - i) <<< 3)).truncate 8
/-- little-endian store: `temp[56+i] = (u8_t)(msgbits >> (i << 3))` -/
def lenLE (n : W64) : Bytes := (List.range 8).map fun i => (n >>> (i <<< 3)).truncate 8

/-- `hashout[i] = (u8_t)(h[i >> 2] >> ((3 - (i & 3)) << 3))` for the four bytes of one word -/
def wordBE (w : W32) : Bytes := [u8 (w >>> 24), u8 (w >>> 16), u8 (w >>> 8), u8 w]
/-- `hashout[i] = (u8_t)(h[i >> 2] >> ((i & 3) << 3))` -/
def wordLE (w : W32) : Bytes := [u8 w, u8 (w >>> 8), u8 (w >>> 16), u8 (w >>> 24)]

/-! ### sha1.cpp -/
namespace Sha1

def HASH_A (h1 h2 h3 : W32) : W32 := (h1 &&& h2) ||| (~~~h1 &&& h3)
def HASH_B (h1 h2 h3 : W32) : W32 := h1 ^^^ h2 ^^^ h3
def HASH_C (h1 h2 h3 : W32) : W32 := (h1 &&& h2) ||| (h1 &&& h3) ||| (h2 &&& h3)

/-- `getwdata()` -/
def getwdata (input : Bytes) : List W32 :=
  let w0 := (unionWords input).map swapWord
  (List.range 64).foldl (fun w k =>
    let i := k + 16
    let t := w.getD (i - 3) 0 ^^^ w.getD (i - 8) 0 ^^^ w.getD (i - 14) 0 ^^^ w.getD (i - 16) 0
    w ++ [lrot t 1]) w0

abbrev St := W32 × W32 × W32 × W32 × W32

/-- one iteration of the 80-round loop on `temph[0..4]` -/
def round (w : List W32) (th : St) (i : Nat) : St :=
  let (t0, t1, t2, t3, t4) := th
  let f :=
    if i < 20 then HASH_A t1 t2 t3 + 0x5A827999
    else if i < 40 then HASH_B t1 t2 t3 + 0x6ED9EBA1
    else if i < 60 then HASH_C t1 t2 t3 + 0x8F1BBCDC
    else HASH_B t1 t2 t3 + 0xCA62C1D6
  let temp := lrot t0 5 + f + t4 + w.getD i 0
  (temp, t0, lrot t1 30, t2, t3)

/-- `sha1hash::getHash(input)` on `h` -/
def block (h : St) (input : Bytes) : St :=
  let w := getwdata input
  let (a, b, c, d, e) := (List.range 80).foldl (round w) h
  (h.1 + a, h.2.1 + b, h.2.2.1 + c, h.2.2.2.1 + d, h.2.2.2.2 + e)

def init : St :=
  (sha1Init.getD 0 0, sha1Init.getD 1 0, sha1Init.getD 2 0, sha1Init.getD 3 0, sha1Init.getD 4 0)

def res (h : St) : Bytes := wordBE h.1 ++ wordBE h.2.1 ++ wordBE h.2.2.1 ++ wordBE h.2.2.2.1 ++ wordBE h.2.2.2.2

def alg : Alg St := { init := init, block := block, lenBytes := lenBE, res := res }

end Sha1

/-! ### sha256.cpp -/
namespace Sha256

def CHOOSE (e f g : W32) : W32 := (e &&& f) ^^^ (~~~e &&& g)
def MAJORITY (a b c : W32) : W32 := (a &&& b) ^^^ (a &&& c) ^^^ (b &&& c)
def SIGMA0 (x : W32) : W32 := rrot x 2 ^^^ rrot x 13 ^^^ rrot x 22
def SIGMA1 (x : W32) : W32 := rrot x 6 ^^^ rrot x 11 ^^^ rrot x 25
def GAMMA0 (x : W32) : W32 := rrot x 7 ^^^ rrot x 18 ^^^ (x >>> 3)
def GAMMA1 (x : W32) : W32 := rrot x 17 ^^^ rrot x 19 ^^^ (x >>> 10)

def getwdata (input : Bytes) : List W32 :=
  let w0 := (unionWords input).map swapWord
  (List.range 48).foldl (fun w k =>
    let i := k + 16
    let t1 := w.getD (i - 2) 0
    let t2 := w.getD (i - 15) 0
    w ++ [GAMMA1 t1 + w.getD (i - 7) 0 + GAMMA0 t2 + w.getD (i - 16) 0]) w0

abbrev St := W32 × W32 × W32 × W32 × W32 × W32 × W32 × W32

def round (w : List W32) (th : St) (i : Nat) : St :=
  let (h0, h1, h2, h3, h4, h5, h6, h7) := th
  let t1 := h7 + SIGMA1 h4 + CHOOSE h4 h5 h6 + sha256K.getD i 0 + w.getD i 0
  let t2 := SIGMA0 h0 + MAJORITY h0 h1 h2
  (t1 + t2, h0, h1, h2, h3 + t1, h4, h5, h6)

def block (h : St) (input : Bytes) : St :=
  let w := getwdata input
  let (a, b, c, d, e, f, g, hh) := (List.range 64).foldl (round w) h
  (h.1 + a, h.2.1 + b, h.2.2.1 + c, h.2.2.2.1 + d, h.2.2.2.2.1 + e, h.2.2.2.2.2.1 + f, h.2.2.2.2.2.2.1 + g, h.2.2.2.2.2.2.2 + hh)

def init : St :=
  (sha256Init.getD 0 0, sha256Init.getD 1 0, sha256Init.getD 2 0, sha256Init.getD 3 0,
   sha256Init.getD 4 0, sha256Init.getD 5 0, sha256Init.getD 6 0, sha256Init.getD 7 0)

def res (h : St) : Bytes :=
  wordBE h.1 ++ wordBE h.2.1 ++ wordBE h.2.2.1 ++ wordBE h.2.2.2.1 ++
  wordBE h.2.2.2.2.1 ++ wordBE h.2.2.2.2.2.1 ++ wordBE h.2.2.2.2.2.2.1 ++ wordBE h.2.2.2.2.2.2.2

def alg : Alg St := { init := init, block := block, lenBytes := lenBE, res := res }

end Sha256

/-! ### md5.cpp : the 64 `FF/GG/HH/II` lines are taken from the source (Generated.md5Lines) -/
namespace Md5

def F (x y z : W32) : W32 := (x &&& y) ||| (~~~x &&& z)
def G (x y z : W32) : W32 := (x &&& z) ||| (y &&& ~~~z)
def H (x y z : W32) : W32 := x ^^^ y ^^^ z
def I (x y z : W32) : W32 := y ^^^ (x ||| ~~~z)

abbrev St := W32 × W32 × W32 × W32

/-- the local variables a, b, c, d by index -/
def reg (s : St) : Nat → W32
  | 0 => s.1 | 1 => s.2.1 | 2 => s.2.2.1 | _ => s.2.2.2

def setReg (s : St) (i : Nat) (v : W32) : St :=
  match i with
  | 0 => (v, s.2.1, s.2.2.1, s.2.2.2)
  | 1 => (s.1, v, s.2.2.1, s.2.2.2)
  | 2 => (s.1, s.2.1, v, s.2.2.2)
  | _ => (s.1, s.2.1, s.2.2.1, v)

/-- one macro line `XX(a, b, c, d, x[k], s, ac)`: `a += f(b,c,d) + x + ac; a = lrot(a, s); a += b;` -/
def line (x : List W32) (st : St) (l : Md5Line) : St :=
  let a := reg st l.r0; let b := reg st l.r1; let c := reg st l.r2; let d := reg st l.r3
  let f := match l.fn with
    | 0 => F b c d | 1 => G b c d | 2 => H b c d | _ => I b c d
  let a := a + (f + x.getD l.k 0 + l.ac)
  let a := lrot a l.s
  setReg st l.r0 (a + b)

/-- `md5hash::getHash(input)` on `h` -/
def block (h : St) (input : Bytes) : St :=
  let x := unionWords input
  let (a, b, c, d) := md5Lines.foldl (line x) h
  (h.1 + a, h.2.1 + b, h.2.2.1 + c, h.2.2.2 + d)

def init : St := (md5Init.getD 0 0, md5Init.getD 1 0, md5Init.getD 2 0, md5Init.getD 3 0)

def res (h : St) : Bytes := wordLE h.1 ++ wordLE h.2.1 ++ wordLE h.2.2.1 ++ wordLE h.2.2.2

def alg : Alg St := { init := init, block := block, lenBytes := lenLE, res := res }

end Md5

/-- hash type numbers of the file format: 0 SHA-1, 1 MD5, 2 SHA-256 (`HashFactory::getType` + `getHasher`);
    results for other numbers are the NULL the factory returns -/
def hlen : Nat → Option Nat
  | 0 => some 20 | 1 => some 16 | 2 => some 32 | _ => none

def stringHash (htype : Nat) (m : Bytes) : Option Bytes :=
  match htype with
  | 0 => some (getStringHash Sha1.alg m)
  | 1 => some (getStringHash Md5.alg m)
  | 2 => some (getStringHash Sha256.alg m)
  | _ => none

def fileHash {β} (htype : Nat) (R : Reader β) (fuel : Nat) (buf : β) : Option (Bytes × β) :=
  match htype with
  | 0 => getFileHash Sha1.alg R fuel buf
  | 1 => getFileHash Md5.alg R fuel buf
  | 2 => getFileHash Sha256.alg R fuel buf
  | _ => none

end Wencry.Model.Hash
