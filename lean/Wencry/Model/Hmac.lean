/-
Model of class `hmac` in kernel/fheader.{h,cpp}: getres / gethmac / cmphmac / writeFileHmac.
-/
import Wencry.Basic
import Wencry.Generated.Consts
import Wencry.Model.Stdio
import Wencry.Model.Hash
import Wencry.Model.HashBuffer
namespace Wencry.Model.Hmac
open Wencry.Model.Stdio Wencry.Model.HashBuffer

def ipad : Byte := BitVec.ofNat 8 Wencry.Gen.c_ipad
def opad : Byte := BitVec.ofNat 8 Wencry.Gen.c_opad

/-- `key1`: 64 zero bytes with the 16 key bytes copied in front -/
def key1 (key : Bytes) : Bytes := key.take 16 ++ List.replicate (64 - (key.take 16).length) 0

/-- `hmac::getres(hashtype, key, fp)`: the tag, and the stream as left behind (read to the end).
    `none` = unknown hash type (the factory returns NULL and the code dereferences it). -/
def getres (H : Nat) (htype : Nat) (key : Bytes) (fp : RFile) : Option (Bytes × RFile) :=
  let k := key1 key
  let h1 := k.map (· ^^^ ipad)
  let fuel := fuelFor H fp
  match Hash.fileHash htype reader fuel (FB.new H fp (some h1)) with
  | none => none
  | some (inner, fb) =>
    let h2 := k.map (· ^^^ opad) ++ inner
    (Hash.stringHash htype h2).map fun t => (t, fb.fp)

/-- `hmac::cmphmac`: compares `length` bytes of the stored tag -/
def cmphmac (H : Nat) (htype : Nat) (key : Bytes) (fp : RFile) (stored : Bytes) : Option Bool :=
  (getres H htype key fp).map fun (t, _) => decide (stored.take t.length = t)

end Wencry.Model.Hmac
