/-
Model of the multithreaded buffer pipeline (kernel/multi_aes/multi_buffergroup.{h,cpp}, multicry.cpp) as a labelled
transition system, after repairs F2 (workers wait for their first load) and F3.

One step per critical section of `bufferctrl` (the per-buffer mutex makes those atomic: trusted base) and one step per
unsynchronised access (`get_entry`, `cmpstate`, `runcry` on a block, `export_buffer`, `load_buffer`, `turn_iter`).
Condition variables are explicit: a thread whose wait predicate is false goes to a `sleep…` pc from which only the matching
`notify_all` moves it. Thread ids: `none` = the I/O (buffer maintenance) thread, `some i` = worker i.

The control part (everything the protocol decisions depend on) is kept apart from the data part (`dat`, `fin`, `ws`, `out`,
ghost `cid`, `log`, `nexp`), which control never reads.
The input is abstract: `inp p` is the result of the p-th `load_buffer` call; the per-stream transformer is any
`f : σ → Block → σ × Block`.
-/
import Wencry.Basic
import Wencry.Model.IoBuffer
namespace Wencry.Model.Pipe
open Wencry.Model.IoBuffer

/-- `bufstate_t` -/
inductive BSt | empty | updating | ready | inv
  deriving DecidableEq, Repr, Inhabited

/-- worker program points (multiruncrypt_file / require_buffer_entry):
initWait: `wait_buffer_loaded` (lock, test READY/INV) · initSleep: asleep on cv_ready there ·
fetch: first `get_entry` of `require_buffer_entry` · process: `mode.runcry(block)` · setUpd: `set_update` ·
waitRdy: `wait_ready` (lock, test) · sleepRdy: asleep on cv_ready · afterWait: `cmpstate(READY)` ·
fetch2: second `get_entry` · done: returned -/
inductive WPc | initWait | initSleep | fetch | process | setUpd | waitRdy | sleepRdy | afterWait | fetch2 | done
  deriving DecidableEq, Repr, Inhabited

/-- I/O thread program points (run_buffer / buffer_update / turn_iter):
waitUpd: `wait_update` (lock, test UPDATING/EMPTY) · sleepUpd: asleep on cv_update · chk: `cmpstate(UPDATING)` ·
exporting: `export_buffer` · loadDecide: `if (!over)` · loading: `load_buffer` · setRdy: `over = …; set_ready(…)` ·
iter: `turn_iter` · done: returned -/
inductive IoPc | waitUpd | sleepUpd | chk | exporting | loadDecide | loading | setRdy | iter | done
  deriving DecidableEq, Repr, Inhabited

/-- control word and cursor of one buffer -/
structure Buf where
  st : BSt
  total : Nat
  now : Nat
  deriving Repr, Inhabited

structure St (σ : Type) where
  -- control
  buf : Nat → Buf
  wpc : Nat → WPc
  iopc : IoPc
  turn : Nat
  over : Bool
  lst : LSt
  pos : Nat
  live : Nat
  -- data
  dat : Nat → List Block
  fin : Nat → Bool
  ws : Nat → σ
  out : Bytes
  -- ghost
  cid : Nat → Nat
  nexp : Nat
  log : List (Nat × Nat × Nat)
  viol : Bool

def upd {α} (f : Nat → α) (i : Nat) (a : α) : Nat → α := fun j => if j = i then a else f j
@[simp] theorem upd_same {α} (f : Nat → α) (i : Nat) (a : α) : upd f i a i = a := by simp [upd]
@[simp] theorem upd_other {α} (f : Nat → α) (i j : Nat) (a : α) (h : j ≠ i) : upd f i a j = f j := by simp [upd, h]

/-- input: result of the p-th `load_buffer` call (blocks placed in the buffer, load state) -/
abbrev Input := Nat → List Block × LSt

def Input.WF (inp : Input) : Prop :=
  ∀ p, ((inp p).2 ≠ .nodata → 1 ≤ (inp p).1.length) ∧ ((inp p).2 = .nodata → (inp p).1.length = 0)

/-- the I/O thread is inside its region for buffer i -/
def ioIn {σ} (s : St σ) (i : Nat) : Prop :=
  s.turn = i ∧ (s.iopc = .chk ∨ s.iopc = .exporting ∨ s.iopc = .loadDecide ∨ s.iopc = .loading ∨ s.iopc = .setRdy)

instance {σ} (s : St σ) (i : Nat) : Decidable (ioIn s i) := by unfold ioIn; infer_instance

/-- worker i is at a point that touches the contents of its buffer -/
def wTouches {σ} (s : St σ) (i : Nat) : Prop := s.wpc i = .process

instance {σ} (s : St σ) (i : Nat) : Decidable (wTouches s i) := by unfold wTouches; infer_instance

variable {σ : Type}

def stepW (f : σ → Block → σ × Block) (s : St σ) (i : Nat) : Option (St σ) :=
  let b := s.buf i
  match s.wpc i with
  | .initWait => some { s with wpc := upd s.wpc i (if b.st = .ready ∨ b.st = .inv then .fetch else .initSleep) }
  | .initSleep => none
  | .fetch =>
      if b.now < b.total then some { s with buf := upd s.buf i { b with now := b.now + 1 }, wpc := upd s.wpc i .process }
      else some { s with wpc := upd s.wpc i .setUpd }
  | .process =>
      let k := b.now - 1
      let r := f (s.ws i) ((s.dat i).getD k Block.zero)
      some { s with wpc := upd s.wpc i .fetch, ws := upd s.ws i r.1, dat := upd s.dat i ((s.dat i).set k r.2),
                    log := s.log ++ [(i, s.cid i, k)],
                    viol := s.viol || decide (b.st ≠ .ready) || decide (ioIn s i) }
  | .setUpd =>
      if b.st = .ready then
        some { s with buf := upd s.buf i { b with st := .updating }, wpc := upd s.wpc i .waitRdy,
                      iopc := if s.iopc = .sleepUpd ∧ s.turn = i then .waitUpd else s.iopc }
      else some { s with wpc := upd s.wpc i .waitRdy }
  | .waitRdy => some { s with wpc := upd s.wpc i (if b.st = .ready ∨ b.st = .inv then .afterWait else .sleepRdy) }
  | .sleepRdy => none
  | .afterWait => some { s with wpc := upd s.wpc i (if b.st = .ready then .fetch2 else .done) }
  | .fetch2 =>
      if b.now < b.total then some { s with buf := upd s.buf i { b with now := b.now + 1 }, wpc := upd s.wpc i .process }
      else some { s with wpc := upd s.wpc i .done }
  | .done => none

/-- `turn_iter`'s do-while: first index after `t` (cyclically, at most `fuel` tries) whose buffer is not INV -/
def nextTurn (T : Nat) (buf : Nat → Buf) (t : Nat) : Nat → Nat
  | 0 => t
  | fuel+1 => let t' := (t + 1) % T; if (buf t').st ≠ .inv then t' else nextTurn T buf t' fuel

/-- effect of `cv_ready.notify_all()` on a worker -/
def wake (p : WPc) : WPc := match p with | .sleepRdy => .waitRdy | .initSleep => .initWait | p => p

/-- the `iobuffer` of buffer i as `export_buffer` sees it -/
def ioBufOf (s : St σ) (i : Nat) : IoBuf :=
  { blocks := s.dat i, total := (s.buf i).total, now := (s.buf i).now, tail := 0, isfinal := s.fin i }

def stepIo (inp : Input) (ispad : Bool) (T : Nat) (s : St σ) : Option (St σ) :=
  let i := s.turn
  let b := s.buf i
  match s.iopc with
  | .waitUpd => some { s with iopc := if b.st = .updating ∨ b.st = .empty then .chk else .sleepUpd }
  | .sleepUpd => none
  | .chk => some { s with iopc := if b.st = .updating then .exporting else .loadDecide }
  | .exporting => some { s with iopc := .loadDecide, out := s.out ++ exportBytes (ioBufOf s i) ispad, nexp := s.nexp + 1,
                                viol := s.viol || decide (wTouches s i) }
  | .loadDecide => if s.over then some { s with lst := .nodata, iopc := .setRdy } else some { s with iopc := .loading }
  | .loading => some { s with buf := upd s.buf i { b with total := (inp s.pos).1.length, now := 0 }, lst := (inp s.pos).2,
                              dat := upd s.dat i (inp s.pos).1, fin := upd s.fin i (s.fin i || decide ((inp s.pos).2 = .final)),
                              cid := upd s.cid i s.pos,
                              pos := s.pos + 1, iopc := .setRdy, viol := s.viol || decide (wTouches s i) }
  | .setRdy =>
      if s.lst ≠ .nodata then
        some { s with over := decide (s.lst ≠ .full), buf := upd s.buf i { b with st := .ready },
                      wpc := upd s.wpc i (wake (s.wpc i)), iopc := .iter }
      else
        some { s with over := true, buf := upd s.buf i { b with st := .inv }, live := s.live - 1,
                      wpc := upd s.wpc i (wake (s.wpc i)), iopc := .iter }
  | .iter => if s.live = 0 then some { s with iopc := .done }
             else some { s with turn := nextTurn T s.buf s.turn T, iopc := .waitUpd }
  | .done => none

def init (T : Nat) (ws0 : Nat → σ) : St σ :=
  { buf := fun _ => ⟨.empty, 0, 0⟩, wpc := fun _ => .initWait, iopc := .waitUpd, turn := 0,
    over := false, lst := .nodata, pos := 0, live := T,
    dat := fun _ => [], fin := fun _ => false, ws := ws0, out := [], cid := fun _ => 0, nexp := 0, log := [], viol := false }

/-- thread ids: `none` = I/O thread, `some i` = worker i -/
def step (f : σ → Block → σ × Block) (inp : Input) (ispad : Bool) (T : Nat) (s : St σ) : Option Nat → Option (St σ)
  | none => stepIo inp ispad T s
  | some i => if i < T then stepW f s i else none

/-- run a schedule (list of thread ids); a step that is not enabled is skipped -/
def runSched (f : σ → Block → σ × Block) (inp : Input) (ispad : Bool) (T : Nat) (s : St σ) : List (Option Nat) → St σ
  | [] => s
  | t :: ts => runSched f inp ispad T ((step f inp ispad T s t).getD s) ts

def allDone (T : Nat) (s : St σ) : Prop := s.iopc = .done ∧ ∀ i, i < T → s.wpc i = .done

/-! ### Reference: what the sequential pipeline produces for the same input -/

/-- feed a list of blocks through a transformer -/
def runF (f : σ → Block → σ × Block) (s : σ) : List Block → σ × List Block
  | [] => (s, [])
  | b :: bs => let r := f s b; let r2 := runF f r.1 bs; (r2.1, r.2 :: r2.2)

/-- number of data-carrying loads: index of the first load that is not FULL, plus one if that load is FINAL -/
def nChunks (inp : Input) (P : Nat) : Nat := if (inp P).2 = .final then P + 1 else P

/-- stream state of worker (c mod T) just before chunk c: after chunks c mod T, c mod T + T, …, c - T -/
def refBefore (f : σ → Block → σ × Block) (inp : Input) (T : Nat) (ws0 : Nat → σ) (c : Nat) : σ :=
  if h : c < T ∨ T = 0 then ws0 c else
    (runF f (refBefore f inp T ws0 (c - T)) (inp (c - T)).1).1
termination_by c
decreasing_by omega

/-- transformed blocks of chunk c -/
def refOut (f : σ → Block → σ × Block) (inp : Input) (T : Nat) (ws0 : Nat → σ) (c : Nat) : List Block :=
  (runF f (refBefore f inp T ws0 c) (inp c).1).2

/-- bytes exported for chunk c by the sequential pipeline -/
def refExport (f : σ → Block → σ × Block) (inp : Input) (ispad : Bool) (T : Nat) (ws0 : Nat → σ) (c : Nat) : Bytes :=
  exportBytes { blocks := refOut f inp T ws0 c, total := (inp c).1.length, now := (inp c).1.length, tail := 0,
                isfinal := decide ((inp c).2 = .final) } ispad

/-- output of the sequential pipeline: chunks 0 … n-1 in order -/
def seqOut (f : σ → Block → σ × Block) (inp : Input) (ispad : Bool) (T : Nat) (ws0 : Nat → σ) (n : Nat) : Bytes :=
  ((List.range n).map (refExport f inp ispad T ws0)).flatten

/-! ### Conformance replay (driver protocol): the harness runs the real pipeline under a controlled scheduler and reports,
for every scheduling interval, which thread ran and the shared observables afterwards; each interval must correspond to
zero or more steps of the same model thread ending in a state with the same observables. -/

/-- toy per-stream transformer used by the schedule harness on both sides: a counter, xor-ed into every byte -/
def toyF (s : Nat) (b : Block) : Nat × Block := (s + 1, b.map (· ^^^ BitVec.ofNat 8 (s + 1)))

def fnv1a (bs : Bytes) : Nat := bs.foldl (fun h b => ((h ^^^ b.toNat) * 16777619) % 4294967296) 2166136261

def bstNum : BSt → Nat | .empty => 0 | .updating => 1 | .ready => 2 | .inv => 3

/-- shared observables: per buffer (state, total, now, isfinal, hash of its first `total` blocks), the exported bytes, the stream counters -/
def obsStr (T : Nat) (s : St Nat) : String :=
  let bufs := (List.range T).map fun i =>
    let b := s.buf i
    s!"{bstNum b.st},{b.total},{b.now},{if s.fin i then 1 else 0},{fnv1a (joinBlocks ((s.dat i).take b.total))}"
  let wss := (List.range T).map fun i => toString (s.ws i)
  s!"{";".intercalate bufs}|{s.out.length},{fnv1a s.out}|{",".intercalate wss}"

def parseLoad? (w : String) : Option (List Block × LSt) :=
  match w.splitOn ":" with
  | [l, h] =>
    match unhex? h with
    | none => none
    | some bs =>
      let (bl, t) := splitBlocks bs
      if !t.isEmpty then none else
      match l with
      | "f" => some (bl, .full) | "F" => some (bl, .final) | "n" => some (bl, .nodata) | _ => none
  | _ => none

def parseInterval? (w : String) : Option (Option Nat × String) :=
  match w.splitOn "/" with
  | [t, o] => if t = "io" then some (none, o) else t.toNat?.map fun n => (some n, o)
  | _ => none

/-- advance thread `tid` by 0..fuel steps until the observables equal `want` -/
def advance (inp : Input) (ispad : Bool) (T : Nat) (tid : Option Nat) (want : String) : Nat → St Nat → Option (St Nat)
  | 0, s => if obsStr T s = want then some s else none
  | fuel + 1, s =>
    if obsStr T s = want then some s
    else match step toyF inp ispad T s tid with
      | none => none
      | some s' => advance inp ispad T tid want fuel s'

def replay (inp : Input) (ispad : Bool) (T : Nat) : Nat → St Nat → List (Option Nat × String) → String
  | k, s, [] =>
    s!"ok {k} done={if s.iopc = .done ∧ (List.range T).all (fun i => s.wpc i = .done) then 1 else 0} viol={if s.viol then 1 else 0} nexp={s.nexp}"
  | k, s, (tid, want) :: rest =>
    match advance inp ispad T tid want 8 s with
    | some s' => replay inp ispad T (k + 1) s' rest
    | none => s!"reject@{k} model={obsStr T s}"

/-- `pipe <T> <ispad> <load> … ; <interval> …`; stream counters start at 100·i -/
def driverPipe (ws : List String) : String :=
  match ws with
  | T :: ip :: rest =>
    match T.toNat? with
    | none => "bad-op"
    | some T =>
      let loads := rest.takeWhile (· ≠ ";")
      let ivs := (rest.dropWhile (· ≠ ";")).drop 1
      match loads.mapM parseLoad?, ivs.mapM parseInterval? with
      | some ls, some is =>
        let inp : Input := fun p => ls.getD p ([], .nodata)
        replay inp (ip = "1") T 0 (init T (fun i => 100 * i)) is
      | _, _ => "bad-op"
  | _ => "bad-op"

end Wencry.Model.Pipe
