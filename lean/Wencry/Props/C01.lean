/-
C01 — Round trip: decrypt(encrypt(P)) == P for every length, mode and thread count.
The statements are about the file-level model (Model/File.lean), whose pipeline is the sequential one; that the threaded
pipeline writes exactly the same bytes under every schedule is C03 (`threads_write_the_file_model_output`).
-/
import Wencry.Proofs.Roundtrip
namespace Wencry.Props.C01
open Wencry Wencry.Model Wencry.Model.File Wencry.Model.Stdio

/-- for every plaintext (every length ≥ 0), 16-byte key, seed, cipher mode 0-4, hash mode 0-2, worker count T ≥ 1 (the same on both
    sides), chunk size B ≥ 1 and hash refill size H ≥ 1: encryption reports success, and decryption of its output reports success
    and reproduces the plaintext exactly -/
theorem roundtrip (cfg : Cfg) (hT : 1 ≤ cfg.T) (hB : 1 ≤ cfg.B) (hH : 1 ≤ cfg.H) (ctype htype : Nat) (hc : ctype ≤ 4) (hh : htype ≤ 2)
    (key : Block) (seed plain : Bytes) :
    ∃ f, encrypt cfg ctype htype key seed plain = .ok f ∧ ∃ out, decrypt cfg key f.data = .ok (0, out) ∧ out.data = plain := by
  obtain ⟨f, hf⟩ := Proofs.Roundtrip.encrypt_ok cfg hT hB hH ctype htype hc hh key seed plain
  exact ⟨f, hf, Proofs.Roundtrip.roundtrip cfg hT hB hH ctype htype hc hh key seed plain f hf⟩

/-- … and verification accepts it -/
theorem verify_accepts_encrypted (cfg : Cfg) (hT : 1 ≤ cfg.T) (hB : 1 ≤ cfg.B) (hH : 1 ≤ cfg.H) (ctype htype : Nat) (hc : ctype ≤ 4) (hh : htype ≤ 2)
    (key : Block) (seed plain : Bytes) (f : WFile) (he : encrypt cfg ctype htype key seed plain = .ok f) :
    executeVerify cfg key f.data = .ok 0 :=
  Proofs.Roundtrip.verify_encrypt cfg hT hB hH ctype htype hc hh key seed plain f he

/-- non-vacuity: the production configuration satisfies the hypotheses -/
example : 1 ≤ Cfg.production.T ∧ 1 ≤ Cfg.production.B ∧ 1 ≤ Cfg.production.H := by decide

end Wencry.Props.C01
