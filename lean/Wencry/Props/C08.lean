/-
C08 — The authentication tag is RFC 2104 HMAC over IVs+ciphertext, stored at offset 10.
-/
import Wencry.Proofs.HmacCorrect
namespace Wencry.Props.C08
open Wencry Wencry.Model Wencry.Model.Stdio

/-- for every key, hash mode and file position the tag is RFC 2104 HMAC over exactly the bytes from the position to EOF -/
theorem tag_is_rfc2104 (H : Nat) (hH : 1 ≤ H) (h : Nat) (hh : h ≤ 2) (key : Bytes) (hk : key.length = 16) (fp : RFile)
    (hpos : fp.pos ≤ fp.data.length) (hm : fp.data.length < 2 ^ 60) :
    ∃ fp', Hmac.getres H h key fp = some (Spec.HMAC.hmac (Spec.HMAC.hashOf h) key (fp.data.drop fp.pos), fp') ∧ fp'.data = fp.data :=
  Proofs.HmacCorrect.getres_eq H hH h hh key hk fp hpos hm

/-- tag comparison accepts if and only if every tag byte matches (and looks at nothing else) -/
theorem compare_all_tag_bytes (H : Nat) (hH : 1 ≤ H) (h : Nat) (hh : h ≤ 2) (key : Bytes) (hk : key.length = 16) (fp : RFile)
    (hpos : fp.pos ≤ fp.data.length) (hm : fp.data.length < 2 ^ 60) (stored : Bytes) :
    Hmac.cmphmac H h key fp stored = some (decide (stored.take (Spec.HMAC.hmac (Spec.HMAC.hashOf h) key (fp.data.drop fp.pos)).length
        = Spec.HMAC.hmac (Spec.HMAC.hashOf h) key (fp.data.drop fp.pos))) :=
  Proofs.HmacCorrect.cmphmac_iff H hH h hh key hk fp hpos hm stored

end Wencry.Props.C08
