/-
C08 — The authentication tag is RFC 2104 HMAC over IVs+ciphertext, stored at offset 10.
-/
import Wencry.Proofs.HmacCorrect
namespace Wencry.Props.C08
open Wencry Wencry.Model Wencry.Model.Stdio

/-- for every key, hash mode and file position the tag is RFC 2104 HMAC over exactly the bytes from the position to EOF -/
theorem tag_is_rfc2104 (H : Nat) (hH : 1 ≤ H) (h : Nat) (hh : h ≤ 2) (key : Bytes) (hk : key.length = 16) (fp : RFile)
    (hpos : fp.pos ≤ fp.data.length) (hm : fp.data.length < 2 ^ 60) :
    ∃ fp', Hmac.getres H h key fp = some (Spec.HMAC.hmac (Spec.HMAC.hashOf h) key (fp.data.drop fp.pos), fp') ∧ fp'.data = fp.data :=
  Proofs.HmacCorrect.getres_eq H hH h hh key hk fp hpos hm

/-- tag comparison accepts if and only if every tag byte matches (and looks at nothing else) -/
theorem compare_all_tag_bytes (H : Nat) (hH : 1 ≤ H) (h : Nat) (hh : h ≤ 2) (key : Bytes) (hk : key.length = 16) (fp : RFile)
    (hpos : fp.pos ≤ fp.data.length) (hm : fp.data.length < 2 ^ 60) (stored : Bytes) :
    Hmac.cmphmac H h key fp stored = some (decide (stored.take (Spec.HMAC.hmac (Spec.HMAC.hashOf h) key (fp.data.drop fp.pos)).length
        = Spec.HMAC.hmac (Spec.HMAC.hashOf h) key (fp.data.drop fp.pos))) :=
  Proofs.HmacCorrect.cmphmac_iff H hH h hh key hk fp hpos hm stored

/-- the tag has the digest size of the hash mode — 20, 16 or 32 bytes — for every key and text, so it always fits the 32 bytes
    reserved at offset 10 (and `compare_all_tag_bytes` compares exactly that many bytes) -/
theorem tag_length (h : Nat) (key text : Bytes) : (Spec.HMAC.hmac (Spec.HMAC.hashOf h) key text).length = Spec.HMAC.tagLen h := by
  unfold Spec.HMAC.hmac
  rcases h with _ | _ | h
  · simp [Spec.HMAC.hashOf, Spec.HMAC.tagLen, Spec.Hash.SHA1.hash, Spec.Hash.SHA1.digestBytes, Spec.Hash.be32Bytes]
  · simp [Spec.HMAC.hashOf, Spec.HMAC.tagLen, Spec.Hash.MD5.hash, Spec.Hash.MD5.digestBytes, Spec.Hash.le32Bytes]
  · simp [Spec.HMAC.hashOf, Spec.HMAC.tagLen, Spec.Hash.SHA256.hash, Spec.Hash.SHA256.digestBytes, Spec.Hash.be32Bytes]
theorem tag_fits_reserved_area (h : Nat) (key text : Bytes) : (Spec.HMAC.hmac (Spec.HMAC.hashOf h) key text).length ≤ 32 := by
  rw [tag_length]; unfold Spec.HMAC.tagLen; split <;> omega

end Wencry.Props.C08
