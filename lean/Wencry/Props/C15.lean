/-
C15 — Operations repeated in one process behave as in a fresh process.
The model of the process-wide state is Model/Proc.lean; that every pipeline run ends with every buffer retired (so the live
counter returns to its starting value) is C04 (`live_zero_at_end`), that the singleton is deleted on both paths is read off
kernel/cry.cpp and checked on the real code after every operation of every history by the harness (hook H3).
-/
import Wencry.Model.Proc
import Wencry.Model.Pipe
import Wencry.Proofs.GetoptCorrect
namespace Wencry.Props.C15
open Wencry Wencry.Model.Proc

/-- the clean state: no singleton, live counter 0 -/
def Clean (s : PState) : Prop := s = PState.fresh

/-- every operation, on every path (success, failed verification, malformed input), leaves the process state clean and
    returns exactly what it returns in a fresh process -/
theorem op_preserves_clean_and_result (s : PState) (hs : Clean s) (op : Op) :
    Clean (runOp s op).1 ∧ (runOp s op).2 = (runOp PState.fresh op).2 ∧ (runOp s op).2 = fileResult op := by
  subst hs
  unfold runOp
  cases h : pipelineThreads op with
  | none => simp [Clean]
  | some T => simp [Clean, PState.fresh]

/-- any finite history: the i-th operation gives the same result and output as if run alone in a fresh process -/
theorem history_equals_fresh (ops : List Op) :
    (runOps PState.fresh ops).2 = ops.map (fun op => (runOp PState.fresh op).2) ∧ Clean (runOps PState.fresh ops).1 := by
  suffices h : ∀ s, Clean s → (runOps s ops).2 = ops.map (fun op => (runOp PState.fresh op).2) ∧ Clean (runOps s ops).1 from h _ rfl
  induction ops with
  | nil => intro s hs; exact ⟨rfl, hs⟩
  | cons op ops ih =>
    intro s hs
    obtain ⟨h1, h2, _⟩ := op_preserves_clean_and_result s hs op
    obtain ⟨i1, i2⟩ := ih _ h1
    exact ⟨by simp [runOps, i1, h2], by simpa [runOps] using i2⟩

/-- why the invariant matters: from a state that is not clean a pipeline operation does NOT behave as in a fresh process -/
theorem dirty_state_is_observable (s : PState) (hs : s.hasInstance = true ∨ s.live ≠ 0) (op : Op) (T : Nat) (hp : pipelineThreads op = some T) :
    (runOp s op).2 = .stale := by
  unfold runOp
  have hc : s.hasInstance = true ∨ s.live ≠ 0 := hs
  simp only [hp, hc, if_true]

/-- non-vacuity: encryption always runs the pipeline -/
example (cfg : Model.File.Cfg) (c h : Nat) (k : Block) (sd p : Bytes) : pipelineThreads (.enc cfg c h k sd p) = some cfg.T := rfl

/-! ### The getopt cursor (the third piece of process-wide state the property names)

Model/Getopt.lean makes glibc's scanner state explicit: `optind` and the private cursor into the option cluster being scanned.
`get_v_opt` re-initialises it on entry (`optind = 0`, repair F8), so a command line parsed after any history of accepted,
rejected or abandoned command lines gives what it gives in a fresh process. (`Props/Pinned.lean` shows that the pinned
`optind = 1` does not achieve this.) -/
section getopt
open Wencry.Model.Getopt

theorem command_line_independent_of_scanner_state (env : Env) (g : GState) (argv : List Bytes) :
    (getVOptArgv resetFixed env g argv).1 = (getVOptArgv resetFixed env GState.fresh argv).1 :=
  Proofs.Getopt.fixed_outcome_independent_of_state env g argv

theorem command_line_history_equals_fresh (env : Env) (g : GState) (hist : List (List Bytes)) :
    runHistory resetFixed env g hist = hist.map (fun argv => (getVOptArgv resetFixed env GState.fresh argv).1) :=
  Proofs.Getopt.fixed_history_equals_fresh env g hist

/-- non-vacuity: a scan abandoned inside the cluster `-edv` does leave a non-initial scanner state behind -/
example : (getVOptArgv resetFixed ⟨[], []⟩ GState.fresh [[87], [45, 101, 100, 118]]).2 = ⟨1, [118]⟩ := by decide

end getopt

/-! ### Why the singleton must be deleted: a pipeline run on a stale buffer group (kernel-checked instance)

`get_instance()` hands back the old group when `del_instance()` was skipped; its `over` flag is still true, so no chunk is ever
loaded: every buffer is retired at once and the run "succeeds" with an empty body. (This is what `Res.stale` in Model/Proc.lean
stands for; seeded defect C15-r4 produced exactly this on the real code after an encryption that failed on a full disk.) -/
section stale
open Wencry.Model.Pipe Wencry.Model.IoBuffer

theorem stale_singleton_yields_an_empty_body :
    let inp : Input := fun p => if p = 0 then ([Block.zero, Block.zero], .full) else if p = 1 then ([Block.zero], .final) else ([], .nodata)
    let rr := (List.replicate 60 [none, some 0, some 1]).flatten
    let fresh := runSched toyF inp true 2 (init 2 (fun _ => 0)) rr
    let stale := runSched toyF inp true 2 { init 2 (fun _ => 0) with over := true } rr
    (fresh.iopc = .done ∧ fresh.out = seqOut toyF inp true 2 (fun _ => 0) 2 ∧ fresh.out.length = 48) ∧
    (stale.iopc = .done ∧ stale.wpc 0 = .done ∧ stale.wpc 1 = .done ∧ stale.out = [] ∧ stale.pos = 0) := by
  decide +kernel

end stale

end Wencry.Props.C15
