/-
C07 — SHA-1, MD5 and SHA-256 digests are the standard ones for every message.
The hypothesis `length < 2^61` is the standards' own domain (bit length < 2^64).
-/
import Wencry.Generated.Consts
import Wencry.Proofs.HashCorrect
namespace Wencry.Props.C07
open Wencry Wencry.Model.Hash Wencry.Model.HashBuffer Wencry.Model.Stdio

/-- memory entry point (`getStringHash`): FIPS 180-4 / RFC 1321 digest, every message -/
theorem string_digest_is_standard (alg : Nat) (ha : alg ≤ 2) (m : Bytes) (hm : m.length < 2 ^ 61) :
    stringHash alg m = some (Spec.HMAC.hashOf alg m) := Proofs.HashCorrect.stringHash_eq alg ha m hm

theorem sha1_is_fips180 (m : Bytes) (hm : m.length < 2 ^ 61) : getStringHash Sha1.alg m = Spec.Hash.SHA1.hash m := Proofs.HashCorrect.sha1_string m hm
theorem sha256_is_fips180 (m : Bytes) (hm : m.length < 2 ^ 61) : getStringHash Sha256.alg m = Spec.Hash.SHA256.hash m := Proofs.HashCorrect.sha256_string m hm
theorem md5_is_rfc1321 (m : Bytes) (hm : m.length < 2 ^ 61) : getStringHash Md5.alg m = Spec.Hash.MD5.hash m := Proofs.HashCorrect.md5_string m hm

/-- file entry point (`getFileHash` through `filebuffer64`), any refill size H ≥ 1, optional 64-byte prefix block, any position:
    the digest of (prefix ++ file from its position to the end); the loop never runs out of the fuel the model supplies -/
theorem file_digest_is_standard (alg : Nat) (ha : alg ≤ 2) (H : Nat) (hH : 1 ≤ H) (fp : RFile) (hpos : fp.pos ≤ fp.data.length)
    (pre : Option Bytes) (hpre : ∀ p, pre = some p → p.length = 64) (hm : (pre.getD [] ++ fp.data.drop fp.pos).length < 2 ^ 61) :
    ∃ fb, fileHash alg reader (fuelFor H fp) (FB.new H fp pre) = some (Spec.HMAC.hashOf alg (pre.getD [] ++ fp.data.drop fp.pos), fb)
          ∧ fb.fp.data = fp.data := Proofs.HashCorrect.fileHash_eq alg ha H hH fp hpos pre hpre hm

/-- generated-data obligations: the constants in the source are the standards' -/
theorem table_sha256_k : Gen.sha256K = Spec.Hash.SHA256.K := Proofs.HashCompress.sha256K_eq
theorem init_sha1 : Sha1.init = Spec.Hash.SHA1.H0 := Proofs.HashCompress.sha1_init_eq
theorem init_sha256 : Sha256.init = Spec.Hash.SHA256.H0 := Proofs.HashCompress.sha256_init_eq
theorem init_md5 : Md5.init = Spec.Hash.MD5.H0 := Proofs.HashCompress.md5_init_eq

/-- unknown hash numbers: the factory returns NULL -/
theorem unknown_hash (alg : Nat) (h : 2 < alg) (m : Bytes) : stringHash alg m = none := by
  rcases alg with _|_|_|a <;> simp_all [stringHash]

/-- generated-data obligation: which hash-mode numbers 0..255 `HashFactory` knows, tabulated through the compiled factory on every run,
    is what the model knows -/
theorem factory_knows_the_compiled_hashes :
    ((List.range 256).all fun t => Gen.hashKnown.getD t false == (stringHash t []).isSome) = true := by
  decide +kernel

/-- digest sizes, for every message: 20, 16 and 32 bytes (the file format reserves 32 bytes at offset 10 for whichever is used) -/
theorem sha1_digest_length (m : Bytes) : (Spec.Hash.SHA1.hash m).length = 20 := by
  simp [Spec.Hash.SHA1.hash, Spec.Hash.SHA1.digestBytes, Spec.Hash.be32Bytes]
theorem md5_digest_length (m : Bytes) : (Spec.Hash.MD5.hash m).length = 16 := by
  simp [Spec.Hash.MD5.hash, Spec.Hash.MD5.digestBytes, Spec.Hash.le32Bytes]
theorem sha256_digest_length (m : Bytes) : (Spec.Hash.SHA256.hash m).length = 32 := by
  simp [Spec.Hash.SHA256.hash, Spec.Hash.SHA256.digestBytes, Spec.Hash.be32Bytes]

end Wencry.Props.C07
