/-
C14 — Chunk buffers are handed over exclusively between worker and I/O thread.
-/
import Wencry.Proofs.PipeCtl
import Wencry.Proofs.PipeData
import Wencry.Proofs.PipeSpurious
import Wencry.Proofs.PipeFine
namespace Wencry.Props.C14
open Wencry Wencry.Model.Pipe Wencry.Model.IoBuffer Wencry.Proofs.PipeCtl Wencry.Proofs.PipeProgress Wencry.Proofs.PipeData

variable {σ : Type}

/-- a worker is at a point that reads or modifies its buffer only while the buffer is READY (the I/O thread has finished
    filling it and the worker has not yet handed it back) and the I/O thread is outside its region for that buffer -/
theorem worker_access_only_when_ready (f : σ → Block → σ × Block) (inp : Input) (hwf : inp.WF) (ispad : Bool) (T : Nat) (hT : 0 < T)
    (ws0 : Nat → σ) (s : St σ) (h : Reach f inp ispad T ws0 s) (i : Nat) (hi : i < T)
    (hw : s.wpc i = .process ∨ s.wpc i = .fetch2 ∨ (s.wpc i = .fetch ∧ (s.buf i).st ≠ .inv)) :
    (s.buf i).st = .ready ∧ ¬ ioIn s i :=
  ownership T s (reach_inv f inp hwf ispad T hT ws0 s h) i hi hw

/-- the I/O thread refills or flushes buffer i only while it is EMPTY/UPDATING and worker i is parked in a wait -/
theorem io_access_only_when_parked (f : σ → Block → σ × Block) (inp : Input) (hwf : inp.WF) (ispad : Bool) (T : Nat) (hT : 0 < T)
    (ws0 : Nat → σ) (s : St σ) (h : Reach f inp ispad T ws0 s) (i : Nat) (hi : i < T) (hio : ioIn s i) :
    ((s.buf i).st = .empty ∨ (s.buf i).st = .updating) ∧
    (s.wpc i = .initWait ∨ s.wpc i = .initSleep ∨ s.wpc i = .waitRdy ∨ s.wpc i = .sleepRdy) :=
  io_exclusive T s (reach_inv f inp hwf ispad T hT ws0 s h) i hi hio

/-- the ghost flag raised by any access outside the protocol is never raised, under any schedule -/
theorem no_overlapping_access (f : σ → Block → σ × Block) (inp : Input) (hwf : inp.WF) (ispad : Bool) (T : Nat) (hT : 0 < T)
    (ws0 : Nat → σ) (s : St σ) (h : Reach f inp ispad T ws0 s) : s.viol = false :=
  no_violation f inp hwf ispad T hT ws0 s h

/-- every chunk is given to exactly one worker — the one that owns its position — and the chunks of one worker are processed in
    file order: the complete transformation log of worker i is its chunks i, i+T, … in increasing order, each block once -/
theorem each_chunk_to_its_owner_in_order (f : σ → Block → σ × Block) (inp : Input) (hwf : inp.WF) (ispad : Bool) (P T : Nat) (hT : 0 < T)
    (hP : FirstNonFull inp P) (ws0 : Nat → σ) (s : St σ) (h : Reach f inp ispad T ws0 s) (hd : allDone T s) (i : Nat) (hi : i < T) :
    s.log.filter (fun e => e.1 = i) = workerLog inp T (nChunks inp P) i :=
  (final_output f inp hwf ispad P T hT hP ws0 s h hd).2 i hi

/-! ### The same with spurious wake-ups (Model/PipeSpurious.lean) -/
section spurious
open Wencry.Model.PipeSpurious

/-- ownership in both directions on every state reachable under any schedule and any pattern of spurious wake-ups -/
theorem exclusive_access_with_spurious_wakeups (f : σ → Block → σ × Block) (inp : Input) (hwf : inp.WF) (ispad : Bool) (P T : Nat)
    (hT : 0 < T) (hP : FirstNonFull inp P) (ws0 : Nat → σ) (s : St σ) (h : ReachS f inp ispad T ws0 s) (i : Nat) (hi : i < T) :
    ((s.wpc i = .process ∨ s.wpc i = .fetch2 ∨ (s.wpc i = .fetch ∧ (s.buf i).st ≠ .inv)) → (s.buf i).st = .ready ∧ ¬ ioIn s i) ∧
    (ioIn s i → ((s.buf i).st = .empty ∨ (s.buf i).st = .updating) ∧
      (s.wpc i = .initWait ∨ s.wpc i = .initSleep ∨ s.wpc i = .waitRdy ∨ s.wpc i = .sleepRdy)) :=
  Proofs.PipeSpurious.ownership_S f inp hwf ispad P T hT hP ws0 s h i hi

theorem no_overlapping_access_with_spurious_wakeups (f : σ → Block → σ × Block) (inp : Input) (hwf : inp.WF) (ispad : Bool) (P T : Nat)
    (hT : 0 < T) (hP : FirstNonFull inp P) (ws0 : Nat → σ) (s : St σ) (h : ReachS f inp ispad T ws0 s) : s.viol = false :=
  Proofs.PipeSpurious.no_violation_S f inp hwf ispad P T hT hP ws0 s h

theorem each_chunk_to_its_owner_in_order_with_spurious_wakeups (f : σ → Block → σ × Block) (inp : Input) (hwf : inp.WF) (ispad : Bool)
    (P T : Nat) (hT : 0 < T) (hP : FirstNonFull inp P) (ws0 : Nat → σ) (s : St σ) (h : ReachS f inp ispad T ws0 s) (hd : allDone T s)
    (i : Nat) (hi : i < T) : s.log.filter (fun e => e.1 = i) = workerLog inp T (nChunks inp P) i :=
  (Proofs.PipeSpurious.final_output_S f inp hwf ispad P T hT hP ws0 s h hd).2 i hi

end spurious

/-! ### At the level of the mutex and condition-variable operations (Model/PipeFine.lean) -/
section fine
open Wencry.Model.PipeFine

/-- the ownership flag is never raised under any schedule of the mutex-level system, and the mutex discipline holds: the mutex of buffer
    i is held exactly by a thread that is inside one of its critical sections for buffer i -/
theorem no_overlapping_access_at_mutex_level (f : σ → Block → σ × Block) (inp : Input) (hwf : inp.WF) (ispad : Bool) (P T : Nat)
    (hT : 0 < T) (hP : FirstNonFull inp P) (ws0 : Nat → σ) (s : FSt σ) (h : FReach f inp ispad T ws0 s) :
    s.d.viol = false ∧ Proofs.PipeFine.LockInv T s :=
  ⟨(Proofs.PipeFine.fine_safety f inp hwf ispad P T hT hP ws0 s h).1, (Proofs.PipeFine.freach_inv f inp hwf ispad T hT ws0 s h).1⟩

end fine

end Wencry.Props.C14
