/-
C09 — Single-block AES-128 equals FIPS-197 for every key/block; decryption inverts it.
Property theorems only; helper lemmas live in Proofs/AesCorrect.lean. The table theorems are about the tables regenerated from
/repo on every run (Wencry.Gen), so a changed table entry makes a named theorem fail.
-/
import Wencry.Proofs.AesCorrect
namespace Wencry.Props.C09
open Wencry

/-- for all 2^128 keys and 2^128 blocks the model of `encryaes::runaes_128bit` is the FIPS-197 cipher -/
theorem encrypt_is_fips197 (key blk : Block) : Model.Aes.encrypt key blk = Spec.AES.cipher key blk :=
  Proofs.Aes.aes_encrypt_eq_spec key blk

/-- … and the model of `decryaes::runaes_128bit` is the FIPS-197 inverse cipher -/
theorem decrypt_is_fips197 (key blk : Block) : Model.Aes.decrypt key blk = Spec.AES.invCipher key blk :=
  Proofs.Aes.aes_decrypt_eq_spec key blk

/-- decryption is the exact inverse of encryption, both ways -/
theorem decrypt_encrypt (key blk : Block) : Model.Aes.decrypt key (Model.Aes.encrypt key blk) = blk :=
  Proofs.Aes.aes_decrypt_encrypt key blk
theorem encrypt_decrypt (key blk : Block) : Model.Aes.encrypt key (Model.Aes.decrypt key blk) = blk :=
  Proofs.Aes.aes_encrypt_decrypt key blk

/-- under every key the block function is a permutation of the 2^128 blocks: injective … -/
theorem encrypt_injective (key b1 b2 : Block) (h : Model.Aes.encrypt key b1 = Model.Aes.encrypt key b2) : b1 = b2 := by
  rw [← decrypt_encrypt key b1, ← decrypt_encrypt key b2, h]
/-- … and onto (every block is the encryption of exactly one block, namely its decryption) -/
theorem encrypt_surjective (key c : Block) : ∃ b, Model.Aes.encrypt key b = c ∧ ∀ b', Model.Aes.encrypt key b' = c → b' = b :=
  ⟨Model.Aes.decrypt key c, encrypt_decrypt key c, fun b' h => by rw [← h, decrypt_encrypt]⟩

/-- the same for the variants with a precomputed key schedule (what the stream objects hold) -/
theorem encryptK_is_fips197 (key blk : Block) : Model.Aes.encryptK (Model.Aes.allKeys key) blk = Spec.AES.cipher key blk := by
  rw [Proofs.Aes.aes_encryptK, Proofs.Aes.aes_encrypt_eq_spec]
theorem decryptK_is_fips197 (key blk : Block) : Model.Aes.decryptK (Model.Aes.allKeys key) blk = Spec.AES.invCipher key blk := by
  rw [Proofs.Aes.aes_decryptK, Proofs.Aes.aes_decrypt_eq_spec]

/-- generated-data obligations: the repository's tables are the standard's -/
theorem table_sbox : ∀ x : Byte, Gen.sboxT x = Spec.AES.sbox x := Proofs.Aes.sboxT_eq_spec
theorem table_rsbox : ∀ x : Byte, Gen.rsboxT x = Spec.AES.invSbox x := Proofs.Aes.rsboxT_eq_spec
theorem table_rsbox_sbox : ∀ x : Byte, Gen.rsboxT (Gen.sboxT x) = x := Proofs.Aes.rsboxT_sboxT
theorem table_gmul_2 : ∀ v : Byte, Model.Aes.gmul 25 v = Spec.AES.gfmul 2 v := Proofs.Aes.gmul_25
theorem table_gmul_3 : ∀ v : Byte, Model.Aes.gmul 1 v = Spec.AES.gfmul 3 v := Proofs.Aes.gmul_1
theorem table_gmul_1 : ∀ v : Byte, Model.Aes.gmul 0 v = v := Proofs.Aes.gmul_0
theorem table_gmul_14 : ∀ v : Byte, Model.Aes.gmul 223 v = Spec.AES.gfmul 0x0e v := Proofs.Aes.gmul_223
theorem table_gmul_11 : ∀ v : Byte, Model.Aes.gmul 104 v = Spec.AES.gfmul 0x0b v := Proofs.Aes.gmul_104
theorem table_gmul_13 : ∀ v : Byte, Model.Aes.gmul 238 v = Spec.AES.gfmul 0x0d v := Proofs.Aes.gmul_238
theorem table_gmul_9 : ∀ v : Byte, Model.Aes.gmul 199 v = Spec.AES.gfmul 0x09 v := Proofs.Aes.gmul_199
theorem table_rc : ∀ i, 1 ≤ i → i ≤ 10 → Model.Aes.rc i = Spec.AES.rcon i := Proofs.Aes.rc_eq_rcon

/-- non-vacuity: the statements have no hypotheses; a concrete instance (FIPS-197 C.1) evaluated by the kernel -/
example : Model.Aes.encrypt (Block.ofListD ((List.range 16).map (BitVec.ofNat 8)))
    (Block.ofListD ([0x00,0x11,0x22,0x33,0x44,0x55,0x66,0x77,0x88,0x99,0xaa,0xbb,0xcc,0xdd,0xee,0xff].map (BitVec.ofNat 8)))
  = Block.ofListD ([0x69,0xc4,0xe0,0xd8,0x6a,0x7b,0x04,0x30,0xd8,0xcd,0xb7,0x80,0x70,0xb4,0xc5,0x5a].map (BitVec.ofNat 8)) := by decide +kernel

end Wencry.Props.C09
