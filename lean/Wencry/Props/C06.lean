/-
C06 — A wrong key is always rejected and yields no plaintext.
What is provable is the decision logic: a key is accepted only if it reproduces the stored tag, and nothing reaches the output
before that check. That two different keys produce the same tag over the same bytes is a MAC collision — a named event in the
statement, not excluded by any theorem (for every key there exist messages with any given tag).
-/
import Wencry.Proofs.FileLogic
namespace Wencry.Props.C06
open Wencry Wencry.Model Wencry.Model.File Wencry.Model.Stdio Wencry.Proofs.FileLogic

/-- a second key is accepted for a file only if it yields the very same tag over the same bytes (key-collision event) -/
theorem wrong_key_accepted_only_on_collision (cfg : Cfg) (hH : 1 ≤ cfg.H) (key key' : Block) (F : Bytes)
    (hF : Accepted cfg key F) (hF' : Accepted cfg key' F) :
    tagOf cfg.H (F.getD 9 0).toNat key' (F.drop 48) = tagOf cfg.H (F.getD 9 0).toNat key (F.drop 48) :=
  wrong_key cfg hH key key' F hF hF'

/-- decryption is gated on verification: with a key that is not accepted, the result is a failure code and no byte is written -/
theorem rejected_key_writes_nothing (cfg : Cfg) (hH : 1 ≤ cfg.H) (key' : Block) (F : Bytes) (hrej : ¬ Accepted cfg key' F) :
    ∃ code out, decrypt cfg key' F = .ok (code, out) ∧ code ≠ 0 ∧ out.log = [] ∧ out.data = [] := by
  obtain ⟨code, out, hd, hv, hw⟩ := decrypt_total cfg hH key' F
  have hne : code ≠ 0 := by
    intro h0; subst h0
    apply hrej
    rw [← verify_zero_iff cfg hH key' F]
    unfold executeVerify at hv
    cases hvv : verify cfg key' F with
    | error e => simp [hvv, bind, Except.bind] at hv
    | ok r =>
      obtain ⟨c0, c, h⟩ := r
      simp [hvv, bind, Except.bind, pure, Except.pure] at hv
      subst hv
      exact ⟨c, h, rfl⟩
  exact ⟨code, out, hd, hne, (hw hne).1, (hw hne).2⟩

end Wencry.Props.C06
