/-
C06 — A wrong key is always rejected and yields no plaintext.
What is provable is the decision logic: a key is accepted only if it reproduces the stored tag, and nothing reaches the output
before that check. That two different keys produce the same tag over the same bytes is a MAC collision — a named event in the
statement, not excluded by any theorem (for every key there exist messages with any given tag).
-/
import Wencry.Proofs.FileLogic
import Wencry.Proofs.TypedKey
namespace Wencry.Props.C06
open Wencry Wencry.Model Wencry.Model.File Wencry.Model.Stdio Wencry.Proofs.FileLogic

/-- a second key is accepted for a file only if it yields the very same tag over the same bytes (key-collision event) -/
theorem wrong_key_accepted_only_on_collision (cfg : Cfg) (hH : 1 ≤ cfg.H) (key key' : Block) (F : Bytes)
    (hF : Accepted cfg key F) (hF' : Accepted cfg key' F) :
    tagOf cfg.H (F.getD 9 0).toNat key' (F.drop 48) = tagOf cfg.H (F.getD 9 0).toNat key (F.drop 48) :=
  wrong_key cfg hH key key' F hF hF'

/-- decryption is gated on verification: with a key that is not accepted, the result is a failure code and no byte is written -/
theorem rejected_key_writes_nothing (cfg : Cfg) (hH : 1 ≤ cfg.H) (key' : Block) (F : Bytes) (hrej : ¬ Accepted cfg key' F) :
    ∃ code out, decrypt cfg key' F = .ok (code, out) ∧ code ≠ 0 ∧ out.log = [] ∧ out.data = [] := by
  obtain ⟨code, out, hd, hv, hw⟩ := decrypt_total cfg hH key' F
  have hne : code ≠ 0 := by
    intro h0; subst h0
    apply hrej
    rw [← verify_zero_iff cfg hH key' F]
    unfold executeVerify at hv
    cases hvv : verify cfg key' F with
    | error e => simp [hvv, bind, Except.bind] at hv
    | ok r =>
      obtain ⟨c0, c, h⟩ := r
      simp [hvv, bind, Except.bind, pure, Except.pure] at hv
      subst hv
      exact ⟨c, h, rfl⟩
  exact ⟨code, out, hd, hne, (hw hne).1, (hw hne).2⟩

/-! ### the key as the user types it (`-k`, the dialogue)
The theorems above speak about the sixteen key bytes. Between the user and those bytes stands the base64 decoder with its table
REGENERATED from valget/base64/tab.h: it must not turn a wrong key text into the right key. -/

/-- the regenerated decode table is injective on the alphabet -/
theorem decode_table_injective_on_alphabet (c c' : Byte) (h : Base64.isBase64 c = true) (h' : Base64.isBase64 c' = true)
    (he : Proofs.TypedKey.sextet c = Proofs.TypedKey.sextet c') : c = c' :=
  Proofs.TypedKey.sextet_injective_on_alphabet c c' h h' he

/-- two accepted key texts that decode to the same key agree in their first 21 symbols and in the two used bits of the 22nd
    (the four unused bits are RFC 4648's non-canonical encodings, which the validator tolerates) -/
theorem typed_key_decoding_injective (s s' : Bytes) (h : Base64.isValidB64 s = true) (h' : Base64.isValidB64 s' = true) (k : Bytes)
    (hd : Base64.getArgsKey s = .ok (some k)) (hd' : Base64.getArgsKey s' = .ok (some k)) :
    (∀ i, i < 21 → s.getD i 0 = s'.getD i 0) ∧
      Proofs.TypedKey.sextet (s.getD 21 0) >>> 4 = Proofs.TypedKey.sextet (s'.getD 21 0) >>> 4 :=
  Proofs.TypedKey.typed_key_decoding_injective s s' h h' k hd hd'

/-- a typed text that differs from the right key's text in one of the first 21 symbols denotes a different key — to which
    `wrong_key_accepted_only_on_collision` then applies -/
theorem typed_wrong_text_is_wrong_key (s s' : Bytes) (h : Base64.isValidB64 s = true) (h' : Base64.isValidB64 s' = true) (k k' : Bytes)
    (hd : Base64.getArgsKey s = .ok (some k)) (hd' : Base64.getArgsKey s' = .ok (some k')) (i : Nat) (hi : i < 21)
    (hne : s.getD i 0 ≠ s'.getD i 0) : k ≠ k' :=
  Proofs.TypedKey.typed_wrong_text_is_wrong_key s s' h h' k k' hd hd' i hi hne

end Wencry.Props.C06
