/-
C03 — Output is independent of thread scheduling; each block transformed exactly once.
Transition system: Model/Pipe.lean (one step per critical section / unsynchronised access; a schedule is any list of thread ids).
-/
import Wencry.Proofs.PipeData
import Wencry.Proofs.SeqGlue
import Wencry.Proofs.EncSpec
import Wencry.Proofs.Roundtrip
import Wencry.Proofs.PipeSpurious
import Wencry.Proofs.PipeFine
import Wencry.Proofs.PipeFineSpurious
namespace Wencry.Props.C03
open Wencry Wencry.Model.Pipe Wencry.Model.IoBuffer Wencry.Proofs.PipeCtl Wencry.Proofs.PipeProgress Wencry.Proofs.PipeData

variable {σ : Type}

/-- for every T ≥ 1, every per-stream transformer, every finite well-formed input and EVERY schedule: whenever all threads have
    finished, the bytes written are those of the sequential pipeline, and every block of every chunk was transformed exactly once,
    by the worker that owns the chunk (c mod T), in file order -/
theorem output_independent_of_schedule (f : σ → Block → σ × Block) (inp : Input) (hwf : inp.WF) (ispad : Bool) (P T : Nat) (hT : 0 < T)
    (hP : FirstNonFull inp P) (ws0 : Nat → σ) (s : St σ) (h : Reach f inp ispad T ws0 s) (hd : allDone T s) :
    s.out = seqOut f inp ispad T ws0 (nChunks inp P) ∧
    ∀ i, i < T → s.log.filter (fun e => e.1 = i) = workerLog inp T (nChunks inp P) i :=
  final_output f inp hwf ispad P T hT hP ws0 s h hd

/-- at every moment of every execution the output is the sequential output of the chunks exported so far, in order:
    nothing is dropped, duplicated or reordered -/
theorem output_always_a_prefix (f : σ → Block → σ × Block) (inp : Input) (hwf : inp.WF) (ispad : Bool) (P T : Nat) (hT : 0 < T)
    (hP : FirstNonFull inp P) (ws0 : Nat → σ) (s : St σ) (h : Reach f inp ispad T ws0 s) :
    s.nexp ≤ nChunks inp P ∧ s.out = seqOut f inp ispad T ws0 s.nexp :=
  out_prefix f inp hwf ispad P T hT hP ws0 s h

/-- no chunk is exported while any of its blocks is untransformed: at the export step the buffer holds the complete
    reference output of the next chunk in file order -/
theorem exported_only_when_complete (f : σ → Block → σ × Block) (inp : Input) (hwf : inp.WF) (ispad : Bool) (P T : Nat) (hT : 0 < T)
    (hP : FirstNonFull inp P) (ws0 : Nat → σ) (s : St σ) (h : Reach f inp ispad T ws0 s) (he : s.iopc = .exporting) :
    s.cid s.turn = s.nexp ∧ s.nexp < nChunks inp P ∧ (s.buf s.turn).now = (s.buf s.turn).total ∧
    s.dat s.turn = refOut f inp T ws0 s.nexp ∧ s.fin s.turn = decide ((inp s.nexp).2 = .final) :=
  export_complete f inp hwf ispad P T hT hP ws0 s h he

/-- at file level: with the loads taken from the input stream, every terminal state holds exactly what the sequential
    file-level model (used by C01, C02, …) writes -/
theorem threads_write_the_file_model_output (T B : Nat) (hT : 1 ≤ T) (hB : 1 ≤ B) (ispad : Bool) (ws0 : Nat → Model.Modes.Stream)
    (fin : Model.Stdio.RFile) (s : St Model.Modes.Stream)
    (h : Reach Proofs.SeqGlue.streamF (fun p => Proofs.SeqGlue.loadsFrom B ispad p fin) ispad T ws0 s) (hd : allDone T s) :
    s.out = (seqPipeline T B ispad ((List.range T).map ws0) fin Model.Stdio.WFile.empty).2.2.data :=
  Proofs.SeqGlue.threads_write_what_seqPipeline_writes T B hT hB ispad ws0 fin s h hd

/-- end to end, encryption side: whatever the schedule, when all threads have returned the bytes the T workers and the I/O thread
    have written for plaintext `plain` are exactly the documented ciphertext body (PKCS#7, SP 800-38A over FIPS-197, chunks dealt
    round-robin to continuous streams) — C03 composed with C02 -/
theorem concurrent_encryption_writes_the_documented_body (T B : Nat) (hT : 1 ≤ T) (hB : 1 ≤ B) (ctype : Nat) (hc : ctype ≤ 4)
    (key : Block) (iv : Bytes) (plain : Bytes) (s0 : Model.Modes.Stream)
    (hs0 : Model.Modes.create true ctype key (Block.ofListD iv) = some s0) (s : St Model.Modes.Stream)
    (h : Reach Proofs.SeqGlue.streamF (fun p => Proofs.SeqGlue.loadsFrom B true p (Model.Stdio.RFile.open plain)) true T (fun _ => s0) s)
    (hd : allDone T s) :
    s.out = Spec.Wenc.body T B ctype key (Block.ofListD iv) plain := by
  have h1 := Proofs.SeqGlue.threads_write_what_seqPipeline_writes T B hT hB true (fun _ => s0) (Model.Stdio.RFile.open plain) s h hd
  have hss : Model.File.prepareAES T ctype key iv true = .ok (List.replicate T s0) := by
    simp [Model.File.prepareAES, hs0]
  have hmap : (List.range T).map (fun _ => s0) = List.replicate T s0 := by
    apply List.ext_getElem <;> simp
  have h2 := Proofs.EncSpec.body_eq T B hT hB ctype hc key iv plain (List.replicate T s0) hss Model.Stdio.WFile.empty rfl
  rw [h1, hmap, h2]
  simp [Model.Stdio.WFile.empty]

/-- end to end, decryption side: for the file `f` written by an encryption of `plain`, the decryptor streams the code constructs
    exist, and whatever the schedule, when all threads have returned the bytes written are exactly `plain` — C03 composed with C01 -/
theorem concurrent_decryption_restores_the_plaintext (cfg : Model.File.Cfg) (hT : 1 ≤ cfg.T) (hB : 1 ≤ cfg.B) (hH : 1 ≤ cfg.H)
    (ctype htype : Nat) (hc : ctype ≤ 4) (hh : htype ≤ 2) (key : Block) (seed plain : Bytes) (f : Model.Stdio.WFile)
    (he : Model.File.encrypt cfg ctype htype key seed plain = .ok f) :
    ∃ s0, Model.Modes.create false (f.data.getD 8 0).toNat key (Block.ofListD ((f.data.drop 48).take (20 * cfg.T))) = some s0 ∧
      ∀ st : St Model.Modes.Stream,
        Reach Proofs.SeqGlue.streamF (fun p => Proofs.SeqGlue.loadsFrom cfg.B false p ⟨f.data, Model.File.textMark cfg.T, false⟩) false cfg.T (fun _ => s0) st →
        allDone cfg.T st → st.out = plain := by
  have hv := Proofs.Roundtrip.verify_encrypt cfg hT hB hH ctype htype hc hh key seed plain f he
  obtain ⟨out, hdec, hout⟩ := Proofs.Roundtrip.roundtrip cfg hT hB hH ctype htype hc hh key seed plain f he
  have hver : ∃ c h, Model.File.verify cfg key f.data = .ok (0, c, h) := by
    unfold Model.File.executeVerify at hv
    cases hvv : Model.File.verify cfg key f.data with
    | error e => simp [hvv, bind, Except.bind] at hv
    | ok r =>
      obtain ⟨c0, c, h⟩ := r
      simp [hvv, bind, Except.bind, pure, Except.pure] at hv
      subst hv
      exact ⟨c, h, rfl⟩
  obtain ⟨c, h, hv0⟩ := hver
  obtain ⟨s0, hs0, hd0⟩ := Proofs.FileLogic.decrypt_zero cfg hH key f.data c h hv0
  refine ⟨s0, hs0, ?_⟩
  intro st hreach hdone
  have h1 := Proofs.SeqGlue.threads_write_what_seqPipeline_writes cfg.T cfg.B hT hB false (fun _ => s0)
    ⟨f.data, Model.File.textMark cfg.T, false⟩ st hreach hdone
  have hmap : (List.range cfg.T).map (fun _ => s0) = List.replicate cfg.T s0 := by
    apply List.ext_getElem <;> simp
  rw [hd0] at hdec
  simp only [Except.ok.injEq, Prod.mk.injEq, true_and] at hdec
  rw [h1, hmap, hdec, hout]

/-- non-vacuity: terminal states are reachable (by C04 every execution ends in one); a concrete run under a round-robin
    schedule, evaluated by the kernel -/
example : let inp : Input := fun p => if p = 0 then ([Block.zero], .final) else ([], .nodata)
    let s := runSched toyF inp true 1 (init 1 (fun _ => 0)) (List.replicate 30 [none, some 0]).flatten
    s.iopc = .done ∧ s.wpc 0 = .done ∧ s.nexp = 1 ∧ s.viol = false := by decide +kernel

/-! ### The same with spurious wake-ups (Model/PipeSpurious.lean) -/
section spurious
open Wencry.Model.PipeSpurious

theorem output_independent_of_schedule_and_spurious_wakeups (f : σ → Block → σ × Block) (inp : Input) (hwf : inp.WF) (ispad : Bool)
    (P T : Nat) (hT : 0 < T) (hP : FirstNonFull inp P) (ws0 : Nat → σ) (s : St σ) (h : ReachS f inp ispad T ws0 s) (hd : allDone T s) :
    s.out = seqOut f inp ispad T ws0 (nChunks inp P) ∧
    ∀ i, i < T → s.log.filter (fun e => e.1 = i) = workerLog inp T (nChunks inp P) i :=
  Proofs.PipeSpurious.final_output_S f inp hwf ispad P T hT hP ws0 s h hd

theorem output_always_a_prefix_with_spurious_wakeups (f : σ → Block → σ × Block) (inp : Input) (hwf : inp.WF) (ispad : Bool) (P T : Nat)
    (hT : 0 < T) (hP : FirstNonFull inp P) (ws0 : Nat → σ) (s : St σ) (h : ReachS f inp ispad T ws0 s) :
    s.nexp ≤ nChunks inp P ∧ s.out = seqOut f inp ispad T ws0 s.nexp :=
  Proofs.PipeSpurious.out_prefix_S f inp hwf ispad P T hT hP ws0 s h

theorem exported_only_when_complete_with_spurious_wakeups (f : σ → Block → σ × Block) (inp : Input) (hwf : inp.WF) (ispad : Bool)
    (P T : Nat) (hT : 0 < T) (hP : FirstNonFull inp P) (ws0 : Nat → σ) (s : St σ) (h : ReachS f inp ispad T ws0 s)
    (he : s.iopc = .exporting) :
    s.cid s.turn = s.nexp ∧ s.nexp < nChunks inp P ∧ (s.buf s.turn).now = (s.buf s.turn).total ∧
    s.dat s.turn = refOut f inp T ws0 s.nexp ∧ s.fin s.turn = decide ((inp s.nexp).2 = .final) :=
  Proofs.PipeSpurious.export_complete_S f inp hwf ispad P T hT hP ws0 s h he

end spurious

/-! ### At the level of the mutex and condition-variable operations (Model/PipeFine.lean; refinement in Proofs/PipeFine.lean) -/
section fine
open Wencry.Model.PipeFine

/-- under every schedule of the mutex-level system — threads preempted inside critical sections, unsynchronised accesses falling inside
    another thread's critical section — the output is always the sequential output of the chunks exported so far and, when all threads
    have returned, the complete sequential output with every block transformed exactly once by its owner -/
theorem output_independent_of_schedule_at_mutex_level (f : σ → Block → σ × Block) (inp : Input) (hwf : inp.WF) (ispad : Bool) (P T : Nat)
    (hT : 0 < T) (hP : FirstNonFull inp P) (ws0 : Nat → σ) (s : FSt σ) (h : FReach f inp ispad T ws0 s) :
    (s.d.nexp ≤ nChunks inp P ∧ s.d.out = seqOut f inp ispad T ws0 s.d.nexp) ∧
    (fAllDone T s → s.d.out = seqOut f inp ispad T ws0 (nChunks inp P) ∧
       ∀ i, i < T → s.d.log.filter (fun e => e.1 = i) = workerLog inp T (nChunks inp P) i) :=
  (Proofs.PipeFine.fine_safety f inp hwf ispad P T hT hP ws0 s h).2

end fine

section fineS
open Wencry.Model.PipeFine Wencry.Model.PipeFineSpurious

/-- the same at mutex level with spurious wake-ups, together with C14's ownership flag -/
theorem output_independent_of_schedule_at_mutex_level_with_spurious_wakeups (f : σ → Block → σ × Block) (inp : Input) (hwf : inp.WF)
    (ispad : Bool) (P T : Nat) (hT : 0 < T) (hP : FirstNonFull inp P) (ws0 : Nat → σ) (s : FSt σ) (h : FReachS f inp ispad T ws0 s) :
    s.d.viol = false ∧
    (s.d.nexp ≤ nChunks inp P ∧ s.d.out = seqOut f inp ispad T ws0 s.d.nexp) ∧
    (fAllDone T s → s.d.out = seqOut f inp ispad T ws0 (nChunks inp P) ∧
       ∀ i, i < T → s.d.log.filter (fun e => e.1 = i) = workerLog inp T (nChunks inp P) i) :=
  Proofs.PipeFineSpurious.fine_safety_S f inp hwf ispad P T hT hP ws0 s h

end fineS

end Wencry.Props.C03
