/-
C03 — Output is independent of thread scheduling; each block transformed exactly once.
Transition system: Model/Pipe.lean (one step per critical section / unsynchronised access; a schedule is any list of thread ids).
-/
import Wencry.Proofs.PipeData
import Wencry.Proofs.SeqGlue
namespace Wencry.Props.C03
open Wencry Wencry.Model.Pipe Wencry.Model.IoBuffer Wencry.Proofs.PipeCtl Wencry.Proofs.PipeProgress Wencry.Proofs.PipeData

variable {σ : Type}

/-- for every T ≥ 1, every per-stream transformer, every finite well-formed input and EVERY schedule: whenever all threads have
    finished, the bytes written are those of the sequential pipeline, and every block of every chunk was transformed exactly once,
    by the worker that owns the chunk (c mod T), in file order -/
theorem output_independent_of_schedule (f : σ → Block → σ × Block) (inp : Input) (hwf : inp.WF) (ispad : Bool) (P T : Nat) (hT : 0 < T)
    (hP : FirstNonFull inp P) (ws0 : Nat → σ) (s : St σ) (h : Reach f inp ispad T ws0 s) (hd : allDone T s) :
    s.out = seqOut f inp ispad T ws0 (nChunks inp P) ∧
    ∀ i, i < T → s.log.filter (fun e => e.1 = i) = workerLog inp T (nChunks inp P) i :=
  final_output f inp hwf ispad P T hT hP ws0 s h hd

/-- at every moment of every execution the output is the sequential output of the chunks exported so far, in order:
    nothing is dropped, duplicated or reordered -/
theorem output_always_a_prefix (f : σ → Block → σ × Block) (inp : Input) (hwf : inp.WF) (ispad : Bool) (P T : Nat) (hT : 0 < T)
    (hP : FirstNonFull inp P) (ws0 : Nat → σ) (s : St σ) (h : Reach f inp ispad T ws0 s) :
    s.nexp ≤ nChunks inp P ∧ s.out = seqOut f inp ispad T ws0 s.nexp :=
  out_prefix f inp hwf ispad P T hT hP ws0 s h

/-- no chunk is exported while any of its blocks is untransformed: at the export step the buffer holds the complete
    reference output of the next chunk in file order -/
theorem exported_only_when_complete (f : σ → Block → σ × Block) (inp : Input) (hwf : inp.WF) (ispad : Bool) (P T : Nat) (hT : 0 < T)
    (hP : FirstNonFull inp P) (ws0 : Nat → σ) (s : St σ) (h : Reach f inp ispad T ws0 s) (he : s.iopc = .exporting) :
    s.cid s.turn = s.nexp ∧ s.nexp < nChunks inp P ∧ (s.buf s.turn).now = (s.buf s.turn).total ∧
    s.dat s.turn = refOut f inp T ws0 s.nexp ∧ s.fin s.turn = decide ((inp s.nexp).2 = .final) :=
  export_complete f inp hwf ispad P T hT hP ws0 s h he

/-- at file level: with the loads taken from the input stream, every terminal state holds exactly what the sequential
    file-level model (used by C01, C02, …) writes -/
theorem threads_write_the_file_model_output (T B : Nat) (hT : 1 ≤ T) (hB : 1 ≤ B) (ispad : Bool) (ws0 : Nat → Model.Modes.Stream)
    (fin : Model.Stdio.RFile) (s : St Model.Modes.Stream)
    (h : Reach Proofs.SeqGlue.streamF (fun p => Proofs.SeqGlue.loadsFrom B ispad p fin) ispad T ws0 s) (hd : allDone T s) :
    s.out = (seqPipeline T B ispad ((List.range T).map ws0) fin Model.Stdio.WFile.empty).2.2.data :=
  Proofs.SeqGlue.threads_write_what_seqPipeline_writes T B hT hB ispad ws0 fin s h hd

/-- non-vacuity: terminal states are reachable (by C04 every execution ends in one); a concrete run under a round-robin
    schedule, evaluated by the kernel -/
example : let inp : Input := fun p => if p = 0 then ([Block.zero], .final) else ([], .nodata)
    let s := runSched toyF inp true 1 (init 1 (fun _ => 0)) (List.replicate 30 [none, some 0]).flatten
    s.iopc = .done ∧ s.wpc 0 = .done ∧ s.nexp = 1 ∧ s.viol = false := by decide +kernel

end Wencry.Props.C03
