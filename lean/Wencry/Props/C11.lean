/-
C11 — Any byte string as input file is handled cleanly: failure, no crash, no output.
Every pointer the code dereferences on attacker-influenced values is an explicit `Fault` in the model (Model/File.lean,
Model/Hmac.lean); these theorems say no fault is reachable and what the result is. Termination of the pipeline on accepted
input is C04; memory safety of the C++ below model level is covered at run time by ASan/UBSan on the correspondence runs.
-/
import Wencry.Proofs.FileLogic
namespace Wencry.Props.C11
open Wencry Wencry.Model Wencry.Model.File Wencry.Model.Stdio Wencry.Proofs.FileLogic

/-- verification and decryption return a result code for every byte string and key: no NULL hasher/cipher is dereferenced -/
theorem verify_never_faults (cfg : Cfg) (hH : 1 ≤ cfg.H) (key : Block) (F : Bytes) : ∃ r, verify cfg key F = .ok r :=
  verify_total cfg hH key F

/-- decryption never faults; a decryption that fails writes nothing at all -/
theorem failed_decrypt_writes_nothing (cfg : Cfg) (hH : 1 ≤ cfg.H) (key : Block) (F : Bytes) :
    ∃ code out, decrypt cfg key F = .ok (code, out) ∧ executeVerify cfg key F = .ok code ∧ (code ≠ 0 → out.log = [] ∧ out.data = []) :=
  decrypt_total cfg hH key F

/-- result codes: short / bad magic / out-of-range mode bytes are failures -/
theorem malformed_is_failure (cfg : Cfg) (hH : 1 ≤ cfg.H) (key : Block) (F : Bytes) (code c h : Nat) (hv : verify cfg key F = .ok (code, c, h)) :
    (code = 0 ∨ code = 1 ∨ code = 2 ∨ code = 3 ∨ code = 4) ∧
    (F.length < 8 ∨ F.take 8 ≠ Gen.magicBytes → code = 4) ∧
    (F.take 8 = Gen.magicBytes → F.length < 74 → code = 1) ∧
    (F.take 8 = Gen.magicBytes → 74 ≤ F.length → ((F.getD 8 0).toNat > 4 ∨ (F.getD 9 0).toNat > 2) → code = 3) ∧
    (code = 0 → c = (F.getD 8 0).toNat ∧ h = (F.getD 9 0).toNat) :=
  verify_code_cases cfg hH key F code c h hv

/-- success only if the file is authentic: magic, length, modes in range and the stored tag equals the recomputed one -/
theorem success_iff_authentic (cfg : Cfg) (hH : 1 ≤ cfg.H) (key : Block) (F : Bytes) :
    (∃ c h, verify cfg key F = .ok (0, c, h)) ↔ Accepted cfg key F := verify_zero_iff cfg hH key F

/-- a successful decryption writes no more bytes than the ciphertext body holds -/
theorem success_output_bounded (cfg : Cfg) (hH : 1 ≤ cfg.H) (hB : 1 ≤ cfg.B) (key : Block) (F : Bytes) (out : WFile)
    (hd : decrypt cfg key F = .ok (0, out)) : out.data.length ≤ F.length - textMark cfg.T :=
  decrypt_output_bound cfg hH hB key F out hd

end Wencry.Props.C11
