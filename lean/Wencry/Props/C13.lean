/-
C13 — An interrupted encryption never leaves a file that verifies.
What a theorem can say: the order of writes (body first, the tag last, over a zero-filled field) makes every crash state other
than the complete file unacceptable, except for one named event: the MAC of the partial content is the all-zero string.
-/
import Wencry.Proofs.Crash
namespace Wencry.Props.C13
open Wencry Wencry.Model Wencry.Model.File Wencry.Model.Stdio Wencry.Proofs.FileLogic Wencry.Proofs.Crash

/-- the writes encryption issues: sequential appends from offset 0 (zero-filled tag field), then one write of the tag at offset 10,
    the tag being computed over the complete body -/
theorem write_order (cfg : Cfg) (hT : 1 ≤ cfg.T) (hB : 1 ≤ cfg.B) (hH : 1 ≤ cfg.H) (ctype htype : Nat) (hc : ctype ≤ 4) (hh : htype ≤ 2)
    (key : Block) (seed plain : Bytes) (f : WFile) (he : encrypt cfg ctype htype key seed plain = .ok f) :
    ∃ app tag, f.log = app ++ [(10, tag)] ∧ Sequential 0 app ∧
      ((replay app).drop 10).take 38 = List.replicate 38 0 ∧ 74 ≤ (replay app).length ∧
      tagOf cfg.H htype key ((replay app).drop 48) = some tag ∧ (replay app).getD 9 0 = BitVec.ofNat 8 htype :=
  encrypt_log_shape cfg hT hB hH ctype htype hc hh key seed plain f he

/-- every crash state (any prefix of the writes, the last cut at any byte — which covers every re-chunking of the appends by stdio)
    other than the complete file: if verification accepts it, its tag field is all zero and the MAC of its content is all zero -/
theorem interrupted_encryption_rejected (cfg : Cfg) (hT : 1 ≤ cfg.T) (hB : 1 ≤ cfg.B) (hH : 1 ≤ cfg.H) (ctype htype : Nat) (hc : ctype ≤ 4) (hh : htype ≤ 2)
    (key : Block) (seed plain : Bytes) (f : WFile) (he : encrypt cfg ctype htype key seed plain = .ok f)
    (S : Bytes) (hS : S ∈ crashStates f.log) (hne : S ≠ f.data) (hacc : Accepted cfg key S) :
    (S.drop 10).take 38 = List.replicate 38 0 ∧
    ∃ t, tagOf cfg.H (S.getD 9 0).toNat key (S.drop 48) = some t ∧ t = List.replicate t.length 0 :=
  interrupted cfg hT hB hH ctype htype hc hh key seed plain f he S hS hne hacc

/-- states shorter than 74 bytes are rejected unconditionally -/
theorem short_state_rejected (cfg : Cfg) (key : Block) (S : Bytes) (h : S.length < 74) : ¬ Accepted cfg key S := by
  intro ha; have := ha.2.1; omega

/-- the complete file is the last crash state and equals the replay of the log -/
theorem complete_file_is_last_state (cfg : Cfg) (ctype htype : Nat) (key : Block) (seed plain : Bytes) (f : WFile)
    (he : encrypt cfg ctype htype key seed plain = .ok f) : f.data ∈ crashStates f.log := by
  rw [encrypt_data_eq_replay cfg ctype htype key seed plain f he]; exact final_is_crash_state f.log

end Wencry.Props.C13
