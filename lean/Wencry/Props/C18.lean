/-
C18 — Each cipher stream in a file starts from its own seed-dependent IV.
On the code as it is this property FAILS in one respect, recorded as known finding K2: every stream is constructed from the
first 16 bytes of the FIRST IV. That is proved here as a theorem about the model (`finding_all_streams_share_iv0`) together with
its consequence (equal plaintext chunks on different streams give equal ciphertext chunks), and replayed on the real code on
every run. What does hold is proved as well: the start IV is the SHA-1 of the seed (C02), and within one CTR stream no counter
value — hence no keystream block — is used twice before 2^128 blocks. Distinctness of chained SHA-1 outputs and absence of
counter-range overlap between streams started from different IVs would be probabilistic facts, not theorems.
-/
import Wencry.Proofs.SeqGlue
import Wencry.Proofs.ModesCorrect
import Wencry.Proofs.AesCorrect
import Wencry.Proofs.EncSpec
import Wencry.Proofs.DialogCorrect
namespace Wencry.Props.C18
open Wencry Wencry.Model Wencry.Model.Modes

/-- KNOWN FINDING K2 (theorem about the code as it is): all T streams start from the same IV, the first 16 bytes of the IV area -/
theorem finding_all_streams_share_iv0 (T ctype : Nat) (key : Block) (iv : Bytes) (isenc : Bool) (ss : List Stream)
    (h : File.prepareAES T ctype key iv isenc = .ok ss) : ss.length = T ∧ ∀ s ∈ ss, s.iv = Block.ofListD iv :=
  Proofs.SeqGlue.prepareAES_all_equal T ctype key iv isenc ss h

/-- consequence of K2: two equal plaintext chunks among the first T (hence on different streams) give equal ciphertext chunks -/
theorem finding_equal_chunks_equal_ciphertext (f : Stream → Block → Stream × Block) (inp : Pipe.Input) (T : Nat) (s0 : Stream) (i j : Nat)
    (hi : i < T) (hj : j < T) (he : (inp i).1 = (inp j).1) :
    Pipe.refOut f inp T (fun _ => s0) i = Pipe.refOut f inp T (fun _ => s0) j :=
  Proofs.SeqGlue.equal_chunks_equal_output f inp T s0 i j hi hj he

/-- the IV area is the SHA-1 chain of the caller's seed (so the start IV depends on the seed exactly through SHA-1) -/
theorem iv_area_is_sha1_chain (T : Nat) (hT : 1 ≤ T) (seed : Bytes) (hs : seed.length < 2 ^ 60) :
    File.getIV T seed = (Spec.Wenc.ivChain T seed).flatten := Proofs.EncSpec.getIV_eq T hT seed hs

/-- within one CTR stream the counter blocks are pairwise different for fewer than 2^128 blocks -/
theorem ctr_counters_distinct (iv : Block) (i j : Nat) (hi : i < 2 ^ 128) (hj : j < 2 ^ 128) (hij : i ≠ j) :
    Spec.Modes.ofNat128 ((Spec.Modes.toNat128 iv + i) % 2 ^ 128) ≠ Spec.Modes.ofNat128 ((Spec.Modes.toNat128 iv + j) % 2 ^ 128) := by
  intro h
  have h1 := congrArg Spec.Modes.toNat128 h
  rw [Proofs.Modes.toNat128_ofNat128 _ (Nat.mod_lt _ (by decide)), Proofs.Modes.toNat128_ofNat128 _ (Nat.mod_lt _ (by decide))] at h1
  have := Proofs.Modes.toNat128_lt iv
  omega

/-- AES-128 under a fixed key is injective, so distinct counter blocks give distinct keystream blocks -/
theorem keystream_blocks_distinct (key a b : Block) (h : a ≠ b) : Spec.AES.cipher key a ≠ Spec.AES.cipher key b := by
  intro he
  apply h
  have := congrArg (Spec.AES.invCipher key) he
  rwa [Proofs.Aes.spec_invCipher_cipher, Proofs.Aes.spec_invCipher_cipher] at this

/-- the model's CTR object steps its counter by exactly one (mod 2^128) per block -/
theorem ctr_steps_by_one (iv : Block) : Spec.Modes.toNat128 (ctrInc iv) = (Spec.Modes.toNat128 iv + 1) % 2 ^ 128 := by
  rw [Proofs.Modes.ctrInc_eq]
  unfold Spec.Modes.inc128
  exact Proofs.Modes.toNat128_ofNat128 _ (Nat.mod_lt _ (by decide))

/-! ### the interactive path (`Wencry` without arguments)
`iv_area_is_sha1_chain` is about the seed `main` is handed. In the dialogue that seed is what the user types after the hash mode
(Model/Dialog.lean, tied to the real `get_v_mod1` by the `dlgparse` suite, and through the real binary by `dialog`). -/

/-- answering the encryption dialogue one answer per line, in a non-ECB mode: the parameters handed to `main` are exactly the
    typed ones — the seed of the IV chain is the typed seed -/
theorem interactive_seed_is_the_typed_seed (opens : Bytes → Bool) (file keyText seed key : Bytes) (c h : Nat)
    (hfile : Proofs.Dialog.IsWord file) (hflen : file.length < 128) (hopen : opens file = true)
    (hkey : Base64.isValidB64 keyText = true) (hdec : Base64.getArgsKey keyText = .ok (some key))
    (hc : 1 ≤ c ∧ c ≤ 4) (hh : h ≤ 2) (hseed : Proofs.Dialog.IsWord seed) (hslen : seed.length < 256) :
    Dialog.dialogue opens (Proofs.Dialog.scriptE file keyText c h seed) =
      some { mode := 101, file := file, key := some key, ctype := c, htype := h, seed := some seed,
             out := some (Dialog.baseName file ++ Dialog.dot_wenc) } :=
  Proofs.Dialog.dialogue_scriptE opens file keyText seed key c h hfile hflen hopen hkey hdec hc hh hseed hslen

/-- two different typed seeds reach `main` as different seeds -/
theorem interactive_seeds_distinct (opens : Bytes → Bool) (file keyText seed seed' key : Bytes) (c h : Nat)
    (hfile : Proofs.Dialog.IsWord file) (hflen : file.length < 128) (hopen : opens file = true)
    (hkey : Base64.isValidB64 keyText = true) (hdec : Base64.getArgsKey keyText = .ok (some key))
    (hc : 1 ≤ c ∧ c ≤ 4) (hh : h ≤ 2) (hseed : Proofs.Dialog.IsWord seed) (hslen : seed.length < 256)
    (hseed' : Proofs.Dialog.IsWord seed') (hslen' : seed'.length < 256) (hne : seed ≠ seed') :
    (Dialog.dialogue opens (Proofs.Dialog.scriptE file keyText c h seed)).map (·.seed) ≠
      (Dialog.dialogue opens (Proofs.Dialog.scriptE file keyText c h seed')).map (·.seed) :=
  Proofs.Dialog.typed_seeds_distinct opens file keyText seed seed' key c h hfile hflen hopen hkey hdec hc hh hseed hslen hseed' hslen' hne

end Wencry.Props.C18
