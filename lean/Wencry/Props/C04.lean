/-
C04 — The pipeline terminates under every schedule and input (no deadlock, lost wake-up or endless loop).
Spurious wake-ups (`std::condition_variable::wait` returning without a notification) are covered by the second group of theorems
(Model/PipeSpurious.lean): no deadlock, and no infinite execution unless the platform wakes threads spuriously for ever.
-/
import Wencry.Proofs.PipeCtl
import Wencry.Proofs.PipeProgress
import Wencry.Proofs.SeqGlue
import Wencry.Proofs.PipeSpurious
import Wencry.Proofs.PipeFine
import Wencry.Proofs.PipeFineSpurious
namespace Wencry.Props.C04
open Wencry Wencry.Model.Pipe Wencry.Model.PipeSpurious Wencry.Model.IoBuffer Wencry.Proofs.PipeCtl Wencry.Proofs.PipeProgress

variable {σ : Type}

/-- (a) no deadlock and no lost wake-up: in every reachable state either every thread has returned, or some thread can move -/
theorem no_deadlock (f : σ → Block → σ × Block) (inp : Input) (hwf : inp.WF) (ispad : Bool) (T : Nat) (hT : 0 < T) (ws0 : Nat → σ)
    (s : St σ) (h : Reach f inp ispad T ws0 s) : allDone T s ∨ ∃ tid, (step f inp ispad T s tid).isSome :=
  deadlock_free f inp ispad T s (reach_inv f inp hwf ispad T hT ws0 s h)

/-- (b) no endless loop: every step of every thread strictly decreases a well-founded measure on reachable states -/
theorem every_step_decreases (f : σ → Block → σ × Block) (inp : Input) (hwf : inp.WF) (ispad : Bool) (P T : Nat) (hT : 0 < T)
    (hP : FirstNonFull inp P) (ws0 : Nat → σ) (s s' : St σ) (tid : Option Nat)
    (h : Reach f inp ispad T ws0 s) (hs : step f inp ispad T s tid = some s') : lt4 (mu P T s') (mu P T s) :=
  step_decreases f inp hwf ispad P T hT hP ws0 s s' tid h hs

theorem measure_well_founded : WellFounded (fun a b : Nat × Nat × Nat × Nat => lt4 a b) := lt4_wf

/-- hence there is no infinite execution, under any schedule, for any T ≥ 1 and any finite well-formed input — including the empty
    input, inputs ending exactly on a chunk boundary and more workers than chunks -/
theorem no_infinite_execution (f : σ → Block → σ × Block) (inp : Input) (hwf : inp.WF) (ispad : Bool) (P T : Nat) (hT : 0 < T)
    (hP : FirstNonFull inp P) (ws0 : Nat → σ)
    (run : Nat → St σ) (tids : Nat → Option Nat) (h0 : run 0 = init T ws0)
    (hstep : ∀ n, step f inp ispad T (run n) (tids n) = some (run (n + 1))) : False :=
  no_infinite_run f inp hwf ispad P T hT hP ws0 run tids h0 hstep

/-- when the I/O thread has returned every buffer is retired: the live counter is back to 0 (used by C15) -/
theorem live_zero_at_end (f : σ → Block → σ × Block) (inp : Input) (hwf : inp.WF) (ispad : Bool) (T : Nat) (hT : 0 < T) (ws0 : Nat → σ)
    (s : St σ) (h : Reach f inp ispad T ws0 s) (hd : s.iopc = .done) : s.live = 0 :=
  (reach_inv f inp hwf ispad T hT ws0 s h).2.2.1 hd

/-- the inputs the file-level model produces satisfy the hypotheses (well-formed, finite) for every file and chunk size -/
theorem file_inputs_are_wellformed (B : Nat) (hB : 1 ≤ B) (ispad : Bool) (fin : Model.Stdio.RFile) :
    Input.WF (fun p => Proofs.SeqGlue.loadsFrom B ispad p fin) ∧ ∃ P, FirstNonFull (fun p => Proofs.SeqGlue.loadsFrom B ispad p fin) P :=
  Proofs.SeqGlue.loadsFrom_wf B hB ispad fin

/-! ### With spurious wake-ups: any thread asleep on a condition variable may at any time be woken without a notification -/

/-- (a) still no deadlock and no lost wake-up on every state reachable under any schedule and any pattern of spurious wake-ups -/
theorem no_deadlock_with_spurious_wakeups (f : σ → Block → σ × Block) (inp : Input) (hwf : inp.WF) (ispad : Bool) (P T : Nat) (hT : 0 < T)
    (hP : FirstNonFull inp P) (ws0 : Nat → σ) (s : St σ) (h : ReachS f inp ispad T ws0 s) :
    allDone T s ∨ ∃ tid, (step f inp ispad T s tid).isSome :=
  Proofs.PipeSpurious.no_deadlock_S f inp hwf ispad P T hT hP ws0 s h

/-- a spurious wake-up is harmless: the woken thread re-tests its predicate, finds it false and sleeps again — its next step
    restores the state exactly (this is what the `while` around every `cv.wait` buys) -/
theorem spurious_wakeup_is_undone_by_the_retest (f : σ → Block → σ × Block) (inp : Input) (hwf : inp.WF) (ispad : Bool) (P T : Nat)
    (hT : 0 < T) (hP : FirstNonFull inp P) (ws0 : Nat → σ) (s s' : St σ) (tid : Option Nat)
    (h : ReachS f inp ispad T ws0 s) (hs : spurious T s tid = some s') : step f inp ispad T s' tid = some s :=
  Proofs.PipeSpurious.spurious_then_retest_restores f inp hwf ispad P T hT hP ws0 s s' tid h hs

/-- (b) every ordinary step still decreases the measure, and an execution with finitely many spurious wake-ups is finite -/
theorem every_step_decreases_with_spurious_wakeups (f : σ → Block → σ × Block) (inp : Input) (hwf : inp.WF) (ispad : Bool) (P T : Nat)
    (hT : 0 < T) (hP : FirstNonFull inp P) (ws0 : Nat → σ) (s s' : St σ) (tid : Option Nat)
    (h : ReachS f inp ispad T ws0 s) (hs : step f inp ispad T s tid = some s') : lt4 (mu P T s') (mu P T s) :=
  Proofs.PipeSpurious.run_step_decreases_S f inp hwf ispad P T hT hP ws0 s s' tid h hs

theorem no_infinite_execution_with_finitely_many_spurious_wakeups (f : σ → Block → σ × Block) (inp : Input) (hwf : inp.WF) (ispad : Bool)
    (P T : Nat) (hT : 0 < T) (hP : FirstNonFull inp P) (ws0 : Nat → σ)
    (run : Nat → St σ) (evs : Nat → Ev) (h0 : run 0 = init T ws0)
    (hstep : ∀ n, stepS f inp ispad T (run n) (evs n) = some (run (n + 1)))
    (N : Nat) (hfin : ∀ n, N ≤ n → (evs n).isSpur = false) : False :=
  Proofs.PipeSpurious.no_infinite_execution_S f inp hwf ispad P T hT hP ws0 run evs h0 hstep N hfin

/-- non-vacuity: a spurious wake-up is possible in a reachable state (worker 0 goes to sleep in its first wait, then is woken) -/
example : (spurious 1 (runSched toyF (fun _ => ([], .nodata)) true 1 (init 1 (fun _ => 0)) [some 0]) (some 0)).isSome = true := by
  decide +kernel

/-! ### At the level of the mutex and condition-variable operations (Model/PipeFine.lean)

Every critical section of `bufferctrl` is split into acquire / test or write / notify / release, a thread can be preempted while it
holds the mutex, and the unsynchronised accesses can fall inside another thread's critical section. The fine system refines the
coarse one (`mutex_level_step_is_a_coarse_step_or_invisible`), hence: -/
section fine
open Wencry.Model.PipeFine Wencry.Proofs.PipeFine

theorem mutex_level_step_is_a_coarse_step_or_invisible (f : σ → Block → σ × Block) (inp : Input) (ispad : Bool) (T : Nat) (s s' : FSt σ)
    (tid : Tid) (h : FInv T s) (hs : fstep f inp ispad T s tid = some s') :
    Model.PipeFine.abs s' = Model.PipeFine.abs s ∨ step f inp ispad T (Model.PipeFine.abs s) tid = some (Model.PipeFine.abs s') :=
  fine_step_simulated f inp ispad T s s' tid h hs

theorem mutex_level_states_are_coarse_reachable (f : σ → Block → σ × Block) (inp : Input) (hwf : inp.WF) (ispad : Bool) (T : Nat) (hT : 0 < T)
    (ws0 : Nat → σ) (s : FSt σ) (h : FReach f inp ispad T ws0 s) : Reach f inp ispad T ws0 (Model.PipeFine.abs s) :=
  freach_abs_reach f inp hwf ispad T hT ws0 s h

/-- no deadlock at mutex level (a thread holding a mutex is never blocked; lost wake-ups are impossible because a waiter releases the
    mutex and blocks in one step and every state change is made and notified under the mutex) -/
theorem no_deadlock_at_mutex_level (f : σ → Block → σ × Block) (inp : Input) (hwf : inp.WF) (ispad : Bool) (T : Nat) (hT : 0 < T)
    (ws0 : Nat → σ) (s : FSt σ) (h : FReach f inp ispad T ws0 s) : fAllDone T s ∨ ∃ tid, (fstep f inp ispad T s tid).isSome :=
  fine_deadlock_free f inp hwf ispad T hT ws0 s h

/-- no infinite execution at mutex level -/
theorem no_infinite_execution_at_mutex_level (f : σ → Block → σ × Block) (inp : Input) (hwf : inp.WF) (ispad : Bool) (P T : Nat) (hT : 0 < T)
    (hP : FirstNonFull inp P) (ws0 : Nat → σ) (run : Nat → FSt σ) (tids : Nat → Tid) (h0 : run 0 = finit T ws0)
    (hstep : ∀ n, fstep f inp ispad T (run n) (tids n) = some (run (n + 1))) : False :=
  fine_no_infinite_run f inp hwf ispad P T hT hP ws0 run tids h0 hstep

/-- non-vacuity: a round-robin schedule of the mutex-level system on a two-chunk input with two workers terminates with the
    sequential output (kernel evaluation) -/
example : let inp : Input := fun p => if p = 0 then ([Block.zero], .full) else if p = 1 then ([Block.zero], .final) else ([], .nodata)
    let s := frunSched toyF inp true 2 (finit 2 (fun _ => 0)) (List.replicate 120 [none, some 0, some 1]).flatten
    s.fio = .done ∧ s.fw 0 = .done ∧ s.fw 1 = .done ∧ s.d.nexp = 2 ∧ s.d.viol = false ∧ s.lock 0 = none ∧ s.lock 1 = none := by
  decide +kernel

end fine

/-! ### Mutex level AND spurious wake-ups (Model/PipeFineSpurious.lean) -/
section fineS
open Wencry.Model.PipeFine Wencry.Model.PipeFineSpurious

theorem no_deadlock_at_mutex_level_with_spurious_wakeups (f : σ → Block → σ × Block) (inp : Input) (hwf : inp.WF) (ispad : Bool) (T : Nat)
    (hT : 0 < T) (ws0 : Nat → σ) (s : FSt σ) (h : FReachS f inp ispad T ws0 s) :
    fAllDone T s ∨ ∃ tid, (fstep f inp ispad T s tid).isSome :=
  Proofs.PipeFineSpurious.fine_deadlock_free_S f inp hwf ispad T hT ws0 s h

theorem no_infinite_execution_at_mutex_level_with_finitely_many_spurious_wakeups (f : σ → Block → σ × Block) (inp : Input) (hwf : inp.WF)
    (ispad : Bool) (P T : Nat) (hT : 0 < T) (hP : FirstNonFull inp P) (ws0 : Nat → σ)
    (run : Nat → FSt σ) (evs : Nat → Ev) (h0 : run 0 = finit T ws0)
    (hstep : ∀ n, fstepS f inp ispad T (run n) (evs n) = some (run (n + 1)))
    (N : Nat) (hfin : ∀ n, N ≤ n → (evs n).isSpur = false) : False :=
  Proofs.PipeFineSpurious.fine_no_infinite_run_S f inp hwf ispad P T hT hP ws0 run evs h0 hstep N hfin

end fineS

end Wencry.Props.C04
