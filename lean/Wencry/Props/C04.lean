/-
C04 — The pipeline terminates under every schedule and input (no deadlock, lost wake-up or endless loop).
Spurious wake-ups are not modelled: a waiter moves only on the matching notify (a spurious wake-up re-tests the predicate and
sleeps again; it cannot prevent termination unless it recurs forever).
-/
import Wencry.Proofs.PipeCtl
import Wencry.Proofs.PipeProgress
import Wencry.Proofs.SeqGlue
namespace Wencry.Props.C04
open Wencry Wencry.Model.Pipe Wencry.Model.IoBuffer Wencry.Proofs.PipeCtl Wencry.Proofs.PipeProgress

variable {σ : Type}

/-- (a) no deadlock and no lost wake-up: in every reachable state either every thread has returned, or some thread can move -/
theorem no_deadlock (f : σ → Block → σ × Block) (inp : Input) (hwf : inp.WF) (ispad : Bool) (T : Nat) (hT : 0 < T) (ws0 : Nat → σ)
    (s : St σ) (h : Reach f inp ispad T ws0 s) : allDone T s ∨ ∃ tid, (step f inp ispad T s tid).isSome :=
  deadlock_free f inp ispad T s (reach_inv f inp hwf ispad T hT ws0 s h)

/-- (b) no endless loop: every step of every thread strictly decreases a well-founded measure on reachable states -/
theorem every_step_decreases (f : σ → Block → σ × Block) (inp : Input) (hwf : inp.WF) (ispad : Bool) (P T : Nat) (hT : 0 < T)
    (hP : FirstNonFull inp P) (ws0 : Nat → σ) (s s' : St σ) (tid : Option Nat)
    (h : Reach f inp ispad T ws0 s) (hs : step f inp ispad T s tid = some s') : lt4 (mu P T s') (mu P T s) :=
  step_decreases f inp hwf ispad P T hT hP ws0 s s' tid h hs

theorem measure_well_founded : WellFounded (fun a b : Nat × Nat × Nat × Nat => lt4 a b) := lt4_wf

/-- hence there is no infinite execution, under any schedule, for any T ≥ 1 and any finite well-formed input — including the empty
    input, inputs ending exactly on a chunk boundary and more workers than chunks -/
theorem no_infinite_execution (f : σ → Block → σ × Block) (inp : Input) (hwf : inp.WF) (ispad : Bool) (P T : Nat) (hT : 0 < T)
    (hP : FirstNonFull inp P) (ws0 : Nat → σ)
    (run : Nat → St σ) (tids : Nat → Option Nat) (h0 : run 0 = init T ws0)
    (hstep : ∀ n, step f inp ispad T (run n) (tids n) = some (run (n + 1))) : False :=
  no_infinite_run f inp hwf ispad P T hT hP ws0 run tids h0 hstep

/-- when the I/O thread has returned every buffer is retired: the live counter is back to 0 (used by C15) -/
theorem live_zero_at_end (f : σ → Block → σ × Block) (inp : Input) (hwf : inp.WF) (ispad : Bool) (T : Nat) (hT : 0 < T) (ws0 : Nat → σ)
    (s : St σ) (h : Reach f inp ispad T ws0 s) (hd : s.iopc = .done) : s.live = 0 :=
  (reach_inv f inp hwf ispad T hT ws0 s h).2.2.1 hd

/-- the inputs the file-level model produces satisfy the hypotheses (well-formed, finite) for every file and chunk size -/
theorem file_inputs_are_wellformed (B : Nat) (hB : 1 ≤ B) (ispad : Bool) (fin : Model.Stdio.RFile) :
    Input.WF (fun p => Proofs.SeqGlue.loadsFrom B ispad p fin) ∧ ∃ P, FirstNonFull (fun p => Proofs.SeqGlue.loadsFrom B ispad p fin) P :=
  Proofs.SeqGlue.loadsFrom_wf B hB ispad fin

end Wencry.Props.C04
