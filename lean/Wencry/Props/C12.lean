/-
C12 — Verify accepts exactly what decrypt accepts; writes nothing; inputs stay intact.
"Writes nothing" and "inputs stay intact" are structural in the model: `executeVerify` has no output stream, and the input of
every operation is an immutable byte string (the model's `RFile` has no write operation); the harness checks both on the real
code (input hashed before/after, verify run with a NULL output).
-/
import Wencry.Proofs.FileLogic
namespace Wencry.Props.C12
open Wencry Wencry.Model Wencry.Model.File Wencry.Model.Stdio Wencry.Proofs.FileLogic

/-- for every file and key, verification succeeds exactly when decryption succeeds -/
theorem verify_iff_decrypt (cfg : Cfg) (hH : 1 ≤ cfg.H) (key : Block) (F : Bytes) :
    executeVerify cfg key F = .ok 0 ↔ ∃ out, decrypt cfg key F = .ok (0, out) :=
  Proofs.FileLogic.verify_iff_decrypt cfg hH key F

/-- more precisely: decryption reports exactly verification's result code -/
theorem same_result_code (cfg : Cfg) (hH : 1 ≤ cfg.H) (key : Block) (F : Bytes) :
    ∃ code out, decrypt cfg key F = .ok (code, out) ∧ executeVerify cfg key F = .ok code := by
  obtain ⟨code, out, h1, h2, _⟩ := decrypt_total cfg hH key F
  exact ⟨code, out, h1, h2⟩

end Wencry.Props.C12
