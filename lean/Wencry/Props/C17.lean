/-
C17 — Command line: no crash on any option vector; exit 0 iff the operation succeeded.
Quantifier: all sequences of options `getopt_long` can return on the documented grammar (one token per option with its argument;
abbreviated long options, clustered short options and the interactive prompt mode are outside the model).
-/
import Wencry.Proofs.CliCorrect
import Wencry.Proofs.ProgramCorrect
import Wencry.Proofs.GetoptCorrect
namespace Wencry.Props.C17
open Wencry Wencry.Model.Cli Wencry.Proofs.Cli

/-- no fault (NULL handle or key passed on, key buffer overrun) for any option vector -/
theorem never_faults (toks : List Tok) (d : Bool) : ∃ o, getVOpt toks d = .ok o := getVOpt_no_fault toks d

/-- an operation is started only with every handle it dereferences present, a 16-byte key and modes in range -/
theorem operation_started_wellformed (toks : List Tok) (d : Bool) (op : Op) (inp : Bytes) (out key : Option Bytes) (c h : Int) (ne : Bool)
    (hr : getVOpt toks d = .ok (.run op inp out key c h ne)) :
    settingsOk c h = true ∧ (∀ k, key = some k → k.length = 16) ∧
    (op = .encrypt → out.isSome ∧ 0 ≤ c ∧ c ≤ 4 ∧ 0 ≤ h ∧ h ≤ 2) ∧
    (op = .decrypt → out.isSome ∧ key.isSome) ∧ (op = .verify → key.isSome) :=
  run_wellformed toks d op inp out key c h ne hr

/-- exit status 0 exactly when version or help was requested or the operation ran and succeeded; otherwise non-zero -/
theorem exit_zero_iff_success (toks : List Tok) (d : Bool) (o : Outcome) (ho : getVOpt toks d = .ok o) (r : Bool) :
    exitStatus o r = 0 ↔ (o = .info ∨ ((∃ op inp out key c h ne, o = .run op inp out key c h ne) ∧ r = true)) :=
  exit_zero_iff toks d o ho r

/-- the documented misuses end in a diagnostic (status 1): no mode or two modes; a failing option; missing input, key or output -/
theorem no_or_two_modes_is_diagnosed (toks : List Tok) (d : Bool) (h : modeCount toks ≠ 1) : getVOpt toks d = .ok .diag :=
  no_or_two_modes toks d h
theorem bad_option_is_diagnosed (toks : List Tok) (d : Bool) (t : Tok) (ht : t ∈ toks)
    (hbad : t = .unknown ∨ (∃ a, t = .m a) ∨ (∃ p, t = .i p false) ∨ (∃ p, t = .o p false) ∨
            (∃ a, t = .k a ∧ Model.Base64.isValidB64 a = false) ∨
            (∃ a, t = .cmode a ∧ checkCtype (atoi a) = false) ∨ (∃ a, t = .hmode a ∧ checkHtype (atoi a) = false)) :
    getVOpt toks d = .ok .diag := bad_token toks d t ht hbad
theorem missing_argument_is_diagnosed (toks : List Tok) (d : Bool) (o : Outcome) (ho : getVOpt toks d = .ok o) :
    ((∀ p b, Tok.i p b ∉ toks) → (Tok.e ∈ toks ∨ Tok.d ∈ toks ∨ Tok.v ∈ toks) → o = .diag) ∧
    ((∀ a, Tok.k a ∉ toks) → (Tok.d ∈ toks ∨ Tok.v ∈ toks) → o = .diag) ∧
    ((∀ p b, Tok.o p b ∉ toks) → Tok.d ∈ toks → o = .diag) := missing_required toks d o ho

/-- with defaults, `-e -i F` writes `F.wenc` (a path too long for the default name is diagnosed) -/
theorem default_output_name (path : Bytes) (d : Bool) :
    getVOpt [.e, .i path true] d =
      .ok (if path.length + 5 < 128 ∧ d then .run .encrypt path (some (path ++ dotWenc)) none 0 0 false else .diag) :=
  default_output path d

/-- the key string printed at encryption (RFC 4648 encoding of the 16 key bytes) is accepted by `-d` and yields exactly that key:
    `-d -i F -k <printed key> -o G` starts a decryption of F into G under the same key (C16 + the parser; restoring the file is C01) -/
theorem printed_key_starts_decryption (k : Bytes) (hk : k.length = 16) (inp out : Bytes) (d : Bool) :
    getVOpt [.d, .i inp true, .k (Spec.Base64.encode k), .o out true] d = .ok (.run .decrypt inp (some out) (some k) (-1) (-1) false) := by
  have h := Proofs.Base64.printed_key_accepted k hk
  simp [getVOpt, parseAll, parseOpt, setMode, Pak.init, h.1, h.2, bind, Except.bind, pure, Except.pure]

/-- the whole program (Model/Program.lean: options → parser → operation → exit status, over a toy file system) never faults -/
theorem program_never_faults (cfg : Model.File.Cfg) (hT : 1 ≤ cfg.T) (hB : 1 ≤ cfg.B) (hH : 1 ≤ cfg.H) (fs : Model.Program.FS)
    (canCreate : Model.Program.Path → Bool) (rkey rseed : Bytes) (hk : rkey.length = 16) (args : List Model.Program.Arg) :
    ∃ r, Model.Program.run cfg fs canCreate rkey rseed args = .ok r :=
  Proofs.Program.run_no_fault cfg hT hB hH fs canCreate rkey rseed hk args

/-- "With defaults, `-e -i F` writes F.wenc and prints a key with which `-d` restores F": both runs exit 0, the second writes
    exactly F's contents to G, and F itself is untouched -/
theorem default_encrypt_then_decrypt_restores (cfg : Model.File.Cfg) (hT : 1 ≤ cfg.T) (hB : 1 ≤ cfg.B) (hH : 1 ≤ cfg.H)
    (fs : Model.Program.FS) (F G : Model.Program.Path) (P : Bytes)
    (hF : fs.read F = some P) (hlen : F.length + 5 < 128) (canCreate : Model.Program.Path → Bool)
    (hc1 : canCreate (F ++ dotWenc) = true) (hc2 : canCreate G = true) (hG : G ≠ F ++ dotWenc) (hGF : G ≠ F)
    (rkey rseed : Bytes) (hk : rkey.length = 16) :
    ∃ r1 pk, Model.Program.run cfg fs canCreate rkey rseed [.e, .i F] = .ok r1 ∧ r1.status = 0 ∧ r1.printedKey = some pk ∧
      (r1.fs.read (F ++ dotWenc)).isSome ∧ r1.fs.read F = some P ∧
      ∀ rkey' rseed', ∃ r2, Model.Program.run cfg r1.fs canCreate rkey' rseed' [.d, .i (F ++ dotWenc), .k pk, .o G] = .ok r2 ∧
        r2.status = 0 ∧ r2.fs.read G = some P ∧ r2.fs.read F = some P :=
  Proofs.Program.encrypt_then_decrypt_restores cfg hT hB hH fs F G P hF hlen canCreate hc1 hc2 hG hGF rkey rseed hk

/-! ### The same statements about raw argv vectors (Model/Getopt.lean: glibc `getopt_long` on the option tables regenerated from
valget/getopts.cpp, and the option loop of `get_v_opt`), for every argv, every file-system answer and every scanner state -/
section argv
open Wencry.Model.Getopt

/-- every argv-level outcome is the token-level outcome of some token sequence, so the ∀-token theorems above apply to it -/
theorem argv_outcome_is_token_outcome (env : Env) (g : GState) (argv : List Bytes) :
    ∃ toks d, (getVOptArgv resetFixed env g argv).1 = getVOpt toks d :=
  Proofs.Getopt.argv_outcome_is_token_outcome resetFixed env g argv

/-- no option vector makes the parser fault -/
theorem argv_never_faults (env : Env) (g : GState) (argv : List Bytes) : ∃ o, (getVOptArgv resetFixed env g argv).1 = .ok o := by
  obtain ⟨toks, d, h⟩ := argv_outcome_is_token_outcome env g argv
  obtain ⟨o, ho⟩ := never_faults toks d
  exact ⟨o, h.trans ho⟩

/-- an operation is started from an argv only with every handle present, a 16-byte key and modes in range -/
theorem argv_operation_started_wellformed (env : Env) (g : GState) (argv : List Bytes) (op : Op) (inp : Bytes) (out key : Option Bytes)
    (c h : Int) (ne : Bool) (hr : (getVOptArgv resetFixed env g argv).1 = .ok (.run op inp out key c h ne)) :
    settingsOk c h = true ∧ (∀ k, key = some k → k.length = 16) ∧
    (op = .encrypt → out.isSome ∧ 0 ≤ c ∧ c ≤ 4 ∧ 0 ≤ h ∧ h ≤ 2) ∧
    (op = .decrypt → out.isSome ∧ key.isSome) ∧ (op = .verify → key.isSome) := by
  obtain ⟨toks, d, h'⟩ := argv_outcome_is_token_outcome env g argv
  exact operation_started_wellformed toks d op inp out key c h ne (h'.symm.trans hr)

/-- exit status 0 iff information was printed or the operation that was started succeeded -/
theorem argv_exit_zero_iff_success (env : Env) (g : GState) (argv : List Bytes) (o : Outcome)
    (ho : (getVOptArgv resetFixed env g argv).1 = .ok o) (r : Bool) :
    exitStatus o r = 0 ↔ (o = .info ∨ ((∃ op inp out key c h ne, o = .run op inp out key c h ne) ∧ r = true)) := by
  obtain ⟨toks, d, h'⟩ := argv_outcome_is_token_outcome env g argv
  exact exit_zero_iff_success toks d o (h'.symm.trans ho) r

/-- the bound on `getopt_long` calls built into the model's loop is never the reason a scan stops -/
theorem argv_scan_fuel_irrelevant (argv : List Bytes) (g : GState) (env : Env) (p : Pak) (f : Nat) (hf : fuelFor argv g ≤ f) :
    loop argv f g env p = loop argv (fuelFor argv g) g env p :=
  Proofs.Getopt.loop_fuel_irrelevant argv g env p f hf

/-- non-vacuity and spelling: `Wencry -ne --inp=F --cm 3 -oG` (cluster, abbreviation, attached values) starts a CFB encryption of F into G -/
example : (getVOptArgv resetFixed ⟨[[70]], [[71]]⟩ GState.fresh
    [[87], [45, 110, 101], [45, 45, 105, 110, 112, 61, 70], [45, 45, 99, 109], [51], [45, 111, 71]]).1.toOption =
    some (.run .encrypt [70] (some [71]) none 3 0 true) := by decide

/-- generated-data obligation: the option tables regenerated from valget/getopts.cpp stay inside what Model/Getopt.lean models of
    glibc: no optional arguments ("::" or has_arg = 2), no `W;`, default ordering (the string does not start with '+', '-' or ':'),
    and every option `getopt_long` can deliver is one the model of `parseOpts` knows (`m` is delivered and then rejected) -/
theorem option_tables_within_model :
    (Gen.longOpts.all fun e => e.2.1 ≤ 1) = true ∧
    (Gen.shortOpts.head? ≠ some 43 ∧ Gen.shortOpts.head? ≠ some 45 ∧ Gen.shortOpts.head? ≠ some 58) ∧
    ((Gen.shortOpts.zip Gen.shortOpts.tail).all fun x => !(x.1 = 58 && x.2 = 58) && !(x.1 = 87 && x.2 = 59)) = true ∧
    (Gen.longOpts.all fun e => tokOf ⟨[], []⟩ (.opt e.2.2 (some [])) != Tok.unknown) = true ∧
    ((Gen.shortOpts.filter (· ≠ 58)).all fun c => tokOf ⟨[], []⟩ (.opt c.toNat (some [])) != Tok.unknown) = true := by
  decide

/-- generated-data obligations: `check_ctype` / `check_htype` tabulated through the compiled functions for -8 … 300 are the model's range
    checks, and the `case` labels of `parseOpts` are exactly the option values the model of `parseOpts` handles (`m` has no label) -/
theorem range_checks_are_the_compiled_ones :
    ((List.range 309).all fun j => Gen.checkCtypeTable.getD j false == checkCtype ((j : Int) - 8)) = true ∧
    ((List.range 309).all fun j => Gen.checkHtypeTable.getD j false == checkHtype ((j : Int) - 8)) = true ∧
    Gen.checkCtypeTable.length = 309 ∧ Gen.checkHtypeTable.length = 309 := by
  decide +kernel

theorem parseOpts_case_labels_are_the_modelled_ones :
    (Gen.parseOptsCases.all fun v => tokOf ⟨[], []⟩ (.opt v (some [])) != Tok.unknown && tokOf ⟨[], []⟩ (.opt v (some [])) != Tok.m []) = true ∧
    ([101, 100, 118, 86, 104, 110, 105, 111, 107, 1, 2].all fun v => Gen.parseOptsCases.contains v) = true ∧
    Gen.parseOptsCases.length = 11 := by
  decide

end argv

end Wencry.Props.C17
