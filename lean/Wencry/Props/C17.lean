/-
C17 — Command line: no crash on any option vector; exit 0 iff the operation succeeded.
Quantifier: all sequences of options `getopt_long` can return on the documented grammar (one token per option with its argument;
abbreviated long options, clustered short options and the interactive prompt mode are outside the model).
-/
import Wencry.Proofs.CliCorrect
namespace Wencry.Props.C17
open Wencry Wencry.Model.Cli Wencry.Proofs.Cli

/-- no fault (NULL handle or key passed on, key buffer overrun) for any option vector -/
theorem never_faults (toks : List Tok) (d : Bool) : ∃ o, getVOpt toks d = .ok o := getVOpt_no_fault toks d

/-- an operation is started only with every handle it dereferences present, a 16-byte key and modes in range -/
theorem operation_started_wellformed (toks : List Tok) (d : Bool) (op : Op) (inp : Bytes) (out key : Option Bytes) (c h : Int) (ne : Bool)
    (hr : getVOpt toks d = .ok (.run op inp out key c h ne)) :
    settingsOk c h = true ∧ (∀ k, key = some k → k.length = 16) ∧
    (op = .encrypt → out.isSome ∧ 0 ≤ c ∧ c ≤ 4 ∧ 0 ≤ h ∧ h ≤ 2) ∧
    (op = .decrypt → out.isSome ∧ key.isSome) ∧ (op = .verify → key.isSome) :=
  run_wellformed toks d op inp out key c h ne hr

/-- exit status 0 exactly when version or help was requested or the operation ran and succeeded; otherwise non-zero -/
theorem exit_zero_iff_success (toks : List Tok) (d : Bool) (o : Outcome) (ho : getVOpt toks d = .ok o) (r : Bool) :
    exitStatus o r = 0 ↔ (o = .info ∨ ((∃ op inp out key c h ne, o = .run op inp out key c h ne) ∧ r = true)) :=
  exit_zero_iff toks d o ho r

/-- the documented misuses end in a diagnostic (status 1): no mode or two modes; a failing option; missing input, key or output -/
theorem no_or_two_modes_is_diagnosed (toks : List Tok) (d : Bool) (h : modeCount toks ≠ 1) : getVOpt toks d = .ok .diag :=
  no_or_two_modes toks d h
theorem bad_option_is_diagnosed (toks : List Tok) (d : Bool) (t : Tok) (ht : t ∈ toks)
    (hbad : t = .unknown ∨ (∃ a, t = .m a) ∨ (∃ p, t = .i p false) ∨ (∃ p, t = .o p false) ∨
            (∃ a, t = .k a ∧ Model.Base64.isValidB64 a = false) ∨
            (∃ a, t = .cmode a ∧ checkCtype (atoi a) = false) ∨ (∃ a, t = .hmode a ∧ checkHtype (atoi a) = false)) :
    getVOpt toks d = .ok .diag := bad_token toks d t ht hbad
theorem missing_argument_is_diagnosed (toks : List Tok) (d : Bool) (o : Outcome) (ho : getVOpt toks d = .ok o) :
    ((∀ p b, Tok.i p b ∉ toks) → (Tok.e ∈ toks ∨ Tok.d ∈ toks ∨ Tok.v ∈ toks) → o = .diag) ∧
    ((∀ a, Tok.k a ∉ toks) → (Tok.d ∈ toks ∨ Tok.v ∈ toks) → o = .diag) ∧
    ((∀ p b, Tok.o p b ∉ toks) → Tok.d ∈ toks → o = .diag) := missing_required toks d o ho

/-- with defaults, `-e -i F` writes `F.wenc` (a path too long for the default name is diagnosed) -/
theorem default_output_name (path : Bytes) (d : Bool) :
    getVOpt [.e, .i path true] d =
      .ok (if path.length + 5 < 128 ∧ d then .run .encrypt path (some (path ++ dotWenc)) none 0 0 false else .diag) :=
  default_output path d

end Wencry.Props.C17
