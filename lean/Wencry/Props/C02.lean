/-
C02 — The encrypted file equals the documented format built from standard primitives.
`Spec.Wenc.wenc` is written from the property text and the standards only (Spec/*.lean never mention the code).
Determinism is by construction (the file is a function of plaintext, key, modes, seed, T — and of B); the input is an immutable
value in the model (the harness hashes the real input file before and after).
-/
import Wencry.Proofs.EncSpec
import Wencry.Proofs.Roundtrip
namespace Wencry.Props.C02
open Wencry Wencry.Model Wencry.Model.File Wencry.Model.Stdio

/-- byte for byte: magic, mode bytes, RFC 2104 tag over [48, EOF) zero-filled to offset 48, chained SHA-1 IVs, PKCS#7-padded
    plaintext under FIPS-197 AES-128 in the SP 800-38A mode, chunks dealt round-robin to T continuous streams -/
theorem encrypted_file_is_documented_format (cfg : Cfg) (hT : 1 ≤ cfg.T) (hB : 1 ≤ cfg.B) (hH : 1 ≤ cfg.H) (ctype htype : Nat)
    (hc : ctype ≤ 4) (hh : htype ≤ 2) (key : Block) (seed plain : Bytes)
    (hs : seed.length < 2 ^ 50) (hp : plain.length < 2 ^ 50) (hTT : cfg.T < 2 ^ 40) :
    ∃ f, encrypt cfg ctype htype key seed plain = .ok f ∧ f.data = Spec.Wenc.wenc cfg.T cfg.B ctype htype key seed plain :=
  Proofs.EncSpec.encrypt_eq_spec cfg hT hB hH ctype htype hc hh key seed plain hs hp hTT

/-- its length is 48 + 20 T + 16 (⌊n/16⌋ + 1) -/
theorem encrypted_length (cfg : Cfg) (hT : 1 ≤ cfg.T) (hB : 1 ≤ cfg.B) (hH : 1 ≤ cfg.H) (ctype htype : Nat) (hc : ctype ≤ 4) (hh : htype ≤ 2)
    (key : Block) (seed plain : Bytes) (f : WFile) (he : encrypt cfg ctype htype key seed plain = .ok f) :
    f.data.length = 48 + 20 * cfg.T + 16 * (plain.length / 16 + 1) :=
  Proofs.Roundtrip.encrypt_length cfg hT hB hH ctype htype hc hh key seed plain f he

/-- generated-data obligations: the layout constants in kernel/cry.h and the magic number are the documented ones -/
theorem layout_constants :
    Gen.magicBytes = Spec.Wenc.magic ∧ Gen.c_FILE_MN_MARK = 0 ∧ Gen.c_FILE_MODE_MARK = 8 ∧ Gen.c_FILE_HMAC_MARK = 10 ∧
    Gen.c_FILE_IV_MARK = 48 ∧ Gen.c_PADDING = 38 ∧ Gen.c_FILE_TEXT_MARK = (List.range 17).map (fun t => 48 + 20 * t) ∧ Gen.c_THREAD_MAX = 16 ∧
    Gen.c_BUF_SUM = 16 * Gen.c_BUF_SZ := by decide

/-- the file does not depend on the hash-buffer size `H` (an implementation parameter): two configurations with the same worker count and
    chunk size write the same bytes — so the `H` the harness compiles in is immaterial for the production value -/
theorem file_independent_of_hash_buffer (c1 c2 : Cfg) (hT : 1 ≤ c1.T) (hB : 1 ≤ c1.B) (h1 : 1 ≤ c1.H) (h2 : 1 ≤ c2.H)
    (eT : c2.T = c1.T) (eB : c2.B = c1.B) (ctype htype : Nat) (hc : ctype ≤ 4) (hh : htype ≤ 2) (key : Block) (seed plain : Bytes)
    (hs : seed.length < 2 ^ 50) (hp : plain.length < 2 ^ 50) (hTT : c1.T < 2 ^ 40) :
    ∃ f1 f2, encrypt c1 ctype htype key seed plain = .ok f1 ∧ encrypt c2 ctype htype key seed plain = .ok f2 ∧ f1.data = f2.data := by
  obtain ⟨f1, e1, d1⟩ := encrypted_file_is_documented_format c1 hT hB h1 ctype htype hc hh key seed plain hs hp hTT
  obtain ⟨f2, e2, d2⟩ := encrypted_file_is_documented_format c2 (eT ▸ hT) (eB ▸ hB) h2 ctype htype hc hh key seed plain hs hp (eT ▸ hTT)
  exact ⟨f1, f2, e1, e2, by rw [d1, d2, eT, eB]⟩

/-- two plaintexts of the same length give files of the same length: the length of the file reveals ⌊n/16⌋ and nothing else about the plaintext -/
theorem length_depends_on_block_count_only (cfg : Cfg) (hT : 1 ≤ cfg.T) (hB : 1 ≤ cfg.B) (hH : 1 ≤ cfg.H) (ctype htype : Nat) (hc : ctype ≤ 4) (hh : htype ≤ 2)
    (k1 k2 : Block) (s1 s2 p1 p2 : Bytes) (f1 f2 : WFile) (he1 : encrypt cfg ctype htype k1 s1 p1 = .ok f1) (he2 : encrypt cfg ctype htype k2 s2 p2 = .ok f2)
    (hl : p1.length / 16 = p2.length / 16) : f1.data.length = f2.data.length := by
  rw [encrypted_length cfg hT hB hH ctype htype hc hh k1 s1 p1 f1 he1, encrypted_length cfg hT hB hH ctype htype hc hh k2 s2 p2 f2 he2, hl]
end Wencry.Props.C02
