/-
C10 — The five mode stream objects equal NIST SP 800-38A; decryptors invert encryptors.
-/
import Wencry.Generated.Consts
import Wencry.Proofs.CtrPosition
import Wencry.Proofs.ModesCorrect
import Wencry.Proofs.ModesConverse
import Wencry.Proofs.AesCorrect
namespace Wencry.Props.C10
open Wencry Wencry.Model.Modes

/-- the concrete block functions the objects are constructed with are FIPS-197 cipher / inverse cipher under the key -/
theorem cryptFn_eq (k : Kind) (key : Block) :
    cryptFn k key = if k.usesDecryptCore then Spec.AES.invCipher key else Spec.AES.cipher key := by
  funext b
  unfold cryptFn
  cases h : k.usesDecryptCore <;> simp [Proofs.Aes.aes_encryptK, Proofs.Aes.aes_decryptK, Proofs.Aes.aes_encrypt_eq_spec, Proofs.Aes.aes_decrypt_eq_spec]

/-- every encryptor object the factory creates produces the SP 800-38A output of its mode under AES-128, for every key,
    IV and list of blocks of any length -/
theorem encryptor_is_sp800_38a (mode : Nat) (key iv : Block) (s : Stream) (hs : create true mode key iv = some s) (bs : List Block) :
    (s.run bs).2 = Spec.Modes.encrypt mode (Spec.AES.cipher key) iv bs := by
  unfold create at hs
  cases hk : factoryKind true mode with
  | none => simp [hk] at hs
  | some k =>
    simp only [hk, Option.map_some, Option.some.injEq] at hs
    subst hs
    have hnd : k.usesDecryptCore = false := by
      rcases Proofs.Modes.factoryKind_true_cases hk with ⟨_, rfl⟩ | ⟨_, rfl⟩ | ⟨_, rfl⟩ | ⟨_, rfl⟩ | ⟨_, rfl⟩ <;> rfl
    rw [cryptFn_eq, hnd]
    exact Proofs.Modes.run_encrypt_eq mode k hk _ iv bs

/-- every decryptor object produces the SP 800-38A decryption -/
theorem decryptor_is_sp800_38a (mode : Nat) (key iv : Block) (s : Stream) (hs : create false mode key iv = some s) (bs : List Block) :
    (s.run bs).2 = Spec.Modes.decrypt mode (Spec.AES.cipher key) (Spec.AES.invCipher key) iv bs := by
  unfold create at hs
  cases hk : factoryKind false mode with
  | none => simp [hk] at hs
  | some k =>
    simp only [hk, Option.map_some, Option.some.injEq] at hs
    subst hs
    rw [cryptFn_eq]
    exact Proofs.Modes.run_decrypt_eq mode k hk _ _ iv bs

/-- CTR increments the whole 128-bit big-endian counter, with carries -/
theorem ctr_counter (iv : Block) : ctrInc iv = Spec.Modes.inc128 iv := Proofs.Modes.ctrInc_eq iv

/-- the matching decryptor restores the input when fed the same stream in the same order -/
theorem decryptor_inverts_encryptor (mode : Nat) (key iv : Block) (se sd : Stream)
    (he : create true mode key iv = some se) (hd : create false mode key iv = some sd) (bs : List Block) :
    (sd.run (se.run bs).2).2 = bs := by
  rw [encryptor_is_sp800_38a mode key iv se he, decryptor_is_sp800_38a mode key iv sd hd]
  exact Proofs.Modes.spec_decrypt_encrypt mode _ _ (fun x => Proofs.Aes.spec_invCipher_cipher key x) iv bs

/-- feeding a stream in several calls continues where the previous call stopped -/
theorem stream_continuity (s : Stream) (xs ys : List Block) :
    s.run (xs ++ ys) = (((s.run xs).1.run ys).1, (s.run xs).2 ++ ((s.run xs).1.run ys).2) := Proofs.Modes.run_append s xs ys

/-- the converse: the matching encryptor restores a ciphertext stream from what the decryptor produced, for every block list (not only
    for ciphertexts the encryptor made) — so each decryptor object is a bijection on block lists -/
theorem encryptor_inverts_decryptor (mode : Nat) (key iv : Block) (se sd : Stream)
    (he : create true mode key iv = some se) (hd : create false mode key iv = some sd) (cs : List Block) :
    (se.run (sd.run cs).2).2 = cs := by
  rw [decryptor_is_sp800_38a mode key iv sd hd, encryptor_is_sp800_38a mode key iv se he]
  exact Proofs.Modes.spec_encrypt_decrypt mode _ _ (fun x => Proofs.Aes.spec_cipher_invCipher key x) iv cs

/-- two different ciphertext streams never decrypt to the same plaintext stream under one key and IV (what lets C05 conclude
    "different plaintext or failure" from "different body") -/
theorem decryptor_injective (mode : Nat) (key iv : Block) (sd : Stream) (hd : create false mode key iv = some sd) (c1 c2 : List Block)
    (h : (sd.run c1).2 = (sd.run c2).2) : c1 = c2 := by
  rw [decryptor_is_sp800_38a mode key iv sd hd, decryptor_is_sp800_38a mode key iv sd hd] at h
  exact Proofs.Modes.spec_decrypt_injective mode _ _ (fun x => Proofs.Aes.spec_cipher_invCipher key x) iv c1 c2 h

/-- two different plaintext streams never encrypt to the same ciphertext stream under one key and IV -/
theorem encryptor_injective (mode : Nat) (key iv : Block) (se : Stream) (he : create true mode key iv = some se) (p1 p2 : List Block)
    (h : (se.run p1).2 = (se.run p2).2) : p1 = p2 := by
  rw [encryptor_is_sp800_38a mode key iv se he, encryptor_is_sp800_38a mode key iv se he] at h
  exact Proofs.Modes.spec_encrypt_injective mode _ _ (fun x => Proofs.Aes.spec_invCipher_cipher key x) iv p1 p2 h

/-- causality: the first n output blocks are determined by the first n input blocks, whatever follows — the stream can be cut into
    chunks of any size (the pipeline relies on this together with `stream_continuity`) -/
theorem stream_prefix (s : Stream) (xs ys : List Block) : (s.run (xs ++ ys)).2.take xs.length = (s.run xs).2 :=
  Proofs.Modes.run_prefix s xs ys

/-- unknown mode numbers: the factory returns NULL, in both directions -/
theorem factory_null (isenc : Bool) (mode : Nat) (h : 4 < mode) (key iv : Block) : (create isenc mode key iv).isNone := by
  unfold create factoryKind
  cases isenc <;> (rcases mode with _|_|_|_|_|m <;> simp_all <;> omega)

/-- non-vacuity: the factory does create objects for modes 0..4 -/
example : ∀ m, m ≤ 4 → (factoryKind true m).isSome ∧ (factoryKind false m).isSome := by decide

/-- generated-data obligation: which mode numbers 0..255 `AesFactory::createCryMaster` knows, tabulated through the compiled factory on
    every run, is what the model's factory knows -/
theorem factory_knows_the_compiled_modes :
    ((List.range 256).all fun t => Gen.cipherKnownEnc.getD t false == (factoryKind true t).isSome) = true ∧
    ((List.range 256).all fun t => Gen.cipherKnownDec.getD t false == (factoryKind false t).isSome) = true := by
  decide +kernel

/-- the position law of CTR: block j of a stream started at `iv` is block 0 of a stream started at `iv + j` (mod 2^128) fed the same input
    block, and after n blocks the object is the one a fresh factory creates at `iv + n`. The harness suite `ctrlong` uses this as its oracle for
    streams of 2^27 blocks, where no reference implementation is asked. -/
theorem ctr_position_law (isenc : Bool) (key iv : Block) (s s' : Stream) (hs : create isenc 2 key iv = some s) (bs : List Block) (j : Nat)
    (hj : j < bs.length) (hs' : create isenc 2 key (Proofs.CtrPosition.addCtr iv j) = some s') :
    (s.run bs).2[j]? = (s'.run [bs[j]'hj]).2[0]? :=
  Proofs.CtrPosition.ctr_position_law isenc key iv s s' hs bs j hj hs'

theorem ctr_object_after_n_blocks (isenc : Bool) (key iv : Block) (s : Stream) (hs : create isenc 2 key iv = some s) (bs : List Block) :
    create isenc 2 key (Proofs.CtrPosition.addCtr iv bs.length) = some (s.run bs).1 :=
  Proofs.CtrPosition.ctr_state_after isenc key iv s hs bs

end Wencry.Props.C10
