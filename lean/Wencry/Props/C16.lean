/-
C16 — Base64 codec is RFC 4648 and the key validator accepts exactly 16-byte keys.
-/
import Wencry.Generated.Consts
import Wencry.Proofs.Base64Correct
namespace Wencry.Props.C16
open Wencry Wencry.Model.Base64

theorem encode_is_rfc4648 (bs : Bytes) : hexToBase64 bs = Spec.Base64.encode bs ++ [0] := Proofs.Base64.hexToBase64_eq bs
theorem decode_inverts_encode (bs : Bytes) : base64ToHex (Spec.Base64.encode bs) = .ok (some bs) := Proofs.Base64.base64ToHex_encode bs
/-- hence the encoder loses nothing: two byte strings with the same encoding are equal (the key printed at encryption time identifies
    the key bytes) -/
theorem encode_injective (b1 b2 : Bytes) (h : Spec.Base64.encode b1 = Spec.Base64.encode b2) : b1 = b2 := by
  have h1 := decode_inverts_encode b1
  rw [h, decode_inverts_encode b2] at h1
  simpa using h1.symm

/-- the validator accepts exactly: 24 characters, 22 from the alphabet followed by "==" (the 24-character encodings of 16-byte
    values; non-canonical trailing bits in the 22nd character are tolerated and decode to 16 bytes all the same) -/
theorem validator_accepts_exactly (s : Bytes) :
    isValidB64 s = true ↔ s.length = 24 ∧ (∀ i, i < 22 → Spec.Base64.isAlphabet (s.getD i 0) = true) ∧ s.getD 22 0 = eqChar ∧ s.getD 23 0 = eqChar :=
  Proofs.Base64.isValidB64_iff s

/-- every accepted key decodes to exactly 16 bytes inside the key buffer (no table read or buffer write out of bounds) -/
theorem accepted_key_is_16_bytes (s : Bytes) (h : isValidB64 s = true) : ∃ k, getArgsKey s = .ok (some k) ∧ k.length = 16 :=
  Proofs.Base64.accepted_decodes_16 s h

/-- the key string printed at encryption is accepted and yields the same key -/
theorem printed_key_roundtrip (k : Bytes) (hk : k.length = 16) :
    isValidB64 (Spec.Base64.encode k) = true ∧ getArgsKey (Spec.Base64.encode k) = .ok (some k) :=
  Proofs.Base64.printed_key_accepted k hk

/-- generated-data obligations -/
theorem table_b64 : ∀ i : BitVec 6, Gen.b64T i = Spec.Base64.sym i.toNat := Proofs.Base64.b64T_eq_spec
theorem table_hex_inverts_b64 : ∀ i : BitVec 6, Gen.hexT ((Gen.b64T i).truncate 7) = i.zeroExtend 8 ∧ (Gen.b64T i).toNat < 128 := Proofs.Base64.hexT_b64T

/-- non-vacuity: an accepted key exists (the encoding of sixteen zero bytes) -/
example : isValidB64 (Spec.Base64.encode (List.replicate 16 0)) = true := (printed_key_roundtrip _ (by simp)).1

/-- generated-data obligation: the alphabet test `is_base64` (with `std::isalnum` in the C locale), tabulated through the compiled
    function for every byte on every run, is the model's — this also removes `isalnum` from what has to be trusted -/
theorem alphabet_test_is_the_compiled_one : ∀ c : BitVec 8, Gen.isBase64Table.getD c.toNat false = Model.Base64.isBase64 c := by
  decide +kernel

end Wencry.Props.C16
