/-
Negative results about the PINNED tree (before repairs F2/F3), kept so that what the repairs bought is itself machine-checked:
on the pinned worker protocol (Model/PipePinned.lean) there are schedules under which (C03) a chunk is lost or exported
untransformed, (C14) a worker transforms a block of a buffer the I/O thread has not handed over, and (C04) the system
deadlocks. Each is a concrete schedule evaluated by the kernel. These are not among the 18 property files; they document the
defects recorded as `fixed` in known_findings.json (F2, F8, F9).
-/
import Wencry.Model.PipePinned
import Wencry.Model.Getopt
namespace Wencry.Props.Pinned
open Wencry Wencry.Model.Pipe Wencry.Model.PipePinned Wencry.Model.IoBuffer

private def blk7 : Block := Block.ofListD (List.replicate 16 7)
private def inp1 : Input := fun p => if p = 0 then ([blk7], .final) else ([], .nodata)
private def io (n : Nat) : List (Option Nat) := List.replicate n none
private def w (n : Nat) : List (Option Nat) := List.replicate n (some 0)

/-- C03 fails on the pinned protocol: the worker looks at its buffer before it is loaded, the I/O thread then marks it READY, the
    worker hands it straight back; every thread returns, one chunk was "exported", no block was ever transformed and the output is
    not the sequential output (here: the final chunk's bytes are missing altogether) -/
theorem pinned_chunk_not_transformed :
    let s := runPinned toyF inp1 true 1 (fun _ => 0)
      ([some 0] ++ io 5 ++ w 2 ++ io 10 ++ w 4)
    s.iopc = .done ∧ s.wpc 0 = .done ∧ s.nexp = 1 ∧ s.log = [] ∧ s.out ≠ seqOut toyF inp1 true 1 (fun _ => 0) 1 := by
  decide +kernel

/-- C14 fails on the pinned protocol: a worker transforms a block while its buffer is still EMPTY and the I/O thread is inside
    its region for it (between `load_buffer` and `set_ready`) -/
theorem pinned_ownership_violation :
    (runPinned toyF inp1 true 1 (fun _ => 0) (io 4 ++ w 2)).viol = true := by
  decide +kernel

/-- C04 fails on the pinned protocol: the worker consumes its chunk before it is READY and returns on the next look; the buffer
    stays READY forever, the I/O thread sleeps on it: no thread is enabled although the I/O thread has not returned -/
theorem pinned_deadlock :
    let s := runPinned toyF inp1 true 1 (fun _ => 0) (io 4 ++ w 5 ++ io 3 ++ w 4 ++ io 3)
    s.iopc = .sleepUpd ∧ s.wpc 0 = .done ∧ (s.buf 0).st = .ready ∧
    (stepPinned toyF inp1 true 1 s none).isNone ∧ (stepPinned toyF inp1 true 1 s (some 0)).isNone := by
  decide +kernel

/-! ### C15 on the pinned option parser (before repair F8): `optind = 1` does not reset glibc's cluster cursor -/
section getopt
open Wencry.Model.Getopt Wencry.Model.Cli

private def envG : Env := ⟨[[97]], [[98]]⟩
/-- `Wencry -edv`: rejected at `d` ("Only one mode can be specified"), the scan is abandoned with `v` unread -/
private def cmdA : List Bytes := [[87], [45, 101, 100, 118]]
/-- `Wencry -e -i a -o b` -/
private def cmdB : List Bytes := [[87], [45, 101], [45, 105], [97], [45, 111], [98]]

/-- in a fresh process `-e -i a -o b` starts an encryption; parsed in the same process right after the rejected `-edv` it is
    rejected: the stale `v` is delivered first and the word `-e` is skipped, so the command is taken for a verification without key.
    (With `-d … -k K` in place of `-e` the second command would silently run as a verification instead of a decryption.) -/
theorem pinned_getopt_cursor_survives :
    (getVOptArgv resetPinned envG GState.fresh cmdB).1.toOption = some (.run .encrypt [97] (some [98]) none 0 0 false) ∧
    (getVOptArgv resetPinned envG (getVOptArgv resetPinned envG GState.fresh cmdA).2 cmdB).1.toOption = some .diag ∧
    (getVOptArgv resetFixed envG (getVOptArgv resetFixed envG GState.fresh cmdA).2 cmdB).1.toOption =
      some (.run .encrypt [97] (some [98]) none 0 0 false) := by
  decide +kernel

end getopt

/-! ### C17 on the pinned number parsing (before repair F9): `atoi` narrows the `long` of `strtol` to `int` -/
section atoi
open Wencry.Model.Cli

/-- `(int)v` for a `long` v -/
private def toInt32 (v : Int) : Int := let r := v % 4294967296; if r ≥ 2147483648 then r - 4294967296 else r
/-- the pinned `atoi`: `strtol` clamped to the `long` range, then narrowed to `int` -/
private def atoiPinned (s : Bytes) : Int :=
  let v := atoi s
  toInt32 (if v > 9223372036854775807 then 9223372036854775807 else if v < -9223372036854775808 then -9223372036854775808 else v)

/-- `--cmode 4294967297` passed the range check as mode 1 and `--cmode -99999999999999999999` as mode 0 on the pinned tree; the repaired
    code (the model's `atoi` on unbounded integers, values beyond `int` invalid) rejects both -/
theorem pinned_mode_number_truncated :
    checkCtype (atoiPinned [52, 50, 57, 52, 57, 54, 55, 50, 57, 55]) = true ∧ atoiPinned [52, 50, 57, 52, 57, 54, 55, 50, 57, 55] = 1 ∧
    checkCtype (atoiPinned ([45] ++ List.replicate 20 57)) = true ∧
    checkCtype (atoi [52, 50, 57, 52, 57, 54, 55, 50, 57, 55]) = false ∧ checkCtype (atoi ([45] ++ List.replicate 20 57)) = false := by
  decide +kernel

end atoi

end Wencry.Props.Pinned
