/-
C05 — A modified encrypted file never decrypts successfully to different plaintext.
No theorem can say that a MAC is never forged; what is proved is the decision logic, reducing every accepted modification to
one of three explicit cases: (A) only bytes that carry no information differ (the gap behind the tag, or nothing that matters)
and the plaintext delivered is the original; (B) KNOWN FINDING K1: only the cipher-mode byte (offset 8, outside the MAC) was
changed to another valid mode; (C) the named event `Forged`: the file carries a tag that is valid under the secret key for a
(hash mode, authenticated bytes) pair encryption never produced.
-/
import Wencry.Proofs.Roundtrip
import Wencry.Proofs.FileLogic
namespace Wencry.Props.C05
open Wencry Wencry.Model Wencry.Model.File Wencry.Model.Stdio Wencry.Proofs.FileLogic

/-- the named event: `F'` is accepted although its (hash mode, bytes from offset 48 on) differ from those of the encrypted file `F` -/
def Forged (cfg : Cfg) (key : Block) (F F' : Bytes) : Prop :=
  (F'.getD 9 0, F'.drop 48) ≠ (F.getD 9 0, F.drop 48) ∧ Accepted cfg key F'

theorem accepted_of_decrypt (cfg : Cfg) (hH : 1 ≤ cfg.H) (key : Block) (F : Bytes) (out : WFile) (hd : decrypt cfg key F = .ok (0, out)) :
    Accepted cfg key F := by
  have hv : executeVerify cfg key F = .ok 0 := (verify_iff_decrypt cfg hH key F).mpr ⟨out, hd⟩
  rw [← verify_zero_iff cfg hH key F]
  unfold executeVerify at hv
  cases hvv : verify cfg key F with
  | error e => simp [hvv, bind, Except.bind] at hv
  | ok r =>
    obtain ⟨c0, c, h⟩ := r
    simp [hvv, bind, Except.bind, pure, Except.pure] at hv
    subst hv
    exact ⟨c, h, rfl⟩

/-- full classification of every accepted file, relative to the output `f` of an encryption of `plain` -/
theorem tampered_file_classification (cfg : Cfg) (hT : 1 ≤ cfg.T) (hB : 1 ≤ cfg.B) (hH : 1 ≤ cfg.H) (ctype htype : Nat) (hc : ctype ≤ 4) (hh : htype ≤ 2)
    (key : Block) (seed plain : Bytes) (f : WFile) (he : encrypt cfg ctype htype key seed plain = .ok f)
    (F' : Bytes) (out' : WFile) (hd : decrypt cfg key F' = .ok (0, out')) :
    (F'.drop 48 = f.data.drop 48 ∧ F'.getD 8 0 = f.data.getD 8 0 ∧ out'.data = plain) ∨
    (F'.drop 48 = f.data.drop 48 ∧ F'.getD 9 0 = f.data.getD 9 0 ∧ F'.getD 8 0 ≠ f.data.getD 8 0 ∧ (F'.getD 8 0).toNat ≤ 4) ∨
    Forged cfg key f.data F' := by
  have hacc := accepted_of_decrypt cfg hH key F' out' hd
  by_cases h48 : F'.drop 48 = f.data.drop 48
  · by_cases h9 : F'.getD 9 0 = f.data.getD 9 0
    · by_cases h8 : F'.getD 8 0 = f.data.getD 8 0
      · obtain ⟨out, ho, hp⟩ := Proofs.Roundtrip.roundtrip cfg hT hB hH ctype htype hc hh key seed plain f he
        have := decrypt_congr cfg hH key F' f.data out' out h8 h48 hd ho
        exact Or.inl ⟨h48, h8, by rw [this, hp]⟩
      · exact Or.inr (Or.inl ⟨h48, h9, h8, hacc.2.2.1⟩)
    · refine Or.inr (Or.inr ⟨?_, hacc⟩)
      intro h; exact h9 (congrArg Prod.fst h)
  · refine Or.inr (Or.inr ⟨?_, hacc⟩)
    intro h; exact h48 (congrArg Prod.snd h)

/-- C05 (partial: outside case (B), the known finding): if decryption of any file succeeds, then — unless the cipher-mode byte
    alone was replaced or a tag was forged — it delivers exactly the plaintext that was encrypted -/
theorem success_implies_original_plaintext_partial (cfg : Cfg) (hT : 1 ≤ cfg.T) (hB : 1 ≤ cfg.B) (hH : 1 ≤ cfg.H) (ctype htype : Nat) (hc : ctype ≤ 4) (hh : htype ≤ 2)
    (key : Block) (seed plain : Bytes) (f : WFile) (he : encrypt cfg ctype htype key seed plain = .ok f)
    (F' : Bytes) (out' : WFile) (hd : decrypt cfg key F' = .ok (0, out'))
    (hnoK1 : F'.getD 8 0 = f.data.getD 8 0) (hnoForgery : ¬ Forged cfg key f.data F') : out'.data = plain := by
  rcases tampered_file_classification cfg hT hB hH ctype htype hc hh key seed plain f he F' out' hd with h | h | h
  · exact h.2.2
  · exact absurd hnoK1 h.2.2.1
  · exact absurd h hnoForgery

/-- KNOWN FINDING K1 as a theorem about the code as it is: acceptance does not depend on the cipher-mode byte beyond its range
    check, so replacing it by any other valid mode number yields an accepted file (which then decrypts under the wrong mode) -/
theorem finding_mode_byte_not_authenticated (cfg : Cfg) (key : Block) (F : Bytes) (hF : Accepted cfg key F) (c' : Byte) (hc' : c'.toNat ≤ 4) :
    Accepted cfg key (F.set 8 c') := by
  obtain ⟨h1, h2, _, h4, t, ht, htt⟩ := hF
  have hlen : (F.set 8 c').length = F.length := by simp
  have e9 : (F.set 8 c').getD 9 0 = F.getD 9 0 := by
    simp [List.getD_eq_getElem?_getD, List.getElem?_set]
  have e8 : (F.set 8 c').getD 8 0 = c' := by
    have h8 : 8 < F.length := by omega
    simp [List.getD_eq_getElem?_getD, List.getElem?_set, h8]
  have d48 : (F.set 8 c').drop 48 = F.drop 48 := by
    apply List.ext_getElem? ; intro i; simp [List.getElem?_drop, List.getElem?_set]; omega
  have d10 : (F.set 8 c').drop 10 = F.drop 10 := by
    apply List.ext_getElem? ; intro i; simp [List.getElem?_drop, List.getElem?_set]; omega
  have t8 : (F.set 8 c').take 8 = F.take 8 := by
    apply List.ext_getElem?; intro i
    by_cases hi : i < 8
    · have : ¬ 8 = i := by omega
      simp [List.getElem?_take, List.getElem?_set, hi, this]
    · simp [List.getElem?_take, hi]
  refine ⟨by rw [t8]; exact h1, by rw [hlen]; exact h2, by rw [e8]; exact hc', by rw [e9]; exact h4, t, ?_, ?_⟩
  · rw [e9, d48]; exact ht
  · rw [d10]; exact htt

end Wencry.Props.C05
