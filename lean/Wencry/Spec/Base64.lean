/-
RFC 4648 §4 base64 (standard alphabet, '=' padding), written from the RFC.
-/
import Wencry.Basic
namespace Wencry.Spec.Base64

/-- Table 1: the base 64 alphabet -/
def alphabet : List Char := "ABCDEFGHIJKLMNOPQRSTUVWXYZabcdefghijklmnopqrstuvwxyz0123456789+/".toList

def sym (v : Nat) : Byte := BitVec.ofNat 8 (alphabet.getD (v % 64) 'A').toNat

def padChar : Byte := BitVec.ofNat 8 '='.toNat

/-- §4: 24-bit groups → four 6-bit values; final 8 bits → two characters and "=="; final 16 bits → three and "=" -/
def encode : Bytes → Bytes
  | a :: b :: c :: r =>
    let n := a.toNat * 65536 + b.toNat * 256 + c.toNat
    sym (n / 262144) :: sym (n / 4096) :: sym (n / 64) :: sym n :: encode r
  | [a, b] =>
    let n := a.toNat * 65536 + b.toNat * 256
    [sym (n / 262144), sym (n / 4096), sym (n / 64), padChar]
  | [a] =>
    let n := a.toNat * 65536
    [sym (n / 262144), sym (n / 4096), padChar, padChar]
  | [] => []

/-- value of an alphabet character -/
def valOf (c : Byte) : Option Nat :=
  let i := alphabet.findIdx (fun ch => ch.toNat = c.toNat)
  if i < 64 then some i else none

def isAlphabet (c : Byte) : Bool := (valOf c).isSome

private def ascii (s : String) : Bytes := s.toList.map fun c => BitVec.ofNat 8 c.toNat

/-- RFC 4648 §10 test vectors -/
example : encode (ascii "") = ascii "" ∧ encode (ascii "f") = ascii "Zg==" ∧ encode (ascii "fo") = ascii "Zm8=" ∧
    encode (ascii "foo") = ascii "Zm9v" ∧ encode (ascii "foob") = ascii "Zm9vYg==" ∧ encode (ascii "fooba") = ascii "Zm9vYmE=" ∧
    encode (ascii "foobar") = ascii "Zm9vYmFy" := by decide +kernel

end Wencry.Spec.Base64
