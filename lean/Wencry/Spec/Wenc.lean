/-
The documented `.wenc` format (property C02), written from its description and the standards only:
magic, mode bytes, HMAC tag zero-filled to offset 48, one 20-byte IV per worker by chained SHA-1 of the seed,
then the PKCS#7-padded plaintext under AES-128 in the selected SP 800-38A mode, keyed by the user key, started from the
first 16 bytes of the first IV, chunks of `B` blocks dealt round-robin to `T` continuous cipher streams.
-/
import Wencry.Basic
import Wencry.Spec.AES
import Wencry.Spec.Modes
import Wencry.Spec.Hash
import Wencry.Spec.HMAC
namespace Wencry.Spec.Wenc

def magic : Bytes := [0xC3, 0xA5, 0xC3, 0xA5, 0xC3, 0xA5, 0xC3, 0xA5]

/-- RFC 5652 §6.3 (PKCS#7) padding to a multiple of 16: always 1..16 bytes, each equal to the pad length -/
def pkcs7 (p : Bytes) : Bytes :=
  let n := 16 - p.length % 16
  p ++ List.replicate n (BitVec.ofNat 8 n)

/-- inverse: strip the number of bytes named by the last byte (when it is a valid length) -/
def unpkcs7 (p : Bytes) : Option Bytes :=
  match p.getLast? with
  | none => none
  | some l => if 1 ≤ l.toNat ∧ l.toNat ≤ 16 ∧ l.toNat ≤ p.length then some (p.take (p.length - l.toNat)) else none

/-- IV chain: iv₀ = SHA-1(seed), iv_{i+1} = SHA-1(iv_i); `T` of them -/
def ivChain : Nat → Bytes → List Bytes
  | 0, _ => []
  | n + 1, x => let h := Hash.SHA1.hash x; h :: ivChain n h

/-- successive groups of `B` blocks (the last one may be shorter) -/
def chunksOf (B : Nat) (bl : List Block) : List (List Block) :=
  let rec go : Nat → List Block → List (List Block)
    | 0, _ => []
    | n + 1, l => if l.isEmpty then [] else l.take B :: go n (l.drop B)
  go bl.length bl

/-- the blocks stream `i` sees: chunks i, i+T, i+2T, … concatenated -/
def streamInput (T : Nat) (chunks : List (List Block)) (i : Nat) : List Block :=
  ((List.range chunks.length).filter (fun j => j % T = i)).flatMap fun j => chunks.getD j []

/-- ciphertext body: every stream is one continuous mode encryption from the same IV; chunk j of the output is the
    slice of stream (j mod T)'s output at block offset (j / T)·B -/
def body (T B mode : Nat) (key iv0 : Block) (plain : Bytes) : Bytes :=
  let blocks := (splitBlocks (pkcs7 plain)).1
  let chunks := chunksOf B blocks
  let E := AES.cipher key
  let outs := (List.range T).map fun i => Modes.encrypt mode E iv0 (streamInput T chunks i)
  joinBlocks ((List.range chunks.length).flatMap fun j =>
    ((outs.getD (j % T) []).drop ((j / T) * B)).take (chunks.getD j []).length)

/-- the whole file -/
def wenc (T B cmode hmode : Nat) (key : Block) (seed plain : Bytes) : Bytes :=
  let ivs := ivChain T seed
  let iv0 := Block.ofListD (ivs.getD 0 [])
  let auth := ivs.flatten ++ body T B cmode key iv0 plain
  let tag := HMAC.hmac (HMAC.hashOf hmode) key.toList auth
  magic ++ [BitVec.ofNat 8 cmode, BitVec.ofNat 8 hmode] ++ tag ++ List.replicate (38 - tag.length) 0 ++ auth

end Wencry.Spec.Wenc
