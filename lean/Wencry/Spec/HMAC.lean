/-
RFC 2104 HMAC over a hash with block size B = 64 (SHA-1, MD5, SHA-256), written from the RFC.
-/
import Wencry.Basic
import Wencry.Spec.Hash
namespace Wencry.Spec.HMAC

/-- RFC 2104 §2: H((K' ⊕ opad) ‖ H((K' ⊕ ipad) ‖ text)), K' = K zero-padded to B bytes (K hashed first if longer than B) -/
def hmac (H : Bytes → Bytes) (key text : Bytes) : Bytes :=
  let k0 := if key.length > 64 then H key else key
  let k := k0 ++ List.replicate (64 - k0.length) 0
  H (k.map (· ^^^ 0x5c) ++ H (k.map (· ^^^ 0x36) ++ text))

/-- hash numbers of the encrypted-file format: 0 SHA-1, 1 MD5, 2 SHA-256 -/
def hashOf : Nat → Bytes → Bytes
  | 0 => Hash.SHA1.hash
  | 1 => Hash.MD5.hash
  | _ => Hash.SHA256.hash

def tagLen : Nat → Nat
  | 0 => 20 | 1 => 16 | _ => 32

private def ascii (s : String) : Bytes := s.toList.map fun c => BitVec.ofNat 8 c.toNat

/-- RFC 2202 test case 2 -/
example : hexOf (hmac Hash.SHA1.hash (ascii "Jefe") (ascii "what do ya want for nothing?")) = "effcdf6ae5eb2fa2d27416d5f184df9c259a7c79" := by decide +kernel
example : hexOf (hmac Hash.MD5.hash (ascii "Jefe") (ascii "what do ya want for nothing?")) = "750c783e6ab0b503eaa86e310a5db738" := by decide +kernel
/-- RFC 4231 test case 2 -/
example : hexOf (hmac Hash.SHA256.hash (ascii "Jefe") (ascii "what do ya want for nothing?"))
    = "5bdcc146bf60754e6a042426089575c75a003f089d2739839dec58b964ec3843" := by decide +kernel

end Wencry.Spec.HMAC
