/-
FIPS-197 (AES-128), written from the standard. Nothing here mentions the repository's code.
State layout: a `Block` holds the standard's `in`/`out` byte order; state byte s[r,c] is byte `r + 4c`.
-/
import Wencry.Basic
namespace Wencry.Spec.AES

/-- §4.2.1 multiplication by x in GF(2^8) modulo x^8 + x^4 + x^3 + x + 1 -/
def xtime (a : Byte) : Byte := (a <<< 1) ^^^ (if a.msb then 0x1b else 0)

/-- §4.2 multiplication in GF(2^8), shift-and-add over the eight bits of `b` (bit 0 first) -/
def gfmulAux : Nat → Byte → Byte → Byte
  | 0, _, _ => 0
  | k + 1, a, b => (if b.getLsbD 0 then a else 0) ^^^ gfmulAux k (xtime a) (b >>> 1)

def gfmul (a b : Byte) : Byte := gfmulAux 8 a b

def gfsq (a : Byte) : Byte := gfmul a a

/-- multiplicative inverse as a^254 (0 ↦ 0), §5.1.1 -/
def gfinv (a : Byte) : Byte :=
  let a2 := gfsq a; let a4 := gfsq a2; let a8 := gfsq a4; let a16 := gfsq a8
  let a32 := gfsq a16; let a64 := gfsq a32; let a128 := gfsq a64
  gfmul a128 (gfmul a64 (gfmul a32 (gfmul a16 (gfmul a8 (gfmul a4 a2)))))

/-- §5.1.1 affine transformation: b'_i = b_i ⊕ b_{i+4} ⊕ b_{i+5} ⊕ b_{i+6} ⊕ b_{i+7} ⊕ c_i, c = 0x63 -/
def affine (b : Byte) : Byte :=
  b ^^^ b.rotateLeft 1 ^^^ b.rotateLeft 2 ^^^ b.rotateLeft 3 ^^^ b.rotateLeft 4 ^^^ 0x63

def sbox (x : Byte) : Byte := affine (gfinv x)

/-- §5.3.2 inverse S-box: inverse affine transformation followed by the field inverse -/
def invAffine (b : Byte) : Byte :=
  b.rotateLeft 1 ^^^ b.rotateLeft 3 ^^^ b.rotateLeft 6 ^^^ 0x05

def invSbox (x : Byte) : Byte := gfinv (invAffine x)


/-- FIPS-197 Figure 7 (the S-box as a table) as a decision tree; proved equal to the algebraic definition above and
    substituted for it in compiled code only (`csimp`), so that the executable specification is fast -/
def sboxTableN (n : Nat) : Byte :=
  if n < 128 then
    if n < 64 then
      if n < 32 then
        if n < 16 then
          if n < 8 then
            if n < 4 then
              if n < 2 then
                if n < 1 then
                  99
                else
                  124
              else
                if n < 3 then
                  119
                else
                  123
            else
              if n < 6 then
                if n < 5 then
                  242
                else
                  107
              else
                if n < 7 then
                  111
                else
                  197
          else
            if n < 12 then
              if n < 10 then
                if n < 9 then
                  48
                else
                  1
              else
                if n < 11 then
                  103
                else
                  43
            else
              if n < 14 then
                if n < 13 then
                  254
                else
                  215
              else
                if n < 15 then
                  171
                else
                  118
        else
          if n < 24 then
            if n < 20 then
              if n < 18 then
                if n < 17 then
                  202
                else
                  130
              else
                if n < 19 then
                  201
                else
                  125
            else
              if n < 22 then
                if n < 21 then
                  250
                else
                  89
              else
                if n < 23 then
                  71
                else
                  240
          else
            if n < 28 then
              if n < 26 then
                if n < 25 then
                  173
                else
                  212
              else
                if n < 27 then
                  162
                else
                  175
            else
              if n < 30 then
                if n < 29 then
                  156
                else
                  164
              else
                if n < 31 then
                  114
                else
                  192
      else
        if n < 48 then
          if n < 40 then
            if n < 36 then
              if n < 34 then
                if n < 33 then
                  183
                else
                  253
              else
                if n < 35 then
                  147
                else
                  38
            else
              if n < 38 then
                if n < 37 then
                  54
                else
                  63
              else
                if n < 39 then
                  247
                else
                  204
          else
            if n < 44 then
              if n < 42 then
                if n < 41 then
                  52
                else
                  165
              else
                if n < 43 then
                  229
                else
                  241
            else
              if n < 46 then
                if n < 45 then
                  113
                else
                  216
              else
                if n < 47 then
                  49
                else
                  21
        else
          if n < 56 then
            if n < 52 then
              if n < 50 then
                if n < 49 then
                  4
                else
                  199
              else
                if n < 51 then
                  35
                else
                  195
            else
              if n < 54 then
                if n < 53 then
                  24
                else
                  150
              else
                if n < 55 then
                  5
                else
                  154
          else
            if n < 60 then
              if n < 58 then
                if n < 57 then
                  7
                else
                  18
              else
                if n < 59 then
                  128
                else
                  226
            else
              if n < 62 then
                if n < 61 then
                  235
                else
                  39
              else
                if n < 63 then
                  178
                else
                  117
    else
      if n < 96 then
        if n < 80 then
          if n < 72 then
            if n < 68 then
              if n < 66 then
                if n < 65 then
                  9
                else
                  131
              else
                if n < 67 then
                  44
                else
                  26
            else
              if n < 70 then
                if n < 69 then
                  27
                else
                  110
              else
                if n < 71 then
                  90
                else
                  160
          else
            if n < 76 then
              if n < 74 then
                if n < 73 then
                  82
                else
                  59
              else
                if n < 75 then
                  214
                else
                  179
            else
              if n < 78 then
                if n < 77 then
                  41
                else
                  227
              else
                if n < 79 then
                  47
                else
                  132
        else
          if n < 88 then
            if n < 84 then
              if n < 82 then
                if n < 81 then
                  83
                else
                  209
              else
                if n < 83 then
                  0
                else
                  237
            else
              if n < 86 then
                if n < 85 then
                  32
                else
                  252
              else
                if n < 87 then
                  177
                else
                  91
          else
            if n < 92 then
              if n < 90 then
                if n < 89 then
                  106
                else
                  203
              else
                if n < 91 then
                  190
                else
                  57
            else
              if n < 94 then
                if n < 93 then
                  74
                else
                  76
              else
                if n < 95 then
                  88
                else
                  207
      else
        if n < 112 then
          if n < 104 then
            if n < 100 then
              if n < 98 then
                if n < 97 then
                  208
                else
                  239
              else
                if n < 99 then
                  170
                else
                  251
            else
              if n < 102 then
                if n < 101 then
                  67
                else
                  77
              else
                if n < 103 then
                  51
                else
                  133
          else
            if n < 108 then
              if n < 106 then
                if n < 105 then
                  69
                else
                  249
              else
                if n < 107 then
                  2
                else
                  127
            else
              if n < 110 then
                if n < 109 then
                  80
                else
                  60
              else
                if n < 111 then
                  159
                else
                  168
        else
          if n < 120 then
            if n < 116 then
              if n < 114 then
                if n < 113 then
                  81
                else
                  163
              else
                if n < 115 then
                  64
                else
                  143
            else
              if n < 118 then
                if n < 117 then
                  146
                else
                  157
              else
                if n < 119 then
                  56
                else
                  245
          else
            if n < 124 then
              if n < 122 then
                if n < 121 then
                  188
                else
                  182
              else
                if n < 123 then
                  218
                else
                  33
            else
              if n < 126 then
                if n < 125 then
                  16
                else
                  255
              else
                if n < 127 then
                  243
                else
                  210
  else
    if n < 192 then
      if n < 160 then
        if n < 144 then
          if n < 136 then
            if n < 132 then
              if n < 130 then
                if n < 129 then
                  205
                else
                  12
              else
                if n < 131 then
                  19
                else
                  236
            else
              if n < 134 then
                if n < 133 then
                  95
                else
                  151
              else
                if n < 135 then
                  68
                else
                  23
          else
            if n < 140 then
              if n < 138 then
                if n < 137 then
                  196
                else
                  167
              else
                if n < 139 then
                  126
                else
                  61
            else
              if n < 142 then
                if n < 141 then
                  100
                else
                  93
              else
                if n < 143 then
                  25
                else
                  115
        else
          if n < 152 then
            if n < 148 then
              if n < 146 then
                if n < 145 then
                  96
                else
                  129
              else
                if n < 147 then
                  79
                else
                  220
            else
              if n < 150 then
                if n < 149 then
                  34
                else
                  42
              else
                if n < 151 then
                  144
                else
                  136
          else
            if n < 156 then
              if n < 154 then
                if n < 153 then
                  70
                else
                  238
              else
                if n < 155 then
                  184
                else
                  20
            else
              if n < 158 then
                if n < 157 then
                  222
                else
                  94
              else
                if n < 159 then
                  11
                else
                  219
      else
        if n < 176 then
          if n < 168 then
            if n < 164 then
              if n < 162 then
                if n < 161 then
                  224
                else
                  50
              else
                if n < 163 then
                  58
                else
                  10
            else
              if n < 166 then
                if n < 165 then
                  73
                else
                  6
              else
                if n < 167 then
                  36
                else
                  92
          else
            if n < 172 then
              if n < 170 then
                if n < 169 then
                  194
                else
                  211
              else
                if n < 171 then
                  172
                else
                  98
            else
              if n < 174 then
                if n < 173 then
                  145
                else
                  149
              else
                if n < 175 then
                  228
                else
                  121
        else
          if n < 184 then
            if n < 180 then
              if n < 178 then
                if n < 177 then
                  231
                else
                  200
              else
                if n < 179 then
                  55
                else
                  109
            else
              if n < 182 then
                if n < 181 then
                  141
                else
                  213
              else
                if n < 183 then
                  78
                else
                  169
          else
            if n < 188 then
              if n < 186 then
                if n < 185 then
                  108
                else
                  86
              else
                if n < 187 then
                  244
                else
                  234
            else
              if n < 190 then
                if n < 189 then
                  101
                else
                  122
              else
                if n < 191 then
                  174
                else
                  8
    else
      if n < 224 then
        if n < 208 then
          if n < 200 then
            if n < 196 then
              if n < 194 then
                if n < 193 then
                  186
                else
                  120
              else
                if n < 195 then
                  37
                else
                  46
            else
              if n < 198 then
                if n < 197 then
                  28
                else
                  166
              else
                if n < 199 then
                  180
                else
                  198
          else
            if n < 204 then
              if n < 202 then
                if n < 201 then
                  232
                else
                  221
              else
                if n < 203 then
                  116
                else
                  31
            else
              if n < 206 then
                if n < 205 then
                  75
                else
                  189
              else
                if n < 207 then
                  139
                else
                  138
        else
          if n < 216 then
            if n < 212 then
              if n < 210 then
                if n < 209 then
                  112
                else
                  62
              else
                if n < 211 then
                  181
                else
                  102
            else
              if n < 214 then
                if n < 213 then
                  72
                else
                  3
              else
                if n < 215 then
                  246
                else
                  14
          else
            if n < 220 then
              if n < 218 then
                if n < 217 then
                  97
                else
                  53
              else
                if n < 219 then
                  87
                else
                  185
            else
              if n < 222 then
                if n < 221 then
                  134
                else
                  193
              else
                if n < 223 then
                  29
                else
                  158
      else
        if n < 240 then
          if n < 232 then
            if n < 228 then
              if n < 226 then
                if n < 225 then
                  225
                else
                  248
              else
                if n < 227 then
                  152
                else
                  17
            else
              if n < 230 then
                if n < 229 then
                  105
                else
                  217
              else
                if n < 231 then
                  142
                else
                  148
          else
            if n < 236 then
              if n < 234 then
                if n < 233 then
                  155
                else
                  30
              else
                if n < 235 then
                  135
                else
                  233
            else
              if n < 238 then
                if n < 237 then
                  206
                else
                  85
              else
                if n < 239 then
                  40
                else
                  223
        else
          if n < 248 then
            if n < 244 then
              if n < 242 then
                if n < 241 then
                  140
                else
                  161
              else
                if n < 243 then
                  137
                else
                  13
            else
              if n < 246 then
                if n < 245 then
                  191
                else
                  230
              else
                if n < 247 then
                  66
                else
                  104
          else
            if n < 252 then
              if n < 250 then
                if n < 249 then
                  65
                else
                  153
              else
                if n < 251 then
                  45
                else
                  15
            else
              if n < 254 then
                if n < 253 then
                  176
                else
                  84
              else
                if n < 255 then
                  187
                else
                  22

def sboxFast (x : Byte) : Byte := sboxTableN x.toNat

@[csimp] theorem sbox_eq_sboxFast : @sbox = @sboxFast := by
  funext x; revert x; decide +kernel

/-- FIPS-197 Figure 14 (inverse S-box), same treatment -/
def invSboxTableN (n : Nat) : Byte :=
  if n < 128 then
    if n < 64 then
      if n < 32 then
        if n < 16 then
          if n < 8 then
            if n < 4 then
              if n < 2 then
                if n < 1 then
                  82
                else
                  9
              else
                if n < 3 then
                  106
                else
                  213
            else
              if n < 6 then
                if n < 5 then
                  48
                else
                  54
              else
                if n < 7 then
                  165
                else
                  56
          else
            if n < 12 then
              if n < 10 then
                if n < 9 then
                  191
                else
                  64
              else
                if n < 11 then
                  163
                else
                  158
            else
              if n < 14 then
                if n < 13 then
                  129
                else
                  243
              else
                if n < 15 then
                  215
                else
                  251
        else
          if n < 24 then
            if n < 20 then
              if n < 18 then
                if n < 17 then
                  124
                else
                  227
              else
                if n < 19 then
                  57
                else
                  130
            else
              if n < 22 then
                if n < 21 then
                  155
                else
                  47
              else
                if n < 23 then
                  255
                else
                  135
          else
            if n < 28 then
              if n < 26 then
                if n < 25 then
                  52
                else
                  142
              else
                if n < 27 then
                  67
                else
                  68
            else
              if n < 30 then
                if n < 29 then
                  196
                else
                  222
              else
                if n < 31 then
                  233
                else
                  203
      else
        if n < 48 then
          if n < 40 then
            if n < 36 then
              if n < 34 then
                if n < 33 then
                  84
                else
                  123
              else
                if n < 35 then
                  148
                else
                  50
            else
              if n < 38 then
                if n < 37 then
                  166
                else
                  194
              else
                if n < 39 then
                  35
                else
                  61
          else
            if n < 44 then
              if n < 42 then
                if n < 41 then
                  238
                else
                  76
              else
                if n < 43 then
                  149
                else
                  11
            else
              if n < 46 then
                if n < 45 then
                  66
                else
                  250
              else
                if n < 47 then
                  195
                else
                  78
        else
          if n < 56 then
            if n < 52 then
              if n < 50 then
                if n < 49 then
                  8
                else
                  46
              else
                if n < 51 then
                  161
                else
                  102
            else
              if n < 54 then
                if n < 53 then
                  40
                else
                  217
              else
                if n < 55 then
                  36
                else
                  178
          else
            if n < 60 then
              if n < 58 then
                if n < 57 then
                  118
                else
                  91
              else
                if n < 59 then
                  162
                else
                  73
            else
              if n < 62 then
                if n < 61 then
                  109
                else
                  139
              else
                if n < 63 then
                  209
                else
                  37
    else
      if n < 96 then
        if n < 80 then
          if n < 72 then
            if n < 68 then
              if n < 66 then
                if n < 65 then
                  114
                else
                  248
              else
                if n < 67 then
                  246
                else
                  100
            else
              if n < 70 then
                if n < 69 then
                  134
                else
                  104
              else
                if n < 71 then
                  152
                else
                  22
          else
            if n < 76 then
              if n < 74 then
                if n < 73 then
                  212
                else
                  164
              else
                if n < 75 then
                  92
                else
                  204
            else
              if n < 78 then
                if n < 77 then
                  93
                else
                  101
              else
                if n < 79 then
                  182
                else
                  146
        else
          if n < 88 then
            if n < 84 then
              if n < 82 then
                if n < 81 then
                  108
                else
                  112
              else
                if n < 83 then
                  72
                else
                  80
            else
              if n < 86 then
                if n < 85 then
                  253
                else
                  237
              else
                if n < 87 then
                  185
                else
                  218
          else
            if n < 92 then
              if n < 90 then
                if n < 89 then
                  94
                else
                  21
              else
                if n < 91 then
                  70
                else
                  87
            else
              if n < 94 then
                if n < 93 then
                  167
                else
                  141
              else
                if n < 95 then
                  157
                else
                  132
      else
        if n < 112 then
          if n < 104 then
            if n < 100 then
              if n < 98 then
                if n < 97 then
                  144
                else
                  216
              else
                if n < 99 then
                  171
                else
                  0
            else
              if n < 102 then
                if n < 101 then
                  140
                else
                  188
              else
                if n < 103 then
                  211
                else
                  10
          else
            if n < 108 then
              if n < 106 then
                if n < 105 then
                  247
                else
                  228
              else
                if n < 107 then
                  88
                else
                  5
            else
              if n < 110 then
                if n < 109 then
                  184
                else
                  179
              else
                if n < 111 then
                  69
                else
                  6
        else
          if n < 120 then
            if n < 116 then
              if n < 114 then
                if n < 113 then
                  208
                else
                  44
              else
                if n < 115 then
                  30
                else
                  143
            else
              if n < 118 then
                if n < 117 then
                  202
                else
                  63
              else
                if n < 119 then
                  15
                else
                  2
          else
            if n < 124 then
              if n < 122 then
                if n < 121 then
                  193
                else
                  175
              else
                if n < 123 then
                  189
                else
                  3
            else
              if n < 126 then
                if n < 125 then
                  1
                else
                  19
              else
                if n < 127 then
                  138
                else
                  107
  else
    if n < 192 then
      if n < 160 then
        if n < 144 then
          if n < 136 then
            if n < 132 then
              if n < 130 then
                if n < 129 then
                  58
                else
                  145
              else
                if n < 131 then
                  17
                else
                  65
            else
              if n < 134 then
                if n < 133 then
                  79
                else
                  103
              else
                if n < 135 then
                  220
                else
                  234
          else
            if n < 140 then
              if n < 138 then
                if n < 137 then
                  151
                else
                  242
              else
                if n < 139 then
                  207
                else
                  206
            else
              if n < 142 then
                if n < 141 then
                  240
                else
                  180
              else
                if n < 143 then
                  230
                else
                  115
        else
          if n < 152 then
            if n < 148 then
              if n < 146 then
                if n < 145 then
                  150
                else
                  172
              else
                if n < 147 then
                  116
                else
                  34
            else
              if n < 150 then
                if n < 149 then
                  231
                else
                  173
              else
                if n < 151 then
                  53
                else
                  133
          else
            if n < 156 then
              if n < 154 then
                if n < 153 then
                  226
                else
                  249
              else
                if n < 155 then
                  55
                else
                  232
            else
              if n < 158 then
                if n < 157 then
                  28
                else
                  117
              else
                if n < 159 then
                  223
                else
                  110
      else
        if n < 176 then
          if n < 168 then
            if n < 164 then
              if n < 162 then
                if n < 161 then
                  71
                else
                  241
              else
                if n < 163 then
                  26
                else
                  113
            else
              if n < 166 then
                if n < 165 then
                  29
                else
                  41
              else
                if n < 167 then
                  197
                else
                  137
          else
            if n < 172 then
              if n < 170 then
                if n < 169 then
                  111
                else
                  183
              else
                if n < 171 then
                  98
                else
                  14
            else
              if n < 174 then
                if n < 173 then
                  170
                else
                  24
              else
                if n < 175 then
                  190
                else
                  27
        else
          if n < 184 then
            if n < 180 then
              if n < 178 then
                if n < 177 then
                  252
                else
                  86
              else
                if n < 179 then
                  62
                else
                  75
            else
              if n < 182 then
                if n < 181 then
                  198
                else
                  210
              else
                if n < 183 then
                  121
                else
                  32
          else
            if n < 188 then
              if n < 186 then
                if n < 185 then
                  154
                else
                  219
              else
                if n < 187 then
                  192
                else
                  254
            else
              if n < 190 then
                if n < 189 then
                  120
                else
                  205
              else
                if n < 191 then
                  90
                else
                  244
    else
      if n < 224 then
        if n < 208 then
          if n < 200 then
            if n < 196 then
              if n < 194 then
                if n < 193 then
                  31
                else
                  221
              else
                if n < 195 then
                  168
                else
                  51
            else
              if n < 198 then
                if n < 197 then
                  136
                else
                  7
              else
                if n < 199 then
                  199
                else
                  49
          else
            if n < 204 then
              if n < 202 then
                if n < 201 then
                  177
                else
                  18
              else
                if n < 203 then
                  16
                else
                  89
            else
              if n < 206 then
                if n < 205 then
                  39
                else
                  128
              else
                if n < 207 then
                  236
                else
                  95
        else
          if n < 216 then
            if n < 212 then
              if n < 210 then
                if n < 209 then
                  96
                else
                  81
              else
                if n < 211 then
                  127
                else
                  169
            else
              if n < 214 then
                if n < 213 then
                  25
                else
                  181
              else
                if n < 215 then
                  74
                else
                  13
          else
            if n < 220 then
              if n < 218 then
                if n < 217 then
                  45
                else
                  229
              else
                if n < 219 then
                  122
                else
                  159
            else
              if n < 222 then
                if n < 221 then
                  147
                else
                  201
              else
                if n < 223 then
                  156
                else
                  239
      else
        if n < 240 then
          if n < 232 then
            if n < 228 then
              if n < 226 then
                if n < 225 then
                  160
                else
                  224
              else
                if n < 227 then
                  59
                else
                  77
            else
              if n < 230 then
                if n < 229 then
                  174
                else
                  42
              else
                if n < 231 then
                  245
                else
                  176
          else
            if n < 236 then
              if n < 234 then
                if n < 233 then
                  200
                else
                  235
              else
                if n < 235 then
                  187
                else
                  60
            else
              if n < 238 then
                if n < 237 then
                  131
                else
                  83
              else
                if n < 239 then
                  153
                else
                  97
        else
          if n < 248 then
            if n < 244 then
              if n < 242 then
                if n < 241 then
                  23
                else
                  43
              else
                if n < 243 then
                  4
                else
                  126
            else
              if n < 246 then
                if n < 245 then
                  186
                else
                  119
              else
                if n < 247 then
                  214
                else
                  38
          else
            if n < 252 then
              if n < 250 then
                if n < 249 then
                  225
                else
                  105
              else
                if n < 251 then
                  20
                else
                  99
            else
              if n < 254 then
                if n < 253 then
                  85
                else
                  33
              else
                if n < 255 then
                  12
                else
                  125

def invSboxFast (x : Byte) : Byte := invSboxTableN x.toNat

@[csimp] theorem invSbox_eq_invSboxFast : @invSbox = @invSboxFast := by
  funext x; revert x; decide +kernel

def subBytes (s : Block) : Block := s.map sbox
def invSubBytes (s : Block) : Block := s.map invSbox

/-- §5.1.2: s'[r,c] = s[r,(c+r) mod 4] -/
def shiftRows (s : Block) : Block :=
  ⟨s.b0, s.b5, s.b10, s.b15,  s.b4, s.b9, s.b14, s.b3,  s.b8, s.b13, s.b2, s.b7,  s.b12, s.b1, s.b6, s.b11⟩

/-- §5.3.1: s'[r,(c+r) mod 4] = s[r,c] -/
def invShiftRows (s : Block) : Block :=
  ⟨s.b0, s.b13, s.b10, s.b7,  s.b4, s.b1, s.b14, s.b11,  s.b8, s.b5, s.b2, s.b15,  s.b12, s.b9, s.b6, s.b3⟩

/-- §5.1.3 one column times the matrix {02 03 01 01; 01 02 03 01; 01 01 02 03; 03 01 01 02} -/
def mixColumn (a0 a1 a2 a3 : Byte) : Byte × Byte × Byte × Byte :=
  (gfmul 2 a0 ^^^ gfmul 3 a1 ^^^ a2 ^^^ a3,
   a0 ^^^ gfmul 2 a1 ^^^ gfmul 3 a2 ^^^ a3,
   a0 ^^^ a1 ^^^ gfmul 2 a2 ^^^ gfmul 3 a3,
   gfmul 3 a0 ^^^ a1 ^^^ a2 ^^^ gfmul 2 a3)

def mixColumns (s : Block) : Block :=
  let c0 := mixColumn s.b0 s.b1 s.b2 s.b3
  let c1 := mixColumn s.b4 s.b5 s.b6 s.b7
  let c2 := mixColumn s.b8 s.b9 s.b10 s.b11
  let c3 := mixColumn s.b12 s.b13 s.b14 s.b15
  ⟨c0.1, c0.2.1, c0.2.2.1, c0.2.2.2, c1.1, c1.2.1, c1.2.2.1, c1.2.2.2,
   c2.1, c2.2.1, c2.2.2.1, c2.2.2.2, c3.1, c3.2.1, c3.2.2.1, c3.2.2.2⟩

/-- §5.3.3 matrix {0e 0b 0d 09; 09 0e 0b 0d; 0d 09 0e 0b; 0b 0d 09 0e} -/
def invMixColumn (a0 a1 a2 a3 : Byte) : Byte × Byte × Byte × Byte :=
  (gfmul 0x0e a0 ^^^ gfmul 0x0b a1 ^^^ gfmul 0x0d a2 ^^^ gfmul 0x09 a3,
   gfmul 0x09 a0 ^^^ gfmul 0x0e a1 ^^^ gfmul 0x0b a2 ^^^ gfmul 0x0d a3,
   gfmul 0x0d a0 ^^^ gfmul 0x09 a1 ^^^ gfmul 0x0e a2 ^^^ gfmul 0x0b a3,
   gfmul 0x0b a0 ^^^ gfmul 0x0d a1 ^^^ gfmul 0x09 a2 ^^^ gfmul 0x0e a3)

def invMixColumns (s : Block) : Block :=
  let c0 := invMixColumn s.b0 s.b1 s.b2 s.b3
  let c1 := invMixColumn s.b4 s.b5 s.b6 s.b7
  let c2 := invMixColumn s.b8 s.b9 s.b10 s.b11
  let c3 := invMixColumn s.b12 s.b13 s.b14 s.b15
  ⟨c0.1, c0.2.1, c0.2.2.1, c0.2.2.2, c1.1, c1.2.1, c1.2.2.1, c1.2.2.2,
   c2.1, c2.2.1, c2.2.2.1, c2.2.2.2, c3.1, c3.2.1, c3.2.2.1, c3.2.2.2⟩

def addRoundKey (s k : Block) : Block := s.xor k

/-- §5.2 Rcon[i] = x^(i-1), i ≥ 1 -/
def rcon : Nat → Byte
  | 0 => 0x8d
  | 1 => 1
  | n + 1 => xtime (rcon n)

/-- §5.2 next round key from the previous one (four words; a round key is stored as a block, word j = bytes 4j..4j+3):
    w[4i] = w[4i-4] ⊕ SubWord(RotWord(w[4i-1])) ⊕ Rcon[i];  w[4i+j] = w[4i+j-4] ⊕ w[4i+j-1] -/
def nextKey (i : Nat) (k : Block) : Block :=
  let t0 := k.b0 ^^^ sbox k.b13 ^^^ rcon i
  let t1 := k.b1 ^^^ sbox k.b14
  let t2 := k.b2 ^^^ sbox k.b15
  let t3 := k.b3 ^^^ sbox k.b12
  let u0 := k.b4 ^^^ t0; let u1 := k.b5 ^^^ t1; let u2 := k.b6 ^^^ t2; let u3 := k.b7 ^^^ t3
  let v0 := k.b8 ^^^ u0; let v1 := k.b9 ^^^ u1; let v2 := k.b10 ^^^ u2; let v3 := k.b11 ^^^ u3
  let x0 := k.b12 ^^^ v0; let x1 := k.b13 ^^^ v1; let x2 := k.b14 ^^^ v2; let x3 := k.b15 ^^^ v3
  ⟨t0, t1, t2, t3, u0, u1, u2, u3, v0, v1, v2, v3, x0, x1, x2, x3⟩

/-- round key i (0..10) -/
def roundKey (key : Block) : Nat → Block
  | 0 => key
  | i + 1 => nextKey (i + 1) (roundKey key i)

def round (key : Block) (i : Nat) (s : Block) : Block :=
  addRoundKey (mixColumns (shiftRows (subBytes s))) (roundKey key i)

/-- §5.1 Cipher, Nr = 10 -/
def cipher (key inp : Block) : Block :=
  let s := addRoundKey inp (roundKey key 0)
  let s := (List.range 9).foldl (fun s i => round key (i + 1) s) s
  addRoundKey (shiftRows (subBytes s)) (roundKey key 10)

def invRound (key : Block) (i : Nat) (s : Block) : Block :=
  invMixColumns (addRoundKey (invSubBytes (invShiftRows s)) (roundKey key i))

/-- §5.3 InvCipher -/
def invCipher (key inp : Block) : Block :=
  let s := addRoundKey inp (roundKey key 10)
  let s := (List.range 9).foldl (fun s i => invRound key (9 - i) s) s
  addRoundKey (invSubBytes (invShiftRows s)) (roundKey key 0)

/-! Tests of the specification itself (the standard's own vectors), kernel-checked. -/

private def blk (l : List Nat) : Block := Block.ofListD (l.map (BitVec.ofNat 8))

/-- FIPS-197 Appendix B -/
example : cipher (blk [0x2b,0x7e,0x15,0x16,0x28,0xae,0xd2,0xa6,0xab,0xf7,0x15,0x88,0x09,0xcf,0x4f,0x3c])
                 (blk [0x32,0x43,0xf6,0xa8,0x88,0x5a,0x30,0x8d,0x31,0x31,0x98,0xa2,0xe0,0x37,0x07,0x34])
        = blk [0x39,0x25,0x84,0x1d,0x02,0xdc,0x09,0xfb,0xdc,0x11,0x85,0x97,0x19,0x6a,0x0b,0x32] := by decide +kernel

/-- FIPS-197 Appendix C.1 -/
example : cipher (blk [0,1,2,3,4,5,6,7,8,9,10,11,12,13,14,15])
                 (blk [0x00,0x11,0x22,0x33,0x44,0x55,0x66,0x77,0x88,0x99,0xaa,0xbb,0xcc,0xdd,0xee,0xff])
        = blk [0x69,0xc4,0xe0,0xd8,0x6a,0x7b,0x04,0x30,0xd8,0xcd,0xb7,0x80,0x70,0xb4,0xc5,0x5a] := by decide +kernel

example : invCipher (blk [0,1,2,3,4,5,6,7,8,9,10,11,12,13,14,15])
                 (blk [0x69,0xc4,0xe0,0xd8,0x6a,0x7b,0x04,0x30,0xd8,0xcd,0xb7,0x80,0x70,0xb4,0xc5,0x5a])
        = blk [0x00,0x11,0x22,0x33,0x44,0x55,0x66,0x77,0x88,0x99,0xaa,0xbb,0xcc,0xdd,0xee,0xff] := by decide +kernel

/-- §5.1.1 example: S-box of {53} is {ed} -/
example : sbox 0x53 = 0xed := by decide +kernel
/-- §4.2 example: {57} • {83} = {c1}; {57} • {13} = {fe} -/
example : gfmul 0x57 0x83 = 0xc1 ∧ gfmul 0x57 0x13 = 0xfe := by decide +kernel

end Wencry.Spec.AES
