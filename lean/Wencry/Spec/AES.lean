/-
FIPS-197 (AES-128), written from the standard. Nothing here mentions the repository's code.
State layout: a `Block` holds the standard's `in`/`out` byte order; state byte s[r,c] is byte `r + 4c`.
-/
import Wencry.Basic
namespace Wencry.Spec.AES

/-- §4.2.1 multiplication by x in GF(2^8) modulo x^8 + x^4 + x^3 + x + 1 -/
def xtime (a : Byte) : Byte := (a <<< 1) ^^^ (if a.msb then 0x1b else 0)

/-- §4.2 multiplication in GF(2^8), shift-and-add over the eight bits of `b` (bit 0 first) -/
def gfmulAux : Nat → Byte → Byte → Byte
  | 0, _, _ => 0
  | k + 1, a, b => (if b.getLsbD 0 then a else 0) ^^^ gfmulAux k (xtime a) (b >>> 1)

def gfmul (a b : Byte) : Byte := gfmulAux 8 a b

def gfsq (a : Byte) : Byte := gfmul a a

/-- multiplicative inverse as a^254 (0 ↦ 0), §5.1.1 -/
def gfinv (a : Byte) : Byte :=
  let a2 := gfsq a; let a4 := gfsq a2; let a8 := gfsq a4; let a16 := gfsq a8
  let a32 := gfsq a16; let a64 := gfsq a32; let a128 := gfsq a64
  gfmul a128 (gfmul a64 (gfmul a32 (gfmul a16 (gfmul a8 (gfmul a4 a2)))))

/-- §5.1.1 affine transformation: b'_i = b_i ⊕ b_{i+4} ⊕ b_{i+5} ⊕ b_{i+6} ⊕ b_{i+7} ⊕ c_i, c = 0x63 -/
def affine (b : Byte) : Byte :=
  b ^^^ b.rotateLeft 1 ^^^ b.rotateLeft 2 ^^^ b.rotateLeft 3 ^^^ b.rotateLeft 4 ^^^ 0x63

def sbox (x : Byte) : Byte := affine (gfinv x)

/-- §5.3.2 inverse S-box: inverse affine transformation followed by the field inverse -/
def invAffine (b : Byte) : Byte :=
  b.rotateLeft 1 ^^^ b.rotateLeft 3 ^^^ b.rotateLeft 6 ^^^ 0x05

def invSbox (x : Byte) : Byte := gfinv (invAffine x)

def subBytes (s : Block) : Block := s.map sbox
def invSubBytes (s : Block) : Block := s.map invSbox

/-- §5.1.2: s'[r,c] = s[r,(c+r) mod 4] -/
def shiftRows (s : Block) : Block :=
  ⟨s.b0, s.b5, s.b10, s.b15,  s.b4, s.b9, s.b14, s.b3,  s.b8, s.b13, s.b2, s.b7,  s.b12, s.b1, s.b6, s.b11⟩

/-- §5.3.1: s'[r,(c+r) mod 4] = s[r,c] -/
def invShiftRows (s : Block) : Block :=
  ⟨s.b0, s.b13, s.b10, s.b7,  s.b4, s.b1, s.b14, s.b11,  s.b8, s.b5, s.b2, s.b15,  s.b12, s.b9, s.b6, s.b3⟩

/-- §5.1.3 one column times the matrix {02 03 01 01; 01 02 03 01; 01 01 02 03; 03 01 01 02} -/
def mixColumn (a0 a1 a2 a3 : Byte) : Byte × Byte × Byte × Byte :=
  (gfmul 2 a0 ^^^ gfmul 3 a1 ^^^ a2 ^^^ a3,
   a0 ^^^ gfmul 2 a1 ^^^ gfmul 3 a2 ^^^ a3,
   a0 ^^^ a1 ^^^ gfmul 2 a2 ^^^ gfmul 3 a3,
   gfmul 3 a0 ^^^ a1 ^^^ a2 ^^^ gfmul 2 a3)

def mixColumns (s : Block) : Block :=
  let c0 := mixColumn s.b0 s.b1 s.b2 s.b3
  let c1 := mixColumn s.b4 s.b5 s.b6 s.b7
  let c2 := mixColumn s.b8 s.b9 s.b10 s.b11
  let c3 := mixColumn s.b12 s.b13 s.b14 s.b15
  ⟨c0.1, c0.2.1, c0.2.2.1, c0.2.2.2, c1.1, c1.2.1, c1.2.2.1, c1.2.2.2,
   c2.1, c2.2.1, c2.2.2.1, c2.2.2.2, c3.1, c3.2.1, c3.2.2.1, c3.2.2.2⟩

/-- §5.3.3 matrix {0e 0b 0d 09; 09 0e 0b 0d; 0d 09 0e 0b; 0b 0d 09 0e} -/
def invMixColumn (a0 a1 a2 a3 : Byte) : Byte × Byte × Byte × Byte :=
  (gfmul 0x0e a0 ^^^ gfmul 0x0b a1 ^^^ gfmul 0x0d a2 ^^^ gfmul 0x09 a3,
   gfmul 0x09 a0 ^^^ gfmul 0x0e a1 ^^^ gfmul 0x0b a2 ^^^ gfmul 0x0d a3,
   gfmul 0x0d a0 ^^^ gfmul 0x09 a1 ^^^ gfmul 0x0e a2 ^^^ gfmul 0x0b a3,
   gfmul 0x0b a0 ^^^ gfmul 0x0d a1 ^^^ gfmul 0x09 a2 ^^^ gfmul 0x0e a3)

def invMixColumns (s : Block) : Block :=
  let c0 := invMixColumn s.b0 s.b1 s.b2 s.b3
  let c1 := invMixColumn s.b4 s.b5 s.b6 s.b7
  let c2 := invMixColumn s.b8 s.b9 s.b10 s.b11
  let c3 := invMixColumn s.b12 s.b13 s.b14 s.b15
  ⟨c0.1, c0.2.1, c0.2.2.1, c0.2.2.2, c1.1, c1.2.1, c1.2.2.1, c1.2.2.2,
   c2.1, c2.2.1, c2.2.2.1, c2.2.2.2, c3.1, c3.2.1, c3.2.2.1, c3.2.2.2⟩

def addRoundKey (s k : Block) : Block := s.xor k

/-- §5.2 Rcon[i] = x^(i-1), i ≥ 1 -/
def rcon : Nat → Byte
  | 0 => 0x8d
  | 1 => 1
  | n + 1 => xtime (rcon n)

/-- §5.2 next round key from the previous one (four words; a round key is stored as a block, word j = bytes 4j..4j+3):
    w[4i] = w[4i-4] ⊕ SubWord(RotWord(w[4i-1])) ⊕ Rcon[i];  w[4i+j] = w[4i+j-4] ⊕ w[4i+j-1] -/
def nextKey (i : Nat) (k : Block) : Block :=
  let t0 := k.b0 ^^^ sbox k.b13 ^^^ rcon i
  let t1 := k.b1 ^^^ sbox k.b14
  let t2 := k.b2 ^^^ sbox k.b15
  let t3 := k.b3 ^^^ sbox k.b12
  let u0 := k.b4 ^^^ t0; let u1 := k.b5 ^^^ t1; let u2 := k.b6 ^^^ t2; let u3 := k.b7 ^^^ t3
  let v0 := k.b8 ^^^ u0; let v1 := k.b9 ^^^ u1; let v2 := k.b10 ^^^ u2; let v3 := k.b11 ^^^ u3
  let x0 := k.b12 ^^^ v0; let x1 := k.b13 ^^^ v1; let x2 := k.b14 ^^^ v2; let x3 := k.b15 ^^^ v3
  ⟨t0, t1, t2, t3, u0, u1, u2, u3, v0, v1, v2, v3, x0, x1, x2, x3⟩

/-- round key i (0..10) -/
def roundKey (key : Block) : Nat → Block
  | 0 => key
  | i + 1 => nextKey (i + 1) (roundKey key i)

def round (key : Block) (i : Nat) (s : Block) : Block :=
  addRoundKey (mixColumns (shiftRows (subBytes s))) (roundKey key i)

/-- §5.1 Cipher, Nr = 10 -/
def cipher (key inp : Block) : Block :=
  let s := addRoundKey inp (roundKey key 0)
  let s := (List.range 9).foldl (fun s i => round key (i + 1) s) s
  addRoundKey (shiftRows (subBytes s)) (roundKey key 10)

def invRound (key : Block) (i : Nat) (s : Block) : Block :=
  invMixColumns (addRoundKey (invSubBytes (invShiftRows s)) (roundKey key i))

/-- §5.3 InvCipher -/
def invCipher (key inp : Block) : Block :=
  let s := addRoundKey inp (roundKey key 10)
  let s := (List.range 9).foldl (fun s i => invRound key (9 - i) s) s
  addRoundKey (invSubBytes (invShiftRows s)) (roundKey key 0)

/-! Tests of the specification itself (the standard's own vectors), kernel-checked. -/

private def blk (l : List Nat) : Block := Block.ofListD (l.map (BitVec.ofNat 8))

/-- FIPS-197 Appendix B -/
example : cipher (blk [0x2b,0x7e,0x15,0x16,0x28,0xae,0xd2,0xa6,0xab,0xf7,0x15,0x88,0x09,0xcf,0x4f,0x3c])
                 (blk [0x32,0x43,0xf6,0xa8,0x88,0x5a,0x30,0x8d,0x31,0x31,0x98,0xa2,0xe0,0x37,0x07,0x34])
        = blk [0x39,0x25,0x84,0x1d,0x02,0xdc,0x09,0xfb,0xdc,0x11,0x85,0x97,0x19,0x6a,0x0b,0x32] := by decide +kernel

/-- FIPS-197 Appendix C.1 -/
example : cipher (blk [0,1,2,3,4,5,6,7,8,9,10,11,12,13,14,15])
                 (blk [0x00,0x11,0x22,0x33,0x44,0x55,0x66,0x77,0x88,0x99,0xaa,0xbb,0xcc,0xdd,0xee,0xff])
        = blk [0x69,0xc4,0xe0,0xd8,0x6a,0x7b,0x04,0x30,0xd8,0xcd,0xb7,0x80,0x70,0xb4,0xc5,0x5a] := by decide +kernel

example : invCipher (blk [0,1,2,3,4,5,6,7,8,9,10,11,12,13,14,15])
                 (blk [0x69,0xc4,0xe0,0xd8,0x6a,0x7b,0x04,0x30,0xd8,0xcd,0xb7,0x80,0x70,0xb4,0xc5,0x5a])
        = blk [0x00,0x11,0x22,0x33,0x44,0x55,0x66,0x77,0x88,0x99,0xaa,0xbb,0xcc,0xdd,0xee,0xff] := by decide +kernel

/-- §5.1.1 example: S-box of {53} is {ed} -/
example : sbox 0x53 = 0xed := by decide +kernel
/-- §4.2 example: {57} • {83} = {c1}; {57} • {13} = {fe} -/
example : gfmul 0x57 0x83 = 0xc1 ∧ gfmul 0x57 0x13 = 0xfe := by decide +kernel

end Wencry.Spec.AES
