/-
NIST SP 800-38A: ECB, CBC, CFB-128, OFB, CTR over an abstract forward cipher `E` (and inverse `D`),
written from the recommendation. Messages are lists of 16-byte blocks.
-/
import Wencry.Basic
namespace Wencry.Spec.Modes

/-- a block as a 128-bit big-endian integer (SP 800-38A §5.2: the first byte is the most significant) -/
def toNat128 (b : Block) : Nat := b.toList.foldl (fun acc x => acc * 256 + x.toNat) 0

def ofNat128 (n : Nat) : Block :=
  let byte (k : Nat) : Byte := BitVec.ofNat 8 (n / 256 ^ (15 - k))
  ⟨byte 0, byte 1, byte 2, byte 3, byte 4, byte 5, byte 6, byte 7, byte 8, byte 9, byte 10, byte 11, byte 12, byte 13, byte 14, byte 15⟩

/-- Appendix B.1 standard incrementing function with m = 128: [X + 1 mod 2^128] -/
def inc128 (b : Block) : Block := ofNat128 ((toNat128 b + 1) % 2 ^ 128)

/-- §6.1 -/
def ecbEnc (E : Block → Block) (ps : List Block) : List Block := ps.map E
def ecbDec (D : Block → Block) (cs : List Block) : List Block := cs.map D

/-- §6.2: C_1 = E(P_1 ⊕ IV), C_j = E(P_j ⊕ C_{j-1}) -/
def cbcEnc (E : Block → Block) : Block → List Block → List Block
  | _, [] => []
  | prev, p :: ps => let c := E (p.xor prev); c :: cbcEnc E c ps

/-- §6.2: P_1 = D(C_1) ⊕ IV, P_j = D(C_j) ⊕ C_{j-1} -/
def cbcDec (D : Block → Block) : Block → List Block → List Block
  | _, [] => []
  | prev, c :: cs => (D c).xor prev :: cbcDec D c cs

/-- §6.3 with s = 128: I_1 = IV, I_j = C_{j-1}, C_j = P_j ⊕ E(I_j) -/
def cfbEnc (E : Block → Block) : Block → List Block → List Block
  | _, [] => []
  | i, p :: ps => let c := p.xor (E i); c :: cfbEnc E c ps

def cfbDec (E : Block → Block) : Block → List Block → List Block
  | _, [] => []
  | i, c :: cs => c.xor (E i) :: cfbDec E c cs

/-- §6.4: I_1 = IV, O_j = E(I_j), I_j = O_{j-1}, C_j = P_j ⊕ O_j (same function decrypts) -/
def ofb (E : Block → Block) : Block → List Block → List Block
  | _, [] => []
  | i, p :: ps => let o := E i; p.xor o :: ofb E o ps

/-- §6.5: O_j = E(T_j), C_j = P_j ⊕ O_j, counters T_1 = IV, T_{j+1} = inc128 T_j (same function decrypts) -/
def ctr (E : Block → Block) : Block → List Block → List Block
  | _, [] => []
  | t, p :: ps => p.xor (E t) :: ctr E (inc128 t) ps

/-- mode numbers of the encrypted-file format: 0 ECB, 1 CBC, 2 CTR, 3 CFB, 4 OFB -/
def encrypt (mode : Nat) (E : Block → Block) (iv : Block) (ps : List Block) : List Block :=
  match mode with
  | 0 => ecbEnc E ps
  | 1 => cbcEnc E iv ps
  | 2 => ctr E iv ps
  | 3 => cfbEnc E iv ps
  | _ => ofb E iv ps

def decrypt (mode : Nat) (E D : Block → Block) (iv : Block) (cs : List Block) : List Block :=
  match mode with
  | 0 => ecbDec D cs
  | 1 => cbcDec D iv cs
  | 2 => ctr E iv cs
  | 3 => cfbDec E iv cs
  | _ => ofb E iv cs

end Wencry.Spec.Modes
