/-
FIPS 180-4 (SHA-1, SHA-256) and RFC 1321 (MD5), written from the standards on byte strings.
Nothing here mentions the repository's code.
-/
import Wencry.Basic
namespace Wencry.Spec.Hash

def rotl (x : W32) (n : Nat) : W32 := x.rotateLeft n
def rotr (x : W32) (n : Nat) : W32 := x.rotateRight n

/-- big-endian / little-endian 32-bit word from four bytes -/
def be32 (a b c d : Byte) : W32 := (a.zeroExtend 32 <<< 24) ||| (b.zeroExtend 32 <<< 16) ||| (c.zeroExtend 32 <<< 8) ||| d.zeroExtend 32
def le32 (a b c d : Byte) : W32 := (d.zeroExtend 32 <<< 24) ||| (c.zeroExtend 32 <<< 16) ||| (b.zeroExtend 32 <<< 8) ||| a.zeroExtend 32

def be32Bytes (w : W32) : Bytes := [(w >>> 24).truncate 8, (w >>> 16).truncate 8, (w >>> 8).truncate 8, w.truncate 8]
def le32Bytes (w : W32) : Bytes := [w.truncate 8, (w >>> 8).truncate 8, (w >>> 16).truncate 8, (w >>> 24).truncate 8]

def be64Bytes (n : Nat) : Bytes := (List.range 8).map fun i => BitVec.ofNat 8 (n / 256 ^ (7 - i))
def le64Bytes (n : Nat) : Bytes := (List.range 8).map fun i => BitVec.ofNat 8 (n / 256 ^ i)

/-- words of a byte string, four bytes at a time (any incomplete tail is ignored; blocks are 64 bytes) -/
def wordsOf (f : Byte → Byte → Byte → Byte → W32) : Bytes → List W32
  | a :: b :: c :: d :: r => f a b c d :: wordsOf f r
  | _ => []

/-- FIPS 180-4 §5.1.1 / RFC 1321 §3.1-3.2: append 0x80, then zero bytes up to 56 mod 64, then the bit length in 64 bits -/
def pad (lenBytes : Nat → Bytes) (m : Bytes) : Bytes :=
  m ++ [0x80] ++ List.replicate ((119 - m.length % 64) % 64) 0 ++ lenBytes (8 * m.length % 2 ^ 64)

/-- the first `n` consecutive 64-byte blocks -/
def chunksN : Nat → Bytes → List Bytes
  | 0, _ => []
  | n + 1, l => l.take 64 :: chunksN n (l.drop 64)

/-- consecutive 64-byte blocks -/
def chunks64 (l : Bytes) : List Bytes := chunksN (l.length / 64) l

/-! ### SHA-1 (FIPS 180-4 §6.1) -/
namespace SHA1

def ch (x y z : W32) : W32 := (x &&& y) ^^^ (~~~x &&& z)
def parity (x y z : W32) : W32 := x ^^^ y ^^^ z
def maj (x y z : W32) : W32 := (x &&& y) ^^^ (x &&& z) ^^^ (y &&& z)

/-- §4.1.1 -/
def f (t : Nat) (x y z : W32) : W32 :=
  if t < 20 then ch x y z else if t < 40 then parity x y z else if t < 60 then maj x y z else parity x y z

/-- §4.2.1 -/
def K (t : Nat) : W32 :=
  if t < 20 then 0x5a827999 else if t < 40 then 0x6ed9eba1 else if t < 60 then 0x8f1bbcdc else 0xca62c1d6

/-- §6.1.2 step 1 -/
def schedule (m : List W32) : List W32 :=
  (List.range 64).foldl (fun w i =>
    let t := i + 16
    w ++ [rotl (w.getD (t - 3) 0 ^^^ w.getD (t - 8) 0 ^^^ w.getD (t - 14) 0 ^^^ w.getD (t - 16) 0) 1]) m

abbrev State := W32 × W32 × W32 × W32 × W32

def H0 : State := (0x67452301, 0xefcdab89, 0x98badcfe, 0x10325476, 0xc3d2e1f0)

/-- §6.1.2 step 3 -/
def step (w : List W32) (s : State) (t : Nat) : State :=
  let (a, b, c, d, e) := s
  let T := rotl a 5 + f t b c d + e + K t + w.getD t 0
  (T, a, rotl b 30, c, d)

/-- §6.1.2 steps 1-4 for one block -/
def compress (h : State) (block : Bytes) : State :=
  let w := schedule (wordsOf be32 block)
  let (a, b, c, d, e) := (List.range 80).foldl (step w) h
  (h.1 + a, h.2.1 + b, h.2.2.1 + c, h.2.2.2.1 + d, h.2.2.2.2 + e)

def digestBytes (h : State) : Bytes :=
  be32Bytes h.1 ++ be32Bytes h.2.1 ++ be32Bytes h.2.2.1 ++ be32Bytes h.2.2.2.1 ++ be32Bytes h.2.2.2.2

def hash (m : Bytes) : Bytes := digestBytes ((chunks64 (pad be64Bytes m)).foldl compress H0)

end SHA1

/-! ### SHA-256 (FIPS 180-4 §6.2) -/
namespace SHA256

def ch (x y z : W32) : W32 := (x &&& y) ^^^ (~~~x &&& z)
def maj (x y z : W32) : W32 := (x &&& y) ^^^ (x &&& z) ^^^ (y &&& z)
def bsig0 (x : W32) : W32 := rotr x 2 ^^^ rotr x 13 ^^^ rotr x 22
def bsig1 (x : W32) : W32 := rotr x 6 ^^^ rotr x 11 ^^^ rotr x 25
def ssig0 (x : W32) : W32 := rotr x 7 ^^^ rotr x 18 ^^^ (x >>> 3)
def ssig1 (x : W32) : W32 := rotr x 17 ^^^ rotr x 19 ^^^ (x >>> 10)

/-- §4.2.2 -/
def K : List W32 := [
  0x428a2f98, 0x71374491, 0xb5c0fbcf, 0xe9b5dba5, 0x3956c25b, 0x59f111f1, 0x923f82a4, 0xab1c5ed5,
  0xd807aa98, 0x12835b01, 0x243185be, 0x550c7dc3, 0x72be5d74, 0x80deb1fe, 0x9bdc06a7, 0xc19bf174,
  0xe49b69c1, 0xefbe4786, 0x0fc19dc6, 0x240ca1cc, 0x2de92c6f, 0x4a7484aa, 0x5cb0a9dc, 0x76f988da,
  0x983e5152, 0xa831c66d, 0xb00327c8, 0xbf597fc7, 0xc6e00bf3, 0xd5a79147, 0x06ca6351, 0x14292967,
  0x27b70a85, 0x2e1b2138, 0x4d2c6dfc, 0x53380d13, 0x650a7354, 0x766a0abb, 0x81c2c92e, 0x92722c85,
  0xa2bfe8a1, 0xa81a664b, 0xc24b8b70, 0xc76c51a3, 0xd192e819, 0xd6990624, 0xf40e3585, 0x106aa070,
  0x19a4c116, 0x1e376c08, 0x2748774c, 0x34b0bcb5, 0x391c0cb3, 0x4ed8aa4a, 0x5b9cca4f, 0x682e6ff3,
  0x748f82ee, 0x78a5636f, 0x84c87814, 0x8cc70208, 0x90befffa, 0xa4506ceb, 0xbef9a3f7, 0xc67178f2]

/-- §6.2.2 step 1 -/
def schedule (m : List W32) : List W32 :=
  (List.range 48).foldl (fun w i =>
    let t := i + 16
    w ++ [ssig1 (w.getD (t - 2) 0) + w.getD (t - 7) 0 + ssig0 (w.getD (t - 15) 0) + w.getD (t - 16) 0]) m

abbrev State := W32 × W32 × W32 × W32 × W32 × W32 × W32 × W32

def H0 : State := (0x6a09e667, 0xbb67ae85, 0x3c6ef372, 0xa54ff53a, 0x510e527f, 0x9b05688c, 0x1f83d9ab, 0x5be0cd19)

/-- §6.2.2 step 3 -/
def step (w : List W32) (s : State) (t : Nat) : State :=
  let (a, b, c, d, e, f, g, h) := s
  let T1 := h + bsig1 e + ch e f g + K.getD t 0 + w.getD t 0
  let T2 := bsig0 a + maj a b c
  (T1 + T2, a, b, c, d + T1, e, f, g)

def compress (hh : State) (block : Bytes) : State :=
  let w := schedule (wordsOf be32 block)
  let (a, b, c, d, e, f, g, h) := (List.range 64).foldl (step w) hh
  (hh.1 + a, hh.2.1 + b, hh.2.2.1 + c, hh.2.2.2.1 + d, hh.2.2.2.2.1 + e, hh.2.2.2.2.2.1 + f, hh.2.2.2.2.2.2.1 + g, hh.2.2.2.2.2.2.2 + h)

def digestBytes (h : State) : Bytes :=
  be32Bytes h.1 ++ be32Bytes h.2.1 ++ be32Bytes h.2.2.1 ++ be32Bytes h.2.2.2.1 ++
  be32Bytes h.2.2.2.2.1 ++ be32Bytes h.2.2.2.2.2.1 ++ be32Bytes h.2.2.2.2.2.2.1 ++ be32Bytes h.2.2.2.2.2.2.2

def hash (m : Bytes) : Bytes := digestBytes ((chunks64 (pad be64Bytes m)).foldl compress H0)

end SHA256

/-! ### MD5 (RFC 1321 §3) -/
namespace MD5

def F (x y z : W32) : W32 := (x &&& y) ||| (~~~x &&& z)
def G (x y z : W32) : W32 := (x &&& z) ||| (y &&& ~~~z)
def H (x y z : W32) : W32 := x ^^^ y ^^^ z
def I (x y z : W32) : W32 := y ^^^ (x ||| ~~~z)

/-- §3.4: T[i] = floor(2^32 · |sin i|), i = 1..64 (the table printed in the RFC's appendix) -/
def T : List W32 := [
  0xd76aa478, 0xe8c7b756, 0x242070db, 0xc1bdceee, 0xf57c0faf, 0x4787c62a, 0xa8304613, 0xfd469501,
  0x698098d8, 0x8b44f7af, 0xffff5bb1, 0x895cd7be, 0x6b901122, 0xfd987193, 0xa679438e, 0x49b40821,
  0xf61e2562, 0xc040b340, 0x265e5a51, 0xe9b6c7aa, 0xd62f105d, 0x02441453, 0xd8a1e681, 0xe7d3fbc8,
  0x21e1cde6, 0xc33707d6, 0xf4d50d87, 0x455a14ed, 0xa9e3e905, 0xfcefa3f8, 0x676f02d9, 0x8d2a4c8a,
  0xfffa3942, 0x8771f681, 0x6d9d6122, 0xfde5380c, 0xa4beea44, 0x4bdecfa9, 0xf6bb4b60, 0xbebfbc70,
  0x289b7ec6, 0xeaa127fa, 0xd4ef3085, 0x04881d05, 0xd9d4d039, 0xe6db99e5, 0x1fa27cf8, 0xc4ac5665,
  0xf4292244, 0x432aff97, 0xab9423a7, 0xfc93a039, 0x655b59c3, 0x8f0ccc92, 0xffeff47d, 0x85845dd1,
  0x6fa87e4f, 0xfe2ce6e0, 0xa3014314, 0x4e0811a1, 0xf7537e82, 0xbd3af235, 0x2ad7d2bb, 0xeb86d391]

/-- §3.4: per-round rotation amounts -/
def S (i : Nat) : Nat :=
  match i / 16, i % 4 with
  | 0, 0 => 7 | 0, 1 => 12 | 0, 2 => 17 | 0, _ => 22
  | 1, 0 => 5 | 1, 1 => 9 | 1, 2 => 14 | 1, _ => 20
  | 2, 0 => 4 | 2, 1 => 11 | 2, 2 => 16 | 2, _ => 23
  | _, 0 => 6 | _, 1 => 10 | _, 2 => 15 | _, _ => 21

/-- §3.4: message word used by operation i (0-based) -/
def Kidx (i : Nat) : Nat :=
  match i / 16 with
  | 0 => i % 16
  | 1 => (5 * i + 1) % 16
  | 2 => (3 * i + 5) % 16
  | _ => (7 * i) % 16

def fn (i : Nat) (x y z : W32) : W32 :=
  match i / 16 with
  | 0 => F x y z | 1 => G x y z | 2 => H x y z | _ => I x y z

abbrev State := W32 × W32 × W32 × W32

def H0 : State := (0x67452301, 0xefcdab89, 0x98badcfe, 0x10325476)

/-- §3.4 operation i: a = b + ((a + f(b,c,d) + X[k] + T[i]) <<< s), followed by the cyclic renaming of the registers
    (the RFC writes the renaming into the operand order [ABCD] [DABC] [CDAB] [BCDA]) -/
def step (x : List W32) (s : State) (i : Nat) : State :=
  let (a, b, c, d) := s
  (d, b + rotl (a + fn i b c d + x.getD (Kidx i) 0 + T.getD i 0) (S i), b, c)

def compress (h : State) (block : Bytes) : State :=
  let x := wordsOf le32 block
  let (a, b, c, d) := (List.range 64).foldl (step x) h
  (h.1 + a, h.2.1 + b, h.2.2.1 + c, h.2.2.2 + d)

def digestBytes (h : State) : Bytes := le32Bytes h.1 ++ le32Bytes h.2.1 ++ le32Bytes h.2.2.1 ++ le32Bytes h.2.2.2

def hash (m : Bytes) : Bytes := digestBytes ((chunks64 (pad le64Bytes m)).foldl compress H0)

end MD5

/-! Tests of the specification itself: the standards' own vectors, kernel-checked. -/

private def ascii (s : String) : Bytes := s.toList.map fun c => BitVec.ofNat 8 c.toNat

/-- FIPS 180-4 / RFC 3174: SHA-1("abc") -/
example : hexOf (SHA1.hash (ascii "abc")) = "a9993e364706816aba3e25717850c26c9cd0d89d" := by decide +kernel
/-- SHA-1 of the 56-byte message (two-block padding) -/
example : hexOf (SHA1.hash (ascii "abcdbcdecdefdefgefghfghighijhijkijkljklmklmnlmnomnopnopq"))
    = "84983e441c3bd26ebaae4aa1f95129e5e54670f1" := by decide +kernel
/-- FIPS 180-4: SHA-256("abc") and the 56-byte message -/
example : hexOf (SHA256.hash (ascii "abc")) = "ba7816bf8f01cfea414140de5dae2223b00361a396177a9cb410ff61f20015ad" := by decide +kernel
example : hexOf (SHA256.hash (ascii "abcdbcdecdefdefgefghfghighijhijkijkljklmklmnlmnomnopnopq"))
    = "248d6a61d20638b8e5c026930c3e6039a33ce45964ff2167f6ecedd419db06c1" := by decide +kernel
/-- RFC 1321 A.5 test suite -/
example : hexOf (MD5.hash []) = "d41d8cd98f00b204e9800998ecf8427e" := by decide +kernel
example : hexOf (MD5.hash (ascii "abc")) = "900150983cd24fb0d6963f7d28e17f72" := by decide +kernel
example : hexOf (MD5.hash (ascii "12345678901234567890123456789012345678901234567890123456789012345678901234567890"))
    = "57edf4a22be3c955ac49da2e2107b67a" := by decide +kernel

end Wencry.Spec.Hash
