/-
Basic types shared by the specification, the model and the driver.
Core Lean only (no Mathlib) so that the driver links as a `lean_exe`.
-/
namespace Wencry

abbrev Byte := BitVec 8
abbrev Bytes := List Byte
abbrev W32 := BitVec 32
abbrev W64 := BitVec 64

/-- A 16-byte block. A structure (not a list) so that every block operation is total and
    equalities of blocks reduce to sixteen byte equalities. `b k` is the byte at offset `k`. -/
structure Block where
  b0 : Byte
  b1 : Byte
  b2 : Byte
  b3 : Byte
  b4 : Byte
  b5 : Byte
  b6 : Byte
  b7 : Byte
  b8 : Byte
  b9 : Byte
  b10 : Byte
  b11 : Byte
  b12 : Byte
  b13 : Byte
  b14 : Byte
  b15 : Byte
  deriving DecidableEq, Repr, Inhabited

namespace Block

def toList (b : Block) : Bytes :=
  [b.b0, b.b1, b.b2, b.b3, b.b4, b.b5, b.b6, b.b7, b.b8, b.b9, b.b10, b.b11, b.b12, b.b13, b.b14, b.b15]

/-- the first 16 bytes of a list as a block; `none` when the list is shorter -/
def ofList? : Bytes → Option Block
  | b0 :: b1 :: b2 :: b3 :: b4 :: b5 :: b6 :: b7 :: b8 :: b9 :: b10 :: b11 :: b12 :: b13 :: b14 :: b15 :: _ =>
      some ⟨b0, b1, b2, b3, b4, b5, b6, b7, b8, b9, b10, b11, b12, b13, b14, b15⟩
  | _ => none

/-- total variant (missing bytes read as 0); exact whenever the list has at least 16 bytes -/
def ofListD (l : Bytes) : Block :=
  ⟨l.getD 0 0, l.getD 1 0, l.getD 2 0, l.getD 3 0, l.getD 4 0, l.getD 5 0, l.getD 6 0, l.getD 7 0,
   l.getD 8 0, l.getD 9 0, l.getD 10 0, l.getD 11 0, l.getD 12 0, l.getD 13 0, l.getD 14 0, l.getD 15 0⟩

def zero : Block := ⟨0, 0, 0, 0, 0, 0, 0, 0, 0, 0, 0, 0, 0, 0, 0, 0⟩

/-- bytewise xor -/
def xor (x y : Block) : Block :=
  ⟨x.b0 ^^^ y.b0, x.b1 ^^^ y.b1, x.b2 ^^^ y.b2, x.b3 ^^^ y.b3, x.b4 ^^^ y.b4, x.b5 ^^^ y.b5, x.b6 ^^^ y.b6, x.b7 ^^^ y.b7,
   x.b8 ^^^ y.b8, x.b9 ^^^ y.b9, x.b10 ^^^ y.b10, x.b11 ^^^ y.b11, x.b12 ^^^ y.b12, x.b13 ^^^ y.b13, x.b14 ^^^ y.b14, x.b15 ^^^ y.b15⟩

def map (f : Byte → Byte) (x : Block) : Block :=
  ⟨f x.b0, f x.b1, f x.b2, f x.b3, f x.b4, f x.b5, f x.b6, f x.b7, f x.b8, f x.b9, f x.b10, f x.b11, f x.b12, f x.b13, f x.b14, f x.b15⟩

@[simp] theorem toList_length (b : Block) : b.toList.length = 16 := rfl

@[simp] theorem ofList?_toList (b : Block) : ofList? b.toList = some b := rfl

theorem ofList?_toList_append (b : Block) (r : Bytes) : ofList? (b.toList ++ r) = some b := rfl

theorem xor_xor_cancel_right (x y : Block) : (x.xor y).xor y = x := by
  cases x; cases y; simp [xor, BitVec.xor_assoc]

theorem xor_xor_cancel_left (x y : Block) : y.xor (y.xor x) = x := by
  cases x; cases y; simp [xor, ← BitVec.xor_assoc]

theorem xor_comm (x y : Block) : x.xor y = y.xor x := by
  cases x; cases y; simp [xor, BitVec.xor_comm]

end Block

/-- split a byte string into its whole 16-byte blocks and the remaining `< 16` bytes -/
def splitBlocks (bs : Bytes) : List Block × Bytes :=
  if _h : 16 ≤ bs.length then
    let r := splitBlocks (bs.drop 16)
    (Block.ofListD bs :: r.1, r.2)
  else ([], bs)
termination_by bs.length
decreasing_by simp [List.length_drop]; omega

def joinBlocks (bl : List Block) : Bytes := (bl.map Block.toList).flatten

/-- hexadecimal rendering used by the driver protocol -/
def hexDigit (n : Nat) : Char :=
  if n < 10 then Char.ofNat (48 + n) else Char.ofNat (87 + n)

def Byte.toHex (b : Byte) : String :=
  String.ofList [hexDigit (b.toNat / 16), hexDigit (b.toNat % 16)]

def hexOf (bs : Bytes) : String :=
  String.ofList (bs.flatMap fun b => [hexDigit (b.toNat / 16), hexDigit (b.toNat % 16)])

def hexVal? (c : Char) : Option Nat :=
  if '0' ≤ c ∧ c ≤ '9' then some (c.toNat - 48)
  else if 'a' ≤ c ∧ c ≤ 'f' then some (c.toNat - 87)
  else if 'A' ≤ c ∧ c ≤ 'F' then some (c.toNat - 55)
  else none

def unhexAux : List Char → Bytes → Option Bytes
  | [], acc => some acc.reverse
  | [_], _ => none
  | a :: b :: r, acc =>
    match hexVal? a, hexVal? b with
    | some x, some y => unhexAux r (BitVec.ofNat 8 (x * 16 + y) :: acc)
    | _, _ => none

/-- parse a hex string ("-" stands for the empty string) -/
def unhex? (s : String) : Option Bytes :=
  if s = "-" then some [] else unhexAux s.toList []

end Wencry
