/-
Line-protocol driver around the executable model and the executable specification.
One request per line on stdin, one reply per line on stdout. Imports Model and Spec only (never Proofs, never Mathlib).
-/
import Wencry.Basic
import Wencry.Model.Aes
import Wencry.Model.Modes
import Wencry.Model.Hash
import Wencry.Model.HashBuffer
import Wencry.Model.Hmac
import Wencry.Model.Base64
import Wencry.Model.IoBuffer
import Wencry.Model.File
import Wencry.Model.Pipe
import Wencry.Model.Cli
import Wencry.Model.Getopt
import Wencry.Model.Dialog
import Wencry.Spec.AES
import Wencry.Spec.Modes
import Wencry.Spec.Hash
import Wencry.Spec.HMAC
import Wencry.Spec.Base64
import Wencry.Spec.Wenc
open Wencry Wencry.Model

def blockOf? (s : String) : Option Block := do
  let bs ← unhex? s
  if bs.length = 16 then Block.ofList? bs else none

def blocksOf? (s : String) : Option (List Block) := do
  let bs ← unhex? s
  let (bl, t) := splitBlocks bs
  if t.isEmpty then some bl else none

def hexBlocks (bl : List Block) : String := let s := hexOf (joinBlocks bl); if s.isEmpty then "-" else s
def hexB (bs : Bytes) : String := let s := hexOf bs; if s.isEmpty then "-" else s

def fileFault : File.Fault → String
  | .nullDeref => "fault:nullDeref"

/-- write log with adjacent sequential writes merged: the order of writes, independent of how stdio or the code chunk them -/
def canonLog (log : List (Nat × Bytes)) : List (Nat × Nat) :=
  log.foldl (fun acc w =>
    match acc.getLast? with
    | some (o, l) => if o + l = w.1 then acc.dropLast ++ [(o, l + w.2.length)] else acc ++ [(w.1, w.2.length)]
    | none => [(w.1, w.2.length)]) []

def canonLogStr (log : List (Nat × Bytes)) : String :=
  if log.isEmpty then "-" else ",".intercalate ((canonLog log).map fun (o, l) => s!"{o}:{l}")

def logStr (log : List (Nat × Bytes)) : String :=
  if log.isEmpty then "-" else ",".intercalate (log.map fun (o, b) => s!"{o}:{b.length}")

/-- run a stream over several `run` calls (segments) -/
def runSegs (s : Modes.Stream) : List (List Block) → List (List Block)
  | [] => []
  | seg :: rest => let (s', o) := s.run seg; o :: runSegs s' rest

def splitOnBar (ws : List String) : List String := ws

def handle (ws : List String) : String :=
  match ws with
  | ["aes", dir, k, b] =>
    match blockOf? k, blockOf? b with
    | some k, some b => hexOf (if dir = "e" then Aes.encrypt k b else Aes.decrypt k b).toList
    | _, _ => "bad-op"
  | ["aesk", dir, k, b] =>
    match blockOf? k, blockOf? b with
    | some k, some b => hexOf (if dir = "e" then Aes.encryptK (Aes.allKeys k) b else Aes.decryptK (Aes.allKeys k) b).toList
    | _, _ => "bad-op"
  | ["saes", dir, k, b] =>
    match blockOf? k, blockOf? b with
    | some k, some b => hexOf (if dir = "e" then Spec.AES.cipher k b else Spec.AES.invCipher k b).toList
    | _, _ => "bad-op"
  | ["gmul", u, v] =>
    match u.toNat?, v.toNat? with
    | some u, some v => toString (Aes.gmul u (BitVec.ofNat 8 v)).toNat
    | _, _ => "bad-op"
  | ["sgmul", c, v] =>
    match c.toNat?, v.toNat? with
    | some c, some v => toString (Spec.AES.gfmul (BitVec.ofNat 8 c) (BitVec.ofNat 8 v)).toNat
    | _, _ => "bad-op"
  | "mode" :: dir :: ty :: k :: iv :: segs =>
    match ty.toNat?, blockOf? k, blockOf? iv, segs.mapM blocksOf? with
    | some ty, some k, some iv, some segs =>
      match Modes.create (dir = "e") ty k iv with
      | none => "null"
      | some s => " ".intercalate ((runSegs s segs).map hexBlocks)
    | _, _, _, _ => "bad-op"
  | "smode" :: dir :: ty :: k :: iv :: segs =>
    match ty.toNat?, blockOf? k, blockOf? iv, segs.mapM blocksOf? with
    | some ty, some k, some iv, some segs =>
      if ty > 4 then "null" else
      let all := segs.flatten
      let out := if dir = "e" then Spec.Modes.encrypt ty (Spec.AES.cipher k) iv all
                 else Spec.Modes.decrypt ty (Spec.AES.cipher k) (Spec.AES.invCipher k) iv all
      -- re-split like the input segments
      let rec cut (o : List Block) : List (List Block) → List (List Block)
        | [] => []
        | s :: r => o.take s.length :: cut (o.drop s.length) r
      " ".intercalate ((cut out segs).map hexBlocks)
    | _, _, _, _ => "bad-op"
  | ["hash", alg, m] =>
    match alg.toNat?, unhex? m with
    | some a, some m => match Hash.stringHash a m with | some d => hexOf d | none => "null"
    | _, _ => "bad-op"
  | ["shash", alg, m] =>
    match alg.toNat?, unhex? m with
    | some a, some m => if a > 2 then "null" else hexOf (Spec.HMAC.hashOf a m)
    | _, _ => "bad-op"
  | ["fhash", alg, H, pre, file, pos] =>
    match alg.toNat?, H.toNat?, unhex? pre, unhex? file, pos.toNat? with
    | some a, some H, some pre, some file, some pos =>
      let fp := (Stdio.RFile.open file).fseek pos
      let pre := if pre.isEmpty then none else some pre
      match Hash.fileHash a HashBuffer.reader (HashBuffer.fuelFor H fp) (HashBuffer.FB.new H fp pre) with
      | some (d, _) => hexOf d
      | none => "null"
    | _, _, _, _, _ => "bad-op"
  | ["hmac", h, H, k, file, pos] =>
    match h.toNat?, H.toNat?, unhex? k, unhex? file, pos.toNat? with
    | some h, some H, some k, some file, some pos =>
      match Hmac.getres H h k ((Stdio.RFile.open file).fseek pos) with
      | some (t, _) => hexOf t
      | none => "null"
    | _, _, _, _, _ => "bad-op"
  | ["shmac", h, k, m] =>
    match h.toNat?, unhex? k, unhex? m with
    | some h, some k, some m => if h > 2 then "null" else hexOf (Spec.HMAC.hmac (Spec.HMAC.hashOf h) k m)
    | _, _, _ => "bad-op"
  | ["cmp", h, H, k, file, pos, stored] =>
    match h.toNat?, H.toNat?, unhex? k, unhex? file, pos.toNat?, unhex? stored with
    | some h, some H, some k, some file, some pos, some st =>
      match Hmac.cmphmac H h k ((Stdio.RFile.open file).fseek pos) st with
      | some true => "1" | some false => "0" | none => "null"
    | _, _, _, _, _, _ => "bad-op"
  | ["b64e", m] =>
    match unhex? m with
    | some m => hexOf (Base64.hexToBase64 m)
    | none => "bad-op"
  | ["sb64e", m] =>
    match unhex? m with
    | some m => hexOf (Spec.Base64.encode m ++ [0])
    | none => "bad-op"
  | ["b64d", m] =>
    match unhex? m with
    | some m => match Base64.base64ToHex m with
      | .ok (some b) => "ok:" ++ hexB b
      | .ok none => "false"
      | .error _ => "fault:outOfBounds"
    | none => "bad-op"
  | ["keyok", m] =>
    match unhex? m with
    | some m => if Base64.isValidB64 m then "1" else "0"
    | none => "bad-op"
  | ["argkey", m] =>
    match unhex? m with
    | some m => match Base64.getArgsKey m with
      | .ok (some b) => "ok:" ++ hexB b
      | .ok none => "false"
      | .error _ => "fault:outOfBounds"
    | none => "bad-op"
  | ["enc", T, B, H, c, h, k, seed, plain] =>
    match T.toNat?, B.toNat?, H.toNat?, c.toNat?, h.toNat?, blockOf? k, unhex? seed, unhex? plain with
    | some T, some B, some H, some c, some h, some k, some seed, some plain =>
      match File.encrypt { T := T, B := B, H := H } c h k seed plain with
      | .ok f => hexB f.data
      | .error e => fileFault e
    | _, _, _, _, _, _, _, _ => "bad-op"
  | ["enclog", T, B, H, c, h, k, seed, plain] =>
    match T.toNat?, B.toNat?, H.toNat?, c.toNat?, h.toNat?, blockOf? k, unhex? seed, unhex? plain with
    | some T, some B, some H, some c, some h, some k, some seed, some plain =>
      match File.encrypt { T := T, B := B, H := H } c h k seed plain with
      | .ok f => canonLogStr f.log
      | .error e => fileFault e
    | _, _, _, _, _, _, _, _ => "bad-op"
  | ["senc", T, B, c, h, k, seed, plain] =>
    match T.toNat?, B.toNat?, c.toNat?, h.toNat?, blockOf? k, unhex? seed, unhex? plain with
    | some T, some B, some c, some h, some k, some seed, some plain => hexB (Spec.Wenc.wenc T B c h k seed plain)
    | _, _, _, _, _, _, _ => "bad-op"
  | ["dec", T, B, H, k, file] =>
    match T.toNat?, B.toNat?, H.toNat?, blockOf? k, unhex? file with
    | some T, some B, some H, some k, some file =>
      match File.decrypt { T := T, B := B, H := H } k file with
      | .ok (code, out) => s!"{code} {hexB out.data} {logStr out.log}"
      | .error e => fileFault e
    | _, _, _, _, _ => "bad-op"
  | ["ver", T, B, H, k, file] =>
    match T.toNat?, B.toNat?, H.toNat?, blockOf? k, unhex? file with
    | some T, some B, some H, some k, some file =>
      match File.executeVerify { T := T, B := B, H := H } k file with
      | .ok code => s!"{code}"
      | .error e => fileFault e
    | _, _, _, _, _ => "bad-op"
  | "pipe" :: rest => Pipe.driverPipe rest
  | "cli" :: rest => Cli.driverCli rest
  | "argv" :: rest => Getopt.driverArgv rest
  | ["dlg", inp, f1, f2] =>
    match unhex? inp, unhex? f1, unhex? f2 with
    | some inp, some f1, some f2 => Dialog.showParams (Dialog.dialogue (fun p => p == f1 || p == f2) inp)
    | _, _, _ => "bad-op"
  | _ => "bad-op"

partial def loop (h : IO.FS.Stream) (out : IO.FS.Stream) : IO Unit := do
  let line ← h.getLine
  if line.isEmpty then return ()
  let ws := (line.trimAscii.toString.splitOn " ").filter (· ≠ "")
  out.putStrLn (handle ws)
  loop h out

def main : IO Unit := do
  let out ← IO.getStdout
  loop (← IO.getStdin) out
  out.flush
