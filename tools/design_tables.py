#!/usr/bin/env python3
"""Regenerate the two tables of DESIGN.md §11 from seeded/*/meta.json and seeded/selftest_results.json.
The tables live between <!-- SEEDED_TABLE_BEGIN/END --> and <!-- SELFTEST_TABLE_BEGIN/END --> (or replace the literal
placeholders the first time). Bookkeeping only: runs nothing."""
import json, os, re
VERIF = os.path.dirname(os.path.dirname(os.path.abspath(__file__)))

def esc(s): return str(s).replace("|", "\\|").replace("\n", " ")

def seeded_table():
    rows = ["| seed | change (as delivered) | needs, to manifest | caught by | result |", "|---|---|---|---|---|"]
    d = os.path.join(VERIF, "seeded")
    for sid in sorted(os.listdir(d)):
        p = os.path.join(d, sid, "meta.json")
        if not os.path.exists(p): continue
        m = json.load(open(p))
        rows.append(f"| `{sid}` | {esc(m.get('change', ''))} | {esc(m.get('needs_to_manifest', ''))} | {esc(m.get('caught_by', ''))} | {esc(m.get('check_result', ''))} |")
    return "\n".join(rows)

def selftest_table():
    p = os.path.join(VERIF, "seeded", "selftest_results.json")
    res = json.load(open(p))
    rows = ["| mutation | expected | per check: exit / kind | as expected |", "|---|---|---|---|"]
    for r in res:
        per = []
        ok = True
        for c, v in sorted(r["checks"].items()):
            kind = "silent" if v["exit"] == 0 else ("concrete replay" if v.get("concrete") else "no-failing-input-found")
            per.append(f"{c}: {v['exit']} {kind}")
            ok = ok and v.get("as_expected", False)
        rows.append(f"| `{r['name']}` | {r['expect']} | {'; '.join(per)} | {'yes' if ok else '**NO**'} |")
    return "\n".join(rows)

def put(text, tag, table):
    b, e = f"<!-- {tag}_BEGIN -->", f"<!-- {tag}_END -->"
    block = f"{b}\n{table}\n{e}"
    if b in text:
        return re.sub(re.escape(b) + r".*?" + re.escape(e), lambda _: block, text, flags=re.S)
    return text.replace(f"{tag}_PLACEHOLDER", block)

if __name__ == "__main__":
    p = os.path.join(VERIF, "DESIGN.md")
    t = open(p).read()
    t = put(t, "SEEDED_TABLE", seeded_table())
    t = put(t, "SELFTEST_TABLE", selftest_table())
    open(p, "w").write(t)
    print("DESIGN.md tables regenerated")
