"""Shared machinery of ./check: regenerate data, build the Lean library and driver, audit, build the harness flavours
from /repo's working tree, run suites, compare real code / model / specification, write evidence and replays."""
import fcntl, glob, hashlib, json, os, re, shutil, subprocess, sys, time

VERIF = os.path.dirname(os.path.dirname(os.path.abspath(__file__)))
REPO = os.environ.get("WENCRY_REPO", "/repo")
LEAN = os.path.join(VERIF, "lean")
BUILD = os.path.join(VERIF, ".build")
HARNESS = os.path.join(VERIF, "harness")
DRIVER = os.path.join(LEAN, ".lake", "build", "bin", "driver")
os.makedirs(BUILD, exist_ok=True)

FORBIDDEN = re.compile(r"\bsorry\b|\badmit\b|^axiom |native_decide|bv_decide|implemented_by|\bunsafe |maxHeartbeats 0\b", re.M)
ALLOWED_AXIOMS = {"propext", "Classical.choice", "Quot.sound"}


class Lock:
    def __init__(self, name): self.path = os.path.join(BUILD, name + ".lock")
    def __enter__(self):
        self.f = open(self.path, "w"); fcntl.flock(self.f, fcntl.LOCK_EX); return self
    def __exit__(self, *a):
        fcntl.flock(self.f, fcntl.LOCK_UN); self.f.close()


def sh(cmd, **kw):
    return subprocess.run(cmd, shell=isinstance(cmd, str), capture_output=True, text=True, **kw)


# ---------------------------------------------------------------- Lean side
def gen_tables():
    r = sh([sys.executable, os.path.join(VERIF, "tools", "gen_tables.py")])
    return r.returncode == 0, (r.stdout + r.stderr).strip()


def strip_comments(src):
    src = re.sub(r"/-.*?-/", "", src, flags=re.S)
    return re.sub(r"--.*", "", src)


def lean_grep_audit():
    """forbidden constructs anywhere in the library (comments removed)"""
    hits = []
    for fn in glob.glob(os.path.join(LEAN, "Wencry", "**", "*.lean"), recursive=True):
        body = strip_comments(open(fn).read())
        for m in FORBIDDEN.finditer(body):
            hits.append(f"{os.path.relpath(fn, LEAN)}: {m.group(0).strip()}")
    return hits


def lake_build(targets):
    """returns (ok, log, failing declarations/lines)"""
    with Lock("lake"):
        r = sh(["lake", "build"] + targets, cwd=LEAN)
    log = r.stdout + r.stderr
    errs = [l for l in log.splitlines() if l.startswith("error:")]
    return r.returncode == 0, log, errs


def axioms_of(module, theorems):
    """#print axioms for the property theorems; returns {thm: [axioms]} or None if the file does not check"""
    src = f"import {module}\n" + "".join(f"#print axioms {t}\n" for t in theorems)
    path = os.path.join(BUILD, f"audit_{module.replace('.', '_')}_{os.getpid()}.lean")
    open(path, "w").write(src)
    try:
        r = sh(["lake", "env", "lean", path], cwd=LEAN)
    finally:
        os.remove(path)
    out = r.stdout + r.stderr
    res = {}
    for m in re.finditer(r"'([^']+)' depends on axioms: \[([^\]]*)\]", out):
        res[m.group(1)] = [a.strip() for a in m.group(2).split(",") if a.strip()]
    for m in re.finditer(r"'([^']+)' does not depend on any axioms", out):
        res[m.group(1)] = []
    if r.returncode != 0:
        return None, out
    return res, out


# ---------------------------------------------------------------- harness side
def repo_sources(with_main=False):
    srcs = []
    for pat in ("kernel/*.cpp", "kernel/hash/*.cpp", "kernel/multi_aes/*.cpp", "kernel/multi_aes/aes/*.cpp", "valget/*.cpp", "valget/base64/*.cpp"):
        srcs += sorted(glob.glob(os.path.join(REPO, pat)))
    if with_main: srcs.append(os.path.join(REPO, "main.cpp"))
    return srcs


def repo_includes():
    return [f"-I{REPO}/{d}" for d in ("kernel", "kernel/hash", "kernel/multi_aes", "kernel/multi_aes/aes", "valget", "valget/base64")]


def tree_digest(paths, extra=""):
    h = hashlib.sha256(extra.encode())
    for p in sorted(paths):
        h.update(p.encode()); h.update(open(p, "rb").read())
    return h.hexdigest()[:20]


SAN = ["-fsanitize=address,undefined", "-fno-sanitize-recover=all", "-fno-sanitize=alignment,nonnull-attribute,returns-nonnull-attribute", "-fno-omit-frame-pointer"]


def config_h_dir():
    d = os.path.join(BUILD, "generated"); os.makedirs(d, exist_ok=True)
    src = open(os.path.join(REPO, "config.h.in")).read()
    src = src.replace("@build_time@", "verif").replace("@PROJECT_VERSION_MAJOR@", "3").replace("@PROJECT_VERSION_MINOR@", "7") \
             .replace("@PROJECT_VERSION_PATCH@", "4").replace("@PROJECT_VERSION@", "3.7.4")
    p = os.path.join(d, "config.h")
    if not os.path.exists(p) or open(p).read() != src: open(p, "w").write(src)
    return d


def build_harness(name, main_src, B, H, extra_flags=(), with_repo_main=False, sanitize=True, extra_srcs=(), opt="-O1"):
    """compile one flavour of a harness binary from /repo's working tree; cached by content hash. returns (path|None, log)"""
    srcs = repo_sources(with_main=with_repo_main)
    hsrcs = ([os.path.join(HARNESS, main_src)] if main_src else []) + [os.path.join(HARNESS, s) for s in extra_srcs]
    headers = glob.glob(os.path.join(REPO, "**", "*.h"), recursive=True) + glob.glob(os.path.join(HARNESS, "**", "*.h"), recursive=True)
    headers = [h for h in headers if "/_build/" not in h]
    flags = ["-std=gnu++17", opt, "-g", "-w", "-pthread", "-DWENCRY_VERIF", f"-DWENCRY_VERIF_BUF_SZ={B}", f"-DWENCRY_VERIF_HBUF_SZ={H}", "-DOPT_ON",
             f"-I{HARNESS}", f"-I{config_h_dir()}"] + repo_includes() + (SAN if sanitize else []) + list(extra_flags)
    dig = tree_digest(srcs + hsrcs + headers + [os.path.join(REPO, "config.h.in")], " ".join(flags) + name)
    out = os.path.join(BUILD, f"{name}_{dig}")
    with Lock("harness_" + name):
        if os.path.exists(out):
            return out, "cached"
        for old in glob.glob(os.path.join(BUILD, f"{name}_*")):
            if not old.endswith(".lock"):
                try: os.remove(old)
                except OSError: pass
        objdir = os.path.join(BUILD, f"obj_{name}_{os.getpid()}"); os.makedirs(objdir, exist_ok=True)
        procs = []
        objs = []
        for i, s in enumerate(srcs + hsrcs):
            o = os.path.join(objdir, f"{i}.o"); objs.append(o)
            procs.append((s, subprocess.Popen(["g++"] + flags + ["-c", s, "-o", o], stdout=subprocess.PIPE, stderr=subprocess.STDOUT, text=True)))
        log = ""
        ok = True
        for s, p in procs:
            o, _ = p.communicate()
            if p.returncode != 0:
                ok = False; log += f"--- {s}\n{o[-3000:]}\n"
        if ok:
            r = sh(["g++"] + flags + objs + ["-o", out + ".tmp"])
            if r.returncode != 0: ok = False; log += r.stderr[-3000:]
            else: os.replace(out + ".tmp", out)
        shutil.rmtree(objdir, ignore_errors=True)
        return (out if ok else None), log


def run_harness(binary, args, seed, tier, timeout=3000, cwd=None, env_extra=None):
    env = dict(os.environ, VERIF_SEED=str(seed), VERIF_TIER=tier,
               ASAN_OPTIONS="detect_leaks=0:new_delete_type_mismatch=0:abort_on_error=0:exitcode=99:allocator_may_return_null=1", UBSAN_OPTIONS="print_stacktrace=1:halt_on_error=1:exitcode=98")
    if env_extra: env.update(env_extra)
    t0 = time.time()
    try:
        r = subprocess.run([binary] + args, capture_output=True, env=env, timeout=timeout, cwd=cwd)
        rc, out, err = r.returncode, r.stdout.decode(errors="replace"), r.stderr.decode(errors="replace")
    except subprocess.TimeoutExpired as e:
        rc, out, err = -999, (e.stdout or b"").decode(errors="replace"), "TIMEOUT " + (e.stderr or b"").decode(errors="replace")
    return rc, out, err, time.time() - t0


def run_driver(requests):
    """feed request lines to the compiled Lean driver; returns list of replies"""
    if not requests: return []
    p = subprocess.run([DRIVER], input="\n".join(requests) + "\n", capture_output=True, text=True)
    out = p.stdout.splitlines()
    if len(out) != len(requests):
        out += ["<driver-produced-no-reply>"] * (len(requests) - len(out))
    return out


def match_reply(real, model):
    """field-wise comparison; a field '*' on the real side is a wildcard"""
    if real == model: return True
    rf, mf = real.split(" "), model.split(" ")
    if len(rf) != len(mf): return False
    return all(a == "*" or a == b or (a == "!0" and b != "0" and b.isdigit()) for a, b in zip(rf, mf))


class SuiteResult:
    def __init__(self):
        self.m_total = 0; self.o_total = 0; self.m_bad = []; self.o_bad = []; self.asserts = []; self.known = []; self.info = {}
        self.distinct = set(); self.samples = []; self.per_suite = {}; self.crashes = []; self.wall = 0.0

    def absorb(self, lines):
        reqs = []; meta = []
        for ln in lines:
            f = ln.rstrip("\n").split("\t")
            if len(f) < 4: continue
            kind, suite, a, b = f[0], f[1], f[2], f[3]
            self.per_suite[suite] = self.per_suite.get(suite, 0) + 1
            if kind in ("M", "O"):
                reqs.append(a); meta.append((kind, suite, a, b))
            elif kind == "A": self.asserts.append({"suite": suite, "property": a, "what": b})
            elif kind == "K": self.known.append({"suite": suite, "id": a, "what": b})
            elif kind == "I": self.info[f"{suite}.{a}"] = b
        replies = run_driver(reqs)
        for (kind, suite, req, real), rep in zip(meta, replies):
            key = hashlib.md5(req.encode()).hexdigest()
            self.distinct.add(key)
            if kind == "M": self.m_total += 1
            else: self.o_total += 1
            if len(self.samples) < 6 and len(req) < 400 and (len(self.samples) == 0 or self.samples[-1]["suite"] != suite):
                self.samples.append({"suite": suite, "request": req, "real": real[:200], "lean": rep[:200]})
            if not match_reply(real, rep):
                (self.m_bad if kind == "M" else self.o_bad).append({"suite": suite, "request": req, "real": real, "lean": rep})


def write_json_atomic(path, obj):
    os.makedirs(os.path.dirname(path), exist_ok=True)
    tmp = path + f".tmp{os.getpid()}"
    json.dump(obj, open(tmp, "w"), indent=1)
    os.replace(tmp, path)
