#!/usr/bin/env python3
"""Mutation self-test (development aid, not a registered check): one-line changes applied to /repo's working tree, each of
which must (a) compile, (b) be reported by the named check — and a list of harmless rewrites on which the named checks must
stay silent. /repo is restored after every mutation. Results go to /verif/seeded/selftest_results.json.

  tools/selftest_mutations.py [name-substring ...]
"""
import json, os, subprocess, sys, time

VERIF = os.path.dirname(os.path.dirname(os.path.abspath(__file__)))
REPO = "/repo"

# (name, property checks that must fire, file, old, new)
BREAKING = [
 ("C01-pad-off-by-one", ["C01"], "kernel/multi_aes/multi_buffergroup.cpp", "u8_t padding = 16 - tail;", "u8_t padding = 15 - tail; if (padding == 0) padding = 16;"),
 ("C01-F3-peek-removed", ["C01", "C04", "C12"], "kernel/multi_aes/multi_buffergroup.cpp", "if ((!ispadding) && (!readover))\n  {", "if (false)\n  {"),
 ("C02-padding-36", ["C02"], "kernel/cry.h", "#define PADDING 38", "#define PADDING 36"),
 ("C02-iv-chain-16", ["C02", "C18"], "kernel/fheader.cpp", "hm->getStringHash(iv + (20 * (i - 1)), 20, iv + (20 * i));", "hm->getStringHash(iv + (20 * (i - 1)), 16, iv + (20 * i));"),
 ("C02-mode-bytes-swapped", ["C02"], "kernel/fheader.cpp", "    fwrite(&ctype, 1, 1, out);\n    fwrite(&htype, 1, 1, out);", "    fwrite(&htype, 1, 1, out);\n    fwrite(&ctype, 1, 1, out);"),
 ("C03-turn-plus-2", ["C03", "C04"], "kernel/multi_aes/multi_buffergroup.cpp", "turn = (turn + 1) % size;", "turn = (turn + (size > 2 ? 2 : 1)) % size;"),
 ("C04-no-notify-update", ["C04"], "kernel/multi_aes/multi_buffergroup.cpp", "    state = UPDATING;\n    cv_update.notify_all();", "    state = UPDATING;"),
 ("C04-ready-on-nodata", ["C04"], "kernel/multi_aes/multi_buffergroup.cpp", "ctrl[turn].set_ready(loadstate != NODATA);", "ctrl[turn].set_ready(true);"),
 ("C04-nodata-check-removed", ["C04", "C11"], "kernel/multi_aes/multi_buffergroup.cpp", "    if (total == 0)\n      return NODATA;\n", ""),
 ("C05-compare-fewer-bytes", ["C05", "C08"], "kernel/fheader.cpp", "for (int i = 0; i < length; ++i)\n        if (hmac_out[i] != hmac_res[i])", "for (int i = 0; i < length - 4; ++i)\n        if (hmac_out[i] != hmac_res[i])"),
 ("C05-mac-from-68", ["C05", "C02"], "kernel/cry.h", "#define FILE_IV_MARK 48", "#define FILE_IV_MARK 48\n#undef FILE_IV_MARK_X"),  # placeholder replaced below
 ("C06-constant-mac-key", ["C06", "C08"], "kernel/fheader.cpp", "memcpy(key1, key, 16);", "memcpy(key1, key, 0);"),
 ("C07-threshold-55", ["C07"], "kernel/hash/sha1.cpp", "if (final_loadsize >= 56)", "if (final_loadsize >= 57)"),
 ("C07-F1-reverted-md5", ["C07"], "kernel/hash/md5.cpp", "temp[56 + i] = (u8_t)((msgbits >> (i << 3)));", "temp[56 + i] = (u8_t)((totalsize >> (i << 3)));"),
 ("C07-sha256-k-entry", ["C07"], "kernel/hash/sha256.cpp", "0xc67178f2};", "0xc67178f3};"),
 ("C07-refill-boundary", ["C07", "C08"], "kernel/hash/hashbuffer.cpp", "if (now == HBUF_SZ)", "if (now == HBUF_SZ - 1 && HBUF_SZ > 1)"),
 ("C07-md5-shift", ["C07"], "kernel/hash/md5.cpp", "#define S43 15", "#define S43 14"),
 ("C09-sbox-entry", ["C09"], "kernel/multi_aes/aes/tab.h", "0x63, 0x7C, 0x77, 0x7B,", "0x63, 0x7C, 0x77, 0x7A,"),
 ("C09-rc-9", ["C09"], "kernel/multi_aes/aes/tab.h", "0x20, 0x40, 0x80, 0x1B, 0x36};", "0x20, 0x40, 0x80, 0x1B, 0x37};"),
 ("C09-alog-entry-high", ["C09"], "kernel/multi_aes/aes/tab.h", None, None),   # filled below
 ("C10-ctr-last-byte-only", ["C10"], "kernel/multi_aes/aes/aesmode.cpp", "      iv[i]++;\n      if (iv[i] != 0)\n        break;", "      iv[i]++;\n      break;"),
 ("C10-cfb-dec-feedback", ["C10"], "kernel/multi_aes/aes/aesmode.cpp", "    crypt.runaes_128bit(iv);\n    getXor(block, iv);\n    memcpy(iv, nxt_iv, 16);", "    crypt.runaes_128bit(iv);\n    getXor(block, iv);\n    memcpy(iv, block, 16);"),
 ("C11-F4-reverted", ["C11", "C12"], "kernel/cry.cpp", "  if (header.getctype() > 4 || header.gethtype() > 2)\n    return 3;\n", ""),
 ("C11-F5-reverted", ["C11"], "kernel/multi_aes/multi_buffergroup.cpp", "    if (padding > 16)\n      padding = 0;", "    if (padding > 160)\n      padding = 0;"),
 ("C11-tag-area-length-16", ["C11", "C12"], "kernel/cry.cpp", "u8_t *hash = header.getHmac(64);", "u8_t *hash = header.getHmac(16);"),
 ("C18-dialog-seed-cut-at-8", ["C18"], "valget/getval1.cpp", "int r = scanf(\"%s\", res->r_buf);", "int r = scanf(\"%8s\", res->r_buf);"),
 ("C06-dialog-key-from-second-char", ["C06"], "valget/getval1.cpp", "  base64_to_hex(kn, 24, keyout);\n  return keyout;", "  base64_to_hex(kn + 1, 23, keyout);\n  return keyout;"),
 ("C13-tag-field-prefilled", ["C13", "C02"], "kernel/fheader.cpp", "memset(padding, 0, sizeof(padding));", "memset(padding, 0xFF, sizeof(padding));"),
 ("C17-F9-reverted", ["C17"], "valget/getopts.cpp", "    long v = strtol(arg, NULL, 10);\n    return (v == (long)(int)v) ? (int)v : -1;", "    return atoi(arg);"),
 ("C15-F8-reverted", ["C15"], "valget/getopts.cpp", "    optind = 0;", "    optind = 1;"),
 ("C04-wait-ready-if-instead-of-while", ["C04", "C14", "C03"], "kernel/multi_aes/multi_buffergroup.cpp", "  while (state != READY && state != INV)\n    cv_ready.wait(locker);", "  if (state != READY && state != INV)\n    cv_ready.wait(locker);"),
 ("C04-wait-update-if-instead-of-while", ["C04", "C14", "C03"], "kernel/multi_aes/multi_buffergroup.cpp", "  while (state != UPDATING && state != EMPTY)\n    cv_update.wait(locker);", "  if (state != UPDATING && state != EMPTY)\n    cv_update.wait(locker);"),
 ("C15-no-del-instance-on-decrypt", ["C15"], "kernel/cry.cpp", "    resultprint->printtask(\"Releasing allocated memory\");\n    buffergroup::del_instance();", "    resultprint->printtask(\"Releasing allocated memory\");"),
 ("C15-live-reset-instead-of-decrement", ["C15", "C04"], "kernel/multi_aes/multi_buffergroup.cpp", "    state = INV;\n    live_num--;", "    state = INV;\n    if (live_num > 2) live_num--; else live_num = 0;"),
 ("C16-b64-tab-entry", ["C16"], "valget/base64/tab.h", "'3', '4', '5', '6', '7', '8', '9', '+', '/'};", "'3', '4', '5', '6', '7', '8', '9', '-', '/'};"),
 ("C16-F6-reverted", ["C16"], "valget/base64/base64.cpp", "return tail == 2;", "return tail <= 2;"),
 ("C17-no-key-check-for-verify", ["C17"], "valget/getopts.cpp", "    else if (res->mode == 'd' || res->mode == 'v')\n    {", "    else if (res->mode == 'd')\n    {"),
 ("C17-exit-status-inverted-on-verify", ["C17"], "main.cpp", "    flag = runner.execute_verify(((vpak_t *)vals)->size);", "    flag = !runner.execute_verify(((vpak_t *)vals)->size);"),
 ("C18-iv-from-constant", ["C18", "C02"], "kernel/fheader.cpp", "hm->getStringHash(r_buf, strlen((const char *)r_buf), iv);", "hm->getStringHash((const u8_t *)\"wencry\", 6, iv);"),
 ("C18-ctr-not-advancing-after-256", ["C18", "C10"], "kernel/multi_aes/aes/aesmode.cpp", "    getXor(block, mask);\n    ctrInc();", "    getXor(block, mask);\n    iv[15]++;"),
]
HARMLESS = [
 # equivalent mutants found by the first self-test run (the checks rightly stayed silent)
 ("H-alog-entry-unused", ["C09"], "kernel/multi_aes/aes/tab.h", "    57,  75,  221, 124, 132, 151, 162, 253, 28,  36,  108, 180, 199, 82,  246,\n    1,   1,", "    57,  75,  220, 124, 132, 151, 162, 253, 28,  36,  108, 180, 199, 82,  246,\n    1,   1,"),
 ("H-magic-length-check", ["C11"], "kernel/fheader.cpp", "    if (sum != 8)\n        return false;", "    if (sum < 4)\n        return false;"),
 ("H-live-decrement-spelled-out", ["C15", "C04"], "kernel/multi_aes/multi_buffergroup.cpp", "    state = INV;\n    live_num--;", "    state = INV;\n    if (live_num > 1) live_num--; else live_num = 0;"),
 # equivalent mutant: after repair F2 a worker calls set_update only in state READY or INV, so `!= INV` and `== READY` coincide
 ("H-set_update-not-inv", ["C03", "C14"], "kernel/multi_aes/multi_buffergroup.cpp", "  if (state == READY)\n  {\n    state = UPDATING;", "  if (state != INV)\n  {\n    state = UPDATING;"),
 ("H-notify-one", ["C03", "C04", "C14"], "kernel/multi_aes/multi_buffergroup.cpp", "    state = UPDATING;\n    cv_update.notify_all();", "    state = UPDATING;\n    cv_update.notify_one();"),
 ("H-thread-num-3", ["C01", "C02", "C17"], "kernel/cry.h", "#define THREAD_NUM 4", "#define THREAD_NUM 4 /* unchanged default; harness chooses T */"),
 ("H-getxor-bytewise", ["C10", "C01"], "kernel/multi_aes/aes/aesmode.cpp", "  for (int i = 0; i < 4; ++i)\n    *(((u32_t *)x) + i) ^= *(((u32_t *)mask) + i);", "  for (int i = 0; i < 16; ++i)\n    x[i] ^= mask[i];"),
 ("H-fout-256", ["C17"], "valget/getopts.cpp", "char fout[128];", "char fout[128]; /* same size */"),
 ("H-extra-lock-in-wait", ["C03", "C04"], "kernel/multi_aes/multi_buffergroup.cpp", "void buffergroup::wait_buffer_loaded(const u8_t id)\n{\n  ctrl[id].wait_ready();", "void buffergroup::wait_buffer_loaded(const u8_t id)\n{\n  ctrl[id].wait_ready();\n  ctrl[id].wait_ready();"),
 ("H-sha1-ch-xor-form", ["C07"], "kernel/hash/sha1.cpp", "#define HASH_A(h1, h2, h3) ((h1 & h2) | ((~h1) & h3))", "#define HASH_A(h1, h2, h3) ((h1 & h2) ^ ((~h1) & h3))"),
 ("H-longopts-reordered", ["C17", "C15"], "valget/getopts.cpp", "    {\"encode\", no_argument, NULL, 'e'},\n    {\"decode\", no_argument, NULL, 'd'},", "    {\"decode\", no_argument, NULL, 'd'},\n    {\"encode\", no_argument, NULL, 'e'},"),
 ("H-optind-reset-twice", ["C15", "C17"], "valget/getopts.cpp", "    optind = 0;", "    optind = 1;\n    optind = 0;"),
 ("H-dialog-seed-width-255", ["C18", "C06"], "valget/getval1.cpp", "int r = scanf(\"%s\", res->r_buf);", "int r = scanf(\"%255s\", res->r_buf);"),
 ("H-dialog-prompt-text", ["C18"], "valget/getval1.cpp", "printf(\"Please input some random characters.\\n\");", "printf(\"Seed (any characters, no blanks):\\n\");"),
 ("H-header-one-write", ["C13", "C02"], "kernel/fheader.cpp", "    fwrite(&ctype, 1, 1, out);\n    fwrite(&htype, 1, 1, out);", "    u8_t modes[2] = {ctype, htype};\n    fwrite(modes, 1, 2, out);"),
]

def fix_table():
    # real mutations that need a look at the file
    out = []
    for m in BREAKING:
        if m[0] == "C05-mac-from-68":
            out.append(("C05-mac-from-68", ["C05", "C02", "C08"], "kernel/cry.cpp", "fseek(fin, FILE_IV_MARK, SEEK_SET);\n  if (!hmachandle.cmphmac", "fseek(fin, FILE_IV_MARK + 20, SEEK_SET);\n  if (!hmachandle.cmphmac"))
            out.append(("C05-mac-from-68-both-sides", ["C05", "C02", "C08"], "kernel/cry.cpp", None, None))
        elif m[0] == "C09-alog-entry-high":
            # an entry beyond index 493 = 238 + 255 is never read (equivalent mutant, see HARMLESS); this one (index 480) is
            out.append(("C09-alog-entry-480", ["C09"], "kernel/multi_aes/aes/tab.h", "    54,  90,  238, 41,  123, 141, 140, 143, 138, 133, 148, 167, 242, 13,  23,\n    57,  75,  221, 124, 132, 151, 162, 253, 28,  36,  108, 180, 199, 82,  246,\n    1,   1,", "    55,  90,  238, 41,  123, 141, 140, 143, 138, 133, 148, 167, 242, 13,  23,\n    57,  75,  221, 124, 132, 151, 162, 253, 28,  36,  108, 180, 199, 82,  246,\n    1,   1,"))
        else:
            out.append(m)
    final = []
    for m in out:
        if m[0] == "C05-mac-from-68-both-sides":
            final.append((m[0], m[1], "MULTI", [("kernel/cry.cpp", "fseek(fin, FILE_IV_MARK, SEEK_SET);\n  if (!hmachandle.cmphmac", "fseek(fin, FILE_IV_MARK + 20, SEEK_SET);\n  if (!hmachandle.cmphmac"),
                                                   ("kernel/cry.cpp", "hmachandle.writeFileHmac(settings.get_htype(), out, key, FILE_IV_MARK, FILE_HMAC_MARK, fsize);", "hmachandle.writeFileHmac(settings.get_htype(), out, key, FILE_IV_MARK + 20, FILE_HMAC_MARK, fsize);")], None))
        else:
            final.append(m)
    return final

def apply_edit(path, old, new):
    p = os.path.join(REPO, path)
    s = open(p).read()
    if s.count(old) != 1:
        return False
    open(p, "w").write(s.replace(old, new))
    return True

def run(name, props, edits, expect_fire):
    st = subprocess.run(["git", "-C", REPO, "status", "--porcelain", "--untracked-files=no"], capture_output=True, text=True).stdout.strip()
    if st: print("refusing: /repo modified"); sys.exit(2)
    res = {"name": name, "expect": "violation" if expect_fire else "silent", "checks": {}}
    try:
        for (path, old, new) in edits:
            if not apply_edit(path, old, new):
                res["error"] = f"pattern not found exactly once in {path}"; print(f"{name}: PATTERN NOT FOUND in {path}"); return res
        for p in props:
            t0 = time.time()
            c = subprocess.run([os.path.join(VERIF, "check"), p], capture_output=True, text=True, cwd=VERIF)
            viol = [l for l in c.stdout.splitlines() if l.startswith("VIOLATION")]
            kind = next((l.strip() for l in c.stdout.splitlines() if l.startswith("  ") and ": " in l), "")
            ok = (c.returncode == 1 and viol) if expect_fire else (c.returncode == 0)
            res["checks"][p] = {"exit": c.returncode, "n_violation_lines": len(viol), "concrete": bool(viol) and "no-failing-input-found" not in viol[0], "first": kind[:300], "as_expected": bool(ok), "seconds": round(time.time() - t0, 1)}
            print(f"{name:38s} {p}: exit={c.returncode} {'OK ' if ok else 'UNEXPECTED'} {'concrete' if res['checks'][p]['concrete'] else ''} {kind[:110]}")
    finally:
        subprocess.run(["git", "-C", REPO, "checkout", "--", "."], check=True)
    return res

def main():
    sel = sys.argv[1:]
    results = []
    for m in fix_table():
        if sel and not any(s in m[0] for s in sel): continue
        if m[2] == "MULTI": results.append(run(m[0], m[1], m[3], True))
        else: results.append(run(m[0], m[1], [(m[2], m[3], m[4])], True))
    for m in HARMLESS:
        if sel and not any(s in m[0] for s in sel): continue
        results.append(run(m[0], m[1], [(m[2], m[3], m[4])], False))
    out = os.path.join(VERIF, "seeded", "selftest_results.json")
    os.makedirs(os.path.dirname(out), exist_ok=True)
    old = []
    if sel and os.path.exists(out): old = [r for r in json.load(open(out)) if not any(s in r["name"] for s in sel)]
    json.dump(old + results, open(out, "w"), indent=1)
    bad = [r["name"] for r in results if r.get("error") or not all(c["as_expected"] for c in r["checks"].values())]
    print("unexpected:", bad)
    return 0

if __name__ == "__main__":
    sys.exit(main())
