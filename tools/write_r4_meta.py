#!/usr/bin/env python3
"""Fill in /verif/seeded/Cxx-r4/meta.json (round-4 seeded defects). Bookkeeping only; runs nothing against /repo.
usage: write_r4_meta.py <first-evaluation log> <final-evaluation log>"""
import json, os, re, sys
VERIF = os.path.dirname(os.path.dirname(os.path.abspath(__file__)))
T = {
 "C01": ("bufferctrl::wait_update: `cv_update.wait_for(locker, 30 s, pred)` with the result ignored ('a dead worker must not block the I/O thread for ever')",
         "a worker that does not finish its chunk within 30 s while the I/O thread waits for that buffer (stopped process, starved thread): a chunk silently disappears, both operations report success",
         "C01 (the scheduled harness was added to this check: timed waits may time out whenever the scheduler injects a wake-up; output differs from the sequential reference)",
         "first evaluation: MISSED by ./check C01 (only real-thread round trips, no stall); the same change is caught by C03/C14"),
 "C02": ("iobuffer::load_buffer: `if (load == 0) return NODATA;` hoisted right after fread (the encrypt side's padding-only final chunk is skipped)",
         "plaintext length an exact multiple of the chunk size (including the empty file): file 16 bytes short, tag over the shorter body",
         "C02 (roundtrip: exact chunk multiples and the empty file vs Spec.Wenc)", None),
 "C03": ("runcrypt::prepare_AES: in ECB all workers share ONE cipher object ('ECB keeps no chaining state'); aeshandle::w is a scratch member",
         "ECB, more than one chunk, two workers inside runaes_128bit at the same time (a data race on the shared scratch state)",
         "C03/C01 (real-thread round trips in ECB with several chunks; the deterministic scheduler cannot see it because its toy streams replace the cipher objects)", None),
 "C04": ("iobuffer::load_buffer: 'retry short reads' loop `while (load < sum && !feof(fin)) load += fread(...)` (tests feof, not ferror)",
         "a read error on the input during the pipeline phase (directory as input, EIO mid-file, unreadable FILE*): the I/O thread spins for ever",
         "C04", None),
 "C05": ("FileHeader::getctype/gethtype return `char` (signed compare in the range check) + hmac::getres returns length 0 when the hasher is NULL",
         "hash-mode byte (offset 9, outside the MAC) set to 0x80..0xFF together with any other alteration: verification compares zero bytes",
         "C05 (tamper suite: all 256 values of bytes 8 and 9 combined with body changes)", None),
 "C06": ("hmac::getres: the three scratch buffers (padded key, key^ipad, key^opad||digest) become `static` (process-wide): getres is not re-entrant",
         "two verifications of the same file running concurrently in one process, one with the right key and one with a wrong key",
         "C06", None),
 "C07": ("Hashmaster gets a member `padblock[64]` reused by the final-block routines, cleared only in bytes 0..55",
         "a hasher object used before, and a message with len % 64 in 56..62 (stale length bytes of the previous message in the first padding block)",
         "C07 (hash suite: one hasher object used for several messages in a row — added after round 3)", None),
 "C08": ("Hashmaster::getFileHash: `if (sum != 0) getHash(hashblock, sum)` — the finalisation is skipped when the last read returns 0",
         "hashed region of length 0 mod 64 (plaintext length mod 64 in 32..47; API messages 0, 64, 128, 192): tag is the un-finalised chaining state",
         "C08/C07 (file-hash and hmac suites at every residue vs Spec)", None),
 "C09": ("the write-back at the end of runaes_128bit goes through a helper with a byte-wise fallback for unaligned pointers that emits the transpose",
         "a 16-byte block at an address that is not a multiple of 4",
         "C09", None),
 "C10": ("AesFactory keeps its own copy of the IV, copied with strncpy (stops at the first 0x00 byte)",
         "an IV with a 0x00 byte followed by a non-zero byte (the NIST example IV 00 01 .. 0f): CBC/CTR/CFB/OFB deviate from SP 800-38A; round trips still work",
         "C10 (mode suite: SP 800-38A appendix-F vectors, IVs with zero bytes; real vs Spec.Modes)", None),
 "C11": ("new accessor `u8_t FileHeader::gettextmark()` used for the decrypt-side seek: 48+20T truncated for T >= 11",
         "library API with 11..16 workers: a successful decryption writes 256 bytes more than the body holds",
         "C11 (malformed/roundtrip with T=16: output bound and model)", None),
 "C12": ("result plumbing through the printer objects: NullResPrint::printresd (quiet mode) returns true unconditionally",
         "decryption with no_echo (-n) of a file/key pair that verify rejects: decrypt reports success, verify reports failure",
         "C12", None),
 "C13": ("verdict read back from the printer object (`isPassed()`); the quiet printer never clears the flag",
         "verification or decryption in quiet mode (-n / no_echo): every crash state, wrong key or corrupted file passes",
         "C13", None),
 "C14": ("bufferctrl::wait_update: `if (state == READY) cv_update.wait(locker);` (no re-check after the wait)",
         "a spurious wake-up of the I/O thread while a worker still owns the buffer",
         "C14 (scheduled harness with injected spurious wake-ups: ownership monitor)", None),
 "C15": ("execute_encrypt returns early on a write error of the output BEFORE buffergroup::del_instance()",
         "an encryption whose output stream hits a write error (disk full, RLIMIT_FSIZE), followed by another operation in the same process",
         "C15", None),
 "C16": ("is_valid_b64: the '=' counting loop replaced by 'last two characters are ==' + alphabet loop that lets '=' through anywhere",
         "a 24-character key ending in == with further '=' earlier: accepted, fills fewer than 16 key bytes (rest uninitialised)",
         "C16 (b64 suite: validator grid over length x '=' count and positions vs model)", None),
 "C17": ("get_v_opt calls getopt_long_only instead of getopt_long",
         "a cluster of short options whose letters spell a prefix of a long option (-de, -he, -no, -en)",
         "C17 (argvhist suite: clusters such as -en, -ne, -nd vs Model/Getopt.lean)", None),
 "C18": ("FileHeader::getIV with a running `u8_t off` (same slip as C02-r3, judged against C18)",
         "T = 15 or 16: IV fields 14/15 are stale heap bytes, independent of the seed",
         "C18 (ivs suite with T up to 16 vs Spec ivChain)", None),
}
HIST = {'C04': 'first evaluation: MISSED (no I/O faults were injected anywhere). Added: `iofault` suite (fopencookie streams whose reads fail with EIO after N bytes in every phase, a directory as input, output streams that fail with ENOSPC) - every operation must return (45 s watchdog), leave the process clean and be followed by a correct round trip', 'C06': 'first evaluation: MISSED (no two operations ever ran at the same time). Added: concurrent verifications in the wrongkey suite (3 threads with the right key, 2 with one-bit neighbours)', 'C09': 'first evaluation: MISSED (all blocks and keys were 16-byte aligned). Added: keys and blocks at odd addresses in the aes and mode suites', 'C11': "first evaluation: MISSED by ./check C11 (its files used T <= 5; C01's T=16 round trip catches the same change). Added: authentic files written with T = 10, 11, 12, 16 in the malformed suite", 'C15': 'first evaluation: MISSED (no write errors). Caught by the new `iofault` suite (singleton survives / following round trip wrong)', 'C17': 'first evaluation: MISSED (clusters containing a mode letter only appeared next to another mode, where both parsers reject). Added: modes given inside clusters in the argvhist vocabulary, and cluster oracles in the bin suite', 'C18': "first evaluation: MISSED by ./check C18 (ivs suite used T <= 4; C02's T=16 comparison catches the same change). Added: T = 11, 15, 16 and a per-field seed-dependence check in the ivs suite"}
for _k, _v in HIST.items(): T[_k] = T[_k][:3] + (_v,)
CAUGHT = {'C04': 'C04 (new `iofault` suite: the operation hangs — 45 s watchdog)', 'C06': 'C06 (wrongkey suite: concurrent verifications)', 'C09': 'C09 (aes suite: keys and blocks at odd addresses; real vs Spec.AES)', 'C12': 'C12 (malformed suite: verify != decrypt — the harness now alternates quiet and echoing result printers)', 'C13': 'C13 (crash suite: every crash state verified — in quiet mode everything passes)', 'C15': 'C15 (new `iofault` suite: singleton survives an encryption whose output fails; the round trip that follows is wrong)', 'C01': 'C01 (scheduled harness added to this check; timed waits modelled in the shim)'}
for _k, _v in CAUGHT.items(): T[_k] = T[_k][:2] + (_v,) + T[_k][3:]
first = open(sys.argv[1]).read() if len(sys.argv) > 1 else ""
final = open(sys.argv[2]).read() if len(sys.argv) > 2 else ""
for pid, (change, needs, caught, hist) in T.items():
    sid = f"{pid}-r4"
    p = os.path.join(VERIF, "seeded", sid, "meta.json")
    if not os.path.exists(p): continue
    meta = json.load(open(p))
    m1 = re.search(rf"^{sid} vs {pid}: exit=(\d+) (\w+)", first, re.M)
    m2 = re.search(rf"^{sid} vs {pid}: exit=(\d+) (\w+)", final, re.M)
    meta.update({"breaks": pid, "round": 4, "change": change, "needs_to_manifest": needs,
                 "what_i_ran": "MUT_BASE=/tmp/mut4 tools/confirm_seed.py (clean build + demo passes; patch applied: builds, all 36 stable ids pass, demo fails; reverted) in the agent's scratch worktree; then tools/eval_seeded.py (patch applied to /repo, ./check, patch reverted)",
                 "caught_by": caught,
                 "first_evaluation": (m1.group(2) if m1 else "n/a"),
                 "check_result": ("VIOLATION with a concrete replay (exit 1)" if (m2 and m2.group(1) == "1") else ("MISSED (exit 0)" if m2 else "not evaluated"))})
    if hist: meta["history"] = hist
    json.dump(meta, open(p, "w"), indent=1)
    print(sid, meta["first_evaluation"], "->", meta["check_result"])
