#!/usr/bin/env python3
"""Fill in /verif/seeded/Cxx-r5/meta.json (round-5 seeded defects). Bookkeeping only.
usage: write_r5_meta.py <evaluation log with the harness of commit 13428e4> <final-evaluation log>"""
import json, os, re, sys
VERIF = os.path.dirname(os.path.dirname(os.path.abspath(__file__)))
T = {
 "C01": ("buffergroup::run_buffer split into a streaming phase and a drain phase that walks the buffers in INDEX order instead of continuing round-robin",
         "more chunks than workers and a chunk count that is not a multiple of T: the newest chunks are written before older ones (deterministic)",
         "C01 (roundtrip sweep: T x length grid up to 3 chunks + sched reference)"),
 "C02": ("sha1 final block: `final_loadsize > lenpos` with lenpos = 56 (the 0x80 marker forgotten): a 56-byte last block is mis-padded",
         "seed length 56 mod 64 (IV chain) or 20T + body length = 56 mod 64 with hmode 0 (tag; needs T in {2,6,10,14})",
         "C02 (roundtrip vs Spec.Wenc: T=2/h=0 with fewer than 16 plaintext bytes; C07's hash suite catches the same change at residue 56)"),
 "C03": ("iobuffer::export_buffer decides 'final chunk' from the group's `over` flag instead of the buffer's own `isfinal`",
         "decryption with T >= 2, at least two chunks, and an earlier full chunk ending in a byte 0x01..0x10 (stripped as if it were a pad)",
         "C03/C01 (pad-like last bytes in chunk data: sched reference and round trips)"),
 "C04": ("buffergroup::turn_iter: `(turn + 1) & (size - 1)` instead of `% size`",
         "a worker count that is not a power of two (3, 5, 6, 7, ...): some buffers are never visited, the run never returns",
         "C04 (scheduled harness with T=3: deadlock / endless loop alarm; real-thread round trips with T=3,5)"),
 "C05": ("filebuffer64::read_buffer64 peeks one byte before a refill with `char c = fgetc(fp); if (c != EOF)`",
         "authenticated region larger than one hash buffer and the ciphertext byte AT a refill boundary equal to 0xFF: everything behind it is outside the MAC",
         "C05 (new sentinel cases in the tamper suite: ciphertext byte 0xFF/0x00/LF/SUB placed exactly at chunk and refill boundaries, then changes behind it)"),
 "C06": ("hmac::getres allocates the hash buffer with `new (std::nothrow)`; on failure it returns length 0, and cmphmac compares zero bytes",
         "the 32 MiB hash buffer allocation fails (address-space limit) during a verification or decryption with a wrong key: the key is accepted",
         "C06 (new `memlimit` suite: non-sanitized flavour with the production hash buffer, RLIMIT_AS in a forked child; a wrong key must never be accepted — an abort is tolerated)"),
 "C07": ("length accounting moved into the framework; getStringHash sets `totalsize = length << 3` with a 32-bit `length`",
         "a message of at least 2^29 bytes through the memory entry point (bit length beyond 32 bits)",
         "C07 thorough tier only (new `hashbig` suite: 2^29+61-byte message, reference digests from hashlib); the quick tier cannot afford 512 MiB messages"),
 "C08": ("hmac::getres measures the file itself when fsize == 0 and then calls rewind(fp) instead of returning to the saved position",
         "fsize == 0 with a non-zero stream position: empty plaintext through the CLI, inputs of unknown size, API calls with the default fsize",
         "C08 (hmac suite: gethmac/cmphmac with the stream at positions 1..8 vs Spec.HMAC)"),
 "C09": ("column-mix product tables filled on first use behind `static bool done; if (done) return; done = true; <fill>` (flag set before the fill)",
         "a fresh process whose first AES calls are made by several threads at the same time",
         "C09 (new `firstuse` suite: the harness binary re-executed 80 times (400 in the thorough tier), built with -O2 and without sanitizers; twelve threads make their first AES / mode / hash / base64 calls behind a spin barrier)"),
 "C10": ("Aesmode::getXor gets a memcpy fallback for unaligned pointers with stride 1 instead of 4",
         "a block at an address that is not a multiple of 4 in CBC/CTR/CFB/OFB",
         "C10 (mode suite: blocks at odd addresses, added after round 4)"),
 "C11": ("md5 final block on the stack with `final_loadsize > 56` and a u32 memset length that underflows at exactly 56",
         "MD5 mode and a hashed region of 56 mod 64 bytes (never produced by the encryptor: truncated or garbage files): SIGSEGV instead of a clean failure",
         "C11 (malformed suite: every prefix of MD5-mode files; C07's residue sweep catches it too)"),
 "C12": ("execute_verify reduced to `return execute_decrypt(fsize)`, the payload stage guarded by `out != NULL`",
         "a verification that is given an output handle (`-v ... -o F`, or a non-NULL `out` in the API): the plaintext is written",
         "C12 (real_ver now gives every other verification an output handle, which must stay empty; `-v -o` oracle in the bin suite)"),
 "C13": ("runcrypt::verify: a 'cheap alignment check' returns `resultprint->printinv(0)` (false = 0 = 'check passed' for a result code)",
         "a crash state whose length is not header + 16k: accepted by verification and decryption",
         "C13 (crash suite: every byte prefix of every write)"),
 "C14": ("buffergroup::turn_iter mask instead of modulo (same line as C04-r5, judged against 'every chunk to its owner')",
         "T not a power of two",
         "C14 (scheduled harness T=3: chunk loaded into the wrong buffer / conformance rejects the interval)"),
 "C15": ("--cmode/--hmode parsed with strtol and `errno == ERANGE` tested without clearing errno first",
         "an earlier operation in the process left errno = ERANGE (e.g. --cmode 99999999999999999999), then a valid --cmode is rejected",
         "C15 (argvhist: histories containing overflowing mode numbers, added to the vocabulary; compared with fresh processes)"),
 "C16": ("hex_to_base64: early `return true` when the input length is a multiple of 3, before the terminating NUL is written",
         "len % 3 == 0 and a non-zero byte behind the last symbol in the output buffer",
         "C16 (b64 suite: output buffers prefilled with 0xAA and read as C strings under ASan)"),
 "C17": ("parseOpts `-i`: std::filesystem::file_size called without the try/catch once fopen succeeded",
         "an input path that opens but is not a regular file (directory, /dev/null, FIFO): uncaught exception, SIGABRT",
         "C17 (bin suite: directory, /dev/null and a FIFO as input for -e/-d/-v)"),
 "C18": ("AesCTR::ctrInc steps bytes 14..15 as a u16 and tests the wrap with `lo + 1 != 0` (computed as int: never zero)",
         "a CTR stream crossing a multiple of 2^16 blocks (or a seed whose IV ends near 0xFFFF): keystream repeats every 65536 blocks",
         "C18 (ivs suite: carry seeds — CTR streams whose counter carries within 40 blocks — vs Spec; C10's IVs ending in 0xFF bytes catch it too)"),
}
old = open(sys.argv[1]).read() if len(sys.argv) > 1 else ""
final = open(sys.argv[2]).read() if len(sys.argv) > 2 else ""
for pid, (change, needs, caught) in T.items():
    sid = f"{pid}-r5"
    p = os.path.join(VERIF, "seeded", sid, "meta.json")
    if not os.path.exists(p): continue
    meta = json.load(open(p))
    m1 = re.search(rf"^{sid} vs {pid}: exit=(\d+) (\w+)", old, re.M)
    m2 = re.search(rf"^{sid} vs {pid}: exit=(\d+) (\w+)", final, re.M)
    meta.update({"breaks": pid, "round": 5, "change": change, "needs_to_manifest": needs,
                 "what_i_ran": "MUT_BASE=/tmp/mut5 tools/confirm_seed.py (clean build + demo passes; patch applied: builds, all 36 stable ids pass, demo fails; reverted) in the agent's scratch worktree; evaluated twice with tools/eval_seeded.py: against the harness as committed BEFORE this round (a worktree of /verif at 13428e4) and against the strengthened one",
                 "caught_by": caught,
                 "first_evaluation": ((m1.group(2) + " (harness of commit 13428e4)") if m1 else "n/a"),
                 "check_result": ("VIOLATION with a concrete replay (exit 1)" if (m2 and m2.group(1) == "1") else ("MISSED (exit 0)" if m2 else "not evaluated"))})
    json.dump(meta, open(p, "w"), indent=1)
    print(sid, meta["first_evaluation"], "->", meta["check_result"])
