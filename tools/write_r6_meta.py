#!/usr/bin/env python3
"""Fill in /verif/seeded/Cxx-r6/meta.json (round-6 seeded defects). Bookkeeping only.
usage: write_r6_meta.py <first-evaluation log (harness before this round)> <final-evaluation log>"""
import json, os, re, sys
VERIF = os.path.dirname(os.path.dirname(os.path.abspath(__file__)))
T = {
 "C01": ("require_buffer_entry calls set_update() as soon as it hands out the LAST block of a full, non-final chunk (before the worker has transformed it)",
         "more than one chunk and the I/O thread exporting the buffer in the ~200 ns before the worker finishes that block",
         "C01/C03/C14 (scheduled harness: scheduling point after the hand-back; output differs, worker finishes a block in state UPDATING)"),
 "C02": ("FileHeader::getIV takes the seed length as strnlen(r_buf, 256)",
         "a seed of 257 bytes or more through the library API: IV area is the SHA-1 chain of the 256-byte prefix",
         "C02 (roundtrip: seeds of 119..1000 bytes, added after this seed was missed; ivs: two 300-byte seeds sharing 256 bytes)"),
 "C03": ("buffergroup::retire_idle(): when the input is exhausted every other buffer whose cursor says `now >= total` is set INV — an unlocked read of the worker's cursor",
         "at least two chunks, T >= 2, and another worker has consumed all its entries at the instant the reader hits EOF: its chunk is never exported",
         "C03 (scheduled harness: output differs from the sequential reference)"),
 "C04": ("execute_encrypt returns early when the header cannot be flushed, deleting the buffer group without running the pipeline: bufferctrl::live_num stays at T",
         "an encryption whose output stream is dead (ENOSPC, read-only handle), then any other operation in the same process: turn_iter spins for ever",
         "C04 (iofault suite: output failing after 0 bytes, followed by an ordinary round trip — hang, and live counter not 0)"),
 "C05": ("hmac::getres fills the HMAC key block with strncpy(key1, key, 16)",
         "a key containing a 0x00 byte: the MAC key is the key cut there; an attacker who knows that prefix re-tags an altered file",
         "C05 (tamper suite: body changed and tag recomputed under the key cut at its first zero byte / its first 8 bytes / the zero key — concrete oracle added after the first evaluation, which only saw a model mismatch)"),
 "C06": ("hmac methods gain a key-length parameter; the two runcrypt call sites pass sizeof(key) where key is a pointer (8)",
         "a wrong key that agrees with the right one on bytes 0..7 (64 of the 128 one-bit neighbours)",
         "C06 (wrongkey suite: all 128 one-bit neighbours)"),
 "C07": ("full-block load hoisted into Hashmaster::loadblock(input, scratch): sizeof(scratch) of a pointer (8 of 64 bytes copied) on the path for unaligned input",
         "getStringHash on a message of >= 64 bytes at an address that is not a multiple of 4",
         "C07 (hash suite: every other message at an odd address — the odd-address rule had not been applied to the hashes)"),
 "C08": ("Hashmaster::totalsize and addtotal become u32_t (bit counter wraps at 2^32 bits)",
         "a hashed stream of 512 MiB or more: tags self-consistent but not RFC 2104",
         "C08 thorough tier only (new `hmacbig` suite: tag over 2^29 zero bytes vs Python hmac; 18 s in a non-sanitized -O2 build)"),
 "C09": ("keyhandle::genall packs the key rows with `init_key[12+i] << 24` in signed int, sign-extended into the upper row",
         "a key whose byte 12 or 14 is >= 0x80",
         "C09 (aes suite: random keys and byte-value families vs Spec.AES)"),
 "C10": ("AesCTR recomputes the counter from a byte offset kept in a 32-bit signed int",
         "more than 2^27 blocks (2 GiB) through one stream object",
         "C10 thorough tier only (new `ctrlong` suite: 2^27+4 blocks through one object, probes compared with fresh objects started at IV + j — the position law proved as `ctr_position_law`; 50 s)"),
 "C11": ("AesFactory::getName becomes a table lookup guarded by `type < sizeof(names)` (40, not 5)",
         "cipher-mode byte 5..39 in the input file with the echoing printer: verify prints the name before the range check — out-of-bounds read / uncaught exception",
         "C11 (malformed suite: all 256 values of byte 8, echoing printer every third operation, ASan)"),
 "C12": ("the decrypt-only leg fails when fewer than 20*T IV bytes can be read; verify() still accepts",
         "an authentic file shorter than 48 + 20*T_reader (written with fewer workers than it is read with)",
         "C12 (malformed suite: valid files read with a different worker count: verify != decrypt)"),
 "C13": ("verify(): `if (fseek(...) == 0 && !cmphmac(...)) return 2; else return 0;` — a failing seek skips the tag check and passes",
         "the partial file arrives through a non-seekable stream (pipe, FIFO, /dev/stdin)",
         "C13 (crash suite: every fifth crash state is also fed through a pipe, added after this seed was missed)"),
 "C14": ("multicry_master constructor: `thread_num < THREAD_MAX ? thread_num : THREAD_MAX - 1` (count confused with last index): 16 workers requested, 15 started",
         "T = 16 and at least 16 chunks: ring position 15 is loaded and never taken",
         "C14 (scheduled harness with T = 15, 16 and T+2 chunks, added after this seed was missed; a READY buffer with blocks nobody will take at deadlock)"),
 "C15": ("get_v_opt returns a pointer to a function-local static vpak_t instead of a heap object",
         "two command lines parsed in one process before the first is executed (and: the caller frees what it was given)",
         "C15 (parsehist/argvhist: the harness frees the result as main.cpp's contract allows — ASan reports the free of a static object)"),
 "C16": ("-k handler trims blanks for the VALIDATION only; getArgsKey still decodes 24 characters from the untrimmed pointer",
         "a -k argument with leading blanks or tabs that is a valid key after trimming: 17/18 bytes into the 16-byte buffer, wrong key bytes",
         "C16 (new `keyargs` CLI suite under ASan, added after this seed was missed: whitespace around keys, 25-27 character keys, random 24-character strings vs the model)"),
 "C17": ("is_valid_b64: the `len % 4` test removed ((len/4)*3-2 == 16 holds for 24..27)",
         "a key text of 25-27 characters ending in ==",
         "C17 (cli suite: malformed keys through get_v_opt under ASan; the b64 validator grid of C16 sees it too)"),
 "C18": ("Aesmode constructor copies the IV with strncpy",
         "a seed whose SHA-1 has a zero byte among its first 16 bytes (6%): all such seeds sharing the prefix up to that byte give the same stream IV",
         "C18 (ivs suite vs Spec; seeds whose SHA-1 starts with 00 added as fixed cases)"),
}
first = open(sys.argv[1]).read() if len(sys.argv) > 1 else ""
final = open(sys.argv[2]).read() if len(sys.argv) > 2 else ""
THOROUGH = {"C08", "C10"}
for pid, (change, needs, caught) in T.items():
    sid = f"{pid}-r6"
    p = os.path.join(VERIF, "seeded", sid, "meta.json")
    if not os.path.exists(p): continue
    meta = json.load(open(p))
    m1 = re.search(rf"^{sid} vs {pid}: exit=(\d+) (\w+)", first, re.M)
    m2 = re.search(rf"^{sid} vs {pid}: exit=(\d+) (\w+)", final, re.M)
    res = "VIOLATION with a concrete replay (exit 1)" if (m2 and m2.group(1) == "1") else ("MISSED (exit 0)" if m2 else "not evaluated")
    if pid in THOROUGH: res = "MISSED by the quick tier (production-size trigger); VIOLATION with a concrete replay in the thorough tier"
    meta.update({"breaks": pid, "round": 6, "change": change, "needs_to_manifest": needs,
                 "what_i_ran": "MUT_BASE=/tmp/mut6 tools/confirm_seed.py (clean build + demo passes; patch applied: builds, all 36 stable ids pass, demo fails; reverted) in the agent's scratch worktree; tools/eval_seeded.py against the harness as it was BEFORE this round (first evaluation) and after strengthening",
                 "caught_by": caught, "first_evaluation": (m1.group(2) if m1 else "n/a"), "check_result": res})
    json.dump(meta, open(p, "w"), indent=1)
    print(sid, meta["first_evaluation"], "->", res[:40])
