#!/usr/bin/env python3
"""Cross-check of the Lean SPECIFICATION (Spec/*.lean, through the compiled driver) against third implementations present in
the image: Python hashlib / hmac / base64 and `openssl enc`. Supporting evidence only (it guards my reading of the standards;
it decides no property). Used by the thorough tier of C02, C07, C08, C09, C10, C16 and runnable by hand:

    tools/spec_crosscheck.py [seed] [count]      exit 0 = all agree
"""
import base64, hashlib, hmac, os, random, shutil, subprocess, sys
sys.path.insert(0, os.path.dirname(os.path.abspath(__file__)))
import wvlib as W

def hx(b): return b.hex() if b else "-"

def openssl_enc(mode, key, iv, data, decrypt=False):
    name = {0: "ecb", 1: "cbc", 2: "ctr", 3: "cfb", 4: "ofb"}[mode]
    cmd = ["openssl", "enc", f"-aes-128-{name}", "-K", key.hex(), "-nopad"] + (["-d"] if decrypt else [])
    if mode != 0: cmd += ["-iv", iv.hex()]
    r = subprocess.run(cmd, input=data, capture_output=True)
    return r.stdout if r.returncode == 0 else None

def run(seed=1, count=200):
    rnd = random.Random(seed)
    reqs, want, what = [], [], []
    def add(req, expected, label): reqs.append(req); want.append(expected); what.append(label)
    algs = {0: hashlib.sha1, 1: hashlib.md5, 2: hashlib.sha256}
    for _ in range(count):
        n = rnd.choice([0, 1, 3, 55, 56, 57, 63, 64, 65, 119, 120, 127, 128, rnd.randrange(0, 400)])
        m = rnd.randbytes(n)
        for a, f in algs.items():
            add(f"shash {a} {hx(m)}", f(m).hexdigest(), "hash")
        k = rnd.randbytes(16)
        for a, f in algs.items():
            add(f"shmac {a} {hx(k)} {hx(m)}", hmac.new(k, m, f).hexdigest(), "hmac")
        add(f"sb64e {hx(m)}", (base64.b64encode(m) + b"\0").hex(), "base64")
    have_openssl = shutil.which("openssl") is not None
    if have_openssl:
        for i in range(max(20, count // 4)):
            key, iv = rnd.randbytes(16), rnd.randbytes(16)
            if i % 3 == 0:      # counters / feedback registers ending in 0xFF bytes
                kff = rnd.randrange(1, 17); iv = iv[:16 - kff] + b"\xff" * kff
            nb = rnd.randrange(1, 9)
            data = rnd.randbytes(16 * nb)
            blk = data[:16]
            e = openssl_enc(0, key, iv, blk)
            if e is not None:
                add(f"saes e {key.hex()} {blk.hex()}", e.hex(), "aes-ecb-block")
                add(f"saes d {key.hex()} {e.hex()}", blk.hex(), "aes-ecb-block-inverse")
            for mode in range(5):
                c = openssl_enc(mode, key, iv, data)
                if c is None: continue
                add(f"smode e {mode} {key.hex()} {iv.hex()} {data.hex()}", c.hex(), f"mode{mode}-enc")
                add(f"smode d {mode} {key.hex()} {iv.hex()} {c.hex()}", data.hex(), f"mode{mode}-dec")
    got = W.run_driver(reqs)
    bad = [(w, r, e, g) for w, r, e, g in zip(what, reqs, want, got) if e != g]
    counts = {}
    for w in what: counts[w] = counts.get(w, 0) + 1
    return {"requests": len(reqs), "disagreements": len(bad), "openssl": have_openssl, "by_kind": counts,
            "first_bad": [{"kind": b[0], "request": b[1][:300], "third_party": b[2][:200], "spec": b[3][:200]} for b in bad[:3]]}

if __name__ == "__main__":
    seed = int(sys.argv[1]) if len(sys.argv) > 1 else 1
    count = int(sys.argv[2]) if len(sys.argv) > 2 else 200
    res = run(seed, count)
    print(res)
    sys.exit(0 if res["disagreements"] == 0 else 1)
