#!/usr/bin/env python3
"""Fill in /verif/seeded/Cxx-r3/meta.json (round-3 seeded defects). Bookkeeping only; runs nothing against /repo.
usage: write_r3_meta.py <first-evaluation log> <final-evaluation log>"""
import json, os, re, sys
VERIF = os.path.dirname(os.path.dirname(os.path.abspath(__file__)))
T = {
 "C01": ("cry.h: header-layout #defines become `static const u8_t` / `u8_t FILE_TEXT_MARK(u8_t)`: 48+20T truncated modulo 256 for T >= 11",
         "worker count 11..16 through the library API (the CLI uses 4): decryption starts 256 bytes too early, both operations report success",
         "C01 (roundtrip sweep includes T=16: decrypt(encrypt(P)) != P; the regenerated `c_FILE_TEXT_MARK` also breaks C02's `layout_constants`)", None),
 "C02": ("FileHeader::getIV: running offset `u8_t prev += ivlen` wraps at 260: IV slots 14/15 never written, slots 1/2 overwritten",
         "T = 15 or 16 (library API); body and tag still standard, round trip works; only a byte comparison of header bytes [48,48+20T) shows it",
         "C02 (roundtrip with T=16: real file vs Spec.Wenc, `senc` oracle)", None),
 "C03": ("bufferctrl::wait_update: `while (state != UPDATING && state != EMPTY) wait` becomes `if (state == READY) wait` (no re-check after the wait)",
         "a spurious wake-up of the I/O thread while a worker is still inside its chunk: the chunk is dropped / overwritten, run exits successfully",
         "C03 (scheduled harness with injected spurious wake-ups, added just before this round: output differs from the sequential reference; C14 monitor fires too)", None),
 "C04": ("set_update() waits on cv_ready itself with one bare `cv_ready.wait(locker)`; require_buffer_entry no longer calls wait_ready()",
         "a spurious wake-up of a worker that has just handed its buffer back while more input remains: worker exits, I/O thread blocks for ever",
         "C04 (scheduled harness with injected spurious wake-ups: deadlock detector)", None),
 "C05": ("runcrypt::verify compares the tag itself, 'constant-time', folding differences with ^= : verification passes when the XOR of all tag bytes matches",
         "altered ciphertext plus one of the 256 values of one tag byte (or 1/256 of random alterations)",
         "C05 (tamper suite: zeroed-tag/changed-body forgeries and byte overwrites; decrypts to different plaintext)", None),
 "C06": ("runcrypt::verify gets a session cache of the last successful verification keyed by the key POINTER and the 64 header bytes",
         "one process: verify/decrypt F with the right key in buffer B, overwrite B with a wrong key, verify/decrypt F again",
         "C06 (wrongkey suite after strengthening: all keys go through one long-lived key buffer and the right key is used successfully in between)",
         "first evaluation: MISSED (the suite never used the right key between wrong keys and passed keys in fresh stack buffers)"),
 "C07": ("final-block routines of sha1/md5/sha256 use a function-local `static u8_t temp[64]` instead of a heap block",
         "two threads hashing with the same algorithm at the same time, each with its own hasher (library-level; the CLI hashes on one thread)",
         "C07 (new `hashmt` suite: 8 threads, one hasher each, digests vs the same digests computed alone and vs Spec)",
         "first evaluation: MISSED (all hashing in the check was single-threaded)"),
 "C08": ("hmac::cmphmac 'constant-time' over 4-byte words with `diff ^= a ^ b`",
         "stored tag differing from the true one in two different words with cancelling deltas (e.g. the same bit at offsets 10 and 14)",
         "C08 (cmp suite: two cancelling bit flips in different tag bytes)", None),
 "C09": ("keyhandle keeps a pointer into its own aligned buffer; implicit copy/move/assignment kept (rule of three)",
         "a cipher object is copied, the original destroyed / re-keyed / its memory reused, then the copy is used",
         "C09 (aes suite after strengthening: object-lifetime cases — copy, placement re-construction with another key, vector growth, assignment; ASan use-after-poison and wrong AES output)",
         "first evaluation: MISSED (every case used a fresh object once)"),
 "C10": ("AesECB_Enc/Dec get a one-entry memo (last_in/last_out) without a valid flag: zero block maps to zero block",
         "ECB and the first block(s) of the stream are 16 zero bytes",
         "C10 (mode suite after strengthening: streams starting with / consisting of zero blocks, repeated blocks, zero IV/key; real vs Spec.Modes)",
         "first evaluation: MISSED (only random data)"),
 "C11": ("filebuffer64::read_buffer64 refill: `total = fread(b, 0x40, HBUF_SZ, fp)` (complete items only; tail not updated)",
         "hashed region larger than one hash buffer and (size-48) mod 64 != 0: the last bytes are not authenticated; truncated files verify",
         "C11 (malformed suite with H=2 and H=1: every prefix of valid files, verdict vs model)", None),
 "C12": ("getopts.cpp -i: `fout_fits = strlen(optarg) < sizeof(fout)` before the snprintf (checks the input path, not path + \".wenc\")",
         "`-e` without `-o` and an input path of exactly 127 characters: the default name truncates to the input path, which is opened wb+ and overwritten",
         "C12 (new `intact` CLI suite: every path length 117..131 and names with '%': input unchanged, default output = F.wenc or a diagnostic); C17/C15 argvhist also see the changed outcome",
         "first evaluation: MISSED by ./check C12 (its suites were library-level only)"),
 "C13": ("hmac::cmphmac XOR-accumulates over `length >> 3` 64-bit words: bytes 16..19 of a SHA-1 tag are never compared",
         "hash mode SHA-1 and a crash inside the final 20-byte tag write after 16..19 bytes have landed",
         "C13 (crash suite: every byte prefix of every write is verified and decrypted)", None),
 "C14": ("bufferctrl::wait_update uses `cv_update.wait_for(locker, 5 s, pred)` and ignores the result",
         "a worker needs more than 5 s for its chunk (stopped process, overloaded host): the I/O thread refills a buffer its worker still owns",
         "C14 (scheduled harness; timed waits were added to the shim for this seed: a timed wait may time out whenever the scheduler injects a wake-up; ownership monitor)", "the shim had no wait_for before this round: the scheduled harness would not have compiled (reported as a broken tie, no concrete input)"),
 "C15": ("keyhandle constructor caches the last expanded key schedule in statics; 'same key' tested with strncmp (stops at a zero byte)",
         "two AES operations in one process with different keys that agree up to and including a 0x00 byte",
         "C15 (proc suite after strengthening: related keys within a history, and the reference run is now a fresh process IMAGE (fork+exec) instead of a fork)",
         "first evaluation: MISSED — and instructive: the 'fresh process' of the suite was a fork of the polluted process, which inherits static caches"),
 "C16": ("is_base64: `hex_tab[c & 0x7f] != 255` instead of isalnum/+//: bytes >= 0x80 aliasing a base64 symbol are accepted",
         "a 24-character key string containing a high-bit byte whose low 7 bits are a base64 symbol; the decoder then indexes hex_tab out of bounds",
         "C16 (b64 suite: validator grid with one foreign character at every position, all byte values; UBSan/ASan index report)", None),
 "C17": ("getopts.cpp -i: snprintf(fout, sizeof fout, (optarg + suffix).c_str()) — the input path becomes the format string",
         "an input path containing '%' followed by a conversion: wrong default output name, or a crash (%s, %n)",
         "C17 (new `intact` CLI suite and argvhist vocabulary with '%' names: F.wenc not written / unexpected file / crash)",
         "first evaluation: MISSED (no path with '%' in any suite)"),
 "C18": ("AesCBC_Enc chains through a pointer into the chunk buffer (third appearance of this mechanism, now judged against C18)",
         "CBC, a worker receiving a second full chunk: ciphertext of chunks >= T no longer depends on the seed",
         "C18 (ivs suite: repeated-chunk files vs Spec; same-stream chunks must differ)", None),
}
first = open(sys.argv[1]).read() if len(sys.argv) > 1 else ""
final = open(sys.argv[2]).read() if len(sys.argv) > 2 else ""
for pid, (change, needs, caught, hist) in T.items():
    sid = f"{pid}-r3"
    p = os.path.join(VERIF, "seeded", sid, "meta.json")
    meta = json.load(open(p)) if os.path.exists(p) else {"id": sid, "property": pid}
    m1 = re.search(rf"^{sid} vs {pid}: exit=(\d+) (\w+)", first, re.M)
    m2 = re.search(rf"^{sid} vs {pid}: exit=(\d+) (\w+)", final, re.M)
    meta.update({"breaks": pid, "round": 3, "change": change, "needs_to_manifest": needs,
                 "what_i_ran": "MUT_BASE=/tmp/mut3 tools/confirm_seed.py (clean build + demo passes; patch applied: builds, all 36 stable ids pass, demo fails; reverted) in the agent's scratch worktree; then tools/eval_seeded.py (patch applied to /repo, ./check, patch reverted)",
                 "caught_by": caught,
                 "first_evaluation": (m1.group(2) if m1 else "n/a"),
                 "check_result": ("VIOLATION with a concrete replay (exit 1)" if (m2 and m2.group(1) == "1") else ("MISSED (exit 0)" if m2 else "not evaluated"))})
    if hist: meta["history"] = hist
    json.dump(meta, open(p, "w"), indent=1)
    print(sid, meta["first_evaluation"], "->", meta["check_result"])
