#!/usr/bin/env python3
"""Rebuild /repo/_build with the verification guard OFF and run the repository's pinned test suite.

Exit 0 iff every test id listed in BASELINE.json "stable_pass" passes (ctest-level ids `X::X` and
googletest case ids `Suite::case`).  Used as MANIFEST.hooks.baseline_off_cmd.
"""
import json, os, subprocess, sys, glob, shutil, xml.etree.ElementTree as ET

REPO = os.environ.get("WENCRY_REPO", "/repo")
B = os.path.join(REPO, "_build")
BASE = "/root/.vp/BASELINE.json"

def sh(cmd, **kw):
    return subprocess.run(cmd, shell=True, **kw)

def main():
    stable = None
    if os.path.exists(BASE):
        stable = set(json.load(open(BASE))["stable_pass"])
    if not os.path.exists(os.path.join(B, "build.ninja")):
        r = sh(f"cmake -G Ninja -S {REPO} -B {B} -DCMAKE_BUILD_TYPE=RelWithDebInfo -DCMAKE_CXX_FLAGS=-Wno-error >/dev/null")
        if r.returncode: print("configure failed"); return 2
    r = sh(f"cmake --build {B} -j16 2>&1 | tail -5")
    # the guard must be off in this build
    cc = open(os.path.join(B, "build.ninja")).read()
    if "WENCRY_VERIF" in cc:
        print("guard WENCRY_VERIF unexpectedly present in the baseline build"); return 2
    out = os.path.join(B, "_baseline_junit"); shutil.rmtree(out, ignore_errors=True); os.makedirs(out)
    sh(f"ctest --test-dir {B} -j8 --timeout 900 --output-junit {out}/ctest.xml >/dev/null 2>&1")
    passed, failed = set(), set()
    def parse(fn):
        try: root = ET.parse(fn).getroot()
        except Exception: return
        for tc in root.iter("testcase"):
            tid = (tc.get("classname") or "") + "::" + (tc.get("name") or "")
            st = (tc.get("status") or "").lower()
            if tc.find("failure") is not None or tc.find("error") is not None or st in ("fail", "failed", "error"): failed.add(tid)
            elif tc.find("skipped") is not None or st in ("skipped", "notrun", "disabled"): pass
            else: passed.add(tid)
    parse(f"{out}/ctest.xml")
    # googletest case level for the suites named in the stable list
    suites = sorted({s.split("::")[0] for s in (stable or [])})
    for s in suites:
        exe = os.path.join(B, "test", s)
        if not os.path.exists(exe): continue
        try:
            subprocess.run([exe, f"--gtest_output=xml:{out}/{s}.xml"], cwd=os.path.join(B, "test"),
                           stdout=subprocess.DEVNULL, stderr=subprocess.DEVNULL, timeout=900)
        except subprocess.TimeoutExpired:
            pass
        parse(f"{out}/{s}.xml")
    passed -= failed
    print(f"passed={len(passed)} failed={len(failed)}")
    if stable is None:
        print("no BASELINE.json; reporting only"); return 0 if not failed else 1
    missing = sorted(stable - passed)
    print(f"stable baseline: {len(stable)}; passing now: {len(stable & passed)}; missing: {missing}")
    return 0 if not missing else 1

if __name__ == "__main__":
    sys.exit(main())
