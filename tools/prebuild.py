#!/usr/bin/env python3
"""pre-build every harness flavour the quick tier uses (the checks rebuild them anyway when /repo changes)"""
import json, os, sys
sys.path.insert(0, os.path.dirname(os.path.abspath(__file__)))
import wvlib as W
props = json.load(open(os.path.join(W.VERIF, "tools", "props.json")))
seen = set(); ok = True
for p in props.values():
    for su in p["suites"]:
        if su.get("thorough_only"): continue
        san, opt = su.get("sanitize", True), su.get("opt", "-O1")
        key = (su["bin"], su.get("B", 4), su.get("H", 2), san, opt)
        if key in seen: continue
        seen.add(key)
        src = {"prims": "corr_prims.cpp", "file": "corr_file.cpp", "cli": "corr_cli.cpp", "sched": "corr_sched.cpp"}[su["bin"]]
        name = f"{key[0]}_b{key[1]}h{key[2]}" + ("" if san else "_nosan") + ("" if opt == "-O1" else "_" + opt.strip("-"))     # same naming as ./check
        b, log = W.build_harness(name, src, key[1], key[2], extra_flags=[x.replace("{VERIF}", W.VERIF) for x in su.get("flags", [])], sanitize=san, opt=opt)
        print(key, "ok" if b else "FAILED\n" + log[-2000:]); ok = ok and bool(b)
        if su["bin"] == "cli":
            b, log = W.build_harness(f"wencry_b{key[1]}h{key[2]}", None, key[1], key[2], with_repo_main=True, extra_srcs=["nullpoint.cpp"])
            print("wencry binary", "ok" if b else "FAILED\n" + log[-2000:]); ok = ok and bool(b)
sys.exit(0 if ok else 1)
