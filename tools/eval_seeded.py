#!/usr/bin/env python3
"""Run the checks against a seeded defect: apply /verif/seeded/<id>/patch.diff to /repo, run the named checks (default: the
property the seed targets), undo the patch, and report which checks raised a violation.

  tools/eval_seeded.py <seed-id> [Cxx ...] [--tier quick|thorough]

Never leaves /repo modified (the patch is reverted in a finally block). Not a registered check: a development aid whose results
are recorded in DESIGN.md and in seeded/<id>/meta.json."""
import json, os, subprocess, sys, time

VERIF = os.path.dirname(os.path.dirname(os.path.abspath(__file__)))
REPO = "/repo"

def main():
    args = [a for a in sys.argv[1:] if not a.startswith("--")]
    tier = "quick"
    if "--tier" in sys.argv: tier = sys.argv[sys.argv.index("--tier") + 1]; args = [a for a in args if a != tier]
    sid = args[0]
    d = os.path.join(VERIF, "seeded", sid)
    meta = json.load(open(os.path.join(d, "meta.json")))
    props = args[1:] or [meta["property"]]
    st = subprocess.run(["git", "-C", REPO, "status", "--porcelain", "--untracked-files=no"], capture_output=True, text=True).stdout.strip()
    if st:
        print("refusing: /repo has local modifications:\n" + st); return 2
    r = subprocess.run(["git", "-C", REPO, "apply", os.path.join(d, "patch.diff")], capture_output=True, text=True)
    if r.returncode != 0:
        print("patch does not apply:\n" + r.stderr); return 2
    results = {}
    try:
        for p in props:
            t0 = time.time()
            c = subprocess.run([os.path.join(VERIF, "check"), p, "--tier", tier], capture_output=True, text=True, cwd=VERIF)
            viol = [l for l in c.stdout.splitlines() if l.startswith("VIOLATION")]
            kinds = [l.strip() for l in c.stdout.splitlines() if l.startswith("  ") and ":" in l][:4]
            results[p] = {"exit": c.returncode, "violations": viol, "first": kinds, "seconds": round(time.time() - t0, 1)}
            print(f"{sid} vs {p}: exit={c.returncode} {'CAUGHT' if c.returncode == 1 and viol else 'missed'} ({results[p]['seconds']}s)")
            for k in kinds[:2]: print("    " + k[:260])
            for v in viol[:2]: print("    " + v)
    finally:
        subprocess.run(["git", "-C", REPO, "checkout", "--", "."], check=True)
    return 0 if all(v["exit"] == 1 for v in results.values()) else 1

if __name__ == "__main__":
    sys.exit(main())
