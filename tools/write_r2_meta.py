#!/usr/bin/env python3
"""Fill in /verif/seeded/Cxx-r2/meta.json (round-2 seeded defects) from the table below + the evaluation log.
One-off bookkeeping helper; it runs nothing against /repo."""
import json, os, re, sys
VERIF = os.path.dirname(os.path.dirname(os.path.abspath(__file__)))
T = {
 "C01": ("iobuffer::load_buffer (decrypt look-ahead): `char c = fgetc(fin)` so a 0xFF byte reads as EOF",
         "decryption of a body of >= 2 chunks whose chunk j>=1 starts with ciphertext byte 0xFF (1/256 per chunk boundary); both operations report success, output is a prefix of P",
         "C01 (roundtrip sweep at B=1,2,4: many chunk boundaries, so a 0xFF first byte occurs; decrypt(encrypt(P)) != P assert and dec model mismatch)"),
 "C02": ("AesCBC_Enc keeps a pointer to the previous ciphertext block inside the caller's buffer instead of copying it into iv[]",
         "CBC encryption where a worker gets a second chunk that reaches the last slot of its buffer (n >= (T+1)*chunk-16)",
         "C02 (roundtrip: real file vs Spec.Wenc.wenc, `senc` oracle) ; also C10 via the buffer-reuse cases of the mode suite"),
 "C03": ("buffergroup::buffer_update publishes READY early and then decides INV from an unlocked re-read of the state (TOCTOU)",
         "the worker transforms the whole freshly loaded chunk and hands it back between the I/O thread's set_ready(true) and its cmpstate(READY): needs a short final chunk and that interleaving",
         "C03 (scheduled harness: output differs from the sequential reference; simulation conformance against Model/Pipe also rejects the interval)"),
 "C04": ("iobuffer::load_buffer decrypt branch: `if (load == 0) return NODATA` instead of `total == 0`",
         "decrypt of a body = k*chunk + r with 1<=r<=15 and k >= T (never produced by the encryptor; needs a sealed malformed file)",
         "C04 (scheduled harness with stray-byte inputs: deadlock detector, no runnable thread)"),
 "C05": ("hmac::cmphmac compares with strncmp (stops at a common 0x00 byte)",
         "stored tag and recomputed tag of the altered file agree on a prefix ending in 0x00 (directed: zeroed tag field + body whose HMAC starts with 00)",
         "C05 (tamper suite: zeroed-tag + changed-body forgeries; hmac `cmp` model mismatch in prims as well)"),
 "C06": ("hmac::cmphmac 'constant-time' comparison folds differences with ^= instead of |=",
         "a wrong key whose tag differs from the stored one by bytes that XOR to zero (2^-8 per wrong key)",
         "C06 (wrongkey suite: 128 one-bit + two-bit neighbours + 400 random keys per file; accepts-wrong-key assert)"),
 "C07": ("filebuffer64::read_buffer64 returns 0 on a refill that delivers only a partial unit",
         "hashed stream length = k*(HBUF_SZ*64) + r with k>=1, 1<=r<=63 (file entry point only)",
         "C07 (fhash suite built with WENCRY_VERIF_HBUF_SZ=1,2,3: real digest vs Spec hash of the whole message)"),
 "C08": ("filebuffer64 stores the HMAC prefix block in unit 0 and re-feeds it at every refill",
         "HMAC over a region larger than the first buffer load (>= (HBUF_SZ-1)*64 bytes); round trips stay self-consistent",
         "C08 (hmac suite with small HBUF_SZ: real tag vs Spec.HMAC; with HBUF_SZ=1 the patched code hangs, reported by the 45 s watchdog)"),
 "C09": ("keyhandle::genall caches the last key schedule and compares keys through a truncated u32 (only even-indexed key bytes)",
         "two cipher objects created one after the other with keys that agree on bytes 0,2,..,14 and differ in an odd byte",
         "C09 (aes suite: key pairs differing in a single byte/bit used back to back; real vs Spec.AES)"),
 "C10": ("AesCBC_Enc chains through a pointer into the caller's buffer (same mechanism as C02-r2, observed at the stream-object level)",
         "the memory of ciphertext block n-1 is overwritten between two runcry calls (buffer reuse)",
         "C10 (mode suite: streams fed through a reused buffer, real vs Spec.Modes)"),
 "C11": ("hmac::cmphmac via strncmp (as C05-r2, observed on never-encrypted garbage)",
         "garbage with good magic/modes, tag field starting 0x00 and a body whose HMAC starts 0x00 (1/256 bodies)",
         "C11 (malformed suite: 4000 constant-tag-field forgery attempts per run; accepted-garbage assert)"),
 "C12": ("runcrypt::verify(fsize, reuse): decrypt reuses a process-wide record of the last successful verification (size, key, stored tag bytes)",
         "several operations in one process: a successful verify/decrypt of F immediately followed by decrypt of a same-size F' whose bytes 10..73 equal F's",
         "C12 (malformed suite, operation pairs added after this seed was missed: op(F) then decrypt(F') then verify(F'); verify != decrypt assert)"),
 "C13": ("hmac::cmphmac accumulates byte differences by += into a u8 (wraps modulo 256)",
         "a crash of the encryptor at a byte offset where the HMAC of the prefix written so far has byte sum 0 mod 256",
         "C13 (crash suite: every byte-prefix of every write of the real write log is verified and decrypted)"),
 "C14": ("buffergroup::require_buffer_entry: `if (over) return NULL;` right after set_update() (unsynchronised read after the hand-back)",
         "the I/O thread exports, reloads the worker's own buffer with the final chunk and sets over between the worker's hand-back and its read of over",
         "C14 (scheduled harness; oracle added after this seed was missed: a loaded chunk whose owner has returned without taking its blocks / export with blocks not handed out); C04 and C03 also report the resulting deadlock"),
 "C15": ("get_v_opt: `optind = 1` moved from entry to after the getopt loop (missed on the early-return path)",
         "a parse rejected inside the option loop followed by another parse in the same process",
         "C15 (cli parsehist suite: parse histories in one process vs each parse in a fresh fork)"),
 "C16": ("hex_to_base64 loads 3-byte groups and reads 1-2 bytes behind a short last group",
         "len % 3 != 0 and non-zero high bits in the byte behind the input (or any ASan-visible overread)",
         "C16 (b64 suite under ASan: heap-buffer-overflow on exact-size inputs; also real vs Spec.Base64 with poisoned trailing bytes)"),
 "C17": ("getopts: repeated -k frees the previous key at the top of case 'k'; on a malformed later -k the pointer dangles and discardPak frees it again",
         "two or more -k options, an earlier one well-formed, a later one malformed",
         "C17 (cli suite: repeated -k valid/invalid grid, in-process under ASan and through the built binary: exit status 134 vs model 1)"),
 "C18": ("runcrypt::prepare_IV derives IVs only for modes 1..3; OFB (4) falls into the zero-IV branch",
         "encryption with --cmode 4 (OFB), any seed",
         "C18 (ivs suite: stored IV field vs Spec.Wenc.ivChain; seed-dependence assert) ; also C02 (senc oracle)"),
}
log = open(sys.argv[1]).read() if len(sys.argv) > 1 else ""
for pid, (change, needs, caught) in T.items():
    sid = f"{pid}-r2"
    p = os.path.join(VERIF, "seeded", sid, "meta.json")
    meta = json.load(open(p)) if os.path.exists(p) else {"id": sid, "property": pid}
    m = re.search(rf"^{sid} vs {pid}: exit=(\d+) (\w+)", log, re.M)
    meta.update({"breaks": pid, "round": 2, "change": change, "needs_to_manifest": needs,
                 "what_i_ran": "MUT_BASE=/tmp/mut2 tools/confirm_seed.py (clean build + demo passes; patch applied: builds, all 36 stable ids pass, demo fails; reverted) in the agent's scratch worktree; then tools/eval_seeded.py (patch applied to /repo, ./check, patch reverted)",
                 "caught_by": caught,
                 "check_result": ("VIOLATION with a concrete replay (exit 1)" if (m and m.group(1) == "1") else ("MISSED (exit 0)" if m else "not evaluated"))})
    json.dump(meta, open(p, "w"), indent=1)
    print(sid, meta["check_result"])
