#!/usr/bin/env python3
"""Regenerate lean/Wencry/Generated/{Tables,Consts}.lean from /repo's current working tree.

The numeric tables and layout constants are dumped by a small C++ program that #includes the repository's own
headers (so they are what the compiler sees, not what a regex guesses); the 64 MD5 step lines, which are macro
invocations in md5.cpp, are parsed from the source text.  Files are only rewritten when their content changes,
so that `lake build` re-elaborates exactly the theorems whose inputs changed.

exit 0: generated; exit 3: the source could not be dumped/parsed (treated by ./check as a broken tie).
"""
import json, os, re, subprocess, sys, tempfile, hashlib

HERE = os.path.dirname(os.path.abspath(__file__))
VERIF = os.path.dirname(HERE)
REPO = os.environ.get("WENCRY_REPO", "/repo")
OUTDIR = os.path.join(VERIF, "lean", "Wencry", "Generated")

DUMP = r'''
#include <map>
#include <string>
#include <functional>
#include <mutex>
#include <condition_variable>
#include <thread>
#include <iostream>
#include <iomanip>
#include <chrono>
#include <stdio.h>
#include <string.h>
#define private public
#define protected public
#define class struct
#include "kernel/multi_aes/aes/tab.h"
#include "valget/base64/tab.h"
#include "kernel/cry.h"
#undef private
#undef protected
#undef class
template <typename T> static void arr(const char *name, const T *a, int n) {
  printf("\"%s\": [", name);
  for (int i = 0; i < n; i++) printf("%s%llu", i ? "," : "", (unsigned long long)a[i]);
  printf("],\n");
}
int main() {
  printf("{\n");
  arr("RC", RC, 11); arr("s_box", s_box, 256); arr("rs_box", rs_box, 256);
  arr("Logtable", Logtable, 256); arr("Alogtable", Alogtable, 512);
  arr("b64_tab", b64_tab, 64); arr("hex_tab", hex_tab, 128);
  arr("sha256_k", sha256hash::k, 64);
  { sha1hash h; arr("sha1_init", h.h, 5); printf("\"sha1_hlen\": %d, \"sha1_blen\": %d,\n", h.gethlen(), h.getblen()); }
  { md5hash h; arr("md5_init", h.h, 4); printf("\"md5_hlen\": %d, \"md5_blen\": %d,\n", h.gethlen(), h.getblen()); }
  { sha256hash h; arr("sha256_init", h.h, 8); printf("\"sha256_hlen\": %d, \"sha256_blen\": %d,\n", h.gethlen(), h.getblen()); }
  unsigned long long mn = FileHeader::Magic_Num; unsigned char mb[8]; memcpy(mb, &mn, 8); arr("magic_bytes", mb, 8);
  printf("\"FILE_MN_MARK\": %d, \"FILE_MODE_MARK\": %d, \"FILE_HMAC_MARK\": %d, \"FILE_IV_MARK\": %d,\n",
         FILE_MN_MARK, FILE_MODE_MARK, FILE_HMAC_MARK, FILE_IV_MARK);
  printf("\"FILE_TEXT_MARK\": [");
  for (int t = 0; t <= 16; t++) printf("%s%d", t ? "," : "", FILE_TEXT_MARK(t));
  printf("],\n");
  printf("\"PADDING\": %d, \"THREAD_NUM\": %d, \"THREAD_MAX\": %d,\n", PADDING, THREAD_NUM, (int)multicry_master::THREAD_MAX);
  printf("\"BUF_SZ\": %u, \"BUF_SUM\": %u, \"HBUF_SZ\": %u,\n", iobuffer::BUF_SZ, iobuffer::sum, filebuffer64::HBUF_SZ);
  printf("\"ipad\": %d, \"opad\": %d,\n", (int)hmac::ipad, (int)hmac::opad);
  { u8_t k0[16] = {0}, v0[16] = {0}; AesFactory fac(k0); fac.loadiv(v0);
    printf("\"cipher_known_enc\": ["); for (int t = 0; t < 256; t++) { Aesmode *m = fac.createCryMaster(true, (u8_t)t); printf("%s%d", t ? "," : "", m ? 1 : 0); delete m; } printf("],\n");
    printf("\"cipher_known_dec\": ["); for (int t = 0; t < 256; t++) { Aesmode *m = fac.createCryMaster(false, (u8_t)t); printf("%s%d", t ? "," : "", m ? 1 : 0); delete m; } printf("],\n"); }
  { HashFactory hf; printf("\"hash_known\": ["); for (int t = 0; t < 256; t++) { Hashmaster *h = hf.getHasher(hf.getType((u8_t)t)); printf("%s%d", t ? "," : "", h ? 1 : 0); delete h; } printf("],\n"); }
  printf("\"EMPTY\": %d, \"UPDATING\": %d, \"READY\": %d, \"INV\": %d, \"FULL\": %d, \"FINAL\": %d, \"NODATA\": %d\n",
         (int)EMPTY, (int)UPDATING, (int)READY, (int)INV, (int)FULL, (int)FINAL, (int)NODATA);
  printf("}\n");
  return 0;
}
'''

DUMP2 = r'''
#include <stdio.h>
#include <string>
typedef unsigned char u8_t;
bool check_ctype(int);
bool check_htype(int);
bool is_base64(unsigned char c);
void strlog(std::string, std::string, char) {}
int main() {
  printf("{\n\"check_ctype\": [");
  for (int i = -8; i <= 300; i++) printf("%s%d", i == -8 ? "" : ",", check_ctype(i) ? 1 : 0);
  printf("],\n\"check_htype\": [");
  for (int i = -8; i <= 300; i++) printf("%s%d", i == -8 ? "" : ",", check_htype(i) ? 1 : 0);
  printf("],\n\"is_base64\": [");
  for (int c = 0; c < 256; c++) printf("%s%d", c ? "," : "", is_base64((unsigned char)c) ? 1 : 0);
  printf("]\n}\n");
  return 0;
}
'''

def dump_decisions():
    """check_ctype / check_htype on -8..300 and is_base64 on all bytes, evaluated by the real functions (C locale)"""
    with tempfile.TemporaryDirectory(prefix="wv_gen2_") as td:
        src = os.path.join(td, "dump2.cpp"); exe = os.path.join(td, "dump2")
        open(src, "w").write(DUMP2)
        cfgdir = os.path.join(td, "cfg"); os.makedirs(cfgdir)
        cfg_in = os.path.join(REPO, "config.h.in")
        if os.path.exists(cfg_in):
            txt = open(cfg_in).read(); txt = re.sub(r"@[A-Za-z_]+@", "0", txt); txt = re.sub(r"#cmakedefine\s+(\w+).*", r"#define \1", txt)
            open(os.path.join(cfgdir, "config.h"), "w").write(txt)
        inc = [f"-I{REPO}", f"-I{REPO}/valget", f"-I{REPO}/valget/base64", f"-I{REPO}/kernel", f"-I{cfgdir}"]
        r = subprocess.run(["g++", "-std=gnu++17", "-O0", "-w", "-o", exe, src, f"{REPO}/valget/information.cpp", f"{REPO}/valget/base64/base64.cpp"] + inc, capture_output=True, text=True)
        if r.returncode != 0:
            sys.stderr.write("gen_tables: decision dump does not compile against /repo:\n" + r.stderr[-2000:]); return None
        r = subprocess.run([exe], capture_output=True, text=True, env=dict(os.environ, LC_ALL="C"))
        if r.returncode != 0: sys.stderr.write("gen_tables: decision dump failed\n"); return None
        return json.loads(r.stdout)

def parse_case_labels():
    """the `case` labels of parseOpts in valget/getopts.cpp, as option values (characters or numbers)"""
    txt = open(f"{REPO}/valget/getopts.cpp").read()
    m = re.search(r"bool\s+parseOpts\s*\([^)]*\)\s*\{(.*?)\n\}", txt, re.S)
    if not m: sys.stderr.write("gen_tables: parseOpts not found\n"); return None
    labels = []
    for c, n in re.findall(r"\bcase\s+(?:'(.)'|(\d+))\s*:", m.group(1)):
        labels.append(ord(c) if c else int(n))
    if not labels: sys.stderr.write("gen_tables: no case labels in parseOpts\n"); return None
    return labels

def dump_repo():
    with tempfile.TemporaryDirectory(prefix="wv_gen_") as td:
        src = os.path.join(td, "dump.cpp"); exe = os.path.join(td, "dump")
        open(src, "w").write(DUMP)
        inc = [f"-I{REPO}", f"-I{REPO}/kernel", f"-I{REPO}/kernel/hash", f"-I{REPO}/kernel/multi_aes", f"-I{REPO}/kernel/multi_aes/aes"]
        r = subprocess.run(["g++", "-std=gnu++17", "-O0", "-w", "-o", exe, src,
                            f"{REPO}/kernel/hash/sha256.cpp", f"{REPO}/kernel/hash/sha1.cpp", f"{REPO}/kernel/hash/md5.cpp", f"{REPO}/kernel/hash/hashmaster.cpp",
                            f"{REPO}/kernel/multi_aes/aes/aes.cpp", f"{REPO}/kernel/multi_aes/aes/aesmode.cpp"] + inc, capture_output=True, text=True)
        if r.returncode != 0:
            sys.stderr.write("gen_tables: dump program does not compile against /repo:\n" + r.stderr[-3000:])
            return None
        r = subprocess.run([exe], capture_output=True, text=True)
        if r.returncode != 0:
            sys.stderr.write("gen_tables: dump program failed\n"); return None
        return json.loads(r.stdout)

def parse_md5():
    """the 64 step lines FF/GG/HH/II(a,b,c,d,x[k],Sij,ac) of md5.cpp -> list of (fn, perm, k, s, ac)"""
    txt = open(f"{REPO}/kernel/hash/md5.cpp").read()
    sdef = {m.group(1): int(m.group(2)) for m in re.finditer(r"#define\s+(S\d\d)\s+(\d+)", txt)}
    steps = []
    for m in re.finditer(r"\b(FF|GG|HH|II)\s*\(\s*([abcd])\s*,\s*([abcd])\s*,\s*([abcd])\s*,\s*([abcd])\s*,\s*x\[(\d+)\]\s*,\s*(S\d\d|\d+)\s*,\s*(0x[0-9a-fA-F]+|\d+)\s*\)\s*;", txt):
        fn, r0, r1, r2, r3, k, s, ac = m.groups()
        if m.start() > 0 and txt[:m.start()].rstrip().endswith("#define"): continue
        s = sdef[s] if s in sdef else int(s)
        regs = "abcd"
        steps.append((["FF", "GG", "HH", "II"].index(fn), [regs.index(r) for r in (r0, r1, r2, r3)], int(k), s, int(ac, 0)))
    if len(steps) != 64:
        sys.stderr.write(f"gen_tables: expected 64 MD5 step lines in md5.cpp, found {len(steps)}\n"); return None
    return steps

def parse_getopts():
    """longOpts[] and shortOpts[] of valget/getopts.cpp -> ([(name, has_arg, val)], short string); None if not recognisable"""
    txt = open(f"{REPO}/valget/getopts.cpp").read()
    m = re.search(r"const\s+struct\s+option\s+longOpts\s*\[\s*\]\s*=\s*\{(.*?)\};", txt, re.S)
    so = re.search(r'const\s+char\s+shortOpts\s*\[\s*\]\s*=\s*"([^"\\]*)"\s*;', txt)
    if not m or not so:
        sys.stderr.write("gen_tables: longOpts/shortOpts not found in valget/getopts.cpp\n"); return None
    body = m.group(1)
    rows = re.findall(r"\{([^{}]*)\}", body)
    ents = []
    for r in rows:
        f = [x.strip() for x in r.split(",")]
        if len(f) != 4:
            sys.stderr.write(f"gen_tables: unrecognised longOpts row {{{r}}}\n"); return None
        if f == ["0", "0", "0", "0"] or f == ["NULL", "0", "NULL", "0"]: continue
        nm = re.fullmatch(r'"([^"\\]*)"', f[0])
        arg = {"no_argument": 0, "required_argument": 1, "optional_argument": 2, "0": 0, "1": 1, "2": 2}.get(f[1])
        if not nm or arg is None or f[2] not in ("NULL", "0", "nullptr"):
            sys.stderr.write(f"gen_tables: unrecognised longOpts row {{{r}}}\n"); return None
        v = re.fullmatch(r"'(.)'", f[3])
        if v: val = ord(v.group(1))
        elif re.fullmatch(r"\d+", f[3]): val = int(f[3])
        else:
            sys.stderr.write(f"gen_tables: unrecognised longOpts val {f[3]}\n"); return None
        ents.append((nm.group(1), arg, val))
    if not ents:
        sys.stderr.write("gen_tables: empty longOpts\n"); return None
    return ents, so.group(1)

def tree(vals, lo, hi, ty, ind):
    """balanced if-tree over n in [lo,hi)"""
    if hi - lo == 1:
        return f"{vals[lo]}"
    mid = (lo + hi) // 2
    pad = " " * ind
    return f"if n < {mid} then\n{pad}  {tree(vals, lo, mid, ty, ind + 2)}\n{pad}else\n{pad}  {tree(vals, mid, hi, ty, ind + 2)}"

def fun_table(name, vals, inw, outw, doc):
    n = len(vals)
    s = f"/-- {doc} (generated from the repository source; {n} entries) -/\n"
    s += f"def {name}N (n : Nat) : BitVec {outw} :=\n  {tree(vals, 0, n, outw, 2)}\n\n"
    s += f"def {name} (x : BitVec {inw}) : BitVec {outw} := {name}N x.toNat\n\n"
    s += f"def {name}List : List (BitVec {outw}) := [" + ", ".join(str(v) for v in vals) + "]\n\n"
    return s

def write_if_changed(path, content):
    os.makedirs(os.path.dirname(path), exist_ok=True)
    old = open(path).read() if os.path.exists(path) else None
    if old != content:
        tmp = path + ".tmp"; open(tmp, "w").write(content); os.replace(tmp, path)
        return True
    return False

def main():
    d = dump_repo()
    md5 = parse_md5()
    go = parse_getopts()
    dec = dump_decisions()
    labels = parse_case_labels()
    if d is None or md5 is None or go is None or dec is None or labels is None:
        return 3
    t = "/- GENERATED by tools/gen_tables.py from /repo on every check run. Do not edit. -/\nnamespace Wencry.Gen\n\n"
    t += fun_table("sboxT", d["s_box"], 8, 8, "s_box of kernel/multi_aes/aes/tab.h")
    t += fun_table("rsboxT", d["rs_box"], 8, 8, "rs_box of kernel/multi_aes/aes/tab.h")
    t += fun_table("logT", d["Logtable"], 8, 8, "Logtable of kernel/multi_aes/aes/tab.h")
    # Alogtable has 512 entries and is indexed by u + Log[v] (a Nat up to 510)
    t += f"/-- Alogtable of kernel/multi_aes/aes/tab.h (512 entries; indexed by u + Logtable[v]) -/\n"
    t += f"def alogTN (n : Nat) : BitVec 8 :=\n  {tree(d['Alogtable'], 0, 512, 8, 2)}\n\n"
    t += "def alogTList : List (BitVec 8) := [" + ", ".join(str(v) for v in d["Alogtable"]) + "]\n\n"
    t += "def rcList : List (BitVec 8) := [" + ", ".join(str(v) for v in d["RC"]) + "]\n\n"
    t += fun_table("b64T", d["b64_tab"], 6, 8, "b64_tab of valget/base64/tab.h")
    t += fun_table("hexT", d["hex_tab"], 7, 8, "hex_tab of valget/base64/tab.h")
    t += "def sha256K : List (BitVec 32) := [" + ", ".join(str(v) for v in d["sha256_k"]) + "]\n\n"
    t += "def sha1Init : List (BitVec 32) := [" + ", ".join(str(v) for v in d["sha1_init"]) + "]\n"
    t += "def md5Init : List (BitVec 32) := [" + ", ".join(str(v) for v in d["md5_init"]) + "]\n"
    t += "def sha256Init : List (BitVec 32) := [" + ", ".join(str(v) for v in d["sha256_init"]) + "]\n\n"
    t += "/-- one MD5 step line of md5.cpp: which of FF/GG/HH/II (0..3), the register roles (indices into a,b,c,d), the message word, the rotation, the additive constant -/\n"
    t += "structure Md5Line where\n  fn : Nat\n  r0 : Nat\n  r1 : Nat\n  r2 : Nat\n  r3 : Nat\n  k : Nat\n  s : Nat\n  ac : BitVec 32\n  deriving DecidableEq, Repr\n\n"
    t += "def md5Lines : List Md5Line := [\n" + ",\n".join(
        f"  ⟨{fn}, {p[0]}, {p[1]}, {p[2]}, {p[3]}, {k}, {s}, {ac}⟩" for fn, p, k, s, ac in md5) + "]\n\n"
    t += "end Wencry.Gen\n"
    c = "/- GENERATED by tools/gen_tables.py from /repo on every check run. Do not edit. -/\nnamespace Wencry.Gen\n\n"
    c += "def magicBytes : List (BitVec 8) := [" + ", ".join(str(v) for v in d["magic_bytes"]) + "]\n"
    for k in ("FILE_MN_MARK", "FILE_MODE_MARK", "FILE_HMAC_MARK", "FILE_IV_MARK", "PADDING", "THREAD_NUM", "THREAD_MAX", "BUF_SZ", "BUF_SUM", "HBUF_SZ",
              "ipad", "opad", "sha1_hlen", "sha1_blen", "md5_hlen", "md5_blen", "sha256_hlen", "sha256_blen",
              "EMPTY", "UPDATING", "READY", "INV", "FULL", "FINAL", "NODATA"):
        c += f"def c_{k} : Nat := {d[k]}\n"
    c += "/-- FILE_TEXT_MARK(t) for t = 0..16 -/\ndef c_FILE_TEXT_MARK : List Nat := [" + ", ".join(str(v) for v in d["FILE_TEXT_MARK"]) + "]\n"
    bl = lambda t: "[" + ", ".join(str(b) for b in t.encode()) + "]"
    c += "/-- longOpts of valget/getopts.cpp: (name, has_arg as 0/1/2, val); every `flag` field is NULL -/\n"
    c += "def longOpts : List (List (BitVec 8) × Nat × Nat) := [\n" + ",\n".join(f"  ({bl(n)}, {a}, {v})" for n, a, v in go[0]) + "]\n"
    c += f"/-- shortOpts of valget/getopts.cpp -/\ndef shortOpts : List (BitVec 8) := {bl(go[1])}\n"
    c += "/-- check_ctype(i) and check_htype(i) of valget/information.cpp for i = -8 .. 300, as the compiled functions answer -/\n"
    c += "def checkCtypeTable : List Bool := [" + ", ".join("true" if v else "false" for v in dec["check_ctype"]) + "]\n"
    c += "def checkHtypeTable : List Bool := [" + ", ".join("true" if v else "false" for v in dec["check_htype"]) + "]\n"
    c += "/-- is_base64(c) of valget/base64/base64.cpp for every byte c (C locale) -/\n"
    c += "def isBase64Table : List Bool := [" + ", ".join("true" if v else "false" for v in dec["is_base64"]) + "]\n"
    c += "/-- which cipher-mode / hash-mode numbers 0..255 the factories know (non-NULL result), as the compiled code answers -/\n"
    for k in ("cipher_known_enc", "cipher_known_dec", "hash_known"):
        c += f"def {k.replace('_k', 'K').replace('_e', 'E').replace('_d', 'D')} : List Bool := [" + ", ".join("true" if v else "false" for v in d[k]) + "]\n"
    c += "/-- the case labels of parseOpts (valget/getopts.cpp), in source order -/\n"
    c += "def parseOptsCases : List Nat := [" + ", ".join(str(v) for v in labels) + "]\n"
    c += "\nend Wencry.Gen\n"
    ch1 = write_if_changed(os.path.join(OUTDIR, "Tables.lean"), t)
    ch2 = write_if_changed(os.path.join(OUTDIR, "Consts.lean"), c)
    h = hashlib.sha256((t + c).encode()).hexdigest()[:16]
    print(f"gen_tables: ok tables_changed={ch1} consts_changed={ch2} digest={h}")
    return 0

if __name__ == "__main__":
    sys.exit(main())
