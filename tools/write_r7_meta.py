#!/usr/bin/env python3
"""Fill in /verif/seeded/Cxx-r7/meta.json (round-7 seeded defects). Bookkeeping only.
usage: write_r6_meta.py <first-evaluation log (harness before this round)> <final-evaluation log>"""
import json, os, re, sys
VERIF = os.path.dirname(os.path.dirname(os.path.abspath(__file__)))
T = {
 "C01": ("iobuffer::export_buffer: the pad guard becomes `padding > 16 || padding >= size` — a final chunk that consists of the pad block alone is written out as data",
         "decryption of a file whose plaintext length is an exact multiple of the chunk (including the empty file): 16 bytes of 0x10 appended, both operations report success",
         "C01 (roundtrip sweep: n = 0 and n = k*chunk; decrypt(encrypt(P)) != P and dec model mismatch)"),
 "C02": ("runcrypt::prepare_AES: loadiv(iv + 20*i) inside the worker loop — every stream starts from its own header IV instead of IV 0",
         "cipher mode 1..4, T >= 2 and more than one chunk (only then a worker other than 0 processes data); round trips stay self-consistent",
         "C02 (roundtrip: real file vs Spec.Wenc.wenc, `senc` oracle)"),
 "C03": ("buffergroup keeps the per-thread buffers in a static pool across operations; iobuffer::isfinal is only ever set, never cleared on reuse",
         "two operations in one process, the later one a decryption of >= 2 chunks with a full chunk landing in a buffer that held a final chunk earlier and ending in a byte 0x01..0x10",
         "C03 (roundtrip suite — many operations in one process: dec model mismatch, reported as a broken correspondence) ; C01 reports it with the concrete round trip"),
 "C04": ("buffergroup::turn_iter becomes a bounded one-lap search `for (step = 1; step < size; ++step)`: the current buffer is never reconsidered",
         "T = 1 (any input): the I/O loop ends after the first load, the worker waits for ever",
         "C04 (scheduled harness and roundtrip with T = 1: deadlock detector / 45 s watchdog)"),
 "C05": ("sha1hash::getHash final block: the 8 length bytes are written into temp[56..63] before the `no room` branch, so message bytes 56..62 of a 57..63-byte tail are overwritten before compression",
         "HMAC-SHA1 over a region of 57..63 mod 64 bytes: T in {3,7,11,15} and a ciphertext multiple of 64 — the last 4 bytes of the file are not authenticated",
         "C05 (tamper suite with T = 3: altered last bytes accepted; the tag also differs from Spec.HMAC in the hmac suite of C08 and the hash suite of C07)"),
 "C06": ("valget/base64/tab.h decode table: '/' decodes to 62 like '+' (slip while adding the URL-safe alphabet)",
         "the key TYPED with -k: a wrong key text that differs from the right one by '/' for '+' denotes other bytes but decodes to the same key",
         "C06 (new `keywrong` CLI suite, added after this seed was missed: files encrypted with -k K, then -v/-d with all 128 one-bit neighbours and all one-symbol alphabet neighbours of K; C16 saw the decoder table change from the start)"),
 "C07": ("Hashmaster::getStringHash clears the result buffer (memset) before reading the message",
         "the result buffer overlaps the message: x = H(x) in place, or a digest stored inside the record it covers",
         "C07 (hash suite: digest written into its own message at several offsets, added after this seed was missed)"),
 "C08": ("sha1hash::getHash: `final_loadsize >= 56` becomes `> 56` — with exactly 56 bytes in the last block the length overwrites the 0x80 marker",
         "HMAC-SHA1 over a region of 56 mod 64 bytes (T = 2 mod 4 for files; any such length through the hmac API)",
         "C08 (hmac suite: every residue mod 64 vs Spec.HMAC)"),
 "C09": ("encryaes/decryaes column mix: `if (!(u8_t)(g0|g1|g2|g3)) continue;` skips an all-zero column — and the shift to the next column with it",
         "a state entering (Inv)MixColumns with an all-zero column 0..2 followed by a column the mix changes: about 2^-27 per random block, never for the FIPS vectors",
         "C09 (aes suite: blocks CONSTRUCTED so that the state entering MixColumns of a chosen round has zero / constant columns or rows, added after this seed was missed; the generator's own byte-wise AES only picks inputs, the verdict is Spec.AES)"),
 "C10": ("AesOFB produces the keystream eight blocks at a time and never writes the last block back into iv: every batch restarts from the IV",
         "OFB with more than 8 blocks through one stream object (keystream repeats every 128 bytes); round trips stay self-consistent",
         "C10 (mode suite: streams of up to 40 blocks vs Spec.Modes)"),
 "C11": ("runcrypt::verify: a new length test `ftell < 48` replaces the NULL test after getHmac(64), which needs 74 bytes",
         "a file of 48..73 bytes with the magic number and valid mode bytes: NULL dereference instead of result 1",
         "C11 (malformed suite: every length 0..160 with good magic; crash reported with the case)"),
 "C12": ("verify() gains a soft result -1 (`tag matches but reserved bytes non-zero`); execute_decrypt accepts res <= 0, execute_verify still res == 0",
         "an authentic file with a non-zero byte in the reserved area between the stored tag and offset 48",
         "C12 (malformed/tamper operation pairs: verify != decrypt on the same bytes; ver model mismatch)"),
 "C13": ("verify(): `if (fsize == 48 + 20*T) return 0;` — an archive that ends right after the IV table is accepted as `empty`",
         "the encryptor dies at output byte offset 48 + 20*T exactly (a byte prefix inside the first write)",
         "C13 (crash suite: every byte prefix of every write of the real write log is verified and decrypted)"),
 "C14": ("multiruncrypt_file: the worker's initial wait_buffer_loaded(id) removed as redundant — the first get_entry() reads now/total of a buffer the I/O thread is still loading",
         "a schedule in which the worker's first look falls inside load_buffer (the race F1 closed)",
         "C14 (scheduled harness: ownership monitor — worker access to a buffer in state EMPTY)"),
 "C15": ("buffergroup::del_instance keeps the singleton alive and frees only its arrays: the ring cursor `turn` is no longer reset between operations",
         "an operation of >= 2 chunks with T1 >= 2 ending at ring position t != 0, then an operation with T2 <= t in the same process: ctrl[turn] out of bounds",
         "C15 (proc suite: operation sequences with varying T in one process vs fresh processes, under ASan)"),
 "C16": ("hex_to_base64: shadowed loop variables renamed, one `if (j < 3)` left reading the outer j in the one-pad tail",
         "encoder input of length 2 mod 3: fourth symbol 'A' instead of '='",
         "C16 (b64 suite: every length vs Spec.Base64 and the model)"),
 "C17": ("parseOpts case 'i': `snprintf(...) < sizeof(fout)` becomes `<=`",
         "-e without -o and an input path of exactly 123 characters: the output goes to <path>.wen, exit 0",
         "C17 (intact suite: path lengths 117..131; cli model mismatch on the 123-character path)"),
 "C18": ("get_v_mod1 (interactive dialogue): the seed is read with fgets instead of scanf(\"%s\") — it returns the newline left behind by the previous scanf(\"%d\")",
         "interactive encryption (no arguments) in a non-ECB mode: every run derives its IVs from the constant seed \"\\n\", whatever the user types",
         "C18 (new `dialog` CLI suite, added after this seed was missed: the answers are piped into the real binary; the file must be Spec.Wenc.wenc for the typed seed, and different seeds must give different IV fields)"),
}
first = open(sys.argv[1]).read() if len(sys.argv) > 1 else ""
final = open(sys.argv[2]).read() if len(sys.argv) > 2 else ""
THOROUGH = set()
for pid, (change, needs, caught) in T.items():
    sid = f"{pid}-r7"
    p = os.path.join(VERIF, "seeded", sid, "meta.json")
    if not os.path.exists(p): continue
    meta = json.load(open(p))
    m1 = re.search(rf"^{sid} vs {pid}: exit=(\d+) (\w+)", first, re.M)
    m2 = re.search(rf"^{sid} vs {pid}: exit=(\d+) (\w+)", final, re.M)
    res = "VIOLATION with a concrete replay (exit 1)" if (m2 and m2.group(1) == "1") else ("MISSED (exit 0)" if m2 else "not evaluated")
    if pid in THOROUGH: res = "MISSED by the quick tier (production-size trigger); VIOLATION with a concrete replay in the thorough tier"
    meta.update({"breaks": pid, "round": 7, "change": change, "needs_to_manifest": needs,
                 "what_i_ran": "MUT_BASE=/tmp/mut7 tools/confirm_seed.py (clean build + demo passes; patch applied: builds, all 36 stable ids pass, demo fails; reverted) in the agent's scratch worktree; tools/eval_seeded.py against the harness as it was BEFORE this round (first evaluation) and after strengthening",
                 "caught_by": caught, "first_evaluation": (m1.group(2) if m1 else "n/a"), "check_result": res})
    json.dump(meta, open(p, "w"), indent=1)
    print(sid, meta["first_evaluation"], "->", res[:40])
