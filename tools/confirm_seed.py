#!/usr/bin/env python3
"""Confirm a seeded defect delivered by a sub-agent in its scratch worktree /tmp/mut/<id>:
  1. the tree is clean (apart from MUTATION/), the demo passes (exit 0);
  2. the patch applies, the project builds, every stable test case still passes;
  3. the demo fails with the patch; 4. the patch is reverted.
Then copy patch.diff, the demonstration and a meta.json skeleton to /verif/seeded/<id>/.

  tools/confirm_seed.py Cxx [name-suffix]
"""
import json, os, shutil, subprocess, sys, time, xml.etree.ElementTree as ET

VERIF = os.path.dirname(os.path.dirname(os.path.abspath(__file__)))

def sh(cmd, cwd, timeout=3600):
    try:
        r = subprocess.run(cmd, shell=True, cwd=cwd, capture_output=True, text=True, timeout=timeout)
        return r.returncode, (r.stdout + r.stderr)
    except subprocess.TimeoutExpired as e:
        return -999, "TIMEOUT"

def stable_ok(wt):
    stable = set(json.load(open("/root/.vp/BASELINE.json"))["stable_pass"])
    suites = sorted({s.split("::")[0] for s in stable})
    passed = set()
    out = os.path.join(wt, "_build", "_confirm"); shutil.rmtree(out, ignore_errors=True); os.makedirs(out)
    for s in suites:
        exe = os.path.join(wt, "_build", "test", s)
        if not os.path.exists(exe): continue
        rc, _ = sh(f"{exe} --gtest_output=xml:{out}/{s}.xml", os.path.join(wt, "_build", "test"), 900)
        if rc == 0: passed.add(f"{s}::{s}")
        try:
            for tc in ET.parse(f"{out}/{s}.xml").getroot().iter("testcase"):
                if tc.find("failure") is None and tc.find("error") is None: passed.add(f"{tc.get('classname')}::{tc.get('name')}")
        except Exception: pass
    missing = sorted(stable - passed)
    return missing

def main():
    pid = sys.argv[1]
    wt = os.path.join(os.environ.get("MUT_BASE", "/tmp/mut"), pid)
    mdir = os.path.join(wt, "MUTATION")
    res = {"property": pid, "worktree": wt}
    st = subprocess.run(["git", "-C", wt, "status", "--porcelain", "--untracked-files=no"], capture_output=True, text=True).stdout.strip()
    if st: print("worktree not clean:", st); subprocess.run(["git", "-C", wt, "checkout", "--", "."])
    demo = "run_demo.sh"
    if not os.path.exists(os.path.join(mdir, demo)): print("no run_demo.sh"); return 2
    # rebuild clean
    rc, o = sh("cmake -G Ninja -S . -B _build -DCMAKE_BUILD_TYPE=RelWithDebInfo -DCMAKE_CXX_FLAGS=-Wno-error >/dev/null && cmake --build _build -j8 2>&1 | tail -2", wt)
    t0 = time.time(); rc0, out0 = sh(f"bash MUTATION/{demo}", wt, 1500); res["demo_clean_exit"] = rc0; res["demo_clean_s"] = round(time.time() - t0)
    print(f"{pid}: demo on clean tree exit={rc0}")
    rc, o = sh("git apply MUTATION/patch.diff", wt)
    if rc != 0: print("patch does not apply", o); return 2
    try:
        rc, o = sh("cmake --build _build -j8 2>&1 | tail -3", wt); res["build_with_patch"] = rc
        missing = stable_ok(wt); res["stable_missing_with_patch"] = missing
        print(f"{pid}: build rc={rc}; stable cases missing with patch: {missing}")
        t0 = time.time(); rc1, out1 = sh(f"bash MUTATION/{demo}", wt, 1500); res["demo_patched_exit"] = rc1
        print(f"{pid}: demo on patched tree exit={rc1}  tail: {out1.strip().splitlines()[-1][:200] if out1.strip() else ''}")
    finally:
        subprocess.run(["git", "-C", wt, "checkout", "--", "."])
        sh("cmake --build _build -j8 >/dev/null 2>&1", wt)
    ok = rc0 == 0 and res.get("demo_patched_exit", 0) != 0 and not res["stable_missing_with_patch"] and res["build_with_patch"] == 0
    res["confirmed"] = ok
    sid = pid + (sys.argv[2] if len(sys.argv) > 2 else "")
    dst = os.path.join(VERIF, "seeded", sid); os.makedirs(dst, exist_ok=True)
    for f in os.listdir(mdir):
        p = os.path.join(mdir, f)
        if os.path.isfile(p) and os.path.getsize(p) < 200000 and not f.startswith(".") and not f.endswith(".log"):
            shutil.copy(p, os.path.join(dst, f))
    meta_path = os.path.join(dst, "meta.json")
    meta = json.load(open(meta_path)) if os.path.exists(meta_path) else {}
    meta.update({"id": sid, "property": pid, "confirmed_by_me": res, "source": "fresh sub-agent given only the property record and a scratch worktree"})
    json.dump(meta, open(meta_path, "w"), indent=1)
    print(f"{pid}: confirmed={ok}")
    return 0 if ok else 1

if __name__ == "__main__":
    sys.exit(main())
