#!/usr/bin/env python3
"""Fill in /verif/seeded/Cxx-r8/meta.json (round 8: eight seeded defects, last session). Bookkeeping only."""
import json, os
VERIF = os.path.dirname(os.path.dirname(os.path.abspath(__file__)))
T = {
 "C02": ("aeshandle::keyhandle keeps the expanded key schedule in a function-local static cache whose hit test compares only the first 8 of the 16 key bytes",
         "two operations in one process under different keys that share their first 8 bytes: the second body is enciphered under the first key's schedule (the tag is still under the right key)",
         "C02 (roundtrip: real file vs Spec.Wenc.wenc — after the key generator of the harness was taught to return NEIGHBOURS of the previous key: same first/last half, one bit, one byte)",
         "missed", "VIOLATION with a concrete replay (exit 1)"),
 "C03": ("iobuffer::load_buffer rewinds `now = 0` before the fread instead of after; require_buffer_entry peeks get_entry() once more after set_update() before waiting",
         "one interleaving: the worker's peek falls between the rewind and the end of the refill — block 0 of the previous chunk is transformed twice and block 0 of the new chunk not at all",
         "C03 (scheduled harness: the real code's trace of control points is no longer a run of the Lean transition system — correspondence broken)",
         "caught", "VIOLATION no-failing-input-found (exit 1; the sampled schedules did not hit the window, the conformance of the pipeline model broke)"),
 "C05": ("runcrypt::verify remembers (hash mode, tag area, key) of the last file that passed and returns 0 at once when it sees them again, without recomputing the HMAC",
         "a successful verify/decrypt of the intact file followed, in the same process, by the altered copy (same header) under the same key",
         "C05 (tamper/boundary suites: original and altered copy are handled in one process; altered copy accepted with different plaintext)",
         "caught", "VIOLATION with a concrete replay (exit 1)"),
 "C10": ("AesEncrypt/AesDecrypt take the expanded key from a function-static cache validated by the key POINTER, not the key bytes",
         "a stream object for key A, then the same buffer refilled with key B: objects for B run with A's round keys, all five modes",
         "C10 (mode suite: keys are handed over through one long-lived buffer — context rule of §4.2; real code differs from Spec.Modes)",
         "caught", "VIOLATION with a concrete replay (exit 1)"),
 "C11": ("iobuffer::export_buffer checks all `padding` trailing bytes of the final chunk (no early exit) BEFORE the `padding > 16` guard",
         "a decryption that passes verification but yields garbage (mode byte 8 rewritten) with a body of 1..15 blocks whose last byte exceeds 16 x blocks: heap read up to 239 bytes in front of the buffer",
         "C11 (malformed suite under ASan: crash reported with the case)",
         "caught", "VIOLATION with a concrete replay (exit 1)"),
 "C12": ("execute_verify gains a size pre-check FileHeader::checkSize (header + whole blocks) that execute_decrypt does not have",
         "a container with a valid tag whose size does not fit (decrypted with another T than written, truncated/extended and re-MACed): verify refuses, decrypt accepts",
         "C12 (roundtrip/malformed operation pairs: verify != decrypt on the same bytes)",
         "caught", "VIOLATION with a concrete replay (exit 1)"),
 "C13": ("getFileHeader reserves the first 48 bytes as zeros; a new commitHeader() writes magic+ctype+htype (10 bytes at offset 0) AFTER the tag as a `commit marker`",
         "the process dies inside that last 10-byte write after exactly 8 bytes, hash mode 0 and cipher mode != 0: valid magic, valid tag, ctype 0 — the partial file verifies",
         "C13 (crash suite: every byte prefix of every write of the real write log is verified)",
         "caught", "VIOLATION with a concrete replay (exit 1)"),
 "C15": ("multiruncrypt_file caches the buffergroup singleton in a function-local static although it is deleted and re-created per run",
         "a second pipeline run in one process after heap activity that displaces the freed 64-byte chunk: workers use freed memory",
         "C15 (proc and iofault suites under ASan: use-after-free reported with the case)",
         "caught", "VIOLATION with a concrete replay (exit 1)"),
}
for p, (chg, needs, by, first, res) in T.items():
    mp = os.path.join(VERIF, "seeded", p + "-r8", "meta.json")
    m = json.load(open(mp))
    m.update({"breaks": p, "round": 8, "change": chg, "needs_to_manifest": needs,
              "what_i_ran": "MUT_BASE=/tmp/mut8 tools/confirm_seed.py (clean build + demo passes; patch applied: builds, all 36 stable ids pass, demo fails; reverted) in the agent's scratch worktree; tools/eval_seeded.py against the harness as it was before this round (first evaluation) and, for the one miss, after strengthening",
              "caught_by": by, "first_evaluation": first, "check_result": res})
    json.dump(m, open(mp, "w"), indent=1)
print("ok")
