// the Wencry binary built with the guard on needs the hook sink; it does nothing here
extern "C" void wencry_verif_point(int, int) {}
