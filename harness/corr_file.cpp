// Correspondence and property-oracle suites at file level: round trip and format (C01, C02, C08, C18), tampering (C05),
// wrong key (C06), malformed input (C11, C12), interrupted encryption (C13), repeated operations in one process (C15).
// Runs the repository's real runcrypt in-process (real threads) on in-memory regular files.
#include "common.h"
#include <thread>
#include <atomic>
#include "cry.h"
#include <map>
#include <set>

#ifndef WENCRY_VERIF_BUF_SZ
#error "build with -DWENCRY_VERIF_BUF_SZ"
#endif
static const int BSZ = WENCRY_VERIF_BUF_SZ;   // blocks per chunk
static const int HB = WENCRY_VERIF_HBUF_SZ;
static std::string S(long v) { return std::to_string(v); }
static std::string cfgs(int T) { return S(T) + " " + S(BSZ) + " " + S(HB); }

extern "C" void wencry_verif_point(int, int) {}

struct EncRes { bool ok; bytes file; bool input_intact; };
// every operation gets its key through the SAME long-lived 16-byte buffer, as an application that keeps one key field would:
// state remembered across operations by the ADDRESS of the key (instead of its bytes) then shows up as a wrong verdict
alignas(16) static unsigned char g_keybuf[16];
static unsigned g_echo_toggle = 0;
static EncRes real_enc(int T, int c, int h, const bytes &key, const bytes &seed, const bytes &plain) {
  trace_case("file", "encrypt T=" + S(T) + " B=" + S(BSZ) + " H=" + S(HB) + " c=" + S(c) + " h=" + S(h) + " key=" + hex(key) + " seed=" + hex(seed) + " plain=" + hex(plain));
  MemFile in(plain), out;
  FILE *fi = in.openr(), *fo = out.openw();
  unsigned char *k = g_keybuf; memcpy(k, key.data(), 16);
  std::vector<unsigned char> sd(seed.begin(), seed.end()); sd.push_back(0);
  Settings st((char)c, (char)h, (++g_echo_toggle % 3) != 0);      // both result printers are exercised: quiet (NullResPrint) and echoing (ResultPrint)
  EncRes r;
  { runcrypt rc(fi, fo, k, st, (u8_t)T); r.ok = rc.execute_encrypt(plain.size(), sd.data()); }
  r.file = out.contents(); r.input_intact = in.contents() == plain;
  return r;
}
struct DecRes { bool ok; bytes out; bool input_intact; };
static DecRes real_dec(int T, const bytes &key, const bytes &file, bool with_out = true) {
  trace_case("file", "decrypt T=" + S(T) + " B=" + S(BSZ) + " H=" + S(HB) + " key=" + hex(key) + " file=" + hex(file));
  MemFile in(file), out;
  FILE *fi = in.openr(), *fo = with_out ? out.openw() : NULL;
  unsigned char *k = g_keybuf; memcpy(k, key.data(), 16);
  Settings st((char)-1, (char)-1, (++g_echo_toggle % 3) != 0);
  DecRes r;
  { runcrypt rc(fi, fo, k, st, (u8_t)T); r.ok = rc.execute_decrypt(file.size()); }
  r.out = out.contents(); r.input_intact = in.contents() == file;
  return r;
}
static DecRes real_ver(int T, const bytes &key, const bytes &file) {
  trace_case("file", "verify T=" + S(T) + " B=" + S(BSZ) + " H=" + S(HB) + " key=" + hex(key) + " file=" + hex(file));
  MemFile in(file), vout;
  FILE *fi = in.openr();
  FILE *fov = (g_echo_toggle % 2) ? vout.openw() : NULL;      // every other verification is given an output handle (as `-v -o F` does): it must stay empty
  unsigned char *k = g_keybuf; memcpy(k, key.data(), 16);
  Settings st((char)-1, (char)-1, (++g_echo_toggle % 3) != 0);
  DecRes r;
  { runcrypt rc(fi, fov, k, st, (u8_t)T); r.ok = rc.execute_verify(file.size()); }
  if (fov && !vout.contents().empty()) emitA("file", "C12", "verification wrote " + S((long)vout.contents().size()) + " bytes to the output handle it was given T=" + S(T) + " key=" + hex(key) + " file=" + hex(file));
  r.input_intact = in.contents() == file;
  return r;
}
// the model reports result codes; the API reports only success/failure: compare the success class
static std::string okclass(bool ok) { return ok ? "0" : "!0"; }

static int hlen_of(int h) { return h == 0 ? 20 : h == 1 ? 16 : 32; }

// ---------------- C01 / C02 / C08(file) ----------------
static long g_files = 0;
// seeds whose SHA-1 (the start IV) ends in 0xFF.. bytes, so that a CTR stream of a few blocks carries through several counter bytes
static std::vector<std::string> g_carry_seeds = {
#include "carry_seeds.inc"
};
static void roundtrip_case(Rng &rng, int T, int c, int h, size_t n, bool oracle, const std::string *force_seed = NULL) {
  const char *suite = "roundtrip";
  bytes key = rng.key16(), seed = rng.nzbuf(1 + rng.below(70)), plain = (g_files & 1) ? rng.padlike(n) : rng.buf(n);
  if (rng.below(5) == 0) { size_t sl = 55 + rng.below(10); seed = rng.nzbuf(sl); }
  if (rng.below(9) == 0) { static const size_t longs[] = {119, 120, 255, 256, 257, 300, 511, 1000}; seed = rng.nzbuf(longs[rng.below(8)]); }   // seeds longer than any fixed buffer one might assume
  if (!g_carry_seeds.empty() && rng.below(12) == 0) { const std::string &cs = g_carry_seeds[rng.below((uint32_t)g_carry_seeds.size())]; seed.assign(cs.begin(), cs.end()); }
  if (force_seed) seed.assign(force_seed->begin(), force_seed->end());
  EncRes e = real_enc(T, c, h, key, seed, plain);
  g_files++;
  std::string args = cfgs(T) + " " + S(c) + " " + S(h) + " " + hex(key) + " " + hex(seed) + " " + hex(plain);
  std::string id = "T=" + S(T) + " B=" + S(BSZ) + " H=" + S(HB) + " c=" + S(c) + " h=" + S(h) + " n=" + S((long)n) + " key=" + hex(key) + " seed=" + hex(seed) + " plain=" + hex(plain);
  if (!e.ok) emitA(suite, "C01", "encryption reported failure " + id);
  if (!e.input_intact) emitA(suite, "C02", "encryption modified its input file " + id);
  emitM(suite, "enc " + args, hex(e.file));
  if (oracle) emitO(suite, "senc " + S(T) + " " + S(BSZ) + " " + S(c) + " " + S(h) + " " + hex(key) + " " + hex(seed) + " " + hex(plain), hex(e.file));
  size_t want = 48 + 20 * (size_t)T + 16 * (n / 16 + 1);
  if (e.file.size() != want) emitA(suite, "C02", "encrypted length " + S((long)e.file.size()) + " != 48+20T+16(floor(n/16)+1) = " + S((long)want) + " " + id);
  DecRes d = real_dec(T, key, e.file);
  if (!d.ok) emitA(suite, "C01", "decryption of a freshly encrypted file reported failure " + id);
  else if (d.out != plain) emitA(suite, "C01", "decrypt(encrypt(P)) != P got=" + hex(d.out) + " " + id);
  if (!d.input_intact) emitA(suite, "C12", "decryption modified its input file " + id);
  emitM(suite, "dec " + cfgs(T) + " " + hex(key) + " " + hex(e.file), std::string(d.ok ? "0 " : "!0 ") + hex(d.out) + " *");
  DecRes v = real_ver(T, key, e.file);
  if (!v.ok) emitA(suite, "C12", "verification of a freshly encrypted file failed " + id);
  if (!v.input_intact) emitA(suite, "C12", "verification modified its input file " + id);
  // determinism: the same inputs give the same file
  if (rng.below(8) == 0) { EncRes e2 = real_enc(T, c, h, key, seed, plain); if (e2.file != e.file) emitA(suite, "C02", "encryption is not deterministic " + id); }
}
static void suite_roundtrip(Rng &rng) {
  static const int Ts[6] = {1, 2, 3, 4, 5, 16};
  size_t chunk = 16 * (size_t)BSZ;
  size_t maxn = 3 * chunk + 17; if (maxn > 900 && !tier_thorough()) maxn = 900;
  long k = 0;
  // every length in [0, 3*chunk+17]: all residues mod 16 and mod chunk; parameters rotate so that every pair and T occurs
  for (size_t n = 0; n <= maxn; n++, k++) {
    int T = Ts[k % 6], c = (k / 6) % 5, h = (k / 30 + k) % 3;
    roundtrip_case(rng, T, c, h, n, k % 4 == 0);
  }
  // the full product on boundary lengths
  std::vector<size_t> bl = {0, 1, 15, 16, 17, chunk - 16, chunk - 1, chunk, chunk + 1, 2 * chunk - 16, 2 * chunk - 1, 2 * chunk, 2 * chunk + 15, 3 * chunk - 1};
  std::set<size_t> bls(bl.begin(), bl.end());
  for (size_t n : bls) for (int ti = 0; ti < 6; ti++) for (int c = 0; c < 5; c++) {
    int hs = tier_thorough() ? 3 : 1;
    for (int hh = 0; hh < hs; hh++) { int h = tier_thorough() ? hh : (int)((n + ti + c) % 3); roundtrip_case(rng, Ts[ti], c, h, n, (n + ti + c) % 5 == 0); }
  }
  // more chunks than workers and fewer: a few longer files
  for (int i = 0; i < (tier_thorough() ? 60 : 12); i++) { size_t n = chunk * (4 + rng.below(14)) + rng.below((uint32_t)chunk); if (n > 6000) n = 6000; roundtrip_case(rng, Ts[rng.below(6)], rng.below(5), rng.below(3), n, i % 3 == 0); }
  // start IVs ending in 0xFF bytes: the stream modes, streams long enough for the counter to carry through 3 and 4 bytes
  for (size_t si = 0; si < g_carry_seeds.size(); si++) for (int T : {1, 2}) {
    int c = (si + T) % 2 == 0 ? 2 : (int)(1 + (si % 4));
    if (si < 2) c = 2;
    roundtrip_case(rng, T, c, (int)(si % 3), 16 * (size_t)(20 * T + 3) + si, true, &g_carry_seeds[si]);
  }
  emitI("roundtrip", "files", S(g_files));
}

// ---------------- C18 ----------------
static void suite_ivs(Rng &rng) {
  const char *suite = "ivs";
  size_t chunk = 16 * (size_t)BSZ;
  // within ONE stream no keystream block may be used twice: streams of 300 and 600 blocks in the two stream modes
  for (int c : {2, 4}) for (int T : {1, 2}) {
    bytes key = rng.key16(), seed = rng.nzbuf(11), plain = rng.buf(16 * 300 * (size_t)T + 5);
    EncRes e = real_enc(T, c, 1, key, seed, plain);
    size_t body = 48 + 20 * (size_t)T, nb = (e.file.size() - body) / 16;
    std::map<std::string, size_t> seen; bool dup = false;
    for (size_t b = 0; b + 1 < nb && !dup; b++) {
      if ((b / BSZ) % T != 0) continue;                       // blocks of stream 0 only
      std::string ks(16, 0); for (int i = 0; i < 16; i++) ks[i] = (char)(e.file[body + 16 * b + i] ^ plain[16 * b + i]);
      if (seen.count(ks)) { dup = true; emitA(suite, "C18", "keystream block reused within one stream (blocks " + S((long)seen[ks]) + " and " + S((long)b) + ") c=" + S(c) + " T=" + S(T) + " key=" + hex(key) + " seed=" + hex(seed)); }
      seen[ks] = b;
    }
  }
  // CTR streams whose counter carries through several bytes within a few blocks (seeds whose SHA-1 ends in 0xFF.. bytes): the counter
  // must keep stepping by one, no keystream block may repeat, and the file must be the specified one
  for (auto &sd : g_carry_seeds) { int T = 1; bytes key = rng.key16(), seed(sd.begin(), sd.end()), plain(16 * 40, 0);
    EncRes e = real_enc(T, 2, 0, key, seed, plain); size_t body = 68; std::map<std::string, size_t> seen;
    for (size_t b = 0; b < 40; b++) { std::string ks((const char *)&e.file[body + 16 * b], 16); if (seen.count(ks)) { emitA(suite, "C18", "keystream block reused (blocks " + S((long)seen[ks]) + " and " + S((long)b) + ") in a CTR stream whose counter carries; seed=" + sd + " key=" + hex(key)); break; } seen[ks] = b; }
    emitO(suite, "senc 1 " + S(BSZ) + " 2 0 " + hex(key) + " " + hex(seed) + " " + hex(plain), hex(e.file)); }
  // two long seeds that share their first 256 bytes, and seeds whose SHA-1 (the start IV) begins with a zero byte: the whole file is the specified one
  { bytes pre = rng.nzbuf(256), sa = pre, sb = pre; bytes ta = rng.nzbuf(44), tb = rng.nzbuf(44); sa.insert(sa.end(), ta.begin(), ta.end()); sb.insert(sb.end(), tb.begin(), tb.end());
    bytes key = rng.key16(), plain = rng.buf(40); int T = 2;
    for (int c : {1, 2}) { EncRes a = real_enc(T, c, 0, key, sa, plain), b = real_enc(T, c, 0, key, sb, plain);
      if (a.file == b.file) emitA(suite, "C18", "two different seeds (300 bytes, equal in the first 256) give byte-identical files c=" + S(c) + " key=" + hex(key));
      emitO(suite, "senc " + S(T) + " " + S(BSZ) + " " + S(c) + " 0 " + hex(key) + " " + hex(sa) + " " + hex(plain), hex(a.file)); }
    for (const char *zs : {"seed-244", "seed-245"}) { bytes sd((const unsigned char *)zs, (const unsigned char *)zs + strlen(zs)); for (int c : {1, 2, 3, 4}) { EncRes a = real_enc(T, c, 1, key, sd, plain);
      emitO(suite, "senc " + S(T) + " " + S(BSZ) + " " + S(c) + " 1 " + hex(key) + " " + hex(sd) + " " + hex(plain), hex(a.file)); } } }
  for (int c = 1; c <= 4; c++) for (int T : {2, 3, 4, 11, 15, 16}) {
    if (T > 4 && c != 1 + T % 4 && !tier_thorough()) continue;
    bytes key = rng.buf(16), seed = rng.nzbuf(20);
    bytes one = rng.buf(chunk), plain;
    for (int i = 0; i < 2 * T + 1; i++) plain.insert(plain.end(), one.begin(), one.end());   // equal plaintext chunks
    EncRes e = real_enc(T, c, 0, key, seed, plain);
    size_t body = 48 + 20 * (size_t)T;
    auto chunkc = [&](int j) { return bytes(e.file.begin() + body + j * chunk, e.file.begin() + body + (j + 1) * chunk); };
    std::string id = "c=" + S(c) + " T=" + S(T) + " B=" + S(BSZ) + " key=" + hex(key) + " seed=" + hex(seed) + " chunk=" + hex(one);
    // within one stream (chunks j and j+T) equal plaintext chunks must not give equal ciphertext chunks
    if (chunkc(0) == chunkc(T)) emitA(suite, "C18", "equal plaintext chunks on the same stream give equal ciphertext (chaining/counter not advancing) " + id);
    // across streams (chunks 0 and 1): known finding K2 on the pinned design (all streams start from IV 0)
    if (chunkc(0) == chunkc(1)) emitK(suite, "K2", "equal plaintext chunks on different streams give equal ciphertext chunks (all streams start from IV 0) " + id);
    // the IVs depend on the seed
    bytes seed2 = seed; seed2[0] ^= 1; if (seed2[0] == 0) seed2[0] = 2;
    EncRes e2 = real_enc(T, c, 0, key, seed2, plain);
    if (bytes(e.file.begin() + 48, e.file.begin() + body) == bytes(e2.file.begin() + 48, e2.file.begin() + body)) emitA(suite, "C18", "IV fields do not depend on the seed " + id);
    if (chunkc(0) == bytes(e2.file.begin() + body, e2.file.begin() + body + chunk)) emitA(suite, "C18", "first ciphertext chunk does not depend on the seed " + id);
    for (int a = 0; a < T; a++) if (memcmp(&e.file[48 + 20 * a], &e2.file[48 + 20 * a], 20) == 0) emitA(suite, "C18", "stored IV " + S(a) + " does not depend on the seed " + id);
    // the T stored IVs are pairwise different
    for (int a = 0; a < T; a++) for (int b = a + 1; b < T; b++)
      if (memcmp(&e.file[48 + 20 * a], &e.file[48 + 20 * b], 20) == 0) emitA(suite, "C18", "two stored IVs are equal " + id);
    emitO(suite, "senc " + S(T) + " " + S(BSZ) + " " + S(c) + " 0 " + hex(key) + " " + hex(seed) + " " + hex(plain), hex(e.file));
  }
}

// ---------------- C05 ----------------
struct Tcount { long total = 0, accepted_same = 0, rejected = 0, k1 = 0; };
static void tamper_check(const char *suite, Tcount &tc, int T, const bytes &key, const bytes &orig, const bytes &plain, const bytes &mod, const std::string &what, bool modelline) {
  if (mod == orig) return;
  DecRes d = real_dec(T, key, mod);
  tc.total++;
  if (modelline) emitM(suite, "dec " + cfgs(T) + " " + hex(key) + " " + hex(mod), std::string(d.ok ? "0 " : "!0 ") + hex(d.out) + " *");
  if (!d.ok) { tc.rejected++; if (!d.out.empty()) emitA(suite, "C11", "failed decryption wrote " + S((long)d.out.size()) + " bytes (" + what + ") key=" + hex(key) + " file=" + hex(mod)); return; }
  if (d.out == plain) { tc.accepted_same++; return; }
  // success with different plaintext
  bool only8 = mod.size() == orig.size();
  if (only8) for (size_t i = 0; i < mod.size(); i++) if (i != 8 && mod[i] != orig[i]) only8 = false;
  // bytes in the zero-filled gap never matter; the known finding is: ONLY byte 8 (plus gap bytes) differs and is another valid mode
  bool gapOrEight = mod.size() == orig.size();
  if (gapOrEight) { int hl = hlen_of(orig[9]); for (size_t i = 0; i < mod.size(); i++) if (mod[i] != orig[i] && i != 8 && !(i >= (size_t)(10 + hl) && i < 48)) gapOrEight = false; }
  if (gapOrEight && mod[8] != orig[8] && mod[8] <= 4) { tc.k1++; if (tc.k1 <= 3) emitK(suite, "K1", "cipher-mode byte changed " + S(orig[8]) + "->" + S(mod[8]) + " accepted with different plaintext (byte 8 is outside the MAC) key=" + hex(key) + " file=" + hex(mod)); return; }
  emitA(suite, "C05", "modified file (" + what + ") decrypts successfully to different plaintext key=" + hex(key) + " orig=" + hex(orig) + " mod=" + hex(mod) + " out=" + hex(d.out));
}
// files whose ciphertext has a sentinel value (0xFF = (char)EOF, 0x00, '\n', 0x1A) exactly at a chunk boundary or at a refill boundary of the
// hash buffer: stream modes let the harness choose the ciphertext byte (P' = P xor C xor sentinel); they must round-trip, and any change
// behind the boundary must be rejected
// every residue class of the authenticated region modulo the hash block: T x hash x body blocks 1..4 (the region [48, EOF) has 20T + 16nb bytes).
// A final-block defect of a hash that leaves the LAST bytes of the region outside the tag needs one particular residue; random lengths met it by
// luck only (seed C05-r7 was missed after the random stream shifted in round 8). Deterministic, a few cheap alterations of the tail per file.
static void residue_cases(Rng &rng, const char *suite, Tcount &tc) {
  for (int T : {1, 2, 3}) for (int h : {0, 1, 2}) for (int nb = 1; nb <= 4; nb++) {
    int c = (T + h + nb) % 5; size_t n = 16 * (size_t)(nb - 1) + rng.below(16);
    bytes key = rng.key16(), seed = rng.nzbuf(7), plain = rng.padlike(n);
    EncRes e = real_enc(T, c, h, key, seed, plain); const bytes &F = e.file; if (F.size() < 64) continue;
    std::string id = " (residue case T=" + S(T) + " h=" + S(h) + " blocks=" + S(nb) + ")";
    for (size_t back = 1; back <= 8; back++) { bytes m = F; m[F.size() - back] ^= (unsigned char)(1u << (back % 8)); tamper_check(suite, tc, T, key, F, plain, m, "bit flip " + S((long)back) + " from the end" + id, back == 1); }
    { bytes m = F; for (size_t back = 1; back <= 4; back++) m[F.size() - back] ^= 0xA5; tamper_check(suite, tc, T, key, F, plain, m, "last four bytes changed" + id, false); }
    { bytes m(F.begin(), F.end() - 16); tamper_check(suite, tc, T, key, F, plain, m, "last block removed" + id, false); }
  }
}

static void sentinel_cases(Rng &rng, const char *suite, Tcount &tc) {
  size_t chunk = 16 * (size_t)BSZ; long made = 0;
  for (int c : {2, 4}) for (int T : {1, 2}) {
    int h = (c + T) % 3; size_t body = 48 + 20 * (size_t)T;
    bytes key = rng.key16(), seed = rng.nzbuf(9), plain = rng.buf(chunk * 3 + 64 * (size_t)HB * 2 + 21);
    if (plain.size() > 400) plain.resize(400);
    EncRes e0 = real_enc(T, c, h, key, seed, plain);
    std::vector<size_t> bounds;
    for (size_t k = 1; 48 + 64 * (size_t)HB * k < e0.file.size() - 1; k++) bounds.push_back(48 + 64 * (size_t)HB * k);
    for (size_t j = 1; body + chunk * j < e0.file.size() - 1; j++) bounds.push_back(body + chunk * j);
    for (size_t b : bounds) for (int sent : {0xFF, 0x00, 0x0A, 0x1A}) {
      if (b < body || b - body >= plain.size()) continue;
      bytes p2 = plain; p2[b - body] ^= (unsigned char)(e0.file[b] ^ sent);
      EncRes e = real_enc(T, c, h, key, seed, p2);
      if (e.file.size() <= b || e.file[b] != (unsigned char)sent) continue;      // (the first chunk of a stream: always reachable in CTR/OFB)
      made++;
      DecRes d = real_dec(T, key, e.file), v = real_ver(T, key, e.file);
      if (!d.ok || !v.ok || d.out != p2) emitA(suite, "C01", "a file whose ciphertext byte at boundary offset " + S((long)b) + " is " + S(sent) + " does not round-trip T=" + S(T) + " c=" + S(c) + " key=" + hex(key) + " seed=" + hex(seed) + " plain=" + hex(p2));
      for (size_t at : {b + 1, b + 2, e.file.size() - 1}) if (at < e.file.size()) { bytes m = e.file; m[at] ^= 0x01; tamper_check(suite, tc, T, key, e.file, p2, m, "bit flip behind a boundary byte " + S(sent) + " at " + S((long)b), false); }
      for (size_t l : {b, b + 1, e.file.size() - 1, e.file.size() - 16}) if (l < e.file.size()) { bytes m(e.file.begin(), e.file.begin() + l); tamper_check(suite, tc, T, key, e.file, p2, m, "truncation behind a boundary byte " + S(sent) + " at " + S((long)b), false); }
      { bytes m = e.file; m.push_back(0x42); tamper_check(suite, tc, T, key, e.file, p2, m, "extension of a file with boundary byte " + S(sent), false); }
    }
  }
  emitI(suite, "sentinel_files", S(made));
}

static void suite_tamper(Rng &rng) {
  const char *suite = "tamper";
  Tcount tc;
  size_t chunk = 16 * (size_t)BSZ;
  sentinel_cases(rng, suite, tc);
  int nfiles = tier_thorough() ? 45 : 9;
  for (int fi = 0; fi < nfiles; fi++) {
    int T = (fi % 3 == 0) ? 1 : (fi % 3 == 1 ? 2 : 3), c = fi % 5, h = (fi / 2) % 3;
    size_t n = (fi % 4 == 0) ? rng.below(14) : chunk * (1 + rng.below(3)) + rng.below(20);
    if (n > 140) n = 100 + rng.below(40);
    bytes key = rng.key16(), seed = rng.nzbuf(12), plain = rng.padlike(n);
    EncRes e = real_enc(T, c, h, key, seed, plain);
    const bytes &F = e.file;
    long cnt = 0;
    // every single-bit flip at every offset
    for (size_t i = 0; i < F.size(); i++) for (int b = 0; b < 8; b++) { bytes m = F; m[i] ^= (unsigned char)(1 << b); tamper_check(suite, tc, T, key, F, plain, m, "bit flip at " + S((long)i) + "." + S(b), (cnt++ % 97) == 0); }
    // every single-byte overwrite with three values
    for (size_t i = 0; i < F.size(); i++) for (int v : {0x00, 0xff, (int)rng.below(256)}) { bytes m = F; m[i] = (unsigned char)v; tamper_check(suite, tc, T, key, F, plain, m, "byte overwrite at " + S((long)i), (cnt++ % 97) == 0); }
    // every value of the two mode bytes
    for (int v = 0; v < 256; v++) { bytes m = F; m[8] = (unsigned char)v; tamper_check(suite, tc, T, key, F, plain, m, "mode byte 8", v % 16 == 0); m = F; m[9] = (unsigned char)v; tamper_check(suite, tc, T, key, F, plain, m, "mode byte 9", v % 16 == 0); }
    // every truncation length and a few extensions
    for (size_t l = 0; l < F.size(); l++) { bytes m(F.begin(), F.begin() + l); tamper_check(suite, tc, T, key, F, plain, m, "truncate to " + S((long)l), l % 13 == 0); }
    for (size_t add : {(size_t)1, (size_t)16, chunk}) { bytes m = F; bytes x = rng.buf(add); m.insert(m.end(), x.begin(), x.end()); tamper_check(suite, tc, T, key, F, plain, m, "extend by " + S((long)add), true); }
    // re-tagging with a WEAKER key than the real one: the body is changed and the tag recomputed (with the real HMAC code) under the key cut at its
    // first zero byte, under its first 8 bytes only, and under the all-zero key -- an attacker who knows part of the key must not get a valid tag
    if (fi < 6) { bytes kz = key; { size_t z = 0; while (z < 16 && kz[z] != 0) z++; for (size_t j = z; j < 16; j++) kz[j] = 0; } bytes k8 = key; for (size_t j = 8; j < 16; j++) k8[j] = 0; bytes k0(16, 0);
      for (const bytes &wk : {kz, k8, k0}) { if (wk == key) continue; bytes m = F; m[F.size() - 1] ^= 0x5a; if (F.size() > 60 + 20 * (size_t)T) m[50 + 20 * T] ^= 0x01;
        unsigned char tag[64] = {0}; { MemFile mf(m); FILE *fp = mf.openr(); fseek(fp, 48, SEEK_SET); alignas(16) unsigned char kk[16]; memcpy(kk, wk.data(), 16); hmac hm; hm.gethmac((u8_t)h, kk, fp, tag); fclose(fp); }
        memcpy(&m[10], tag, hlen_of(h)); tamper_check(suite, tc, T, key, F, plain, m, "body changed and tag recomputed under a weaker key " + hex(wk), true); } }
    // swaps: ciphertext blocks, chunks, IVs; insertion / deletion at header and chunk boundaries
    size_t body = 48 + 20 * (size_t)T, nb = (F.size() - body) / 16;
    for (size_t a = 0; a + 1 < nb; a++) { bytes m = F; for (int j = 0; j < 16; j++) std::swap(m[body + 16 * a + j], m[body + 16 * (a + 1) + j]); tamper_check(suite, tc, T, key, F, plain, m, "swap blocks", a == 0); }
    if (F.size() >= body + 2 * chunk) { bytes m = F; for (size_t j = 0; j < chunk; j++) std::swap(m[body + j], m[body + chunk + j]); tamper_check(suite, tc, T, key, F, plain, m, "swap chunks", true); }
    if (T >= 2) { bytes m = F; for (int j = 0; j < 20; j++) std::swap(m[48 + j], m[68 + j]); tamper_check(suite, tc, T, key, F, plain, m, "swap IVs", true); }
    for (size_t at : {(size_t)0, (size_t)8, (size_t)10, (size_t)48, body, body + 16, F.size()}) if (at <= F.size()) {
      bytes m = F; m.insert(m.begin() + at, (unsigned char)rng.next()); tamper_check(suite, tc, T, key, F, plain, m, "insert at " + S((long)at), true);
      if (at < F.size()) { bytes d = F; d.erase(d.begin() + at); tamper_check(suite, tc, T, key, F, plain, d, "delete at " + S((long)at), true); }
    }
    // two changes in the tag that cancel under xor/sum accumulation, together with a changed ciphertext byte: must be rejected;
    // and the tag replaced by zeros / truncated at its first zero byte together with a changed body byte
    { int hl = hlen_of(h); size_t body0 = 48 + 20 * (size_t)T;
      for (int rep = 0; rep < 40; rep++) { bytes m = F; int i = rng.below(hl), j = rng.below(hl); if (i == j) j = (i + 1) % hl; m[10 + i] ^= 0x80; m[10 + j] ^= 0x80;
        if (rep % 2) m[body0 + rng.below((uint32_t)(F.size() - body0))] ^= 0x01;
        tamper_check(suite, tc, T, key, F, plain, m, "two cancelling tag flips", rep == 0); }
      for (int rep = 0; rep < 300; rep++) { bytes m = F; for (int i = 0; i < hl; i++) m[10 + i] = 0; m[body0 + rng.below((uint32_t)(F.size() - body0))] ^= (unsigned char)(1 + rng.below(255)); if (rep % 3 == 0) m[48 + rng.below(20)] ^= 0x10;
        tamper_check(suite, tc, T, key, F, plain, m, "zeroed tag with a changed body", rep == 0); } }
    // changes confined to the zero-filled gap carry no information: still the original plaintext
    { int hl = hlen_of(h); if (10 + hl < 48) { bytes m = F; for (int i = 10 + hl; i < 48; i++) m[i] = (unsigned char)rng.next(); DecRes d = real_dec(T, key, m); if (!(d.ok && d.out == plain)) { /* rejecting is also fine for the property; accepting with other bytes is not */ if (d.ok) emitA(suite, "C05", "gap-only modification changes the plaintext key=" + hex(key) + " file=" + hex(m)); } } }
  }
  residue_cases(rng, suite, tc);
  emitI(suite, "tamperings", S(tc.total)); emitI(suite, "rejected", S(tc.rejected)); emitI(suite, "accepted_same_plaintext", S(tc.accepted_same)); emitI(suite, "k1_hits", S(tc.k1));
}

// ---------------- C06 ----------------
static void suite_wrongkey(Rng &rng) {
  const char *suite = "wrongkey";
  int nfiles = tier_thorough() ? 30 : 6;
  long tried = 0;
  for (int fi = 0; fi < nfiles; fi++) {
    int T = 1 + fi % 4, c = fi % 5, h = fi % 3;
    bytes key = rng.key16(), seed = rng.nzbuf(9), plain = rng.buf(5 + rng.below(120));
    if (fi % 2 == 1) key[3] = 0;
    EncRes e = real_enc(T, c, h, key, seed, plain);
    auto one = [&](const bytes &k2, bool ml) {
      tried++;
      // the right key is used (successfully) in between, as in a session: whatever that leaves behind must not make a wrong key pass
      if (tried % 3 == 1) { DecRes g = tried % 2 ? real_ver(T, key, e.file) : real_dec(T, key, e.file); if (!g.ok) emitA(suite, "C06", "the right key was rejected key=" + hex(key) + " file=" + hex(e.file)); }
      DecRes v = real_ver(T, k2, e.file); DecRes d = real_dec(T, k2, e.file);
      std::string id = "key=" + hex(key) + " wrong=" + hex(k2) + " file=" + hex(e.file);
      if (v.ok) emitA(suite, "C06", "verification accepted a wrong key " + id);
      if (d.ok) emitA(suite, "C06", "decryption accepted a wrong key " + id);
      if (!d.out.empty()) emitA(suite, "C06", "decryption with a wrong key wrote " + S((long)d.out.size()) + " bytes " + id);
      if (ml) { emitM(suite, "ver " + cfgs(T) + " " + hex(k2) + " " + hex(e.file), okclass(v.ok)); emitM(suite, "dec " + cfgs(T) + " " + hex(k2) + " " + hex(e.file), std::string(d.ok ? "0 " : "!0 ") + hex(d.out) + " *"); }
    };
    for (int bit = 0; bit < 128; bit++) { bytes k2 = key; k2[bit / 8] ^= (unsigned char)(1 << (bit % 8)); one(k2, bit % 32 == 0); }
    for (int i = 0; i < (tier_thorough() ? 2000 : 400); i++) one(rng.buf(16), i % 40 == 0);
    for (int b1 = 0; b1 < 128; b1 += 3) for (int b2 = b1 + 1; b2 < 128; b2 += 7) { bytes k2 = key; k2[b1 / 8] ^= (unsigned char)(1 << (b1 % 8)); k2[b2 / 8] ^= (unsigned char)(1 << (b2 % 8)); one(k2, false); }
    { bytes z(16, 0); if (z != key) one(z, true); }
  }
  // verifications running at the same time in one process (each on its own stream and its own runcrypt object): a wrong key must not pass
  // because another thread is verifying with the right key
  { int T = 2; bytes key = rng.key16(), seed = rng.nzbuf(9), plain = rng.buf(200); EncRes e = real_enc(T, 1, 0, key, seed, plain);
    std::atomic<long> attempts(0), accepted(0), rightrejected(0); std::atomic<bool> stop(false);
    auto verify_with = [&](const bytes &k2) { MemFile in(e.file); FILE *fi = in.openr(); alignas(16) unsigned char k[16]; memcpy(k, k2.data(), 16); Settings st((char)-1, (char)-1, true); bool ok; { runcrypt rc(fi, NULL, k, st, (u8_t)T); ok = rc.execute_verify(e.file.size()); } return ok; };
    trace_case(suite, "concurrent verifications key=" + hex(key) + " file=" + hex(e.file));
    std::vector<std::thread> th;
    for (int t = 0; t < 3; t++) th.emplace_back([&]() { while (!stop) if (!verify_with(key)) rightrejected++; });
    bytes firstbad;
    for (int t = 0; t < 2; t++) th.emplace_back([&, t]() { Rng r2(1234 + t); while (!stop) { bytes k2 = key; k2[r2.below(16)] ^= (unsigned char)(1 << r2.below(8)); attempts++; if (verify_with(k2)) accepted++; } });
    usleep(tier_thorough() ? 4000000 : 900000); stop = true; for (auto &x : th) x.join();
    if (accepted > 0) emitA(suite, "C06", S(accepted) + " of " + S(attempts) + " verifications with a wrong key were accepted while other threads verified the same file with the right key; key=" + hex(key) + " file=" + hex(e.file));
    if (rightrejected > 0) emitA(suite, "C06", "the right key was rejected " + S(rightrejected) + " times while other threads verified with wrong keys; key=" + hex(key));
    emitI(suite, "concurrent_wrong_key_attempts", S(attempts)); }
  emitI(suite, "wrong_keys", S(tried));
}

// ---------------- C11 / C12 ----------------
static long g_mal = 0;
static void malformed_case(const char *suite, int T, const bytes &key, const bytes &file, const std::string &what, size_t body_len_hint) {
  g_mal++;
  DecRes v = real_ver(T, key, file);
  DecRes d = real_dec(T, key, file);
  DecRes v2 = real_ver(T, key, file);
  std::string id = "(" + what + ") T=" + S(T) + " key=" + hex(key) + " file=" + hex(file);
  if (v.ok != d.ok) emitA(suite, "C12", std::string("verify ") + (v.ok ? "succeeds" : "fails") + " but decrypt " + (d.ok ? "succeeds " : "fails ") + id);
  if (v.ok != v2.ok) emitA(suite, "C12", "verification verdict is not stable " + id);
  if (!v.input_intact || !d.input_intact) emitA(suite, "C12", "input file modified " + id);
  if (!d.ok && !d.out.empty()) emitA(suite, "C11", "failed decryption wrote " + S((long)d.out.size()) + " bytes " + id);
  size_t hdr = 48 + 20 * (size_t)T;
  size_t body = file.size() > hdr ? file.size() - hdr : 0;
  if (d.ok && d.out.size() > body) emitA(suite, "C11", "decryption wrote " + S((long)d.out.size()) + " bytes, more than the ciphertext body holds (" + S((long)body) + ") " + id);
  (void)body_len_hint;
  emitM(suite, "ver " + cfgs(T) + " " + hex(key) + " " + hex(file), okclass(v.ok));
  emitM(suite, "dec " + cfgs(T) + " " + hex(key) + " " + hex(file), std::string(d.ok ? "0 " : "!0 ") + hex(d.out) + " *");
}
static void suite_malformed(Rng &rng) {
  const char *suite = "malformed";
  static const unsigned char MAGIC[8] = {0xC3, 0xA5, 0xC3, 0xA5, 0xC3, 0xA5, 0xC3, 0xA5};
  bytes key = rng.buf(16);
  malformed_case(suite, 4, key, bytes(), "empty", 0);
  for (int n : {1, 7, 8, 9, 10, 47, 48, 73, 74, 75, 127, 128, 129, 200}) { malformed_case(suite, 1 + rng.below(4), key, rng.buf(n), "random garbage", 0); bytes g = rng.buf(n); for (int i = 0; i < 8 && i < n; i++) g[i] = MAGIC[i]; malformed_case(suite, 1 + rng.below(4), key, g, "garbage with magic", 0); }
  int nfiles = tier_thorough() ? 12 : 3;
  for (int fi = 0; fi < nfiles; fi++) {
    int T = 1 + fi % 4, c = (fi * 2 + 1) % 5, h = fi % 3;
    bytes seed = rng.nzbuf(10), plain = rng.buf(16 * (size_t)BSZ * (fi % 3) + rng.below(40));
    if (plain.size() > 150) plain.resize(150);
    EncRes e = real_enc(T, c, h, key, seed, plain);
    const bytes &F = e.file;
    for (size_t l = 0; l <= F.size(); l += (l < 80 || tier_thorough()) ? 1 : 3) malformed_case(suite, T, key, bytes(F.begin(), F.begin() + l), "prefix " + S((long)l), 0);
    for (int v = 0; v < 256; v++) { bytes m = F; m[8] = (unsigned char)v; malformed_case(suite, T, key, m, "byte 8 = " + S(v), 0); m = F; m[9] = (unsigned char)v; malformed_case(suite, T, key, m, "byte 9 = " + S(v), 0); }
    for (size_t i = 0; i < 48 + 20 * (size_t)T && i < F.size(); i++) { bytes m = F; m[i] ^= (unsigned char)(1 + rng.below(255)); malformed_case(suite, T, key, m, "header byte " + S((long)i), 0); }
    // a valid file read with a different worker count than it was written with
    for (int T2 : {1, 2, 5}) if (T2 != T) malformed_case(suite, T2, key, F, "decrypted with T=" + S(T2) + " but written with T=" + S(T), 0);
  }
  // authentic files with many workers (header longer than 255 bytes from T = 11 on): accepted, output bounded by the body, prefixes rejected
  for (int T : {10, 11, 12, 16}) {
    bytes seed = rng.nzbuf(10), plain = rng.buf(rng.below(3) == 0 ? 0 : rng.below(70)); int c = T % 5, h = T % 3;
    EncRes e = real_enc(T, c, h, key, seed, plain); const bytes &F = e.file;
    malformed_case(suite, T, key, F, "authentic file written with T=" + S(T), 0);
    for (size_t cut : {(size_t)1, (size_t)16, (size_t)17}) if (F.size() > cut) malformed_case(suite, T, key, bytes(F.begin(), F.end() - cut), "authentic file (T=" + S(T) + ") cut by " + S((long)cut), 0);
    { bytes m = F; m[48 + 20 * (size_t)T - 1] ^= 1; malformed_case(suite, T, key, m, "last IV byte changed (T=" + S(T) + ")", 0); }
  }
  // verify and decrypt must agree on a file whatever was verified or decrypted just before in the same process
  // (a result remembered from a related file must not be reused): op1 on the authentic file, then op2 on a same-size variant
  { long pairs = 0;
    for (int fi = 0; fi < (tier_thorough() ? 8 : 3); fi++) {
      int T = 1 + fi % 3, c = (fi + 1) % 5, h = fi % 3;
      bytes seed = rng.nzbuf(10), plain = rng.padlike(20 + rng.below(100));
      EncRes e = real_enc(T, c, h, key, seed, plain);
      const bytes &F = e.file; size_t body = 48 + 20 * (size_t)T;
      std::vector<bytes> vars;
      for (int k = 0; k < 12; k++) { bytes m = F; m[body + rng.below((uint32_t)(F.size() - body))] ^= (unsigned char)(1 << rng.below(8)); vars.push_back(m); }
      if (body > 74) for (int k = 0; k < 4; k++) { bytes m = F; m[74 + rng.below((uint32_t)(body - 74))] ^= 0x20; vars.push_back(m); }
      { bytes m = F; m[48] ^= 1; vars.push_back(m); m = F; m[10] ^= 1; vars.push_back(m); m = F; m.back() ^= 0x80; vars.push_back(m); }
      for (auto &m : vars) for (int first = 0; first < 2; first++) {
        pairs++; g_mal++;
        DecRes a = first == 0 ? real_ver(T, key, F) : real_dec(T, key, F);
        if (!a.ok) emitA(suite, "C12", "authentic file rejected T=" + S(T) + " key=" + hex(key) + " file=" + hex(F));
        DecRes d = real_dec(T, key, m);
        DecRes a2 = first == 0 ? real_ver(T, key, F) : real_dec(T, key, F); (void)a2;
        DecRes v = real_ver(T, key, m);
        if (v.ok != d.ok) emitA(suite, "C12", std::string("after a successful ") + (first == 0 ? "verification" : "decryption") + " of the authentic file, decrypt " + (d.ok ? "accepts" : "rejects") + " but verify " + (v.ok ? "accepts" : "rejects") + " a same-size variant T=" + S(T) + " key=" + hex(key) + " authentic=" + hex(F) + " variant=" + hex(m));
        if (d.ok && d.out != plain) emitA(suite, "C05", "after an operation on the authentic file a modified variant decrypts to different plaintext T=" + S(T) + " key=" + hex(key) + " variant=" + hex(m));
        if (!d.ok && !d.out.empty()) emitA(suite, "C11", "failed decryption wrote bytes (variant after authentic) key=" + hex(key) + " variant=" + hex(m));
      }
    }
    emitI(suite, "operation_pairs", S(pairs)); }
  for (int i = 0; i < (tier_thorough() ? 3000 : 200); i++) { bytes g = rng.buf(rng.below(260)); if (rng.below(2) && g.size() >= 8) memcpy(g.data(), MAGIC, 8); if (g.size() > 9 && rng.below(2)) { g[8] = rng.below(6); g[9] = rng.below(4); } malformed_case(suite, 1 + rng.below(5), key, g, "structured garbage", 0); }
  // "success only if the file is authentic": files that are NOT authentic by construction — a valid header, an all-zero (or constant)
  // tag field, random IVs and body. A comparison that looks at fewer than all tag bytes accepts about one in 256 of them.
  { long forged = tier_thorough() ? 20000 : 4000, accepted = 0;
    for (long i = 0; i < forged; i++) {
      int T = 1 + (int)(i % 3), h = (int)(i % 3), c = (int)(i % 5);
      bytes f(48 + 20 * T + 16 * (1 + rng.below(3)), 0); memcpy(f.data(), MAGIC, 8); f[8] = (unsigned char)c; f[9] = (unsigned char)h;
      unsigned char fill = (i % 4 == 3) ? 0xFF : 0x00; for (int j = 10; j < 10 + hlen_of(h); j++) f[j] = fill;
      for (size_t j = 48; j < f.size(); j++) f[j] = (unsigned char)rng.next();
      g_mal++;
      DecRes v = real_ver(T, key, f);
      if (v.ok) { accepted++; DecRes d = real_dec(T, key, f);
        emitA(suite, "C11", "a file that is not authentic (constant tag field, random body) is accepted" + std::string(d.ok ? " and decrypted" : "") + " T=" + S(T) + " key=" + hex(key) + " file=" + hex(f)); if (accepted >= 3) break; }
    }
    emitI(suite, "forgery_attempts", S(forged)); }
  emitI(suite, "inputs", S(g_mal));
}

// ---------------- C13 ----------------
struct Cookie { bytes data; size_t pos = 0; std::vector<std::pair<size_t, bytes>> log; };
static ssize_t ck_read(void *c, char *buf, size_t n) { Cookie *k = (Cookie *)c; if (k->pos >= k->data.size()) return 0; size_t m = std::min(n, k->data.size() - k->pos); memcpy(buf, &k->data[k->pos], m); k->pos += m; return (ssize_t)m; }
static ssize_t ck_write(void *c, const char *buf, size_t n) { Cookie *k = (Cookie *)c; if (k->pos + n > k->data.size()) k->data.resize(k->pos + n, 0); memcpy(&k->data[k->pos], buf, n); k->log.push_back({k->pos, bytes(buf, buf + n)}); k->pos += n; return (ssize_t)n; }
static int ck_seek(void *c, off64_t *off, int whence) { Cookie *k = (Cookie *)c; off64_t np = whence == SEEK_SET ? *off : whence == SEEK_CUR ? (off64_t)k->pos + *off : (off64_t)k->data.size() + *off; if (np < 0) return -1; k->pos = (size_t)np; *off = np; return 0; }
static int ck_close(void *) { return 0; }
static void suite_crash(Rng &rng) {
  const char *suite = "crash";
  long states = 0, encs = 0;
  int nenc = tier_thorough() ? 60 : 14;
  for (int ei = 0; ei < nenc; ei++) {
    int T = 1 + ei % 4, c = ei % 5, h = ei % 3;
    bool unbuffered = ei % 2 == 0;
    bytes key = rng.buf(16), seed = rng.nzbuf(8), plain = rng.buf(rng.below(3) == 0 ? rng.below(16) : 16 * (size_t)BSZ * rng.below(4) + rng.below(50));
    if (plain.size() > 200) plain.resize(200);
    Cookie ck; cookie_io_functions_t io = {ck_read, ck_write, ck_seek, ck_close};
    FILE *fo = fopencookie(&ck, "w+", io);
    if (unbuffered) setvbuf(fo, NULL, _IONBF, 0); else { static char sbuf[256]; setvbuf(fo, sbuf, _IOFBF, 37 + (ei % 100)); }  // small odd buffer: writes are re-chunked by stdio
    MemFile in(plain); FILE *fi = in.openr();
    unsigned char *k = g_keybuf; memcpy(k, key.data(), 16);
    std::vector<unsigned char> sd(seed.begin(), seed.end()); sd.push_back(0);
    Settings st((char)c, (char)h, true);
    { runcrypt rc(fi, fo, k, st, (u8_t)T); rc.execute_encrypt(plain.size(), sd.data()); }
    encs++;
    bytes final = ck.data;
    std::string args = cfgs(T) + " " + S(c) + " " + S(h) + " " + hex(key) + " " + hex(seed) + " " + hex(plain);
    { // the order of writes, adjacent sequential writes merged (so that neither stdio's nor the code's chunking matters)
      std::vector<std::pair<size_t, size_t>> cl; for (auto &w : ck.log) { if (!cl.empty() && cl.back().first + cl.back().second == w.first) cl.back().second += w.second.size(); else cl.push_back({w.first, w.second.size()}); }
      std::string tr; for (auto &w : cl) tr += (tr.empty() ? "" : ",") + S((long)w.first) + ":" + S((long)w.second); emitM(suite, "enclog " + args, tr.empty() ? "-" : tr); }
    emitM(suite, "enc " + args, hex(final));
    // shape the property rests on: sequential appends, then exactly the tag field is patched, last
    { size_t end = 0; bool shape = true; size_t nw = ck.log.size(); int hl = hlen_of(h);
      size_t tagbytes = 0; size_t i = 0;
      for (; i < nw; i++) { if (ck.log[i].first == end) end += ck.log[i].second.size(); else break; }
      for (; i < nw; i++) { auto &w = ck.log[i]; if (w.first < 10 || w.first + w.second.size() > (size_t)(10 + hl)) shape = false; tagbytes += w.second.size(); }
      if (end != final.size() || tagbytes != (size_t)hl) shape = false;
      if (!shape) emitI(suite, "unexpected_write_shape", "enc " + args);
    }
    // every crash state: after each write, and after every byte of each write (all of them for small writes, a sample otherwise)
    bytes cur;
    auto check_state = [&](const bytes &stt, const std::string &what) {
      states++;
      if (stt == final) return;
      DecRes v = real_ver(T, key, stt);
      if (v.ok) emitA(suite, "C13", "partial output verifies (" + what + ") enc " + args + " state=" + hex(stt));
      if (states % 5 == 0 && stt.size() < 60000) {      // the same state arriving through a pipe (a stream that cannot seek): still rejected
        for (int dv = 0; dv < 2; dv++) { int pp[2]; if (pipe(pp) != 0) abort(); if (!stt.empty()) { ssize_t w = write(pp[1], stt.data(), stt.size()); (void)w; } close(pp[1]);
          FILE *fi = fdopen(pp[0], "rb"); MemFile po; FILE *fo = dv ? po.openw() : NULL; memcpy(g_keybuf, key.data(), 16); Settings st((char)-1, (char)-1, true); bool ok;
          trace_case(suite, std::string(dv ? "decrypt" : "verify") + " of a crash state through a pipe: " + what);
          { runcrypt rc(fi, fo, g_keybuf, st, (u8_t)T); ok = dv ? rc.execute_decrypt(stt.size()) : rc.execute_verify(stt.size()); }
          if (ok) emitA(suite, "C13", std::string("partial output ") + (dv ? "decrypts" : "verifies") + " when it is read through a pipe (" + what + ") enc " + args + " state=" + hex(stt)); } }
      if (states % 7 == 0) { DecRes d = real_dec(T, key, stt); if (d.ok) emitA(suite, "C13", "partial output decrypts (" + what + ") enc " + args + " state=" + hex(stt)); }
      if (states % 29 == 0) emitM(suite, "ver " + cfgs(T) + " " + hex(key) + " " + hex(stt), okclass(v.ok));
    };
    check_state(cur, "before any write");
    for (size_t wi = 0; wi < ck.log.size(); wi++) {
      auto &w = ck.log[wi];
      for (size_t j = 1; j <= w.second.size(); j++) {
        bool sample = w.second.size() <= 48 || j == w.second.size() || j % 5 == 1 || tier_thorough();
        if (cur.size() < w.first + j) cur.resize(w.first + j, 0);
        cur[w.first + j - 1] = w.second[j - 1];
        if (sample) check_state(cur, "write " + S((long)wi) + " byte " + S((long)j));
      }
    }
    if (cur != final) emitA(suite, "C13", "write log does not reproduce the final file enc " + args);
  }
  emitI(suite, "crash_states", S(states)); emitI(suite, "encryptions", S(encs));
}

// ---------------- C15 ----------------
struct Op { int kind; int T, c, h; bytes key, seed, data; };   // kind 0 enc, 1 dec, 2 ver
struct OpRes { bool ok; bytes out; };
static OpRes do_op(const Op &o) {
  OpRes r;
  if (o.kind == 0) { EncRes e = real_enc(o.T, o.c, o.h, o.key, o.seed, o.data); r.ok = e.ok; r.out = e.file; }
  else if (o.kind == 1) { DecRes d = real_dec(o.T, o.key, o.data); r.ok = d.ok; r.out = d.out; }
  else { DecRes v = real_ver(o.T, o.key, o.data); r.ok = v.ok; }
  return r;
}
static std::string g_self_exe;
// the same operation in a FRESH process image (fork + exec of this binary, "freshop" mode): nothing the parent has computed, cached or
// left behind in static storage is inherited
static OpRes do_op_fresh(const Op &o) {
  int p[2], q[2]; if (pipe(p) != 0 || pipe(q) != 0) abort();
  fflush(g_proto);
  pid_t pid = fork();
  if (pid == 0) {
    dup2(q[0], 0); dup2(p[1], 3); close(p[0]); close(p[1]); close(q[0]); close(q[1]);
    char *av[] = {(char *)g_self_exe.c_str(), (char *)"freshop", NULL};
    execv(g_self_exe.c_str(), av); _exit(126);
  }
  close(p[1]); close(q[0]);
  { std::string in = S(o.kind) + " " + S(o.T) + " " + S(o.c) + " " + S(o.h) + " " + hex(o.key) + " " + (o.seed.empty() ? std::string("-") : hex(o.seed)) + " " + (o.data.empty() ? std::string("-") : hex(o.data)) + "\n";
    size_t off = 0; while (off < in.size()) { ssize_t w = write(q[1], in.data() + off, in.size() - off); if (w <= 0) break; off += w; } close(q[1]); }
  OpRes r; unsigned char okb = 0; uint32_t n = 0;
  auto rd = [&](void *b, size_t len) { size_t got = 0; while (got < len) { ssize_t k = read(p[0], (char *)b + got, len - got); if (k <= 0) return false; got += k; } return true; };
  bool good = rd(&okb, 1) && rd(&n, 4); r.ok = okb; if (good && n) { r.out.resize(n); good = rd(r.out.data(), n); }
  close(p[0]); int stt; waitpid(pid, &stt, 0);
  if (!good || !WIFEXITED(stt) || WEXITSTATUS(stt) != 0) { r.ok = false; r.out = {0xde, 0xad}; }
  return r;
}
static void suite_proc(Rng &rng) {
  const char *suite = "proc";
  int nhist = tier_thorough() ? 150 : 25, maxlen = tier_thorough() ? 40 : 12;
  long ops = 0;
  for (int hi = 0; hi < nhist; hi++) {
    std::vector<bytes> files; std::vector<bytes> keys; std::vector<int> fT;
    int len = 2 + rng.below(maxlen - 1);
    std::string hist;
    bytes base_key = rng.buf(16); size_t base_z = rng.below(8); base_key[base_z] = 0;
    for (int oi = 0; oi < len; oi++) {
      Op o; o.kind = files.empty() ? 0 : rng.below(3); o.T = 1 + rng.below(5); if (rng.below(6) == 0) o.T = 16; o.c = rng.below(5); o.h = rng.below(3);
      o.key = rng.key16(); o.seed = rng.nzbuf(6);
      // related keys: half of the keys of a history are the history's base key (which has a zero byte at position z <= 7) changed only
      // BEHIND that zero byte, or only in odd-indexed bytes: caches that compare keys as C strings or partially confuse them
      if (rng.below(2)) { o.key = base_key; if (rng.below(3)) o.key[base_z + 1 + rng.below((uint32_t)(15 - base_z))] ^= (unsigned char)(1 + rng.below(255)); else o.key[9 + 2 * rng.below(4)] ^= 0x10; }
      if (o.kind == 0) { size_t n = rng.below(3) == 0 ? 16 * (size_t)BSZ * (1 + rng.below(3)) + rng.below(20) : rng.below(90); o.data = rng.padlike(n); }
      else {
        size_t fi = rng.below((uint32_t)files.size()); o.data = files[fi]; o.key = keys[fi]; o.T = fT[fi];
        int mode = rng.below(4);  // 0,1: valid; 2: wrong key; 3: damaged / truncated / garbage
        if (mode == 2) { if (rng.below(2)) o.key = rng.buf(16); else o.key[rng.below(16)] ^= (unsigned char)(1 << rng.below(8)); }   // unrelated wrong key, or a one-bit neighbour
        if (mode == 3) { int w = rng.below(3); if (w == 0 && !o.data.empty()) o.data[rng.below((uint32_t)o.data.size())] ^= 0x40; else if (w == 1) o.data.resize(rng.below((uint32_t)o.data.size() + 1)); else o.data = rng.buf(rng.below(100)); }
      }
      OpRes a = do_op(o);
      OpRes b = do_op_fresh(o);
      ops++;
      hist += std::string(oi ? ";" : "") + (o.kind == 0 ? "e" : o.kind == 1 ? "d" : "v") + ":T" + S(o.T) + ":c" + S(o.c) + ":h" + S(o.h) + ":k" + hex(o.key) + ":s" + hex(o.seed) + ":" + hex(o.data);
      if (a.ok != b.ok || a.out != b.out) emitA(suite, "C15", "operation " + S(oi) + " of the history behaves differently than in a fresh process: in-process ok=" + S(a.ok) + " out=" + hex(a.out) + " fresh ok=" + S(b.ok) + " out=" + hex(b.out) + " history=" + hist);
      if (bufferctrl::verif_live_num() != 0) emitA(suite, "C15", "live buffer counter is " + S(bufferctrl::verif_live_num()) + " after operation " + S(oi) + " history=" + hist);
      if (buffergroup::verif_instance() != NULL) emitA(suite, "C15", "buffer group singleton survives operation " + S(oi) + " history=" + hist);
      if (o.kind == 0 && a.ok) { files.push_back(a.out); keys.push_back(o.key); fT.push_back(o.T); }
      // model side: each operation alone
      if (oi % 5 == 0) {
        if (o.kind == 0) emitM(suite, "enc " + cfgs(o.T) + " " + S(o.c) + " " + S(o.h) + " " + hex(o.key) + " " + hex(o.seed) + " " + hex(o.data), hex(a.out));
        else if (o.kind == 1) emitM(suite, "dec " + cfgs(o.T) + " " + hex(o.key) + " " + hex(o.data), std::string(a.ok ? "0 " : "!0 ") + hex(a.out) + " *");
        else emitM(suite, "ver " + cfgs(o.T) + " " + hex(o.key) + " " + hex(o.data), okclass(a.ok));
      }
    }
  }
  emitI(suite, "operations", S(ops)); emitI(suite, "histories", S(nhist));
}

// ---------------- I/O faults (C04: every operation returns; C15: a failed operation leaves the process as it found it) ----------------
static void suite_iofault(Rng &rng) {
  const char *suite = "iofault"; long ops = 0, rfaults = 0, wfaults = 0;
  size_t chunk = 16 * (size_t)BSZ;
  auto state_clean = [&](const std::string &what) {
    if (bufferctrl::verif_live_num() != 0) emitA(suite, "C15", "live buffer counter is " + S(bufferctrl::verif_live_num()) + " after " + what);
    if (buffergroup::verif_instance() != NULL) emitA(suite, "C15", "buffer group singleton survives " + what); };
  auto followup = [&](const std::string &what) {      // an ordinary round trip right after the faulty operation must be as in a fresh process
    int T = 1 + rng.below(3), c = rng.below(5), h = rng.below(3); bytes k = rng.key16(), sd = rng.nzbuf(7), pl = rng.buf(chunk * 2 + rng.below(40));
    EncRes e = real_enc(T, c, h, k, sd, pl);
    emitM(suite, "enc " + cfgs(T) + " " + S(c) + " " + S(h) + " " + hex(k) + " " + hex(sd) + " " + hex(pl), hex(e.file));
    DecRes d = real_dec(T, k, e.file);
    if (!e.ok || !d.ok || d.out != pl) emitA(suite, "C15", "an ordinary encrypt/decrypt round trip fails right after " + what + " (in a fresh process it succeeds)");
    state_clean("the round trip that followed " + what); };
  for (int rep = 0; rep < (tier_thorough() ? 40 : 8); rep++) {
    int T = 1 + rep % 4, c = rep % 5, h = rep % 3; bytes key = rng.key16(), seed = rng.nzbuf(8), plain = rng.buf(chunk * (1 + rep % 3) + rng.below(50));
    EncRes good = real_enc(T, c, h, key, seed, plain);
    // read faults on the input of encrypt / verify / decrypt, at several points (header, first chunk, later chunk, the pipeline phase of decrypt)
    std::vector<long> pts = {0, 5, (long)chunk - 3, (long)chunk + 7, (long)plain.size() - 1};
    for (long pt : pts) { if (pt < 0) continue;
      { FaultIn fin; fin.data = plain; fin.fail_after = pt; FILE *fi = open_fault_in(&fin); setvbuf(fi, NULL, _IONBF, 0); MemFile out; FILE *fo = out.openw();
        std::string what = "an encryption whose input fails with EIO after " + S(pt) + " bytes (T=" + S(T) + " c=" + S(c) + " n=" + S((long)plain.size()) + ")"; trace_case(suite, what);
        memcpy(g_keybuf, key.data(), 16); std::vector<unsigned char> sd(seed.begin(), seed.end()); sd.push_back(0); Settings st((char)c, (char)h, true);
        { runcrypt rc(fi, fo, g_keybuf, st, (u8_t)T); rc.execute_encrypt(plain.size(), sd.data()); } ops++; rfaults += fin.faults; state_clean(what); followup(what); }
      for (int dv = 0; dv < 2; dv++) { FaultIn fin; fin.data = good.file; fin.fail_after = dv == 0 ? pt + 48 : (long)good.file.size() - 48 + 48 + 20 * T + pt;   // dv=1: the fault falls into the pipeline phase of decrypt (after verify has read the file once)
        FILE *fi = open_fault_in(&fin); setvbuf(fi, NULL, _IONBF, 0); MemFile out; FILE *fo = out.openw();
        std::string what = std::string(dv ? "a decryption" : "a verification") + " whose input fails with EIO after " + S(fin.fail_after) + " bytes (T=" + S(T) + " file of " + S((long)good.file.size()) + " bytes)"; trace_case(suite, what);
        memcpy(g_keybuf, key.data(), 16); Settings st((char)-1, (char)-1, true);
        { runcrypt rc(fi, dv ? fo : NULL, g_keybuf, st, (u8_t)T); if (dv) rc.execute_decrypt(good.file.size()); else rc.execute_verify(good.file.size()); } if (!dv) fclose(fo);
        ops++; rfaults += fin.faults; state_clean(what); if (pt == pts[1]) followup(what); }
    }
    // a directory as input (fopen succeeds, every read fails)
    { FILE *fi = fopen("/", "rb"); if (fi) { MemFile out; FILE *fo = out.openw(); std::string what = "an encryption whose input is a directory"; trace_case(suite, what);
        memcpy(g_keybuf, key.data(), 16); std::vector<unsigned char> sd(seed.begin(), seed.end()); sd.push_back(0); Settings st((char)c, (char)h, true);
        { runcrypt rc(fi, fo, g_keybuf, st, (u8_t)T); rc.execute_encrypt(0, sd.data()); } ops++; state_clean(what); followup(what); } }
    // write faults on the output of encrypt / decrypt (disk full after `limit` bytes)
    for (long limit : {0L, 30L, (long)(48 + 20 * T + 5), (long)(48 + 20 * T + chunk + 3)}) {
      { MemFile in(plain); FILE *fi = in.openr(); FaultOut fout; fout.limit = limit; FILE *fo = open_fault_out(&fout); setvbuf(fo, NULL, _IONBF, 0);
        std::string what = "an encryption whose output fails with ENOSPC after " + S(limit) + " bytes (T=" + S(T) + " c=" + S(c) + " n=" + S((long)plain.size()) + ")"; trace_case(suite, what);
        memcpy(g_keybuf, key.data(), 16); std::vector<unsigned char> sd(seed.begin(), seed.end()); sd.push_back(0); Settings st((char)c, (char)h, true);
        { runcrypt rc(fi, fo, g_keybuf, st, (u8_t)T); rc.execute_encrypt(plain.size(), sd.data()); } ops++; wfaults += fout.faults; state_clean(what); followup(what); }
      { MemFile in(good.file); FILE *fi = in.openr(); FaultOut fout; fout.limit = limit; FILE *fo = open_fault_out(&fout); setvbuf(fo, NULL, _IONBF, 0);
        std::string what = "a decryption whose output fails with ENOSPC after " + S(limit) + " bytes (T=" + S(T) + ")"; trace_case(suite, what);
        memcpy(g_keybuf, key.data(), 16); Settings st((char)-1, (char)-1, true);
        { runcrypt rc(fi, fo, g_keybuf, st, (u8_t)T); rc.execute_decrypt(good.file.size()); } ops++; wfaults += fout.faults; state_clean(what); if (limit == 30) followup(what); }
    }
  }
  emitI(suite, "faulty_operations", S(ops)); emitI(suite, "read_faults_fired", S(rfaults)); emitI(suite, "write_faults_fired", S(wfaults));
}

// ---------------- memory pressure (C06): when allocations fail, a wrong key must still never be ACCEPTED (an abort is tolerated here) ----------------
#include <sys/resource.h>
#include <malloc.h>
static void suite_memlimit(Rng &rng) {
  const char *suite = "memlimit"; long runs = 0, aborted = 0, rejected = 0;
  mallopt(M_ARENA_MAX, 1); mallopt(M_MMAP_THRESHOLD, 1 << 20); mallopt(M_TRIM_THRESHOLD, 1 << 20);      // one arena (thread arenas reserve 64 MiB of address space each, which an allocation could later grow into);      // big blocks are mapped and unmapped, so that "current size + margin" really is a limit
  for (int rep = 0; rep < (tier_thorough() ? 24 : 6); rep++) {
    int T = 1 + rep % 2, c = rep % 5, h = rep % 3; bytes key = rng.key16(), seed = rng.nzbuf(8), plain = rng.buf(100 + rng.below(100));
    EncRes e = real_enc(T, c, h, key, seed, plain);
    bytes k2 = key; k2[rng.below(16)] ^= (unsigned char)(1 << rng.below(8));
    for (int dv = 0; dv < 2; dv++) for (long margin_mb : {4L, 20L, 40L}) {
      int pp[2]; if (pipe(pp) != 0) abort(); fflush(g_proto);
      trace_case(suite, std::string(dv ? "decrypt" : "verify") + " with a wrong key under an address-space limit of current + " + S(margin_mb) + " MiB");
      pid_t pid = fork();
      if (pid == 0) { close(pp[0]);
        malloc_trim(0);
        long pages = 0; { FILE *f = fopen("/proc/self/statm", "r"); if (f) { if (fscanf(f, "%ld", &pages) != 1) pages = 0; fclose(f); } }
        struct rlimit rl; rl.rlim_cur = rl.rlim_max = (rlim_t)pages * 4096 + (rlim_t)margin_mb * 1048576; setrlimit(RLIMIT_AS, &rl);
        DecRes r = dv ? real_dec(T, k2, e.file) : real_ver(T, k2, e.file);
        unsigned char b[2] = {(unsigned char)r.ok, (unsigned char)(r.out.empty() ? 0 : 1)}; ssize_t w = write(pp[1], b, 2); (void)w; _exit(0); }
      close(pp[1]); unsigned char b[2] = {0, 0}; ssize_t n = read(pp[0], b, 2); close(pp[0]); int st; waitpid(pid, &st, 0); runs++;
      if (n == 2 && WIFEXITED(st) && WEXITSTATUS(st) == 0) {
        if (b[0]) emitA(suite, "C06", std::string(dv ? "decryption" : "verification") + " ACCEPTED a wrong key when memory was short (address-space limit current + " + S(margin_mb) + " MiB) key=" + hex(key) + " wrong=" + hex(k2) + " file=" + hex(e.file));
        else rejected++;
        if (b[1]) emitA(suite, "C06", "decryption with a wrong key wrote output when memory was short key=" + hex(key) + " wrong=" + hex(k2));
      } else aborted++;
    }
  }
  emitI(suite, "runs_under_memory_limit", S(runs)); emitI(suite, "aborted_on_allocation_failure", S(aborted)); emitI(suite, "rejected", S(rejected));
}

int main(int argc, char **argv) {
  { char buf[4096]; ssize_t n = readlink("/proc/self/exe", buf, sizeof buf - 1); g_self_exe = n > 0 ? std::string(buf, n) : std::string(argv[0]); }
  if (argc > 1 && std::string(argv[1]) == "freshop") {      // one operation read from stdin, result written to fd 3, in a new process image
    std::string line; { char buf[65536]; ssize_t n; while ((n = read(0, buf, sizeof buf)) > 0) line.append(buf, n); }
    std::vector<std::string> f; { size_t pos = 0; while (pos < line.size()) { size_t e = line.find_first_of(" \n", pos); if (e == std::string::npos) e = line.size(); if (e > pos) f.push_back(line.substr(pos, e - pos)); pos = e + 1; } }
    if (f.size() != 7) return 125;
    g_proto = fopen("/dev/null", "w");
    Op o; o.kind = atoi(f[0].c_str()); o.T = atoi(f[1].c_str()); o.c = atoi(f[2].c_str()); o.h = atoi(f[3].c_str()); o.key = unhex(f[4]); o.seed = f[5] == "-" ? bytes() : unhex(f[5]); o.data = f[6] == "-" ? bytes() : unhex(f[6]);
    OpRes r = do_op(o);
    unsigned char okb = r.ok; uint32_t n = (uint32_t)r.out.size();
    ssize_t w = write(3, &okb, 1); w = write(3, &n, 4); size_t off = 0; while (off < n) { w = write(3, r.out.data() + off, n - off); if (w <= 0) break; off += w; }
    return 0;
  }
  proto_init();
  long seed = env_long("VERIF_SEED", 1);
  std::string which = argc > 1 ? argv[1] : "all";
  Rng rng((uint64_t)seed * 1000003ull + (uint64_t)BSZ * 131 + HB);
  emitI("file", "B", S(BSZ)); emitI("file", "H", S(HB));
  if (which == "roundtrip" || which == "all") suite_roundtrip(rng);
  if (which == "ivs" || which == "all") suite_ivs(rng);
  if (which == "tamper" || which == "all") suite_tamper(rng);
  if (which == "wrongkey" || which == "all") suite_wrongkey(rng);
  if (which == "malformed" || which == "all") suite_malformed(rng);
  if (which == "crash" || which == "all") suite_crash(rng);
  if (which == "proc" || which == "all") suite_proc(rng);
  if (which == "iofault") suite_iofault(rng);
  if (which == "memlimit") suite_memlimit(rng);
  fflush(g_proto);
  return 0;
}
