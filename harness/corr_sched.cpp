// C03 / C04 / C14: the real pipeline (iobuffer, bufferctrl, buffergroup, multicry_master, multiruncrypt_file) under a
// deterministic cooperative scheduler (sched/shim.h, forced include). For every explored schedule:
//  * conformance: after every scheduling interval the shared observables are sent to the Lean transition system, which must be
//    able to follow with zero or more steps of the same thread (M line, command `pipe`);
//  * oracles: final bytes = an independent sequential reference (C03), no deadlock / every thread returns (C04),
//    no overlapping access to a chunk buffer (C14, monitor on the hook events).
#include "common.h"
#include "multicry.h"
#include "multi_buffergroup.h"

static const int BSZ = WENCRY_VERIF_BUF_SZ;
static std::string S(long v) { return std::to_string(v); }

struct ToyMode : public Aesmode {
  unsigned long cnt;
  static const unsigned char *ziv() { static unsigned char z[16] = {0}; return z; }
  explicit ToyMode(unsigned long start) : Aesmode(ziv()), cnt(start) {}
  void runcry(u8_t *block) override { cnt++; for (int i = 0; i < 16; i++) block[i] ^= (unsigned char)cnt; }
};

static unsigned fnv(const unsigned char *p, size_t n) { unsigned h = 2166136261u; for (size_t i = 0; i < n; i++) { h ^= p[i]; h *= 16777619u; } return h; }

// ---- per-run state (child process)
static int gT = 0; static bool gPad = false;
static bytes gOut;                       // bytes that reached the output stream
static std::vector<ToyMode *> gModes;
static std::vector<std::string> gIntervals, gLoads, gAsserts;
static std::string gLastObs;
static std::vector<int> gWorkerBusy, gIoBusy, gHanded, gLoaded, gWorkerExited; static int gDataLoads = 0;
static long gExports = 0;

static ssize_t ck_write(void *, const char *buf, size_t n) { gOut.insert(gOut.end(), buf, buf + n); return (ssize_t)n; }
static int ck_close(void *) { return 0; }

static std::string observe() {
  buffergroup *g = buffergroup::verif_instance();
  if (!g || !g->verif_buf(0)) return "";
  std::string s;
  for (int i = 0; i < gT; i++) {
    const iobuffer *b = g->verif_buf(i); const bufferctrl *c = g->verif_ctrl(i);
    s += (i ? ";" : "") + S(c->verif_state()) + "," + S(b->verif_total()) + "," + S(b->verif_now()) + "," + S(b->verif_isfinal() ? 1 : 0) + "," + S(fnv(b->verif_data(), 16 * (size_t)b->verif_total()));
  }
  s += "|" + S((long)gOut.size()) + "," + S(fnv(gOut.data(), gOut.size())) + "|";
  for (int i = 0; i < gT; i++) s += (i ? "," : "") + S((long)gModes[i]->cnt);
  return s;
}
static void on_switch(int self) {
  std::string o = observe();
  if (o.empty() || o == gLastObs) return;
  gLastObs = o;
  gIntervals.push_back((self == 0 ? std::string("io") : S(self - 1)) + "/" + o);
}
static std::string gDeadlock;
static int gResultFd = -1;
static void flush_result(const std::string &status);
static void on_deadlock(const std::string &trace) { flush_result("DEADLOCK trace=" + trace); }

extern "C" void wencry_verif_point(int kind, int id) {
  buffergroup *g = buffergroup::verif_instance();
  int me = vs::Sched::self();
  if (g && g->verif_ctrl(0) && id >= 0 && id < gT) {
    int st = g->verif_ctrl(id)->verif_state();
    switch (kind) {
      case WV_GET_BEGIN:
        if (st != READY && st != INV) gAsserts.push_back("worker " + S(id) + " accesses its buffer in state " + S(st) + " (not READY)");
        if (gIoBusy[id]) gAsserts.push_back("worker " + S(id) + " accesses its buffer while the I/O thread is loading/exporting it");
        if (me != id + 1) gAsserts.push_back("buffer " + S(id) + " accessed by thread " + S(me - 1));
        gWorkerBusy[id] = 1; break;
      case WV_GET_NULL: gWorkerBusy[id] = 0; break;
      case WV_GET_SOME: gHanded[id]++; if (gIoBusy[id]) gAsserts.push_back("worker " + S(id) + " got a block while the I/O thread is inside the buffer"); break;
      case WV_WORKER_EXIT: gWorkerExited[id] = 1; break;
      case WV_BLOCK_DONE:
        if (st != READY) gAsserts.push_back("worker " + S(id) + " finished a block while its buffer is in state " + S(st));
        if (gIoBusy[id]) gAsserts.push_back("worker " + S(id) + " transformed a block while the I/O thread is inside the buffer");
        gWorkerBusy[id] = 0; break;
      case WV_EXPORT_BEGIN: case WV_LOAD_BEGIN:
        if (kind == WV_EXPORT_BEGIN && gHanded[id] != gLoaded[id]) gAsserts.push_back("buffer " + S(id) + " is exported although only " + S(gHanded[id]) + " of its " + S(gLoaded[id]) + " blocks were handed to its worker");
        if (st != EMPTY && st != UPDATING) gAsserts.push_back(std::string(kind == WV_LOAD_BEGIN ? "load" : "export") + " of buffer " + S(id) + " in state " + S(st));
        if (gWorkerBusy[id]) gAsserts.push_back(std::string(kind == WV_LOAD_BEGIN ? "load" : "export") + " of buffer " + S(id) + " while its worker is using it");
        gIoBusy[id] = 1; break;
      case WV_EXPORT_END: gIoBusy[id] = 0; gExports++; break;
      case WV_LOAD_END: {
        gIoBusy[id] = 0;
        const iobuffer *b = g->verif_buf(id);
        gHanded[id] = 0; gLoaded[id] = (int)b->verif_total();
        // every chunk goes to the worker that owns its position: the c-th data-carrying load fills buffer c mod T
        if (b->verif_total() > 0) { if (id != gDataLoads % gT) gAsserts.push_back("chunk " + S(gDataLoads) + " was loaded into buffer " + S(id) + " (worker " + S(id) + "), its position is owned by worker " + S(gDataLoads % gT)); gDataLoads++; }
        std::string l = b->verif_isfinal() && b->verif_total() > 0 && gLoads.size() == (size_t)std::count_if(gLoads.begin(), gLoads.end(), [](const std::string &x) { return x[0] == 'f'; }) ? "F" : (b->verif_total() == 0 ? "n" : "f");
        gLoads.push_back(l + ":" + hex(b->verif_data(), 16 * (size_t)b->verif_total()));
        break; }
      default: break;
    }
  }
  vs::Sched::I().point();
}

// independent sequential reference of what the pipeline must write
static bytes reference(int T, bool pad, const bytes &in) {
  bytes data = in;
  if (pad) { int p = 16 - (int)(data.size() % 16); data.insert(data.end(), p, (unsigned char)p); }
  else data.resize(data.size() / 16 * 16);
  size_t nb = data.size() / 16, chunk = BSZ;
  std::vector<unsigned long> cnt(T); for (int i = 0; i < T; i++) cnt[i] = 100ul * i;
  // on the unpadded side a trailing partial read of fewer than 16 bytes after full chunks carries no block
  for (size_t j = 0, c = 0; j < nb; j += chunk, c++) { size_t e = std::min(nb, j + chunk); for (size_t b = j; b < e; b++) { unsigned long &k = cnt[c % T]; k++; for (int i = 0; i < 16; i++) data[16 * b + i] ^= (unsigned char)k; } }
  // the pad is stripped from the last chunk only if that chunk was recognised as FINAL: not when fewer than 16 stray bytes follow an exact chunk multiple
  bool stray_after_full = (in.size() % 16 != 0) && (nb % chunk == 0);
  if (!pad && nb > 0 && !stray_after_full) { unsigned p = data[16 * nb - 1]; if (p > 16) p = 0; data.resize(16 * nb - p); }
  return data;
}

static std::string gReq; static std::string gInputHex;
static void flush_result(const std::string &status) {
  std::string out;
  // every chunk is given to exactly one worker: a loaded chunk whose owner has returned without taking all of its blocks belongs to nobody
  { buffergroup *g = buffergroup::verif_instance();
    if (g && g->verif_ctrl(0)) for (int i = 0; i < gT; i++)
      if (g->verif_ctrl(i)->verif_state() == READY && gHanded[i] < gLoaded[i] && (gWorkerExited[i] || status.compare(0, 8, "DEADLOCK") == 0))
        gAsserts.push_back("the chunk loaded into buffer " + S(i) + " (" + S(gLoaded[i]) + " blocks, " + S(gHanded[i]) + " handed out) is owned by no worker: " + (gWorkerExited[i] ? "worker " + S(i) + " has returned" : "the buffer is READY, yet no thread can run (no worker is waiting for it)")); }
  for (auto &a : gAsserts) out += "A\tsched\tC14\t" + a + " -- " + gReq + "\n";
  out += "S\t" + status + "\n";
  std::string loads; for (auto &l : gLoads) loads += " " + l;
  std::string ivs; for (auto &i : gIntervals) ivs += " " + i;
  out += "P\tpipe " + S(gT) + " " + (gPad ? "1" : "0") + loads + " ;" + ivs + "\n";
  out += "N\t" + S((long)gIntervals.size()) + "\t" + S(gExports) + "\t" + S(vs::Sched::I().spurious) + "\n";
  out += "O\t" + hex(gOut) + "\n";
  size_t off = 0; while (off < out.size()) { ssize_t w = write(gResultFd, out.data() + off, out.size() - off); if (w <= 0) break; off += w; }
}

// the run does not finish (endless loop): report what the monitor has seen so far, then die (a second alarm kills a handler that gets stuck)
static void on_alarm(int) { signal(SIGALRM, SIG_DFL); alarm(2); flush_result("ALARM"); _exit(3); }
static void child_run(int T, bool pad, const bytes &input, uint64_t sseed, int strategy, int fd) {
  gT = T; gPad = pad; gResultFd = fd;
  gWorkerBusy.assign(T, 0); gIoBusy.assign(T, 0); gHanded.assign(T, 0); gLoaded.assign(T, 0); gWorkerExited.assign(T, 0);
  auto &SC = vs::Sched::I();
  SC.rng = sseed * 2654435761ull + 88172645463325252ull; SC.strategy = strategy;
  for (int i = 0; i < 3; i++) SC.change.push_back(5 + (long)(SC.next() % 200));
  SC.spur_budget = (sseed % 3 == 0) ? 8 : 0;        // a third of the schedules also inject spurious wake-ups into condition waits
  SC.on_switch = on_switch; SC.on_deadlock = on_deadlock;
  SC.ensure_main();
  MemFile in(input); FILE *fi = in.openr();
  cookie_io_functions_t io = {NULL, ck_write, NULL, ck_close};
  FILE *fo = fopencookie(NULL, "w", io); setvbuf(fo, NULL, _IONBF, 0);
  for (int i = 0; i < T; i++) gModes.push_back(new ToyMode(100ul * i));
  std::vector<Aesmode *> modes(gModes.begin(), gModes.end());
  buffergroup *g = buffergroup::get_instance();
  g->set_buffergroup((u32_t)T, fi, fo, pad);
  gLastObs = ""; on_switch(0);
  {
    multicry_master crym((u8_t)T);
    crym.run_multicry(modes.data(), [](std::string, size_t) {});
  }
  on_switch(0);
  unsigned live = bufferctrl::verif_live_num();
  buffergroup::del_instance();
  fflush(fo);
  std::string status = "DONE live=" + S(live);
  flush_result(status);
}

static long g_sched = 0, g_intervals = 0, g_failed = 0, g_failed_cfg = 0, g_spurious = 0;
static void run_schedule(int T, bool pad, const bytes &input, uint64_t sseed, int strategy) {
  if (g_failed >= 30 || g_failed_cfg >= 2) return;     // enough concrete failing schedules (per configuration / in total): stop exploring
  g_sched++;
  std::string id = "T=" + S(T) + " B=" + S(BSZ) + " pad=" + S(pad) + " input=" + hex(input) + " schedule-seed=" + S((long)sseed) + " strategy=" + S(strategy);
  gReq = id;
  trace_case("sched", id);
  alarm(0);
  int p[2]; if (pipe(p) != 0) abort();
  fflush(g_proto);
  pid_t pid = fork();
  if (pid == 0) { close(p[0]); gResultFd = p[1]; signal(SIGALRM, on_alarm); alarm(4); child_run(T, pad, input, sseed, strategy, p[1]); _exit(0); }
  close(p[1]);
  std::string res; char buf[65536]; ssize_t n; while ((n = read(p[0], buf, sizeof buf)) > 0) res.append(buf, n);
  close(p[0]); int st; waitpid(pid, &st, 0);
  std::string status, pipeReq, outhex; long nint = 0, nexp = 0, nspur = 0;
  size_t pos = 0;
  while (pos < res.size()) { size_t e = res.find('\n', pos); if (e == std::string::npos) e = res.size(); std::string ln = res.substr(pos, e - pos); pos = e + 1;
    if (ln.compare(0, 2, "A\t") == 0) fprintf(g_proto, "%s\n", ln.c_str());
    else if (ln.compare(0, 2, "S\t") == 0) status = ln.substr(2);
    else if (ln.compare(0, 2, "P\t") == 0) pipeReq = ln.substr(2);
    else if (ln.compare(0, 2, "N\t") == 0) sscanf(ln.c_str() + 2, "%ld\t%ld\t%ld", &nint, &nexp, &nspur);
    else if (ln.compare(0, 2, "O\t") == 0) outhex = ln.substr(2); }
  g_intervals += nint; g_spurious += nspur;
  if (status.compare(0, 4, "DONE") != 0 || !WIFEXITED(st)) { g_failed++; g_failed_cfg++; }
  if (status.compare(0, 8, "DEADLOCK") == 0) { emitA("sched", "C04", "deadlock: no runnable thread while some thread has not returned (" + status + ") " + id); }
  else if ((WIFSIGNALED(st) && WTERMSIG(st) == SIGALRM) || status.compare(0, 5, "ALARM") == 0) { emitA("sched", "C04", "the pipeline did not finish (endless loop) " + id); return; }
  else if (!WIFEXITED(st) || WEXITSTATUS(st) != 0 || status.compare(0, 4, "DONE") != 0) { emitA("sched", "C11", "the pipeline crashed under the scheduler (wait status " + S(st) + ") " + id); return; }
  if (status.compare(0, 4, "DONE") == 0) {
    if (status != "DONE live=0") emitA("sched", "C15", "live buffer counter not back to 0 after the run: " + status + " " + id);
    bytes want = reference(T, pad, input);
    if (hex(want) != outhex) { g_failed++; g_failed_cfg++; }
    if (hex(want) != outhex) emitA("sched", "C03", "output differs from the sequential reference under this schedule: got " + outhex + " want " + hex(want) + " " + id);
  }
  if (!pipeReq.empty()) {
    std::string real = "ok " + S(nint) + " * viol=0 nexp=" + S(nexp);
    emitM("sched", pipeReq, real);
  }
}

int main(int argc, char **argv) {
  proto_init();
  long seed = env_long("VERIF_SEED", 1);
  Rng rng((uint64_t)seed * 104729 + BSZ);
  (void)argc; (void)argv;
  size_t chunk = 16 * (size_t)BSZ;
  std::vector<size_t> lens = {2 * chunk + 7, 0, 5 * chunk + 3, 5, 16, chunk - 1, chunk, chunk + 1, 2 * chunk, 3 * chunk - 16, 3 * chunk};   // a multi-chunk input first
  int per = tier_thorough() ? 40 : 5;
  for (int T : {1, 2, 3, 4}) for (size_t n : lens) for (int pad = 0; pad < 2; pad++) {
    if (!tier_thorough() && T == 4 && n % 2) continue;
    g_failed_cfg = 0;
    bytes in = rng.padlike(n);
    if (!pad) { in.resize(n / 16 * 16 + (rng.below(4) == 0 ? rng.below(16) : 0)); if (in.size() >= 16 && rng.below(3)) in[in.size() / 16 * 16 - 1] = (unsigned char)(1 + rng.below(16)); }
    for (int k = 0; k < per; k++) run_schedule(T, pad, in, rng.next() % 1000000007ull, k % 2);
  }
  // the upper edge of the worker count: 15 and 16 workers with more chunks than workers (every ring position is loaded at least once)
  for (int T : {15, 16}) for (int pad = 0; pad < 2; pad++) { g_failed_cfg = 0; bytes in = rng.padlike(chunk * (size_t)(T + 2) + 5); if (!pad) in.resize(in.size() / 16 * 16);
    for (int k = 0; k < (tier_thorough() ? 6 : 2); k++) run_schedule(T, pad, in, rng.next() % 1000000007ull, k % 2); }
  emitI("sched", "schedules", S(g_sched)); emitI("sched", "intervals", S(g_intervals)); emitI("sched", "spurious_wakeups", S(g_spurious));
  fflush(g_proto);
  return 0;
}
