// Correspondence suites for the primitives: AES block (C09), mode streams (C10), hashes (C07), HMAC (C08), base64 (C16).
// Calls the repository's real code in-process and prints request/real-result pairs for the Lean driver.
#include "common.h"
#include <map>
#include "aes.h"
#include "tab.h"
#include "aesmode.h"
#include "hashmaster.h"
#include "hashbuffer.h"
#include "fheader.h"
#include "base64.h"

#ifndef WENCRY_VERIF_HBUF_SZ
#define WENCRY_VERIF_HBUF_SZ 0x80000
#endif
static const int HB = WENCRY_VERIF_HBUF_SZ;

static std::string S(long v) { return std::to_string(v); }

// ---------------- C09 ----------------
static unsigned g_noise = 0;
static void real_aes(bool enc, const unsigned char *key, unsigned char *blk) {
  alignas(16) unsigned char k[16], b[16];
  // every third call another cipher with a related key (one byte changed) is built and used just before: no effect allowed
  if (++g_noise % 3 == 0) { alignas(16) unsigned char k0[16], b0[16] = {0}; memcpy(k0, key, 16); k0[(g_noise / 3) % 16] ^= (unsigned char)(1 + g_noise % 255); if (g_noise % 2) { encryaes e0(k0); e0.runaes_128bit(b0); } else { decryaes d0(k0); d0.runaes_128bit(b0); } }
  memcpy(k, key, 16); memcpy(b, blk, 16);
  // the API takes byte pointers: every fourth call the key and the block live at addresses that are not multiples of 4 (or 16)
  if (g_noise % 4 == 1) { alignas(16) static unsigned char raw[96]; unsigned ko = 1 + g_noise % 15, bo = 33 + (g_noise / 4) % 15; unsigned char *k2 = raw + ko, *b2 = raw + bo; memcpy(k2, key, 16); memcpy(b2, blk, 16);
    if (enc) { encryaes e(k2); e.runaes_128bit(b2); } else { decryaes d(k2); d.runaes_128bit(b2); } memcpy(blk, b2, 16); return; }
  if (enc) { encryaes e(k); e.runaes_128bit(b); } else { decryaes d(k); d.runaes_128bit(b); }
  memcpy(blk, b, 16);
}
static void aes_case(const char *suite, const bytes &key, const bytes &blk) {
  trace_case(suite, "aes key=" + hex(key) + " blk=" + hex(blk));
  unsigned char c[16]; memcpy(c, blk.data(), 16);
  real_aes(true, key.data(), c);
  emitM(suite, "aes e " + hex(key) + " " + hex(blk), hex(c, 16));
  emitM(suite, "aesk e " + hex(key) + " " + hex(blk), hex(c, 16));
  emitO(suite, "saes e " + hex(key) + " " + hex(blk), hex(c, 16));
  unsigned char d[16]; memcpy(d, blk.data(), 16);
  real_aes(false, key.data(), d);
  emitM(suite, "aes d " + hex(key) + " " + hex(blk), hex(d, 16));
  emitO(suite, "saes d " + hex(key) + " " + hex(blk), hex(d, 16));
  // property oracle: decryption inverts encryption
  unsigned char r[16]; memcpy(r, c, 16);
  real_aes(false, key.data(), r);
  if (memcmp(r, blk.data(), 16) != 0) emitA(suite, "C09", "decrypt(encrypt(b))!=b key=" + hex(key) + " blk=" + hex(blk) + " got=" + hex(r, 16));
}
// A byte-wise AES used ONLY to choose inputs (never as an oracle: every verdict is the Lean model's / Spec.AES's): it lets the generator
// aim at inputs whose INTERNAL state at a given round has a structure random blocks never produce (zero or constant columns and rows).
namespace gen_aes {
  static unsigned char xt(unsigned char a) { return (unsigned char)((a << 1) ^ ((a & 0x80) ? 0x1b : 0)); }
  static unsigned char mul(unsigned char a, unsigned char b) { unsigned char r = 0; while (b) { if (b & 1) r ^= a; a = xt(a); b >>= 1; } return r; }
  static unsigned char SB[256], IS[256]; static bool inited = false;
  static void init() { if (inited) return; inited = true;
    for (int x = 0; x < 256; x++) { unsigned char inv = 0; if (x) for (int y = 1; y < 256; y++) if (mul((unsigned char)x, (unsigned char)y) == 1) { inv = (unsigned char)y; break; }
      unsigned char r = inv, t = inv; for (int i = 0; i < 4; i++) { t = (unsigned char)((t << 1) | (t >> 7)); r ^= t; } r ^= 0x63; SB[x] = r; IS[r] = (unsigned char)x; } }
  // state: byte i of the block is row i%4, column i/4 (FIPS-197)
  static void expand(const unsigned char *k, unsigned char rk[11][16]) { init(); memcpy(rk[0], k, 16); unsigned char rc = 1;
    for (int r = 1; r <= 10; r++) { unsigned char t[4] = { SB[rk[r-1][13]], SB[rk[r-1][14]], SB[rk[r-1][15]], SB[rk[r-1][12]] }; t[0] ^= rc; rc = xt(rc);
      for (int i = 0; i < 4; i++) rk[r][i] = rk[r-1][i] ^ t[i]; for (int i = 4; i < 16; i++) rk[r][i] = rk[r-1][i] ^ rk[r][i-4]; } }
  static void invShift(unsigned char *s) { unsigned char t[16]; for (int c = 0; c < 4; c++) for (int r = 0; r < 4; r++) t[4 * ((c + r) % 4) + r] = s[4 * c + r]; memcpy(s, t, 16); }
  static void invMix(unsigned char *s) { for (int c = 0; c < 4; c++) { unsigned char *a = s + 4 * c, b[4];
      for (int r = 0; r < 4; r++) b[r] = mul(a[r], 14) ^ mul(a[(r + 1) % 4], 11) ^ mul(a[(r + 2) % 4], 13) ^ mul(a[(r + 3) % 4], 9); memcpy(a, b, 4); } }
  // the plaintext whose state right before MixColumns of round `round` (1..9) under key k is `target`
  static bytes plaintext_for(const unsigned char *k, int round, const unsigned char *target) { unsigned char rk[11][16]; expand(k, rk); unsigned char s[16]; memcpy(s, target, 16);
    for (int r = round; r >= 1; r--) { if (r != round) invMix(s); invShift(s); for (int i = 0; i < 16; i++) s[i] = IS[s[i]]; for (int i = 0; i < 16; i++) s[i] ^= rk[r-1][i]; }
    return bytes(s, s + 16); }
}
static void suite_aes(Rng &rng) {
  const char *suite = "aes";
  // FIPS-197 appendix B and C.1
  aes_case(suite, unhex("2b7e151628aed2a6abf7158809cf4f3c"), unhex("3243f6a8885a308d313198a2e0370734"));
  aes_case(suite, unhex("000102030405060708090a0b0c0d0e0f"), unhex("00112233445566778899aabbccddeeff"));
  bytes zero(16, 0);
  aes_case(suite, zero, zero);
  // single-bit keys against the zero block and single-bit blocks under the zero key (all 128 positions each)
  for (int i = 0; i < 128; i++) { bytes k(16, 0); k[i / 8] = 0x80 >> (i % 8); aes_case(suite, k, zero); }
  for (int i = 0; i < 128; i++) { bytes b(16, 0); b[i / 8] = 0x80 >> (i % 8); aes_case(suite, zero, b); }
  // every byte value in every state position / key position family (indexes every table entry on several paths)
  for (int v = 0; v < 256; v++) { bytes b(16, (unsigned char)v); bytes k(16, (unsigned char)(255 - v)); aes_case(suite, k, b); }
  long n = tier_thorough() ? 100000 : 1500;
  for (long i = 0; i < n; i++) aes_case(suite, rng.buf(16), rng.buf(16));
  // structured internal states: for every round 1..9 the state entering MixColumns has zero / constant columns or zero rows (all 15 column
  // patterns, the four rows, constant columns); the block and its ciphertext are both used, so InvMixColumns sees the mirrored states too
  { std::vector<bytes> keys = { zero, unhex("000102030405060708090a0b0c0d0e0f"), rng.buf(16) }; if (tier_thorough()) for (int i = 0; i < 6; i++) keys.push_back(rng.buf(16));
    long made = 0;
    for (auto &k : keys) for (int round = 1; round <= 9; round++) {
      std::vector<bytes> targets;
      for (int mask = 1; mask < 16; mask++) { bytes t = rng.buf(16); for (int c = 0; c < 4; c++) if (mask & (1 << c)) memset(&t[4 * c], 0, 4); targets.push_back(t); }
      for (int row = 0; row < 4; row++) { bytes t = rng.buf(16); for (int c = 0; c < 4; c++) t[4 * c + row] = 0; targets.push_back(t); }
      for (int c = 0; c < 4; c++) { bytes t = rng.buf(16); memset(&t[4 * c], rng.below(256), 4); targets.push_back(t); }
      { bytes t(16, 0); t[0] = 0x52; t[5] = 0x52; t[10] = 0x52; t[15] = 0x52; targets.push_back(t); bytes u(16, (unsigned char)rng.below(256)); targets.push_back(u); }
      for (auto &t : targets) { bytes p = gen_aes::plaintext_for(k.data(), round, t.data()); aes_case(suite, k, p);
        unsigned char c[16]; memcpy(c, p.data(), 16); real_aes(true, k.data(), c); aes_case(suite, k, bytes(c, c + 16)); made += 2; } }
    emitI(suite, "structured_state_blocks", S(made)); }
  // cipher objects are values: a copy (copy construction, assignment, container growth) must keep computing AES under ITS key after the
  // original has been destroyed or rebuilt in place with another key, and a fresh object must not depend on objects created before it
  for (int i = 0; i < (tier_thorough() ? 400 : 60); i++) {
    bytes k1 = rng.buf(16), k2 = i % 3 == 0 ? k1 : rng.buf(16), blk = rng.buf(16);
    if (i % 3 == 1) { k2 = k1; k2[1 + 2 * rng.below(8)] ^= (unsigned char)(1 << rng.below(8)); }     // differs in one odd-indexed byte only
    if (i % 6 == 2) { k1[0] = 0; k2 = k1; k2[1 + rng.below(15)] ^= 0x40; }                            // equal up to and including a zero byte
    alignas(16) unsigned char a1[16], a2[16], b[16]; memcpy(a1, k1.data(), 16); memcpy(a2, k2.data(), 16);
    trace_case(suite, "object lifetime k1=" + hex(k1) + " k2=" + hex(k2) + " blk=" + hex(blk));
    { alignas(16) static unsigned char store[sizeof(encryaes) + 64];
      encryaes *orig = new (store) encryaes(a1); encryaes copy(*orig); orig->~encryaes(); memset(store, 0xA5, sizeof store); orig = new (store) encryaes(a2);
      memcpy(b, blk.data(), 16); copy.runaes_128bit(b); emitM(suite, "aes e " + hex(k1) + " " + hex(blk), hex(b, 16));
      memcpy(b, blk.data(), 16); orig->runaes_128bit(b); emitM(suite, "aes e " + hex(k2) + " " + hex(blk), hex(b, 16)); orig->~encryaes(); }
    { alignas(16) static unsigned char store[sizeof(decryaes) + 64];
      decryaes *orig = new (store) decryaes(a1); decryaes copy(*orig); orig->~decryaes(); memset(store, 0x5A, sizeof store); orig = new (store) decryaes(a2);
      memcpy(b, blk.data(), 16); copy.runaes_128bit(b); emitM(suite, "aes d " + hex(k1) + " " + hex(blk), hex(b, 16));
      memcpy(b, blk.data(), 16); orig->runaes_128bit(b); emitM(suite, "aes d " + hex(k2) + " " + hex(blk), hex(b, 16)); orig->~decryaes(); }
    { std::vector<encryaes> v; v.reserve(1); v.emplace_back(a1); for (int g = 0; g < 5; g++) v.emplace_back(a2);      // growth relocates the elements
      memcpy(b, blk.data(), 16); v[0].runaes_128bit(b); emitM(suite, "aes e " + hex(k1) + " " + hex(blk), hex(b, 16));
      encryaes e2(a2); e2 = v[0]; memcpy(b, blk.data(), 16); e2.runaes_128bit(b); emitM(suite, "aes e " + hex(k1) + " " + hex(blk), hex(b, 16)); }
  }
  // Gmul exhaustively for the seven constants the code uses
  static const int us[7] = {25, 1, 0, 223, 104, 238, 199};
  for (int u : us) for (int v = 0; v < 256; v++) {
    unsigned char r = Gmul(u, (unsigned char)v);
    emitM("gmul", "gmul " + S(u) + " " + S(v), S(r));
  }
  static const int cs[7] = {2, 3, 1, 14, 11, 13, 9};
  for (int j = 0; j < 7; j++) for (int v = 0; v < 256; v++) {
    unsigned char r = Gmul(us[j], (unsigned char)v);
    emitO("gmul", "sgmul " + S(cs[j]) + " " + S(v), S(r));
  }
}

// ---------------- C10 ----------------
static void mode_case(const char *suite, int type, const bytes &key, const bytes &iv, const std::vector<bytes> &segs) {
  for (int dir = 0; dir < 2; dir++) {
    bool enc = dir == 0;
    if (tracing()) { std::string d = "mode type=" + S(type) + " dir=" + S(dir) + " key=" + hex(key) + " iv=" + hex(iv); for (auto &sg : segs) d += " " + hex(sg); trace_case(suite, d); }
    alignas(16) unsigned char k[16]; memcpy(k, key.data(), 16);
    alignas(16) unsigned char v[16]; memcpy(v, iv.data(), 16);
    AesFactory f(k); f.loadiv(v);
    Aesmode *m = f.createCryMaster(enc, (u8_t)type);
    std::string req = std::string(enc ? "e " : "d ") + S(type) + " " + hex(key) + " " + hex(iv);
    std::string real;
    bytes allin, allout;
    if (m == NULL) real = "null";
    for (auto &sg : segs) {
      req += " " + hex(sg);
      if (m) {
        bytes o = sg;
        for (size_t off = 0; off + 16 <= o.size(); off += 16) {
          alignas(16) unsigned char blk[16]; memcpy(blk, &o[off], 16);
          m->runcry(blk);
          memcpy(&o[off], blk, 16);
        }
        real += (real.empty() ? "" : " ") + hex(o);
        allin.insert(allin.end(), sg.begin(), sg.end()); allout.insert(allout.end(), o.begin(), o.end());
      }
    }
    if (m && segs.empty()) real = "";
    emitM(suite, "mode " + req, real);
    if (type <= 4) emitO(suite, "smode " + req, real);
    // property oracle: the matching decryptor restores the input when fed the same stream in the same order
    if (m && enc) {
      AesFactory g(k); g.loadiv(v);
      Aesmode *dm = g.createCryMaster(false, (u8_t)type);
      bytes back = allout;
      for (size_t off = 0; off + 16 <= back.size(); off += 16) {
        alignas(16) unsigned char blk[16]; memcpy(blk, &back[off], 16);
        dm->runcry(blk);
        memcpy(&back[off], blk, 16);
      }
      if (back != allin) emitA(suite, "C10", "decryptor does not invert encryptor type=" + S(type) + " key=" + hex(key) + " iv=" + hex(iv) + " in=" + hex(allin));
      delete dm;
    }
    delete m;
  }
}
static std::vector<bytes> split_segs(Rng &rng, const bytes &all) {
  std::vector<bytes> segs; size_t nb = all.size() / 16, i = 0;
  while (i < nb) { size_t k = 1 + rng.below((uint32_t)(nb - i)); if (rng.below(3) == 0) k = nb - i; segs.push_back(bytes(all.begin() + 16 * i, all.begin() + 16 * (i + k))); i += k; }
  if (rng.below(4) == 0) segs.push_back(bytes());
  return segs;
}
static void suite_mode(Rng &rng) {
  const char *suite = "mode";
  // SP 800-38A appendix F: key, IV / initial counter, four plaintext blocks
  bytes key = unhex("2b7e151628aed2a6abf7158809cf4f3c");
  bytes pt = unhex("6bc1bee22e409f96e93d7e117393172aae2d8a571e03ac9c9eb76fac45af8e5130c81c46a35ce411e5fbc1191a0a52eff69f2445df4f9b17ad2b417be66c3710");
  bytes iv = unhex("000102030405060708090a0b0c0d0e0f"), ctr = unhex("f0f1f2f3f4f5f6f7f8f9fafbfcfdfeff");
  for (int t = 0; t <= 4; t++) mode_case(suite, t, key, t == 2 ? ctr : iv, {pt});
  // unknown types: the factory returns NULL
  mode_case(suite, 5, key, iv, {}); mode_case(suite, 255, key, iv, {});
  // IVs ending in k bytes 0xFF for every k = 0..16 (every carry pattern), all modes
  for (int k = 0; k <= 16; k++) {
    bytes v = rng.buf(16); for (int j = 0; j < k; j++) v[15 - j] = 0xFF; if (k < 16 && v[15 - k] == 0xFF) v[15 - k] = 0x7e;
    for (int t = 0; t <= 4; t++) { bytes all = rng.buf(16 * 4); mode_case(suite, t, rng.buf(16), v, split_segs(rng, all)); }
  }
  // every stream length 0..40
  int maxlen = 40;
  for (int n = 0; n <= maxlen; n++) for (int t = 0; t <= 4; t++) {
    if (!tier_thorough() && n > 6 && (n + t) % 5 != 0) continue;
    bytes all = rng.buf(16 * n); mode_case(suite, t, rng.buf(16), rng.buf(16), split_segs(rng, all));
  }
  // streams with zero blocks and repeated blocks (first block zero, all zero, a block repeated, zero IV / zero key)
  for (int t = 0; t <= 4; t++) for (int pat = 0; pat < 6; pat++) for (int n : {1, 2, 3, 5}) {
    bytes all = rng.buf(16 * n), keyp = rng.buf(16), ivp = rng.buf(16);
    if (pat == 0) std::fill(all.begin(), all.begin() + 16, 0);                    // first block zero
    if (pat == 1) std::fill(all.begin(), all.end(), 0);                           // all blocks zero
    if (pat == 2) for (int i = 16; i < 16 * n; i++) all[i] = all[i % 16];         // one block repeated
    if (pat == 3) { std::fill(all.begin(), all.end(), 0); std::fill(ivp.begin(), ivp.end(), 0); }
    if (pat == 4) { std::fill(keyp.begin(), keyp.end(), 0); std::fill(all.begin(), all.begin() + 16, 0); }
    if (pat == 5) std::fill(all.begin(), all.end(), 0xFF);
    mode_case(suite, t, keyp, ivp, split_segs(rng, all));
  }
  // several stream objects made by ONE factory and used alternately (as the pipeline's T workers do): each must behave as if alone
  for (int rep = 0; rep < (tier_thorough() ? 200 : 30); rep++) {
    int t = rep % 5, n = 2 + rng.below(3), nb = 1 + rng.below(5); bool enc = rng.below(2);
    bytes keyp = rng.buf(16), ivp = rng.buf(16);
    if (rep % 7 == 0) std::fill(ivp.begin() + 8, ivp.end(), 0xFF);
    alignas(16) unsigned char k[16], v[16]; memcpy(k, keyp.data(), 16); memcpy(v, ivp.data(), 16);
    AesFactory f(k); f.loadiv(v);
    std::vector<Aesmode *> ms; for (int i = 0; i < n; i++) ms.push_back(f.createCryMaster(enc, (u8_t)t));
    std::vector<bytes> in(n), out(n);
    for (int i = 0; i < n; i++) { in[i] = rng.buf(16 * nb); if (rng.below(3) == 0) std::fill(in[i].begin(), in[i].begin() + 16, 0); out[i] = in[i]; }
    trace_case(suite, "interleaved streams type=" + S(t) + " n=" + S(n) + " key=" + hex(keyp) + " iv=" + hex(ivp));
    for (int b = 0; b < nb; b++) for (int i = 0; i < n; i++) { int j = (i + b) % n; alignas(16) unsigned char raw[40]; unsigned char *blk = raw + (rep % 2 ? 1 + (b + i) % 15 : 0); memcpy(blk, &out[j][16 * b], 16); ms[j]->runcry(blk); memcpy(&out[j][16 * b], blk, 16); }
    for (int i = 0; i < n; i++) { std::string req = std::string(enc ? "e " : "d ") + S(t) + " " + hex(keyp) + " " + hex(ivp) + " " + hex(in[i]); emitM(suite, "mode " + req, hex(out[i])); emitO(suite, "smode " + req, hex(out[i])); delete ms[i]; }
  }
  long extra = tier_thorough() ? 3000 : 150;
  for (long i = 0; i < extra; i++) { bytes all = rng.buf(16 * rng.below(12)); mode_case(suite, rng.below(5), rng.buf(16), rng.buf(16), split_segs(rng, all)); }
  if (tier_thorough()) { // a stream crossing 2^16 blocks with a counter about to carry through several bytes
    bytes v = rng.buf(16); v[15] = 0xF0; v[14] = 0xFF; v[13] = 0xFF; v[12] = 0xFF;
    bytes all(16 * 70000, 0x5a); mode_case(suite, 2, rng.buf(16), v, {all});
  }
}

// ---------------- C07 ----------------
static std::string real_string_hash(int alg, const bytes &m) {
  trace_case("hash", "string alg=" + S(alg) + " m=" + hex(m));
  HashFactory hf; Hashmaster *h = hf.getHasher(hf.getType((u8_t)alg));
  if (!h) return "null";
  static const unsigned char none = 0;
  unsigned char out[64];
  static unsigned odd = 0;      // every other message lives at an address that is not a multiple of 4 (the API takes a byte pointer)
  if (++odd % 2 && !m.empty()) { std::vector<unsigned char> raw(m.size() + 8); unsigned char *q = raw.data() + 1 + (odd / 2) % 3; memcpy(q, m.data(), m.size()); h->getStringHash(q, (u32_t)m.size(), out); }
  else h->getStringHash(m.empty() ? &none : m.data(), (u32_t)m.size(), out);
  std::string r = hex(out, h->gethlen()); delete h; return r;
}
static std::string real_file_hash(int alg, const bytes &file, size_t pos, const bytes *prefix) {
  trace_case("fhash", "file alg=" + S(alg) + " H=" + S(HB) + " pos=" + S((long)pos) + " prefix=" + (prefix ? hex(*prefix) : std::string("-")) + " file=" + hex(file));
  HashFactory hf; Hashmaster *h = hf.getHasher(hf.getType((u8_t)alg));
  if (!h) return "null";
  MemFile mf(file); FILE *fp = mf.openr(); fseek(fp, (long)pos, SEEK_SET);
  unsigned char pre[64]; if (prefix) memcpy(pre, prefix->data(), 64);
  filebuffer64 *buf = new filebuffer64(fp, [](std::string, size_t) {}, prefix ? pre : NULL);
  unsigned char out[64]; h->getFileHash(buf, out);
  std::string r = hex(out, h->gethlen()); delete buf; delete h; fclose(fp); return r;
}
static void hash_string_case(int alg, const bytes &m) {
  std::string r = real_string_hash(alg, m);
  emitM("hash", "hash " + S(alg) + " " + hex(m), r);
  emitO("hash", "shash " + S(alg) + " " + hex(m), r);
}
static void hash_file_case(int alg, const bytes &file, size_t pos, const bytes *prefix) {
  std::string r = real_file_hash(alg, file, pos, prefix);
  emitM("fhash", "fhash " + S(alg) + " " + S(HB) + " " + (prefix ? hex(*prefix) : std::string("-")) + " " + hex(file) + " " + S((long)pos), r);
  bytes msg; if (prefix) msg = *prefix; if (pos < file.size()) msg.insert(msg.end(), file.begin() + pos, file.end());
  emitO("fhash", "shash " + S(alg) + " " + hex(msg), r);
}
static void suite_hash(Rng &rng) {
  // memory entry point: every length 0..257 (every residue mod 64, up to four blocks) for each algorithm
  for (int alg = 0; alg < 3; alg++) for (int n = 0; n <= 257; n++) hash_string_case(alg, rng.buf(n));
  for (int alg = 0; alg < 3; alg++) { hash_string_case(alg, bytes()); bytes a(3); a[0] = 'a'; a[1] = 'b'; a[2] = 'c'; hash_string_case(alg, a); }
  hash_string_case(3, bytes(5, 1)); // unknown type: factory returns NULL
  // one hasher object used for several messages in a row, memory and file entry points mixed: every digest as if the object were new
  for (int alg = 0; alg < 3; alg++) for (int rep = 0; rep < (tier_thorough() ? 40 : 6); rep++) {
    HashFactory hf; Hashmaster *h = hf.getHasher(hf.getType((u8_t)alg)); static const unsigned char none = 0;
    for (int step = 0; step < 5; step++) {
      bytes m = rng.buf(step == 0 ? 56 + rng.below(10) : rng.below(150)); unsigned char out[64];
      trace_case("hash", "reused hasher alg=" + S(alg) + " step=" + S(step) + " m=" + hex(m));
      if ((rep + step) % 2 == 0 || HB > 64) { h->getStringHash(m.empty() ? &none : m.data(), (u32_t)m.size(), out); }
      else { MemFile mf(m); FILE *fp = mf.openr(); filebuffer64 *buf = new filebuffer64(fp, [](std::string, size_t) {}, NULL); h->getFileHash(buf, out); delete buf; fclose(fp); }
      std::string r = hex(out, h->gethlen()); emitM("hash", "hash " + S(alg) + " " + hex(m), r); emitO("hash", "shash " + S(alg) + " " + hex(m), r);
    }
    delete h;
  }
  // the digest written over (part of) its own message -- x = H(x) chains, a digest stored inside the record it covers: the result buffer may
  // overlap the message at any offset (the code writes the result only after the last message byte has been consumed)
  for (int alg = 0; alg < 3; alg++) { HashFactory hf; Hashmaster *h = hf.getHasher(hf.getType((u8_t)alg)); size_t hl = h->gethlen();
    for (size_t n : {hl, hl + 4, (size_t)55, (size_t)56, (size_t)64, (size_t)65, (size_t)100, (size_t)129, (size_t)200}) { if (n < hl) continue;
      bytes m = rng.buf(n);
      for (size_t off : {(size_t)0, (size_t)4, (n - hl) / 2, n - hl}) { if (off + hl > n) continue;
        bytes w = m; trace_case("hash", "digest written into its own message alg=" + S(alg) + " n=" + S((long)n) + " at offset " + S((long)off) + " m=" + hex(m));
        h->getStringHash(w.data(), (u32_t)n, w.data() + off);
        std::string r = hex(w.data() + off, hl); emitM("hash", "hash " + S(alg) + " " + hex(m), r); emitO("hash", "shash " + S(alg) + " " + hex(m), r);
        for (size_t i = 0; i < n; i++) if ((i < off || i >= off + hl) && w[i] != m[i]) { emitA("hash", "C07", "hashing with the result inside the message changed message byte " + S((long)i) + " outside the result area (alg=" + S(alg) + " n=" + S((long)n) + " offset=" + S((long)off) + ")"); break; } } }
    delete h; }
  // file entry point through the real filebuffer64 with refill size HB units: all lengths around the refill boundaries
  if (HB <= 64) {
    std::vector<long> lens;
    for (long n = 0; n <= 130; n++) lens.push_back(n);
    for (int mult = 1; mult <= 3; mult++) for (long d : {-65L, -64L, -63L, -9L, -8L, -1L, 0L, 1L, 55L, 56L, 57L, 63L, 64L, 65L}) { long n = 64L * HB * mult + d; if (n >= 0) lens.push_back(n); }
    for (int alg = 0; alg < 3; alg++) for (long n : lens) {
      bytes f = rng.buf(n);
      hash_file_case(alg, f, 0, NULL);
      bytes pre = rng.buf(64); hash_file_case(alg, f, 0, &pre);
      if (n >= 3) { size_t pos = 1 + rng.below((uint32_t)std::min<long>(n - 1, 70)); hash_file_case(alg, f, pos, rng.below(2) ? &pre : NULL); }
    }
  }
}

// digests must not depend on what other threads hash at the same time (each thread has its own hasher object and its own data)
#include <thread>
#include <atomic>
static void suite_hashmt(Rng &rng) {
  const int NT = 8; const int NM = 24;
  std::vector<bytes> msgs; for (int i = 0; i < NM; i++) msgs.push_back(rng.buf(i < 12 ? 50 + i : (i * 11) % 140));
  std::vector<std::string> want[3];
  for (int alg = 0; alg < 3; alg++) for (auto &m : msgs) { std::string r = real_string_hash(alg, m); want[alg].push_back(r); emitO("hashmt", "shash " + S(alg) + " " + hex(m), r); }
  std::atomic<long> total(0), bad(0); std::atomic<int> firstbad_alg(-1), firstbad_msg(-1);
  double secs = tier_thorough() ? 6.0 : 1.0;
  auto t0 = std::chrono::steady_clock::now();
  std::vector<std::thread> th;
  for (int t = 0; t < NT; t++) th.emplace_back([&, t]() {
    HashFactory hf; Hashmaster *h[3]; for (int a = 0; a < 3; a++) h[a] = hf.getHasher(hf.getType((u8_t)a));
    static const unsigned char none = 0; unsigned char out[64]; long n = 0;
    while (std::chrono::duration<double>(std::chrono::steady_clock::now() - t0).count() < secs) {
      for (int a = 0; a < 3; a++) for (int i = 0; i < NM; i++) { const bytes &m = msgs[(i + t) % NM];
        h[a]->getStringHash(m.empty() ? &none : m.data(), (u32_t)m.size(), out); n++;
        if (hex(out, h[a]->gethlen()) != want[a][(i + t) % NM]) { bad++; int e = -1; if (firstbad_alg.compare_exchange_strong(e, a)) firstbad_msg = (i + t) % NM; } } }
    total += n; for (int a = 0; a < 3; a++) delete h[a]; });
  for (auto &x : th) x.join();
  if (bad > 0) emitA("hashmt", "C07", S(bad) + " of " + S(total) + " digests computed while other threads were hashing differ from the digest of the same message computed alone; first: alg=" + S(firstbad_alg) + " msg=" + hex(msgs[firstbad_msg]) + " (" + S(NT) + " threads, one hasher object per thread)");
  emitI("hashmt", "concurrent_digests", S(total));
}

// first use in a fresh process image by several threads at once (one-time initialisation must not race): the child is this binary
// re-executed in "firstuse" mode; its eight threads start together and each does its first AES / mode / hash call; the parent compares
// with its own sequential results
static std::string g_self_exe; static long g_stagger = 0;
static std::string firstuse_work(int t, std::atomic<int> *ready = NULL, std::atomic<bool> *go = NULL) {      // deterministic work of thread t, result as hex
  Rng r(777 + t); std::string out; out.reserve(4096);
  alignas(16) unsigned char k0[16], b0[16]; { bytes key = r.buf(16), blk = r.buf(16); memcpy(k0, key.data(), 16); memcpy(b0, blk.data(), 16); }
  { encryaes e(k0); decryaes d(k0);             // the objects exist; what follows the barrier is the first block operation of the process
    if (ready) (*ready)++;
    if (go) { while (!*go) { } for (volatile long i = 0; i < (long)t * g_stagger; i++) { } }   // released together, then staggered by a few hundred nanoseconds per thread: a one-time initialisation that is still in progress in one thread can be observed by the next
    if (t % 2) { e.runaes_128bit(b0); out += hex(b0, 16); d.runaes_128bit(b0); out += hex(b0, 16); }
    else { d.runaes_128bit(b0); out += hex(b0, 16); e.runaes_128bit(b0); out += hex(b0, 16); } }
  for (int i = 0; i < 6; i++) { bytes key = r.buf(16), blk = r.buf(16); alignas(16) unsigned char k[16], b[16]; memcpy(k, key.data(), 16); memcpy(b, blk.data(), 16);
    { encryaes e(k); e.runaes_128bit(b); } out += hex(b, 16); { decryaes d(k); d.runaes_128bit(b); } out += hex(b, 16); }
  { bytes key = r.buf(16), iv = r.buf(16), data = r.buf(48); alignas(16) unsigned char k[16], v[16]; memcpy(k, key.data(), 16); memcpy(v, iv.data(), 16);
    for (int ty = 0; ty < 5; ty++) { AesFactory f(k); f.loadiv(v); Aesmode *m = f.createCryMaster(true, (u8_t)ty); bytes o = data; for (size_t off = 0; off < 48; off += 16) { alignas(16) unsigned char blk[16]; memcpy(blk, &o[off], 16); m->runcry(blk); memcpy(&o[off], blk, 16); } delete m; out += hex(o); } }
  for (int a = 0; a < 3; a++) { bytes m = r.buf(70 + t); HashFactory hf; Hashmaster *h = hf.getHasher(hf.getType((u8_t)a)); unsigned char d[64]; h->getStringHash(m.data(), (u32_t)m.size(), d); out += hex(d, h->gethlen()); delete h; }
  { unsigned char o[64]; bytes m = r.buf(16); hex_to_base64(m.data(), 16, o); out += hex(o, 25); }
  return out;
}
static int firstuse_child() {
  const int NT = 12; std::vector<std::string> res(NT); std::atomic<int> ready(0); std::atomic<bool> go(false);
  std::vector<std::thread> th;
  for (int t = 0; t < NT; t++) th.emplace_back([&, t]() { res[t] = firstuse_work(t, &ready, &go); });
  while (ready < NT) { } go = true; for (auto &x : th) x.join();
  std::string all; for (auto &x : res) all += x + "\n";
  size_t off = 0; while (off < all.size()) { ssize_t w = write(3, all.data() + off, all.size() - off); if (w <= 0) break; off += w; }
  return 0;
}
static void suite_firstuse(Rng &rng) {
  (void)rng; const int NT = 12; std::vector<std::string> want; for (int t = 0; t < NT; t++) want.push_back(firstuse_work(t));
  long procs = tier_thorough() ? 400 : 80, bad = 0; std::string firstbad;
  for (long i = 0; i < procs; i++) {
    int p[2]; if (pipe(p) != 0) abort(); fflush(g_proto);
    pid_t pid = fork();
    if (pid == 0) { dup2(p[1], 3); close(p[0]); if (p[1] != 3) close(p[1]); static const char *stag[] = {"0", "15", "40", "90", "200", "450", "1000", "2500"}; char *av[] = {(char *)g_self_exe.c_str(), (char *)"firstuse-child", (char *)stag[i % 8], NULL}; execv(g_self_exe.c_str(), av); _exit(126); }
    close(p[1]); std::string got; char buf[8192]; ssize_t n; while ((n = read(p[0], buf, sizeof buf)) > 0) got.append(buf, n); close(p[0]); int st; waitpid(pid, &st, 0);
    std::string exp; for (auto &x : want) exp += x + "\n";
    if (!WIFEXITED(st) || WEXITSTATUS(st) != 0) { bad++; if (firstbad.empty()) firstbad = "the child crashed (wait status " + S(st) + ")"; }
    else if (got != exp) { bad++; if (firstbad.empty()) { size_t d = 0; while (d < got.size() && d < exp.size() && got[d] == exp[d]) d++; firstbad = "results differ from the sequential ones at character " + S((long)d); } }
  }
  if (bad) emitA("firstuse", "C09", S(bad) + " of " + S(procs) + " fresh processes whose twelve threads make their FIRST AES / mode / hash / base64 calls at the same time computed wrong results (" + firstbad + "); each thread has its own objects");
  emitI("firstuse", "fresh_processes", S(procs));
}

// a message of 2^29+61 bytes (bit length beyond 32 bits) through the memory entry point, thorough tier only; reference digests from hashlib
static void suite_hashbig(Rng &rng) {
  (void)rng; if (!tier_thorough()) { emitI("hashbig", "skipped", "quick tier"); return; }
  size_t n = ((size_t)1 << 29) + 61; std::vector<unsigned char> m(n); for (size_t i = 0; i < n; i++) m[i] = (unsigned char)(i % 251);
  static const char *want[3] = {"b997c2088dda80d2f1e8a079965074a6d01b721f", "94ac13603436a4b70682234f804421e5", "74775216e9ad833812ff62243043618fbe6e089c04137a33db8179f01ec17046"};
  for (int alg = 0; alg < 3; alg++) { trace_case("hashbig", "alg=" + S(alg) + " message m[i] = i % 251 of 2^29+61 bytes"); alarm(600);
    HashFactory hf; Hashmaster *h = hf.getHasher(hf.getType((u8_t)alg)); unsigned char d[64]; h->getStringHash(m.data(), (u32_t)n, d); std::string got = hex(d, h->gethlen()); delete h;
    if (got != want[alg]) emitA("hashbig", "C07", "digest of the 2^29+61-byte message m[i] = i % 251 (alg " + S(alg) + ") is " + got + ", the standard one (hashlib) is " + want[alg]); }
  emitI("hashbig", "big_messages", "3");
}

// HMAC over a region of 2^29 bytes (bit length of the inner hash beyond 32 bits), thorough tier only; reference tags from Python's hmac
static void suite_hmacbig(Rng &rng) {
  (void)rng; if (!tier_thorough()) { emitI("hmacbig", "skipped", "quick tier"); return; }
  static const char *want[3] = {"bec166b5f244c975d34506e0fdc35a5e444fa40d", "3404a61ad9810b1ae1f5fa6e1bf2a6bf", "165ebd62bd470e75915e25044c3974eeef5cb761f97893935a1f895bf3192cde"};
  alignas(16) unsigned char k[16]; for (int i = 0; i < 16; i++) k[i] = (unsigned char)(17 * i);
  for (int h = 0; h < 3; h++) { trace_case("hmacbig", "h=" + S(h) + " 2^29 zero bytes"); alarm(600);
    int fd = memfd_create("big", 0); if (ftruncate(fd, (off_t)1 << 29) != 0) { close(fd); continue; } FILE *fp = fdopen(fd, "rb");
    unsigned char tag[64] = {0}; { hmac hm; hm.gethmac((u8_t)h, k, fp, tag); } fclose(fp);
    int hlen = h == 0 ? 20 : h == 1 ? 16 : 32; std::string got = hex(tag, hlen);
    if (got != want[h]) emitA("hmacbig", "C08", "tag over 2^29 zero bytes (hash mode " + S(h) + ", key 00 11 .. ff) is " + got + ", RFC 2104 (Python hmac) gives " + want[h]); }
  emitI("hmacbig", "big_regions", "3");
}
// one CTR stream object driven through 2^27 + 4 blocks (2 GiB), thorough tier only. Oracle: SP 800-38A CTR is position based —
// block j of the stream started at IV equals block 0 of a stream started at IV + j (Props/C10 `ctr_position_law`): fresh objects give the reference
static void suite_ctrlong(Rng &rng) {
  if (!tier_thorough()) { emitI("ctrlong", "skipped", "quick tier"); return; }
  bytes key = rng.buf(16), iv = rng.buf(16); iv[15] = 0xFE; iv[14] = 0xFF; iv[13] = 0xFF;
  alignas(16) unsigned char k[16], v[16]; memcpy(k, key.data(), 16); memcpy(v, iv.data(), 16);
  AesFactory f(k); f.loadiv(v); Aesmode *m = f.createCryMaster(true, 2);
  const unsigned long N = (1ul << 27) + 4; std::vector<unsigned long> probes = {0, 1, 2, 255, 256, 257, 65535, 65536, (1ul << 24), (1ul << 27) - 2, (1ul << 27) - 1, (1ul << 27), (1ul << 27) + 1, (1ul << 27) + 3};
  std::map<unsigned long, std::string> got; alignas(16) unsigned char blk[16];
  trace_case("ctrlong", "CTR stream of 2^27+4 blocks key=" + hex(key) + " iv=" + hex(iv)); alarm(1500);      // a long case: its own watchdog
  for (unsigned long j = 0; j < N; j++) { memset(blk, 0, 16); m->runcry(blk); if (std::find(probes.begin(), probes.end(), j) != probes.end()) got[j] = hex(blk, 16); }
  delete m;
  for (unsigned long j : probes) {      // IV + j, big endian
    unsigned char w[16]; memcpy(w, v, 16); unsigned long c = j; for (int i = 15; i >= 0 && c; i--) { unsigned long t = w[i] + (c & 0xFF); w[i] = (unsigned char)t; c = (c >> 8) + (t >> 8); }
    alignas(16) unsigned char v2[16]; memcpy(v2, w, 16); AesFactory f2(k); f2.loadiv(v2); Aesmode *m2 = f2.createCryMaster(true, 2); memset(blk, 0, 16); m2->runcry(blk); delete m2;
    if (hex(blk, 16) != got[j]) emitA("ctrlong", "C10", "keystream block " + S((long)j) + " of a CTR stream differs from the first block of a stream started at IV + " + S((long)j) + " key=" + hex(key) + " iv=" + hex(iv)); }
  // and no two of the probed keystream blocks are equal
  for (auto &a : got) for (auto &b : got) if (a.first < b.first && a.second == b.second) emitA("ctrlong", "C18", "keystream blocks " + S((long)a.first) + " and " + S((long)b.first) + " of one CTR stream are equal key=" + hex(key) + " iv=" + hex(iv));
  emitI("ctrlong", "blocks", S((long)N));
}

// ---------------- C08 ----------------
static void suite_hmac(Rng &rng) {
  if (HB > 64) return;
  const char *suite = "hmac";
  std::vector<long> lens;
  for (long n = 0; n <= 70; n++) lens.push_back(n);
  for (long n : {119L, 120L, 127L, 128L, 129L, 183L, 184L, 191L, 192L, 200L}) lens.push_back(n);
  for (long d : {-1L, 0L, 1L}) { lens.push_back(64L * HB - 64 + d > 0 ? 64L * HB - 64 + d : 5); lens.push_back(64L * HB + d); lens.push_back(128L * HB + d); }
  for (int h = 0; h < 3; h++) for (long n : lens) {
    bytes key = rng.buf(16), file = rng.buf(n + 8); size_t pos = rng.below(9); if (pos > file.size()) pos = 0;
    alignas(16) unsigned char k[16]; memcpy(k, key.data(), 16);
    trace_case(suite, "hmac h=" + S(h) + " key=" + hex(key) + " pos=" + S((long)pos) + " file=" + hex(file));
    unsigned char tag[64] = {0};
    { MemFile mf(file); FILE *fp = mf.openr(); fseek(fp, (long)pos, SEEK_SET); hmac hm; hm.gethmac((u8_t)h, k, fp, tag); fclose(fp); }
    int hlen = h == 0 ? 20 : h == 1 ? 16 : 32;
    std::string r = hex(tag, hlen);
    emitM(suite, "hmac " + S(h) + " " + S(HB) + " " + hex(key) + " " + hex(file) + " " + S((long)pos), r);
    bytes msg(file.begin() + pos, file.end());
    emitO(suite, "shmac " + S(h) + " " + hex(key) + " " + hex(msg), r);
    // comparison: equal tag accepted; a tag differing in exactly one bit rejected, at every bit position (sampled per case, complete over the suite)
    unsigned char stored[64]; memset(stored, 0, 64); memcpy(stored, tag, hlen);
    unsigned noise = 0;
    auto cmp = [&](const unsigned char *st) {
      // now and then the correct tag is checked (successfully) or another tag is computed with a related key just before: no effect allowed
      if (++noise % 4 == 0) { MemFile mf0(file); FILE *f0 = mf0.openr(); fseek(f0, (long)pos, SEEK_SET); hmac h0; if (noise % 8 == 0) { unsigned char t0[64]; alignas(16) unsigned char k0[16]; memcpy(k0, k, 16); k0[noise % 16] ^= 1; h0.gethmac((u8_t)h, k0, f0, t0); } else if (!h0.cmphmac((u8_t)h, k, f0, stored)) emitA("cmp", "C08", "equal tag rejected on a repeated check h=" + S(h)); fclose(f0); }
      MemFile mf(file); FILE *fp = mf.openr(); fseek(fp, (long)pos, SEEK_SET); hmac hm; bool ok = hm.cmphmac((u8_t)h, k, fp, st); fclose(fp); return ok; };
    bool ok = cmp(stored);
    emitM("cmp", "cmp " + S(h) + " " + S(HB) + " " + hex(key) + " " + hex(file) + " " + S((long)pos) + " " + hex(stored, 64), ok ? "1" : "0");
    if (!ok) emitA("cmp", "C08", "equal tag rejected h=" + S(h) + " key=" + hex(key) + " msg=" + hex(msg));
    bool all = (n % 23 == 0) || tier_thorough();
    for (int bit = 0; bit < hlen * 8; bit++) {
      if (!all && (bit + n) % 17 != 0 && bit != hlen * 8 - 1 && bit != 0) continue;
      unsigned char st2[64]; memcpy(st2, stored, 64); st2[bit / 8] ^= (unsigned char)(1 << (bit % 8));
      bool ok2 = cmp(st2);
      if (ok2) emitA("cmp", "C08", "tag with one flipped bit accepted h=" + S(h) + " bit=" + S(bit) + " key=" + hex(key) + " msg=" + hex(msg));
      if (bit % 37 == 0) emitM("cmp", "cmp " + S(h) + " " + S(HB) + " " + hex(key) + " " + hex(file) + " " + S((long)pos) + " " + hex(st2, 64), ok2 ? "1" : "0");
    }
    // two flips that cancel under xor- or sum-accumulating comparisons (bit 7 of two different tag bytes): must be rejected
    for (int rep = 0; rep < 6; rep++) {
      int i = rng.below(hlen), j = rng.below(hlen); if (i == j) j = (i + 1) % hlen;
      unsigned char st4[64]; memcpy(st4, stored, 64); st4[i] ^= 0x80; st4[j] ^= 0x80;
      bool ok4 = cmp(st4);
      if (ok4) emitA("cmp", "C08", "tag with two flipped bits (bytes " + S(i) + "," + S(j) + ") accepted h=" + S(h) + " key=" + hex(key) + " msg=" + hex(msg));
      if (rep == 0) emitM("cmp", "cmp " + S(h) + " " + S(HB) + " " + hex(key) + " " + hex(file) + " " + S((long)pos) + " " + hex(st4, 64), ok4 ? "1" : "0");
      unsigned char st5[64]; memcpy(st5, stored, 64); st5[i] = (unsigned char)(st5[i] + 1 + rep); st5[j] = (unsigned char)(st5[j] - 1 - rep);
      if (memcmp(st5, stored, hlen) != 0 && cmp(st5)) emitA("cmp", "C08", "tag with two compensating byte changes accepted h=" + S(h) + " key=" + hex(key) + " msg=" + hex(msg));
    }
    // bytes after the tag do not matter
    { unsigned char st3[64]; memcpy(st3, stored, 64); for (int i = hlen; i < 64; i++) st3[i] = (unsigned char)rng.next(); if (!cmp(st3)) emitA("cmp", "C08", "bytes beyond the tag influence the comparison h=" + S(h)); }
  }
}

// ---------------- C16 ----------------
static std::string real_b64e(const bytes &m) {
  trace_case("b64e", "encode m=" + hex(m));
  std::vector<unsigned char> out(m.size() * 2 + 16, 0xAA);
  hex_to_base64(m.data(), (int)m.size(), out.data());
  size_t n = strlen((char *)out.data());
  return hex(out.data(), n + 1);
}
static void b64_enc_case(const bytes &m) {
  std::string r = real_b64e(m);
  emitM("b64e", "b64e " + hex(m), r);
  emitO("b64e", "sb64e " + hex(m), r);
  // decoder inverts encoder (decode into a buffer of exactly the right size: ASan guards the end)
  bytes enc = unhex(r); enc.pop_back();
  bool high = false; for (auto c : enc) if (c >= 128) high = true;
  if (!high) {
    unsigned char *out = new unsigned char[m.size() + 1];
    bool ok = base64_to_hex(enc.data(), (int)enc.size(), out);
    if (!ok || memcmp(out, m.data(), m.size()) != 0) emitA("b64d", "C16", "decode(encode(m))!=m m=" + hex(m));
    emitM("b64d", "b64d " + hex(enc), std::string("ok:") + hex(out, m.size()));
    delete[] out;
  }
}
static void key_case(const bytes &s) {
  // is_valid_b64 is called with strlen(optarg): the string ends at its first NUL
  bytes str = s; auto z = std::find(str.begin(), str.end(), 0); str.erase(z, str.end());
  std::vector<unsigned char> c(str.begin(), str.end()); c.push_back(0);
  trace_case("keyok", "key string=" + hex(str));
  bool ok = is_valid_b64(c.data(), (int)str.size());
  emitM("keyok", "keyok " + hex(str), ok ? "1" : "0");
  if (ok) {
    // what getArgsKey does: decode 24 characters into new u8_t[16]; ASan reports any write past the 16 bytes
    unsigned char *keyout = new unsigned char[16];
    base64_to_hex(c.data(), 24, keyout);
    emitM("keyok", "argkey " + hex(str), std::string("ok:") + hex(keyout, 16));
    delete[] keyout;
  }
}
static void suite_b64(Rng &rng) {
  for (int n = 0; n <= 64; n++) b64_enc_case(rng.buf(n));
  // three-byte groups: a sample (quick) / a larger sample (thorough), packed 16 groups per request
  long groups = tier_thorough() ? (1 << 20) : (1 << 14);
  for (long g = 0; g < groups / 16; g++) b64_enc_case(rng.buf(48));
  for (int a = 0; a < 256; a++) { bytes m = {(unsigned char)a, (unsigned char)(255 - a), (unsigned char)(a * 7)}; b64_enc_case(m); bytes m1 = {(unsigned char)a}; b64_enc_case(m1); bytes m2 = {(unsigned char)a, (unsigned char)(a ^ 0x5a)}; b64_enc_case(m2); }
  // validator grid
  const char *alpha = "ABCDEFGHIJKLMNOPQRSTUVWXYZabcdefghijklmnopqrstuvwxyz0123456789+/";
  auto rnd_alpha = [&](int n) { bytes s(n); for (auto &x : s) x = alpha[rng.below(64)]; return s; };
  for (int len = 0; len <= 40; len++) for (int eq = 0; eq <= 4 && eq <= len; eq++) {
    bytes s = rnd_alpha(len); for (int j = 0; j < eq; j++) s[len - 1 - j] = '='; key_case(s);
  }
  for (int pos = 0; pos < 24; pos++) {
    for (int v : {0x00, 0x20, 0x2d, 0x3d, 0x5f, 0x7f, 0x80, 0xc3, 0xff, 0x2e, 0x2a, 0x40, 0x5b, 0x60, 0x7b}) { bytes s = rnd_alpha(22); s.push_back('='); s.push_back('='); s[pos] = (unsigned char)v; key_case(s); }
  }
  for (int i = 0; i < 300; i++) { bytes k = rng.buf(16); bytes e = unhex(real_b64e(k)); e.pop_back(); key_case(e);
    // the printed key must be accepted and give the key back
    std::vector<unsigned char> c(e.begin(), e.end()); c.push_back(0);
    if (!is_valid_b64(c.data(), (int)e.size())) emitA("keyok", "C16", "printed key rejected key=" + hex(k));
    else { unsigned char *ko = new unsigned char[16]; base64_to_hex(c.data(), 24, ko); if (memcmp(ko, k.data(), 16)) emitA("keyok", "C16", "printed key decodes to a different key key=" + hex(k)); delete[] ko; }
  }
  for (int i = 0; i < 200; i++) { bytes s = rnd_alpha(24); int m = rng.below(4); if (m >= 1) s[23] = '='; if (m >= 2) s[22] = '='; if (m == 3) s[21] = '='; key_case(s); }
}

extern "C" void wencry_verif_point(int, int) {}

int main(int argc, char **argv) {
  { char buf[4096]; ssize_t n = readlink("/proc/self/exe", buf, sizeof buf - 1); g_self_exe = n > 0 ? std::string(buf, n) : std::string(argv[0]); }
  if (argc > 1 && std::string(argv[1]) == "firstuse-child") { g_proto = fopen("/dev/null", "w"); g_stagger = argc > 2 ? atol(argv[2]) : 0; return firstuse_child(); }
  proto_init();
  long seed = env_long("VERIF_SEED", 1);
  std::string which = argc > 1 ? argv[1] : "all";
  Rng rng((uint64_t)seed);
  emitI("prims", "hbuf", S(HB));
  if (which == "aes" || which == "all") suite_aes(rng);
  if (which == "mode" || which == "all") suite_mode(rng);
  if (which == "hash" || which == "all") suite_hash(rng);
  if (which == "hashmt") suite_hashmt(rng);
  if (which == "firstuse") suite_firstuse(rng);
  if (which == "hashbig") suite_hashbig(rng);
  if (which == "hmacbig") suite_hmacbig(rng);
  if (which == "ctrlong") suite_ctrlong(rng);
  if (which == "hmac" || which == "all") suite_hmac(rng);
  if (which == "b64" || which == "all") suite_b64(rng);
  fflush(g_proto);
  return 0;
}
