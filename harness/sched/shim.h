// Forced include (-include) for the scheduled flavour of the harness: replaces std::mutex / std::condition_variable /
// std::unique_lock / std::lock_guard / std::thread in the repository's translation units by cooperative versions driven by a
// deterministic scheduler. Exactly one thread runs at a time; the running thread gives up control only at scheduling points:
// before every mutex acquisition, at every condition wait (it blocks), at every hook point, at join and at thread exit.
// Spurious wake-ups: when `spur_budget` > 0 the scheduler occasionally makes a thread that sleeps in a condition wait runnable
// without any notification (std::condition_variable::wait is allowed to do that; the code must re-test its predicate).
// The repository's sources are not edited.
#pragma once
#include <mutex>
#include <condition_variable>
#include <thread>
#include <functional>
#include <string>
#include <iostream>
#include <iomanip>
#include <vector>
#include <map>
#include <chrono>
#include <algorithm>
#include <string.h>
#include <stdio.h>
#include <stdlib.h>
#include <stdint.h>
namespace vs {
struct Sched {
  enum St { RUN, BLK, DONE };
  struct T { St st; const void *on; bool cvwait = false; bool injected = false; };
  std::mutex m; std::condition_variable cv;                 // the baton (real primitives, used only here)
  std::vector<T> th; int cur = -1;
  uint64_t rng = 1; int strategy = 0;                        // 0: uniform random, 1: random priorities with change points (PCT-like)
  std::vector<int> prio; std::vector<long> change; long stepno = 0;
  std::vector<int> script; size_t script_pos = 0;            // optional scripted prefix of choices
  int spur_budget = 0; long spurious = 0;                    // spurious wake-ups still to inject into condition waits / injected so far
  std::string trace;
  void (*on_switch)(int self) = nullptr;                     // called by the running thread just before it gives up control
  void (*on_deadlock)(const std::string &trace) = nullptr;
  Sched() { th.reserve(256); prio.reserve(256); }
  static Sched &I() { static Sched s; return s; }
  static int &self() { static thread_local int id = -1; return id; }
  void ensure_main() { if (self() < 0) { self() = (int)th.size(); th.push_back({RUN, nullptr, false, false}); prio.push_back(1000); cur = self(); } }
  uint64_t next() { rng ^= rng << 13; rng ^= rng >> 7; rng ^= rng << 17; return rng >> 11; }
  int choose(const std::vector<int> &r) {
    if (script_pos < script.size()) { int want = script[script_pos++]; for (int x : r) if (x == want) return x; }
    if (strategy == 1) {
      for (long c : change) if (c == stepno && cur >= 0 && cur < (int)prio.size()) prio[cur] = -(int)(next() % 1000) - 1;
      int best = r[0]; for (int x : r) if (prio[x] > prio[best]) best = x; return best;
    }
    return r[next() % r.size()];
  }
  // caller holds the baton: choose the next runnable thread, wait until chosen again (unless final)
  void switch_away(bool final_) {
    if (on_switch) on_switch(self());
    std::unique_lock<std::mutex> lk(m);
    stepno++;
    // a condition wait may return without a notification: now and then wake one thread that sleeps in a condition wait
    if (spur_budget > 0 && next() % 6 == 0) {
      std::vector<int> w; for (size_t i = 0; i < th.size(); i++) if (th[i].st == BLK && th[i].cvwait) w.push_back((int)i);
      if (!w.empty()) { int x = w[next() % w.size()]; th[x].st = RUN; th[x].on = nullptr; th[x].cvwait = false; th[x].injected = true; spur_budget--; spurious++; }
    }
    std::vector<int> r; for (size_t i = 0; i < th.size(); i++) if (th[i].st == RUN) r.push_back((int)i);
    if (r.empty()) {
      bool alldone = true; for (auto &t : th) if (t.st != DONE) alldone = false;
      if (!alldone) { if (on_deadlock) on_deadlock(trace); fprintf(stderr, "SCHED DEADLOCK trace=%s\n", trace.c_str()); _Exit(42); }
      return;
    }
    int n = choose(r);
    trace += (char)('0' + n); cur = n; cv.notify_all();
    if (final_) return;
    int me = self(); cv.wait(lk, [&] { return cur == me; });
  }
  void point() { ensure_main(); switch_away(false); }
  void block_on(const void *o, bool cv = false) { ensure_main(); th[self()].st = BLK; th[self()].on = o; th[self()].cvwait = cv; switch_away(false); }
  void wake_all(const void *o) { for (auto &t : th) if (t.st == BLK && t.on == o) { t.st = RUN; t.on = nullptr; t.cvwait = false; } }
};
// A further scheduling point follows every acquisition (the owner may be descheduled while it holds the mutex: threads that need
// the mutex block, code that wrongly touches the protected state WITHOUT the mutex gets to run), and one precedes the release
// inside a condition wait (the window between testing the predicate and blocking, where a notify sent without the mutex is lost).
struct vmutex { bool locked = false;
  void lock() { auto &S = Sched::I(); S.point(); while (locked) S.block_on(this); locked = true; S.point(); }
  void unlock_raw() { locked = false; Sched::I().wake_all(this); }
  void unlock() { unlock_raw(); Sched::I().point(); } };   // a point follows every release (publish-then-recheck windows), except the release inside a condition wait, which is atomic with blocking
template <class M> struct vunique_lock { M *m; bool owns;
  explicit vunique_lock(M &mm) : m(&mm), owns(true) { m->lock(); } ~vunique_lock() { if (owns) m->unlock(); }
  void unlock() { m->unlock(); owns = false; } void unlock_raw() { m->unlock_raw(); owns = false; } void lock() { m->lock(); owns = true; } };
template <class M> struct vlock_guard { M &m; explicit vlock_guard(M &mm) : m(mm) { m.lock(); } ~vlock_guard() { m.unlock(); } };
struct vcondvar {
  template <class L> void wait(L &l) { Sched::I().point(); l.unlock_raw(); Sched::I().block_on(this, true); Sched::I().th[Sched::self()].injected = false; l.lock(); }
  template <class L, class P> void wait(L &l, P p) { while (!p()) wait(l); }
  // timed waits: time is abstract under the scheduler, so a timed wait may time out whenever the scheduler injects a wake-up
  // without a notification (same budget as spurious wake-ups); otherwise it behaves like wait
  template <class L> bool wait_timed(L &l) { auto &S = Sched::I(); S.point(); l.unlock_raw(); S.block_on(this, true); bool timed_out = S.th[Sched::self()].injected; S.th[Sched::self()].injected = false; l.lock(); return timed_out; }
  template <class L, class D> std::cv_status wait_for(L &l, const D &) { return wait_timed(l) ? std::cv_status::timeout : std::cv_status::no_timeout; }
  template <class L, class D, class P> bool wait_for(L &l, const D &, P p) { while (!p()) if (wait_timed(l)) return p(); return true; }
  template <class L, class D> std::cv_status wait_until(L &l, const D &) { return wait_timed(l) ? std::cv_status::timeout : std::cv_status::no_timeout; }
  template <class L, class D, class P> bool wait_until(L &l, const D &, P p) { while (!p()) if (wait_timed(l)) return p(); return true; }
  void notify_all() { Sched::I().wake_all(this); } void notify_one() { Sched::I().wake_all(this); } };
struct vthread { std::thread t; int id = -1; vthread() {}
  template <class F, class... A> explicit vthread(F &&f, A &&...a) {
    auto &S = Sched::I(); S.ensure_main();
    { std::unique_lock<std::mutex> lk(S.m); id = (int)S.th.size(); S.th.push_back({Sched::RUN, nullptr, false, false}); S.prio.push_back((int)(S.next() % 1000)); }
    int myid = id;
    t = std::thread([myid](auto fn, auto... args) {
      auto &S = Sched::I(); Sched::self() = myid;
      { std::unique_lock<std::mutex> lk(S.m); S.cv.wait(lk, [&] { return S.cur == myid; }); }
      fn(args...);
      S.th[myid].st = Sched::DONE; S.wake_all(&S.th[myid]); S.switch_away(true);
    }, std::forward<F>(f), std::forward<A>(a)...);
  }
  vthread(vthread &&) = default; vthread &operator=(vthread &&) = default;
  bool joinable() const { return t.joinable(); }
  void join() { auto &S = Sched::I(); S.point(); while (S.th[id].st != Sched::DONE) S.block_on(&S.th[id]); t.join(); } };
}
namespace std { using vs::vmutex; using vs::vunique_lock; using vs::vlock_guard; using vs::vcondvar; using vs::vthread; }
#define mutex vmutex
#define unique_lock vunique_lock
#define lock_guard vlock_guard
#define condition_variable vcondvar
#define thread vthread
